import IceModel.Basic
import IceModel.Spec.Seg
import IceModel.Spec.Iter
import IceModel.Driver.Parse
import IceModel.Driver.Run
