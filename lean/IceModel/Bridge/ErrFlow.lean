import IceModel.Gen.ErrFlow
import IceModel.Lemmas.ErrFlowCheck
/-
  Bridge: error flow of every function that returns an error (C12, C19).

  `Gen.ErrFlow.flows` lists, per function, the calls that can fail (`F`), calls whose error is
  discarded (`D`), returns (`R err` / `R nil`), jumps (`B`) and block structure.  `unchecked`
  collects every `F` that is NOT immediately followed by its check - `{ R err }`, possibly wrapping
  the error (`{ F R err }`), or returned directly (`F R err`).  The lists of exceptions are pinned:
  a change that lets an error escape its check (a `break` in front of it, an overwritten `err`, a
  dropped result) adds an entry, whatever the surrounding code looks like.

  `Ev`, `unchecked`, `dropped` live in `Lemmas/ErrFlowCheck.lean` (no dependence on the generated facts);
  this module holds the WHOLE-PACKAGE pinned lists; the per-area ones are in `Props/ErrFlowWrite.lean`,
  `Props/ErrFlowRead.lean`, `Props/ErrFlowPersist.lean`.
-/
namespace Ice.Bridge.ErrFlow
open Ice.Gen

def allUnchecked : List (String × String) :=
  ErrFlow.flows.flatMap (fun f => (unchecked f.2).map (fun c => (f.1, c)))

def allDropped : List (String × String) :=
  ErrFlow.flows.flatMap (fun f => (dropped f.2).map (fun c => (f.1, c)))

/-- the calls whose error is examined later, by a loop condition, together with another condition,
    or at the end of the function - each reviewed by hand and exercised by the fault legs; every
    other fallible call of the package is checked at once -/
theorem unchecked_pinned : allUnchecked =
    [("DictionaryIterator.Next", "Next"),
     ("PostingsIterator.nextAtOrAfter", "nextDocNumAtOrAfter"),
     ("Segment.Dictionary", "dictionary"),
     ("Segment.visitDocument", "ReadUvarint"),
     ("enumerator.Close", "Close"),
     ("enumerator.Next", "Next"),
     ("interim.reset", "Reset"),
     ("mergeTermFreqNormLocs", "Next"),
     ("mergeTermFreqNormLocs", "Next"),
     ("newWithChunkMode", "initSegmentBase"),
     ("persistMergedRestField", "newEnumerator"),
     ("persistMergedRestField", "Next"),
     ("setupActiveForField", "Iterator")] := by decide +kernel

/-- discarded error results: none of them comes from the destination writer or from storage
    (closing a chunk coder compresses into memory; `reset` of the pooled builder) - except the
    doc-value visit, whose error is turned into an empty result (what C19 allows) -/
theorem dropped_pinned : allDropped =
    [("Segment.visitDocumentFieldTerms", "visitDocValues"),
     ("chunkedIntCoder.Add", "Close"),
     ("finishTerm", "Close"),
     ("finishTerm", "Close"),
     ("interim.writeDictsTermField", "Close"),
     ("interim.writeDictsTermField", "Close"),
     ("newWithChunkMode", "reset")] := by decide +kernel

/-- the functions on the write path are among those analysed -/
theorem write_path_covered :
    ∀ f ∈ ["Segment.WriteTo", "Merger.WriteTo", "mergeToWriter", "persistMergedRest", "persistMergedRestField",
           "persistFooter", "persistFields", "writePostings", "mergeStoredAndRemap", "interim.convert",
           "interim.writeStoredFields", "interim.writeDicts"],
      f ∈ ErrFlow.flows.map (·.1) := by decide +kernel

end Ice.Bridge.ErrFlow
