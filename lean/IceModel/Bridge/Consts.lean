import IceModel.Gen.Consts
/-
  Bridge between facts regenerated from /repo (`Ice.Gen.*`) and what the model / property theorems
  assume. Decided by evaluation of the generated tables; see DESIGN.md section 2.4.
-/
namespace Ice.Bridge
open Ice.Gen

/-! ### format constants (C10; also C01, C05, C06, C07) -/

theorem consts_pinned :
    Consts.Version = 2 ∧ Consts.footerLen = 44 ∧
    Consts.crcWidth = 4 ∧ Consts.verWidth = 4 ∧ Consts.chunkWidth = 4 ∧ Consts.fdvOffsetWidth = 8 ∧
    Consts.fieldsOffsetWidth = 8 ∧ Consts.storedOffsetWidth = 8 ∧ Consts.numDocsWidth = 8 ∧
    Consts.legacyChunkMode = 1024 ∧ Consts.chunkModeV1 = 1025 ∧ Consts.defaultChunkMode = 1025 ∧
    Consts.maxDocsToScanSequentially = 1024 ∧ Consts.defaultDocumentChunkSize = 128 ∧
    Consts.fileAddrWidth = 8 ∧ Consts.termNotEncoded = 0 ∧ Consts.termSeparator = 255 ∧
    Consts.fieldNotUninverted = 2 ^ 64 - 1 ∧ Consts.docDropped = 2 ^ 63 - 1 ∧
    Consts.docNum1HitFinished = 2 ^ 64 - 1 ∧
    Consts.fSTValEncodingMask = 2 ^ 63 + 2 ^ 62 ∧ Consts.fSTValEncoding1Hit = 2 ^ 63 ∧
    Consts.mask31Bits = 2 ^ 31 - 1 ∧
    Consts.fieldDvStartWidth = 8 ∧ Consts.fieldDvEndWidth = 8 ∧ Consts.fieldDvStartEndWidth = 16 ∧
    Consts.lastByte = 128 ∧ Consts.significantBits = 127 ∧ Consts.sevenTimesNine = 63 := by
  decide

/-- the compression level is a valid zstd level; its value is deliberately not pinned (a file
    written with another level is still read identically) -/
theorem zstd_level_valid : 1 ≤ Consts.ZSTDCompressionLevel ∧ Consts.ZSTDCompressionLevel ≤ 22 := by
  decide

end Ice.Bridge
