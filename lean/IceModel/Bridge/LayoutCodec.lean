import IceModel.Bridge.LayoutCommon
/-
  Bridge: how the zstd encoder and decoder are set up (`zstd.go`).  The frame parameters a writer
  chooses (level only, default window) and the limits a reader imposes (none) are part of what
  "a version-2 file written by any ice version is readable by any other" (C10) depends on: an
  added decoder limit or a changed encoder option still round-trips within one version.  The FULL
  call lists (including the calls inside the `sync.Once` bodies) are pinned.
-/
namespace Ice.Bridge
open Ice.Gen

def allCallsOf (fn : String) : List String :=
  match Layout.calls.find? (fun p => p.1 == fn) with
  | some p => p.2
  | none => ["<function not found>"]

theorem layout_zstdCompress :
    allCallsOf "ZSTDCompress"
      = ["Do", "zstd.EncoderLevelFromZstd", "zstd.NewWriter", "zstd.WithEncoderLevel", "log.Panicf", "EncodeAll"] := by
  decide

theorem layout_zstdDecompress :
    allCallsOf "ZSTDDecompress" = ["Do", "zstd.NewReader", "log.Panicf", "DecodeAll"] := by decide

end Ice.Bridge
