import IceModel.Gen.Appends
/-
  Bridge (C02, C03, C08): `setupActiveForField` selects the input segments that have the field and
  builds FIVE parallel slices for them (document-number maps, deletion bitmaps, dictionaries, FST
  iterators, segments); `persistMergedRestField`, `prepareNewTerm` and `buildMergedDocVals` index
  all five by the same position (Model/MergeLoop.setupActive builds them as ONE list of records).
  Pinned here: every append of the five sits under the same two enclosing conditions, each slice is
  appended exactly once per selected segment (the deletion bitmap through a complementary
  if / else), and nothing else is appended.  Condition texts are compared with each other, not
  with literals, so renaming variables changes nothing.
-/
namespace Ice.Bridge
open Ice.Gen

def appendsOf (fn : String) : List (String × List String) :=
  match Appends.appends.find? (fun p => p.1 == fn) with
  | some p => p.2
  | none => [("<function not found>", [])]

/-- all appends share the selection conditions of the first one -/
def sameSelection (l : List (String × List String)) : Bool :=
  match l with
  | [] => false
  | e :: _ => 2 ≤ e.2.length && l.all (fun x => x.2.take 2 == e.2.take 2)

/-- slices appended under exactly the selection conditions, and those appended under one more
    condition `c` / its complement `!(c)` -/
def plainAppends (l : List (String × List String)) : List String :=
  (l.filter (fun x => x.2.length == 2)).map (·.1)

def splitAppends (l : List (String × List String)) : List (String × String) :=
  (l.filter (fun x => x.2.length == 3)).map (fun x => (x.1, x.2.getD 2 ""))

theorem appends_setupActiveForField_aligned :
    sameSelection (appendsOf "setupActiveForField") = true ∧
    plainAppends (appendsOf "setupActiveForField") = ["newDocNums", "dicts", "itrs", "segmentsInFocus"] ∧
    (appendsOf "setupActiveForField").length = 6 ∧
    (match splitAppends (appendsOf "setupActiveForField") with
     | [(a, c1), (b, c2)] => a == "drops" && b == "drops" && c2 == "!(" ++ c1 ++ ")"
     | _ => false) = true := by decide +kernel

end Ice.Bridge
