import IceModel.Gen.Reuse
/-
  Bridge (C14): the reuse sites of the BUILDER - the pooled `interim`, its coders, and the pool
  operations of `newWithChunkMode`.  See Bridge/Reuse for the whole inventory.
-/
namespace Ice.Bridge
open Ice.Gen

theorem reuse_builder_sites :
    Reuse.reslices.filter (fun s => s.1.startsWith "interim." || s.1.startsWith "chunked" && !s.1.startsWith "chunkedIntDecoder" || s.1 == "newWithChunkMode") =
    [("chunkedContentCoder.Add", "*chunkedContentCoder.chunkMeta"),
     ("chunkedContentCoder.Reset", "*chunkedContentCoder.chunkMeta"),
     ("chunkedContentCoder.Reset", "*chunkedContentCoder.final"),
     ("chunkedContentCoder.Write", "*chunkedContentCoder.final"),
     ("chunkedContentCoder.flushContents", "*chunkedContentCoder.final"),
     ("chunkedDocumentCoder.Reset", "*chunkedDocumentCoder.compressed"),
     ("chunkedDocumentCoder.Reset", "*chunkedDocumentCoder.offsets"),
     ("chunkedIntCoder.Reset", "*chunkedIntCoder.final"),
     ("interim.getOrDefineField", "*interim.DictKeys[]"),
     ("interim.reset", "*interim.DictKeys"),
     ("interim.reset", "*interim.DictKeys[]"),
     ("interim.reset", "*interim.Dicts"),
     ("interim.reset", "*interim.FreqNorms"),
     ("interim.reset", "*interim.IncludeDocValues"),
     ("interim.reset", "*interim.Locs"),
     ("interim.reset", "*interim.Postings"),
     ("interim.reset", "*interim.freqNormsBacking"),
     ("interim.reset", "*interim.locsBacking"),
     ("interim.reset", "*interim.numLocsPerPostingsList"),
     ("interim.reset", "*interim.numTermsPerPostingsList"),
     ("interim.reset", "*interim.tmp0"),
     ("interim.reset", "*interim.tmp1"),
     ("interim.writeDictsField", "[][]byte[]"),
     ("interim.writeStoredFields", "*interim.tmp0"),
     ("interim.writeStoredFields", "*interim.tmp1"),
     ("interim.writeStoredFields", "[]byte")] := by decide +kernel

theorem reuse_builder_pool :
    Reuse.poolOps.filter (fun p => p.2.1 == "interimPool") =
    [("newWithChunkMode", "interimPool", "Get"), ("newWithChunkMode", "interimPool", "Put")] := by decide +kernel

end Ice.Bridge
