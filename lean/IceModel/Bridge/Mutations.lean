import IceModel.Gen.Mutations
/-
  Bridge between facts regenerated from /repo (`Ice.Gen.*`) and what the model / property theorems
  assume. Decided by evaluation of the generated tables; see DESIGN.md section 2.4.
-/
namespace Ice.Bridge
open Ice.Gen

/-! ### bitmap mutation sites (C15) -/

/-- bitmaps ice may modify: ones it allocated, the builder's own, a postings list's own, and the
    documented output parameter of `OrInto` -/
def ownedOrigins : List (String × String) :=
  [("fresh", ""), ("field", "interim.Postings"), ("field", "PostingsList.postings"),
   ("entry-param", "PostingsList.OrInto#0")]

theorem mutations_owned : ∀ m ∈ Mutations.mutatedRoots, (m.2.2.1, m.2.2.2) ∈ ownedOrigins := by decide

end Ice.Bridge
