import IceModel.Gen.Shared
/-
  Bridge between facts regenerated from /repo (`Ice.Gen.*`) and what the model / property theorems
  assume. Decided by evaluation of the generated tables; see DESIGN.md section 2.4.
-/
namespace Ice.Bridge
open Ice.Gen

/-! ### shared state of a segment (C09) -/

/-- functions that run only while the segment is being constructed (not yet shared) -/
def ctorFuncs : List String :=
  ["load", "initSegmentBase", "Segment.loadFields", "Segment.loadStoredFieldChunk",
   "Segment.loadDvReaders", "Segment.updateSize"]

/-- every store into a Segment field is under the mutex or happens during construction -/
theorem segment_writes_disciplined :
    ∀ w ∈ Shared.segmentWrites, w.2.2 = true ∨ w.1 ∈ ctorFuncs := by decide

/-- the only store under the mutex is the FST cache fill the concurrency model describes -/
theorem segment_locked_writes :
    Shared.segmentWrites.filter (fun w => w.2.2) = [("Segment.dictionary", "fieldFSTs", true)] := by
  decide

/-- the constructor-only functions are called from constructors only -/
theorem ctor_callers :
    ∀ p ∈ Shared.unlockedWriterCallers, p.1 ∈ ctorFuncs ∧ ∀ c ∈ p.2, c ∈ ctorFuncs := by decide

/-- package-level variables are written only by `init` or inside a `sync.Once.Do` body -/
theorem package_vars_once :
    ∀ w ∈ Shared.packageVarWrites, w.2.2 = true ∨ w.1 = "init" := by decide

/-- state-changing doc-value reader methods are only ever invoked on per-call clones -/
theorem dv_readers_cloned : ∀ c ∈ Shared.dvReaderMutatorCalls, c.2.2 = "clone" := by decide

/-- the readers a `DocumentValueReader` works on are clones, never the segment's own -/
theorem dv_reader_map_clones : ∀ s ∈ Shared.dvReaderMapStores, s.2 = "clone" := by decide

end Ice.Bridge
