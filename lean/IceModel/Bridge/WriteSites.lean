import IceModel.Gen.WriteSites
/-
  Bridge between facts regenerated from /repo (`Ice.Gen.*`) and what the model / property theorems
  assume. Decided by evaluation of the generated tables; see DESIGN.md section 2.4.
-/
namespace Ice.Bridge
open Ice.Gen

/-! ### write path (C12) -/

/-- calls whose error result may be discarded: none of them reaches the destination writer
    (`Close` of the chunk coders only compresses into memory; doc-value visiting is a read) -/
def allowedDropped : List (String × String) :=
  [("Segment.visitDocumentFieldTerms", "dvr.visitDocValues"), ("chunkedIntCoder.Add", "c.Close"),
   ("finishTerm", "locEncoder.Close"), ("finishTerm", "tfEncoder.Close"),
   ("interim.writeDictsTermField", "locEncoder.Close"), ("interim.writeDictsTermField", "tfEncoder.Close")]

theorem dropped_errors_allowed : ∀ d ∈ WriteSites.droppedErrors, d ∈ allowedDropped := by decide

theorem unchecked_errors_allowed :
    ∀ d ∈ WriteSites.uncheckedErrors, d ∈ [("enumerator.Close", "itr.Close")] := by decide

/-- every cancellation poll answers a closed channel with `segment.ErrClosed` -/
theorem polls_return_errclosed : ∀ p ∈ WriteSites.closePolls, p.2.2 = true := by decide

/-- both `WriteTo`s flush their bufio writer (and the result is examined: it is neither in
    `droppedErrors` nor in `uncheckedErrors`) -/
theorem flush_examined :
    "Merger.WriteTo" ∈ WriteSites.flushCalls.map (·.1) ∧ "Segment.WriteTo" ∈ WriteSites.flushCalls.map (·.1) ∧
    (∀ d ∈ WriteSites.droppedErrors ++ WriteSites.uncheckedErrors, d.2 ≠ "bw.Flush") := by decide

end Ice.Bridge
