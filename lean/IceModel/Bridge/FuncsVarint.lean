import IceModel.Gen.FuncsVarint
import IceModel.Lemmas.Varint
/-
  Bridge: the generated renderings of `numUvarintBytes` (a shrinking loop, rendered with fuel 64)
  and `totalUvarintBytes` equal the model's definitions (and hence the length of what
  `PutUvarint` writes).
-/
namespace Ice.Bridge
open Ice

private theorem loop_spec : ∀ (fuel x n : Nat), x < 2 ^ (7 * fuel) →
    (Gen.numUvarintBytes_loop1 fuel x n).2 + 1 = n + Model.numUvarintBytes x := by
  intro fuel
  induction fuel with
  | zero =>
    intro x n hx
    have : x = 0 := by simpa using hx
    subst this
    simp [Gen.numUvarintBytes_loop1, Model.numUvarintBytes]
  | succ f ih =>
    intro x n hx
    unfold Gen.numUvarintBytes_loop1
    by_cases h : x ≥ 128
    · have hx' : x >>> 7 < 2 ^ (7 * f) := by
        rw [Nat.shiftRight_eq_div_pow]
        have e : 2 ^ (7 * (f + 1)) = 2 ^ (7 * f) * 2 ^ 7 := by
          rw [show 7 * (f + 1) = 7 * f + 7 by omega, Nat.pow_add]
        rw [e] at hx
        exact Nat.div_lt_of_lt_mul (by rw [Nat.mul_comm]; exact hx)
      have := ih (x >>> 7) (n + 1) hx'
      have hm : Model.numUvarintBytes x = Model.numUvarintBytes (x / 128) + 1 := by
        rw [Model.numUvarintBytes]; simp [show ¬ x < 128 by omega]
      have h27 : (2 : Nat) ^ 7 = 128 := by decide
      rw [Nat.shiftRight_eq_div_pow, h27] at this
      simp only [Id.run, pure, h, decide_true, if_true]
      rw [Nat.shiftRight_eq_div_pow, h27, hm]
      omega
    · have hm : Model.numUvarintBytes x = 1 := by
        rw [Model.numUvarintBytes]; simp [show x < 128 by omega]
      simp only [Id.run, h, decide_false, hm]
      show n + 1 = n + 1
      rfl

theorem numUvarintBytes_eq (x : Nat) (hx : x < 2 ^ 64) :
    Gen.numUvarintBytes x = Model.numUvarintBytes x := by
  have h := loop_spec 64 x 0 (Nat.lt_of_lt_of_le hx (Nat.pow_le_pow_right (by omega) (by omega)))
  simp only [Gen.numUvarintBytes, Id.run, pure, bind]
  omega

/-- … which is the number of bytes `PutUvarint` writes -/
theorem numUvarintBytes_is_length (x : Nat) (hx : x < 2 ^ 64) :
    Gen.numUvarintBytes x = (Model.putUvarint x).length := by
  rw [numUvarintBytes_eq x hx, Model.numUvarintBytes_eq_length]

theorem totalUvarintBytes_eq (a b c d : Nat) (ha : a < 2 ^ 64) (hb : b < 2 ^ 64) (hc : c < 2 ^ 64)
    (hd : d < 2 ^ 64) :
    Gen.totalUvarintBytes a b c d =
      Model.numUvarintBytes a + Model.numUvarintBytes b + Model.numUvarintBytes c + Model.numUvarintBytes d := by
  simp only [Gen.totalUvarintBytes, Id.run, pure, bind, numUvarintBytes_eq, ha, hb, hc, hd]

end Ice.Bridge
