import IceModel.Gen.Events
/-
  Bridge for the reader-side cache model (`Model/CacheFault.lean`, property C19): the ordered
  cache-relevant events of the storage-reading loaders, as extracted from the Go source by the
  translator (`Ice.Gen.Events.events`), are pinned here.  The loaders of the model perform their
  field updates and fallible steps in exactly these orders (each model definition quotes its list);
  a source change that reorders, adds or removes an assignment or a fallible call breaks the
  corresponding theorem below.

  `F:<callee>` a call that can fail, `A:<field>` assignment to a receiver field, `M:<field.method>`
  mutating method call on a field, `R:nil` / `R:err` returns, `{` `}` conditional / loop bodies.
-/
namespace Ice.Bridge
open Ice.Gen

/-- the event list of a function (empty when the function is not in the table) -/
def eventsOf (fn : String) : List String :=
  match Events.events.find? (fun p => p.1 == fn) with
  | some p => p.2
  | none => []

/-- `chunkedIntDecoder.loadChunk`: not-encoded shortcut (only `r` is set); missing chunk = error
    before any read; then read, decompress (the temp buffer is assigned even on error), and only
    after both succeeded `curChunkBytes` and the reader `r` -/
theorem events_decoderLoadChunk : eventsOf "chunkedIntDecoder.loadChunk" =
    ["{", "A:r", "R:nil", "}", "{", "F:Errorf", "R:err", "}", "F:Read", "{", "R:err", "}",
     "F:ZSTDDecompress", "A:uncompressed", "{", "R:err", "}", "A:curChunkBytes",
     "{", "A:r", "}", "{", "M:r.Reset", "}", "R:nil"] := by decide

/-- `PostingsIterator.loadChunk`: freq/norm load, return on error; location load, on error
    invalidate the freq/norm bytes (repair 0ab4d30) and return; only then `currChunk` -/
theorem events_postingsLoadChunk : eventsOf "PostingsIterator.loadChunk" =
    ["{", "F:loadChunk", "{", "R:err", "}", "}",
     "{", "F:loadChunk", "{", "{", "A:freqNormReader.curChunkBytes", "}", "R:err", "}", "}",
     "A:currChunk", "R:nil"] := by decide

/-- `docValueReader.loadDvChunk`: empty-chunk shortcut; INVALIDATION of the key (repair
    F-C19-dvheader) before anything fallible; read of numDocs; resize of the header
    (fresh or resliced) BEFORE the per-entry reads; per entry: read, DocNum (twice: raw, then plus
    the running sum), read, DocDvOffset (twice); the data read; only then data, key, and the
    invalidation of the decompressed copy -/
theorem events_loadDvChunk : eventsOf "docValueReader.loadDvChunk" =
    ["{", "A:curChunkHeader", "A:curChunkData", "A:curChunkNum", "A:uncompressed", "R:nil", "}",
     "A:curChunkNum", "F:Read", "{", "R:err", "}", "{", "F:Errorf", "R:err", "}",
     "{", "A:curChunkHeader", "}", "{", "A:curChunkHeader", "}",
     "{", "F:Read", "{", "R:err", "}", "A:curChunkHeader.DocNum", "A:curChunkHeader.DocNum",
          "F:Read", "{", "R:err", "}", "A:curChunkHeader.DocDvOffset", "A:curChunkHeader.DocDvOffset", "}",
     "F:Read", "{", "R:err", "}", "A:curChunkData", "A:curChunkNum", "A:uncompressed", "R:nil"] := by decide

/-- `docValueReader.visitDocValues`: not found / empty range = nothing; decompress only when no
    decompressed copy is cached, and cache it only on success; no storage read -/
theorem events_visitDocValues : eventsOf "docValueReader.visitDocValues" =
    ["{", "R:nil", "}", "{", "F:ZSTDDecompress", "{", "R:err", "}", "A:uncompressed", "}", "R:nil"] := by decide

/-- `Segment.getDocStoredOffsets` (after fix f904785): three fallible steps, NO assignment to any
    receiver field - there is no cache to leave half filled -/
theorem events_getDocStoredOffsets : eventsOf "Segment.getDocStoredOffsets" =
    ["F:getDocStoredOffsetsOnly", "{", "R:err", "}", "F:Read", "{", "R:err", "}",
     "F:ZSTDDecompress", "{", "R:err", "}", "R:nil"] := by decide

/-- every event of `getDocStoredOffsets` is a fallible call, a brace or a return: nothing is cached -/
theorem getDocStoredOffsets_no_cache :
    ∀ e ∈ eventsOf "Segment.getDocStoredOffsets",
      e ∈ ["F:getDocStoredOffsetsOnly", "F:Read", "F:ZSTDDecompress", "{", "}", "R:err", "R:nil"] := by
  rw [events_getDocStoredOffsets]; decide

end Ice.Bridge
