import IceModel.Gen.FuncsChunk
import IceModel.Model.Bits
/-
  Bridge: the operator-by-operator rendering generated from the Go source (`Ice.Gen.*`) equals the
  arithmetic definition the proofs use (`Ice.Model.*`), on the value ranges the code works with.
-/
namespace Ice.Bridge
open Ice

theorem getChunkSize_eq (m c d : Nat) (hm : m < 2 ^ 64) (hc : c < 2 ^ 64) :
    Gen.getChunkSize m c d = Model.getChunkSize m c d := by
  simp only [Gen.getChunkSize, Model.getChunkSize, Id.run, Gen.Consts.legacyChunkMode,
    Gen.Consts.chunkModeV1, Gen.Consts.maxDocsToScanSequentially, Gen.w64, pure, bind]
  have h1 : m % 2 ^ 64 = m := Nat.mod_eq_of_lt hm
  have h2 : (c / 1024 + 1) % 2 ^ 64 = c / 1024 + 1 := Nat.mod_eq_of_lt (by omega)
  by_cases hle : m ≤ 1024
  · simp [hle, h1]
  · by_cases heq : m = 1025
    · subst heq; simp [h2]
    · simp [hle, heq]

end Ice.Bridge
