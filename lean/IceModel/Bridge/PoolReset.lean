import IceModel.Gen.PoolReset
/-
  Bridge between facts regenerated from /repo (`Ice.Gen.*`) and what the model / property theorems
  assume. Decided by evaluation of the generated tables; see DESIGN.md section 2.4.
-/
namespace Ice.Bridge
open Ice.Gen

/-! ### builder pool (C14) -/

/-- the reset plan the pool invariant is proved about -/
def resetPlan : List (String × List String) :=
  [("results", ["nil"]), ("chunkMode", ["zero"]), ("w", ["nil"]), ("FieldsMap", ["nil"]),
   ("FieldsInv", ["nil"]), ("Dicts", ["zero-elems", "trunc"]), ("DictKeys", ["trunc-elems", "trunc"]),
   ("IncludeDocValues", ["zero-elems", "trunc"]), ("Postings", ["call-elems:Clear", "trunc"]),
   ("FreqNorms", ["trunc"]), ("freqNormsBacking", ["zero-elems", "trunc"]), ("Locs", ["trunc"]),
   ("locsBacking", ["zero-elems", "trunc"]), ("numTermsPerPostingsList", ["trunc"]),
   ("numLocsPerPostingsList", ["trunc"]), ("builderBuf", ["call:Reset"]), ("builder", ["call:Reset"]),
   ("metaBuf", ["call:Reset"]), ("tmp0", ["trunc"]), ("tmp1", ["trunc"]), ("lastNumDocs", ["zero"]),
   ("lastOutSize", ["zero"])]

theorem reset_plan_pinned : PoolReset.resetPlan = resetPlan := by decide

/-- every field of the pooled object is reset, or unconditionally re-made before use -/
theorem reset_covers_all_fields :
    ∀ f ∈ PoolReset.interimFields, f ∈ PoolReset.resetPlan.map (·.1) ∨ f ∈ PoolReset.remade := by decide


end Ice.Bridge
