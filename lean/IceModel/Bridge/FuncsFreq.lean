import IceModel.Gen.FuncsFreq
import IceModel.Model.Bits
/-
  Bridge: the operator-by-operator rendering generated from the Go source (`Ice.Gen.*`) equals the
  arithmetic definition the proofs use (`Ice.Model.*`), on the value ranges the code works with.
-/
namespace Ice.Bridge
open Ice

theorem decodeFreqHasLocs_eq (v : Nat) : Gen.decodeFreqHasLocs v = Model.decodeFreqHasLocs v := by
  simp only [Gen.decodeFreqHasLocs, Model.decodeFreqHasLocs, Id.run, pure, bind]
  rw [Nat.shiftRight_eq_div_pow, Nat.and_one_is_mod]

theorem encodeFreqHasLocs_eq (f : Nat) (b : Bool) :
    Gen.encodeFreqHasLocs f b = Model.encodeFreqHasLocs f b := by
  have hshift : f <<< 1 = f * 2 := by rw [Nat.shiftLeft_eq]
  cases b
  · simp [Gen.encodeFreqHasLocs, Model.encodeFreqHasLocs, Id.run, Gen.w64, Model.two64, hshift]
    rfl
  · simp only [Gen.encodeFreqHasLocs, Model.encodeFreqHasLocs, Id.run, Gen.w64, Model.two64, hshift,
      pure, bind, if_true]
    -- an even number OR 1 is that number plus 1
    have hev : f * 2 % 2 ^ 64 = (f * 2 % 2 ^ 64 / 2) <<< 1 := by
      rw [Nat.shiftLeft_eq]; omega
    show (f * 2 % 2 ^ 64 ||| 1) = f * 2 % 2 ^ 64 + 1
    rw [hev, ← Nat.shiftLeft_add_eq_or_of_lt (by omega : (1:Nat) < 2 ^ 1)]

end Ice.Bridge
