import IceModel.Bridge.LayoutCommon
/-
  Bridge: call order of the container-layout functions (see Bridge/LayoutCommon).
-/
namespace Ice.Bridge
open Ice.Gen

/-- merger: field list, document count, stored section + maps, dictionaries, fields section -/
theorem layout_mergeToWriter :
    callsOf "mergeToWriter" ["mergeFields", "computeNewDocCount", "mergeStoredAndRemap", "persistMergedRest", "persistFields"]
      = ["mergeFields", "computeNewDocCount", "mergeStoredAndRemap", "persistMergedRest", "persistFields"] := by decide

theorem layout_mergeBases :
    callsOf "mergeSegmentBasesWriter" ["newCountHashWriter", "mergeToWriter", "Sum32", "persistFooter", "Count"]
      = ["newCountHashWriter", "mergeToWriter", "Sum32", "persistFooter", "Count"] := by decide

/-- the visit context is taken from its pool once and returned once -/
theorem layout_mergeStored :
    callsOf "mergeStoredAndRemap" ["Get", "Put", "newChunkedDocumentCoder", "copyStoredDocs", "mergeStoredAndRemapSegment", "Write", "binary.Write"]
      = ["Get", "Put", "newChunkedDocumentCoder", "copyStoredDocs", "mergeStoredAndRemapSegment", "Write", "binary.Write"] := by decide

theorem layout_mergeRestField :
    callsOf "persistMergedRestField"
      ["setupActiveForField", "newEnumerator", "finishTerm", "prepareNewTerm", "postingsListFromOffset", "iterator",
       "mergeTermFreqNormLocs", "writeMergedDict", "buildMergedDocVals"]
      = ["setupActiveForField", "newEnumerator", "finishTerm", "prepareNewTerm", "postingsListFromOffset", "iterator",
         "mergeTermFreqNormLocs", "finishTerm", "writeMergedDict", "buildMergedDocVals"] := by decide

theorem layout_finishTerm :
    callsOf "finishTerm" ["Close", "writePostings", "Insert", "Clear", "Reset"]
      = ["Close", "Close", "writePostings", "Insert", "Clear", "Reset", "Reset"] := by decide

end Ice.Bridge
