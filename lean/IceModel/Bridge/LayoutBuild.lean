import IceModel.Bridge.LayoutCommon
/-
  Bridge: call order of the container-layout functions (see Bridge/LayoutCommon).
-/
namespace Ice.Bridge
open Ice.Gen

/-- builder: stored section, dictionaries (+ doc values), fields section -/
theorem layout_convert :
    callsOf "interim.convert" ["prepareDicts", "processDocuments", "writeStoredFields", "writeDicts", "persistFields"]
      = ["prepareDicts", "processDocuments", "writeStoredFields", "writeDicts", "persistFields"] := by decide

theorem layout_new :
    callsOf "newWithChunkMode" ["Get", "convert", "Sum32", "initSegmentBase", "reset", "Put"]
      = ["Get", "convert", "Sum32", "initSegmentBase", "reset", "Put"] := by decide

/-- per field: terms, then the dictionary, then the doc values -/
theorem layout_writeDictsField :
    callsOf "interim.writeDictsField" ["writeDictsTermField", "newChunkedContentCoder", "Add"]
      = ["writeDictsTermField", "newChunkedContentCoder", "Add"] := by decide

/-- per term: chunk size, entries, both streams closed, postings record, FST insert, coder reset -/
theorem layout_writeDictsTermField :
    callsOf "interim.writeDictsTermField"
      ["getChunkSize", "SetChunkSize", "encodeFreqHasLocs", "totalUvarintBytes", "Close", "writePostings", "Insert", "Reset"]
      = ["getChunkSize", "SetChunkSize", "SetChunkSize", "encodeFreqHasLocs", "totalUvarintBytes", "Close", "Close",
         "writePostings", "Insert", "Reset", "Reset"] := by decide

/-- postings record: freq/norm stream, location stream, then the record with the bitmap -/
theorem layout_writePostings :
    callsOf "writePostings" ["use1HitEncoding", "fSTValEncode1Hit", "writeAt", "binary.PutUvarint", "writeRoaringWithLen"]
      = ["use1HitEncoding", "fSTValEncode1Hit", "writeAt", "writeAt", "binary.PutUvarint", "binary.PutUvarint",
         "binary.PutUvarint", "writeRoaringWithLen"] := by decide

theorem layout_persistFields :
    callsOf "persistFields" ["writeUvarints", "Write", "binary.Write"]
      = ["writeUvarints", "Write", "writeUvarints", "binary.Write"] := by decide

end Ice.Bridge
