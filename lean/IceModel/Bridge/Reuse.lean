import IceModel.Gen.Reuse
/-
  Bridge: the inventory of memory-reuse sites (C09, C13, C14, C15).

  Every buffer the package keeps for reuse (a re-slice to length zero) and every sync.Pool
  operation is a place where state of an earlier use, or an alias into a value handed out earlier,
  can leak.  The models account for exactly these sites (Model/Pool: `interim.reset` and the pooled
  builder; Model/Stored: the visit context; Model/DocValues: `cloneInto`, `loadDvChunk`;
  Model/ChunkBytes: coder `Reset`; Model/Iter*: `nextLocs`; Model/MergeRest: `vals[i]`, `data`).
  A new reuse site - `fields[:0]` on a list that aliases a segment's field table, a builder field
  that keeps its backing array across `reset`, a second `Put` - is not covered by them and changes
  this inventory.  Expressions are rendered with variables replaced by their types.
-/
namespace Ice.Bridge
open Ice.Gen

theorem reuse_reslices : Reuse.reslices =
    [("PostingsIterator.nextAtOrAfter", "*PostingsIterator.nextSegmentLocs"),
      ("PostingsList.iterator", "*PostingsIterator.nextLocs"),
      ("PostingsList.iterator", "*PostingsIterator.nextSegmentLocs"),
      ("ZSTDCompress", "[]byte"),
      ("ZSTDDecompress", "[]byte"),
      ("chunkedContentCoder.Add", "*chunkedContentCoder.chunkMeta"),
      ("chunkedContentCoder.Reset", "*chunkedContentCoder.chunkMeta"),
      ("chunkedContentCoder.Reset", "*chunkedContentCoder.final"),
      ("chunkedContentCoder.Write", "*chunkedContentCoder.final"),
      ("chunkedContentCoder.flushContents", "*chunkedContentCoder.final"),
      ("chunkedDocumentCoder.Reset", "*chunkedDocumentCoder.compressed"),
      ("chunkedDocumentCoder.Reset", "*chunkedDocumentCoder.offsets"),
      ("chunkedIntCoder.Reset", "*chunkedIntCoder.final"),
      ("chunkedIntDecoder.reset", "*chunkedIntDecoder.chunkOffsets"),
      ("chunkedIntDecoder.reset", "*chunkedIntDecoder.curChunkBytes"),
      ("chunkedIntDecoder.reset", "*chunkedIntDecoder.uncompressed"),
      ("docValueReader.cloneInto", "*docValueReader.curChunkHeader"),
      ("docValueReader.cloneInto", "*docValueReader.uncompressed"),
      ("docValueReader.loadDvChunk", "*docValueReader.curChunkHeader"),
      ("docValueReader.loadDvChunk", "*docValueReader.uncompressed"),
      ("enumerator.updateMatches", "*enumerator.lowIdxs"),
      ("interim.getOrDefineField", "*interim.DictKeys[]"),
      ("interim.reset", "*interim.DictKeys"),
      ("interim.reset", "*interim.DictKeys[]"),
      ("interim.reset", "*interim.Dicts"),
      ("interim.reset", "*interim.FreqNorms"),
      ("interim.reset", "*interim.IncludeDocValues"),
      ("interim.reset", "*interim.Locs"),
      ("interim.reset", "*interim.Postings"),
      ("interim.reset", "*interim.freqNormsBacking"),
      ("interim.reset", "*interim.locsBacking"),
      ("interim.reset", "*interim.numLocsPerPostingsList"),
      ("interim.reset", "*interim.numTermsPerPostingsList"),
      ("interim.reset", "*interim.tmp0"),
      ("interim.reset", "*interim.tmp1"),
      ("interim.writeDictsField", "[][]byte[]"),
      ("interim.writeStoredFields", "*interim.tmp0"),
      ("interim.writeStoredFields", "*interim.tmp1"),
      ("interim.writeStoredFields", "[]byte"),
      ("mergeStoredAndRemapSegment", "[][][]byte[]"),
      ("mergeStoredAndRemapSegment", "[]byte"),
      ("persistMergedRestField", "[]byte")] := by decide +kernel

theorem reuse_poolOps : Reuse.poolOps =
    [("Segment.VisitStoredFields", "visitDocumentCtxPool", "Get"),
      ("Segment.VisitStoredFields", "visitDocumentCtxPool", "Put"),
      ("mergeStoredAndRemap", "visitDocumentCtxPool", "Get"),
      ("mergeStoredAndRemap", "visitDocumentCtxPool", "Put"),
      ("newWithChunkMode", "interimPool", "Get"),
      ("newWithChunkMode", "interimPool", "Put")] := by decide +kernel

end Ice.Bridge
