import IceModel.Gen.Locks
/-
  Bridge between facts regenerated from /repo (`Ice.Gen.*`) and what the model / property theorems
  assume. Decided by evaluation of the generated tables; see DESIGN.md section 2.4.
-/
namespace Ice.Bridge
open Ice.Gen

/-! ### the segment mutex (C19, C09) -/

/-- every exit of every function that takes the mutex releases it -/
theorem locks_released : ∀ e ∈ Locks.exits, e.2.2 = false := by decide

theorem locks_unambiguous : Locks.ambiguousJoins = [] := by decide

/-- no callback (function-typed value) is invoked while the mutex is held -/
theorem no_callback_under_lock : Locks.callbacksUnderLock = [] := by decide

end Ice.Bridge
