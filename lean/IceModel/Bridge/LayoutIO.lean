import IceModel.Bridge.LayoutCommon
/-
  Bridge: call order of the container-layout functions (see Bridge/LayoutCommon).
-/
namespace Ice.Bridge
open Ice.Gen

/-- persist: data through the hashing writer, footer from the fresh checksum, flush -/
theorem layout_segmentWriteTo :
    callsOf "Segment.WriteTo" ["newCountHashWriter", "WriteTo", "Sum32", "persistFooter", "Flush"]
      = ["newCountHashWriter", "WriteTo", "Sum32", "persistFooter", "Flush"] := by decide

theorem layout_load :
    callsOf "load" ["parseFooter", "Slice", "loadFields", "loadStoredFieldChunk", "loadDvReaders"]
      = ["parseFooter", "Slice", "loadFields", "loadStoredFieldChunk", "loadDvReaders"] := by decide

end Ice.Bridge
