import IceModel.Gen.Funcs1Hit
import IceModel.Model.Bits
/-
  Bridge: the operator-by-operator rendering generated from the Go source (`Ice.Gen.*`) equals the
  arithmetic definition the proofs use (`Ice.Model.*`), on the value ranges the code works with.
-/
namespace Ice.Bridge
open Ice

private theorem and_mask31 (x : Nat) : 2147483647 &&& x = x % 2 ^ 31 := by
  rw [Nat.and_comm]
  exact Nat.and_two_pow_sub_one_eq_mod x 31

theorem under32Bits_eq (x : Nat) : Gen.under32Bits x = Model.under32Bits x := by
  simp [Gen.under32Bits, Model.under32Bits, Gen.Consts.mask31Bits, Model.mask31, Id.run]
  rfl

theorem fSTValDecode1Hit_eq (v : Nat) : Gen.fSTValDecode1Hit v = Model.decode1Hit v := by
  simp only [Gen.fSTValDecode1Hit, Model.decode1Hit, Id.run, Gen.Consts.mask31Bits, pure, bind]
  rw [and_mask31, and_mask31, Nat.shiftRight_eq_div_pow]

theorem fSTValEncode1Hit_eq (d n : Nat) : Gen.fSTValEncode1Hit d n = Model.encode1Hit d n := by
  simp only [Gen.fSTValEncode1Hit, Model.encode1Hit, Id.run, Gen.Consts.mask31Bits,
    Gen.Consts.fSTValEncoding1Hit, Gen.w64, pure]
  rw [and_mask31, and_mask31]
  have hn : n % 2 ^ 31 < 2 ^ 31 := Nat.mod_lt _ (by omega)
  have hd : d % 2 ^ 31 < 2 ^ 31 := Nat.mod_lt _ (by omega)
  have hsh : (n % 2 ^ 31) <<< 31 = n % 2 ^ 31 * 2 ^ 31 := Nat.shiftLeft_eq _ _
  have hlt : (n % 2 ^ 31) <<< 31 % 2 ^ 64 = (n % 2 ^ 31) <<< 31 := by
    apply Nat.mod_eq_of_lt; rw [hsh]; omega
  rw [hlt]
  -- (n' <<< 31) ||| d' = n' <<< 31 + d'
  have h1 : (9223372036854775808 ||| (n % 2 ^ 31) <<< 31) ||| d % 2 ^ 31
      = 9223372036854775808 ||| ((n % 2 ^ 31) <<< 31 ||| d % 2 ^ 31) := Nat.or_assoc _ _ _
  rw [h1, ← Nat.shiftLeft_add_eq_or_of_lt hd]
  have h2 : (9223372036854775808 : Nat) = 1 <<< 63 := by decide
  have hrest : (n % 2 ^ 31) <<< 31 + d % 2 ^ 31 < 2 ^ 63 := by rw [hsh]; omega
  rw [h2, ← Nat.shiftLeft_add_eq_or_of_lt hrest, hsh]
  have : (1 : Nat) <<< 63 = 2 ^ 63 := by decide
  omega

/-- the branch test of `PostingsList.read` is "top two bits are 10" -/
theorem read_is1Hit_eq (p : Nat) (hp : p < 2 ^ 64) : Gen.read_is1Hit p = Model.is1Hit p := by
  simp only [Gen.read_is1Hit, Model.is1Hit, Gen.Consts.fSTValEncodingMask,
    Gen.Consts.fSTValEncoding1Hit, Model.two64]
  rw [Nat.mod_eq_of_lt hp]
  -- write x = p &&& mask; its low 62 bits vanish, its high part is (p / 2^62) &&& 3
  have hlow : (p &&& 13835058055282163712) % 2 ^ 62 = 0 := by
    rw [← Nat.and_two_pow_sub_one_eq_mod, Nat.and_assoc]
    have : (13835058055282163712 : Nat) &&& (2 ^ 62 - 1) = 0 := by decide
    rw [this, Nat.and_zero]
  have hhigh : (p &&& 13835058055282163712) / 2 ^ 62 = (p / 2 ^ 62) % 4 := by
    rw [← Nat.shiftRight_eq_div_pow, Nat.shiftRight_and_distrib, Nat.shiftRight_eq_div_pow,
      Nat.shiftRight_eq_div_pow]
    have : (13835058055282163712 : Nat) / 2 ^ 62 = 2 ^ 2 - 1 := by decide
    rw [this, Nat.and_two_pow_sub_one_eq_mod]
  have hq : p / 2 ^ 62 < 4 := by omega
  have hdecomp : (p &&& 13835058055282163712) = (p / 2 ^ 62) % 4 * 2 ^ 62 := by
    have := Nat.div_add_mod (p &&& 13835058055282163712) (2 ^ 62)
    rw [hlow, hhigh] at this
    omega
  rw [hdecomp, Nat.mod_eq_of_lt hq]
  by_cases h2 : p / 2 ^ 62 = 2
  · simp [h2]
  · have : p / 2 ^ 62 * 2 ^ 62 ≠ 9223372036854775808 := by omega
    have e1 : (p / 2 ^ 62 * 2 ^ 62 == 9223372036854775808) = false := by simpa using this
    have e2 : (p / 2 ^ 62 == 2) = false := by simpa using h2
    rw [e1, e2]

/-- the 1-hit decision of `finishTerm`, as generated, is: exactly one posting, no location
    stream, the document number fits 31 bits and its frequency is 1 -/
theorem use1HitEncoding_eq (card lastDoc lastFreq lastNorm locSize minDoc : Nat)
    (hmin : minDoc < 2 ^ 64) :
    Gen.use1HitEncoding card lastDoc lastFreq lastNorm locSize minDoc =
      (if card = 1 ∧ locSize = 0 ∧ minDoc ≤ 2147483647 ∧ minDoc = lastDoc ∧ lastFreq = 1
       then (true, minDoc, lastNorm) else (false, 0, 0)) := by
  have hw : Gen.w64 minDoc = minDoc := Nat.mod_eq_of_lt hmin
  have h1' : Gen.w64 1 = 1 := by decide
  simp only [Gen.use1HitEncoding, Gen.under32Bits, Gen.Consts.mask31Bits, hw, h1', Id.run, pure, bind]
  by_cases h1 : card = 1 <;> by_cases h2 : locSize = 0 <;> by_cases h3 : minDoc ≤ 2147483647 <;>
    by_cases h4 : minDoc = lastDoc <;> by_cases h5 : lastFreq = 1 <;> simp [h1, h2, h3, h4, h5]

end Ice.Bridge
