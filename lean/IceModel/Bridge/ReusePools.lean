import IceModel.Gen.Reuse
/-
  Bridge (C09): every sync.Pool operation of the package, one entry per call site (an object put
  back twice may be handed to two goroutines).
-/
namespace Ice.Bridge
open Ice.Gen

theorem reuse_pool_ops : Reuse.poolOps =
    [("Segment.VisitStoredFields", "visitDocumentCtxPool", "Get"),
     ("Segment.VisitStoredFields", "visitDocumentCtxPool", "Put"),
     ("mergeStoredAndRemap", "visitDocumentCtxPool", "Get"),
     ("mergeStoredAndRemap", "visitDocumentCtxPool", "Put"),
     ("newWithChunkMode", "interimPool", "Get"),
     ("newWithChunkMode", "interimPool", "Put")] := by decide +kernel

end Ice.Bridge
