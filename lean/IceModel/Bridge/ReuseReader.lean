import IceModel.Gen.Reuse
/-
  Bridge (C13): the reuse sites of the READER objects - postings lists, iterators, decoders,
  doc-value readers, the codec scratch buffers.  See Bridge/Reuse for the whole inventory.
-/
namespace Ice.Bridge
open Ice.Gen

def readerFns : List String :=
  ["PostingsIterator.nextAtOrAfter", "PostingsList.iterator", "ZSTDCompress", "ZSTDDecompress",
   "chunkedIntDecoder.reset", "docValueReader.cloneInto", "docValueReader.loadDvChunk"]

theorem reuse_reader_sites :
    Reuse.reslices.filter (fun s =>
      s.1.startsWith "Postings" || s.1.startsWith "docValueReader" || s.1.startsWith "chunkedIntDecoder" ||
      s.1.startsWith "ZSTD" || s.1.startsWith "Dictionary" || s.1.startsWith "Segment.") =
    [("PostingsIterator.nextAtOrAfter", "*PostingsIterator.nextSegmentLocs"),
     ("PostingsList.iterator", "*PostingsIterator.nextLocs"),
     ("PostingsList.iterator", "*PostingsIterator.nextSegmentLocs"),
     ("ZSTDCompress", "[]byte"),
     ("ZSTDDecompress", "[]byte"),
     ("chunkedIntDecoder.reset", "*chunkedIntDecoder.chunkOffsets"),
     ("chunkedIntDecoder.reset", "*chunkedIntDecoder.curChunkBytes"),
     ("chunkedIntDecoder.reset", "*chunkedIntDecoder.uncompressed"),
     ("docValueReader.cloneInto", "*docValueReader.curChunkHeader"),
     ("docValueReader.cloneInto", "*docValueReader.uncompressed"),
     ("docValueReader.loadDvChunk", "*docValueReader.curChunkHeader"),
     ("docValueReader.loadDvChunk", "*docValueReader.uncompressed")] := by decide +kernel

end Ice.Bridge
