import IceModel.Gen.Layout
/-
  Bridge: the order in which the container-layout functions of /repo call the section writers and
  readers (regenerated from the source) is the order the models `Model/Format`, `Model/Builder`,
  `Model/MergeLoop`, `Model/MergeRest`, `Model/Writer` follow.  Only the calls that matter for
  the layout are pinned (a subsequence filter), so unrelated refactorings do not break these.
-/
namespace Ice.Bridge
open Ice.Gen

/-- the calls of `fn` restricted to the names in `keep`, in source order -/
def callsOf (fn : String) (keep : List String) : List String :=
  match Layout.calls.find? (fun p => p.1 == fn) with
  | some p => p.2.filter (fun c => keep.contains c)
  | none => ["<function not found>"]

end Ice.Bridge
