import IceModel.Gen.Consts
import IceModel.Gen.Footer
/-
  Bridge between facts regenerated from /repo (`Ice.Gen.*`) and what the model / property theorems
  assume. Decided by evaluation of the generated tables; see DESIGN.md section 2.4.
-/
namespace Ice.Bridge
open Ice.Gen

/-! ### footer layout (C10, C11) -/

/-- the pinned footer: field, width, byte order, in file order -/
def footerLayout : List (String × Nat × String) :=
  [("numDocs", 8, "BigEndian"), ("storedIndexOffset", 8, "BigEndian"),
   ("fieldsIndexOffset", 8, "BigEndian"), ("docValueOffset", 8, "BigEndian"),
   ("chunkMode", 4, "BigEndian"), ("Version", 4, "BigEndian"), ("crc", 4, "BigEndian")]

theorem footer_written : Footer.written = footerLayout := by decide

/-- the reader walks the same fields backwards (its struct field is `version`) -/
theorem footer_read :
    Footer.read.reverse.map (fun f => (if f.1 = "version" then "Version" else f.1, f.2)) = footerLayout := by
  decide

theorem footer_read_widths :
    Footer.readWidths = ["crcWidth", "verWidth", "chunkWidth", "fdvOffsetWidth", "fieldsOffsetWidth",
      "storedOffsetWidth", "numDocsWidth"] := by decide

theorem footer_total : (footerLayout.map (·.2.1)).sum = Consts.footerLen := by decide

end Ice.Bridge
