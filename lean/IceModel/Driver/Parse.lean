import IceModel.Spec.Iter
/-
  Token-level parsing and printing for the line protocol shared with the Go harness
  (`/verif/harness`).  Byte strings are lower-case hex; `-` is the empty string, `~` is nil.
-/
namespace Ice.Driver
open Ice Ice.Spec

def hexVal (c : Char) : Option Nat :=
  if '0' ≤ c ∧ c ≤ '9' then some (c.toNat - '0'.toNat)
  else if 'a' ≤ c ∧ c ≤ 'f' then some (c.toNat - 'a'.toNat + 10)
  else none

def hexPairs : List Char → Option Bytes
  | [] => some []
  | [_] => none
  | a :: b :: r => do
    let x ← hexVal a
    let y ← hexVal b
    let t ← hexPairs r
    pure ((x * 16 + y) :: t)

/-- `-` ↦ empty, hex otherwise -/
def parseBytes (s : String) : Option Bytes :=
  if s == "-" then some [] else hexPairs s.toList

/-- `~` ↦ none -/
def parseOptBytes (s : String) : Option (Option Bytes) :=
  if s == "~" then some none else (parseBytes s).map some

def hexDigit (n : Nat) : Char :=
  if n < 10 then Char.ofNat (n + '0'.toNat) else Char.ofNat (n - 10 + 'a'.toNat)

def showBytes (b : Bytes) : String :=
  if b.isEmpty then "-" else String.ofList (b.flatMap (fun x => [hexDigit (x / 16), hexDigit (x % 16)]))

def parseNatList (s : String) : Option (List Nat) :=
  if s == "-" then some [] else (s.splitOn ",").mapM (·.toNat?)

/-- `~` nil, `-` empty, `1,2,3` -/
def parseOptNatList (s : String) : Option (Option (List Nat)) :=
  if s == "~" then some none else (parseNatList s).map some

def parseBytesList (s : String) : Option (List Bytes) :=
  if s == "." then some [] else (s.splitOn ",").mapM parseBytes

def parseBool (s : String) : Option Bool :=
  if s == "1" then some true else if s == "0" then some false else none

def parseFlags (s : String) : Option Flags :=
  match s.toList with
  | [a, b, c] => do
    let f ← parseBool (String.singleton a)
    let n ← parseBool (String.singleton b)
    let l ← parseBool (String.singleton c)
    pure { freq := f, norm := n, locs := l }
  | _ => none

def parseOp (s : String) : Option IterOp :=
  if s == "n" then some .next
  else match s.toList with
    | 'a' :: r => (String.ofList r).toNat?.map IterOp.advance
    | _ => none

def showLoc (l : Loc) : String :=
  s!"{showBytes l.field}/{l.pos}/{l.start}/{l.stop}"

/-- a delivered posting, printing only what the flags asked for -/
def showPosting (fl : Flags) (p : Option Posting) : String :=
  match p with
  | none => "nil"
  | some p =>
    let s := toString p.doc
    let s := if fl.freq then s ++ s!":f{p.freq}" else s
    let s := if fl.norm then s ++ s!":n{p.norm}" else s
    if fl.locs then s ++ ":l" ++ ",".intercalate (p.locs.map showLoc) else s

end Ice.Driver
