import IceModel.Driver.Parse
import IceModel.Model.Stored
import IceModel.Model.ChunkBytes
import IceModel.Model.DocValues
import IceModel.Model.Bits
/-
  Format-level correspondence (DESIGN.md 2.5 item 3): the logical content of the file sections as
  the byte-level MODELS (identity codec) produce them from an abstract segment.  The Go harness
  prints the same dumps from the real file with its own layout parser.
-/
namespace Ice.Driver
open Ice Ice.Spec

def idStored : Model.Stored.Codec := ⟨id, some, fun _ => rfl⟩
def idDV : Model.DocValues.Codec := ⟨id, some, fun _ => rfl, rfl⟩

def hexOrDash (b : Bytes) : String := showBytes b

def fieldIdx (s : AbsSeg) (f : Bytes) : Nat := (s.fields.idxOf? f).getD 0

/-- per document the (field id, stored values) pairs `writeStoredFields` walks -/
def storedDocs (s : AbsSeg) : List Model.Stored.Doc :=
  s.docs.map fun d =>
    s.fields.zipIdx.filterMap fun fi =>
      match d.field? fi.1 with
      | some af => if af.stored.isEmpty then none else some (fi.2, af.stored)
      | none => none

def slices (b : Bytes) : List Nat → List Bytes
  | a :: c :: r => (if a == c then [] else [(b.drop a).take (c - a)]) ++ slices b (c :: r)
  | _ => []

def layoutStored (s : AbsSeg) : String :=
  let docs := storedDocs s
  let out := Model.Stored.writeStoredFields idStored 128 docs
  let dso := (Model.Stored.writeDocs idStored docs { chunkSize := 128 } []).2
  let blocks := slices out.bytes out.chunkOffsets
  s!"noffsets={out.chunkOffsets.length} blocks={",".intercalate (blocks.map hexOrDash)} docoffs={",".intercalate (dso.map toString)}"

def toEntry (s : AbsSeg) (p : Posting) : Model.ChunkBytes.Entry :=
  { doc := p.doc, freq := p.freq, norm := p.norm,
    locs := p.locs.map fun l => { fieldID := fieldIdx s l.field, pos := l.pos, start := l.start, stop := l.stop } }

def layoutTerm (merged : Bool) (s : AbsSeg) (f t : Bytes) : String :=
  let P := postings s f t
  if P.isEmpty then "absent" else
  let oneHit := merged && (match P with
    | [p] => p.freq == 1 && p.locs.isEmpty && p.doc < 2 ^ 31
    | _ => false)
  match oneHit, P with
  | true, [p] => s!"1hit doc={p.doc} norm={p.norm}"
  | _, _ =>
    match Model.getChunkSize s.chunkMode P.length (numDocs s) with
    | .ok cs =>
      if cs == 0 then "bad-chunk-size" else
      let es := P.map (toEntry s)
      let total := (numDocs s - 1) / cs + 1
      let chunk (c : Nat) := es.filter (fun e => e.doc / cs == c)
      let fn := (List.range total).map (fun c => hexOrDash (Model.ChunkBytes.fnBytes (chunk c)))
      let lc := (List.range total).map (fun c => hexOrDash (Model.ChunkBytes.locBytes (chunk c)))
      let locS := if es.all (fun e => e.locs.isEmpty) then "none" else s!"{total}:{",".intercalate lc}"
      s!"docs={",".intercalate (P.map (fun p => toString p.doc))} fn={total}:{",".intercalate fn} loc={locS}"
    | _ => "bad-chunk-mode"

/-- the doc-value chunks of a field, through the model's own writer and reader -/
def layoutDV (merged : Bool) (s : AbsSeg) (f : Bytes) : String :=
  let n := numDocs s
  if n == 0 then "none" else
  let docTerms : List (Nat × Bytes) := s.docs.zipIdx.filterMap fun di =>
    match di.1.field? f with
    | some af => if af.dv then some (di.2, Model.DocValues.docBytes (af.terms.map (·.term))) else none
    | none => none
  if docTerms.isEmpty then "none" else
  let w := if merged then Model.DocValues.mergeField idDV 1024 (n - 1) 7 docTerms
           else Model.DocValues.buildField idDV 1024 (n - 1) 7 docTerms
  match w with
  | .ok (bytes, dvStart, dvEnd) =>
    let file : Model.DocValues.Data := { bytes := List.replicate 7 0 ++ bytes ++ List.replicate 16 0, mem := true }
    match Model.DocValues.loadFieldDocValueReader file dvStart dvEnd with
    | .ok (some r) =>
      let chunks := (List.range r.chunkOffsets.length).filterMap fun c =>
        match Model.DocValues.Reader.loadDvChunk file r c with
        | .ok r' =>
          if r'.curChunkHeader.isEmpty then none
          else some s!"{c}:[{";".intercalate (r'.curChunkHeader.map (fun h => s!"{h.1}/{h.2}"))}]{hexOrDash (r'.curChunkData.getD [])}"
        | _ => some s!"{c}:fault"
      if chunks.isEmpty then "none" else ",".intercalate chunks
    | _ => "model-load-fault"
  | _ => "model-write-fault"

def layoutFields (s : AbsSeg) : String :=
  let fs := s.fields.zipIdx.map fun fi =>
    s!"{showBytes fi.1}/{decide (numDocs s > 0)}/{s.fieldDocs.getD fi.2 0}/{s.fieldFreqs.getD fi.2 0}"
  s!"numDocs={numDocs s} mode={s.chunkMode} ver=2 fields={",".intercalate fs}"

end Ice.Driver
