import IceModel.Driver.Layout
import IceModel.Model.Dict
/-
  Answering `stored`, `dv`, `dict`, `contains`, `match` queries through the executable byte-level /
  object-level MODELS of the code (identity codec), for the model ↔ implementation correspondence.
-/
namespace Ice.Driver
open Ice Ice.Spec

/-- `VisitStoredFields` through Model.Stored on the model's own stored section; the visit
    context's buffer is threaded from one query to the next (it is pooled in the Go code) -/
def modelStoredSeg (s : AbsSeg) : Model.Stored.Seg :=
  Model.Stored.segOfNew idStored 128 s.fields.length (storedDocs s) (List.replicate 16 0)

def modelStored (s : AbsSeg) (seg : Model.Stored.Seg) (buf : Model.Stored.Buf) (n : Nat) (stop : Option Nat) :
    Option (List (Bytes × Bytes)) × Model.Stored.Buf :=
  match Model.Stored.visit idStored seg buf n stop with
  | .ok (vs, buf') => (some (vs.map (fun fv => (s.fields.getD fv.1 [], fv.2))), buf')
  | _ => (none, buf)

/-- one doc-value reader per requested field that has doc values, as `visitDocumentFieldTerms`
    keeps them; `none` = the field has no reader -/
structure DvField where
  name : Bytes
  file : Model.DocValues.Data
  rd : Option Model.DocValues.Reader

def mkDvField (merged : Bool) (s : AbsSeg) (f : Bytes) : DvField :=
  let n := numDocs s
  let docTerms : List (Nat × Bytes) := s.docs.zipIdx.filterMap fun di =>
    match di.1.field? f with
    | some af => if af.dv then some (di.2, Model.DocValues.docBytes (af.terms.map (·.term))) else none
    | none => none
  let empty : DvField := { name := f, file := { bytes := [], mem := true }, rd := none }
  if n == 0 || docTerms.isEmpty then empty else
  let w := if merged then Model.DocValues.mergeField idDV 1024 (n - 1) 7 docTerms
           else Model.DocValues.buildField idDV 1024 (n - 1) 7 docTerms
  match w with
  | .ok (bytes, dvStart, dvEnd) =>
    let file : Model.DocValues.Data := { bytes := List.replicate 7 0 ++ bytes ++ List.replicate 16 0, mem := true }
    match Model.DocValues.loadFieldDocValueReader file dvStart dvEnd with
    | .ok (some r) => { name := f, file := file, rd := some r.clone }
    | _ => empty
  | _ => empty

/-- `VisitDocumentValues` for each document in turn, each field in request order -/
def modelDv (merged : Bool) (s : AbsSeg) (fs : List Bytes) (ds : List Nat) : Option (List (List (Bytes × Bytes))) :=
  let rec visitFields : List DvField → Nat → Option (List (Bytes × Bytes) × List DvField)
    | [], _ => some ([], [])
    | df :: r, d =>
      match df.rd with
      | none => (visitFields r d).map (fun p => (p.1, df :: p.2))
      | some rd =>
        match Model.DocValues.Reader.visit idDV df.file 1024 rd d with
        | .ok (terms, rd') =>
          (visitFields r d).map (fun p => (terms.map (fun t => (df.name, t)) ++ p.1, { df with rd := some rd' } :: p.2))
        | _ => none
  let rec go : List DvField → List Nat → Option (List (List (Bytes × Bytes)))
    | _, [] => some []
    | dfs, d :: r =>
      match visitFields dfs d with
      | none => none
      | some (out, dfs') => (go dfs' r).map (fun rest => out :: rest)
  go (fs.map (mkDvField merged s)) ds

/-- the object-level view of a segment for Model.Dict: FST values are 1-hit codes or offsets of
    records -/
def dictSeg (oneHit : Bytes → Bytes → Bool) (s : AbsSeg) : Model.Dict.Seg :=
  let entries (fi : Nat) (f : Bytes) : List (Bytes × Nat × Option Model.Dict.Rec) :=
    (terms s f).zipIdx.map fun ti =>
      let P := postings s f ti.1
      match oneHit f ti.1, P with
      | true, [p] => (ti.1, Model.encode1Hit p.doc p.norm, none)
      | _, _ => (ti.1, 1000000 * (fi + 1) + ti.2,
                 some { freqOffset := 1, locOffset := if P.any (fun p => !p.locs.isEmpty) then 1 else 0,
                        docs := P.map (·.doc) })
  let fieldsE := s.fields.zipIdx.map (fun fi => (fi.1, entries fi.2 fi.1))
  { fields := if numDocs s == 0 then [] else fieldsE.map (fun fe => (fe.1, fe.2.map (fun e => (e.1, e.2.1)))),
    store := fun off => fieldsE.findSome? fun fe => (fe.2.find? (fun e => e.2.1 == off)).bind (fun e => e.2.2),
    chunkMode := s.chunkMode, numDocs := numDocs s }

def insertNat (x : Nat) : List Nat → List Nat
  | [] => [x]
  | y :: r => if x < y then x :: y :: r else if x == y then y :: r else y :: insertNat x r

/-- a bitmap's content: ascending, duplicate-free -/
def sortNats (l : List Nat) : List Nat := l.foldr insertNat []

end Ice.Driver
