import IceModel.Driver.Parse
import IceModel.Driver.Layout
import IceModel.Driver.ModelAns
import IceModel.Model.Writer
import IceModel.Model.Iter1Hit
import IceModel.Model.Bits
/-
  The case interpreter: builds abstract segments from `build` / `merge` / `load` blocks and
  answers `q` lines.  One answer line per query: `r <case> <qidx> <answer>`.
-/
namespace Ice.Driver
open Ice Ice.Spec

/-- how queries are answered: by the specification, or by the executable model of the code -/
inductive Via where
  | spec
  | model
deriving DecidableEq, Repr

/-- script operations: an iterator operation or "walk to the end" -/
inductive XOp where
  | op (o : IterOp)
  | walk
deriving Repr

def parseXOp (s : String) : Option XOp :=
  if s == "w" then some .walk else (parseOp s).map .op

structure St where
  via : Via := .spec
  caseId : String := "?"
  norm : NormP := ⟨1, 0, 0⟩
  segs : Array AbsSeg := #[]
  docnums : Array (Option (List (List (Option Nat)))) := #[]
  merged : Array Bool := #[]
  /-- for a merged segment: its inputs (segment, deletions), to predict encoding decisions -/
  src : Array (List (AbsSeg × List Nat)) := #[]
  /-- model run: the pooled visit context's buffer, threaded through the stored-field queries -/
  sbuf : Model.Stored.Buf := Model.Stored.Buf.empty
  /-- model run: the stored section of a segment as the model writes it (computed once) -/
  sseg : List (Nat × Model.Stored.Seg) := []
  mode : Nat := 1025
  docs : Array Doc := #[]
  mergeIns : Array (Nat × List Nat) := #[]
  qidx : Nat := 0
deriving Inhabited

def St.srcOf (st : St) (i : Nat) : Option (List (AbsSeg × List Nat)) :=
  if st.merged.getD i false then some (st.src.getD i []) else none

def modifyLast {α} (a : Array α) (f : α → α) : Array α :=
  if 0 < a.size then a.modify (a.size - 1) f else a

def modifyLastL {α} (l : List α) (f : α → α) : List α :=
  match l.reverse with
  | [] => []
  | x :: r => (f x :: r).reverse

/-- answers; `none` = malformed query -/
structure Answerer where
  fields : AbsSeg → List Bytes
  count : AbsSeg → Nat
  dict : AbsSeg → Bytes → Option Bytes → Option Bytes → (Bytes → Bool) → List (Bytes × Nat)
  contains : AbsSeg → Bytes → Bytes → Bool
  iter : Option (List (AbsSeg × List Nat)) → AbsSeg → Bytes → Bytes → Option (List Nat) → Option (List Nat) → Flags → List XOp →
    List (Option Posting) × Nat
  stored : AbsSeg → Nat → List (Bytes × Bytes)
  dv : AbsSeg → List Bytes → List Nat → List (List (Bytes × Bytes))
  stats : AbsSeg → Bytes → Nat × Nat × Nat
  docsMatching : AbsSeg → List (Bytes × Bytes) → List Nat

/-- run a script on the specification iterator; `walk` = call Next until it answers nil -/
def specIterX (fl : Flags) : List Posting → List XOp → List (Option Posting)
  | _, [] => []
  | L, .op o :: ops =>
    let (r, L') := iterStep L o
    (r.map (view fl)) :: specIterX fl L' ops
  | L, .walk :: ops => L.map (fun p => some (view fl p)) ++ [none] ++ specIterX fl [] ops

def specAnswerer : Answerer where
  fields s := s.fields
  count s := numDocs s
  dict := dictEntries
  contains s f t := !(postings s f t).isEmpty
  iter _ s f t e r fl ops :=
    let P := postings s f t
    let P := match r with
      | none => P
      | some keep => P.filter (fun p => keep.contains p.doc)
    let L := live P e
    (specIterX fl L ops, L.length)
  stored := Spec.stored
  dv s fs ds := ds.map (fun d => fs.flatMap (fun f => (dvOf s d f).map (fun t => (f, t))))
  stats := Spec.stats
  docsMatching := Spec.docsMatching

/-- `finishTerm` encodes a merged term as a 1-hit value only if the LAST input segment whose
    dictionary holds the term contributed a surviving posting (`lastDocNum`/`lastFreq` are those
    of the last `mergeTermFreqNormLocs` call) - besides cardinality 1, frequency 1, no locations -/
def lastSegSurvives (src : List (AbsSeg × List Nat)) (f t : Bytes) : Bool :=
  match (src.filter (fun p => !(postings p.1 f t).isEmpty)).getLast? with
  | none => true
  | some p => (postings p.1 f t).any (fun q => !p.2.contains q.doc)

/-! ### answering through the executable MODEL of the code (correspondence model ↔ implementation) -/

/-- run a script on the entry-level model of the general-encoding iterator -/
def modelIterX (fl : Flags) (fuel : Nat) : Model.Iter.It → List XOp → List (Option Posting)
  | _, [] => []
  | i, .op o :: ops =>
    match Model.Iter.step i o with
    | none => [some { doc := 999999999, freq := 0, norm := 0, locs := [] }]     -- fault marker
    | some (r, i') => (r.map (view fl)) :: modelIterX fl fuel i' ops
  | i, .walk :: ops =>
    let rec go : Nat → Model.Iter.It → List (Option Posting) × Model.Iter.It
      | 0, i => ([], i)
      | n + 1, i =>
        match Model.Iter.step i .next with
        | none => ([some { doc := 999999999, freq := 0, norm := 0, locs := [] }], i)
        | some (none, i') => ([none], i')
        | some (some p, i') => let (rs, i'') := go n i'; (some (view fl p) :: rs, i'')
    let (rs, i') := go fuel i
    rs ++ modelIterX fl fuel i' ops

def modelIter1X (fl : Flags) : Model.Iter1Hit.It → List XOp → List (Option Posting)
  | _, [] => []
  | i, .op o :: ops =>
    let (r, i') := Model.Iter1Hit.step i o
    (r.map (view fl)) :: modelIter1X fl i' ops
  | i, .walk :: ops =>
    let (r, i') := Model.Iter1Hit.step i .next
    match r with
    | none => none :: modelIter1X fl i' ops
    | some p => some (view fl p) :: none :: modelIter1X fl i' ops

/-- the model's iterator over the postings the specification assigns to (f, t): the chunk size is
    the one the code derives from (chunk mode, cardinality, document count); a merged segment
    encodes a term with one posting of frequency 1 without locations as a 1-hit value -/
def modelAnswerer : Answerer :=
  { specAnswerer with
    iter := fun msrc s f t e r fl ops =>
      let merged := msrc.isSome && lastSegSurvives (msrc.getD []) f t
      let P := postings s f t
      let L := live (match r with
                     | none => P
                     | some keep => P.filter (fun p => keep.contains p.doc)) e
      let rfl := Model.Iter.RFlags.of fl
      let oneHit := merged && (match P with
        | [p] => p.freq == 1 && p.locs.isEmpty && p.doc < 2 ^ 31
        | _ => false)
      if oneHit then
        match P with
        | [p] => (modelIter1X fl (Model.Iter1Hit.mk p.doc p.norm e rfl) ops, L.length)
        | _ => ([], 0)
      else
        match Model.getChunkSize s.chunkMode P.length (numDocs s) with
        | .ok cs =>
          let i0 := Model.Iter.mk cs P e rfl
          -- ReplaceActual: the actual cursor is replaced by the given subset, the iterator
          -- leaves the clean path
          let i0 := match r with
            | none => i0
            | some keep => { i0 with act := (P.filter (fun p => keep.contains p.doc)).map (·.doc), clean := false }
          if P.isEmpty then (specIterX fl [] ops, 0)
          else (modelIterX fl (P.length + 1) i0 ops, L.length)
        | _ => ([], 0) }

def takeStop (stop : Int) (l : List (Bytes × Bytes)) : List (Bytes × Bytes) :=
  if stop < 0 then l else l.take stop.toNat

def showPair (p : Bytes × Bytes) : String := s!"{showBytes p.1}:{showBytes p.2}"

def showDocnum : Option Nat → String
  | none => "x"
  | some n => toString n

def parseAut (s : String) : Option (Bytes → Bool) :=
  if s == "any" then some (fun _ => true)
  else match s.splitOn ":" with
    | ["pfx", h] => (parseBytes h).map (fun p => fun t => p.isPrefixOf t)
    | _ => none

def parsePair (s : String) : Option (Bytes × Bytes) :=
  match s.splitOn ":" with
  | [a, b] => do
    let x ← parseBytes a
    let y ← parseBytes b
    pure (x, y)
  | _ => none

def answer (A : Answerer) (st : St) (toks : List String) : Option String := do
  match toks with
  | ["fields", s] =>
    let sg ← st.segs[(← s.toNat?)]?
    pure (" ".intercalate ((A.fields sg).map showBytes))
  | ["count", s] =>
    let sg ← st.segs[(← s.toNat?)]?
    pure (toString (A.count sg))
  | ["dict", s, f, lo, hi, aut] =>
    let sg ← st.segs[(← s.toNat?)]?
    let es := A.dict sg (← parseBytes f) (← parseOptBytes lo) (← parseOptBytes hi) (← parseAut aut)
    pure (" ".intercalate (es.map (fun e => s!"{showBytes e.1}={e.2}")))
  | ["contains", s, f, t] =>
    let sg ← st.segs[(← s.toNat?)]?
    pure (if A.contains sg (← parseBytes f) (← parseBytes t) then "1" else "0")
  | "iter" :: s :: f :: t :: e :: fl :: ops =>
    let sg ← st.segs[(← s.toNat?)]?
    let fl ← parseFlags fl
    let (rs, cnt) := A.iter (st.srcOf (← s.toNat?)) sg (← parseBytes f) (← parseBytes t) (← parseOptNatList e) none fl
      (← ops.mapM parseXOp)
    pure (" ".intercalate (rs.map (showPosting fl) ++ [s!"cnt={cnt}", s!"icnt={cnt}"]))
  | "iterR" :: s :: f :: t :: e :: r :: fl :: ops =>
    let sg ← st.segs[(← s.toNat?)]?
    let fl ← parseFlags fl
    let (rs, _) := A.iter (st.srcOf (← s.toNat?)) sg (← parseBytes f) (← parseBytes t) (← parseOptNatList e)
      (some (← parseNatList r)) fl (← ops.mapM parseXOp)
    pure (" ".intercalate (rs.map (showPosting fl)))
  | ["stored", s, n, stop] =>
    let sg ← st.segs[(← s.toNat?)]?
    let vs := takeStop (← stop.toInt?) (A.stored sg (← n.toNat?))
    pure (" ".intercalate (vs.map showPair))
  | ["dv", s, fs, ds] =>
    let sg ← st.segs[(← s.toNat?)]?
    let rs := A.dv sg (← parseBytesList fs) (← parseNatList ds)
    pure (" | ".intercalate (rs.map (fun r => " ".intercalate (r.map showPair))))
  | ["stats", s, f] =>
    let sg ← st.segs[(← s.toNat?)]?
    let (a, b, c) := A.stats sg (← parseBytes f)
    pure s!"{a} {b} {c}"
  | ["statsmerge", ss, f] =>
    let idxs ← (ss.splitOn ",").mapM (·.toNat?)
    let sgs ← idxs.mapM (fun i => st.segs[i]?)
    let f ← parseBytes f
    let each := sgs.map (fun sg => A.stats sg f)
    let tot := each.foldl (fun (a : Nat × Nat × Nat) b => (a.1 + b.1, a.2.1 + b.2.1, a.2.2 + b.2.2)) (0, 0, 0)
    let show3 := fun (x : Nat × Nat × Nat) => s!"{x.1} {x.2.1} {x.2.2}"
    -- the accumulator IS the first segment's object, so after merging the first segment's own
    -- answer is unchanged only because every call hands out a fresh object
    pure (" | ".intercalate (show3 tot :: each.map show3))
  | "match" :: s :: pairs =>
    let sg ← st.segs[(← s.toNat?)]?
    let ds := A.docsMatching sg (← pairs.mapM parsePair)
    pure (",".intercalate (ds.map toString))
  | ["docnums", s] =>
    let i ← s.toNat?
    let dn ← (← st.docnums[i]?)
    pure (" | ".intercalate (dn.map (fun l => ",".intercalate (l.map showDocnum))))
  | ["lfields", s] =>
    let sg ← st.segs[(← s.toNat?)]?
    pure (layoutFields sg)
  | ["lstored", s] =>
    let sg ← st.segs[(← s.toNat?)]?
    pure (layoutStored sg)
  | ["lterm", s, f, t] =>
    let i ← s.toNat?
    let sg ← st.segs[i]?
    let f ← parseBytes f
    let t ← parseBytes t
    pure (layoutTerm ((st.merged.getD i false) && lastSegSurvives (st.src.getD i []) f t) sg f t)
  | ["ldv", s, f] =>
    let i ← s.toNat?
    let sg ← st.segs[i]?
    pure (layoutDV (st.merged.getD i false) sg (← parseBytes f))
  | "pure" :: fn :: args =>
    -- the model's arithmetic definitions (bridged by proof to the generated renderings of the Go
    -- functions) evaluated on concrete arguments; compared with the compiled Go functions
    let a ← args.mapM (·.toNat?)
    let b2n := fun (b : Bool) => if b then 1 else 0
    match fn, a with
    | "getChunkSize", [m, c, d] =>
      (match Model.getChunkSize m c d with
       | .ok v => pure s!"{v}"
       | _ => pure "err")
    | "encodeFreqHasLocs", [f, h] => pure s!"{Model.encodeFreqHasLocs f (h != 0)}"
    | "decodeFreqHasLocs", [v] => let r := Model.decodeFreqHasLocs v; pure s!"{r.1} {b2n r.2}"
    | "fSTValEncode1Hit", [dn, n] => pure s!"{Model.encode1Hit dn n}"
    | "fSTValDecode1Hit", [v] => let r := Model.decode1Hit v; pure s!"{r.1} {r.2}"
    | "under32Bits", [x] => pure s!"{b2n (Model.under32Bits x)}"
    | "numUvarintBytes", [x] => pure s!"{Model.numUvarintBytes x}"
    | "is1Hit", [v] => pure s!"{b2n (Model.is1Hit v)}"
    | _, _ => none
  | ["bufio", size, k, lens] =>
    -- the bufio/countHashWriter/Merger.WriteTo model against a sink that accepts k bytes then fails
    let size ← size.toNat?
    let k ← k.toNat?
    let W := (← parseNatList lens).map (fun n => List.replicate n 0)
    let crc : Model.Writer.CRC := { upd := fun _ _ => 0, upd_append := fun _ _ _ => rfl }
    let sink : Model.Writer.Sink :=
      { beh := fun _ got n => if got + n ≤ k then ⟨n, false⟩ else ⟨k - got, true⟩ }
    let (o, sk) := Model.Writer.mergerWriteTo sink crc (fun _ => true) size W
    let res := match o with
      | .ok n => s!"ok n={n}"
      | .error => "err"
    pure s!"{res} calls={sk.calls} got={sk.got.length}"
  | ["mergen", s] =>
    let _ ← st.segs[(← s.toNat?)]?
    pure "ok"
  | ["crc", s] =>
    let sg ← st.segs[(← s.toNat?)]?
    pure s!"ok {numDocs sg} {sg.chunkMode} 2"
  | ["repersist", s] =>
    let _ ← st.segs[(← s.toNat?)]?
    pure "same"
  | _ => none

/-- queries the model answers with state (and with the object-level models) -/
def answerModel (st : St) (toks : List String) : Option (String × St) := do
  match toks with
  | ["stored", s, n, stop] =>
    let i ← s.toNat?
    let sg ← st.segs[i]?
    let stopI ← stop.toInt?
    let (mseg, st) := match st.sseg.find? (fun p => p.1 == i) with
      | some p => (p.2, st)
      | none => let m := modelStoredSeg sg; (m, { st with sseg := (i, m) :: st.sseg })
    let (r, buf') := modelStored sg mseg st.sbuf (← n.toNat?) (if stopI < 1 then none else some (stopI.toNat - 1))
    match r with
    | some vs => pure (" ".intercalate (vs.map showPair), { st with sbuf := buf' })
    | none => pure ("model-fault", st)
  | ["dv", s, fs, ds] =>
    let i ← s.toNat?
    let sg ← st.segs[i]?
    match modelDv (st.merged.getD i false) sg (← parseBytesList fs) (← parseNatList ds) with
    | some rs => pure (" | ".intercalate (rs.map (fun r => " ".intercalate (r.map showPair))), st)
    | none => pure ("model-fault", st)
  | ["dict", s, f, lo, hi, aut] =>
    let i ← s.toNat?
    let sg ← st.segs[i]?
    let f ← parseBytes f
    let lo ← parseOptBytes lo
    let hi ← parseOptBytes hi
    let aut ← parseAut aut
    let oneHit := fun f t => (st.merged.getD i false) && lastSegSurvives (st.src.getD i []) f t &&
      (match postings sg f t with
       | [p] => p.freq == 1 && p.locs.isEmpty && p.doc < 2 ^ 31
       | _ => false)
    let ms := dictSeg oneHit sg
    let d := Model.Dict.dictionary ms f
    -- range and automaton are vellum's; an empty range enumerates nothing (dict.go)
    let emptyRange : Bool := match lo, hi with
      | some l, some h => Bytes.cmp l h != .lt
      | _, _ => false
    let es := if emptyRange then [] else (d.fst.getD []).filter (fun e =>
      (match lo with | none => true | some l => Bytes.le l e.1) &&
      (match hi with | none => true | some h => Bytes.lt e.1 h) && aut e.1)
    match Model.Dict.dictIter Model.Dict.fixed ms es {} with
    | .ok r => pure (" ".intercalate (r.map (fun e => s!"{showBytes e.1}={e.2}")), st)
    | _ => pure ("model-fault", st)
  | "match" :: s :: pairs =>
    let i ← s.toNat?
    let sg ← st.segs[i]?
    let oneHit := fun f t => (st.merged.getD i false) && lastSegSurvives (st.src.getD i []) f t &&
      (match postings sg f t with
       | [p] => p.freq == 1 && p.locs.isEmpty && p.doc < 2 ^ 31
       | _ => false)
    let ms := dictSeg oneHit sg
    match Model.Dict.docsMatchingFixed ms (← pairs.mapM parsePair) none [] with
    | .ok ds => pure (",".intercalate ((sortNats ds).map toString), st)
    | _ => pure ("model-fault", st)
  | _ => none

def parseDrops (s : String) : Option (List Nat) :=
  if s == "~" then some [] else parseNatList s

/-- process one line; returns the new state and an optional output line -/
def step (A : Answerer) (st : St) (line : String) : St × Option String :=
  let toks := (line.splitOn " ").filter (· ≠ "")
  match toks with
  | [] => (st, none)
  | ["case", id] => ({ via := st.via, caseId := id }, none)
  | ["endcase"] => (st, none)
  | "same" :: _ => (st, none)
  | ["norm", a, b, c] =>
    match a.toNat?, b.toNat?, c.toNat? with
    | some a, some b, some c => ({ st with norm := ⟨a, b, c⟩ }, none)
    | _, _, _ => (st, some s!"bad-line {line}")
  | "build" :: m :: _ =>
    match m.toNat? with
    | some m => ({ st with mode := m, docs := #[] }, none)
    | none => (st, some s!"bad-line {line}")
  | ["doc"] => ({ st with docs := st.docs.push [] }, none)
  | ["fld", name, len, store, dv, value] =>
    match parseBytes name, len.toNat?, parseBool store, parseBool dv, parseBytes value with
    | some name, some len, some store, some dv, some value =>
      let fi : FieldInst := { name := name, length := len, store := store, dv := dv, value := value, terms := [] }
      ({ st with docs := modifyLast st.docs (fun d => d ++ [fi]) }, none)
    | _, _, _, _, _ => (st, some s!"bad-line {line}")
  | ["trm", term, freq] =>
    match parseBytes term, freq.toNat? with
    | some term, some freq =>
      let occ : TermOcc := { term := term, freq := freq, locs := [] }
      ({ st with docs := modifyLast st.docs (fun d =>
          modifyLastL d (fun fi => { fi with terms := fi.terms ++ [occ] })) }, none)
    | _, _ => (st, some s!"bad-line {line}")
  | ["loc", field, pos, start, stop] =>
    match parseBytes field, pos.toNat?, start.toNat?, stop.toNat? with
    | some field, some pos, some start, some stop =>
      let l : Loc := { field := field, pos := pos, start := start, stop := stop }
      let addLoc : TermOcc → TermOcc := fun o => { o with locs := o.locs ++ [l] }
      let addF : FieldInst → FieldInst := fun x => { x with terms := modifyLastL x.terms addLoc }
      ({ st with docs := modifyLast st.docs (fun d => modifyLastL d addF) }, none)
    | _, _, _, _ => (st, some s!"bad-line {line}")
  | ["endbuild"] =>
    let sg := build st.norm.calc st.mode st.docs.toList
    ({ st with segs := st.segs.push sg, docnums := st.docnums.push none, merged := st.merged.push false,
               src := st.src.push [], docs := #[] }, none)
  | "merge" :: m :: _ =>
    match m.toNat? with
    | some m => ({ st with mode := m, mergeIns := #[] }, none)
    | none => (st, some s!"bad-line {line}")
  | ["in", s, drops] =>
    match s.toNat?, parseDrops drops with
    | some s, some d => ({ st with mergeIns := st.mergeIns.push (s, d) }, none)
    | _, _ => (st, some s!"bad-line {line}")
  | ["endmerge"] =>
    let ins := st.mergeIns.toList.map (fun p => (st.segs.getD p.1 default, p.2))
    let (sg, dn) := merge st.mode ins
    ({ st with segs := st.segs.push sg, docnums := st.docnums.push (some dn), merged := st.merged.push true,
               src := st.src.push ins, mergeIns := #[] }, none)
  | "load" :: s :: _ =>
    match s.toNat? with
    | some s =>
      ({ st with segs := st.segs.push (st.segs.getD s default), docnums := st.docnums.push none,
                 merged := st.merged.push (st.merged.getD s false), src := st.src.push (st.src.getD s []) }, none)
    | none => (st, some s!"bad-line {line}")
  | "q" :: q =>
    match (if st.via == Via.model then answerModel st q else none) with
    | some (a, st') => ({ st' with qidx := st.qidx + 1 }, some s!"r {st.caseId} {st.qidx} {a}")
    | none =>
      let out := match answer A st q with
        | some a => s!"r {st.caseId} {st.qidx} {a}"
        | none => s!"r {st.caseId} {st.qidx} bad-query"
      ({ st with qidx := st.qidx + 1 }, some out)
  | _ => (st, some s!"bad-line {line}")

end Ice.Driver
