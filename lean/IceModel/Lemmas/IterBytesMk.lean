import IceModel.Lemmas.IterBytesSim
/-
  Construction: `newChunkedIntDecoder(data, offset, rv)` parses the same decoder whatever `rv`
  is (stale buffer contents are overwritten before they are read), and `PostingsList.iterator`
  - fresh or with ANY reused iterator - yields a well-formed state whose abstraction is `Iter.mk`.
-/
namespace Ice.Model.IterBytes
open Ice Ice.Spec Ice.Model Ice.Model.ChunkBytes
open Ice.Model.Iter (RFlags It)

/-! ### `newChunkedIntDecoder` with a reused `chunkOffsets` array -/

/-- writing the offsets over a (re)sliced array `acc ++ stale` one index at a time gives what
    appending them to `acc` gives: every stale element is overwritten -/
theorem fillOffsets_eq (file : Bool) (data : Bytes) (offset : Nat) :
    ∀ (k i n : Nat) (acc stale : List Nat), acc.length = i → stale.length = k →
      fillOffsets file data offset k i n (acc ++ stale) = readOffsets file data offset k n acc := by
  intro k
  induction k with
  | zero =>
    intro i n acc stale _ hs
    have : stale = [] := List.eq_nil_of_length_eq_zero hs
    subst this
    simp [fillOffsets, readOffsets]
  | succ k ih =>
    intro i n acc stale hi hs
    cases stale with
    | nil => simp at hs
    | cons s st =>
      rw [fillOffsets, readOffsets]
      cases hrd : Data.read file data ((offset + n) % two64) ((offset + n + 10) % two64) with
      | err => rfl
      | panic => rfl
      | ok w =>
        simp only
        have hset : (acc ++ s :: st).set i (uvarintU64 w).1 = (acc ++ [(uvarintU64 w).1]) ++ st := by
          subst hi
          simp
        rw [hset]
        exact ih (i + 1) _ (acc ++ [(uvarintU64 w).1]) st (by simp [hi]) (by simpa using hs)

/-- `newChunkedIntDecoder(data, offset, rv)` and `newChunkedIntDecoder(data, offset, nil)` parse
    the same offsets and fail in the same way, for every `rv` -/
theorem newDecB_spec (file : Bool) (data : Bytes) (offset : Nat) (rv : Option DecB) :
    (∀ d, Decoder.newWith file data offset = .ok d →
      ∃ tail, newDecB file data offset rv =
        .ok { (rv.getD emptyDec) with d := d, dataNil := false, offsTail := tail }) ∧
    (Decoder.newWith file data offset = .err → newDecB file data offset rv = .err) ∧
    (Decoder.newWith file data offset = .panic → newDecB file data offset rv = .panic) := by
  unfold newDecB Decoder.newWith
  generalize (if offset = 0 then (Res.ok (0, 0) : Res (Nat × Nat))
     else
      match Data.read file data (offset % two64) ((offset + 10) % two64) with
      | .ok w => .ok (uvarintU64 w)
      | .err => .err
      | .panic => .panic) = hdr
  cases hdr with
  | err => simp
  | panic => simp
  | ok pr =>
    obtain ⟨numChunks, n⟩ := pr
    simp only [ok_bind]
    by_cases hbig : two63 ≤ numChunks
    · simp [hbig]
    · simp only [hbig, if_false]
      have hlen : (if numChunks ≤ ((rv.getD emptyDec).d.chunkOffsets ++ (rv.getD emptyDec).offsTail).length
          then ((rv.getD emptyDec).d.chunkOffsets ++ (rv.getD emptyDec).offsTail).take numChunks
          else List.replicate numChunks 0).length = numChunks := by
        split
        · rw [List.length_take]; omega
        · simp
      have hfill := fillOffsets_eq file data offset numChunks 0 n [] _ rfl hlen
      rw [List.nil_append] at hfill
      rw [hfill]
      cases hro : readOffsets file data offset numChunks n [] with
      | err => simp
      | panic => simp
      | ok pr2 =>
        obtain ⟨offs, n'⟩ := pr2
        simp only [ok_bind, pure_eq_ok]
        refine ⟨?_, ?_, ?_⟩
        · intro d hd
          cases hd
          exact ⟨_, rfl⟩
        · intro h; cases h
        · intro h; cases h

theorem Decoder.newWith_startOffset {file : Bool} {data : Bytes} {offset : Nat} {d : Decoder}
    (h : Decoder.newWith file data offset = .ok d) : d.startOffset = offset := by
  unfold Decoder.newWith at h
  generalize (if offset = 0 then (Res.ok (0, 0) : Res (Nat × Nat))
     else
      match Data.read file data (offset % two64) ((offset + 10) % two64) with
      | .ok w => .ok (uvarintU64 w)
      | .err => .err
      | .panic => .panic) = hdr at h
  cases hdr with
  | err => simp at h
  | panic => simp at h
  | ok pr =>
    obtain ⟨numChunks, n⟩ := pr
    simp only [ok_bind] at h
    by_cases hbig : two63 ≤ numChunks
    · simp [hbig] at h
    · simp only [hbig, if_false] at h
      cases hro : readOffsets file data offset numChunks n [] with
      | err => rw [hro] at h; simp at h
      | panic => rw [hro] at h; simp at h
      | ok pr2 =>
        obtain ⟨offs, n'⟩ := pr2
        rw [hro] at h
        simp only [ok_bind, pure_eq_ok, Res.ok.injEq] at h
        rw [← h]

/-- a decoder slot as `PostingsList.iterator` hands it to `newChunkedIntDecoder`: nil, or a
    decoder that was just `reset()` -/
def ResetSlot (old : Option DecB) : Prop := old = none ∨ ∃ u, old = some (DecB.reset u)

theorem resetSlot_keptFn (rv : Option ItB) : ResetSlot (keptFn rv) := by
  cases rv with
  | none => exact Or.inl rfl
  | some u =>
    cases h : u.fnR with
    | none => left; simp [keptFn, h]
    | some b => right; exact ⟨b, by simp [keptFn, h]⟩

theorem resetSlot_keptLc (rv : Option ItB) : ResetSlot (keptLc rv) := by
  cases rv with
  | none => exact Or.inl rfl
  | some u =>
    cases h : u.lcR with
    | none => left; simp [keptLc, h]
    | some b => right; exact ⟨b, by simp [keptLc, h]⟩

/-- what `newChunkedIntDecoder` makes of such a slot: the fresh decoder, nothing loaded, no
    reader or a reader on the nil slice -/
theorem newDecB_slot {file : Bool} {data : Bytes} {offset : Nat} {d : Decoder}
    (hd : Decoder.newWith file data offset = .ok d) {old : Option DecB} (ho : ResetSlot old) :
    ∃ b, newDecB file data offset old = .ok b ∧ b.d = d ∧ b.dataNil = false ∧ b.curChunkBytes = [] ∧
      (∀ r, b.r = some r → r = ⟨[], 0⟩) := by
  obtain ⟨tail, h⟩ := (newDecB_spec file data offset old).1 d hd
  refine ⟨_, h, rfl, rfl, ?_, ?_⟩
  · rcases ho with rfl | ⟨u, rfl⟩
    · rfl
    · rfl
  · rcases ho with rfl | ⟨u, rfl⟩
    · intro r hr; cases hr
    · intro r hr
      have hr' : u.r.map (fun _ => (⟨[], 0⟩ : Rd)) = some r := hr
      cases hu : u.r with
      | none => rw [hu] at hr'; cases hr'
      | some r0 => rw [hu] at hr'; cases hr'; rfl

/-! ### `PostingsList.iterator` -/

/-- the `PostingsList` of the environment with exclusion list `ex` -/
def Env.pl (E : Env) (ex : Option (List Nat)) : PLB :=
  { cs := E.cs, freqOffset := E.freqOffset, locOffset := E.locOffset, file := E.file, data := E.data,
    fieldsInv := E.finv, docs := E.es.map (·.doc), except := ex }

theorem absFn_fresh {finv : List Bytes} {chunk : List Entry} {b : DecB} (h : b.curChunkBytes = []) :
    absFn finv chunk b = none := absFn_nil h

theorem absLc_fresh {finv : List Bytes} {chunk : List Entry} {b : DecB}
    (h : ∀ r, b.r = some r → r = ⟨[], 0⟩) : absLc finv chunk b = [] := by
  cases hr : b.r with
  | none => exact absLc_none hr
  | some r =>
    have := h r hr
    subst this
    exact absLc_empty hr rfl

/-- the state `PostingsList.iterator` returns, given the two decoder slots -/
def mkState (E : Env) (ex : Option (List Nat)) (fl : RFlags) (f' l' : Option DecB) (cap : Nat) : ItB :=
  { cs := E.cs, freqOffset := E.freqOffset, locOffset := E.locOffset, file := E.file,
    data := E.data, fieldsInv := E.finv, all := E.es.map (·.doc),
    act := (match ex with
      | none => E.es.map (·.doc)
      | some e => (E.es.map (·.doc)).filter (fun d => !e.contains d)),
    clean := ex.isNone, currChunk := 0, fnR := f', lcR := l', nextLocsCap := cap, fl := fl }

/-- `PostingsList.iterator(…, rv)` for ANY `rv` (nil, or an iterator in whatever state): it
    succeeds, the state is well formed, and its abstraction is the entry-level `mk` -/
theorem iteratorB_ok {E : Env} (hE : E.OK) (ex : Option (List Nat)) (fl : RFlags) (rv : Option ItB) :
    ∃ i, iteratorB (E.pl ex) fl rv = .ok i ∧ WF E i ∧
      absIt E i = Iter.mk E.cs (E.es.map (toP E.finv)) ex fl := by
  obtain ⟨bf, hbf, hbf1, hbf2, hbf3, hbf4⟩ := newDecB_slot hE.newT (resetSlot_keptFn rv)
  obtain ⟨bl, hbl, hbl1, hbl2, hbl3, hbl4⟩ := newDecB_slot hE.newL (resetSlot_keptLc rv)
  -- the two decoder slots after construction
  have hF : ∃ f', newSlot fl.incFN E.file E.data E.freqOffset (keptFn rv) = Res.ok f' ∧
      (fl.incFN = true → f' = some bf) := by
    unfold newSlot
    cases hfn : fl.incFN with
    | false => exact ⟨_, rfl, fun h => by cases h⟩
    | true => exact ⟨some bf, by simp [hbf], fun _ => rfl⟩
  have hL : ∃ l', newSlot fl.incL E.file E.data E.locOffset (keptLc rv) = Res.ok l' ∧
      (fl.incL = true → l' = some bl) := by
    unfold newSlot
    cases hl : fl.incL with
    | false => exact ⟨_, rfl, fun h => by cases h⟩
    | true => exact ⟨some bl, by simp [hbl], fun _ => rfl⟩
  obtain ⟨f', hf1, hf2⟩ := hF
  obtain ⟨l', hl1, hl2⟩ := hL
  have hrun : ∃ cap, iteratorB (E.pl ex) fl rv = .ok (mkState E ex fl f' l' cap) := by
    refine ⟨keptCap rv, ?_⟩
    unfold iteratorB
    simp only [Env.pl, hf1, hl1, ok_bind, pure_eq_ok]
    rfl
  obtain ⟨cap, hrun⟩ := hrun
  have hfnR : absFnR E (mkState E ex fl f' l' cap) = none := by
    unfold absFnR
    cases hfn : (mkState E ex fl f' l' cap).fl.incFN with
    | false => simp
    | true =>
      have : (mkState E ex fl f' l' cap).fnR = some bf := hf2 hfn
      simp only [if_true, this]
      exact absFn_fresh hbf3
  have hlcR : absLcR E (mkState E ex fl f' l' cap) = [] := by
    unfold absLcR
    cases hl : (mkState E ex fl f' l' cap).fl.incL with
    | false => simp
    | true =>
      have : (mkState E ex fl f' l' cap).lcR = some bl := hl2 hl
      simp only [if_true, this]
      exact absLc_fresh hbl4
  refine ⟨_, hrun, ?_, ?_⟩
  · refine ⟨rfl, rfl, ?_, ?_, ?_, ?_⟩
    · intro n hn
      have hmem : n ∈ E.es.map (·.doc) := by
        cases ex with
        | none => exact hn
        | some e => exact (List.mem_filter.mp hn).1
      obtain ⟨e, he, rfl⟩ := List.mem_map.mp hmem
      exact hE.doc e he
    · intro hfn
      exact ⟨bf, hf2 hfn, ⟨hbf1, hbf2, fun _ => hbf3, fun h => absurd hbf3 h⟩⟩
    · intro hl
      refine ⟨bl, hl2 hl, ⟨hbl1, hbl2, fun _ => hbl4, ?_⟩⟩
      intro r hr hS
      have := hbl4 r hr
      subst this
      exact absurd rfl hS
    · intro _ l hl
      exfalso
      have : absFnR E (mkState E ex fl f' l' cap) = some l := hl
      rw [hfnR] at this
      cases this
  · apply It.ext'
    · cases ex <;> rfl
    · cases ex <;> rfl
    · show E.es.map (·.doc) = _
      cases ex <;> simp [Iter.mk, toP]
    · cases ex with
      | none =>
        show E.es.map (·.doc) = _
        simp [Iter.mk, toP]
      | some e =>
        show (E.es.map (·.doc)).filter (fun d => !e.contains d) = _
        simp only [Iter.mk, List.map_map]
        rfl
    · cases ex <;> rfl
    · cases ex <;> rfl
    · show absFnR E _ = _
      rw [hfnR]
      cases ex <;> rfl
    · show absLcR E _ = _
      rw [hlcR]
      cases ex <;> rfl
    · cases ex <;> rfl

end Ice.Model.IterBytes
