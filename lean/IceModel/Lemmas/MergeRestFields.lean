import IceModel.Model.MergeRest
import IceModel.Lemmas.Sort
import IceModel.Lemmas.Builder.Base
/-
  `mergeFields` / `mapFields` (merge.go:825-856, 164-170): the merged field list is
  `Spec.fieldList` of everything the inputs list, whatever order the map is iterated in; `same`
  compares every list with the first one; equal `_id`-first ascending lists are reproduced.
-/
namespace Ice.Model.MergeRest
open Ice Ice.Model

/-! ### the key set of the map -/

theorem keysFold_spec (l : List Bytes) : ∀ (acc : List Bytes), acc.Nodup →
    (l.foldl (fun acc k => if acc.contains k then acc else acc ++ [k]) acc).Nodup ∧
    ∀ x, x ∈ l.foldl (fun acc k => if acc.contains k then acc else acc ++ [k]) acc ↔
      x ∈ acc ∨ x ∈ l := by
  induction l with
  | nil => intro acc h; simp [h]
  | cons a l ih =>
    intro acc h
    simp only [List.foldl_cons]
    by_cases ha : a ∈ acc
    · have hc : (if acc.contains a = true then acc else acc ++ [a]) = acc := by
        rw [if_pos (List.contains_iff_mem.2 ha)]
      rw [hc]
      obtain ⟨h1, h2⟩ := ih acc h
      refine ⟨h1, fun x => ?_⟩
      rw [h2 x]
      simp only [List.mem_cons]
      constructor
      · rintro (h | h)
        · exact .inl h
        · exact .inr (.inr h)
      · rintro (h | h | h)
        · exact .inl h
        · exact .inl (h ▸ ha)
        · exact .inr h
    · have hc : (if acc.contains a = true then acc else acc ++ [a]) = acc ++ [a] := by
        cases hb : acc.contains a with
        | false => simp
        | true => exact absurd (List.contains_iff_mem.1 hb) ha
      rw [hc]
      have hn : (acc ++ [a]).Nodup := by
        rw [List.nodup_append]
        refine ⟨h, by simp, ?_⟩
        intro x hx y hy
        simp only [List.mem_singleton] at hy
        subst hy
        intro e; subst e; exact ha hx
      obtain ⟨h1, h2⟩ := ih (acc ++ [a]) hn
      refine ⟨h1, fun x => ?_⟩
      rw [h2 x]
      simp only [List.mem_append, List.mem_cons, List.not_mem_nil, or_false]
      constructor
      · rintro ((h | h) | h)
        · exact .inl h
        · exact .inr (.inl h)
        · exact .inr (.inr h)
      · rintro (h | h | h)
        · exact .inl (.inl h)
        · exact .inl (.inr h)
        · exact .inr h

/-- the insertion order is one of the possible iteration orders -/
theorem mapOrder_keysOf (segs : List (List Bytes)) : MapOrder (keysOf segs) segs := by
  obtain ⟨h1, h2⟩ := keysFold_spec segs.flatten [] List.nodup_nil
  exact ⟨h1, fun x => by rw [keysOf, h2 x]; simp⟩

/-! ### the merged list -/

theorem nodup_filter {α : Type} {l : List α} (p : α → Bool) (h : l.Nodup) : (l.filter p).Nodup :=
  List.Pairwise.filter p h

/-- whatever the iteration order of the map: `_id`, then the other names ascending -/
theorem mergeFieldsWith_fields {order : List Bytes} {segs : List (List Bytes)}
    (h : MapOrder order segs) :
    (mergeFieldsWith order segs).2 = Spec.fieldList segs.flatten := by
  obtain ⟨hn, hm⟩ := h
  simp only [mergeFieldsWith, Spec.fieldList]
  congr 1
  rw [Builder.sortS_eq_sortDedup _ (nodup_filter _ hn)]
  apply asc_ext (asc_sortDedup _) (List.Pairwise.filter _ (asc_sortDedup _))
  intro x
  simp only [mem_sortDedup, List.mem_filter, hm x]

/-! ### `same` -/

theorem sameAs_iff (s0 l : List Bytes) : sameAs s0 l = true ↔ l = [] ∨ l = s0 := by
  unfold sameAs
  rw [List.all_eq_true]
  constructor
  · intro h
    cases l with
    | nil => exact .inl rfl
    | cons a r =>
      right
      have hlen : s0.length = (a :: r).length := by
        have := h (a, 0) (List.mem_zipIdx_iff_getElem?.2 (by simp))
        simp only [Bool.not_eq_true', Bool.or_eq_false_iff, bne_eq_false_iff_eq] at this
        exact this.1
      apply List.ext_getElem?
      intro i
      by_cases hi : i < (a :: r).length
      · have := h ((a :: r)[i], i) (List.mem_zipIdx_iff_getElem?.2 (by simp))
        simp only [Bool.not_eq_true', Bool.or_eq_false_iff, bne_eq_false_iff_eq] at this
        rw [this.2, List.getElem?_eq_getElem hi]
      · rw [List.getElem?_eq_none (by omega), List.getElem?_eq_none (by omega)]
  · rintro (h | h)
    · subst h; intro x hx; simp at hx
    · subst h
      intro x hx
      have := List.mem_zipIdx_iff_getElem?.1 hx
      simp [this]

/-- `same` is true iff every (non-empty) list equals the first one -/
theorem fieldsSame_iff (segs : List (List Bytes)) (hne : ∀ l ∈ segs, l ≠ []) :
    fieldsSame segs = true ↔ ∀ l ∈ segs, l = segs.headD [] := by
  cases segs with
  | nil => simp [fieldsSame]
  | cons s0 r =>
    simp only [fieldsSame, List.all_eq_true, List.headD_cons]
    constructor
    · intro h l hl
      rcases (sameAs_iff s0 l).1 (h l hl) with e | e
      · exact absurd e (hne l hl)
      · exact e
    · intro h l hl
      exact (sameAs_iff s0 l).2 (.inr (h l hl))

/-- a field list as every ice segment has it: `_id`, then the other names strictly ascending -/
def IdFirstAsc (l : List Bytes) : Prop := ∃ r, l = idField :: r ∧ Asc r ∧ idField ∉ r

theorem fieldList_replicate (l r : List Bytes) (hl : l = idField :: r) (hasc : Asc r)
    (hid : idField ∉ r) (names : List Bytes) (hsub : ∀ x ∈ names, x ∈ l) (hsup : ∀ x ∈ l, x ∈ names) :
    Spec.fieldList names = l := by
  subst hl
  simp only [Spec.fieldList]
  congr 1
  apply asc_ext (List.Pairwise.filter _ (asc_sortDedup _)) hasc
  intro x
  simp only [List.mem_filter, mem_sortDedup, bne_iff_ne, ne_eq]
  constructor
  · rintro ⟨h1, h2⟩
    rcases List.mem_cons.1 (hsub x h1) with e | e
    · exact absurd e h2
    · exact e
  · intro h
    exact ⟨hsup x (List.mem_cons_of_mem _ h), fun e => hid (e ▸ h)⟩

/-- when `same` holds and the lists are `_id`-first ascending, the merged list IS each input's
    list: the field ids of all inputs and of the result coincide -/
theorem mergeFieldsWith_same {order : List Bytes} {segs : List (List Bytes)}
    (ho : MapOrder order segs) (hs : fieldsSame segs = true) (hw : ∀ l ∈ segs, IdFirstAsc l) :
    ∀ l ∈ segs, (mergeFieldsWith order segs).2 = l := by
  have hne : ∀ l ∈ segs, l ≠ [] := by
    intro l hl; obtain ⟨r, e, _⟩ := hw l hl; rw [e]; simp
  have hall := (fieldsSame_iff segs hne).1 hs
  intro l hl
  rw [mergeFieldsWith_fields ho]
  obtain ⟨r, e, hasc, hid⟩ := hw l hl
  apply fieldList_replicate l r e hasc hid
  · intro x hx
    obtain ⟨l', hl', hx'⟩ := List.mem_flatten.1 hx
    rw [hall l hl, ← hall l' hl']; exact hx'
  · intro x hx
    exact List.mem_flatten.2 ⟨l, hl, hx⟩

/-! ### `mapFields` -/

theorem aget_aset {κ ν : Type} [DecidableEq κ] (m : Builder.AMap κ ν) (k k' : κ) (v : ν) :
    Builder.aget (Builder.aset m k v) k' = if k' = k then some v else Builder.aget m k' := by
  induction m with
  | nil => simp [Builder.aset, Builder.aget]
  | cons p r ih =>
    obtain ⟨a, b⟩ := p
    simp only [Builder.aset]
    by_cases h : k = a
    · subst h
      simp only [if_true, Builder.aget]
      by_cases h2 : k' = k <;> simp [h2]
    · simp only [h, if_false, Builder.aget, ih]
      by_cases h2 : k' = a
      · subst h2
        have : ¬ k' = k := fun e => h e.symm
        simp [this]
      · simp [h2]

theorem mapFields_fold (l : List Bytes) : ∀ (k : Nat) (m : Builder.AMap Bytes Nat) (name : Bytes),
    name ∉ l →
    Builder.aget ((l.zipIdx k).foldl
      (fun m p => Builder.aset m p.1 (Builder.u16 (Builder.u16 p.2 + 1))) m) name =
      Builder.aget m name := by
  induction l with
  | nil => intro k m name _; rfl
  | cons a l ih =>
    intro k m name hn
    simp only [List.zipIdx_cons, List.foldl_cons]
    rw [ih (k + 1) _ name (fun h => hn (List.mem_cons_of_mem _ h)), aget_aset]
    have : ¬ name = a := fun e => hn (e ▸ List.mem_cons_self)
    simp [this]

/-- on a duplicate-free list of fewer than 65535 names, `fieldsMap[name]` is the position of the
    name plus one, and 0 for an unknown name -/
theorem fieldsMapGet_mapFields (l : List Bytes) (hn : l.Nodup) (hlen : l.length < 65535)
    (name : Bytes) :
    fieldsMapGet (mapFields l) name =
      match l.idxOf? name with
      | some i => i + 1
      | none => 0 := by
  suffices h : ∀ (l : List Bytes) (k : Nat) (m : Builder.AMap Bytes Nat), l.Nodup →
      k + l.length < 65535 →
      (Builder.aget ((l.zipIdx k).foldl
        (fun m p => Builder.aset m p.1 (Builder.u16 (Builder.u16 p.2 + 1))) m) name).getD 0 =
        match l.idxOf? name with
        | some i => k + i + 1
        | none => (Builder.aget m name).getD 0 by
    have := h l 0 [] hn (by omega)
    simp only [Nat.zero_add] at this
    rw [fieldsMapGet, mapFields, this]
    cases l.idxOf? name <;> simp [Builder.aget]
  intro l
  induction l with
  | nil => intro k m _ _; simp
  | cons a l ih =>
    intro k m hn hlen
    have hn' := List.nodup_cons.1 hn
    simp only [List.length_cons] at hlen
    simp only [List.zipIdx_cons, List.foldl_cons, List.idxOf?_cons]
    by_cases ha : a = name
    · subst ha
      rw [mapFields_fold l (k + 1) _ a hn'.1, aget_aset]
      simp [Builder.u16]
      omega
    · have hb : (a == name) = false := by simp [ha]
      rw [hb, ih (k + 1) _ hn'.2 (by omega)]
      cases hi : l.idxOf? name with
      | none =>
        simp only [Option.map_none, Bool.false_eq_true, if_false]
        rw [aget_aset]
        have : ¬ name = a := fun e => ha e.symm
        simp [this]
      | some i =>
        simp only [Option.map_some, Bool.false_eq_true, if_false]
        show k + 1 + i + 1 = k + (i + 1) + 1
        omega

end Ice.Model.MergeRest
