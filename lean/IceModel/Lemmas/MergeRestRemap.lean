import IceModel.Model.MergeRest
import IceModel.Lemmas.Merge
import IceModel.Lemmas.Stored
import IceModel.Lemmas.DocValues
/-
  The document-number side of `mergeStoredAndRemap` and `computeNewDocCount`: whatever the stored
  bytes are, IF the segment loop returns, the maps it returns are `Spec.remapAll` (with
  `docDropped` for `none`), one per input segment.
-/
namespace Ice.Model.MergeRest
open Ice Ice.Model Ice.Spec

/-- how `newDocNums` shows a deleted document -/
def encNum : Option Nat → Nat
  | none => docDropped
  | some k => k

/-! ### `computeNewDocCount` -/

theorem live_le (drops : List Nat) (n : Nat) : liveCount drops n ≤ n := by
  unfold liveCount
  have := List.countP_le_length (p := fun i => !drops.contains i) (l := List.range n)
  simpa using this

theorem length_le_of_nodup_lt (l : List Nat) (n : Nat) (hn : l.Nodup) (hr : ∀ x ∈ l, x < n) :
    l.length ≤ n := by
  have h2 : (List.range n).countP (fun i => l.contains i) = l.length := by
    rw [List.countP_eq_length_filter]
    apply List.Perm.length_eq
    rw [List.perm_ext_iff_of_nodup (List.Pairwise.filter _ List.nodup_range) hn]
    intro a
    simp only [List.mem_filter, List.mem_range, List.contains_iff_mem]
    constructor
    · exact fun h => h.2
    · exact fun h => ⟨hr a h, h⟩
  have := List.countP_le_length (p := fun i => l.contains i) (l := List.range n)
  simp only [List.length_range] at this
  omega

theorem computeNewDocCount_fold (l : List (Nat × List Nat))
    (hv : ∀ p ∈ l, p.2.Nodup ∧ ∀ x ∈ p.2, x < p.1) : ∀ (acc : Nat),
    acc + (l.map (·.1)).sum < 2 ^ 64 →
    l.foldl (fun acc p => DocValues.sub64 (DocValues.add64 acc p.1) p.2.length) acc =
      acc + (l.map (fun p => liveCount p.2 p.1)).sum := by
  induction l with
  | nil => intro acc _; simp
  | cons p r ih =>
    intro acc hb
    simp only [List.map_cons, List.sum_cons] at hb
    have hp := hv p (by simp)
    have hl := liveCount_valid p.2 p.1 hp.1 hp.2
    have hle := live_le p.2 p.1
    have h1 : DocValues.add64 acc p.1 = acc + p.1 := DocValues.add64_small (by omega)
    have hlen : p.2.length ≤ p.1 := length_le_of_nodup_lt p.2 p.1 hp.1 hp.2
    have h2 : DocValues.sub64 (acc + p.1) p.2.length = acc + p.1 - p.2.length :=
      DocValues.sub64_small (by omega) (by omega)
    rw [List.foldl_cons, h1, h2]
    simp only [List.map_cons, List.sum_cons]
    rw [ih (fun q hq => hv q (by simp [hq])) _ (by omega)]
    omega

/-! ### one segment, re-encode path -/

/-- the numbers the document loop assigns: `docDropped` to the deleted documents, consecutive
    numbers from `s` to the others; and the counter afterwards -/
def numsOf (drops : List Nat) : List Nat → Nat → List Nat × Nat
  | [], s => ([], s)
  | d :: r, s =>
    if drops.contains d then (docDropped :: (numsOf drops r s).1, (numsOf drops r s).2)
    else (s :: (numsOf drops r (s + 1)).1, (numsOf drops r (s + 1)).2)

theorem numsOf_append (drops : List Nat) (a b : List Nat) : ∀ s,
    numsOf drops (a ++ b) s =
      ((numsOf drops a s).1 ++ (numsOf drops b (numsOf drops a s).2).1,
       (numsOf drops b (numsOf drops a s).2).2) := by
  induction a with
  | nil => intro s; rfl
  | cons d a ih =>
    intro s
    simp only [List.cons_append, numsOf]
    split <;> simp [ih]

theorem numsOf_range (drops : List Nat) (n start : Nat) :
    numsOf drops (List.range n) start =
      ((remap n drops start).1.map encNum, (remap n drops start).2) := by
  induction n with
  | zero => simp [numsOf, remap]
  | succ n ih =>
    have hstep : remap (n + 1) drops start =
        (if drops.contains n then ((remap n drops start).1 ++ [none], (remap n drops start).2)
         else ((remap n drops start).1 ++ [some (remap n drops start).2],
               (remap n drops start).2 + 1)) := by
      simp only [remap, List.range_succ, List.foldl_append, List.foldl_cons, List.foldl_nil]
    rw [List.range_succ, numsOf_append, ih, hstep]
    simp only [numsOf]
    cases drops.contains n <;> simp [encNum]

theorem isDropped_small (drops : List Nat) (d : Nat) (h : d < 2 ^ 32) :
    isDropped drops d = drops.contains d := by
  unfold isDropped; rw [Nat.mod_eq_of_lt h]

section
open Ice.Model.Stored

theorem remapSegLoop_nums (cd : Codec) (src : Src) (drops : List Nat)
    (fm : Builder.AMap Bytes Nat) (nM : Nat) : ∀ (l : List Nat) (st : MS) (seen : List Nat)
    (st' : MS) (seen' : List Nat), (∀ d ∈ l, d < 2 ^ 32) →
    remapSegLoop cd src drops fm nM l st seen = .ok (st', seen') →
    seen' = seen ++ (numsOf drops l st.newDocNum).1 ∧
    st'.newDocNum = (numsOf drops l st.newDocNum).2 ∧ st'.dno.length = st.dno.length := by
  intro l
  induction l with
  | nil =>
    intro st seen st' seen' _ h
    simp only [remapSegLoop, Res.ok.injEq, Prod.mk.injEq] at h
    obtain ⟨rfl, rfl⟩ := h
    simp [numsOf]
  | cons d r ih =>
    intro st seen st' seen' hl h
    have hd := hl d (by simp)
    have hr : ∀ x ∈ r, x < 2 ^ 32 := fun x hx => hl x (by simp [hx])
    rw [remapSegLoop, isDropped_small drops d hd] at h
    by_cases hc : drops.contains d = true
    · rw [if_pos hc] at h
      obtain ⟨h1, h2, h3⟩ := ih _ _ _ _ hr h
      simp only [numsOf, hc, if_true]
      exact ⟨by rw [h1]; simp, h2, h3⟩
    · rw [if_neg hc] at h
      simp only [numsOf, hc, if_false, Bool.false_eq_true]
      cases hv : visit cd src.seg st.vdc d none with
      | err => rw [hv] at h; simp [Res.bind] at h
      | panic => rw [hv] at h; simp [Res.bind] at h
      | ok dv =>
        rw [hv] at h
        simp only [Res.bind_ok] at h
        cases hcv : collectVals src.fields fm dv.1 (List.replicate nM []) with
        | err => rw [hcv] at h; simp [Res.bind] at h
        | panic => rw [hcv] at h; simp [Res.bind] at h
        | ok vals =>
          rw [hcv] at h
          simp only [Res.bind_ok] at h
          split at h
          · obtain ⟨h1, h2, h3⟩ := ih _ _ _ _ hr h
            simp only [List.length_set] at h3
            exact ⟨by rw [h1]; simp, h2, h3⟩
          · simp at h

theorem remapSegment_nums (cd : Codec) (src : Src) (drops : List Nat)
    (fm : Builder.AMap Bytes Nat) (nM : Nat) (st st' : MS) (seen' : List Nat)
    (hn : src.seg.numDocs ≤ 2 ^ 32)
    (h : remapSegment cd src drops fm nM st = .ok (st', seen')) :
    seen' = (remap src.seg.numDocs drops st.newDocNum).1.map encNum ∧
    st'.newDocNum = (remap src.seg.numDocs drops st.newDocNum).2 ∧
    st'.dno.length = st.dno.length := by
  have := remapSegLoop_nums cd src drops fm nM _ st [] st' seen'
    (fun d hd => by have := List.mem_range.1 hd; omega) h
  rw [numsOf_range] at this
  simpa using this

/-! ### the copy path keeps the length of `docNumOffsets` -/

theorem copyLoop_dno_length (cd : Codec) (unc : Buf) : ∀ (slots : Nat) (off : Int) (st st' : CS),
    copyLoop cd unc slots off st = .ok st' → st'.dno.length = st.dno.length := by
  intro slots
  induction slots with
  | zero =>
    intro off st st' h
    unfold copyLoop at h
    split at h
    · simp only at h
      cases h1 : sliceI unc off (clampI (addI off 10) unc) with
      | err => rw [h1] at h; simp [Res.bind] at h
      | panic => rw [h1] at h; simp [Res.bind] at h
      | ok w1 =>
        rw [h1] at h
        simp only [Res.bind_ok] at h
        cases h2 : sliceI unc (addI off (addI 0 (uvarintGo w1.data).2))
            (clampI (addI (addI off (addI 0 (uvarintGo w1.data).2)) 10) unc) with
        | err => rw [h2] at h; simp [Res.bind] at h
        | panic => rw [h2] at h; simp [Res.bind] at h
        | ok w2 => rw [h2] at h; simp at h
    · simp only [Res.ok.injEq] at h; rw [h]
  | succ slots ih =>
    intro off st st' h
    unfold copyLoop at h
    split at h
    · simp only at h
      cases h1 : sliceI unc off (clampI (addI off 10) unc) with
      | err => rw [h1] at h; simp [Res.bind] at h
      | panic => rw [h1] at h; simp [Res.bind] at h
      | ok w1 =>
        rw [h1] at h
        simp only [Res.bind_ok] at h
        cases h2 : sliceI unc (addI off (addI 0 (uvarintGo w1.data).2))
            (clampI (addI (addI off (addI 0 (uvarintGo w1.data).2)) 10) unc) with
        | err => rw [h2] at h; simp [Res.bind] at h
        | panic => rw [h2] at h; simp [Res.bind] at h
        | ok w2 =>
          rw [h2] at h
          simp only [Res.bind_ok] at h
          generalize hA : addI off (addI (addI 0 (uvarintGo w1.data).2) (uvarintGo w2.data).2) = A
            at h
          cases h3 : sliceI unc A (addI A (toInt64 (uvarintGo w1.data).1)) with
          | err => rw [h3] at h; simp [Res.bind] at h
          | panic => rw [h3] at h; simp [Res.bind] at h
          | ok mb =>
            rw [h3] at h
            simp only [Res.bind_ok] at h
            cases h4 : sliceI unc (addI A (toInt64 (uvarintGo w1.data).1))
                (addI A (toInt64 (add64 (uvarintGo w1.data).1 (uvarintGo w2.data).1))) with
            | err => rw [h4] at h; simp [Res.bind] at h
            | panic => rw [h4] at h; simp [Res.bind] at h
            | ok db =>
              rw [h4] at h
              simp only [Res.bind_ok] at h
              have := ih _ _ _ h
              simpa using this
    · simp only [Res.ok.injEq] at h; rw [h]

theorem copyChunks_dno_length (cd : Codec) (seg : Seg) : ∀ (l : List Nat) (unc : Buf) (st st' : CS),
    copyChunks cd seg l unc st = .ok st' → st'.dno.length = st.dno.length := by
  intro l
  induction l with
  | nil => intro unc st st' h; simp only [copyChunks, Res.ok.injEq] at h; rw [h]
  | cons i r ih =>
    intro unc st st' h
    rw [copyChunks] at h
    cases h1 : index seg.chunkOffsets i with
    | err => rw [h1] at h; simp [Res.bind] at h
    | panic => rw [h1] at h; simp [Res.bind] at h
    | ok cs =>
      rw [h1] at h
      simp only [Res.bind_ok] at h
      cases h2 : index seg.chunkOffsets (i + 1) with
      | err => rw [h2] at h; simp [Res.bind] at h
      | panic => rw [h2] at h; simp [Res.bind] at h
      | ok ce =>
        rw [h2] at h
        simp only [Res.bind_ok] at h
        split at h
        · exact ih _ _ _ h
        · cases h3 : dataRead seg.mem cs ce with
          | err => rw [h3] at h; simp [Res.bind] at h
          | panic => rw [h3] at h; simp [Res.bind] at h
          | ok comp =>
            rw [h3] at h
            simp only [Res.bind_ok] at h
            cases h4 : decompressInto cd unc comp with
            | none => rw [h4] at h; simp at h
            | some u =>
              rw [h4] at h
              simp only at h
              cases h5 : copyLoop cd u (st.dno.length - st.newDocNum) 0 st with
              | err => rw [h5] at h; simp [Res.bind] at h
              | panic => rw [h5] at h; simp [Res.bind] at h
              | ok st1 =>
                rw [h5] at h
                simp only [Res.bind_ok] at h
                rw [ih _ _ _ h, copyLoop_dno_length cd u _ _ _ _ h5]

theorem copyStoredDocs_dno_length (cd : Codec) (seg : Seg) (st st' : CS)
    (h : copyStoredDocs cd seg st = .ok st') : st'.dno.length = st.dno.length := by
  unfold copyStoredDocs at h
  split at h
  · simp only [Res.ok.injEq] at h; rw [h]
  · exact copyChunks_dno_length cd seg _ _ _ _ h

/-! ### the segment loop -/

/-- `(footer.numDocs, drops[segI])` of the segments of the loop -/
def pairsOf (drops : List (List Nat)) (l : List (Src × Nat)) : List (Nat × List Nat) :=
  l.map fun p => (p.1.seg.numDocs, drops.getD p.2 [])

theorem remap_nil (n start : Nat) :
    remap n [] start = ((List.range n).map (fun d => some (start + d)), start + n) := by
  rw [remap_eq, liveCount_nil]
  simp [remapList, liveCount_nil]

theorem segLoop_nums (cd : Codec) (drops : List (List Nat)) (fm : Builder.AMap Bytes Nat)
    (nM : Nat) (same : Bool) : ∀ (l : List (Src × Nat)) (st : MS) (acc : List (List Nat))
    (st' : MS) (acc' : List (List Nat)), (∀ p ∈ l, p.1.seg.numDocs ≤ 2 ^ 32) →
    segLoop cd drops fm nM same l st acc = .ok (st', acc') →
    acc' = acc ++ (remapAll (pairsOf drops l) st.newDocNum).map (·.map encNum) ∧
    st'.newDocNum = st.newDocNum + ((pairsOf drops l).map (fun q => liveCount q.2 q.1)).sum ∧
    st'.dno.length = st.dno.length := by
  intro l
  induction l with
  | nil =>
    intro st acc st' acc' _ h
    simp only [segLoop, Res.ok.injEq, Prod.mk.injEq] at h
    obtain ⟨rfl, rfl⟩ := h
    simp [pairsOf, remapAll]
  | cons p r ih =>
    intro st acc st' acc' hl h
    obtain ⟨src, segI⟩ := p
    have hp := hl (src, segI) (by simp)
    have hr : ∀ q ∈ r, q.1.seg.numDocs ≤ 2 ^ 32 := fun q hq => hl q (by simp [hq])
    rw [segLoop] at h
    cases hd : drops[segI]? with
    | none => rw [hd] at h; simp at h
    | some dropsI =>
      rw [hd] at h
      simp only at h
      have hgd : drops.getD segI [] = dropsI := by rw [List.getD_eq_getElem?_getD, hd]; rfl
      have hpairs : pairsOf drops ((src, segI) :: r) =
          (src.seg.numDocs, dropsI) :: pairsOf drops r := by simp [pairsOf, hd]
      rw [hpairs, remapAll_cons]
      split at h
      · next hcopy =>
        simp only [Bool.and_eq_true, beq_iff_eq] at hcopy
        have hnil : dropsI = [] := List.length_eq_zero_iff.mp hcopy.2
        subst hnil
        cases hc : copyStoredDocs cd src.seg ⟨st.newDocNum, st.dno, st.coder⟩ with
        | err => rw [hc] at h; simp [Res.bind] at h
        | panic => rw [hc] at h; simp [Res.bind] at h
        | ok cs =>
          rw [hc] at h
          simp only [Res.bind_ok] at h
          obtain ⟨h1, h2, h3⟩ := ih _ _ _ _ hr h
          have hcl := copyStoredDocs_dno_length cd src.seg _ _ hc
          simp only at h2 h3 hcl
          refine ⟨?_, ?_, by rw [h3, hcl]⟩
          · rw [h1, liveCount_nil]
            simp [remapList, liveCount_nil, encNum, Function.comp_def]
          · rw [h2]; simp [liveCount_nil]; omega
      · cases hc : remapSegment cd src dropsI fm nM st with
        | err => rw [hc] at h; simp [Res.bind] at h
        | panic => rw [hc] at h; simp [Res.bind] at h
        | ok q =>
          rw [hc] at h
          simp only [Res.bind_ok] at h
          obtain ⟨st1, seen1⟩ := q
          obtain ⟨g1, g2, g3⟩ := remapSegment_nums cd src dropsI fm nM st st1 seen1 hp hc
          obtain ⟨h1, h2, h3⟩ := ih _ _ _ _ hr h
          simp only at h1 h2 h3
          rw [remap_eq] at g1 g2
          simp only at g1 g2
          refine ⟨?_, ?_, by rw [h3, g3]⟩
          · rw [h1, g1, g2]; simp
          · rw [h2, g2]; simp; omega

theorem pairsOf_zipIdx (drops : List (List Nat)) (srcs : List Src)
    (hd : drops.length = srcs.length) :
    pairsOf drops srcs.zipIdx = (srcs.zip drops).map (fun p => (p.1.seg.numDocs, p.2)) := by
  unfold pairsOf
  apply List.ext_getElem?
  intro i
  simp only [List.getElem?_map, List.getElem?_zipIdx, Nat.zero_add, List.zip_eq_zipWith,
    List.getElem?_zipWith]
  by_cases hi : i < srcs.length
  · have hi' : i < drops.length := by omega
    simp [List.getElem?_eq_getElem hi, List.getElem?_eq_getElem hi']
  · simp [List.getElem?_eq_none (Nat.le_of_not_lt hi)]

end

end Ice.Model.MergeRest
