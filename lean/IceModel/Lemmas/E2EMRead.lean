import IceModel.Lemmas.E2EMDefs
/-
  END-TO-END, generic half: a valid description `L` that lays out the abstract segment `S`
  (`Lays S L`, `Lemmas/E2EMDefs.lean`), written by `serialize` and loaded by `load`, reads as `S`
  through the byte-level readers (`ReadsAsM`).  Composition of C04 (container), C05Bytes /
  C05OneHit (iterators), C06 (stored), C07 (doc values); nothing here is specific to the merger.
-/
namespace Ice.Props.E2EM
open Ice Ice.Spec Ice.Model Ice.Model.Format
open Ice.Model.MergeRest (DocRel Rel₂ nameOf stored_eq)
open Ice.Model.IterBytes (mkB runB)
open Ice.Model.Iter (RFlags)
open Ice.Model.Writer (Footer)
open Ice.Props.E2E

/-! ### small facts -/

theorem terms_of_no_docs {S : AbsSeg} (h : S.docs = []) (f : Bytes) : terms S f = [] := by
  unfold terms; rw [h]; rfl

theorem mem_docs_of_posting {S : AbsSeg} {f t : Bytes} {p : Posting} (h : p ∈ postings S f t) :
    ∃ d ∈ S.docs, ∃ af ∈ d, ∃ x ∈ af.terms, p.locs = x.locs ∧ p.norm = af.norm := by
  obtain ⟨n, d, af, x, hd, hf, hx, rfl⟩ := mem_postings h
  exact ⟨d, List.mem_of_getElem? hd, af, (field?_mem hf).1, x, List.mem_of_find?_eq_some hx, rfl, rfl⟩

/-- the specification iterator seen through the flags (C05_view with the `specRun` in between) -/
theorem specRun_view (fl : Flags) (P : List Posting) (hP : C05.Sorted P) (E : Option (List Nat))
    (ops : List IterOp) :
    viewRun fl (Iter.specRun (RFlags.of fl) (live P E) ops) = (iterRun fl (live P E) ops).map some := by
  have h1 := C05.C05_view 1 (by decide) P hP E fl ops
  rw [C05.C05_entry_of 1 (by decide) P hP E fl ops] at h1
  exact h1

section
variable {K : Codecs} {S : AbsSeg} {L : LSeg} (hV : C04.Valid K L) (hL : Lays S L)

include hL in
theorem lays_field {i : Nat} {f : Bytes} (hf : S.fields[i]? = some f) :
    ∃ fd, L.fields[i]? = some fd ∧ fd.name = f := by
  have h := congrArg (fun l => l[i]?) hL.names
  simp only [List.getElem?_map, hf] at h
  cases hfd : L.fields[i]? with
  | none => rw [hfd] at h; cases h
  | some fd =>
    rw [hfd] at h
    exact ⟨fd, rfl, by simpa using h⟩

include hL in
theorem lays_fields_length : L.fields.length = S.fields.length := by
  have := congrArg List.length hL.names
  simpa using this

variable {data : Bytes} {ft : Footer} (hs : serialize K L = .ok (data, ft)) (mem : Bool)
  {ld : Loaded} (hl : load mem (fileOf K data ft) = .ok ld)

include hV hL hs hl in
/-- field list, statistics, document count, chunk mode, `CollectionStats` -/
theorem lays_fields :
    ld.fieldsInv = S.fields ∧ ld.fieldDocs = S.fieldDocs ∧ ld.fieldFreqs = S.fieldFreqs ∧
    ld.footer.numDocs = numDocs S ∧ ld.footer.chunkMode = S.chunkMode ∧ ld.data.mem = mem ∧
    ∀ f, loadedStats ld f = stats S f := by
  obtain ⟨ld', hl', hdata, _, hnd, hcm, hfi, hfd, hff, _, _⟩ := C04.C04_fields K L hV data ft hs mem
  rw [hl] at hl'
  injection hl' with hl'
  subst hl'
  have h1 : ld.fieldsInv = S.fields := by rw [hfi, hL.names]
  have h2 : ld.fieldDocs = S.fieldDocs := by rw [hfd, hL.fieldDocs]
  have h3 : ld.fieldFreqs = S.fieldFreqs := by rw [hff, hL.fieldFreqs]
  have h4 : ld.footer.numDocs = numDocs S := by rw [hnd, hL.numDocs]; rfl
  refine ⟨h1, h2, h3, h4, by rw [hcm, hL.mode], by rw [hdata], ?_⟩
  intro f
  unfold loadedStats stats
  rw [h1, h2, h3, h4]
  cases S.fields.idxOf? f <;> rfl

include hV hL hs hl in
/-- the FST of every field holds the terms of the specification in order -/
theorem lays_dict :
    (∀ (i : Nat) (f : Bytes), S.fields[i]? = some f →
      ∃ o, dictionaryOf K ld i = .ok o ∧ dictKeys o = terms S f ∧ (S.docs ≠ [] → o.isSome)) ∧
    (∀ i : Nat, S.fields[i]? = none → dictionaryOf K ld i = .ok none) := by
  obtain ⟨ld', hl', h0, hpos⟩ := C04.C04_dict K L hV data ft hs mem
  rw [hl] at hl'
  injection hl' with hl'
  subst hl'
  refine ⟨?_, ?_⟩
  · intro i f hf
    by_cases hb : S.docs = []
    · refine ⟨none, h0 (by rw [hL.numDocs, hb]; rfl) i, ?_, fun h => absurd hb h⟩
      rw [terms_of_no_docs hb]; rfl
    · have hpos' : 0 < L.numDocs := by
        rw [hL.numDocs]; exact List.length_pos_iff.mpr hb
      obtain ⟨fd, hfd, _⟩ := lays_field hL hf
      obtain ⟨fst, hd, hkeys, _⟩ := hpos hpos' i fd hfd
      refine ⟨some fst, hd, ?_, fun _ => rfl⟩
      simp only [dictKeys, hkeys]
      exact (hL.terms i f fd hf hfd).1
  · intro i hi
    obtain ⟨ld', hl', _, _, _, _, _, _, _, hdl, _⟩ := C04.C04_fields K L hV data ft hs mem
    rw [hl] at hl'
    injection hl' with hl'
    subst hl'
    have : ld.dictLocs[i]? = none := by
      rw [List.getElem?_eq_none_iff] at hi ⊢
      rw [hdl, lays_fields_length hL]
      exact hi
    unfold dictionaryOf
    rw [this]

include hV hL hs hl in
/-- `VisitStoredFields` -/
theorem lays_stored (n : Nat) (buf : Stored.Buf) (stop : Option Nat) :
    ∃ vs buf', Stored.visit K.stored ld.storedSeg buf n stop = .ok (vs, buf') ∧
      vs.map (fun p => (ld.fieldsInv.getD p.1 [], p.2)) = Stored.takeStop stop (stored S n) := by
  obtain ⟨hfi, _⟩ := lays_fields hV hL hs mem hl
  obtain ⟨ld', tail, hl', _, _, hvisit, hbeyond⟩ := C04.C04_stored K L hV data ft hs mem
  rw [hl] at hl'
  injection hl' with hl'
  subst hl'
  have hslen : L.stored.length = S.docs.length := hL.stored.length_eq
  by_cases hn : n < S.docs.length
  · have hn' : n < L.stored.length := by rw [hslen]; exact hn
    obtain ⟨buf', hvis⟩ := hvisit n hn' buf stop
    refine ⟨_, buf', hvis, ?_⟩
    rw [← takeStop_map]
    congr 1
    have hrel := hL.stored.get n _ _ (List.getElem?_eq_getElem hn') (List.getElem?_eq_getElem hn)
    rw [stored_eq, List.getElem?_eq_getElem hn, hfi]
    exact hrel.2
  · refine ⟨[], buf, hbeyond n (by rw [hslen]; omega) buf stop, ?_⟩
    have : stored S n = [] := by
      unfold stored
      rw [List.getElem?_eq_none (by omega)]
    rw [this, Stored.takeStop_nil]
    rfl

include hV hL hs hl in
/-- doc values -/
theorem lays_dv (i : Nat) (f : Bytes) (hf : S.fields[i]? = some f) :
    ∃ ro, ld.dvReaders[i]? = some ro ∧
      match ro with
      | none => ∀ n, dvOf S n f = []
      | some r0 => ∀ ds : List Nat, (∀ d ∈ ds, d < S.docs.length) →
          ∃ r', DocValues.Reader.visitAll K.dv ld.data dvChunk r0 ds =
            .ok (ds.map (fun n => dvOf S n f), r') := by
  obtain ⟨ld', hl', hlen, h0, hpos⟩ := C04.C04_dv K L hV data ft hs mem
  rw [hl] at hl'
  injection hl' with hl'
  subst hl'
  obtain ⟨fd, hfd, _⟩ := lays_field hL hf
  have hi : i < ld.dvReaders.length := by
    rw [hlen]
    by_cases h : i < L.fields.length
    · exact h
    · rw [List.getElem?_eq_none (by omega)] at hfd; cases hfd
  have hdv := hL.dv i f fd hf hfd
  by_cases hb : S.docs = []
  · refine ⟨none, ?_, ?_⟩
    · rw [List.getElem?_eq_getElem hi]
      congr 1
      exact h0 (by rw [hL.numDocs, hb]; rfl) _ (List.getElem_mem hi)
    · intro n
      unfold dvOf
      rw [hb]; rfl
  · have hpos' : 0 < L.numDocs := by
      rw [hL.numDocs]; exact List.length_pos_iff.mpr hb
    obtain ⟨hn, hs'⟩ := hpos hpos' i fd hfd
    cases hfdv : fd.dv with
    | none =>
      rw [hfdv] at hdv
      exact ⟨none, hn hfdv, hdv⟩
    | some vals =>
      rw [hfdv] at hdv
      replace hdv := hdv.2.2
      obtain ⟨r0, hr0, _, _, _, _, _, hvis⟩ := hs' vals hfdv
      refine ⟨some r0, hr0, ?_⟩
      intro ds hds
      obtain ⟨r', hr'⟩ := hvis ds (fun d hd => by have := hds d hd; rw [hL.numDocs]; omega)
      refine ⟨r', ?_⟩
      rw [hr']
      congr 2
      apply List.map_congr_left
      intro n _
      exact hdv n

variable (hA : AbsOK S)

include hV hL hs hl hA in
/-- iterators: general terms through the byte-level `PostingsIterator`, 1-hit terms through the
    1-hit path -/
theorem lays_iter (i : Nat) (f : Bytes) (hf : S.fields[i]? = some f)
    (j : Nat) (t : Bytes) (ht : (terms S f)[j]? = some t) :
    ∃ fst v, dictionaryOf K ld i = .ok (some fst) ∧ fst[j]? = some (t, v) ∧
      ((∃ fo lo cs, readPostings K ld v = .ok (.general fo lo ((postings S f t).map (·.doc)) cs) ∧
        ∀ (ex : Option (List Nat)) (fl : Flags) (ops : List IterOp),
          ∃ i0, mkB (plbOf ld fo lo cs ((postings S f t).map (·.doc)) ex) (RFlags.of fl) = .ok i0 ∧
            (runB K.chunk i0 ops).map (C05Bytes.viewRes fl) =
              (iterRun fl (live (postings S f t) ex) ops).map .ok) ∨
       (∃ d n, readPostings K ld v = .ok (.oneHit d n) ∧ postings S f t = [Iter1Hit.posting d n] ∧
        ∀ (ex : Option (List Nat)) (fl : Flags) (ops : List IterOp),
          viewRun fl (Iter1Hit.run (Iter1Hit.mk d n ex (RFlags.of fl)) ops) =
            (iterRun fl (live (postings S f t) ex) ops).map some)) := by
  have hSB := hA.bounds
  have hF : S.fields.length ≤ 65535 := Nat.le_of_lt hA.nfields
  -- a field with a term has a document
  have hb : S.docs ≠ [] := by
    intro hb
    rw [terms_of_no_docs hb] at ht
    cases ht
  have hpos : 0 < L.numDocs := by rw [hL.numDocs]; exact List.length_pos_iff.mpr hb
  obtain ⟨mid, dictLocs, rs, hw, hl', _⟩ := C04.load_written hV hs mem
  rw [hl] at hl'
  injection hl' with hl'
  subst hl'
  obtain ⟨fd, hfd, _⟩ := lays_field hL hf
  obtain ⟨hkeys, hrep⟩ := hL.terms i f fd hf hfd
  -- the j-th term of the description
  have htj : ∃ td, fd.terms[j]? = some (t, td) := by
    have h := congrArg (fun l => l[j]?) hkeys
    simp only [List.getElem?_map, ht] at h
    cases hq : fd.terms[j]? with
    | none => rw [hq] at h; cases h
    | some q =>
      rw [hq] at h
      simp only [Option.map_some, Option.some.injEq] at h
      exact ⟨q.2, by rw [← h]⟩
  obtain ⟨td, htd⟩ := htj
  have hr := hrep j t td htd
  have hloc : ∀ p ∈ postings S f t, ∀ l ∈ p.locs, l.field ∈ S.fields := by
    intro p hp l hl'
    obtain ⟨d, hd, af, haf, x, hx, hlx, _⟩ := mem_docs_of_posting hp
    rw [hlx] at hl'
    exact hA.locs d hd af haf x hx l hl'
  cases td with
  | general es =>
    have hes' : es = (postings S f t).map (postingToE S.fields) := hr
    subst hes'
    have hc := contract_postings hSB hF f t hloc
    rw [← hL.numDocs] at hc
    obtain ⟨fst, v, fo, lo, cs, hdict, _, hfj, hread, _, E, hE, hK, hes, hcs, hfinv, hfile, hdata,
      hfo, hlo, _⟩ := term_env hV hw hpos mem rs i fd hfd j t _ htd _ hc (!mem)
    refine ⟨fst, v, hdict, hfj, .inl ⟨fo, lo, cs, ?_, ?_⟩⟩
    · rw [hread, List.map_map]; rfl
    · intro ex fl ops
      obtain ⟨i0, hmk, hrunB⟩ := iter_env hE (by rw [hes]; exact hc.sorted) ex fl ops
      have hpl : E.pl ex = plbOf (C04.loadedSeg K L data ft mem dictLocs rs) fo lo cs
          ((postings S f t).map (·.doc)) ex := by
        unfold Ice.Model.IterBytes.Env.pl plbOf
        rw [hcs, hfo, hlo, hfile, hdata, hfinv, hes, List.map_map]
        simp only [C04.loadedSeg, hL.names]
        rfl
      rw [hpl] at hmk
      refine ⟨i0, hmk, ?_⟩
      rw [← hK, hrunB, hes, hfinv, map_toP_postingToE hloc]
  | oneHit d n =>
    obtain ⟨_, p, hps, hpd, hpn, hpf, hpl⟩ := hr
    obtain ⟨vals, hvl, hvals, hdict, hterm⟩ := C04.field_dict hV hw hpos mem rs i fd hfd
    obtain ⟨pre, tbj, suf, v, hvj, _, _, _, htp⟩ := hterm j _ htd
    have htv := (hV.fields fd (List.mem_of_getElem? hfd)).2.2.2.2.1 (t, .oneHit d n)
      (List.mem_of_getElem? htd)
    obtain ⟨_, hd31, hn31, _⟩ := htv
    obtain ⟨_, hv⟩ : tbj = [] ∧ v = encode1Hit d n := htp
    have hp1 : postings S f t = [Iter1Hit.posting d n] := by
      rw [hps]
      cases p
      simp only [Iter1Hit.posting] at *
      subst hpd; subst hpn; subst hpf; subst hpl
      rfl
    refine ⟨_, v, hdict, ?_, .inr ⟨d, n, ?_, hp1, ?_⟩⟩
    · rw [List.getElem?_zip_eq_some]
      exact ⟨by rw [List.getElem?_map, htd]; rfl, hvj⟩
    · rw [hv]
      unfold readPostings
      rw [if_pos (is1Hit_encode d n), decode_encode1Hit d n hd31 hn31]
    · intro ex fl ops
      rw [hp1, C05.C05_onehit]
      exact specRun_view fl _ (List.pairwise_singleton _ _) ex ops

include hV hL hs hl hA in
/-- **a laid-out segment reads as the segment it lays out** -/
theorem lays_read : ReadsAsM K S ld := by
  obtain ⟨h1, h2, h3, h4, h5, _, h7⟩ := lays_fields hV hL hs mem hl
  obtain ⟨hd1, hd2⟩ := lays_dict hV hL hs mem hl
  exact ⟨⟨h1, h2, h3, h4, h5⟩, h7, hd1, hd2, lays_iter hV hL hs mem hl hA,
    lays_stored hV hL hs mem hl, lays_dv hV hL hs mem hl⟩

end

end Ice.Props.E2EM
