import IceModel.Model.Stored
import IceModel.Lemmas.UvarintWindow
/-
  Inverse-parsing lemmas for the stored-fields section (property C06):
    * varint readers after the writer, big-endian words
    * the encoder of one document in closed form (`record_eq`), the visitor loop on its meta
      triples (`visitLoop_metaOf`), reading one record back (`readRecordLens_record`,
      `visitRecord_record`: the single-document round trip)
    * the chunked coder: buffering / closing a block (`writeDocs_inBlock`, `writeDocs_closeBlock`),
      where a document lies in the written bytes (`Located`, block `n / bs`, offset `dso[n]`;
      `writeDocs_located`, `writeStoredFields_located`), number of chunk offsets
      (`chunkOffsets_length`)
    * the reader on a located document (`visit_located`)
    * the offsets trailer (`writeStoredFields_layout`, `loadStoredFieldChunk_ok`)
    * the fuel of the visitor loop is never limiting (`visitLoop_fuel_stable`)
-/
namespace Ice.Model.Stored
open Ice Ice.Model
open Ice.Model.Writer (be unbe)

/-! ## `Res` -/

@[simp] theorem Res.bind_ok {α β : Type} (a : α) (f : α → Res β) : Res.bind (.ok a) f = f a := rfl
@[simp] theorem Res.map_ok {α β : Type} (a : α) (f : α → β) : Res.map f (.ok a) = .ok (f a) := rfl

/-! ## varint readers -/

theorem uvarintGoAux_of_uvarintAux : ∀ (b : Bytes) (x s i v k : Nat),
    uvarintAux b x s i = some (v, k) → uvarintGoAux b x s i = (v, (k : Int)) := by
  intro b
  induction b with
  | nil => intro x s i v k h; simp [uvarintAux] at h
  | cons a r ih =>
    intro x s i v k h
    unfold uvarintAux at h
    unfold uvarintGoAux
    split at h
    · simp at h
    · rename_i h10
      simp only [h10, if_false]
      split at h
      · rename_i hlt
        simp only [hlt, if_true]
        split at h
        · simp at h
        · rename_i h9
          simp only [h9, if_false]
          simp only [Option.some.injEq, Prod.mk.injEq] at h
          rw [← h.1, ← h.2]; simp
      · rename_i hlt
        simp only [hlt, if_false]
        exact ih _ _ _ _ _ h

theorem uvarintGo_of_uvarint (b : Bytes) (v k : Nat) (h : uvarint b = some (v, k)) :
    uvarintGo b = (v, (k : Int)) :=
  uvarintGoAux_of_uvarintAux b 0 0 0 v k h

theorem ioReadUvarintAux_of_uvarintAux : ∀ (b : Bytes) (x s i v k : Nat),
    uvarintAux b x s i = some (v, k) → i ≤ k ∧ ioReadUvarintAux b x s i = .ok v (b.drop (k - i)) := by
  intro b
  induction b with
  | nil => intro x s i v k h; simp [uvarintAux] at h
  | cons a r ih =>
    intro x s i v k h
    unfold uvarintAux at h
    unfold ioReadUvarintAux
    split at h
    · simp at h
    · rename_i h10
      simp only [h10, if_false]
      split at h
      · rename_i hlt
        simp only [hlt, if_true]
        split at h
        · simp at h
        · rename_i h9
          simp only [h9, if_false]
          simp only [Option.some.injEq, Prod.mk.injEq] at h
          rw [← h.1, ← h.2]
          refine ⟨by omega, ?_⟩
          have : i + 1 - i = 1 := by omega
          simp [this]
      · rename_i hlt
        simp only [hlt, if_false]
        have := ih _ _ _ _ _ h
        refine ⟨by omega, ?_⟩
        rw [this.2]
        have e : k - i = (k - (i + 1)) + 1 := by omega
        rw [e, List.drop_succ_cons]

/-- `binary.Uvarint` through a window holding the whole varint: value, byte count -/
theorem uvarintGo_put_window (x : Nat) (rest : Bytes) (w : Nat) (h : x < 2 ^ 64)
    (hw : (putUvarint x).length ≤ w) :
    uvarintGo ((putUvarint x ++ rest).take w) = (x, ((putUvarint x).length : Int)) :=
  uvarintGo_of_uvarint _ _ _ (uvarint_put_window x rest w h hw)

/-- `binary.ReadUvarint` on a reader positioned at a written varint: value, and the reader
    stands right behind it -/
theorem ioReadUvarint_put (x : Nat) (rest : Bytes) (h : x < 2 ^ 64) :
    ioReadUvarint (putUvarint x ++ rest) = .ok x rest := by
  have := (ioReadUvarintAux_of_uvarintAux _ 0 0 0 _ _ (uvarint_put x rest h)).2
  simpa [ioReadUvarint] using this

theorem ioReadUvarint_nil : ioReadUvarint [] = .eof := by
  simp [ioReadUvarint, ioReadUvarintAux]

theorem u64_natCast (k : Nat) (h : k < 2 ^ 64) : u64 (k : Int) = k := by
  unfold u64 two64
  omega

/-! ## big-endian words -/

theorem be_length (k x : Nat) : (be k x).length = k := by
  induction k with
  | zero => simp [be]
  | succ k ih => simp [be, ih]

theorem unbe_foldl (b : Bytes) : ∀ acc : Nat,
    b.foldl (fun acc b => acc * 256 + b) acc = acc * 256 ^ b.length + unbe b := by
  unfold unbe
  induction b with
  | nil => intro acc; simp
  | cons x b ih =>
    intro acc
    simp only [List.foldl_cons, List.length_cons]
    rw [ih (acc * 256 + x), ih (0 * 256 + x), Nat.pow_succ]
    simp only [Nat.add_mul, Nat.mul_assoc, Nat.add_assoc, Nat.zero_mul, Nat.zero_add,
      Nat.mul_comm 256]

theorem unbe_append (a b : Bytes) : unbe (a ++ b) = unbe a * 256 ^ b.length + unbe b := by
  show (a ++ b).foldl _ 0 = _
  rw [List.foldl_append, unbe_foldl]
  rfl

theorem unbe_be (k x : Nat) : unbe (be k x) = x % 256 ^ k := by
  induction k with
  | zero => simp [be, unbe, Nat.mod_one]
  | succ k ih =>
    rw [be, show (x / 256 ^ k % 256 :: be k x) = [x / 256 ^ k % 256] ++ be k x from rfl,
      unbe_append, ih, be_length]
    simp only [unbe, List.foldl_cons, List.foldl_nil, Nat.zero_mul, Nat.zero_add]
    rw [Nat.pow_succ, Nat.mod_mul, Nat.mul_comm, Nat.add_comm]

theorem unbe_be8 (x : Nat) (h : x < 2 ^ 64) : unbe (be 8 x) = x := by
  rw [unbe_be]; exact Nat.mod_eq_of_lt (by simpa using h)

theorem unbe_be4 (x : Nat) (h : x < 2 ^ 32) : unbe (be 4 x) = x := by
  rw [unbe_be]; exact Nat.mod_eq_of_lt (by simpa using h)


/-! ## the encoder of one document -/

/-- meta triples of a list of `(fieldID, value)` pairs, the first value lying at `curr` -/
def metaOf : List (Nat × Bytes) → Nat → Bytes
  | [], _ => []
  | (f, v) :: r, curr =>
    putUvarint f ++ putUvarint curr ++ putUvarint v.length ++ metaOf r (curr + v.length)

/-- the concatenated values -/
def dataOf : List (Nat × Bytes) → Bytes
  | [] => []
  | (_, v) :: r => v ++ dataOf r

theorem dataOf_append (a b : List (Nat × Bytes)) : dataOf (a ++ b) = dataOf a ++ dataOf b := by
  induction a with
  | nil => rfl
  | cons p a ih => obtain ⟨f, v⟩ := p; simp [dataOf, ih]

theorem metaOf_append (a b : List (Nat × Bytes)) : ∀ c,
    metaOf (a ++ b) c = metaOf a c ++ metaOf b (c + (dataOf a).length) := by
  induction a with
  | nil => intro c; simp [metaOf, dataOf]
  | cons p a ih =>
    intro c; obtain ⟨f, v⟩ := p
    simp [metaOf, dataOf, ih, Nat.add_assoc]

theorem metaOf_length_ge (l : List (Nat × Bytes)) : ∀ c, l.length ≤ (metaOf l c).length := by
  induction l with
  | nil => intro c; simp
  | cons p l ih =>
    intro c; obtain ⟨f, v⟩ := p
    have h1 := List.length_pos_iff.mpr (putUvarint_ne_nil f)
    have := ih (c + v.length)
    simp only [metaOf, List.length_append, List.length_cons]
    omega

theorem encodeStoredFieldValues_eq (f : Nat) : ∀ (vs : List Bytes) (e : Enc),
    encodeStoredFieldValues f vs e =
      { curr := e.curr + (dataOf (vs.map fun v => (f, v))).length,
        mta := e.mta ++ metaOf (vs.map fun v => (f, v)) e.curr,
        data := e.data ++ dataOf (vs.map fun v => (f, v)) } := by
  intro vs
  induction vs with
  | nil => intro e; simp [encodeStoredFieldValues, metaOf, dataOf]
  | cons v vs ih =>
    intro e
    simp [encodeStoredFieldValues, ih, metaOf, dataOf, Nat.add_assoc]

theorem encodeDoc_eq : ∀ (d : Doc) (e : Enc),
    encodeDoc d e =
      { curr := e.curr + (dataOf (flat d)).length,
        mta := e.mta ++ metaOf (flat d) e.curr,
        data := e.data ++ dataOf (flat d) } := by
  intro d
  induction d with
  | nil => intro e; simp [encodeDoc, flat, metaOf, dataOf]
  | cons fv d ih =>
    intro e; obtain ⟨f, vs⟩ := fv
    have hf : flat ((f, vs) :: d) = (vs.map fun v => (f, v)) ++ flat d := by simp [flat]
    simp [encodeDoc, ih, encodeStoredFieldValues_eq, hf, metaOf_append, dataOf_append,
      Nat.add_assoc]

/-- the record of a document in closed form -/
theorem record_eq (d : Doc) :
    record d = putUvarint (metaOf (flat d) 0).length ++ (putUvarint (dataOf (flat d)).length ++
      (metaOf (flat d) 0 ++ dataOf (flat d))) := by
  simp [record, encodeDoc_eq]

theorem record_ne_nil (d : Doc) : record d ≠ [] := by
  rw [record_eq]
  intro h
  exact putUvarint_ne_nil _ (List.append_eq_nil_iff.mp h).1

theorem record_length_pos (d : Doc) : 0 < (record d).length :=
  List.length_pos_iff.mpr (record_ne_nil d)

/-! ## the visitor loop on the meta bytes of a record -/

theorem takeStop_nil {α : Type} (s : Option Nat) : takeStop s ([] : List α) = [] := by
  cases s <;> simp [takeStop]

/-- The loop of `visitDocument` run on the meta triples of `l` delivers `l` (up to the visitor's
    stop), provided the data slice holds the values from `curr` on. -/
theorem visitLoop_metaOf (nf : Nat) (unc : Buf) : ∀ (l : List (Nat × Bytes)) (curr fuel : Nat)
    (stop : Option Nat),
    l.length < fuel →
    (∀ p ∈ l, p.1 < nf ∧ p.1 < 2 ^ 64) →
    curr + (dataOf l).length < 2 ^ 64 →
    curr + (dataOf l).length ≤ unc.mem.length →
    (unc.mem.drop curr).take (dataOf l).length = dataOf l →
    visitLoop nf unc fuel (metaOf l curr) stop = .ok (takeStop stop l) := by
  intro l
  induction l with
  | nil =>
    intro curr fuel stop hf _ _ _ _
    cases fuel with
    | zero => simp at hf
    | succ k => simp [visitLoop, metaOf, ioReadUvarint_nil, takeStop_nil]
  | cons p l ih =>
    intro curr fuel stop hf hp hb hc hd
    obtain ⟨f, v⟩ := p
    cases fuel with
    | zero => simp at hf
    | succ k =>
      have hpf := hp (f, v) (by simp)
      simp only [dataOf, List.length_append] at hb hc hd
      have hv : (unc.mem.drop curr).take v.length = v := by
        have := congrArg (List.take v.length) hd
        rw [List.take_take, Nat.min_eq_left (by omega), List.take_left'] at this
        · exact this
        · rfl
      have hr : (unc.mem.drop (curr + v.length)).take (dataOf l).length = dataOf l := by
        have := congrArg (List.drop v.length) hd
        rw [List.drop_take, List.drop_drop, List.drop_left'] at this
        · simpa [Nat.add_comm] using this
        · rfl
      have hslice : unc.slice curr (add64 curr v.length) = .ok ⟨unc.mem.drop curr, v.length⟩ := by
        have : add64 curr v.length = curr + v.length := by
          unfold add64 two64; omega
        rw [this]
        unfold Buf.slice
        rw [if_pos ⟨by omega, by omega⟩]
        congr 2; omega
      have ihh := fun stop' => ih (curr + v.length) k stop' (by simpa using hf)
        (fun p hp' => hp p (by simp [hp'])) (by omega) (by omega) hr
      have e1 := fun r => ioReadUvarint_put f r hpf.2
      have e2 := fun r => ioReadUvarint_put curr r (by omega)
      have e3 := fun r => ioReadUvarint_put v.length r (by omega)
      simp only [visitLoop, metaOf, List.append_assoc, e1, e2, e3, hslice, Res.bind_ok, hpf.1,
        if_true, Buf.data, hv]
      cases stop with
      | none => simp [ihh, takeStop]
      | some j =>
        cases j with
        | zero => simp [takeStop]
        | succ j => simp [ihh, takeStop]


/-! ## the chunked document coder -/

/-- offsets of the records inside a block buffer that already holds `start` bytes -/
def prefLens (start : Nat) : List Bytes → List Nat
  | [] => []
  | r :: rs => start :: prefLens (start + r.length) rs

theorem prefLens_length (rs : List Bytes) : ∀ s, (prefLens s rs).length = rs.length := by
  induction rs with
  | nil => intro s; rfl
  | cons r rs ih => intro s; simp [prefLens, ih]

theorem prefLens_getElem? (rs : List Bytes) : ∀ (s n : Nat), n < rs.length →
    (prefLens s rs)[n]? = some (s + (rs.take n).flatten.length) := by
  induction rs with
  | nil => intro s n h; simp at h
  | cons r rs ih =>
    intro s n h
    cases n with
    | zero => simp [prefLens]
    | succ n =>
      simp only [prefLens, List.getElem?_cons_succ, List.take_succ_cons, List.flatten_cons,
        List.length_append]
      rw [ih (s + r.length) n (by simpa using h)]
      simp [Nat.add_assoc]

theorem add_eq (cd : Codec) (c : Coder) (d : Doc) :
    c.add cd (encodeDoc d {}).mta (encodeDoc d {}).data =
      if (c.n + 1) % c.chunkSize != 0 then { c with buf := c.buf ++ record d, n := c.n + 1 }
      else Coder.flush cd { c with buf := c.buf ++ record d, n := c.n + 1 } := by
  simp [Coder.add, record, List.append_assoc]

theorem writeDocs_append (cd : Codec) (a b : List Doc) : ∀ (c : Coder) (dso : List Nat),
    writeDocs cd (a ++ b) c dso =
      writeDocs cd b (writeDocs cd a c dso).1 (writeDocs cd a c dso).2 := by
  induction a with
  | nil => intro c dso; rfl
  | cons d a ih => intro c dso; simp [writeDocs, ih]

/-- documents that do not complete the block are only buffered -/
theorem writeDocs_inBlock (cd : Codec) : ∀ (docs : List Doc) (c : Coder) (dso : List Nat) (q r : Nat),
    c.n = q * c.chunkSize + r → r + docs.length < c.chunkSize →
    writeDocs cd docs c dso =
      ({ c with buf := c.buf ++ (docs.map record).flatten, n := c.n + docs.length },
       dso ++ prefLens c.buf.length (docs.map record)) := by
  intro docs
  induction docs with
  | nil => intro c dso q r _ _; simp [writeDocs, prefLens]
  | cons d docs ih =>
    intro c dso q r hn hr
    simp only [List.length_cons] at hr
    have hmod : (c.n + 1) % c.chunkSize = r + 1 := by
      rw [hn, Nat.add_assoc, Nat.add_comm, Nat.add_mul_mod_self_right]
      exact Nat.mod_eq_of_lt (by omega)
    simp only [writeDocs, add_eq, hmod]
    rw [if_pos (by simp)]
    rw [ih _ _ q (r + 1) (by simp [hn]; omega) (by simp; omega)]
    simp [prefLens, Nat.add_assoc, Nat.add_comm 1]

/-- documents that exactly complete the block are buffered and flushed -/
theorem writeDocs_closeBlock (cd : Codec) : ∀ (docs : List Doc) (c : Coder) (dso : List Nat) (q r : Nat),
    c.n = q * c.chunkSize + r → r + docs.length = c.chunkSize → docs ≠ [] →
    writeDocs cd docs c dso =
      (Coder.flush cd { c with buf := c.buf ++ (docs.map record).flatten, n := c.n + docs.length },
       dso ++ prefLens c.buf.length (docs.map record)) := by
  intro docs
  induction docs with
  | nil => intro c dso q r _ _ h; exact absurd rfl h
  | cons d docs ih =>
    intro c dso q r hn hr _
    simp only [List.length_cons] at hr
    by_cases hd : docs = []
    · subst hd
      have hmod : (c.n + 1) % c.chunkSize = 0 := by
        rw [hn, Nat.add_assoc, Nat.add_comm, Nat.add_mul_mod_self_right]
        simp at hr
        rw [hr]; exact Nat.mod_self _
      simp [writeDocs, add_eq, hmod, prefLens]
    · have hpos : 0 < docs.length := List.length_pos_iff.mpr hd
      have hmod : (c.n + 1) % c.chunkSize = r + 1 := by
        rw [hn, Nat.add_assoc, Nat.add_comm, Nat.add_mul_mod_self_right]
        exact Nat.mod_eq_of_lt (by omega)
      simp only [writeDocs, add_eq, hmod]
      rw [if_pos (by simp)]
      rw [ih _ _ q (r + 1) (by simp [hn]; omega) (by simp; omega) hd]
      simp [prefLens, Nat.add_assoc, Nat.add_comm 1]


/-! ## where a document lies in the written bytes -/

/-- Document number `k`, whose record is `rec`, can be found in the coder's output `w` through
    the chunk offsets `offs` and the per-document offsets `dso`: entries `k / bs` and `k / bs + 1`
    of `offs` delimit the compressed block `blk`, and `rec` starts at `dso[k]` inside `blk`. -/
def Located (cd : Codec) (bs : Nat) (w : Bytes) (offs dso : List Nat) (k : Nat) (rec : Bytes)
    (L : Nat) : Prop :=
  ∃ (a : Nat) (blk pre post : Bytes),
    offs[k / bs]? = some a ∧ offs[k / bs + 1]? = some (a + (cd.Z blk).length) ∧
    a + (cd.Z blk).length ≤ w.length ∧ (w.drop a).take (cd.Z blk).length = cd.Z blk ∧
    blk = pre ++ rec ++ post ∧ dso[k]? = some pre.length ∧ blk.length ≤ L

theorem getElem?_append_of_some {α : Type} {l : List α} {i : Nat} {a : α} (m : List α)
    (h : l[i]? = some a) : (l ++ m)[i]? = some a := by
  have hi : i < l.length := by
    rcases List.getElem?_eq_some_iff.mp h with ⟨hi, _⟩; exact hi
  rw [List.getElem?_append_left hi]; exact h

theorem Located.mono {cd : Codec} {bs : Nat} {w offs dso : List Nat} {k : Nat} {rec : Bytes}
    {L L' : Nat} (x y z : List Nat) (h : Located cd bs w offs dso k rec L) (hL : L ≤ L') :
    Located cd bs (w ++ x) (offs ++ y) (dso ++ z) k rec L' := by
  obtain ⟨a, blk, pre, post, h1, h2, h3, h4, h5, h6, h7⟩ := h
  refine ⟨a, blk, pre, post, getElem?_append_of_some y h1, getElem?_append_of_some y h2, ?_, ?_,
    h5, getElem?_append_of_some z h6, by omega⟩
  · simp; omega
  · rw [List.drop_append_of_le_length (by omega), List.take_append_of_le_length (by simp; omega)]
    exact h4

/-- the coder stands at a block boundary after `q` complete blocks -/
structure Bdry (bs : Nat) (c : Coder) (dso : List Nat) (q : Nat) : Prop where
  cs : c.chunkSize = bs
  n : c.n = q * bs
  buf : c.buf = []
  bytes : c.bytes = c.w.length
  offsLen : c.offsets.length = q + 1
  offsLast : c.offsets[q]? = some c.bytes
  dsoLen : dso.length = q * bs

theorem Bdry.init (bs : Nat) : Bdry bs { chunkSize := bs } [] 0 := by
  constructor <;> simp

theorem flush_nonempty (cd : Codec) (c : Coder) (h : c.buf ≠ []) :
    Coder.flush cd c =
      { c with w := c.w ++ cd.Z c.buf, bytes := c.bytes + (cd.Z c.buf).length, buf := [],
               offsets := c.offsets ++ [c.bytes + (cd.Z c.buf).length] } := by
  have : 0 < c.buf.length := List.length_pos_iff.mpr h
  simp [Coder.flush, this]

theorem flush_empty (cd : Codec) (c : Coder) (h : c.buf = []) :
    Coder.flush cd c = { c with offsets := c.offsets ++ [c.bytes] } := by
  simp [Coder.flush, h]

theorem flatten_map_record_ne_nil (docs : List Doc) (h : docs ≠ []) :
    (docs.map record).flatten ≠ [] := by
  cases docs with
  | nil => exact absurd rfl h
  | cons d r =>
    simp only [List.map_cons, List.flatten_cons]
    intro h'
    exact record_ne_nil d (List.append_eq_nil_iff.mp h').1

theorem flatten_split (rs : List Bytes) (n : Nat) (h : n < rs.length) :
    rs.flatten = (rs.take n).flatten ++ rs[n] ++ (rs.drop (n + 1)).flatten := by
  have e : rs = rs.take n ++ rs[n] :: rs.drop (n + 1) := by
    rw [← List.drop_eq_getElem_cons h, List.take_append_drop]
  have := congrArg List.flatten e
  rw [List.flatten_append, List.flatten_cons] at this
  rw [List.append_assoc]; exact this

theorem div_block (bs q n : Nat) (h : n < bs) : (q * bs + n) / bs = q := by
  rw [Nat.add_comm, Nat.add_mul_div_right _ _ (by omega), Nat.div_eq_of_lt h, Nat.zero_add]

/-- flushing the block made of the records of `docs`, starting from a block boundary -/
theorem flush_block (cd : Codec) (bs : Nat) (c : Coder) (dso : List Nat) (q : Nat)
    (docs : List Doc) (hB : Bdry bs c dso q) (hne : docs ≠ []) (hle : docs.length ≤ bs) :
    let c1 := Coder.flush cd { c with buf := c.buf ++ (docs.map record).flatten, n := c.n + docs.length }
    let dso1 := dso ++ prefLens c.buf.length (docs.map record)
    (∀ n (hn : n < docs.length), Located cd bs c1.w c1.offsets dso1 (q * bs + n) (record docs[n])
        (docs.map record).flatten.length) ∧
    (docs.length = bs → Bdry bs c1 dso1 (q + 1)) := by
  intro c1 dso1
  have hblk := flatten_map_record_ne_nil docs hne
  have hc1 : c1 =
      { c with
        w := c.w ++ cd.Z (docs.map record).flatten,
        bytes := c.bytes + (cd.Z (docs.map record).flatten).length, buf := [],
        n := c.n + docs.length,
        offsets := c.offsets ++ [c.bytes + (cd.Z (docs.map record).flatten).length] } := by
    show Coder.flush cd _ = _
    rw [flush_nonempty _ _ (by simpa [hB.buf] using hblk)]
    simp [hB.buf]
  have hd1 : dso1 = dso ++ prefLens 0 (docs.map record) := by
    show dso ++ _ = _; rw [hB.buf]; rfl
  constructor
  · intro n hn
    have hnbs : n < bs := by omega
    refine ⟨c.bytes, (docs.map record).flatten, ((docs.map record).take n).flatten,
      ((docs.map record).drop (n + 1)).flatten, ?_, ?_, ?_, ?_, ?_, ?_, Nat.le_refl _⟩
    · rw [div_block bs q n hnbs, hc1]
      exact getElem?_append_of_some _ hB.offsLast
    · rw [div_block bs q n hnbs, hc1]
      show (c.offsets ++ _)[q + 1]? = _
      rw [List.getElem?_append_right (by rw [hB.offsLen]; omega), hB.offsLen]
      simp
    · rw [hc1]; simp [hB.bytes]
    · rw [hc1]; simp [hB.bytes]
    · have := flatten_split (docs.map record) n (by simpa using hn)
      simpa using this
    · rw [hd1, List.getElem?_append_right (by rw [hB.dsoLen]; omega), hB.dsoLen]
      have : q * bs + n - q * bs = n := by omega
      rw [this, prefLens_getElem? _ _ _ (by simpa using hn)]
      simp
  · intro hlen
    rw [hc1, hd1]
    constructor
    · exact hB.cs
    · simp [hB.n, hlen, Nat.add_mul]
    · rfl
    · simp [hB.bytes]
    · simp [hB.offsLen]
    · show (c.offsets ++ _)[q + 1]? = _
      rw [List.getElem?_append_right (by rw [hB.offsLen]; omega), hB.offsLen]
      simp
    · simp [prefLens_length, hB.dsoLen, hlen, Nat.add_mul]


theorem Located.mono' {cd : Codec} {bs : Nat} {w w' offs offs' dso dso' : List Nat} {k : Nat}
    {rec : Bytes} {L L' : Nat} (h : Located cd bs w offs dso k rec L)
    (hw : ∃ x, w' = w ++ x) (ho : ∃ y, offs' = offs ++ y) (hd : ∃ z, dso' = dso ++ z)
    (hL : L ≤ L') : Located cd bs w' offs' dso' k rec L' := by
  obtain ⟨x, rfl⟩ := hw
  obtain ⟨y, rfl⟩ := ho
  obtain ⟨z, rfl⟩ := hd
  exact h.mono x y z hL

/-! the coder only ever appends -/

theorem flush_ext (cd : Codec) (c : Coder) :
    (∃ x, (Coder.flush cd c).w = c.w ++ x) ∧ (∃ y, (Coder.flush cd c).offsets = c.offsets ++ y) := by
  by_cases h : c.buf = []
  · rw [flush_empty cd c h]; exact ⟨⟨[], by simp⟩, ⟨_, rfl⟩⟩
  · rw [flush_nonempty cd c h]; exact ⟨⟨_, rfl⟩, ⟨_, rfl⟩⟩

theorem add_ext (cd : Codec) (c : Coder) (m d : Bytes) :
    (∃ x, (c.add cd m d).w = c.w ++ x) ∧ (∃ y, (c.add cd m d).offsets = c.offsets ++ y) := by
  unfold Coder.add
  simp only
  split
  · exact ⟨⟨[], by simp⟩, ⟨[], by simp⟩⟩
  · exact flush_ext cd _

theorem writeDocs_ext (cd : Codec) : ∀ (docs : List Doc) (c : Coder) (dso : List Nat),
    (∃ x, (writeDocs cd docs c dso).1.w = c.w ++ x) ∧
    (∃ y, (writeDocs cd docs c dso).1.offsets = c.offsets ++ y) ∧
    (∃ z, (writeDocs cd docs c dso).2 = dso ++ z) := by
  intro docs
  induction docs with
  | nil => intro c dso; exact ⟨⟨[], by simp [writeDocs]⟩, ⟨[], by simp [writeDocs]⟩, ⟨[], by simp [writeDocs]⟩⟩
  | cons d docs ih =>
    intro c dso
    simp only [writeDocs]
    obtain ⟨⟨x, hx⟩, ⟨y, hy⟩, ⟨z, hz⟩⟩ := ih (c.add cd (encodeDoc d {}).mta (encodeDoc d {}).data)
      (dso ++ [c.buf.length])
    obtain ⟨⟨x0, hx0⟩, ⟨y0, hy0⟩⟩ := add_ext cd c (encodeDoc d {}).mta (encodeDoc d {}).data
    refine ⟨⟨x0 ++ x, ?_⟩, ⟨y0 ++ y, ?_⟩, ⟨[c.buf.length] ++ z, ?_⟩⟩
    · rw [hx, hx0, List.append_assoc]
    · rw [hy, hy0, List.append_assoc]
    · rw [hz, List.append_assoc]

theorem write_w (cd : Codec) (c : Coder) :
    (c.write cd).w = (Coder.flush cd c).w ++
      ((Coder.flush cd c).offsets.flatMap putUvarint ++
        (be 4 ((Coder.flush cd c).offsets.flatMap putUvarint).length ++
          be 4 (Coder.flush cd c).offsets.length)) := by
  simp [Coder.write, List.append_assoc]

theorem write_offsets (cd : Codec) (c : Coder) :
    (c.write cd).offsets = (Coder.flush cd c).offsets := rfl

theorem length_flatten_take_le (l : List Bytes) (n : Nat) :
    (l.take n).flatten.length ≤ l.flatten.length := by
  conv => rhs; rw [← List.take_append_drop n l, List.flatten_append, List.length_append]
  omega

theorem length_flatten_drop_le (l : List Bytes) (n : Nat) :
    (l.drop n).flatten.length ≤ l.flatten.length := by
  conv => rhs; rw [← List.take_append_drop n l, List.flatten_append, List.length_append]
  omega

/-- what has been located stays located while the coder goes on and finishes -/
theorem located_after (cd : Codec) (bs : Nat) (rest : List Doc) (C1 : Coder) (D1 : List Nat)
    {k : Nat} {rec : Bytes} {L L' : Nat} (h : Located cd bs C1.w C1.offsets D1 k rec L)
    (hL : L ≤ L') :
    Located cd bs ((writeDocs cd rest C1 D1).1.write cd).w
      ((writeDocs cd rest C1 D1).1.write cd).offsets (writeDocs cd rest C1 D1).2 k rec L' := by
  obtain ⟨⟨x, hx⟩, ⟨y, hy⟩, hz⟩ := writeDocs_ext cd rest C1 D1
  obtain ⟨⟨x2, hx2⟩, ⟨y2, hy2⟩⟩ := flush_ext cd (writeDocs cd rest C1 D1).1
  have hw := write_w cd (writeDocs cd rest C1 D1).1
  have ho := write_offsets cd (writeDocs cd rest C1 D1).1
  rw [hx2, hx] at hw
  rw [hy2, hy] at ho
  generalize (List.flatMap putUvarint (Coder.flush cd (writeDocs cd rest C1 D1).fst).offsets ++ _) = t
    at hw
  refine h.mono' ⟨x ++ (x2 ++ t), ?_⟩ ⟨y ++ y2, ?_⟩ hz hL
  · rw [hw]; simp only [List.append_assoc]
  · rw [ho, List.append_assoc]

/-- Every document can be located in what the coder wrote (started at a block boundary). -/
theorem writeDocs_located (cd : Codec) (bs : Nat) (hbs : 0 < bs) : ∀ (m : Nat) (docs : List Doc),
    docs.length ≤ m → ∀ (c : Coder) (dso : List Nat) (q : Nat), Bdry bs c dso q →
    ∀ (n : Nat) (d : Doc), docs[n]? = some d →
      Located cd bs ((writeDocs cd docs c dso).1.write cd).w
        ((writeDocs cd docs c dso).1.write cd).offsets (writeDocs cd docs c dso).2
        (q * bs + n) (record d) (docs.map record).flatten.length := by
  intro m
  induction m with
  | zero =>
    intro docs hm c dso q _ n d hd
    have : docs = [] := List.length_eq_zero_iff.mp (by omega)
    subst this; simp at hd
  | succ m ih =>
    intro docs hm c dso q hB n d hd
    obtain ⟨hn, hdn⟩ := List.getElem?_eq_some_iff.mp hd
    have hne : docs ≠ [] := by intro h; subst h; simp at hn
    by_cases hlt : docs.length < bs
    · -- the last, partial block: flushed by `Write`
      have hw := writeDocs_inBlock cd docs c dso q 0 (by simp [hB.n, hB.cs]) (by simp [hB.cs]; omega)
      obtain ⟨hloc, _⟩ := flush_block cd bs c dso q docs hB hne (by omega)
      have h1 := hloc n hn
      rw [hdn] at h1
      rw [hw, write_offsets, write_w]
      exact h1.mono' ⟨_, rfl⟩ ⟨[], by simp⟩ ⟨[], by simp⟩ (Nat.le_refl _)
    · -- a complete block, then the rest
      have hlen : (docs.take bs).length = bs := by simp; omega
      have hsplit : docs = docs.take bs ++ docs.drop bs := (List.take_append_drop bs docs).symm
      have htne : docs.take bs ≠ [] := by
        intro h; rw [h] at hlen; simp at hlen; omega
      have hw1 := writeDocs_closeBlock cd (docs.take bs) c dso q 0 (by simp [hB.n, hB.cs])
        (by rw [hlen, hB.cs]; omega) htne
      obtain ⟨hloc, hB1⟩ := flush_block cd bs c dso q (docs.take bs) hB htne (by omega)
      have hB1 := hB1 hlen
      have hw : writeDocs cd docs c dso =
          writeDocs cd (docs.drop bs) (writeDocs cd (docs.take bs) c dso).1
            (writeDocs cd (docs.take bs) c dso).2 := by
        conv => lhs; rw [hsplit]
        exact writeDocs_append cd _ _ c dso
      rw [hw, hw1]
      by_cases hnb : n < bs
      · have h1 := hloc n (by rw [hlen]; exact hnb)
        have e : (docs.take bs)[n]'(by rw [hlen]; exact hnb) = d := by
          rw [List.getElem_take]; exact hdn
        rw [e] at h1
        refine located_after cd bs _ _ _ h1 ?_
        rw [List.map_take]; exact length_flatten_take_le _ _
      · have hd' : (docs.drop bs)[n - bs]? = some d := by
          rw [List.getElem?_drop]; rw [show bs + (n - bs) = n by omega]; exact hd
        have := ih (docs.drop bs) (by simp; omega) _ _ (q + 1) hB1 (n - bs) d hd'
        have e : (q + 1) * bs + (n - bs) = q * bs + n := by
          rw [Nat.add_mul]; omega
        rw [e] at this
        obtain ⟨a, blk, pre, post, h1, h2, h3, h4, h5, h6, h7⟩ := this
        refine ⟨a, blk, pre, post, h1, h2, h3, h4, h5, h6, ?_⟩
        rw [List.map_drop] at h7
        exact Nat.le_trans h7 (length_flatten_drop_le _ _)


/-! ## reading one record back (record round trip) -/

theorem slice_ok (b : Buf) (i e : Nat) (h1 : i ≤ e) (h2 : e ≤ b.mem.length) :
    b.slice i e = .ok ⟨b.mem.drop i, e - i⟩ := by
  unfold Buf.slice; rw [if_pos ⟨h2, h1⟩]

theorem window_data (b : Buf) (pre : Bytes) (x : Nat) (rest : Bytes) (e : Nat) (hx : x < 2 ^ 64)
    (hm : b.mem = pre ++ (putUvarint x ++ rest)) (he : pre.length + (putUvarint x).length ≤ e) :
    uvarintGo (Buf.data ⟨b.mem.drop pre.length, e - pre.length⟩) =
      (x, ((putUvarint x).length : Int)) := by
  simp only [Buf.data, hm, List.drop_left']
  exact uvarintGo_put_window x rest _ hx (by omega)

theorem readRecordLens_record (B : Buf) (pre : Bytes) (d : Doc) (rest : Bytes)
    (hm : B.mem = pre ++ (record d ++ rest))
    (hl1 : pre.length + (record d).length ≤ B.len) (hl2 : B.len ≤ B.mem.length)
    (hb : B.len < 2 ^ 63) :
    readRecordLens true B pre.length =
      .ok { storedOffset := pre.length,
            n := (putUvarint (metaOf (flat d) 0).length).length +
                 (putUvarint (dataOf (flat d)).length).length,
            metaLen := (metaOf (flat d) 0).length, dataLen := (dataOf (flat d)).length, buf := B } := by
  rw [record_eq] at hm hl1
  generalize hM : metaOf (flat d) 0 = M at *
  generalize hD : dataOf (flat d) = D at *
  have hlen : B.mem.length = pre.length + ((putUvarint M.length).length +
      ((putUvarint D.length).length + (M.length + D.length)) + rest.length) := by
    rw [hm]; simp; omega
  have hm' : B.mem = pre ++ (putUvarint M.length ++ (putUvarint D.length ++ (M ++ (D ++ rest)))) := by
    rw [hm]; simp only [List.append_assoc]
  have hm'' : B.mem = (pre ++ putUvarint M.length) ++ (putUvarint D.length ++ (M ++ (D ++ rest))) := by
    rw [hm']; simp only [List.append_assoc]
  simp only [List.length_append] at hl1
  have hM64 : M.length < 2 ^ 64 := by omega
  have hD64 : D.length < 2 ^ 64 := by omega
  have hMl := putUvarint_length_le_ten _ hM64
  have hDl := putUvarint_length_le_ten _ hD64
  have hMp := List.length_pos_iff.mpr (putUvarint_ne_nil M.length)
  have hDp := List.length_pos_iff.mpr (putUvarint_ne_nil D.length)
  have a1 : add64 pre.length 10 = pre.length + 10 := by unfold add64 two64; omega
  unfold readRecordLens
  simp only [Bool.true_and, decide_eq_true_eq, a1]
  rw [slice_ok B _ _ (by split <;> omega) (by split <;> omega)]
  simp only [Res.bind_ok]
  rw [window_data B pre M.length _ _ hM64 hm'
    (by split <;> omega)]
  simp only [u64_natCast _ (show (putUvarint M.length).length < 2 ^ 64 by omega)]
  have a2 : add64 pre.length (putUvarint M.length).length = (pre ++ putUvarint M.length).length := by
    unfold add64 two64; simp; omega
  have a3 : add64 (pre ++ putUvarint M.length).length 10 = (pre ++ putUvarint M.length).length + 10 := by
    unfold add64 two64; simp; omega
  simp only [a2, a3]
  rw [slice_ok B _ _ (by simp; split <;> omega) (by simp; split <;> omega)]
  simp only [Res.bind_ok]
  rw [window_data B (pre ++ putUvarint M.length) D.length _ _ hD64 hm''
    (by simp; split <;> omega)]
  simp only [u64_natCast _ (show (putUvarint D.length).length < 2 ^ 64 by omega)]
  have a4 : add64 (putUvarint M.length).length (putUvarint D.length).length =
      (putUvarint M.length).length + (putUvarint D.length).length := by
    unfold add64 two64; omega
  rw [a4]

theorem visitRecord_record (nf : Nat) (B : Buf) (pre : Bytes) (d : Doc) (rest : Bytes)
    (stop : Option Nat)
    (hm : B.mem = pre ++ (record d ++ rest))
    (hl1 : pre.length + (record d).length ≤ B.len)
    (hb : B.len < 2 ^ 63)
    (hf : ∀ p ∈ flat d, p.1 < nf ∧ p.1 < 2 ^ 64) :
    visitRecord nf
      { storedOffset := pre.length,
        n := (putUvarint (metaOf (flat d) 0).length).length +
             (putUvarint (dataOf (flat d)).length).length,
        metaLen := (metaOf (flat d) 0).length, dataLen := (dataOf (flat d)).length, buf := B } stop =
      .ok (takeStop stop (flat d), B) := by
  rw [record_eq] at hm hl1
  simp only [List.length_append] at hl1
  have hloop := visitLoop_metaOf nf
  have hge := metaOf_length_ge (flat d) 0
  generalize hM : metaOf (flat d) 0 = M at *
  generalize hD : dataOf (flat d) = D at *
  have hlen : B.mem.length = pre.length + ((putUvarint M.length).length +
      ((putUvarint D.length).length + (M.length + D.length)) + rest.length) := by
    rw [hm]; simp; omega
  have hm' : B.mem = (pre ++ (putUvarint M.length ++ putUvarint D.length)) ++ (M ++ (D ++ rest)) := by
    rw [hm]; simp only [List.append_assoc]
  have hm'' : B.mem = (pre ++ (putUvarint M.length ++ (putUvarint D.length ++ M))) ++ (D ++ rest) := by
    rw [hm]; simp only [List.append_assoc]
  have a1 : add64 pre.length ((putUvarint M.length).length + (putUvarint D.length).length) =
      (pre ++ (putUvarint M.length ++ putUvarint D.length)).length := by
    unfold add64 two64; simp; omega
  have a2 : add64 (pre ++ (putUvarint M.length ++ putUvarint D.length)).length M.length =
      (pre ++ (putUvarint M.length ++ (putUvarint D.length ++ M))).length := by
    unfold add64 two64; simp; omega
  have a3 : add64 (pre ++ (putUvarint M.length ++ (putUvarint D.length ++ M))).length D.length =
      (pre ++ (putUvarint M.length ++ (putUvarint D.length ++ M))).length + D.length := by
    unfold add64 two64; simp; omega
  unfold visitRecord
  simp only [a1, a2, a3]
  rw [slice_ok B _ _ (by simp) (by simp; omega)]
  simp only [Res.bind_ok]
  rw [slice_ok B _ _ (by simp) (by simp; omega)]
  simp only [Res.bind_ok, Buf.data]
  have e1 : ((pre ++ (putUvarint M.length ++ (putUvarint D.length ++ M))).length -
      (pre ++ (putUvarint M.length ++ putUvarint D.length)).length) = M.length := by
    simp; omega
  have e2 : ((pre ++ (putUvarint M.length ++ (putUvarint D.length ++ M))).length + D.length -
      (pre ++ (putUvarint M.length ++ (putUvarint D.length ++ M))).length) = D.length := by
    omega
  rw [e1, e2]
  have e3 : List.take M.length (List.drop (pre ++ (putUvarint M.length ++ putUvarint D.length)).length B.mem) = M := by
    rw [hm', List.drop_left' rfl, List.take_left' rfl]
  have e4 : List.drop (pre ++ (putUvarint M.length ++ (putUvarint D.length ++ M))).length B.mem = D ++ rest := by
    rw [hm'', List.drop_left' rfl]
  rw [e3, e4, ← hM]
  rw [hloop ⟨D ++ rest, D.length⟩ (flat d) 0 _ stop (by rw [hM]; omega) hf
    (by rw [hD]; omega) (by rw [hD]; simp) (by rw [hD]; simp)]
  rfl


/-! ## the per-document index, decompression, data reads -/

theorem flatMap_be8_length (l : List Nat) : (l.flatMap (be 8)).length = 8 * l.length := by
  induction l with
  | nil => rfl
  | cons a l ih => simp [List.flatMap_cons, be_length, ih]; omega

theorem flatMap_be8_slice : ∀ (l : List Nat) (n x : Nat) (tail : Bytes), l[n]? = some x →
    ((l.flatMap (be 8) ++ tail).drop (8 * n)).take 8 = be 8 x := by
  intro l
  induction l with
  | nil => intro n x tail h; simp at h
  | cons a l ih =>
    intro n x tail h
    cases n with
    | zero =>
      simp at h; subst h
      simp only [List.flatMap_cons, List.append_assoc, Nat.mul_zero, List.drop_zero]
      exact List.take_left' (be_length 8 a)
    | succ n =>
      simp only [List.getElem?_cons_succ] at h
      simp only [List.flatMap_cons, List.append_assoc]
      rw [show 8 * (n + 1) = 8 + 8 * n by omega, ← List.drop_drop,
        List.drop_left' (be_length 8 a)]
      exact ih n x tail h

theorem decompressInto_rt (cd : Codec) (buf : Buf) (blk : Bytes) :
    ∃ X, decompressInto cd buf (cd.Z blk) = some ⟨blk ++ X, blk.length⟩ := by
  unfold decompressInto
  rw [cd.rt]
  simp only
  split
  · exact ⟨_, rfl⟩
  · exact ⟨_, rfl⟩

theorem dataRead_ok (mem : Bytes) (s e : Nat) (h1 : s ≤ e) (h2 : e ≤ mem.length) :
    dataRead mem s e = .ok ((mem.drop s).take (e - s)) := by
  unfold dataRead; rw [if_pos ⟨h2, h1⟩]



/-! ## the reader on a located document -/

theorem index_ok (l : List Nat) (i x : Nat) (h : l[i]? = some x) : index l i = .ok x := by
  simp [index, h]

/-- A located document is read back by the reader as it stands, whatever the incoming buffer. -/
theorem visit_located (cd : Codec) (s : Seg) (buf : Buf) (n : Nat) (stop : Option Nat) (d : Doc)
    (W : Bytes) (dso : List Nat) (tail : Bytes) (L : Nat)
    (hmem : s.mem = W ++ (dso.flatMap (be 8) ++ tail))
    (hsio : s.storedIndexOffset = W.length)
    (hnd : n < s.numDocs)
    (hloc : Located cd s.bs W s.chunkOffsets dso n (record d) L)
    (hL : L < 2 ^ 63)
    (hfile : W.length + 8 * dso.length < 2 ^ 63)
    (hf : ∀ p ∈ flat d, p.1 < s.numFields ∧ p.1 < 2 ^ 64) :
    ∃ buf', visit cd s buf n stop = .ok (takeStop stop (flat d), buf') := by
  obtain ⟨a, blk, pre, post, h1, h2, h3, h4, h5, h6, h7⟩ := hloc
  have hn : n < dso.length := (List.getElem?_eq_some_iff.mp h6).1
  have hidx := flatMap_be8_length dso
  have hmemlen : s.mem.length = W.length + (8 * dso.length + tail.length) := by
    rw [hmem]; simp [hidx]
  have E1 : add64 s.storedIndexOffset (mul64 8 n) = W.length + 8 * n := by
    unfold add64 mul64 two64; omega
  have E2 : add64 (W.length + 8 * n) 8 = W.length + 8 * n + 8 := by
    unfold add64 two64; omega
  have R1 : dataRead s.mem (W.length + 8 * n) (W.length + 8 * n + 8) = .ok (be 8 pre.length) := by
    rw [dataRead_ok _ _ _ (by omega) (by omega)]
    rw [hmem, ← List.drop_drop, List.drop_left' rfl,
      show W.length + 8 * n + 8 - (W.length + 8 * n) = 8 by omega,
      flatMap_be8_slice dso n _ tail h6]
  have hpre : pre.length ≤ blk.length := by rw [h5]; simp
  have E3 : unbe (be 8 pre.length) = pre.length := unbe_be8 _ (by omega)
  have R2 : dataRead s.mem a (a + (cd.Z blk).length) = .ok (cd.Z blk) := by
    rw [dataRead_ok _ _ _ (by omega) (by omega), hmem,
      List.drop_append_of_le_length (by omega),
      show a + (cd.Z blk).length - a = (cd.Z blk).length by omega,
      List.take_append_of_le_length (by simp; omega)]
    rw [h4]
  obtain ⟨X, hdec⟩ := decompressInto_rt cd buf blk
  refine ⟨⟨blk ++ X, blk.length⟩, ?_⟩
  have hB : (⟨blk ++ X, blk.length⟩ : Buf).mem = pre ++ (record d ++ (post ++ X)) := by
    simp only [h5, List.append_assoc]
  have hrl := readRecordLens_record ⟨blk ++ X, blk.length⟩ pre d (post ++ X) hB
    (by simp only [h5, List.length_append]; omega) (by simp) (by simp only; omega)
  have hvr := visitRecord_record s.numFields ⟨blk ++ X, blk.length⟩ pre d (post ++ X) stop hB
    (by simp only [h5, List.length_append]; omega) (by simp only; omega) hf
  unfold visit visitWith
  rw [if_pos hnd]
  unfold getDocStoredOffsets
  simp only [E1, E2, R1, Res.bind_ok, E3, index_ok _ _ _ h1, index_ok _ _ _ h2, R2, hdec, hrl, hvr]


/-! ## what `writeStoredFields` wrote -/

theorem writeDocs_dso_length (cd : Codec) : ∀ (docs : List Doc) (c : Coder) (dso : List Nat),
    (writeDocs cd docs c dso).2.length = dso.length + docs.length := by
  intro docs
  induction docs with
  | nil => intro c dso; rfl
  | cons d docs ih => intro c dso; simp [writeDocs, ih]; omega

/-- The bytes `writeStoredFields` produces are the coder's output `W` (compressed blocks and the
    offsets trailer) followed by one big-endian u64 per document; `storedIndexOffset = |W|`; and
    every document is located in `W` through the chunk offsets and these u64s. -/
theorem writeStoredFields_located (cd : Codec) (bs : Nat) (hbs : 0 < bs) (docs : List Doc) :
    ∃ (W : Bytes) (dso : List Nat),
      (writeStoredFields cd bs docs).bytes = W ++ dso.flatMap (be 8) ∧
      (writeStoredFields cd bs docs).storedIndexOffset = W.length ∧
      dso.length = docs.length ∧
      ∀ n d, docs[n]? = some d →
        Located cd bs W (writeStoredFields cd bs docs).chunkOffsets dso n (record d)
          (docs.map record).flatten.length := by
  refine ⟨((writeDocs cd docs { chunkSize := bs } []).1.write cd).w,
    (writeDocs cd docs { chunkSize := bs } []).2, rfl, rfl, ?_, ?_⟩
  · simp [writeDocs_dso_length]
  · intro n d hd
    have := writeDocs_located cd bs hbs docs.length docs (Nat.le_refl _) { chunkSize := bs } [] 0
      (Bdry.init bs) n d hd
    rw [Nat.zero_mul, Nat.zero_add] at this
    exact this


/-! ## loading the chunk offsets from the trailer -/

theorem dataReadI_nat (mem : Bytes) (a b : Nat) (h1 : a ≤ b) (h2 : b ≤ mem.length) :
    dataReadI mem (a : Int) (b : Int) = .ok ((mem.drop a).take (b - a)) := by
  unfold dataReadI
  rw [if_pos ⟨by omega, by omega, by omega⟩]
  simp

/-- the offsets loop of `loadStoredFieldChunk` reads back the varints of the trailer, provided at
    least 9 more bytes follow them (the 10-byte window of the last one) -/
theorem loadOffsetsLoop_ok (mem P S : Bytes) : ∀ (offs : List Nat) (done : Bytes),
    mem = P ++ (done ++ (offs.flatMap putUvarint ++ S)) → 9 ≤ S.length →
    (∀ o ∈ offs, o < 2 ^ 64) →
    loadOffsetsLoop mem (P.length : Int) offs.length (done.length : Int) = .ok offs := by
  intro offs
  induction offs with
  | nil => intro done _ _ _; rfl
  | cons o offs ih =>
    intro done hm hS ho
    have ho1 : o < 2 ^ 64 := ho o (by simp)
    have hpos := List.length_pos_iff.mpr (putUvarint_ne_nil o)
    have hle := putUvarint_length_le_ten o ho1
    have hlen : mem.length = P.length + (done.length + ((putUvarint o).length +
        (offs.flatMap putUvarint).length + S.length)) := by
      rw [hm]; simp [List.flatMap_cons]; omega
    simp only [List.length_cons, loadOffsetsLoop]
    rw [show ((P.length : Int) + (done.length : Int)) = ((P.length + done.length : Nat) : Int) by omega,
      show (((P.length + done.length : Nat) : Int) + 10) = ((P.length + done.length + 10 : Nat) : Int) by omega,
      dataReadI_nat _ _ _ (by omega) (by omega)]
    have hw : List.take (P.length + done.length + 10 - (P.length + done.length))
        (List.drop (P.length + done.length) mem) =
        (putUvarint o ++ (offs.flatMap putUvarint ++ S)).take 10 := by
      rw [hm, ← List.append_assoc P done, ← List.length_append, List.drop_left' rfl]
      simp [List.flatMap_cons]
    simp only [Res.bind_ok, hw, uvarintGo_put_window o _ 10 ho1 hle]
    have := ih (done ++ putUvarint o) (by rw [hm]; simp [List.flatMap_cons]) hS
      (fun x hx => ho x (by simp [hx]))
    rw [List.length_append] at this
    rw [show ((done.length : Int) + ((putUvarint o).length : Int)) =
      ((done.length + (putUvarint o).length : Nat) : Int) by omega, this]
    rfl

theorem loadStoredFieldChunk_ok (P R : Bytes) (offs : List Nat) (mem : Bytes) (sio : Nat)
    (hm : mem = P ++ (offs.flatMap putUvarint ++ (be 4 (offs.flatMap putUvarint).length ++
      (be 4 offs.length ++ R))))
    (hsio : sio = P.length + (offs.flatMap putUvarint).length + 8)
    (h1 : (offs.flatMap putUvarint).length < 2 ^ 32) (h2 : offs.length < 2 ^ 32)
    (h3 : sio < 2 ^ 63) (hR : 1 ≤ R.length) (ho : ∀ o ∈ offs, o < 2 ^ 64) :
    loadStoredFieldChunk mem sio = .ok offs := by
  generalize htr : offs.flatMap putUvarint = tr at *
  have hlen : mem.length = P.length + (tr.length + (4 + (4 + R.length))) := by
    rw [hm]; simp [be_length]
  have p1 : toInt64 (sio + two64 - 4) = ((sio - 4 : Nat) : Int) := by
    unfold toInt64 two64
    have : (sio + 2 ^ 64 - 4) % 2 ^ 64 = sio - 4 := by omega
    rw [this, if_pos (by omega)]
  unfold loadStoredFieldChunk
  simp only [p1]
  rw [show (((sio - 4 : Nat) : Int) + 4) = ((sio : Nat) : Int) by omega,
    dataReadI_nat _ _ _ (by omega) (by omega)]
  have d1 : List.take (sio - (sio - 4)) (List.drop (sio - 4) mem) = be 4 offs.length := by
    have e : sio - 4 = (P ++ (tr ++ be 4 tr.length)).length := by simp [be_length]; omega
    rw [e, hm, show P ++ (tr ++ (be 4 tr.length ++ (be 4 offs.length ++ R))) =
      (P ++ (tr ++ be 4 tr.length)) ++ (be 4 offs.length ++ R) by simp only [List.append_assoc],
      List.drop_left' rfl, ← e, show sio - (sio - 4) = 4 by omega]
    exact List.take_left' (be_length 4 _)
  simp only [d1, Res.bind_ok, unbe_be4 _ h2]
  rw [show (((sio - 4 : Nat) : Int) - 4) = ((sio - 8 : Nat) : Int) by omega,
    show (((sio - 8 : Nat) : Int) + 4) = ((sio - 4 : Nat) : Int) by omega,
    dataReadI_nat _ _ _ (by omega) (by omega)]
  have d2 : List.take (sio - 4 - (sio - 8)) (List.drop (sio - 8) mem) = be 4 tr.length := by
    have e : sio - 8 = (P ++ tr).length := by simp; omega
    rw [e, hm, show P ++ (tr ++ (be 4 tr.length ++ (be 4 offs.length ++ R))) =
      (P ++ tr) ++ (be 4 tr.length ++ (be 4 offs.length ++ R)) by simp only [List.append_assoc],
      List.drop_left' rfl, ← e, show sio - 4 - (sio - 8) = 4 by omega]
    exact List.take_left' (be_length 4 _)
  simp only [d2, Res.bind_ok, unbe_be4 _ h1]
  rw [show (((sio - 8 : Nat) : Int) - (tr.length : Int)) = ((P.length : Nat) : Int) by omega]
  have := loadOffsetsLoop_ok mem P (be 4 tr.length ++ (be 4 offs.length ++ R)) offs []
    (by rw [hm, htr]; simp) (by simp [be_length]; omega) ho
  simpa using this



/-- the byte counter is the number of bytes written and no offset exceeds it -/
def OffsOK (c : Coder) : Prop := c.bytes = c.w.length ∧ ∀ o ∈ c.offsets, o ≤ c.bytes

theorem OffsOK.init (bs : Nat) : OffsOK { chunkSize := bs } := by
  constructor <;> simp

theorem OffsOK.flush (cd : Codec) {c : Coder} (h : OffsOK c) : OffsOK (Coder.flush cd c) := by
  by_cases hb : c.buf = []
  · rw [flush_empty cd c hb]
    refine ⟨h.1, ?_⟩
    intro o ho
    simp only [List.mem_append, List.mem_singleton] at ho
    rcases ho with ho | ho
    · exact h.2 o ho
    · simp [ho]
  · rw [flush_nonempty cd c hb]
    refine ⟨by simp [h.1], ?_⟩
    intro o ho
    simp only [List.mem_append, List.mem_singleton] at ho
    rcases ho with ho | ho
    · have := h.2 o ho; simp only; omega
    · simp [ho]

theorem OffsOK.add (cd : Codec) {c : Coder} (h : OffsOK c) (m d : Bytes) : OffsOK (c.add cd m d) := by
  unfold Coder.add
  simp only
  split
  · exact h
  · exact OffsOK.flush cd (c := { c with buf := _, n := _ }) h

theorem OffsOK.writeDocs (cd : Codec) : ∀ (docs : List Doc) (c : Coder) (dso : List Nat),
    OffsOK c → OffsOK (writeDocs cd docs c dso).1 := by
  intro docs
  induction docs with
  | nil => intro c dso h; exact h
  | cons d docs ih => intro c dso h; exact ih _ _ (h.add cd _ _)

/-- the layout of the section: compressed blocks `P`, the offsets as uvarints, their byte length
    and number, then the per-document index -/
theorem writeStoredFields_layout (cd : Codec) (bs : Nat) (docs : List Doc) :
    ∃ (P : Bytes) (dso : List Nat),
      let offs := (writeStoredFields cd bs docs).chunkOffsets
      (writeStoredFields cd bs docs).bytes =
        P ++ (offs.flatMap putUvarint ++ (be 4 (offs.flatMap putUvarint).length ++
          (be 4 offs.length ++ dso.flatMap (be 8)))) ∧
      (writeStoredFields cd bs docs).storedIndexOffset =
        P.length + (offs.flatMap putUvarint).length + 8 ∧
      dso.length = docs.length ∧ (∀ o ∈ offs, o ≤ P.length) := by
  have hok := (OffsOK.writeDocs cd docs { chunkSize := bs } [] (OffsOK.init bs)).flush cd
  refine ⟨(Coder.flush cd (writeDocs cd docs { chunkSize := bs } []).1).w,
    (writeDocs cd docs { chunkSize := bs } []).2, ?_, ?_, ?_, ?_⟩
  · show ((writeDocs cd docs { chunkSize := bs } []).1.write cd).w ++ _ = _
    rw [write_w]; simp only [List.append_assoc]; rfl
  · show ((writeDocs cd docs { chunkSize := bs } []).1.write cd).w.length = _
    rw [write_w]; simp [be_length]; rfl
  · simp [writeDocs_dso_length]
  · intro o ho
    have := hok.2 o ho
    rw [hok.1] at this; exact this



/-! ## the fuel of the visitor loop -/

theorem ioReadUvarintAux_rest : ∀ (b : Bytes) (x s i v : Nat) (rest : Bytes),
    ioReadUvarintAux b x s i = .ok v rest → rest.length < b.length := by
  intro b
  induction b with
  | nil => intro x s i v rest h; simp [ioReadUvarintAux] at h; split at h <;> simp at h
  | cons a r ih =>
    intro x s i v rest h
    unfold ioReadUvarintAux at h
    split at h
    · simp at h
    · split at h
      · split at h
        · simp at h
        · simp only [RU.ok.injEq] at h; rw [← h.2]; simp
      · have := ih _ _ _ _ _ h
        simp only [List.length_cons]; omega

theorem ioReadUvarint_rest (b : Bytes) (v : Nat) (rest : Bytes)
    (h : ioReadUvarint b = .ok v rest) : rest.length < b.length :=
  ioReadUvarintAux_rest b 0 0 0 v rest h

/-- the fuel of `visitLoop` is never the limiting factor: any two amounts above the number of
    unread meta bytes give the same result (`visitWith` passes `len(meta) + 1`) -/
theorem visitLoop_fuel_stable (nf : Nat) (unc : Buf) : ∀ (f1 f2 : Nat) (r : Bytes) (stop : Option Nat),
    r.length < f1 → r.length < f2 →
    visitLoop nf unc f1 r stop = visitLoop nf unc f2 r stop := by
  intro f1
  induction f1 with
  | zero => intro f2 r stop h; omega
  | succ f1 ih =>
    intro f2 r stop h1 h2
    cases f2 with
    | zero => omega
    | succ f2 =>
      simp only [visitLoop]
      cases e1 : ioReadUvarint r with
      | eof => rfl
      | err => rfl
      | ok field r1 =>
        have l1 := ioReadUvarint_rest _ _ _ e1
        simp only
        cases e2 : ioReadUvarint r1 with
        | eof => rfl
        | err => rfl
        | ok offset r2 =>
          have l2 := ioReadUvarint_rest _ _ _ e2
          simp only
          cases e3 : ioReadUvarint r2 with
          | eof => rfl
          | err => rfl
          | ok l r3 =>
            have l3 := ioReadUvarint_rest _ _ _ e3
            simp only
            have := fun st => ih f2 r3 st (by omega) (by omega)
            simp only [this]



/-! ## number of chunk offsets -/

theorem flush_offsets_length (cd : Codec) (c : Coder) :
    (Coder.flush cd c).offsets.length = c.offsets.length + 1 := by
  by_cases h : c.buf = []
  · rw [flush_empty cd c h]; simp
  · rw [flush_nonempty cd c h]; simp

/-- number of chunk offsets: one initial `0`, one per complete block, and one more appended by
    `Write` - also when nothing is buffered.  So `128·m` documents give `m + 2` entries. -/
theorem writeDocs_offsets_length (cd : Codec) (bs : Nat) (hbs : 0 < bs) : ∀ (m : Nat)
    (docs : List Doc), docs.length ≤ m → ∀ (c : Coder) (dso : List Nat) (q : Nat),
    Bdry bs c dso q →
    ((writeDocs cd docs c dso).1.write cd).offsets.length = q + docs.length / bs + 2 := by
  intro m
  induction m with
  | zero =>
    intro docs hm c dso q hB
    have : docs = [] := List.length_eq_zero_iff.mp (by omega)
    subst this
    simp [writeDocs, write_offsets, flush_offsets_length, hB.offsLen]
  | succ m ih =>
    intro docs hm c dso q hB
    by_cases hlt : docs.length < bs
    · have hw := writeDocs_inBlock cd docs c dso q 0 (by simp [hB.n, hB.cs]) (by simp [hB.cs]; omega)
      rw [hw, write_offsets, flush_offsets_length, Nat.div_eq_of_lt hlt]
      simp [hB.offsLen]
    · have hlen : (docs.take bs).length = bs := by simp; omega
      have hsplit : docs = docs.take bs ++ docs.drop bs := (List.take_append_drop bs docs).symm
      have htne : docs.take bs ≠ [] := by
        intro h; rw [h] at hlen; simp at hlen; omega
      have hw1 := writeDocs_closeBlock cd (docs.take bs) c dso q 0 (by simp [hB.n, hB.cs])
        (by rw [hlen, hB.cs]; omega) htne
      obtain ⟨_, hB1⟩ := flush_block cd bs c dso q (docs.take bs) hB htne (by omega)
      have hB1 := hB1 hlen
      have hw : writeDocs cd docs c dso =
          writeDocs cd (docs.drop bs) (writeDocs cd (docs.take bs) c dso).1
            (writeDocs cd (docs.take bs) c dso).2 := by
        conv => lhs; rw [hsplit]
        exact writeDocs_append cd _ _ c dso
      rw [hw, hw1, ih (docs.drop bs) (by simp; omega) _ _ (q + 1) hB1]
      rw [Nat.div_eq docs.length bs, if_pos ⟨hbs, by omega⟩]
      simp only [List.length_drop]
      omega

theorem chunkOffsets_length (cd : Codec) (bs : Nat) (hbs : 0 < bs) (docs : List Doc) :
    (writeStoredFields cd bs docs).chunkOffsets.length = docs.length / bs + 2 := by
  have := writeDocs_offsets_length cd bs hbs docs.length docs (Nat.le_refl _) { chunkSize := bs } [] 0
    (Bdry.init bs)
  rw [Nat.zero_add] at this
  exact this


end Ice.Model.Stored
