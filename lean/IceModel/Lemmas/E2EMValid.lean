import IceModel.Lemmas.E2EMDefs
/-
  END-TO-END, generic half: a description that lays out a well-formed abstract segment, inside the
  size bounds, is a valid input of the container (`C04.Valid`).
-/
namespace Ice.Props.E2EM
open Ice Ice.Spec Ice.Model Ice.Model.Format
open Ice.Model.MergeRest (DocRel Rel₂ IdFirstAsc)
open Ice.Model.DocValues (termsOf NoSep)
open Ice.Props.E2E

theorem mem_terms_of_getElem? {l : List Bytes} {j : Nat} {t : Bytes} (h : l[j]? = some t) : t ∈ l :=
  List.mem_of_getElem? h

theorem posting_norm31 {S : AbsSeg} (hA : AbsOK S) {f t : Bytes} {p : Posting}
    (h : p ∈ postings S f t) : p.norm < 2 ^ 31 := by
  obtain ⟨n, d, af, x, hd, hf, hx, rfl⟩ := mem_postings h
  exact hA.norm31 d (List.mem_of_getElem? hd) af (field?_mem hf).1

section
variable {K : Codecs} {S : AbsSeg} {L : LSeg} (hL : Lays S L) (hA : AbsOK S)

include hL in
theorem lays_field_mem {fd : FieldDesc} (h : fd ∈ L.fields) :
    ∃ i : Nat, S.fields[i]? = some fd.name ∧ L.fields[i]? = some fd := by
  obtain ⟨i, hi⟩ := List.getElem?_of_mem h
  refine ⟨i, ?_, hi⟩
  rw [← hL.names, List.getElem?_map, hi]; rfl

include hL hA in
/-- every field description is valid -/
theorem lays_field_valid (hsz : Sizes K L) {fd : FieldDesc} (hmem : fd ∈ L.fields) :
    fd.Valid L.merger L.numDocs := by
  obtain ⟨i, hf, hfd⟩ := lays_field_mem hL hmem
  have hSB := hA.bounds
  have hF : S.fields.length ≤ 65535 := Nat.le_of_lt hA.nfields
  obtain ⟨hkeys, hrep⟩ := hL.terms i fd.name fd hf hfd
  refine ⟨?_, ?_, ?_, ?_, ?_, ?_⟩
  · exact hSB.nameLen _ (List.mem_of_getElem? hf)
  · have h1 : fd.fieldDocs ∈ S.fieldDocs := by
      rw [← hL.fieldDocs]; exact List.mem_map.2 ⟨fd, hmem, rfl⟩
    have := hA.fieldDocs _ h1
    have := hSB.numDocs
    omega
  · have h1 : fd.fieldFreqs ∈ S.fieldFreqs := by
      rw [← hL.fieldFreqs]; exact List.mem_map.2 ⟨fd, hmem, rfl⟩
    exact hSB.freqs _ h1
  · rw [hkeys]
    exact ascKeys_of_asc _ (Ice.Model.Builder.asc_terms _ _)
  · intro td htd
    obtain ⟨j, hj⟩ := List.getElem?_of_mem htd
    obtain ⟨t, td⟩ := td
    have hr := hrep j t td hj
    have ht : t ∈ terms S fd.name := by
      rw [← hkeys]; exact List.mem_map.2 ⟨_, htd, rfl⟩
    cases td with
    | general es =>
      have hes : es = (postings S fd.name t).map (postingToE S.fields) := hr
      subst hes
      refine ⟨?_, ?_⟩
      · intro h0
        exact postings_ne_nil ht (List.map_eq_nil_iff.1 h0)
      · rw [hL.numDocs]
        exact entriesOK_postings hSB hF fd.name t
    | oneHit d n =>
      obtain ⟨hd31, p, hps, hpd, hpn, _, _⟩ := hr
      have hp : p ∈ postings S fd.name t := by rw [hps]; simp
      refine ⟨hL.oneHit fd hmem _ htd d n rfl, hd31, ?_, ?_⟩
      · rw [← hpn]; exact posting_norm31 hA hp
      · rw [← hpd, hL.numDocs]
        exact Ice.Model.MergeLoop.postings_doc_lt S fd.name t p hp
  · intro vals hvals
    have hdv := hL.dv i fd.name fd hf hfd
    rw [hvals] at hdv
    obtain ⟨hasc, hmax, hterms⟩ := hdv
    have hnd := hSB.numDocs
    refine ⟨by decide, hasc, ?_, ?_, ?_, ?_⟩
    · intro q hq
      have := hmax q hq
      rw [hL.numDocs]; omega
    · rw [hL.numDocs]; omega
    · exact hsz.dvRaw fd hmem vals hvals
    · intro q hq t ht
      have h1 : termsOf vals q.1 = q.2 := by
        unfold termsOf
        rw [lookup_of_mem hasc hq]; rfl
      rw [← h1, hterms q.1] at ht
      exact dvOf_noSep hSB q.1 fd.name t ht

include hL hA in
/-- **a laid-out, well-formed abstract segment inside the size bounds is a valid input of the
    container**: all of C04 applies to it -/
theorem lays_valid (hmode : 1 ≤ L.chunkMode ∧ L.chunkMode ≤ 1025) (hsz : Sizes K L) :
    C04.Valid K L := by
  have hSB := hA.bounds
  have hlen : L.fields.length = S.fields.length := by
    have := congrArg List.length hL.names
    simpa using this
  have hslen : L.stored.length = S.docs.length := hL.stored.length_eq
  refine ⟨?_, ?_, ?_, ?_, hmode, ?_, ?_, ?_,
    trailer_ok K _ (by rw [hslen]; exact hSB.numDocs) hsz.storedLen, hsz.file⟩
  · obtain ⟨r, hr, _, _⟩ := hA.fields
    have h1 : (L.fields.map (·.name)).head? = some idField := by rw [hL.names, hr]; rfl
    rw [List.head?_map] at h1
    exact h1
  · have := hA.nfields
    rw [hlen]; omega
  · rw [hL.numDocs, hslen]
  · rw [hL.numDocs]; exact hSB.numDocs
  · intro fd hfd
    exact lays_field_valid hL hA hsz hfd
  · intro h0 fd hfd
    obtain ⟨i, hf, hfi⟩ := lays_field_mem hL hfd
    obtain ⟨hdv, hff⟩ := hL.empty h0 fd hfd
    have hdocs : S.docs = [] := List.eq_nil_of_length_eq_zero (by rw [← hL.numDocs]; exact h0)
    refine ⟨?_, hdv, ?_, hff⟩
    · have h1 := (hL.terms i fd.name fd hf hfi).1
      have h2 : terms S fd.name = [] := by unfold terms; rw [hdocs]; rfl
      rw [h2] at h1
      exact List.map_eq_nil_iff.1 h1
    · have h1 : fd.fieldDocs ∈ S.fieldDocs := by
        rw [← hL.fieldDocs]; exact List.mem_map.2 ⟨fd, hfd, rfl⟩
      have := hA.fieldDocs _ h1
      rw [hdocs] at this
      simpa using this
  · refine ⟨by decide, by have := hA.nfields; rw [hlen]; omega, ?_, hsz.records, hsz.storedLen⟩
    intro d hd fv hfv
    rw [hlen]
    exact hL.storedIds d hd fv hfv

end

end Ice.Props.E2EM
