import IceModel.Lemmas.MergeRestMerge
import IceModel.Lemmas.Sort
/-
  From field ids to field names: the document the merge re-encodes (values regrouped by merged
  field id) stores, name by name, what `Spec.stored` of the merged segment says; field maps of
  `_id`-first ascending lists; when the lists coincide the regrouping is the identity.
-/
namespace Ice.Model.MergeRest
open Ice Ice.Model Ice.Model.Stored

/-! ### pointwise related lists -/

inductive Rel₂ {α β : Type} (R : α → β → Prop) : List α → List β → Prop
  | nil : Rel₂ R [] []
  | cons {a b l₁ l₂} : R a b → Rel₂ R l₁ l₂ → Rel₂ R (a :: l₁) (b :: l₂)

namespace Rel₂
variable {α β γ δ : Type} {R : α → β → Prop}

theorem length_eq {l₁ : List α} {l₂ : List β} (h : Rel₂ R l₁ l₂) : l₁.length = l₂.length := by
  induction h with
  | nil => rfl
  | cons _ _ ih => simp [ih]

theorem append {a₁ a₂ : List α} {b₁ b₂ : List β} (h₁ : Rel₂ R a₁ b₁) (h₂ : Rel₂ R a₂ b₂) :
    Rel₂ R (a₁ ++ a₂) (b₁ ++ b₂) := by
  induction h₁ with
  | nil => exact h₂
  | cons h _ ih => exact .cons h ih

theorem get {l₁ : List α} {l₂ : List β} (h : Rel₂ R l₁ l₂) : ∀ (k : Nat) (a : α) (b : β),
    l₁[k]? = some a → l₂[k]? = some b → R a b := by
  induction h with
  | nil => intro k a b h; simp at h
  | cons hab _ ih =>
    intro k a b h1 h2
    cases k with
    | zero => simp at h1 h2; subst h1; subst h2; exact hab
    | succ k => exact ih k a b (by simpa using h1) (by simpa using h2)

theorem of_get : ∀ (l₁ : List α) (l₂ : List β), l₁.length = l₂.length →
    (∀ (k : Nat) (a : α) (b : β), l₁[k]? = some a → l₂[k]? = some b → R a b) → Rel₂ R l₁ l₂ := by
  intro l₁
  induction l₁ with
  | nil =>
    intro l₂ hl _
    cases l₂ with
    | nil => exact .nil
    | cons _ _ => simp at hl
  | cons a l₁ ih =>
    intro l₂ hl h
    cases l₂ with
    | nil => simp at hl
    | cons b l₂ =>
      refine .cons (h 0 a b (by simp) (by simp)) (ih l₂ (by simpa using hl) ?_)
      intro k x y h1 h2
      exact h (k + 1) x y (by simpa using h1) (by simpa using h2)

theorem keepP (p : Nat → Bool) {l₁ : List α} {l₂ : List β} (h : Rel₂ R l₁ l₂) : ∀ k,
    Rel₂ R (Spec.keepP p k l₁) (Spec.keepP p k l₂) := by
  induction h with
  | nil => intro k; exact .nil
  | cons hab _ ih =>
    intro k
    rw [Spec.keepP_cons, Spec.keepP_cons]
    by_cases hp : p k = true
    · simp only [hp, if_true]; exact .cons hab (ih (k + 1))
    · simp only [hp]; exact ih (k + 1)

theorem map_left {S : γ → β → Prop} (f : α → γ) {l₁ : List α} {l₂ : List β} (h : Rel₂ R l₁ l₂)
    (hf : ∀ a b, R a b → S (f a) b) : Rel₂ S (l₁.map f) l₂ := by
  induction h with
  | nil => exact .nil
  | cons hab _ ih => exact .cons (hf _ _ hab) ih

theorem flatMap {S : γ → δ → Prop} (f : α → List γ) (g : β → List δ) {l₁ : List α} {l₂ : List β}
    (h : Rel₂ R l₁ l₂) (hf : ∀ a b, R a b → Rel₂ S (f a) (g b)) :
    Rel₂ S (l₁.flatMap f) (l₂.flatMap g) := by
  induction h with
  | nil => exact .nil
  | cons hab _ ih =>
    simp only [List.flatMap_cons]
    exact (hf _ _ hab).append ih

end Rel₂

/-! ### names -/

/-- the stored values of one abstract document in field `f` -/
def gOf (a : Spec.ADoc) (f : Bytes) : List (Bytes × Bytes) :=
  match Spec.ADoc.field? a f with
  | some af => af.stored.map fun v => (f, v)
  | none => []

/-- what `Spec.stored` lists for a document under the field list `fields` -/
def storedOf (fields : List Bytes) (a : Spec.ADoc) : List (Bytes × Bytes) := fields.flatMap (gOf a)

theorem stored_eq (s : Spec.AbsSeg) (n : Nat) :
    Spec.stored s n = match s.docs[n]? with
      | none => []
      | some d => storedOf s.fields d := by
  unfold Spec.stored storedOf gOf
  cases s.docs[n]? <;> rfl

theorem gOf_fst (a : Spec.ADoc) (f : Bytes) : ∀ q ∈ gOf a f, q.1 = f := by
  intro q hq
  unfold gOf at hq
  split at hq
  · simp only [List.mem_map] at hq
    obtain ⟨v, _, rfl⟩ := hq; rfl
  · simp at hq

/-- `(fieldsInv[field], value)` -/
def nameOf (fields : List Bytes) (p : Nat × Bytes) : Bytes × Bytes := (fields.getD p.1 [], p.2)

/-- the stored document `d` (field ids of `fields`) holds what the abstract document stores -/
def DocRel (fields : List Bytes) (d : Doc) (a : Spec.ADoc) : Prop :=
  (∀ p ∈ flat d, p.1 < fields.length) ∧ (flat d).map (nameOf fields) = storedOf fields a

/-- the document stores nothing under a name outside `fields` -/
def ClosedDoc (fields : List Bytes) (a : Spec.ADoc) : Prop := ∀ f, f ∉ fields → gOf a f = []

/-! ### list facts -/

theorem flatMap_filter_single {l : List Bytes} (hn : l.Nodup) (G : Bytes → List (Bytes × Bytes))
    (hG : ∀ f, ∀ q ∈ G f, q.1 = f) (x : Bytes) :
    (l.flatMap G).filter (fun q => q.1 == x) = if x ∈ l then G x else [] := by
  induction l with
  | nil => simp
  | cons f l ih =>
    have hn' := List.nodup_cons.1 hn
    rw [List.flatMap_cons, List.filter_append, ih hn'.2]
    by_cases hfx : f = x
    · subst hfx
      have h1 : (G f).filter (fun q => q.1 == f) = G f := by
        rw [List.filter_eq_self]
        intro q hq; simp [hG f q hq]
      rw [h1, if_neg hn'.1, if_pos (by simp)]
      simp
    · have h1 : (G f).filter (fun q => q.1 == x) = [] := by
        rw [List.filter_eq_nil_iff]
        intro q hq
        rw [hG f q hq]; simp [hfx]
      rw [h1, List.nil_append]
      have : (x ∈ f :: l) ↔ x ∈ l := by
        simp only [List.mem_cons]
        constructor
        · rintro (e | e)
          · exact absurd e.symm hfx
          · exact e
        · exact .inr
      by_cases hx : x ∈ l
      · rw [if_pos hx, if_pos (this.2 hx)]
      · rw [if_neg hx, if_neg (fun h => hx (this.1 h))]

/-! ### `fieldsMap` of a duplicate-free list -/

theorem getD_eq_getElem {l : List Bytes} {i : Nat} (h : i < l.length) : l.getD i [] = l[i] := by
  rw [List.getD_eq_getElem?_getD, List.getElem?_eq_getElem h]; rfl

theorem fieldsMapGet_mem (mF : List Bytes) (hn : mF.Nodup) (hlen : mF.length < 65535)
    (name : Bytes) (h : name ∈ mF) :
    fieldsMapGet (mapFields mF) name = mF.idxOf name + 1 := by
  rw [fieldsMapGet_mapFields mF hn hlen, Builder.idxOf?_eq_ite, if_pos h]

theorem fieldsMapped_of_subset (srcF mF : List Bytes) (hn : mF.Nodup) (hlen : mF.length < 65535)
    (hsub : ∀ f ∈ srcF, f ∈ mF) : FieldsMapped srcF (mapFields mF) mF.length := by
  intro i hi
  have hm : srcF.getD i [] ∈ mF := by
    rw [getD_eq_getElem hi]; exact hsub _ (List.getElem_mem hi)
  rw [fieldsMapGet_mem mF hn hlen _ hm]
  have := List.idxOf_lt_length_of_mem hm
  exact ⟨by omega, by omega⟩

theorem toMerged_eq (srcF mF : List Bytes) (hn : mF.Nodup) (hlen : mF.length < 65535)
    (hsub : ∀ f ∈ srcF, f ∈ mF) (i : Nat) (hi : i < srcF.length) :
    toMerged srcF (mapFields mF) i = mF.idxOf (srcF.getD i []) := by
  have hm : srcF.getD i [] ∈ mF := by
    rw [getD_eq_getElem hi]; exact hsub _ (List.getElem_mem hi)
  rw [toMerged, fieldsMapGet_mem mF hn hlen _ hm]
  omega

theorem idxOf_eq_iff {mF : List Bytes} (hn : mF.Nodup) {name : Bytes} (hm : name ∈ mF) {m : Nat}
    (hmn : m < mF.length) : mF.idxOf name = m ↔ name = mF.getD m [] := by
  rw [getD_eq_getElem hmn]
  constructor
  · intro h
    subst h
    exact (List.getElem_idxOf (List.idxOf_lt_length_of_mem hm)).symm
  · intro h
    subst h
    exact Builder.idxOf_getElem_nodup hn m hmn

/-! ### the re-encoded document stores what the abstract document stores -/

theorem reDoc_rel (srcF mF : List Bytes) (hns : srcF.Nodup) (hn : mF.Nodup)
    (hlen : mF.length < 65535) (hsub : ∀ f ∈ srcF, f ∈ mF) (d : Doc) (a : Spec.ADoc)
    (hr : DocRel srcF d a) (hc : ClosedDoc srcF a) :
    DocRel mF (reDoc (toMerged srcF (mapFields mF)) mF.length d) a := by
  obtain ⟨hlt, hflat⟩ := hr
  constructor
  · intro p hp
    rw [flat_reDoc] at hp
    simp only [List.mem_flatMap, List.mem_range, List.mem_map] at hp
    obtain ⟨m, hm, q, _, rfl⟩ := hp
    exact hm
  · rw [flat_reDoc, List.map_flatMap]
    unfold storedOf
    conv => rhs; rw [eq_map_range_getD mF [], List.flatMap_map]
    apply Spec.flatMap_congr'
    intro m hm
    have hmn : m < mF.length := List.mem_range.1 hm
    -- the values of merged field `m`
    have h1 : ((flat d).filter fun p => toMerged srcF (mapFields mF) p.1 == m) =
        (flat d).filter fun p => (nameOf srcF p).1 == mF.getD m [] := by
      apply List.filter_congr
      intro p hp
      have hp1 := hlt p hp
      have hmem : srcF.getD p.1 [] ∈ mF := by
        rw [getD_eq_getElem hp1]; exact hsub _ (List.getElem_mem hp1)
      rw [toMerged_eq srcF mF hn hlen hsub p.1 hp1]
      simp only [nameOf]
      by_cases he : srcF.getD p.1 [] = mF.getD m []
      · rw [(idxOf_eq_iff hn hmem hmn).2 he, he, beq_self_eq_true, beq_self_eq_true]
      · have : ¬ mF.idxOf (srcF.getD p.1 []) = m := fun e => he ((idxOf_eq_iff hn hmem hmn).1 e)
        have e1 : (mF.idxOf (srcF.getD p.1 []) == m) = false := by
          rw [beq_eq_false_iff_ne]; exact this
        have e2 : (srcF.getD p.1 [] == mF.getD m []) = false := by
          rw [beq_eq_false_iff_ne]; exact he
        rw [e1, e2]
    rw [h1, List.map_map]
    have h2 : (((flat d).filter fun p => (nameOf srcF p).1 == mF.getD m []).map
          (nameOf mF ∘ fun p => (m, p.2))) =
        ((flat d).filter fun p => (nameOf srcF p).1 == mF.getD m []).map (nameOf srcF) := by
      apply List.map_congr_left
      intro p hp
      have := (List.mem_filter.1 hp).2
      simp only [nameOf, beq_iff_eq] at this
      show (mF.getD m [], p.2) = (srcF.getD p.1 [], p.2)
      rw [this]
    rw [h2]
    have h3 : ((flat d).filter fun p => (nameOf srcF p).1 == mF.getD m []).map (nameOf srcF) =
        ((flat d).map (nameOf srcF)).filter fun q => q.1 == mF.getD m [] := by
      rw [List.filter_map]; rfl
    rw [h3, hflat]
    unfold storedOf
    rw [flatMap_filter_single hns (gOf a) (gOf_fst a)]
    by_cases hx : mF.getD m [] ∈ srcF
    · rw [if_pos hx]
    · rw [if_neg hx, hc _ hx]

/-! ### coinciding field lists: the regrouping is the identity -/

theorem filter_lt_eq_split (n : Nat) : ∀ (L : List (Nat × Bytes)),
    L.Pairwise (fun a b => a.1 ≤ b.1) → (∀ p ∈ L, p.1 ≤ n) →
    L = (L.filter fun p => decide (p.1 < n)) ++ L.filter fun p => p.1 == n := by
  intro L
  induction L with
  | nil => intro _ _; rfl
  | cons p r ih =>
    intro hs hb
    have hs' := List.pairwise_cons.1 hs
    have hr := ih hs'.2 (fun q hq => hb q (by simp [hq]))
    by_cases hp : p.1 < n
    · have hne : ¬ p.1 = n := by omega
      simp only [List.filter_cons, hp, decide_true, if_true, beq_iff_eq, hne, if_false,
        List.cons_append]
      exact congrArg _ hr
    · have hpn : p.1 = n := by have := hb p (by simp); omega
      have hall : ∀ q ∈ r, q.1 = n := by
        intro q hq
        have := hs'.1 q hq
        have := hb q (by simp [hq])
        omega
      have h1 : (r.filter fun p => decide (p.1 < n)) = [] := by
        rw [List.filter_eq_nil_iff]
        intro q hq; simp [hall q hq]
      have h2 : (r.filter fun p => p.1 == n) = r := by
        rw [List.filter_eq_self]
        intro q hq; simp [hall q hq]
      simp [hpn, h1, h2]

/-- distributing a list sorted by key into the buckets `0 … n-1` and concatenating them gives the
    list back -/
theorem bucket_sorted (n : Nat) : ∀ (L : List (Nat × Bytes)),
    L.Pairwise (fun a b => a.1 ≤ b.1) → (∀ p ∈ L, p.1 < n) →
    (List.range n).flatMap (fun m => L.filter fun p => p.1 == m) = L := by
  induction n with
  | zero =>
    intro L _ hb
    cases L with
    | nil => rfl
    | cons p _ => exact absurd (hb p (by simp)) (by omega)
  | succ n ih =>
    intro L hs hb
    rw [List.range_succ, List.flatMap_append]
    simp only [List.flatMap_cons, List.flatMap_nil, List.append_nil]
    have hsplit := filter_lt_eq_split n L hs (fun p hp => by have := hb p hp; omega)
    have h1 : (List.range n).flatMap (fun m => L.filter fun p => p.1 == m) =
        (List.range n).flatMap
          (fun m => (L.filter fun p => decide (p.1 < n)).filter fun p => p.1 == m) := by
      apply Spec.flatMap_congr'
      intro m hm
      have hmn := List.mem_range.1 hm
      rw [List.filter_filter]
      apply List.filter_congr
      intro p _
      by_cases he : p.1 = m
      · simp [he, hmn]
      · simp [he]
    rw [h1, ih _ (hs.filter _) (fun p hp => by simpa using (List.mem_filter.1 hp).2)]
    exact hsplit.symm

/-- the field ids of a stored document ascend -/
def DocAsc (d : Doc) : Prop := d.Pairwise fun a b => a.1 < b.1

theorem flat_sorted : ∀ (d : Doc), DocAsc d → (flat d).Pairwise (fun a b => a.1 ≤ b.1) := by
  intro d
  induction d with
  | nil => intro _; simp [flat]
  | cons fv d ih =>
    intro h
    have h' := List.pairwise_cons.1 h
    have hf : flat (fv :: d) = (fv.2.map fun v => (fv.1, v)) ++ flat d := by simp [flat]
    rw [hf, List.pairwise_append]
    refine ⟨?_, ih h'.2, ?_⟩
    · rw [List.pairwise_map]
      exact List.pairwise_of_forall (fun _ _ => Nat.le_refl _)
    · intro a ha b hb
      simp only [List.mem_map] at ha
      obtain ⟨v, _, rfl⟩ := ha
      simp only [flat, List.mem_flatMap, List.mem_map] at hb
      obtain ⟨gw, hgw, w, _, rfl⟩ := hb
      exact Nat.le_of_lt (h'.1 gw hgw)

/-- when the source field list IS the merged field list, re-encoding a document whose field ids
    ascend reproduces its values -/
theorem flat_reDoc_same (F : List Bytes) (hn : F.Nodup) (hlen : F.length < 65535) (d : Doc)
    (hasc : DocAsc d) (hlt : ∀ p ∈ flat d, p.1 < F.length) :
    flat (reDoc (toMerged F (mapFields F)) F.length d) = flat d := by
  rw [flat_reDoc]
  have h1 : ∀ m, ((flat d).filter fun p => toMerged F (mapFields F) p.1 == m).map
        (fun p => (m, p.2)) = (flat d).filter fun p => p.1 == m := by
    intro m
    have hf : ((flat d).filter fun p => toMerged F (mapFields F) p.1 == m) =
        (flat d).filter fun p => p.1 == m := by
      apply List.filter_congr
      intro p hp
      have hp1 := hlt p hp
      rw [toMerged_eq F F hn hlen (fun _ h => h) p.1 hp1, getD_eq_getElem hp1,
        Builder.idxOf_getElem_nodup hn p.1 hp1]
    rw [hf]
    conv => rhs; rw [← List.map_id ((flat d).filter fun p => p.1 == m)]
    apply List.map_congr_left
    intro p hp
    have := (List.mem_filter.1 hp).2
    simp only [beq_iff_eq] at this
    simp [← this]
  simp only [h1]
  exact bucket_sorted F.length (flat d) (flat_sorted d hasc) hlt

/-- the re-encoded document has ascending field ids below the merged field count -/
theorem reDoc_asc (toM : Nat → Nat) (nM : Nat) (d : Doc) : DocAsc (reDoc toM nM d) := by
  simp only [reDoc, groupsOf, regroup, zipIdx_map_range, List.map_map, DocAsc]
  rw [List.pairwise_map]
  have : (List.range nM).Pairwise (fun a b => a < b) := List.pairwise_lt_range
  exact this.imp (fun h => h)

theorem reDoc_fields_lt (toM : Nat → Nat) (nM : Nat) (d : Doc) :
    ∀ fv ∈ reDoc toM nM d, fv.1 < nM := by
  intro fv hfv
  simp only [reDoc, groupsOf, regroup, zipIdx_map_range, List.map_map, List.mem_map,
    List.mem_range] at hfv
  obtain ⟨m, hm, rfl⟩ := hfv
  exact hm

end Ice.Model.MergeRest
