import IceModel.Lemmas.E2EDefs
/-
  END-TO-END, builder path: facts about the specification `Spec.build` that the byte layers ask
  for - the shape of postings lists (ascending documents, never empty for a term of the
  dictionary), the numeric bounds carried from the input batch to the rolled-up documents
  (`Bounds → SpecBounds`), and the field names inside locations.
-/
namespace Ice.Props.E2E
open Ice Ice.Spec Ice.Model Ice.Model.Builder

/-! ### sums over sublists -/

theorem sum_map_sublist {α : Type} (g : α → Nat) {l₁ l₂ : List α} (h : l₁.Sublist l₂) :
    (l₁.map g).sum ≤ (l₂.map g).sum := by
  induction h with
  | slnil => simp
  | cons a _ ih => simp only [List.map_cons, List.sum_cons]; omega
  | cons_cons a _ ih => simp only [List.map_cons, List.sum_cons]; omega

theorem flatMap_filter_sublist {α β : Type} (q : α → Bool) (h : α → List β) (d : List α) :
    ((d.filter q).flatMap h).Sublist (d.flatMap h) := by
  induction d with
  | nil => simp
  | cons a r ih =>
    simp only [List.filter_cons, List.flatMap_cons]
    cases q a
    · simp only [Bool.false_eq_true, if_false]
      exact ih.trans (List.sublist_append_right _ _)
    · simp only [if_true, List.flatMap_cons]
      exact List.Sublist.append (List.Sublist.refl _) ih

theorem length_flatMap_le_sum {α β : Type} (h : α → List β) (g : α → Nat) (l : List α)
    (hl : ∀ a ∈ l, (h a).length ≤ g a) : (l.flatMap h).length ≤ (l.map g).sum := by
  induction l with
  | nil => simp
  | cons a r ih =>
    simp only [List.flatMap_cons, List.length_append, List.map_cons, List.sum_cons]
    have := hl a (by simp)
    have := ih (fun x hx => hl x (by simp [hx]))
    omega

theorem sum_map_mem_le {α : Type} (g : α → Nat) {l : List α} {a : α} (h : a ∈ l) :
    g a ≤ (l.map g).sum := by
  induction l with
  | nil => cases h
  | cons x r ih =>
    simp only [List.map_cons, List.sum_cons]
    rcases List.mem_cons.mp h with rfl | h
    · omega
    · have := ih h; omega

/-! ### the shape of a postings list of the specification -/

theorem mem_postings {S : AbsSeg} {f t : Bytes} {p : Posting} (h : p ∈ postings S f t) :
    ∃ n d af x, S.docs[n]? = some d ∧ d.field? f = some af ∧
      af.terms.find? (fun x => x.term == t) = some x ∧
      p = { doc := n, freq := x.freq, norm := af.norm, locs := x.locs } := by
  unfold postings at h
  simp only [List.mem_filterMap] at h
  obtain ⟨⟨d, n⟩, hm, hp⟩ := h
  have hd := List.mem_zipIdx_iff_getElem?.1 hm
  unfold postingOf at hp
  simp only at hp
  cases hf : d.field? f with
  | none => rw [hf] at hp; cases hp
  | some af =>
    rw [hf] at hp
    simp only at hp
    cases hx : af.terms.find? (fun x => x.term == t) with
    | none => rw [hx] at hp; cases hp
    | some x =>
      rw [hx] at hp
      simp only [Option.some.injEq] at hp
      exact ⟨n, d, af, x, hd, hf, hx, hp.symm⟩

theorem field?_mem {d : ADoc} {f : Bytes} {af : AField} (h : d.field? f = some af) :
    af ∈ d ∧ af.name = f := by
  unfold ADoc.field? at h
  exact ⟨List.mem_of_find?_eq_some h, by simpa using List.find?_some h⟩

/-- the documents of a postings list ascend strictly and lie inside the segment -/
theorem postings_docs (S : AbsSeg) (f t : Bytes) :
    (postings S f t).Pairwise (fun a b => a.doc < b.doc) ∧
    ∀ p ∈ postings S f t, p.doc < S.docs.length := by
  have key := docs_nat_asc (α := ADoc) (fun x => (postingOf x.1 x.2 f t).map (·.doc))
    (by
      intro x e he
      simp only [Option.map_eq_some_iff] at he
      obtain ⟨p, hp, rfl⟩ := he
      unfold postingOf at hp
      cases hf : x.1.field? f with
      | none => rw [hf] at hp; cases hp
      | some af =>
        rw [hf] at hp
        simp only at hp
        cases hx : af.terms.find? (fun y => y.term == t) with
        | none => rw [hx] at hp; cases hp
        | some y => rw [hx] at hp; simp only [Option.some.injEq] at hp; rw [← hp])
    S.docs 0
  have hmap : (S.docs.zipIdx 0).flatMap (fun x => ((postingOf x.1 x.2 f t).map (·.doc)).toList) =
      (postings S f t).map (·.doc) := by
    unfold postings
    rw [filterMap_eq_flatMap_toList, map_flatMap_toList]
  rw [hmap] at key
  refine ⟨?_, ?_⟩
  · have := key.1
    rwa [List.pairwise_map] at this
  · intro p hp
    have := key.2 p.doc (List.mem_map_of_mem hp)
    omega

/-- a term of the dictionary has at least one posting -/
theorem postings_ne_nil {S : AbsSeg} {f t : Bytes} (h : t ∈ terms S f) : postings S f t ≠ [] := by
  rw [mem_terms] at h
  obtain ⟨d, hd, af, hf, ht⟩ := h
  obtain ⟨n, hn⟩ := List.getElem?_of_mem hd
  have hx : ∃ x, af.terms.find? (fun x => x.term == t) = some x := by
    simp only [List.mem_map] at ht
    obtain ⟨x, hx, hxt⟩ := ht
    cases hfx : af.terms.find? (fun x => x.term == t) with
    | some y => exact ⟨y, rfl⟩
    | none =>
      have := List.find?_eq_none.1 hfx x hx
      simp [hxt] at this
  obtain ⟨x, hx⟩ := hx
  intro hnil
  have hm : ({ doc := n, freq := x.freq, norm := af.norm, locs := x.locs } : Posting) ∈
      postings S f t := by
    unfold postings
    simp only [List.mem_filterMap]
    refine ⟨(d, n), List.mem_zipIdx_iff_getElem?.2 hn, ?_⟩
    simp [postingOf, hf, hx]
  rw [hnil] at hm
  cases hm

/-! ### bounds -/

/-- what `SpecBounds` says about the postings of a (field, term) -/
theorem SpecBounds.posting {S : AbsSeg} (hB : SpecBounds S) {f t : Bytes} {p : Posting}
    (h : p ∈ postings S f t) :
    p.freq < 2 ^ 63 ∧ p.norm < 2 ^ 32 ∧ p.locs.length ≤ p.freq ∧ p.locs.length < 2 ^ 57 ∧
      ∀ l ∈ p.locs, l.pos < 2 ^ 64 ∧ l.start < 2 ^ 64 ∧ l.stop < 2 ^ 64 := by
  obtain ⟨n, d, af, x, hd, hf, hx, rfl⟩ := mem_postings h
  have hdm : d ∈ S.docs := List.mem_of_getElem? hd
  obtain ⟨hn, _, hx'⟩ := hB.field d hdm af (field?_mem hf).1
  obtain ⟨h1, h2, h3, h4⟩ := hx' x (List.mem_of_find?_eq_some hx)
  exact ⟨h1, hn, h2, h3, h4⟩

/-! ### from the input batch to the rolled-up documents -/

theorem mem_rollDoc {nc : Bytes → Nat → Nat} {g : Bytes → Bool} {d : Doc} {af : AField}
    (h : af ∈ rollDoc nc g d) : ∃ n, n ∈ d.map (·.name) ∧ af = rollField nc g d n := by
  unfold rollDoc at h
  simp only [List.mem_map, List.mem_eraseDups] at h
  obtain ⟨n, ⟨i, hi, rfl⟩, rfl⟩ := h
  exact ⟨i.name, List.mem_map_of_mem hi, rfl⟩

theorem mem_rollTerms {fname : Bytes} {occs : List TermOcc} {x : ATerm} (h : x ∈ rollTerms fname occs) :
    x.term ∈ occs.map (·.term) ∧
    x.freq = ((occs.filter (fun o => o.term == x.term)).map (·.freq)).sum ∧
    x.locs = (occs.filter (fun o => o.term == x.term)).flatMap
      (fun o => o.locs.map (resolveLoc fname)) := by
  unfold rollTerms at h
  simp only [List.mem_map, mem_sortDedup] at h
  obtain ⟨t, ⟨o, ho, rfl⟩, rfl⟩ := h
  exact ⟨List.mem_map_of_mem ho, rfl, rfl⟩

theorem names_sub {b : Batch} {d : Doc} (hd : d ∈ b) {n : Bytes} (hn : n ∈ d.map (·.name)) :
    n ∈ names b := by
  unfold names
  exact List.mem_flatMap.2 ⟨d, hd, hn⟩

theorem build_fields (nc : Bytes → Nat → Nat) (mode : Nat) (b : Batch) :
    (build nc mode b).fields = FL b := rfl

theorem build_docs (nc : Bytes → Nat → Nat) (mode : Nat) (b : Batch) :
    (build nc mode b).docs = b.map (rollDoc nc (dvFlagOf b)) := rfl

theorem fieldLen_le (nc : Bytes → Nat → Nat) (g : Bytes → Bool) (f : Bytes) (d : Doc) :
    (match ADoc.field? (rollDoc nc g d) f with
      | some af => af.length | none => 0) ≤ (d.map (·.length)).sum := by
  rw [field?_rollDoc]
  split
  · rename_i af h
    split at h
    · injection h with h
      subst h
      simp only [rollField]
      exact sum_map_sublist _ List.filter_sublist
    · cases h
  · exact Nat.zero_le _

theorem fieldFreq_le_aux (nc : Bytes → Nat → Nat) (g : Bytes → Bool) (f : Bytes) (r : Batch) :
    ((r.map (rollDoc nc g)).map (fun d => match ADoc.field? d f with
      | some af => af.length | none => 0)).sum ≤ (r.flatten.map (·.length)).sum := by
  induction r with
  | nil => simp
  | cons d r ih =>
    simp only [List.map_cons, List.sum_cons, List.flatten_cons, List.map_append, List.sum_append]
    have := fieldLen_le nc g f d
    omega

/-- the lengths of a field sum up to at most all lengths of the batch -/
theorem fieldFreqs_le (nc : Bytes → Nat → Nat) (mode : Nat) (b : Batch) :
    ∀ x ∈ (build nc mode b).fieldFreqs, x ≤ (b.flatten.map (·.length)).sum := by
  intro x hx
  simp only [build, List.mem_map] at hx
  obtain ⟨f, _, rfl⟩ := hx
  exact fieldFreq_le_aux nc _ f b

/-- a rolled-up term of the specification, traced back to the term occurrences of the input -/
theorem mem_build_terms {nc : Bytes → Nat → Nat} {mode : Nat} {b : Batch} {d' : ADoc} {af : AField}
    {x : ATerm} (hd : d' ∈ (build nc mode b).docs) (haf : af ∈ d') (hx : x ∈ af.terms) :
    ∃ d ∈ b, af.name ∈ d.map (·.name) ∧ (∃ len, af.norm = nc af.name len) ∧
      (af.dv = true → dvFlagOf b af.name = true) ∧
      ∃ os : List TermOcc, os ≠ [] ∧
        (∀ o ∈ os, o.term = x.term ∧ ∃ inst ∈ d, inst.name = af.name ∧ o ∈ inst.terms) ∧
        os.Sublist (d.flatMap (·.terms)) ∧ x.freq = (os.map (·.freq)).sum ∧
        x.locs = os.flatMap (fun o => o.locs.map (resolveLoc af.name)) := by
  rw [build_docs] at hd
  obtain ⟨d, hdb, rfl⟩ := List.mem_map.1 hd
  obtain ⟨n, hn, rfl⟩ := mem_rollDoc haf
  simp only [rollField] at hx ⊢
  obtain ⟨hmem, hfreq, hlocs⟩ := mem_rollTerms hx
  refine ⟨d, hdb, hn, ⟨_, rfl⟩, ?_, _, ?_, ?_, ?_, hfreq, hlocs⟩
  · intro h
    simp only [Bool.and_eq_true] at h
    exact h.1
  · obtain ⟨o, ho, hot⟩ := List.mem_map.1 hmem
    intro h0
    have : o ∈ List.filter (fun o => o.term == x.term)
        (List.flatMap (fun x => x.terms) (List.filter (fun f => f.name == n) d)) :=
      List.mem_filter.2 ⟨ho, by simp [hot]⟩
    rw [h0] at this
    cases this
  · intro o ho
    simp only [List.mem_filter, List.mem_flatMap, beq_iff_eq] at ho
    obtain ⟨⟨inst, ⟨hi, hin⟩, hoi⟩, hot⟩ := ho
    exact ⟨hot, inst, hi, hin, hoi⟩
  · exact List.filter_sublist.trans (flatMap_filter_sublist _ _ d)

/-- **`Bounds` on the input gives `SpecBounds` on the specification's segment** -/
theorem specBounds_of_bounds {nc : Bytes → Nat → Nat} {b : Batch} (hB : Bounds nc b) (mode : Nat) :
    SpecBounds (build nc mode b) := by
  refine ⟨?_, ?_, ?_, ?_⟩
  · rw [build_docs, List.length_map]; exact hB.numDocs
  · intro f hf
    rw [build_fields, mem_FL] at hf
    rcases hf with rfl | hf
    · decide
    · unfold names at hf
      simp only [List.mem_flatMap, List.mem_map] at hf
      obtain ⟨d, hd, i, hi, rfl⟩ := hf
      exact hB.nameLen d hd i hi
  · intro x hx
    have := fieldFreqs_le nc mode b x hx
    have := hB.lengths
    omega
  · intro d' hd' af haf
    refine ⟨?_, ?_, ?_⟩
    · rw [build_docs] at hd'
      obtain ⟨d, hdb, rfl⟩ := List.mem_map.1 hd'
      obtain ⟨n, hn, rfl⟩ := mem_rollDoc haf
      exact hB.norm _ _
    · intro hdv x hx
      obtain ⟨d, hdb, _, _, hflag, os, hne, hos, _, _, _⟩ := mem_build_terms hd' haf hx
      cases os with
      | nil => exact absurd rfl hne
      | cons o _ =>
        obtain ⟨hot, inst, hi, hin, hoi⟩ := hos o (by simp)
        rw [← hot]
        exact hB.noSep d hdb inst hi (by rw [hin]; exact hflag hdv) o hoi
    · intro x hx
      obtain ⟨d, hdb, _, _, _, os, _, hos, hsub, hfreq, hlocs⟩ := mem_build_terms hd' haf hx
      refine ⟨?_, ?_, ?_, ?_⟩
      · rw [hfreq]
        have := sum_map_sublist (·.freq) hsub
        have := hB.freq d hdb
        omega
      · rw [hfreq, hlocs]
        apply length_flatMap_le_sum
        intro o ho
        obtain ⟨_, inst, hi, _, hoi⟩ := hos o ho
        rw [List.length_map]
        exact (hB.locs d hdb inst hi o hoi).1
      · rw [hlocs]
        have h1 := length_flatMap_le_sum (fun o : TermOcc => o.locs.map (resolveLoc af.name))
          (fun o => o.locs.length) os (fun o _ => by rw [List.length_map]; exact Nat.le_refl _)
        have := sum_map_sublist (fun o : TermOcc => o.locs.length) hsub
        have := hB.nlocs d hdb
        omega
      · intro l hl
        rw [hlocs] at hl
        simp only [List.mem_flatMap, List.mem_map] at hl
        obtain ⟨o, ho, l0, hl0, rfl⟩ := hl
        obtain ⟨_, inst, hi, _, hoi⟩ := hos o ho
        have := (hB.locs d hdb inst hi o hoi).2 l0 hl0
        unfold resolveLoc
        split <;> exact this

/-- inside the contract of `New`, every location of the specification names a field of the
    segment: its own field or a field of the batch -/
theorem loc_field_mem {nc : Bytes → Nat → Nat} {mode : Nat} {b : Batch} (hv : ValidBatch b)
    {d' : ADoc} {af : AField} {x : ATerm} (hd : d' ∈ (build nc mode b).docs) (haf : af ∈ d')
    (hx : x ∈ af.terms) : ∀ l ∈ x.locs, l.field ∈ (build nc mode b).fields := by
  intro l hl
  obtain ⟨d, hdb, hname, _, _, os, _, hos, _, _, hlocs⟩ := mem_build_terms hd haf hx
  rw [hlocs] at hl
  simp only [List.mem_flatMap, List.mem_map] at hl
  obtain ⟨o, ho, l0, hl0, rfl⟩ := hl
  obtain ⟨_, inst, hi, _, hoi⟩ := hos o ho
  rw [build_fields, mem_FL]
  unfold resolveLoc
  split
  · right; exact names_sub hdb hname
  · rename_i hne
    rcases hv.1 d hdb inst hi o hoi l0 hl0 with h | h
    · rw [h] at hne; simp at hne
    · right; exact h

theorem posting_loc_field_mem {nc : Bytes → Nat → Nat} {mode : Nat} {b : Batch} (hv : ValidBatch b)
    {f t : Bytes} {p : Posting} (h : p ∈ postings (build nc mode b) f t) :
    ∀ l ∈ p.locs, l.field ∈ (build nc mode b).fields := by
  obtain ⟨n, d, af, x, hd, hf, hx, rfl⟩ := mem_postings h
  exact loc_field_mem hv (List.mem_of_getElem? hd) (field?_mem hf).1 (List.mem_of_find?_eq_some hx)

end Ice.Props.E2E
