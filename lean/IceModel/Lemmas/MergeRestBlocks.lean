import IceModel.Lemmas.Stored
/-
  The block structure of what the stored writer wrote: block `i` of `writeStoredFields cd bs docs`
  (between chunk offsets `i` and `i+1`) is the compressed concatenation of the records of documents
  `i·bs … (i+1)·bs - 1`; there are `|docs| / bs + 1` blocks, the last one possibly empty (then the
  two offsets coincide and nothing was written for it).
-/
namespace Ice.Model.Stored
open Ice Ice.Model
open Ice.Model.Writer (be unbe)

/-- the concatenated records of a block -/
def recs (B : List Doc) : Bytes := (B.map record).flatten

/-- what `flush` writes for a block: nothing for an empty buffer -/
def Zs (cd : Codec) (B : List Doc) : Bytes := if B = [] then [] else cd.Z (recs B)

/-- the documents of block `i` -/
def blockDocs (bs : Nat) (docs : List Doc) (i : Nat) : List Doc := (docs.drop (i * bs)).take bs

theorem recs_ne_nil {B : List Doc} (h : B ≠ []) : recs B ≠ [] := flatten_map_record_ne_nil B h

/-- block number `j` of the output `w` with chunk offsets `offs` holds the documents `B` -/
def BlockAt (cd : Codec) (w : Bytes) (offs : List Nat) (j : Nat) (B : List Doc) : Prop :=
  ∃ a, offs[j]? = some a ∧ offs[j + 1]? = some (a + (Zs cd B).length) ∧
    a + (Zs cd B).length ≤ w.length ∧ (w.drop a).take (Zs cd B).length = Zs cd B

theorem BlockAt.mono {cd : Codec} {w offs : List Nat} {j : Nat} {B : List Doc}
    (h : BlockAt cd w offs j B) (x y : List Nat) : BlockAt cd (w ++ x) (offs ++ y) j B := by
  obtain ⟨a, h1, h2, h3, h4⟩ := h
  refine ⟨a, getElem?_append_of_some y h1, getElem?_append_of_some y h2, ?_, ?_⟩
  · simp; omega
  · rw [List.drop_append_of_le_length (by omega), List.take_append_of_le_length (by simp; omega)]
    exact h4

theorem BlockAt.mono' {cd : Codec} {w w' offs offs' : List Nat} {j : Nat} {B : List Doc}
    (h : BlockAt cd w offs j B) (hw : ∃ x, w' = w ++ x) (ho : ∃ y, offs' = offs ++ y) :
    BlockAt cd w' offs' j B := by
  obtain ⟨x, rfl⟩ := hw
  obtain ⟨y, rfl⟩ := ho
  exact h.mono x y

/-- a block found in the coder's state stays where it is while the coder goes on and finishes -/
theorem blockAt_after (cd : Codec) (rest : List Doc) (C1 : Coder) (D1 : List Nat)
    {j : Nat} {B : List Doc} (h : BlockAt cd C1.w C1.offsets j B) :
    BlockAt cd ((writeDocs cd rest C1 D1).1.write cd).w
      ((writeDocs cd rest C1 D1).1.write cd).offsets j B := by
  obtain ⟨⟨x, hx⟩, ⟨y, hy⟩, _⟩ := writeDocs_ext cd rest C1 D1
  obtain ⟨⟨x2, hx2⟩, ⟨y2, hy2⟩⟩ := flush_ext cd (writeDocs cd rest C1 D1).1
  have hw := write_w cd (writeDocs cd rest C1 D1).1
  have ho := write_offsets cd (writeDocs cd rest C1 D1).1
  rw [hx2, hx] at hw
  rw [hy2, hy] at ho
  generalize (List.flatMap putUvarint (Coder.flush cd (writeDocs cd rest C1 D1).fst).offsets ++ _) = t
    at hw
  refine h.mono' ⟨x ++ (x2 ++ t), ?_⟩ ⟨y ++ y2, ?_⟩
  · rw [hw]; simp only [List.append_assoc]
  · rw [ho, List.append_assoc]

/-- flushing the buffered block `B` from a block boundary puts it at position `q` -/
theorem flush_blockAt (cd : Codec) (bs : Nat) (c : Coder) (dso : List Nat) (q : Nat)
    (B : List Doc) (hB : Bdry bs c dso q) :
    let c1 := Coder.flush cd { c with buf := c.buf ++ recs B, n := c.n + B.length }
    BlockAt cd c1.w c1.offsets q B := by
  intro c1
  by_cases hne : B = []
  · subst hne
    have hc1 : c1 = { c with n := c.n + 0, offsets := c.offsets ++ [c.bytes] } := by
      show Coder.flush cd _ = _
      rw [flush_empty _ _ (by simp [hB.buf, recs])]
      simp [recs, hB.buf]
    refine ⟨c.bytes, ?_, ?_, ?_, ?_⟩
    · rw [hc1]; exact getElem?_append_of_some _ hB.offsLast
    · rw [hc1]
      show (c.offsets ++ _)[q + 1]? = _
      rw [List.getElem?_append_right (by rw [hB.offsLen]; omega), hB.offsLen]
      simp [Zs]
    · rw [hc1]; simp [Zs, hB.bytes]
    · simp [Zs]
  · have hblk := recs_ne_nil hne
    have hc1 : c1 =
        { c with
          w := c.w ++ cd.Z (recs B),
          bytes := c.bytes + (cd.Z (recs B)).length, buf := [],
          n := c.n + B.length,
          offsets := c.offsets ++ [c.bytes + (cd.Z (recs B)).length] } := by
      show Coder.flush cd _ = _
      rw [flush_nonempty _ _ (by simpa [hB.buf] using hblk)]
      simp [hB.buf]
    have hz : Zs cd B = cd.Z (recs B) := by simp [Zs, hne]
    refine ⟨c.bytes, ?_, ?_, ?_, ?_⟩
    · rw [hc1]; exact getElem?_append_of_some _ hB.offsLast
    · rw [hc1, hz]
      show (c.offsets ++ _)[q + 1]? = _
      rw [List.getElem?_append_right (by rw [hB.offsLen]; omega), hB.offsLen]
      simp
    · rw [hc1, hz]; simp [hB.bytes]
    · rw [hc1, hz]; simp [hB.bytes]

/-- Every block can be found in what the coder wrote (started at a block boundary). -/
theorem writeDocs_blocks (cd : Codec) (bs : Nat) (hbs : 0 < bs) : ∀ (m : Nat) (docs : List Doc),
    docs.length ≤ m → ∀ (c : Coder) (dso : List Nat) (q : Nat), Bdry bs c dso q →
    ∀ (i : Nat), i ≤ docs.length / bs →
      BlockAt cd ((writeDocs cd docs c dso).1.write cd).w
        ((writeDocs cd docs c dso).1.write cd).offsets (q + i) (blockDocs bs docs i) := by
  intro m
  induction m with
  | zero =>
    intro docs hm c dso q hB i hi
    have : docs = [] := List.length_eq_zero_iff.mp (by omega)
    subst this
    have hi0 : i = 0 := by simpa using hi
    subst hi0
    have := flush_blockAt cd bs c dso q [] hB
    simp only [recs, List.map_nil, List.flatten_nil, List.append_nil, List.length_nil,
      Nat.add_zero] at this
    simp only [writeDocs, blockDocs, List.drop_nil, List.take_nil, Nat.add_zero]
    rw [write_offsets, write_w]
    exact this.mono' ⟨_, rfl⟩ ⟨[], by simp⟩
  | succ m ih =>
    intro docs hm c dso q hB i hi
    by_cases hlt : docs.length < bs
    · -- the last, partial block: flushed by `Write`
      have hi0 : i = 0 := by
        have := Nat.div_eq_of_lt hlt; omega
      subst hi0
      have hw := writeDocs_inBlock cd docs c dso q 0 (by simp [hB.n, hB.cs]) (by simp [hB.cs]; omega)
      have h1 := flush_blockAt cd bs c dso q docs hB
      have hb : blockDocs bs docs 0 = docs := by
        simp only [blockDocs, Nat.zero_mul, List.drop_zero]
        exact List.take_of_length_le (by omega)
      rw [hw, write_offsets, write_w, hb, Nat.add_zero]
      exact h1.mono' ⟨_, rfl⟩ ⟨[], by simp [recs]⟩
    · -- a complete block, then the rest
      have hlen : (docs.take bs).length = bs := by simp; omega
      have hsplit : docs = docs.take bs ++ docs.drop bs := (List.take_append_drop bs docs).symm
      have htne : docs.take bs ≠ [] := by
        intro h; rw [h] at hlen; simp at hlen; omega
      have hw1 := writeDocs_closeBlock cd (docs.take bs) c dso q 0 (by simp [hB.n, hB.cs])
        (by rw [hlen, hB.cs]; omega) htne
      obtain ⟨_, hB1⟩ := flush_block cd bs c dso q (docs.take bs) hB htne (by omega)
      have hB1 := hB1 hlen
      have hw : writeDocs cd docs c dso =
          writeDocs cd (docs.drop bs) (writeDocs cd (docs.take bs) c dso).1
            (writeDocs cd (docs.take bs) c dso).2 := by
        conv => lhs; rw [hsplit]
        exact writeDocs_append cd _ _ c dso
      rw [hw, hw1]
      cases i with
      | zero =>
        have h1 := flush_blockAt cd bs c dso q (docs.take bs) hB
        have hb : blockDocs bs docs 0 = docs.take bs := by
          simp [blockDocs]
        rw [hb, Nat.add_zero]
        exact blockAt_after cd _ _ _ h1
      | succ i =>
        have hdiv : docs.length / bs = (docs.length - bs) / bs + 1 := by
          rw [Nat.div_eq docs.length bs, if_pos ⟨hbs, by omega⟩]
        have := ih (docs.drop bs) (by simp; omega) _ _ (q + 1) hB1 i
          (by simp only [List.length_drop]; omega)
        have hb : blockDocs bs (docs.drop bs) i = blockDocs bs docs (i + 1) := by
          simp only [blockDocs, List.drop_drop]
          congr 2
          rw [Nat.add_mul]; omega
        rw [hb] at this
        rw [show q + (i + 1) = q + 1 + i by omega]
        exact this

/-- the blocks cover the documents -/
theorem blocks_flatten (bs : Nat) (hbs : 0 < bs) : ∀ (m : Nat) (docs : List Doc),
    docs.length ≤ m →
    (List.range (docs.length / bs + 1)).flatMap (blockDocs bs docs) = docs := by
  intro m
  induction m with
  | zero =>
    intro docs hm
    have : docs = [] := List.length_eq_zero_iff.mp (by omega)
    subst this
    simp [blockDocs]
  | succ m ih =>
    intro docs hm
    by_cases hlt : docs.length < bs
    · rw [Nat.div_eq_of_lt hlt]
      simp only [Nat.zero_add, List.range_one, List.flatMap_cons, List.flatMap_nil,
        List.append_nil, blockDocs, Nat.zero_mul, List.drop_zero]
      exact List.take_of_length_le (by omega)
    · have hdiv : docs.length / bs = (docs.length - bs) / bs + 1 := by
        rw [Nat.div_eq docs.length bs, if_pos ⟨hbs, by omega⟩]
      rw [hdiv, List.range_succ_eq_map, List.flatMap_cons, List.flatMap_map]
      have h0 : blockDocs bs docs 0 = docs.take bs := by simp [blockDocs]
      have hs : ∀ i, blockDocs bs docs (i + 1) = blockDocs bs (docs.drop bs) i := by
        intro i
        simp only [blockDocs, List.drop_drop]
        congr 2
        rw [Nat.add_mul]; omega
      rw [h0]
      have := ih (docs.drop bs) (by simp; omega)
      simp only [List.length_drop] at this
      simp only [Nat.succ_eq_add_one, hs]
      rw [this, List.take_append_drop]

/-- the blocks of a written stored section: `|docs| / bs + 2` chunk offsets, and block `i` holds
    the documents `i·bs …` -/
theorem writeStoredFields_blocks (cd : Codec) (bs : Nat) (hbs : 0 < bs) (docs : List Doc) :
    ∃ (W : Bytes) (dso : List Nat),
      (writeStoredFields cd bs docs).bytes = W ++ dso.flatMap (be 8) ∧
      (writeStoredFields cd bs docs).chunkOffsets.length = docs.length / bs + 2 ∧
      ∀ i, i ≤ docs.length / bs →
        BlockAt cd W (writeStoredFields cd bs docs).chunkOffsets i (blockDocs bs docs i) := by
  refine ⟨((writeDocs cd docs { chunkSize := bs } []).1.write cd).w,
    (writeDocs cd docs { chunkSize := bs } []).2, rfl, chunkOffsets_length cd bs hbs docs, ?_⟩
  intro i hi
  have := writeDocs_blocks cd bs hbs docs.length docs (Nat.le_refl _) { chunkSize := bs } [] 0
    (Bdry.init bs) i hi
  rw [Nat.zero_add] at this
  exact this

end Ice.Model.Stored
