import IceModel.Lemmas.ErrFlowSem
/-
  Error flow, part 4: restricting a table of flows to the functions of one AREA (write path, read
  path, persistence), still independent of the generated facts: the table is a parameter.
-/
namespace Ice.ErrFlow
open Ice.Bridge.ErrFlow

/-- a table of flows: function name, flat event list -/
abbrev Flows := List (String × List Ev)

/-- the flows of the functions of an area -/
def restrict (fl : Flows) (fns : List String) : Flows := fl.filter (fun f => f.1 ∈ fns)

/-- the structured program of a function of the table (`[]` for an unknown name or a flow that does
    not parse) -/
def progIn (fl : Flows) (name : String) : Prog :=
  match fl.lookup name with
  | some l => (parse l).getD []
  | none => []

/-- the unchecked calls (function, callee) of the functions of an area -/
def uncheckedIn (fl : Flows) (fns : List String) : List (String × String) :=
  (restrict fl fns).flatMap (fun f => (unchecked f.2).map (fun c => (f.1, c)))

/-- the discarded error results (function, callee) of the functions of an area -/
def droppedIn (fl : Flows) (fns : List String) : List (String × String) :=
  (restrict fl fns).flatMap (fun f => (dropped f.2).map (fun c => (f.1, c)))

/-- the functions of an area without / with an unchecked call -/
def coveredIn (fl : Flows) (fns : List String) : List String :=
  ((restrict fl fns).filter (fun f => unchecked f.2 = [])).map (·.1)
def notCoveredIn (fl : Flows) (fns : List String) : List String :=
  ((restrict fl fns).filter (fun f => unchecked f.2 ≠ [])).map (·.1)

theorem lookup_restrict (fl : Flows) (fns : List String) {n : String} (hn : n ∈ fns) :
    (restrict fl fns).lookup n = fl.lookup n := by
  induction fl with
  | nil => rfl
  | cons x xs ih =>
    obtain ⟨k, l⟩ := x
    by_cases hk : k ∈ fns
    · have : restrict ((k, l) :: xs) fns = (k, l) :: restrict xs fns := by
        simp [restrict, hk]
      rw [this]
      simp only [List.lookup]
      split
      · rfl
      · exact ih
    · have : restrict ((k, l) :: xs) fns = restrict xs fns := by
        simp [restrict, hk]
      rw [this, ih]
      have hne : (n == k) = false := by
        simp only [beq_eq_false_iff_ne, ne_eq]
        rintro rfl; exact hk hn
      simp [List.lookup, hne]

/-- for a function of the area, the restricted table and the whole table give the same program -/
theorem progIn_restrict (fl : Flows) (fns : List String) {n : String} (hn : n ∈ fns) :
    progIn (restrict fl fns) n = progIn fl n := by
  simp [progIn, lookup_restrict fl fns hn]

end Ice.ErrFlow
