import IceModel.Model.Bits
namespace Ice.Model

theorem decode_encode1Hit (d n : Nat) (hd : d < 2 ^ 31) (hn : n < 2 ^ 31) :
    decode1Hit (encode1Hit d n) = (d, n) := by
  unfold decode1Hit encode1Hit
  have e1 : (2 ^ 63 + n % 2 ^ 31 * 2 ^ 31 + d % 2 ^ 31) % 2 ^ 31 = d := by omega
  have e2 : (2 ^ 63 + n % 2 ^ 31 * 2 ^ 31 + d % 2 ^ 31) / 2 ^ 31 % 2 ^ 31 = n := by omega
  rw [e1, e2]

/-- a 1-hit value is recognised as such … -/
theorem is1Hit_encode (d n : Nat) : is1Hit (encode1Hit d n) = true := by
  unfold is1Hit encode1Hit two64
  have : (2 ^ 63 + n % 2 ^ 31 * 2 ^ 31 + d % 2 ^ 31) % 2 ^ 64 / 2 ^ 62 = 2 := by omega
  simp [this]

/-- … and a file offset (below 2^62) never is -/
theorem is1Hit_offset (off : Nat) (h : off < 2 ^ 62) : is1Hit off = false := by
  unfold is1Hit two64
  have : off % 2 ^ 64 / 2 ^ 62 = 0 := by omega
  simp [this]

/-- a 1-hit value is never 0 (the writer uses `postingsOffset > 0` as "has postings") -/
theorem encode1Hit_pos (d n : Nat) : 0 < encode1Hit d n := by
  unfold encode1Hit; omega

theorem decode_encodeFreqHasLocs (f : Nat) (b : Bool) (h : f < 2 ^ 63) :
    decodeFreqHasLocs (encodeFreqHasLocs f b) = (f, b) := by
  unfold decodeFreqHasLocs encodeFreqHasLocs two64
  cases b <;> simp <;> omega

theorem encodeFreqHasLocs_lt (f : Nat) (b : Bool) (h : f < 2 ^ 63) :
    encodeFreqHasLocs f b < two64 := by
  unfold encodeFreqHasLocs two64
  cases b <;> simp <;> omega

/-- the chunk size is positive whenever the mode is a valid one and the list is not longer than
    the segment (so `docNum / chunkSize` is defined) -/
theorem getChunkSize_pos (mode card maxDocs cs : Nat) (hm : 1 ≤ mode) (hc : card ≤ maxDocs)
    (hd : 1 ≤ maxDocs) (h : getChunkSize mode card maxDocs = .ok cs) : 1 ≤ cs := by
  unfold getChunkSize at h
  split at h
  · cases h; exact hm
  · split at h
    · cases h
      -- maxDocs / (card/1024 + 1) ≥ 1  because  card/1024 + 1 ≤ maxDocs
      apply (Nat.le_div_iff_mul_le (by omega)).mpr
      omega
    · cases h

/-- every document number of the segment falls into one of the `maxDoc/cs + 1` chunk slots -/
theorem chunk_index_lt (cs d maxDoc : Nat) (h : d ≤ maxDoc) :
    d / cs < maxDoc / cs + 1 := by
  have := Nat.div_le_div_right (c := cs) h
  omega

/-- valid modes never produce an error -/
theorem getChunkSize_ok (mode card maxDocs : Nat) (hm : mode ≤ 1025) :
    ∃ cs, getChunkSize mode card maxDocs = .ok cs := by
  unfold getChunkSize
  split
  · exact ⟨_, rfl⟩
  · split
    · exact ⟨_, rfl⟩
    · omega

end Ice.Model
