import IceModel.Model.Iter
/-
  Lemmas about the entry-level iterator model (`IceModel/Model/Iter.lean`) used by property C05.
-/
namespace Ice.Model.Iter
open Ice Ice.Spec

/-- strictly ascending by document number -/
def SortedP (P : List Posting) : Prop := P.Pairwise (fun a b => a.doc < b.doc)

/-- membership of a posting in chunk `c` -/
def inCh (cs c : Nat) : Posting → Bool := fun p => p.doc / cs == c

theorem chunkOf_eq (cs : Nat) (P : List Posting) (c : Nat) :
    chunkOf cs P c = P.filter (inCh cs c) := rfl

theorem inCh_self (cs : Nat) (p : Posting) : inCh cs (p.doc / cs) p = true := by
  simp [inCh]

/-! ### splitting the remaining postings at the target -/

theorem split_dropWhile (lv : Posting → Bool) (d : Nat) :
    ∀ (R : List Posting), SortedP R → ∀ (p : Posting) (Lr : List Posting),
      (R.filter lv).dropWhile (fun p => p.doc < d) = p :: Lr →
      ∃ sk R', R = sk ++ p :: R' ∧ Lr = R'.filter lv ∧ lv p = true ∧ d ≤ p.doc ∧
        (∀ q ∈ sk, q.doc < p.doc) ∧ (∀ q ∈ sk, lv q = true → q.doc < d) := by
  intro R
  induction R with
  | nil => intro _ p Lr h; simp at h
  | cons q Rt ih =>
    intro hs p Lr h
    have hs' : SortedP Rt := (List.pairwise_cons.mp hs).2
    have hq : ∀ x ∈ Rt, q.doc < x.doc := (List.pairwise_cons.mp hs).1
    cases hl : lv q with
    | false =>
      rw [List.filter_cons_of_neg (by simp [hl])] at h
      obtain ⟨sk, R', h1, h2, h3, h4, h5, h6⟩ := ih hs' p Lr h
      refine ⟨q :: sk, R', by simp [h1], h2, h3, h4, ?_, ?_⟩
      · intro x hx
        rcases List.mem_cons.mp hx with rfl | hx
        · apply hq; rw [h1]; simp
        · exact h5 x hx
      · intro x hx hlx
        rcases List.mem_cons.mp hx with rfl | hx
        · rw [hl] at hlx; cases hlx
        · exact h6 x hx hlx
    | true =>
      rw [List.filter_cons_of_pos (by simp [hl]), List.dropWhile_cons] at h
      by_cases hd : q.doc < d
      · simp only [hd, decide_true, if_true] at h
        obtain ⟨sk, R', h1, h2, h3, h4, h5, h6⟩ := ih hs' p Lr h
        refine ⟨q :: sk, R', by simp [h1], h2, h3, h4, ?_, ?_⟩
        · intro x hx
          rcases List.mem_cons.mp hx with rfl | hx
          · apply hq; rw [h1]; simp
          · exact h5 x hx
        · intro x hx hlx
          rcases List.mem_cons.mp hx with rfl | hx
          · exact hd
          · exact h6 x hx hlx
      · simp only [hd, decide_false] at h
        simp at h
        obtain ⟨rfl, rfl⟩ := h
        exact ⟨[], Rt, by simp, rfl, hl, by omega, by simp, by simp⟩

/-! ### frame: what the reader operations leave alone -/

structure Same (i j : It) : Prop where
  cs : j.cs = i.cs
  P : j.P = i.P
  fl : j.fl = i.fl
  all : j.all = i.all
  act : j.act = i.act
  clean : j.clean = i.clean

theorem Same.refl (i : It) : Same i i := ⟨rfl, rfl, rfl, rfl, rfl, rfl⟩

theorem Same.trans {i j k : It} (h1 : Same i j) (h2 : Same j k) : Same i k :=
  ⟨h2.cs.trans h1.cs, h2.P.trans h1.P, h2.fl.trans h1.fl, h2.all.trans h1.all,
   h2.act.trans h1.act, h2.clean.trans h1.clean⟩

/-- the readers stand in chunk `c` exactly in front of the entries of `rem` -/
structure Ready (cs : Nat) (j : It) (rem : List Posting) (c : Nat) : Prop where
  csEq : j.cs = cs
  cur : j.currChunk = c
  fn : j.fnR = some (rem.filter (inCh cs c))
  lc : j.fl.incL = true → j.lcR = (rem.filter (inCh cs c)).filter hasLocs

/-- either chunk `c` still has to be loaded and none of its entries lies before `rem`, or the
    readers are `Ready` -/
structure LoopInv (cs : Nat) (j : It) (rem : List Posting) (c : Nat) : Prop where
  csEq : j.cs = cs
  fresh : needLoad j c = true → chunkOf cs j.P c = rem.filter (inCh cs c)
  ready : needLoad j c = false → Ready cs j rem c

theorem Ready.needLoad {cs : Nat} {j : It} {rem : List Posting} {c : Nat} (h : Ready cs j rem c) :
    needLoad j c = false := by
  simp [Iter.needLoad, h.cur, h.fn]

theorem Ready.loopInv {cs : Nat} {j : It} {rem : List Posting} {c : Nat} (h : Ready cs j rem c) :
    LoopInv cs j rem c :=
  ⟨h.csEq, fun hn => (by rw [h.needLoad] at hn; cases hn), fun _ => h⟩

/-- an entry outside chunk `c` can be dropped from the remainder -/
theorem LoopInv.skip {cs : Nat} {j : It} {q : Posting} {rem : List Posting} {c : Nat}
    (h : LoopInv cs j (q :: rem) c) (hq : inCh cs c q = false) : LoopInv cs j rem c := by
  have e : (q :: rem).filter (inCh cs c) = rem.filter (inCh cs c) :=
    List.filter_cons_of_neg (by simp [hq])
  refine ⟨h.csEq, ?_, ?_⟩
  · intro hn; rw [h.fresh hn, e]
  · intro hn
    have r := h.ready hn
    exact ⟨r.csEq, r.cur, by rw [r.fn, e], fun hl => by rw [r.lc hl, e]⟩

/-- the load-if-needed step -/
def ensure (j : It) (c : Nat) : It := if needLoad j c then loadChunk j c else j

theorem ensure_same (j : It) (c : Nat) : Same j (ensure j c) := by
  unfold ensure
  split
  · exact ⟨rfl, rfl, rfl, rfl, rfl, rfl⟩
  · exact Same.refl j

theorem ensure_ready {cs : Nat} {j : It} {rem : List Posting} {c : Nat} (hfn : j.fl.incFN = true)
    (h : LoopInv cs j rem c) (hne : rem.filter (inCh cs c) ≠ []) : Ready cs (ensure j c) rem c := by
  unfold ensure
  cases hn : needLoad j c with
  | false => simpa using h.ready hn
  | true =>
    have e := h.fresh hn
    have hc := h.csEq
    simp only [if_true]
    refine ⟨hc, rfl, ?_, ?_⟩
    · simp [loadChunk, hfn, hc, e, hne]
    · intro hl
      have hl' : j.fl.incL = true := hl
      simp [loadChunk, hl', hc, e]

/-- the consuming part of `currChunkNext` -/
def consume (i : It) : Option It :=
  match i.fnR with
  | none => none
  | some [] => none
  | some (e :: r) =>
    let i := { i with fnR := some r }
    if i.fl.incL && hasLocs e then
      match i.lcR with
      | [] => none
      | _ :: lr => some { i with lcR := lr }
    else some i

theorem currChunkNext_eq (i : It) (c : Nat) : currChunkNext i c = consume (ensure i c) := rfl

theorem consume_ready {cs : Nat} {j : It} {q : Posting} {rem : List Posting} {c : Nat}
    (h : Ready cs j (q :: rem) c) (hq : inCh cs c q = true) :
    ∃ j', consume j = some j' ∧ Ready cs j' rem c ∧ Same j j' := by
  have e : (q :: rem).filter (inCh cs c) = q :: rem.filter (inCh cs c) :=
    List.filter_cons_of_pos (by simp [hq])
  have hfn := h.fn
  rw [e] at hfn
  unfold consume
  rw [hfn]
  simp only
  cases hl : j.fl.incL with
  | false =>
    simp only [Bool.false_and]
    refine ⟨_, rfl, ⟨h.csEq, h.cur, rfl, ?_⟩, ⟨rfl, rfl, rfl, rfl, rfl, rfl⟩⟩
    intro hl'; simp [hl] at hl'
  | true =>
    have hlc := h.lc hl
    rw [e] at hlc
    cases hh : hasLocs q with
    | false =>
      simp only [Bool.and_false]
      refine ⟨_, rfl, ⟨h.csEq, h.cur, rfl, ?_⟩, ⟨rfl, rfl, rfl, rfl, rfl, rfl⟩⟩
      intro _
      show j.lcR = _
      rw [hlc, List.filter_cons_of_neg (by simp [hh])]
    | true =>
      simp only [Bool.and_self]
      rw [List.filter_cons_of_pos (by simp [hh])] at hlc
      rw [hlc]
      refine ⟨_, rfl, ⟨h.csEq, h.cur, rfl, ?_⟩, ⟨rfl, rfl, rfl, rfl, rfl, rfl⟩⟩
      intro _; rfl

theorem currChunkNext_spec {cs : Nat} {j : It} {q : Posting} {rem : List Posting} {c : Nat}
    (hfn : j.fl.incFN = true) (h : LoopInv cs j (q :: rem) c) (hq : inCh cs c q = true) :
    ∃ j', currChunkNext j c = some j' ∧ Ready cs j' rem c ∧ Same j j' := by
  have hne : (q :: rem).filter (inCh cs c) ≠ [] := by
    rw [List.filter_cons_of_pos (by simp [hq])]; simp
  have hr := ensure_ready hfn h hne
  have hs := ensure_same j c
  obtain ⟨j', h1, h2, h3⟩ := consume_ready hr hq
  exact ⟨j', by rw [currChunkNext_eq, h1], h2, hs.trans h3⟩

/-! ### chunk arithmetic -/

theorem ge_chunk_iff {cs : Nat} (hcs : 0 < cs) {a b : Nat} (h : a < b) :
    a ≥ (b / cs) * cs ↔ a / cs = b / cs := by
  constructor
  · intro h'
    have h1 : b / cs ≤ a / cs := (Nat.le_div_iff_mul_le hcs).mpr h'
    have h2 : a / cs ≤ b / cs := Nat.div_le_div_right (by omega)
    omega
  · intro e
    rw [← e]
    exact Nat.div_mul_le_self a cs

theorem map_doc_cons_exists (sk : List Posting) (p : Posting) (R' : List Posting) :
    ∃ a r, (sk ++ p :: R').map (·.doc) = a :: r := by
  cases sk with
  | nil => exact ⟨_, _, rfl⟩
  | cons q sk' => exact ⟨_, _, rfl⟩

/-! ### the exclusion-path loop -/

theorem exclLoop_done (i : It) (n c : Nat) (rest : List Nat) :
    exclLoop i n c n rest = some (i, rest) := by
  rw [exclLoop]; simp

theorem exclLoop_step (i : It) (n c allN a : Nat) (r : List Nat) (h : allN ≠ n) :
    exclLoop i n c allN (a :: r) =
      match (if i.fl.incFN && allN ≥ c * i.cs then currChunkNext i c else some i) with
      | none => none
      | some i' => exclLoop i' n c a r := by
  rw [exclLoop, if_neg (by simpa using h)]
  cases (if i.fl.incFN && allN ≥ c * i.cs then currChunkNext i c else some i) <;> rfl

theorem exclLoop_spec {cs : Nat} (hcs : 0 < cs) (p : Posting) (R' : List Posting) :
    ∀ (sk : List Posting) (j : It), j.cs = cs → (∀ q ∈ sk, q.doc < p.doc) →
      (j.fl.incFN = true → LoopInv cs j (sk ++ p :: R') (p.doc / cs)) →
      ∀ a r, a :: r = (sk ++ p :: R').map (·.doc) →
      ∃ j', exclLoop j p.doc (p.doc / cs) a r = some (j', R'.map (·.doc)) ∧ Same j j' ∧
        (j.fl.incFN = true → LoopInv cs j' (p :: R') (p.doc / cs)) := by
  intro sk
  induction sk with
  | nil =>
    intro j _ _ hinv a r har
    simp at har
    obtain ⟨rfl, rfl⟩ := har
    exact ⟨j, exclLoop_done _ _ _ _, Same.refl j, hinv⟩
  | cons q sk' ih =>
    intro j hj hlt hinv a r har
    simp only [List.cons_append, List.map_cons, List.cons.injEq] at har
    obtain ⟨rfl, rfl⟩ := har
    have hq : q.doc < p.doc := hlt q (by simp)
    have hlt' : ∀ x ∈ sk', x.doc < p.doc := fun x hx => hlt x (by simp [hx])
    obtain ⟨a', r', har'⟩ := map_doc_cons_exists sk' p R'
    rw [har', exclLoop_step _ _ _ _ _ _ (by omega)]
    cases hfn : j.fl.incFN with
    | false =>
      simp only [Bool.false_and]
      obtain ⟨j', h1, h2, h3⟩ := ih j hj hlt' (by simp [hfn]) a' r' har'.symm
      exact ⟨j', h1, h2, by simp⟩
    | true =>
      have hinv' := hinv hfn
      cases hin : inCh cs (p.doc / cs) q with
      | false =>
        have : ¬ (q.doc ≥ p.doc / cs * j.cs) := by
          rw [hj, ge_chunk_iff hcs hq]
          simpa [inCh] using hin
        simp only [this, decide_false, Bool.and_false]
        have hfn0 : j.fl.incFN = true := hfn
        obtain ⟨j', h1, h2, h3⟩ := ih j hj hlt' (fun _ => hinv'.skip hin) a' r' har'.symm
        exact ⟨j', h1, h2, fun _ => h3 hfn0⟩
      | true =>
        have : q.doc ≥ p.doc / cs * j.cs := by
          rw [hj, ge_chunk_iff hcs hq]
          simpa [inCh] using hin
        simp only [this, decide_true, Bool.and_self, if_true]
        obtain ⟨j1, e1, r1, s1⟩ := currChunkNext_spec hfn hinv' hin
        rw [e1]
        simp only
        have hfn1 : j1.fl.incFN = true := by rw [s1.fl]; exact hfn
        obtain ⟨j', h1, h2, h3⟩ := ih j1 (s1.cs.trans hj) hlt' (fun _ => r1.loopInv) a' r' har'.symm
        exact ⟨j', h1, s1.trans h2, fun _ => h3 hfn1⟩

/-! ### the clean-path loops -/

theorem repeatSkip_spec {cs : Nat} (p : Posting) (R' : List Posting) (c : Nat) :
    ∀ (sk : List Posting) (j : It), j.fl.incFN = true → LoopInv cs j (sk ++ p :: R') c →
      ∃ j', repeatSkip (sk.filter (inCh cs c)).length j c = some j' ∧ Same j j' ∧
        LoopInv cs j' (p :: R') c := by
  intro sk
  induction sk with
  | nil => intro j _ h; exact ⟨j, rfl, Same.refl j, h⟩
  | cons q sk' ih =>
    intro j hfn h
    cases hin : inCh cs c q with
    | false =>
      rw [List.filter_cons_of_neg (by simp [hin])]
      exact ih j hfn (h.skip hin)
    | true =>
      rw [List.filter_cons_of_pos (by simp [hin]), List.length_cons]
      obtain ⟨j1, e1, r1, s1⟩ := currChunkNext_spec hfn h hin
      have hfn1 : j1.fl.incFN = true := by rw [s1.fl]; exact hfn
      obtain ⟨j', h1, h2, h3⟩ := ih j1 hfn1 r1.loopInv
      refine ⟨j', ?_, s1.trans h2, h3⟩
      simp only [repeatSkip, e1]
      exact h1

theorem cleanLoop_done (cs d n c s : Nat) (rest : List Nat) (h : ¬ n < d) :
    cleanLoop cs d n c s rest = (n, c, s, rest) := by
  rw [cleanLoop.eq_def]; simp only [if_neg h]

theorem cleanLoop_nil (cs d n c s : Nat) (h : n < d) :
    cleanLoop cs d n c s [] = (n, c, s, []) := by
  rw [cleanLoop.eq_def]; simp only [if_pos h]

theorem cleanLoop_step (cs d n c s m : Nat) (r : List Nat) (h : n < d) :
    cleanLoop cs d n c s (m :: r) =
      cleanLoop cs d m (m / cs) (if m / cs != c then 0 else s + 1) r := by
  rw [cleanLoop.eq_def]; simp only [if_pos h]

theorem cleanLoop_notfound (cs d : Nat) :
    ∀ (R : List Posting) (n c s : Nat), n < d → (∀ q ∈ R, q.doc < d) →
      ∃ n' c' s', cleanLoop cs d n c s (R.map (·.doc)) = (n', c', s', []) ∧ n' < d := by
  intro R
  induction R with
  | nil => intro n c s h _; exact ⟨n, c, s, cleanLoop_nil _ _ _ _ _ h, h⟩
  | cons q Rt ih =>
    intro n c s h hall
    rw [List.map_cons, cleanLoop_step _ _ _ _ _ _ _ h]
    exact ih _ _ _ (hall q (by simp)) (fun x hx => hall x (by simp [hx]))

theorem cleanLoop_found {cs d : Nat} (p : Posting) (R' : List Posting) (hp : d ≤ p.doc) :
    ∀ (sk done : List Posting), (∀ q ∈ sk, q.doc < d) → SortedP (done ++ (sk ++ p :: R')) →
      ∀ a r, a :: r = (sk ++ p :: R').map (·.doc) →
      cleanLoop cs d a (a / cs) ((done.filter (inCh cs (a / cs))).length) r =
        (p.doc, p.doc / cs, ((done ++ sk).filter (inCh cs (p.doc / cs))).length,
          R'.map (·.doc)) := by
  intro sk
  induction sk with
  | nil =>
    intro done _ _ a r har
    simp at har
    obtain ⟨rfl, rfl⟩ := har
    rw [cleanLoop_done _ _ _ _ _ _ (by omega)]
    simp
  | cons q sk' ih =>
    intro done hlt hs a r har
    simp only [List.cons_append, List.map_cons, List.cons.injEq] at har
    obtain ⟨rfl, rfl⟩ := har
    have hq : q.doc < d := hlt q (by simp)
    have hlt' : ∀ x ∈ sk', x.doc < d := fun x hx => hlt x (by simp [hx])
    obtain ⟨a', r', har'⟩ := map_doc_cons_exists sk' p R'
    obtain ⟨y, rest, hy, hya, _⟩ := List.map_eq_cons_iff.mp har'
    rw [har', cleanLoop_step _ _ _ _ _ _ _ hq]
    have hs' : SortedP ((done ++ [q]) ++ (sk' ++ p :: R')) := by
      simpa [List.append_assoc] using hs
    have key : (if a' / cs != q.doc / cs then 0
          else (done.filter (inCh cs (q.doc / cs))).length + 1) =
        ((done ++ [q]).filter (inCh cs (a' / cs))).length := by
      by_cases hc : a' / cs = q.doc / cs
      · simp [hc, List.filter_append, inCh]
      · have hsort : SortedP (done ++ q :: y :: rest) := by
          rw [← hy]; simpa using hs
        have hqy : q.doc < a' := by
          rw [← hya]
          have := (List.pairwise_append.mp hsort).2.1
          exact (List.pairwise_cons.mp this).1 y (by simp)
        have hdq : ∀ x ∈ done, x.doc < q.doc := fun x hx =>
          (List.pairwise_append.mp hsort).2.2 x hx q (by simp)
        have hle : q.doc / cs ≤ a' / cs := Nat.div_le_div_right (by omega)
        have hnil : (done ++ [q]).filter (inCh cs (a' / cs)) = [] := by
          apply List.filter_eq_nil_iff.mpr
          intro x hx
          have hxq : x.doc ≤ q.doc := by
            rcases List.mem_append.mp hx with hx | hx
            · exact Nat.le_of_lt (hdq x hx)
            · simp at hx; subst hx; exact Nat.le_refl _
          have : x.doc / cs ≤ q.doc / cs := Nat.div_le_div_right hxq
          simp only [inCh, beq_iff_eq]
          omega
        simp [hc, hnil]
    rw [key, ih (done ++ [q]) hlt' hs' a' r' har'.symm]
    simp [List.append_assoc]

/-! ### `nextDoc` by cases -/

theorem nextDoc_act_nil (i : It) (d : Nat) (h : i.act = []) : nextDoc i d = some (none, i) := by
  unfold nextDoc; rw [h]

theorem nextDoc_clean_nofn (i : It) (d : Nat) (hne : i.act ≠ []) (hc : i.clean = true)
    (hfn : i.fl.incFN = false) :
    nextDoc i d = match i.act.dropWhile (· < d) with
      | [] => some (none, { i with act := [], all := [] })
      | n :: r => some (some n, { i with act := r, all := r }) := by
  unfold nextDoc
  cases ha : i.act with
  | nil => exact absurd ha hne
  | cons n0 r0 =>
    simp only [hc, hfn, Bool.not_false, if_true]
    generalize List.dropWhile _ _ = x
    cases x <;> rfl

theorem nextDoc_clean_fn (i : It) (d n0 : Nat) (r0 : List Nat) (ha : i.act = n0 :: r0)
    (hc : i.clean = true) (hfn : i.fl.incFN = true) :
    nextDoc i d = match cleanLoop i.cs d n0 (n0 / i.cs) 0 r0 with
      | (n, nChunk, same, rest) =>
        if n < d then some (none, { i with act := rest, all := rest }) else
        match repeatSkip same { i with act := rest, all := rest } nChunk with
        | none => none
        | some i => some (some n, ensure i nChunk) := by
  unfold nextDoc
  rw [ha]
  simp only [hc, hfn, if_true, Bool.not_true, Bool.false_eq_true, if_false]
  rfl

theorem nextDoc_excl (i : It) (d : Nat) (hne : i.act ≠ []) (hc : i.clean = false) :
    nextDoc i d = match i.act.dropWhile (· < d) with
      | [] => some (none, { i with act := [] })
      | n :: r =>
        match i.all with
        | [] => none
        | allN :: arest =>
          match exclLoop { i with act := r } n (n / i.cs) allN arest with
          | none => none
          | some (j, arest') =>
            some (some n, if j.fl.incFN then ensure { j with all := arest' } (n / i.cs)
                          else { j with all := arest' }) := by
  unfold nextDoc
  cases ha : i.act with
  | nil => exact absurd ha hne
  | cons n0 r0 =>
    simp only [hc, Bool.false_eq_true, if_false]
    cases List.dropWhile (fun x => decide (x < d)) (n0 :: r0) with
    | nil => rfl
    | cons n r =>
      simp only
      cases i.all with
      | nil => rfl
      | cons allN arest =>
        simp only
        generalize exclLoop _ n (n / i.cs) allN arest = x
        cases x with
        | none => rfl
        | some pr =>
          obtain ⟨j, arest'⟩ := pr
          simp only
          cases hfn : j.fl.incFN <;> simp [ensure]

theorem nextDoc_excl_none (i : It) (d : Nat) (hne : i.act ≠ []) (hc : i.clean = false)
    (hact : i.act.dropWhile (· < d) = []) :
    nextDoc i d = some (none, { i with act := [] }) := by
  rw [nextDoc_excl i d hne hc, hact]

theorem nextDoc_excl_found (i : It) (d n : Nat) (r : List Nat) (allN : Nat) (arest : List Nat)
    (j : It) (arest' : List Nat) (hc : i.clean = false)
    (hact : i.act.dropWhile (· < d) = n :: r) (hall : i.all = allN :: arest)
    (hloop : exclLoop { i with act := r } n (n / i.cs) allN arest = some (j, arest')) :
    nextDoc i d = some (some n, if j.fl.incFN then ensure { j with all := arest' } (n / i.cs)
                                else { j with all := arest' }) := by
  have hne : i.act ≠ [] := by intro e; rw [e] at hact; simp at hact
  rw [nextDoc_excl i d hne hc, hact]
  simp only
  split
  · rename_i heq; rw [hall] at heq; cases heq
  · rename_i a' r' heq
    rw [hall] at heq
    cases heq
    rw [hloop]

theorem nextDoc_clean_fn_none (i : It) (d n0 : Nat) (r0 : List Nat) (n c same : Nat)
    (rest : List Nat) (ha : i.act = n0 :: r0) (hc : i.clean = true) (hfn : i.fl.incFN = true)
    (hloop : cleanLoop i.cs d n0 (n0 / i.cs) 0 r0 = (n, c, same, rest)) (hn : n < d) :
    nextDoc i d = some (none, { i with act := rest, all := rest }) := by
  rw [nextDoc_clean_fn i d n0 r0 ha hc hfn, hloop]
  simp only [hn, if_true]

theorem nextDoc_clean_fn_found (i : It) (d n0 : Nat) (r0 : List Nat) (n c same : Nat)
    (rest : List Nat) (j : It) (ha : i.act = n0 :: r0) (hc : i.clean = true)
    (hfn : i.fl.incFN = true)
    (hloop : cleanLoop i.cs d n0 (n0 / i.cs) 0 r0 = (n, c, same, rest)) (hn : ¬ n < d)
    (hskip : repeatSkip same { i with act := rest, all := rest } c = some j) :
    nextDoc i d = some (some n, ensure j c) := by
  rw [nextDoc_clean_fn i d n0 r0 ha hc hfn, hloop]
  simp only [hn, if_false]
  rw [hskip]

/-! ### the invariant -/

/-- reader part of the invariant: `Pre` are the postings already handed out by `all`, `R` the
    ones still ahead -/
structure RdInv (cs : Nat) (i : It) (Pre R : List Posting) : Prop where
  none_case : i.fnR = none → Pre = []
  some_case : i.fnR ≠ none →
    (∀ q ∈ Pre, q.doc / cs ≤ i.currChunk) ∧ (∀ q ∈ R, i.currChunk ≤ q.doc / cs) ∧
      Ready cs i R i.currChunk

theorem RdInv.loopInv {cs : Nat} {i : It} {Pre R : List Posting} (hcs : i.cs = cs)
    (hP : i.P = Pre ++ R) (h : RdInv cs i Pre R) {p : Posting} (hp : p ∈ R) :
    LoopInv cs i R (p.doc / cs) := by
  refine ⟨hcs, ?_, ?_⟩
  · intro hn
    rw [chunkOf_eq, hP, List.filter_append]
    cases hf : i.fnR with
    | none => rw [h.none_case hf]; simp
    | some es =>
      obtain ⟨b1, b2, _⟩ := h.some_case (by simp [hf])
      have hne : i.currChunk ≠ p.doc / cs := by simpa [needLoad, hf] using hn
      have hlt : i.currChunk < p.doc / cs := by have := b2 p hp; omega
      have hnil : Pre.filter (inCh cs (p.doc / cs)) = [] := by
        apply List.filter_eq_nil_iff.mpr
        intro x hx
        have := b1 x hx
        simp only [inCh, beq_iff_eq]
        omega
      rw [hnil]; simp
  · intro hn
    have hh : i.currChunk = p.doc / cs ∧ i.fnR ≠ none := by
      cases hf : i.fnR <;> simp [needLoad, hf] at hn ⊢ <;> exact hn
    obtain ⟨_, _, rd⟩ := h.some_case hh.2
    rw [← hh.1]; exact rd

theorem act_dropWhile (l : List Posting) (d : Nat) :
    (l.map (·.doc)).dropWhile (· < d) = (l.dropWhile (fun p => p.doc < d)).map (·.doc) := by
  rw [List.dropWhile_map]; rfl

structure Inv (cs : Nat) (P : List Posting) (fl : RFlags) (lv : Posting → Bool) (cl : Bool)
    (i : It) (L Pre R : List Posting) : Prop where
  csEq : i.cs = cs
  PEq : i.P = P
  flEq : i.fl = fl
  clEq : i.clean = cl
  split : P = Pre ++ R
  all : i.all = R.map (·.doc)
  act : i.act = (R.filter lv).map (·.doc)
  LEq : L = R.filter lv
  rd : fl.incFN = true → RdInv cs i Pre R

/-- the state after `nextDoc` has found posting `p`; `R'` is what is still ahead -/
structure Post (cs : Nat) (P : List Posting) (fl : RFlags) (lv : Posting → Bool) (cl : Bool)
    (i' : It) (p : Posting) (R' : List Posting) : Prop where
  csEq : i'.cs = cs
  PEq : i'.P = P
  flEq : i'.fl = fl
  clEq : i'.clean = cl
  all : i'.all = R'.map (·.doc)
  act : i'.act = (R'.filter lv).map (·.doc)
  rd : fl.incFN = true → Ready cs i' (p :: R') (p.doc / cs)

theorem nextDoc_found_excl {cs : Nat} {P : List Posting} {fl : RFlags} {lv : Posting → Bool}
    {i : It} {L Pre R : List Posting} {d : Nat} {p : Posting} {Lr : List Posting}
    (hcs : 0 < cs) (hP : SortedP P) (h : Inv cs P fl lv false i L Pre R)
    (hd : L.dropWhile (fun p => p.doc < d) = p :: Lr) :
    ∃ i' sk R', nextDoc i d = some (some p.doc, i') ∧ R = sk ++ p :: R' ∧ Lr = R'.filter lv ∧
      (∀ q ∈ sk, q.doc < p.doc) ∧ Post cs P fl lv false i' p R' := by
  have hsR : SortedP R := by
    have := hP; rw [h.split] at this
    exact (List.pairwise_append.mp this).2.1
  rw [h.LEq] at hd
  obtain ⟨sk, R', hR, hLr, hlvp, hdp, hsk, _⟩ := split_dropWhile lv d R hsR p Lr hd
  have hact : i.act.dropWhile (· < d) = p.doc :: Lr.map (·.doc) := by
    rw [h.act, act_dropWhile, hd]; rfl
  have hne : i.act ≠ [] := by intro e; rw [e] at hact; simp at hact
  obtain ⟨a, r, har⟩ := map_doc_cons_exists sk p R'
  have hall : i.all = a :: r := by rw [h.all, hR, har]
  have hinv : ({ i with act := Lr.map (·.doc) } : It).fl.incFN = true →
      LoopInv cs { i with act := Lr.map (·.doc) } (sk ++ p :: R') (p.doc / cs) := by
    intro hfn
    have hfn' : fl.incFN = true := by rw [← h.flEq]; exact hfn
    have := (h.rd hfn').loopInv h.csEq (h.PEq.trans h.split) (p := p) (by rw [hR]; simp)
    rw [hR] at this
    exact ⟨this.csEq, this.fresh, fun hn =>
      let r := this.ready hn; ⟨r.csEq, r.cur, r.fn, r.lc⟩⟩
  obtain ⟨j', e1, s1, l1⟩ :=
    exclLoop_spec hcs p R' sk { i with act := Lr.map (·.doc) } h.csEq hsk hinv a r har.symm
  rw [← h.csEq] at e1
  rw [nextDoc_excl_found i d _ _ _ _ _ _ h.clEq hact hall e1, h.csEq]
  refine ⟨_, sk, R', rfl, hR, hLr, hsk, ?_⟩
  cases hfn : j'.fl.incFN with
  | false =>
    simp only [Bool.false_eq_true, if_false]
    refine ⟨s1.cs.trans h.csEq, s1.P.trans h.PEq, s1.fl.trans h.flEq, s1.clean.trans h.clEq, rfl,
      ?_, ?_⟩
    · show j'.act = _
      rw [s1.act, hLr]
    · intro hf
      have : j'.fl.incFN = true := by rw [s1.fl]; show i.fl.incFN = true; rw [h.flEq]; exact hf
      rw [hfn] at this; cases this
  | true =>
    simp only [if_true]
    have hfn0 : ({ i with act := Lr.map (·.doc) } : It).fl.incFN = true := by
      rw [← s1.fl]; exact hfn
    have l2 := l1 hfn0
    have l3 : LoopInv cs { j' with all := R'.map (·.doc) } (p :: R') (p.doc / cs) :=
      ⟨l2.csEq, l2.fresh, fun hn => let r := l2.ready hn; ⟨r.csEq, r.cur, r.fn, r.lc⟩⟩
    have hne' : (p :: R').filter (inCh cs (p.doc / cs)) ≠ [] := by
      rw [List.filter_cons_of_pos (inCh_self cs p)]; simp
    have rdy := ensure_ready (j := { j' with all := R'.map (·.doc) }) hfn l3 hne'
    have sm := ensure_same { j' with all := R'.map (·.doc) } (p.doc / cs)
    refine ⟨sm.cs.trans (s1.cs.trans h.csEq), sm.P.trans (s1.P.trans h.PEq),
      sm.fl.trans (s1.fl.trans h.flEq), sm.clean.trans (s1.clean.trans h.clEq), sm.all, ?_,
      fun _ => rdy⟩
    rw [sm.act]
    show j'.act = _
    rw [s1.act, hLr]

theorem filter_all {lv : Posting → Bool} (hlv : ∀ p, lv p = true) (l : List Posting) :
    l.filter lv = l := List.filter_eq_self.mpr (fun a _ => hlv a)

theorem nextDoc_found_clean_nofn {cs : Nat} {P : List Posting} {fl : RFlags} {lv : Posting → Bool}
    {i : It} {L Pre R : List Posting} {d : Nat} {p : Posting} {Lr : List Posting}
    (hP : SortedP P) (hlv : ∀ p, lv p = true) (hfl : fl.incFN = false)
    (h : Inv cs P fl lv true i L Pre R)
    (hd : L.dropWhile (fun p => p.doc < d) = p :: Lr) :
    ∃ i' sk R', nextDoc i d = some (some p.doc, i') ∧ R = sk ++ p :: R' ∧ Lr = R'.filter lv ∧
      (∀ q ∈ sk, q.doc < p.doc) ∧ Post cs P fl lv true i' p R' := by
  have hsR : SortedP R := by
    have := hP; rw [h.split] at this
    exact (List.pairwise_append.mp this).2.1
  rw [h.LEq] at hd
  obtain ⟨sk, R', hR, hLr, hlvp, hdp, hsk, _⟩ := split_dropWhile lv d R hsR p Lr hd
  have hact : i.act.dropWhile (· < d) = p.doc :: Lr.map (·.doc) := by
    rw [h.act, act_dropWhile, hd]; rfl
  have hne : i.act ≠ [] := by intro e; rw [e] at hact; simp at hact
  have hfn : i.fl.incFN = false := by rw [h.flEq]; exact hfl
  rw [nextDoc_clean_nofn i d hne h.clEq hfn, hact]
  simp only
  refine ⟨_, sk, R', rfl, hR, hLr, hsk, ?_⟩
  refine ⟨h.csEq, h.PEq, h.flEq, h.clEq, ?_, ?_, ?_⟩
  · show Lr.map _ = _
    rw [hLr, filter_all hlv]
  · show Lr.map _ = _
    rw [hLr]
  · intro hf; rw [hfl] at hf; cases hf

theorem nextDoc_found_clean_fn {cs : Nat} {P : List Posting} {fl : RFlags} {lv : Posting → Bool}
    {i : It} {L Pre R : List Posting} {d : Nat} {p : Posting} {Lr : List Posting}
    (hP : SortedP P) (hlv : ∀ p, lv p = true) (hfl : fl.incFN = true)
    (h : Inv cs P fl lv true i L Pre R)
    (hd : L.dropWhile (fun p => p.doc < d) = p :: Lr) :
    ∃ i' sk R', nextDoc i d = some (some p.doc, i') ∧ R = sk ++ p :: R' ∧ Lr = R'.filter lv ∧
      (∀ q ∈ sk, q.doc < p.doc) ∧ Post cs P fl lv true i' p R' := by
  have hsR : SortedP R := by
    have := hP; rw [h.split] at this
    exact (List.pairwise_append.mp this).2.1
  rw [h.LEq] at hd
  obtain ⟨sk, R', hR, hLr, hlvp, hdp, hsk, hskd⟩ := split_dropWhile lv d R hsR p Lr hd
  have hskd' : ∀ q ∈ sk, q.doc < d := fun q hq => hskd q hq (hlv q)
  obtain ⟨a, r, har⟩ := map_doc_cons_exists sk p R'
  have hact : i.act = a :: r := by rw [h.act, filter_all hlv, hR, har]
  have hfn : i.fl.incFN = true := by rw [h.flEq]; exact hfl
  have hsort : SortedP ([] ++ (sk ++ p :: R')) := by rw [← hR]; simpa using hsR
  have hloop := cleanLoop_found (cs := cs) (d := d) p R' hdp sk [] hskd' hsort a r har.symm
  simp only [List.filter_nil, List.length_nil, List.nil_append] at hloop
  rw [← h.csEq] at hloop
  have linv : LoopInv cs { i with act := R'.map (·.doc), all := R'.map (·.doc) } (sk ++ p :: R')
      (p.doc / cs) := by
    have := (h.rd hfl).loopInv h.csEq (h.PEq.trans h.split) (p := p) (by rw [hR]; simp)
    rw [hR] at this
    exact ⟨this.csEq, this.fresh, fun hn =>
      let r := this.ready hn; ⟨r.csEq, r.cur, r.fn, r.lc⟩⟩
  obtain ⟨j, e1, s1, l1⟩ := repeatSkip_spec p R' (p.doc / cs) sk
    { i with act := R'.map (·.doc), all := R'.map (·.doc) } hfn linv
  rw [← h.csEq] at e1
  rw [nextDoc_clean_fn_found i d a r _ _ _ _ j hact h.clEq hfn hloop (by omega) e1, h.csEq]
  have hfnj : j.fl.incFN = true := by rw [s1.fl]; exact hfn
  have hne' : (p :: R').filter (inCh cs (p.doc / cs)) ≠ [] := by
    rw [List.filter_cons_of_pos (inCh_self cs p)]; simp
  have rdy := ensure_ready hfnj l1 hne'
  have sm := ensure_same j (p.doc / cs)
  refine ⟨_, sk, R', rfl, hR, hLr, hsk, ?_⟩
  refine ⟨sm.cs.trans (s1.cs.trans h.csEq), sm.P.trans (s1.P.trans h.PEq),
      sm.fl.trans (s1.fl.trans h.flEq), sm.clean.trans (s1.clean.trans h.clEq), ?_, ?_,
      fun _ => rdy⟩
  · rw [sm.all, s1.all]
  · rw [sm.act, s1.act, filter_all hlv]

theorem dropWhile_nil_all {α : Type} (f : α → Bool) :
    ∀ (l : List α), l.dropWhile f = [] → ∀ q ∈ l, f q = true := by
  intro l
  induction l with
  | nil => intro _ q hq; cases hq
  | cons a t ih =>
    intro h q hq
    rw [List.dropWhile_cons] at h
    cases hf : f a with
    | false => simp [hf] at h
    | true =>
      simp only [hf, if_true] at h
      rcases List.mem_cons.mp hq with rfl | hq
      · exact hf
      · exact ih h q hq

theorem nextDoc_none {cs : Nat} {P : List Posting} {fl : RFlags} {lv : Posting → Bool} {cl : Bool}
    {i : It} {L Pre R : List Posting} {d : Nat}
    (hmode : cl = true → ∀ p, lv p = true) (h : Inv cs P fl lv cl i L Pre R)
    (hd : L.dropWhile (fun p => p.doc < d) = []) :
    ∃ i', nextDoc i d = some (none, i') ∧ i'.act = [] := by
  by_cases hne : i.act = []
  · exact ⟨i, nextDoc_act_nil i d hne, hne⟩
  rw [h.LEq] at hd
  have hact : i.act.dropWhile (· < d) = [] := by
    rw [h.act, act_dropWhile, hd]; rfl
  cases hcl : cl with
  | false =>
    have hc : i.clean = false := by rw [h.clEq, hcl]
    exact ⟨_, nextDoc_excl_none i d hne hc hact, rfl⟩
  | true =>
    have hc : i.clean = true := by rw [h.clEq, hcl]
    have hlv := hmode hcl
    cases hfn : i.fl.incFN with
    | false =>
      rw [nextDoc_clean_nofn i d hne hc hfn, hact]
      exact ⟨_, rfl, rfl⟩
    | true =>
      rw [filter_all hlv] at hd
      have hall : ∀ q ∈ R, q.doc < d := by
        intro q hq
        have := dropWhile_nil_all _ R hd q hq
        simpa using this
      cases hR : R with
      | nil =>
        exfalso; apply hne; rw [h.act, hR]; rfl
      | cons q0 Rt =>
        have ha : i.act = q0.doc :: Rt.map (·.doc) := by rw [h.act, filter_all hlv, hR]; rfl
        rw [hR] at hall
        obtain ⟨n', c', s', hl, hn'⟩ := cleanLoop_notfound i.cs d Rt q0.doc (q0.doc / i.cs) 0
          (hall q0 (by simp)) (fun x hx => hall x (by simp [hx]))
        rw [nextDoc_clean_fn_none i d _ _ _ _ _ _ ha hc hfn hl hn']
        exact ⟨_, rfl, rfl⟩

/-! ### `step` -/

def dOf : IterOp → Nat
  | .next => 0
  | .advance d => d

/-- the part of `step` after a document number has been found -/
def deliver (n : Nat) (i : It) : Option (Option Posting × It) :=
  if !i.fl.incFN then some (some { doc := n, freq := 0, norm := 0, locs := [] }, i) else
  match i.fnR with
  | some (e :: r) =>
    let i := { i with fnR := some r }
    if i.fl.incL && hasLocs e then
      match i.lcR with
      | l :: lr => some (some { doc := n, freq := e.freq, norm := e.norm, locs := l.locs }, { i with lcR := lr })
      | [] => none
    else some (some { doc := n, freq := e.freq, norm := e.norm, locs := [] }, i)
  | _ => none

theorem step_eq (i : It) (op : IterOp) :
    step i op = match nextDoc i (dOf op) with
      | none => none
      | some (none, i) => some (none, i)
      | some (some n, i) => deliver n i := by
  cases op <;> rfl

theorem iterStep_eq (L : List Posting) (op : IterOp) :
    iterStep L op = match L.dropWhile (fun p => p.doc < dOf op) with
      | [] => (none, [])
      | p :: r => (some p, r) := by
  cases op with
  | next =>
    have : L.dropWhile (fun p => decide (p.doc < dOf .next)) = L := by
      cases L <;> simp [dOf]
    rw [this]; rfl
  | advance d => rfl

theorem Ready.rdInv {cs : Nat} {i : It} {Pre R : List Posting} {c : Nat} (h : Ready cs i R c)
    (b1 : ∀ q ∈ Pre, q.doc / cs ≤ c) (b2 : ∀ q ∈ R, c ≤ q.doc / cs) : RdInv cs i Pre R := by
  constructor
  · intro hn; rw [h.fn] at hn; cases hn
  · intro _
    rw [h.cur]
    exact ⟨b1, b2, h⟩

/-- `deliver` on a `Ready` state hands out the head entry and leaves the readers `Ready` -/
theorem deliver_ready {cs : Nat} {j : It} {q : Posting} {rem : List Posting} {c : Nat} (n : Nat)
    (hfn : j.fl.incFN = true) (h : Ready cs j (q :: rem) c) (hq : inCh cs c q = true) :
    ∃ j', deliver n j = some (some { doc := n, freq := q.freq, norm := q.norm,
                                     locs := if j.fl.incL then q.locs else [] }, j') ∧
      Ready cs j' rem c ∧ Same j j' := by
  have e : (q :: rem).filter (inCh cs c) = q :: rem.filter (inCh cs c) :=
    List.filter_cons_of_pos (by simp [hq])
  have hf := h.fn
  rw [e] at hf
  unfold deliver
  rw [hf]
  simp only [hfn, Bool.not_true, Bool.false_eq_true, if_false]
  cases hl : j.fl.incL with
  | false =>
    simp only [Bool.false_and, Bool.false_eq_true, if_false]
    refine ⟨_, rfl, ⟨h.csEq, h.cur, rfl, ?_⟩, ⟨rfl, rfl, rfl, rfl, rfl, rfl⟩⟩
    intro hl'; simp [hl] at hl'
  | true =>
    have hlc := h.lc hl
    rw [e] at hlc
    cases hh : hasLocs q with
    | false =>
      simp only [Bool.and_false, Bool.false_eq_true, if_false, if_true]
      have hloc : q.locs = [] := by
        simpa [hasLocs] using hh
      rw [hloc]
      refine ⟨_, rfl, ⟨h.csEq, h.cur, rfl, ?_⟩, ⟨rfl, rfl, rfl, rfl, rfl, rfl⟩⟩
      intro _
      show j.lcR = _
      rw [hlc, List.filter_cons_of_neg (by simp [hh])]
    | true =>
      simp only [Bool.and_self, if_true]
      rw [List.filter_cons_of_pos (by simp [hh])] at hlc
      rw [hlc]
      refine ⟨_, rfl, ⟨h.csEq, h.cur, rfl, ?_⟩, ⟨rfl, rfl, rfl, rfl, rfl, rfl⟩⟩
      intro _; rfl

theorem deliver_spec {cs : Nat} {P : List Posting} {fl : RFlags} {lv : Posting → Bool} {cl : Bool}
    {i' : It} {p : Posting} {Pre sk R' : List Posting} (hP : SortedP P)
    (hfl : fl.incL = true → fl.incFN = true) (hsplit : P = Pre ++ (sk ++ p :: R'))
    (h : Post cs P fl lv cl i' p R') :
    ∃ i'', deliver p.doc i' = some (some (decoded fl p), i'') ∧
      Inv cs P fl lv cl i'' (R'.filter lv) (Pre ++ sk ++ [p]) R' := by
  have hsplit' : P = (Pre ++ sk ++ [p]) ++ R' := by simp [hsplit]
  cases hfn : fl.incFN with
  | false =>
    have hl : fl.incL = false := by
      cases hl : fl.incL with
      | false => rfl
      | true => rw [hfl hl] at hfn; cases hfn
    have hfn' : i'.fl.incFN = false := by rw [h.flEq]; exact hfn
    refine ⟨i', ?_, ⟨h.csEq, h.PEq, h.flEq, h.clEq, hsplit', h.all, h.act, rfl, ?_⟩⟩
    · simp [deliver, hfn', decoded, hfn, hl]
    · intro hf; rw [hfn] at hf; cases hf
  | true =>
    have hfn' : i'.fl.incFN = true := by rw [h.flEq]; exact hfn
    obtain ⟨j', e1, r1, s1⟩ := deliver_ready p.doc hfn' (h.rd hfn) (inCh_self cs p)
    have hs : SortedP ((Pre ++ sk) ++ p :: R') := by
      have := hP; rw [hsplit] at this; simpa [List.append_assoc] using this
    have hs1 := (List.pairwise_append.mp hs).2.2
    have hs2 := (List.pairwise_cons.mp (List.pairwise_append.mp hs).2.1).1
    refine ⟨j', ?_, ⟨s1.cs.trans h.csEq, s1.P.trans h.PEq, s1.fl.trans h.flEq,
      s1.clean.trans h.clEq, hsplit', s1.all.trans h.all, s1.act.trans h.act, rfl, ?_⟩⟩
    · rw [e1, h.flEq]
      simp [decoded, hfn]
    · intro _
      apply r1.rdInv
      · intro q hq
        apply Nat.div_le_div_right
        rcases List.mem_append.mp hq with hq | hq
        · exact Nat.le_of_lt (hs1 q hq p (by simp))
        · simp at hq; subst hq; exact Nat.le_refl _
      · intro q hq
        exact Nat.div_le_div_right (Nat.le_of_lt (hs2 q hq))

/-! ### the step lemma and the run -/

/-- model state `i` and remaining live postings `L` correspond -/
def StepInv (cs : Nat) (P : List Posting) (fl : RFlags) (lv : Posting → Bool) (cl : Bool)
    (i : It) (L : List Posting) : Prop :=
  (i.act = [] ∧ L = []) ∨ ∃ Pre R, Inv cs P fl lv cl i L Pre R

theorem nextDoc_found {cs : Nat} {P : List Posting} {fl : RFlags} {lv : Posting → Bool} {cl : Bool}
    {i : It} {L Pre R : List Posting} {d : Nat} {p : Posting} {Lr : List Posting}
    (hcs : 0 < cs) (hP : SortedP P) (hmode : cl = true → ∀ p, lv p = true)
    (h : Inv cs P fl lv cl i L Pre R)
    (hd : L.dropWhile (fun p => p.doc < d) = p :: Lr) :
    ∃ i' sk R', nextDoc i d = some (some p.doc, i') ∧ R = sk ++ p :: R' ∧ Lr = R'.filter lv ∧
      (∀ q ∈ sk, q.doc < p.doc) ∧ Post cs P fl lv cl i' p R' := by
  cases cl with
  | false => exact nextDoc_found_excl hcs hP h hd
  | true =>
    cases hfn : fl.incFN with
    | false => exact nextDoc_found_clean_nofn hP (hmode rfl) hfn h hd
    | true => exact nextDoc_found_clean_fn hP (hmode rfl) hfn h hd

theorem step_spec {cs : Nat} {P : List Posting} {fl : RFlags} {lv : Posting → Bool} {cl : Bool}
    (hcs : 0 < cs) (hP : SortedP P) (hmode : cl = true → ∀ p, lv p = true)
    (hfl : fl.incL = true → fl.incFN = true) (i : It) (L : List Posting) (op : IterOp)
    (h : StepInv cs P fl lv cl i L) :
    ∃ i', step i op = some ((iterStep L op).1.map (decoded fl), i') ∧
      StepInv cs P fl lv cl i' (iterStep L op).2 := by
  rw [step_eq, iterStep_eq]
  rcases h with ⟨ha, hL⟩ | ⟨Pre, R, h⟩
  · rw [nextDoc_act_nil i _ ha, hL]
    exact ⟨i, rfl, Or.inl ⟨ha, rfl⟩⟩
  · cases hd : L.dropWhile (fun p => p.doc < dOf op) with
    | nil =>
      obtain ⟨i', e, ha⟩ := nextDoc_none hmode h hd
      rw [e]
      exact ⟨i', rfl, Or.inl ⟨ha, rfl⟩⟩
    | cons p Lr =>
      obtain ⟨i', sk, R', e, hR, hLr, _, hpost⟩ := nextDoc_found hcs hP hmode h hd
      rw [e]
      have hsplit : P = Pre ++ (sk ++ p :: R') := by rw [h.split, hR]
      obtain ⟨i'', e2, hinv⟩ := deliver_spec hP hfl hsplit hpost
      refine ⟨i'', e2, Or.inr ⟨Pre ++ sk ++ [p], R', ?_⟩⟩
      show Inv cs P fl lv cl i'' Lr _ _
      rw [hLr]; exact hinv

theorem run_spec {cs : Nat} {P : List Posting} {fl : RFlags} {lv : Posting → Bool} {cl : Bool}
    (hcs : 0 < cs) (hP : SortedP P) (hmode : cl = true → ∀ p, lv p = true)
    (hfl : fl.incL = true → fl.incFN = true) (ops : List IterOp) :
    ∀ (i : It) (L : List Posting), StepInv cs P fl lv cl i L → run i ops = specRun fl L ops := by
  induction ops with
  | nil => intro i L _; rfl
  | cons op ops ih =>
    intro i L h
    obtain ⟨i', e, h'⟩ := step_spec hcs hP hmode hfl i L op h
    simp only [run, specRun, e]
    rw [ih i' _ h']

theorem mk_inv (cs : Nat) (P : List Posting) (E : Option (List Nat)) (fl : RFlags) :
    ∃ lv cl, (cl = true → ∀ p, lv p = true) ∧ StepInv cs P fl lv cl (mk cs P E fl) (live P E) := by
  cases E with
  | none =>
    refine ⟨fun _ => true, true, fun _ _ => rfl, Or.inr ⟨[], P, ?_⟩⟩
    refine ⟨rfl, rfl, rfl, rfl, rfl, rfl, ?_, ?_, ?_⟩
    · simp [mk, filter_all]
    · simp [live, filter_all]
    · intro _
      exact ⟨fun _ => rfl, fun hn => absurd rfl hn⟩
  | some e =>
    refine ⟨fun p => !e.contains p.doc, false, fun hh => (by cases hh), Or.inr ⟨[], P, ?_⟩⟩
    refine ⟨rfl, rfl, rfl, rfl, rfl, rfl, ?_, ?_, ?_⟩
    · simp only [mk]
      rw [List.filter_map]; rfl
    · rfl
    · intro _
      exact ⟨fun _ => rfl, fun hn => absurd rfl hn⟩

end Ice.Model.Iter
