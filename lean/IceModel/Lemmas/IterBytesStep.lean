import IceModel.Lemmas.IterBytesAbs
import IceModel.Props.ChunkBytes
/-
  Single-step simulation lemmas: `loadChunkB`, `ensureB`, `consumeB`, `currChunkNextB`, `deliverB`
  commute with the abstraction `absIt` (from T2/T3 and the load facts of `Env.OK`, i.e. T6/T7).
  Each lemma has the shape
     WF i → (entry-level operation on `absIt i` succeeds with `j`) →
       ∃ i', byte-level operation on i = .ok i' ∧ WF i' ∧ absIt i' = j ∧ SameB i i'
-/
namespace Ice.Model.IterBytes
open Ice Ice.Spec Ice.Model Ice.Model.ChunkBytes
open Ice.Model.Iter (RFlags It)
open Ice.Props.ChunkBytes (T2_read T2_skip T3_skip)

/-! ### entry level: inversion of `consume` / `deliver`, preservation of `Aligned` -/

theorem consume_some {j j' : It} (h : Iter.consume j = some j') :
    ∃ e r, j.fnR = some (e :: r) ∧
      (((j.fl.incL && Iter.hasLocs e) = false ∧ j' = { j with fnR := some r }) ∨
       ((j.fl.incL && Iter.hasLocs e) = true ∧ ∃ x lr, j.lcR = x :: lr ∧
          j' = { j with fnR := some r, lcR := lr })) := by
  unfold Iter.consume at h
  cases hf : j.fnR with
  | none => rw [hf] at h; cases h
  | some l =>
    cases l with
    | nil => rw [hf] at h; cases h
    | cons e r =>
      rw [hf] at h
      simp only at h
      refine ⟨e, r, rfl, ?_⟩
      cases hb : (j.fl.incL && Iter.hasLocs e) with
      | false =>
        rw [hb] at h
        simp only [Bool.false_eq_true, if_false, Option.some.injEq] at h
        exact Or.inl ⟨rfl, h.symm⟩
      | true =>
        rw [hb] at h
        simp only [if_true] at h
        cases hl : j.lcR with
        | nil => rw [hl] at h; cases h
        | cons x lr =>
          rw [hl] at h
          simp only [Option.some.injEq] at h
          exact Or.inr ⟨rfl, x, lr, rfl, h.symm⟩

theorem deliver_some {n : Nat} {j j' : It} {o : Option Posting} (h : Iter.deliver n j = some (o, j')) :
    (j.fl.incFN = false ∧ o = some { doc := n, freq := 0, norm := 0, locs := [] } ∧ j' = j) ∨
    (j.fl.incFN = true ∧ ∃ e r, j.fnR = some (e :: r) ∧
      (((j.fl.incL && Iter.hasLocs e) = false ∧
          o = some { doc := n, freq := e.freq, norm := e.norm, locs := [] } ∧
          j' = { j with fnR := some r }) ∨
       ((j.fl.incL && Iter.hasLocs e) = true ∧ ∃ l lr, j.lcR = l :: lr ∧
          o = some { doc := n, freq := e.freq, norm := e.norm, locs := l.locs } ∧
          j' = { j with fnR := some r, lcR := lr }))) := by
  unfold Iter.deliver at h
  cases hfn : j.fl.incFN with
  | false =>
    rw [hfn] at h
    simp only [Bool.not_false, if_true, Option.some.injEq, Prod.mk.injEq] at h
    exact Or.inl ⟨rfl, h.1.symm, h.2.symm⟩
  | true =>
    rw [hfn] at h
    simp only [Bool.not_true, Bool.false_eq_true, if_false] at h
    right
    refine ⟨rfl, ?_⟩
    cases hf : j.fnR with
    | none => rw [hf] at h; cases h
    | some l =>
      cases l with
      | nil => rw [hf] at h; cases h
      | cons e r =>
        rw [hf] at h
        simp only at h
        refine ⟨e, r, rfl, ?_⟩
        cases hb : (j.fl.incL && Iter.hasLocs e) with
        | false =>
          rw [hb] at h
          simp only [Bool.false_eq_true, if_false, Option.some.injEq, Prod.mk.injEq] at h
          exact Or.inl ⟨rfl, h.1.symm, h.2.symm⟩
        | true =>
          rw [hb] at h
          simp only [if_true] at h
          cases hl : j.lcR with
          | nil => rw [hl] at h; cases h
          | cons x lr =>
            rw [hl] at h
            simp only [Option.some.injEq, Prod.mk.injEq] at h
            exact Or.inr ⟨rfl, x, lr, rfl, h.1.symm, h.2.symm⟩

theorem Aligned.loadChunk {j : It} (hno : j.fl.incFN = false → j.fnR = none) (c : Nat) :
    Aligned (Iter.loadChunk j c) := by
  intro hl l hf
  have hl' : j.fl.incL = true := hl
  cases hfn : j.fl.incFN with
  | false =>
    have : (Iter.loadChunk j c).fnR = j.fnR := by simp [Iter.loadChunk, hfn]
    rw [this, hno hfn] at hf; cases hf
  | true =>
    have e1 : (Iter.loadChunk j c).fnR =
        if (Iter.chunkOf j.cs j.P c).isEmpty then none else some (Iter.chunkOf j.cs j.P c) := by
      simp [Iter.loadChunk, hfn]
    have e2 : (Iter.loadChunk j c).lcR = (Iter.chunkOf j.cs j.P c).filter Iter.hasLocs := by
      simp [Iter.loadChunk, hl']
    rw [e1] at hf
    rw [e2]
    split at hf
    · cases hf
    · cases hf; rfl

theorem Aligned.consume {j j' : It} (h : Aligned j) (hc : Iter.consume j = some j') : Aligned j' := by
  obtain ⟨e, r, hf, hcase⟩ := consume_some hc
  rcases hcase with ⟨hb, rfl⟩ | ⟨hb, x, lr, hl, rfl⟩
  · intro hl l hfl
    have hl' : j.fl.incL = true := hl
    have hfl' : some r = some l := hfl
    cases hfl'
    have := h hl' _ hf
    have hh : Iter.hasLocs e = false := by simpa [hl'] using hb
    show j.lcR = _
    rw [this, List.filter_cons_of_neg (by simp [hh])]
  · intro hl' l hfl
    have hl'' : j.fl.incL = true := hl'
    have hfl' : some r = some l := hfl
    cases hfl'
    have := h hl'' _ hf
    have hh : Iter.hasLocs e = true := by simpa [hl''] using hb
    rw [hl, List.filter_cons_of_pos (by simp [hh])] at this
    show lr = _
    exact (List.cons.inj this).2

theorem Aligned.deliver {n : Nat} {j j' : It} {o : Option Posting} (h : Aligned j)
    (hd : Iter.deliver n j = some (o, j')) : Aligned j' := by
  rcases deliver_some hd with ⟨_, _, rfl⟩ | ⟨_, e, r, hf, hcase⟩
  · exact h
  · rcases hcase with ⟨hb, _, rfl⟩ | ⟨hb, x, lr, hl, _, rfl⟩
    · intro hl l hfl
      have hl' : j.fl.incL = true := hl
      have hfl' : some r = some l := hfl
      cases hfl'
      have := h hl' _ hf
      have hh : Iter.hasLocs e = false := by simpa [hl'] using hb
      show j.lcR = _
      rw [this, List.filter_cons_of_neg (by simp [hh])]
    · intro hl' l hfl
      have hl'' : j.fl.incL = true := hl'
      have hfl' : some r = some l := hfl
      cases hfl'
      have := h hl'' _ hf
      have hh : Iter.hasLocs e = true := by simpa [hl''] using hb
      rw [hl, List.filter_cons_of_pos (by simp [hh])] at this
      show lr = _
      exact (List.cons.inj this).2

theorem absIt_noFn (E : Env) (i : ItB) : (absIt E i).fl.incFN = false → (absIt E i).fnR = none := by
  intro h
  have h' : i.fl.incFN = false := h
  simp [absIt, absFnR, h']

/-! ### the decoders: `loadChunk` -/

theorem fn_load {E : Env} (hE : E.OK) {b : DecB} {c0 c : Nat} (hb : FnOK E c0 b)
    (hc : c ≤ E.maxDoc / E.cs) :
    ∃ b', b.loadChunk E.K c = .ok b' ∧ FnOK E c b' ∧
      absFn E.finv (chunkE E.cs E.es c) b' =
        (if (chunkE E.cs E.es c).isEmpty then none
         else some ((chunkE E.cs E.es c).map (toP E.finv))) := by
  have hl := hE.loadT c hc
  rw [← hb.dEq] at hl
  unfold DecB.loadChunk
  by_cases h0 : b.d.startOffset = 0
  · rw [if_pos h0]
    have hnil : fnBytes (chunkE E.cs E.es c) = [] := by
      simp only [Decoder.loadChunk, h0, if_true, Res.ok.injEq] at hl
      exact hl.symm
    have hch := fnBytes_eq_nil hnil
    have hcur := hb.zero h0
    refine ⟨_, rfl, ⟨hb.dEq, hb.dataOk, fun _ => hcur, fun h => absurd hcur h⟩, ?_⟩
    have := absFn_nil (finv := E.finv) (chunk := chunkE E.cs E.es c)
      (b := { b with r := some ⟨[], 0⟩ }) hcur
    rw [this, hch]; rfl
  · rw [if_neg h0]
    have hlt : ¬ (c ≥ b.d.chunkOffsets.length) := by
      intro hge
      simp [Decoder.loadChunk, h0, hge] at hl
    rw [if_neg hlt, hb.dataOk]
    simp only [Bool.false_eq_true, if_false]
    rw [hl]
    refine ⟨_, rfl, ⟨hb.dEq, rfl, fun h => absurd h h0, ?_⟩, ?_⟩
    · intro _; exact ⟨[], _, rfl, rfl, rfl⟩
    · by_cases hch : chunkE E.cs E.es c = []
      · rw [hch]
        exact absFn_nil rfl
      · have hne : fnBytes (chunkE E.cs E.es c) ≠ [] := fun h => hch (fnBytes_eq_nil h)
        have hie : (chunkE E.cs E.es c).isEmpty = false := by
          cases h : chunkE E.cs E.es c with
          | nil => exact absurd h hch
          | cons _ _ => rfl
        rw [hie]
        simp only [Bool.false_eq_true, if_false]
        exact absFn_pos (pre := []) (rest := chunkE E.cs E.es c) hne rfl

theorem lc_load {E : Env} (hE : E.OK) {b : DecB} {c0 c : Nat} (hb : LcOK E c0 b)
    (hc : c ≤ E.maxDoc / E.cs) :
    ∃ b', b.loadChunk E.K c = .ok b' ∧ LcOK E c b' ∧
      absLc E.finv (chunkE E.cs E.es c) b' = ((chunkE E.cs E.es c).filter hasLocsE).map (toP E.finv) := by
  have hl := hE.loadL c hc
  rw [← hb.dEq] at hl
  unfold DecB.loadChunk
  by_cases h0 : b.d.startOffset = 0
  · rw [if_pos h0]
    have hnil : locBytes (chunkE E.cs E.es c) = [] := by
      simp only [Decoder.loadChunk, h0, if_true, Res.ok.injEq] at hl
      exact hl.symm
    have hch := locBytes_eq_nil hnil
    refine ⟨_, rfl, ⟨hb.dEq, hb.dataOk, ?_, ?_⟩, ?_⟩
    · intro _ r hr
      have hr' : some (⟨[], 0⟩ : Rd) = some r := hr
      cases hr'; rfl
    · intro r hr hS
      have : r = ⟨[], 0⟩ := by
        have hr' : some (⟨[], 0⟩ : Rd) = some r := hr
        cases hr'; rfl
      rw [this] at hS; exact absurd rfl hS
    · rw [hch]
      exact absLc_empty (r := ⟨[], 0⟩) rfl rfl
  · rw [if_neg h0]
    have hlt : ¬ (c ≥ b.d.chunkOffsets.length) := by
      intro hge
      simp [Decoder.loadChunk, h0, hge] at hl
    rw [if_neg hlt, hb.dataOk]
    simp only [Bool.false_eq_true, if_false]
    rw [hl]
    have hfil := locBytes_filter (chunkE E.cs E.es c)
    refine ⟨_, rfl, ⟨hb.dEq, rfl, fun h => absurd h h0, ?_⟩, ?_⟩
    · intro r hr _
      have hr' : some (⟨locBytes (chunkE E.cs E.es c), 0⟩ : Rd) = some r := hr
      cases hr'
      refine ⟨[], _, rfl, ?_⟩
      show _ = Rd.mk (locBytes ((chunkE E.cs E.es c).filter hasLocsE)) 0
      rw [hfil]
    · apply absLc_pos (pre := []) (rest := (chunkE E.cs E.es c).filter hasLocsE) rfl
      show some (Rd.mk (locBytes (chunkE E.cs E.es c)) 0) =
        some (Rd.mk (locBytes ((chunkE E.cs E.es c).filter hasLocsE)) 0)
      rw [hfil]

/-! ### `PostingsIterator.loadChunk` -/

theorem loadChunkB_sim {E : Env} (hE : E.OK) {i : ItB} (h : WF E i) {c : Nat}
    (hc : c ≤ E.maxDoc / E.cs) :
    ∃ i', loadChunkB E.K i c = .ok i' ∧ WF E i' ∧ absIt E i' = Iter.loadChunk (absIt E i) c ∧
      SameB i i' := by
  -- the freq/norm decoder
  have hF : ∃ f', optLoad E.K i.fl.incFN i.fnR c = .ok f' ∧
      (i.fl.incFN = true → ∃ b', f' = some b' ∧ FnOK E c b' ∧
        absFn E.finv (chunkE E.cs E.es c) b' =
          (if (chunkE E.cs E.es c).isEmpty then none
           else some ((chunkE E.cs E.es c).map (toP E.finv)))) := by
    cases hfn : i.fl.incFN with
    | false => exact ⟨i.fnR, by simp [optLoad], fun h => by cases h⟩
    | true =>
      obtain ⟨b, hb, hok⟩ := h.fn hfn
      obtain ⟨b', h1, h2, h3⟩ := fn_load hE hok hc
      exact ⟨some b', by simp [optLoad, hb, h1], fun _ => ⟨b', rfl, h2, h3⟩⟩
  have hL : ∃ l', optLoad E.K i.fl.incL i.lcR c = .ok l' ∧
      (i.fl.incL = true → ∃ b', l' = some b' ∧ LcOK E c b' ∧
        absLc E.finv (chunkE E.cs E.es c) b' =
          ((chunkE E.cs E.es c).filter hasLocsE).map (toP E.finv)) := by
    cases hl : i.fl.incL with
    | false => exact ⟨i.lcR, by simp [optLoad], fun h => by cases h⟩
    | true =>
      obtain ⟨b, hb, hok⟩ := h.lc hl
      obtain ⟨b', h1, h2, h3⟩ := lc_load hE hok hc
      exact ⟨some b', by simp [optLoad, hb, h1], fun _ => ⟨b', rfl, h2, h3⟩⟩
  obtain ⟨f', hf1, hf2⟩ := hF
  obtain ⟨l', hl1, hl2⟩ := hL
  have habs : absIt E { i with fnR := f', lcR := l', currChunk := c } =
      Iter.loadChunk (absIt E i) c := by
    have hchunk : Iter.chunkOf (absIt E i).cs (absIt E i).P c =
        (chunkE E.cs E.es c).map (toP E.finv) := by
      show Iter.chunkOf i.cs (E.es.map (toP E.finv)) c = _
      rw [h.cs, chunkOf_map]
    apply It.ext' <;> try rfl
    · -- fnR
      show absFnR E { i with fnR := f', lcR := l', currChunk := c } = (Iter.loadChunk (absIt E i) c).fnR
      cases hfn : i.fl.incFN with
      | false =>
        have e1 : (Iter.loadChunk (absIt E i) c).fnR = (absIt E i).fnR := by
          have : (absIt E i).fl.incFN = false := hfn
          simp [Iter.loadChunk, this]
        rw [e1, absIt_noFn E i hfn]
        simp [absFnR, hfn]
      | true =>
        obtain ⟨b', rfl, _, h3⟩ := hf2 hfn
        have e1 : (Iter.loadChunk (absIt E i) c).fnR =
            if (Iter.chunkOf (absIt E i).cs (absIt E i).P c).isEmpty then none
            else some (Iter.chunkOf (absIt E i).cs (absIt E i).P c) := by
          have : (absIt E i).fl.incFN = true := hfn
          simp [Iter.loadChunk, this]
        rw [e1, hchunk]
        simp only [absFnR, hfn, if_true, h3, List.isEmpty_map]
    · -- lcR
      show absLcR E { i with fnR := f', lcR := l', currChunk := c } = (Iter.loadChunk (absIt E i) c).lcR
      cases hl : i.fl.incL with
      | false =>
        have e1 : (Iter.loadChunk (absIt E i) c).lcR = (absIt E i).lcR := by
          have : (absIt E i).fl.incL = false := hl
          simp [Iter.loadChunk, this]
        rw [e1]
        simp [absIt, absLcR, hl]
      | true =>
        obtain ⟨b', rfl, _, h3⟩ := hl2 hl
        have e1 : (Iter.loadChunk (absIt E i) c).lcR =
            (Iter.chunkOf (absIt E i).cs (absIt E i).P c).filter Iter.hasLocs := by
          have : (absIt E i).fl.incL = true := hl
          simp [Iter.loadChunk, this]
        rw [e1, hchunk, filter_hasLocs_map]
        simp only [absLcR, hl, if_true, h3]
  refine ⟨{ i with fnR := f', lcR := l', currChunk := c }, ?_, ?_, habs, ⟨rfl, rfl, rfl, rfl, rfl, rfl⟩⟩
  · simp [loadChunkB, hf1, hl1]
  · refine ⟨h.cs, h.finv, h.act, ?_, ?_, ?_⟩
    · intro hfn
      obtain ⟨b', rfl, h2, _⟩ := hf2 hfn
      exact ⟨b', rfl, h2⟩
    · intro hl
      obtain ⟨b', rfl, h2, _⟩ := hl2 hl
      exact ⟨b', rfl, h2⟩
    · rw [habs]
      exact Aligned.loadChunk (absIt_noFn E i) c

/-! ### `ensureB` -/

theorem needLoadB_sim {E : Env} {i : ItB} (h : WF E i) (hfn : i.fl.incFN = true) (c : Nat) :
    needLoadB i c = .ok (Iter.needLoad (absIt E i) c) := by
  obtain ⟨b, hb, _⟩ := h.fn hfn
  unfold needLoadB Iter.needLoad
  have e1 : (absIt E i).currChunk = i.currChunk := rfl
  have e2 : (absIt E i).fnR.isNone = b.isNil := by
    show (absFnR E i).isNone = _
    simp only [absFnR, hfn, if_true, hb]
    exact absFn_isNone _ _ _
  rw [e1, e2, hb]
  cases hcc : (i.currChunk != c) <;> simp

theorem ensureB_sim {E : Env} (hE : E.OK) {i : ItB} (h : WF E i) (hfn : i.fl.incFN = true) {c : Nat}
    (hc : c ≤ E.maxDoc / E.cs) :
    ∃ i', ensureB E.K i c = .ok i' ∧ WF E i' ∧ absIt E i' = Iter.ensure (absIt E i) c ∧
      SameB i i' := by
  unfold ensureB Iter.ensure
  rw [needLoadB_sim h hfn c]
  simp only [ok_bind]
  cases hn : Iter.needLoad (absIt E i) c with
  | true =>
    simp only [if_true]
    exact loadChunkB_sim hE h hc
  | false =>
    simp only [Bool.false_eq_true, if_false]
    exact ⟨i, rfl, h, rfl, SameB.refl i⟩

/-! ### `consumeB` -/

theorem toP_locs_length (finv : List Bytes) (e : Entry) : (toP finv e).locs.length = e.locs.length := by
  simp [toP]

theorem fnOK_advance {E : Env} {c : Nat} {fb : DecB} {pre r : List Entry} {e : Entry}
    (hok : FnOK E c fb) (hsplit : chunkE E.cs E.es c = pre ++ e :: r)
    (hcur : fb.curChunkBytes = fnBytes (pre ++ e :: r)) :
    FnOK E c { fb with r := some ⟨fnBytes (pre ++ e :: r), (fnBytes (pre ++ [e])).length⟩ } := by
  refine ⟨hok.dEq, hok.dataOk, hok.zero, ?_⟩
  intro _
  refine ⟨pre ++ [e], r, ?_, ?_, ?_⟩
  · rw [hsplit]; simp
  · show fb.curChunkBytes = _
    rw [hcur]; simp
  · show some _ = some _
    simp

theorem absFn_advance {E : Env} {fb : DecB} {pre r : List Entry} {e : Entry}
    (hne : fb.curChunkBytes ≠ []) :
    absFn E.finv (pre ++ e :: r)
      { fb with r := some ⟨fnBytes (pre ++ e :: r), (fnBytes (pre ++ [e])).length⟩ }
      = some (r.map (toP E.finv)) := by
  have e1 : pre ++ e :: r = (pre ++ [e]) ++ r := by simp
  rw [e1]
  exact absFn_pos (b := { fb with r := some ⟨fnBytes ((pre ++ [e]) ++ r), (fnBytes (pre ++ [e])).length⟩ })
    hne rfl

theorem lcOK_advance {E : Env} {c : Nat} {lb : DecB} {pre r : List Entry} {e : Entry}
    (hok : LcOK E c lb) (hsplit : (chunkE E.cs E.es c).filter hasLocsE = pre ++ e :: r)
    (hr : lb.r = some ⟨locBytes (pre ++ e :: r), (locBytes pre).length⟩) :
    LcOK E c { lb with r := some ⟨locBytes (pre ++ e :: r), (locBytes (pre ++ [e])).length⟩ } := by
  refine ⟨hok.dEq, hok.dataOk, ?_, ?_⟩
  · -- a stream that was not written has no entry with locations
    intro h0 _ _
    exfalso
    have := hok.zero h0 _ hr
    have hnil : locBytes (pre ++ e :: r) = [] := congrArg Rd.S this
    have hmem : e ∈ (chunkE E.cs E.es c).filter hasLocsE := by rw [hsplit]; simp
    have hpos := encLocs_length_pos (mem_filter_hasLocsE hmem)
    have hl := congrArg List.length hnil
    simp only [locBytes, List.flatMap_append, List.flatMap_cons, List.length_append,
      List.length_nil] at hl
    omega
  · intro r' hr' _
    have hr'' : some (Rd.mk (locBytes (pre ++ e :: r)) (locBytes (pre ++ [e])).length) = some r' := hr'
    cases hr''
    refine ⟨pre ++ [e], r, ?_, ?_⟩
    · rw [hsplit]; simp
    · simp

theorem absLc_advance {E : Env} {chunk : List Entry} {lb : DecB} {pre r : List Entry} {e : Entry}
    (hsplit : chunk.filter hasLocsE = pre ++ e :: r) :
    absLc E.finv chunk
      { lb with r := some ⟨locBytes (pre ++ e :: r), (locBytes (pre ++ [e])).length⟩ }
      = r.map (toP E.finv) := by
  have e1 : pre ++ e :: r = (pre ++ [e]) ++ r := by simp
  apply absLc_pos (pre := pre ++ [e]) (rest := r)
  · rw [hsplit, e1]
  · show some _ = some _
    rw [e1]

/-- what the invariant says when the entry-level freq/norm reader has a head entry -/
theorem fn_head {E : Env} {i : ItB} (h : WF E i) (hfn : i.fl.incFN = true) {e' : Posting}
    {r' : List Posting} (hf : (absIt E i).fnR = some (e' :: r')) :
    ∃ fb pre e r, i.fnR = some fb ∧ FnOK E i.currChunk fb ∧ fb.curChunkBytes ≠ [] ∧
      chunkE E.cs E.es i.currChunk = pre ++ e :: r ∧
      fb.curChunkBytes = fnBytes (pre ++ e :: r) ∧
      fb.r = some ⟨fnBytes (pre ++ e :: r), (fnBytes pre).length⟩ ∧
      e' = toP E.finv e ∧ r' = r.map (toP E.finv) := by
  obtain ⟨fb, hfb, hok⟩ := h.fn hfn
  have hf' : absFn E.finv (chunkE E.cs E.es i.currChunk) fb = some (e' :: r') := by
    have : (absIt E i).fnR = absFn E.finv (chunkE E.cs E.es i.currChunk) fb := by
      show absFnR E i = _
      simp only [absFnR, hfn, if_true, hfb]
    rw [← this]; exact hf
  have hne : fb.curChunkBytes ≠ [] := by
    intro h0
    rw [absFn_nil h0] at hf'; cases hf'
  obtain ⟨pre, rest, hsplit, hcur, hr⟩ := hok.pos hne
  rw [hsplit, absFn_pos hne hr] at hf'
  cases rest with
  | nil => simp at hf'
  | cons e r =>
    simp only [List.map_cons, Option.some.injEq, List.cons.injEq] at hf'
    exact ⟨fb, pre, e, r, hfb, hok, hne, hsplit, hcur, hr, hf'.1.symm, hf'.2.symm⟩

/-- … and the location reader -/
theorem lc_head {E : Env} {i : ItB} (h : WF E i) (hl : i.fl.incL = true) {x : Posting}
    {lr : List Posting} (hf : (absIt E i).lcR = x :: lr) :
    ∃ lb pre e r, i.lcR = some lb ∧ LcOK E i.currChunk lb ∧
      (chunkE E.cs E.es i.currChunk).filter hasLocsE = pre ++ e :: r ∧
      lb.r = some ⟨locBytes (pre ++ e :: r), (locBytes pre).length⟩ ∧
      x = toP E.finv e ∧ lr = r.map (toP E.finv) := by
  obtain ⟨lb, hlb, hok⟩ := h.lc hl
  have hf' : absLc E.finv (chunkE E.cs E.es i.currChunk) lb = x :: lr := by
    have : (absIt E i).lcR = absLc E.finv (chunkE E.cs E.es i.currChunk) lb := by
      show absLcR E i = _
      simp only [absLcR, hl, if_true, hlb]
    rw [← this]; exact hf
  rcases hok.abs_cases with h0 | ⟨pre, rest, hsplit, hr, habs⟩
  · rw [h0] at hf'; cases hf'
  · rw [habs] at hf'
    cases rest with
    | nil => simp at hf'
    | cons e r =>
      simp only [List.map_cons, List.cons.injEq] at hf'
      exact ⟨lb, pre, e, r, hlb, hok, hsplit, hr, hf'.1.symm, hf'.2.symm⟩

theorem mem_chunkE {cs : Nat} {es : List Entry} {c : Nat} {e : Entry} (h : e ∈ chunkE cs es c) :
    e ∈ es := (List.mem_filter.mp h).1

theorem consumeB_sim {E : Env} (hE : E.OK) {i : ItB} (h : WF E i) (hfn : i.fl.incFN = true) {j : It}
    (hj : Iter.consume (absIt E i) = some j) :
    ∃ i', consumeB i = .ok i' ∧ WF E i' ∧ absIt E i' = j ∧ SameB i i' := by
  have hal : Aligned j := h.aligned.consume hj
  obtain ⟨e', r', hf, hcase⟩ := consume_some hj
  obtain ⟨fb, pre, e, r, hfb, hok, hne, hsplit, hcur, hr, he', hr'⟩ := fn_head h hfn hf
  have hmem : e ∈ E.es := mem_chunkE (c := i.currChunk) (by rw [hsplit]; simp)
  have hskip := T2_skip pre r e (hE.valid e hmem)
  have hflag : Iter.hasLocs e' = !e.locs.isEmpty := by rw [he', hasLocs_toP]; rfl
  have hincL : (absIt E i).fl.incL = i.fl.incL := rfl
  -- the state after the freq/norm skip
  let fb' : DecB := { fb with r := some ⟨fnBytes (pre ++ e :: r), (fnBytes (pre ++ [e])).length⟩ }
  have hok' : FnOK E i.currChunk fb' := fnOK_advance hok hsplit hcur
  have habsF : absFn E.finv (chunkE E.cs E.es i.currChunk) fb' = some r' := by
    rw [hsplit, hr']; exact absFn_advance hne
  rcases hcase with ⟨hb, rfl⟩ | ⟨hb, x, lr, hlc, rfl⟩
  · -- no location skip
    rw [hincL, hflag] at hb
    have hrun : consumeB i = .ok { i with fnR := some fb' } := by
      unfold consumeB
      rw [hfb]
      simp only [DecB.rd, hr, ok_bind, hskip, hb, Bool.false_eq_true, if_false, pure_eq_ok]
      rfl
    have habs : absIt E { i with fnR := some fb' } = { absIt E i with fnR := some r' } := by
      apply It.ext' <;> try rfl
      show absFnR E { i with fnR := some fb' } = some r'
      simp only [absFnR, hfn, if_true, habsF]
    refine ⟨_, hrun, ?_, habs, ⟨rfl, rfl, rfl, rfl, rfl, rfl⟩⟩
    refine ⟨h.cs, h.finv, h.act, fun _ => ⟨fb', rfl, hok'⟩, h.lc, ?_⟩
    rw [habs]; exact hal
  · -- with location skip
    rw [hincL, hflag] at hb
    have hl : i.fl.incL = true := by
      cases hh : i.fl.incL with
      | true => rfl
      | false => rw [hh] at hb; simp at hb
    obtain ⟨lb, lpre, le, lrr, hlb, hlok, hlsplit, hlr, _, hlr'⟩ := lc_head h hl hlc
    have hlmem : le ∈ (chunkE E.cs E.es i.currChunk).filter hasLocsE := by rw [hlsplit]; simp
    have hlne : le.locs ≠ [] := mem_filter_hasLocsE hlmem
    have hlmem' : le ∈ E.es := mem_chunkE (List.mem_filter.mp hlmem).1
    have hlskip := T3_skip lpre lrr le (hE.valid le hlmem') hlne
    let lb' : DecB := { lb with r := some ⟨locBytes (lpre ++ le :: lrr), (locBytes (lpre ++ [le])).length⟩ }
    have hlok' : LcOK E i.currChunk lb' := lcOK_advance hlok hlsplit hlr
    have habsL : absLc E.finv (chunkE E.cs E.es i.currChunk) lb' = lr := by
      rw [hlr']; exact absLc_advance hlsplit
    have hrun : consumeB i = .ok { i with fnR := some fb', lcR := some lb' } := by
      unfold consumeB
      rw [hfb]
      simp only [DecB.rd, hr, ok_bind, hskip, hb, if_true, hlb, hlr, hlskip, pure_eq_ok]
      rfl
    have habs : absIt E { i with fnR := some fb', lcR := some lb' } =
        { absIt E i with fnR := some r', lcR := lr } := by
      apply It.ext' <;> try rfl
      · show absFnR E { i with fnR := some fb', lcR := some lb' } = some r'
        simp only [absFnR, hfn, if_true, habsF]
      · show absLcR E { i with fnR := some fb', lcR := some lb' } = lr
        simp only [absLcR, hl, if_true, habsL]
    refine ⟨_, hrun, ?_, habs, ⟨rfl, rfl, rfl, rfl, rfl, rfl⟩⟩
    refine ⟨h.cs, h.finv, h.act, fun _ => ⟨fb', rfl, hok'⟩, fun _ => ⟨lb', rfl, hlok'⟩, ?_⟩
    rw [habs]; exact hal

theorem currChunkNextB_sim {E : Env} (hE : E.OK) {i : ItB} (h : WF E i) (hfn : i.fl.incFN = true)
    {c : Nat} (hc : c ≤ E.maxDoc / E.cs) {j : It} (hj : Iter.currChunkNext (absIt E i) c = some j) :
    ∃ i', currChunkNextB E.K i c = .ok i' ∧ WF E i' ∧ absIt E i' = j ∧ SameB i i' := by
  rw [Iter.currChunkNext_eq] at hj
  obtain ⟨i1, e1, w1, a1, s1⟩ := ensureB_sim hE h hfn hc
  rw [← a1] at hj
  have hfn1 : i1.fl.incFN = true := by rw [s1.fl]; exact hfn
  obtain ⟨i2, e2, w2, a2, s2⟩ := consumeB_sim hE w1 hfn1 hj
  refine ⟨i2, ?_, w2, a2, s1.trans s2⟩
  simp [currChunkNextB, e1, e2]

end Ice.Model.IterBytes
