/-
  The error-flow checker, independent of the generated facts (no import of `IceModel.Gen`).

  An error-flow event list lists, per function, the calls that can fail (`F`), calls whose error is
  discarded (`D`), returns (`R err` / `R nil`), jumps (`B`) and block structure.  `unchecked`
  collects every `F` that is NOT immediately followed by its check - `{ R err }`, possibly wrapping
  the error (`{ F R err }`), or returned directly (`F R err`).
  (Moved here from `Bridge/ErrFlow.lean`, names and namespace unchanged.)
-/
namespace Ice.Bridge.ErrFlow

abbrev Ev := String × String

/-- callees of the fallible calls that are not checked at once -/
def unchecked : List Ev → List String
  | [] => []
  | e :: rest =>
    if e.1 = "F" then
      match rest with
      | ("R", "err") :: _ => unchecked rest
      | ("{", "err") :: ("R", "err") :: ("}", _) :: _ => unchecked rest
      | ("{", "err") :: ("F", _) :: ("R", "err") :: ("}", _) :: _ => unchecked rest
      | _ => e.2 :: unchecked rest
    else unchecked rest

def dropped (l : List Ev) : List String := (l.filter (fun e => e.1 = "D")).map (·.2)

end Ice.Bridge.ErrFlow
