import IceModel.Lemmas.CacheFaultDv
/-
  (c) `loadDvChunk`: what the entry loop leaves in the backing array when it completes and when it
  is cut short by a failing read.
-/
namespace Ice.Model.CacheFault

def setDoc (e : Meta) (m : Meta) : Meta := { m with doc := e.doc }
def setOff (e : Meta) (m : Meta) : Meta := { m with off := e.off }

theorem loadEntries_cons (o : Oracle) (e : Meta) (es : List Meta) (i clk : Nat) (buf : List Meta) :
    loadEntries o (e :: es) i clk buf =
      if o clk then (buf, clk + 1, false)
      else if o (clk + 1) then (buf.modify i (setDoc e), clk + 2, false)
      else loadEntries o es (i + 1) (clk + 2) ((buf.modify i (setDoc e)).modify i (setOff e)) := rfl

theorem loadEntries_length (o : Oracle) (es : List Meta) : ∀ (i clk : Nat) (buf : List Meta),
    (loadEntries o es i clk buf).1.length = buf.length := by
  induction es with
  | nil => intro i clk buf; rfl
  | cons e es ih =>
    intro i clk buf
    rw [loadEntries_cons]
    cases o clk <;> simp only [Bool.false_eq_true, if_true, if_false]
    cases o (clk + 1) <;> simp only [Bool.false_eq_true, if_true, if_false]
    · rw [ih]; simp
    · simp

theorem loadEntries_clk (o : Oracle) (es : List Meta) : ∀ (i clk : Nat) (buf : List Meta),
    clk ≤ (loadEntries o es i clk buf).2.1 := by
  induction es with
  | nil => intro i clk buf; exact Nat.le_refl _
  | cons e es ih =>
    intro i clk buf
    rw [loadEntries_cons]
    cases o clk <;> simp only [Bool.false_eq_true, if_true, if_false]
    · cases o (clk + 1) <;> simp only [Bool.false_eq_true, if_true, if_false]
      · have := ih (i + 1) (clk + 2) ((buf.modify i (setDoc e)).modify i (setOff e))
        omega
      · omega
    · omega

/-- the loop completed: cells `i .. i+|es|` are the entries, all others untouched -/
theorem loadEntries_ok (o : Oracle) (es : List Meta) : ∀ (i clk : Nat) (buf : List Meta),
    i + es.length ≤ buf.length → (loadEntries o es i clk buf).2.2 = true →
    ∀ j, (loadEntries o es i clk buf).1[j]? =
      if i ≤ j ∧ j < i + es.length then es[j - i]? else buf[j]? := by
  induction es with
  | nil => intro i clk buf _ _ j; simp [loadEntries]; omega
  | cons e es ih =>
    intro i clk buf hlen hok j
    rw [loadEntries_cons] at hok ⊢
    cases h1 : o clk <;> simp only [h1, Bool.false_eq_true, if_true, if_false] at hok ⊢
    cases h2 : o (clk + 1) <;> simp only [h2, Bool.false_eq_true, if_true, if_false] at hok ⊢
    simp only [List.length_cons] at hlen
    rw [ih (i + 1) (clk + 2) _ (by simp; omega) hok j]
    by_cases hj : i = j
    · subst hj
      have hi : i < buf.length := by omega
      simp [List.getElem?_eq_getElem hi, setDoc, setOff]
      omega
    · by_cases hj2 : i + 1 ≤ j ∧ j < i + 1 + es.length
      · have : j - i = (j - (i + 1)) + 1 := by omega
        have h3 : i ≤ j ∧ j < i + (es.length + 1) := by omega
        simp [hj2, this, h3]
      · have h3 : ¬ (i ≤ j ∧ j < i + (es.length + 1)) := by omega
        simp [hj2, h3, hj]

theorem modify_cell {buf : List Meta} {i j : Nat} {f : Meta → Meta} {m' : Meta}
    (h : (buf.modify i f)[j]? = some m') :
    (i ≠ j ∧ buf[j]? = some m') ∨ (i = j ∧ ∃ b, buf[j]? = some b ∧ m' = f b) := by
  rw [List.getElem?_modify] at h
  cases hb : buf[j]? with
  | none => rw [hb] at h; simp at h
  | some b =>
    rw [hb] at h
    simp only [Option.map_eq_map, Option.map_some, Option.some.injEq] at h
    by_cases hij : i = j
    · right; simp only [hij, if_true] at h; exact ⟨hij, b, rfl, h.symm⟩
    · left; simp only [hij, if_false] at h; exact ⟨hij, by rw [h]⟩

/-- the loop was cut short: some read at or after `clk` failed; every cell is untouched or
    carries the document number of one of the new entries -/
theorem loadEntries_fail (o : Oracle) (es : List Meta) : ∀ (i clk : Nat) (buf : List Meta),
    (loadEntries o es i clk buf).2.2 = false →
    (∃ k, clk ≤ k ∧ k < (loadEntries o es i clk buf).2.1 ∧ o k = true) ∧
    ∀ (j : Nat) (m' : Meta), (loadEntries o es i clk buf).1[j]? = some m' →
      buf[j]? = some m' ∨ ∃ e ∈ es, m'.doc = e.doc := by
  induction es with
  | nil => intro i clk buf h; simp [loadEntries] at h
  | cons e es ih =>
    intro i clk buf hfail
    rw [loadEntries_cons] at hfail ⊢
    cases h1 : o clk <;> simp only [h1, Bool.false_eq_true, if_true, if_false] at hfail ⊢
    · cases h2 : o (clk + 1) <;> simp only [h2, Bool.false_eq_true, if_true, if_false] at hfail ⊢
      · obtain ⟨⟨k, hk1, hk2, hk3⟩, hcells⟩ := ih (i + 1) (clk + 2) _ hfail
        refine ⟨⟨k, by omega, hk2, hk3⟩, fun j m' h => ?_⟩
        rcases hcells j m' h with h' | ⟨e', he', hd'⟩
        · rcases modify_cell h' with ⟨_, h''⟩ | ⟨_, b, h'', hb⟩
          · rcases modify_cell h'' with ⟨_, h3⟩ | ⟨_, b2, h3, hb2⟩
            · left; exact h3
            · right; exact ⟨e, by simp, by rw [hb2]; rfl⟩
          · rcases modify_cell h'' with ⟨_, h3⟩ | ⟨_, b2, h3, hb2⟩
            · omega
            · right; exact ⟨e, by simp, by rw [hb, hb2]; rfl⟩
        · right; exact ⟨e', by simp [he'], hd'⟩
      · refine ⟨⟨clk + 1, by omega, by omega, h2⟩, fun j m' h => ?_⟩
        rcases modify_cell h with ⟨_, h'⟩ | ⟨_, b, _, hb⟩
        · left; exact h'
        · right; exact ⟨e, by simp, by rw [hb]; rfl⟩
    · exact ⟨⟨clk, Nat.le_refl _, by omega, h1⟩, fun j m' h => Or.inl h⟩

end Ice.Model.CacheFault
