import IceModel.Model.Writer
/-
  Lemmas about the writer-plumbing model (bufio.Writer, countHashWriter, WriteTo, footer codec).
-/
namespace Ice.Model.Writer

/-! ### unfolding equations in projection form -/

theorem sinkWrite_def (s : Sink) (st : SinkSt) (p : Bytes) :
    sinkWrite s st p =
      ({ got := st.got ++ p.take (s.beh st.calls st.got.length p.length).acc,
         calls := st.calls + 1,
         erred := st.erred || (s.beh st.calls st.got.length p.length).err },
       (s.beh st.calls st.got.length p.length).acc,
       (s.beh st.calls st.got.length p.length).err) := rfl

theorem flush_def (s : Sink) (b : Bufio) :
    flush s b =
      if b.err then (b, true)
      else if b.buf.isEmpty then (b, false)
      else
        if ((sinkWrite s b.sk b.buf).2.2 || decide ((sinkWrite s b.sk b.buf).2.1 < b.buf.length)) then
          ({ b with sk := (sinkWrite s b.sk b.buf).1, buf := b.buf.drop (sinkWrite s b.sk b.buf).2.1,
                    err := true }, true)
        else ({ b with sk := (sinkWrite s b.sk b.buf).1, buf := [] }, false) := rfl

theorem writeLoop_succ (s : Sink) (fuel : Nat) (b : Bufio) (p : Bytes) (nn : Nat) :
    writeLoop s (fuel + 1) b p nn =
      if (decide (p.length > b.size - b.buf.length) && !b.err) then
        if b.buf.isEmpty then
          writeLoop s fuel { b with sk := (sinkWrite s b.sk p).1, err := (sinkWrite s b.sk p).2.2 }
            (p.drop (sinkWrite s b.sk p).2.1) (nn + (sinkWrite s b.sk p).2.1)
        else
          writeLoop s fuel
            (flush s { b with buf := b.buf ++ p.take (min (b.size - b.buf.length) p.length) }).1
            (p.drop (min (b.size - b.buf.length) p.length))
            (nn + min (b.size - b.buf.length) p.length)
      else (b, p, nn) := rfl

theorem bwrite_def (s : Sink) (b : Bufio) (p : Bytes) :
    bwrite s b p =
      if (writeLoop s (p.length + 2) b p 0).1.err then
        ((writeLoop s (p.length + 2) b p 0).1, (writeLoop s (p.length + 2) b p 0).2.2, true)
      else
        ({ (writeLoop s (p.length + 2) b p 0).1 with
            buf := (writeLoop s (p.length + 2) b p 0).1.buf ++ (writeLoop s (p.length + 2) b p 0).2.1 },
         (writeLoop s (p.length + 2) b p 0).2.2 + (writeLoop s (p.length + 2) b p 0).2.1.length,
         false) := rfl

/-! ### predicates on the sink state preserved by every sink call -/

/-- `P` is preserved by every call of the sink -/
def SinkPres (s : Sink) (P : SinkSt → Prop) : Prop := ∀ st p, P st → P (sinkWrite s st p).1

theorem flush_pres {s : Sink} {P : SinkSt → Prop} (hP : SinkPres s P) (b : Bufio) (h : P b.sk) :
    P (flush s b).1.sk := by
  rw [flush_def]
  split
  · exact h
  · split
    · exact h
    · split
      · exact hP _ _ h
      · exact hP _ _ h

theorem writeLoop_pres {s : Sink} {P : SinkSt → Prop} (hP : SinkPres s P) (fuel : Nat) :
    ∀ (b : Bufio) (p : Bytes) (nn : Nat), P b.sk → P (writeLoop s fuel b p nn).1.sk := by
  induction fuel with
  | zero => intro b p nn h; exact h
  | succ fuel ih =>
    intro b p nn h
    rw [writeLoop_succ]
    split
    · split
      · exact ih _ _ _ (hP _ _ h)
      · exact ih _ _ _ (flush_pres hP _ h)
    · exact h

theorem bwrite_pres {s : Sink} {P : SinkSt → Prop} (hP : SinkPres s P) (b : Bufio) (p : Bytes)
    (h : P b.sk) : P (bwrite s b p).1.sk := by
  rw [bwrite_def]
  split
  · exact writeLoop_pres hP _ _ _ _ h
  · exact writeLoop_pres hP _ _ _ _ h

theorem mergeWrites_pres {s : Sink} {P : SinkSt → Prop} (hP : SinkPres s P) (h : CRC)
    (honour : Nat → Bool) (W : List Bytes) :
    ∀ (i : Nat) (b : Bufio) (c : CHW), P b.sk → P (mergeWrites s h honour W i b c).1.sk := by
  induction W with
  | nil => intro i b c hb; exact hb
  | cons p W ih =>
    intro i b c hb
    simp only [mergeWrites]
    split
    · exact bwrite_pres hP _ _ hb
    · exact ih _ _ _ (bwrite_pres hP _ _ hb)

/-! ### the bufio invariant -/

structure Inv (b : Bufio) (done : Bytes) : Prop where
  len : b.buf.length ≤ b.size
  err : b.err = b.sk.erred
  data : b.sk.erred = false → b.sk.got ++ b.buf = done

theorem sinkWrite_wb {s : Sink} (hs : s.WellBehaved) (st : SinkSt) (p : Bytes) :
    (sinkWrite s st p).2.1 ≤ p.length ∧
    ((sinkWrite s st p).2.2 = false → (sinkWrite s st p).2.1 = p.length) := by
  have := hs st.calls st.got.length p.length
  simp only [sinkWrite_def]
  refine ⟨this.1, fun h => ?_⟩
  have h2 := this.2
  rw [h] at h2
  have : ¬ (s.beh st.calls st.got.length p.length).acc < p.length := fun hh => by simpa using h2 hh
  omega

theorem flush_spec {s : Sink} (hs : s.WellBehaved) {b : Bufio} {done : Bytes} (hi : Inv b done) :
    (flush s b).1.size = b.size ∧ Inv (flush s b).1 done ∧ (flush s b).2 = (flush s b).1.err ∧
    ((flush s b).1.sk.erred = false → (flush s b).1.buf = []) := by
  obtain ⟨hl, he, hd⟩ := hi
  rw [flush_def]
  by_cases h1 : b.err = true
  · rw [if_pos h1]
    refine ⟨rfl, ⟨hl, he, hd⟩, h1.symm, ?_⟩
    intro h; rw [← he, h1] at h; cases h
  · rw [if_neg h1]
    by_cases h2 : b.buf.isEmpty = true
    · rw [if_pos h2]
      refine ⟨rfl, ⟨hl, he, hd⟩, ?_, ?_⟩
      · simpa using h1
      · intro _; simpa using h2
    · rw [if_neg h2]
      obtain ⟨hw1, hw2⟩ := sinkWrite_wb hs b.sk b.buf
      have hk : (sinkWrite s b.sk b.buf).1.erred = (b.sk.erred || (sinkWrite s b.sk b.buf).2.2) := rfl
      have hg : (sinkWrite s b.sk b.buf).1.got = b.sk.got ++ b.buf.take (sinkWrite s b.sk b.buf).2.1 := rfl
      generalize sinkWrite s b.sk b.buf = r at *
      obtain ⟨sk, n, e⟩ := r
      simp only at hw1 hw2 hk hg
      have hb : b.sk.erred = false := by rw [← he]; simpa using h1
      split
      · rename_i h3
        have he' : e = true := by
          cases e
          · have := hw2 rfl; simp at h3; omega
          · rfl
        refine ⟨rfl, ⟨?_, ?_, ?_⟩, rfl, ?_⟩
        · simp only [List.length_drop]; omega
        · simp [hk, he']
        · simp [hk, he']
        · simp [hk, he']
      · rename_i h3
        have he' : e = false := by
          cases e
          · rfl
          · simp at h3
        have hn := hw2 he'
        refine ⟨rfl, ⟨?_, ?_, ?_⟩, ?_, ?_⟩
        · simp
        · simp [hk, he', hb, he]
        · intro _
          simp only [hg, hn, List.take_length, List.append_nil]
          exact hd hb
        · simpa using h1
        · intro _; rfl

theorem writeLoop_stop (s : Sink) (fuel : Nat) (b : Bufio) (p : Bytes) (nn : Nat)
    (h : (decide (p.length > b.size - b.buf.length) && !b.err) = false) :
    writeLoop s fuel b p nn = (b, p, nn) := by
  cases fuel with
  | zero => rfl
  | succ fuel => rw [writeLoop_succ, h]; rfl

/-- what the loop of `Write` guarantees on exit -/
structure WLPost (b : Bufio) (done p : Bytes) (nn : Nat) (r : Bufio × Bytes × Nat) : Prop where
  size : r.1.size = b.size
  len : r.1.buf.length ≤ b.size
  err : r.1.err = r.1.sk.erred
  ok : r.1.sk.erred = false →
      r.1.sk.got ++ r.1.buf ++ r.2.1 = done ++ p ∧ r.2.2 + r.2.1.length = nn + p.length ∧
      r.1.buf.length + r.2.1.length ≤ b.size

theorem wl_stop_post {b : Bufio} {done : Bytes} (hi : Inv b done) (p : Bytes) (nn : Nat)
    (h : (decide (p.length > b.size - b.buf.length) && !b.err) = false) :
    WLPost b done p nn (b, p, nn) := by
  obtain ⟨hl, he, hd⟩ := hi
  refine ⟨rfl, hl, he, fun hk => ⟨?_, rfl, ?_⟩⟩
  · simp only [hd hk]
  · rw [he, hk] at h
    simp at h
    simp only
    omega

theorem wl_empty {s : Sink} (hs : s.WellBehaved) {b : Bufio} {done : Bytes} (hi : Inv b done)
    (hemp : b.sk.erred = false → b.buf = []) (p : Bytes) (nn fuel : Nat) :
    WLPost b done p nn (writeLoop s (fuel + 1) b p nn) := by
  by_cases hc : (decide (p.length > b.size - b.buf.length) && !b.err) = true
  · rw [writeLoop_succ, if_pos hc]
    obtain ⟨hl, he, hd⟩ := hi
    have herr : b.err = false := by simp at hc; exact hc.2
    have hk : b.sk.erred = false := by rw [← he]; exact herr
    have hb := hemp hk
    rw [hb]
    rw [if_pos (by rfl)]
    obtain ⟨hw1, hw2⟩ := sinkWrite_wb hs b.sk p
    have hke : (sinkWrite s b.sk p).1.erred = (b.sk.erred || (sinkWrite s b.sk p).2.2) := rfl
    have hg : (sinkWrite s b.sk p).1.got = b.sk.got ++ p.take (sinkWrite s b.sk p).2.1 := rfl
    generalize sinkWrite s b.sk p = r at *
    obtain ⟨sk, n, e⟩ := r
    simp only at hw1 hw2 hke hg
    rw [writeLoop_stop]
    · refine ⟨rfl, by simp, by simp [hke, hk], ?_⟩
      simp only [hke, hk, Bool.false_or]
      intro he'
      have hn := hw2 he'
      have hd' := hd hk
      rw [hb] at hd'
      simp at hd'
      simp [hg, hn, hd']
    · cases e
      · have hn := hw2 rfl
        simp [hn]
      · simp
  · have hc' : (decide (p.length > b.size - b.buf.length) && !b.err) = false := by simpa using hc
    rw [writeLoop_stop _ _ _ _ _ hc']
    exact wl_stop_post hi p nn hc'

theorem wl_spec {s : Sink} (hs : s.WellBehaved) {b : Bufio} {done : Bytes} (hi : Inv b done)
    (p : Bytes) (nn fuel : Nat) :
    WLPost b done p nn (writeLoop s (fuel + 2) b p nn) := by
  by_cases hc : (decide (p.length > b.size - b.buf.length) && !b.err) = true
  · by_cases hb : b.buf.isEmpty = true
    · exact wl_empty hs hi (fun _ => by simpa using hb) p nn (fuel + 1)
    · rw [writeLoop_succ, if_pos hc, if_neg hb]
      have herr : b.err = false := by simp at hc; exact hc.2
      have hgt : p.length > b.size - b.buf.length := by simp at hc; exact hc.1
      have hmin : min (b.size - b.buf.length) p.length = b.size - b.buf.length := by omega
      rw [hmin]
      have hi1 : Inv { b with buf := b.buf ++ p.take (b.size - b.buf.length) }
          (done ++ p.take (b.size - b.buf.length)) := by
        obtain ⟨hl, he, hd⟩ := hi
        refine ⟨?_, he, fun hk => ?_⟩
        · simp only [List.length_append, List.length_take]; omega
        · simp only [← List.append_assoc]; rw [hd hk]
      obtain ⟨f1, f2, _, f4⟩ := flush_spec hs hi1
      have := wl_empty hs f2 f4 (p.drop (b.size - b.buf.length)) (nn + (b.size - b.buf.length)) fuel
      obtain ⟨g1, g2, g3, g4⟩ := this
      refine ⟨g1.trans f1, ?_, g3, fun hk => ?_⟩
      · rw [f1] at g2; exact g2
      · obtain ⟨k1, k2, k3⟩ := g4 hk
        refine ⟨?_, ?_, ?_⟩
        · rw [k1, List.append_assoc, List.take_append_drop]
        · rw [k2]; simp only [List.length_drop]; omega
        · rw [f1] at k3; exact k3
  · have hc' : (decide (p.length > b.size - b.buf.length) && !b.err) = false := by simpa using hc
    rw [writeLoop_stop _ _ _ _ _ hc']
    exact wl_stop_post hi p nn hc'

theorem bwrite_spec {s : Sink} (hs : s.WellBehaved) {b : Bufio} {done : Bytes} (hi : Inv b done)
    (p : Bytes) :
    (bwrite s b p).1.size = b.size ∧ Inv (bwrite s b p).1 (done ++ p) ∧
    (bwrite s b p).2.2 = (bwrite s b p).1.err ∧
    ((bwrite s b p).1.sk.erred = false → (bwrite s b p).2.1 = p.length) := by
  obtain ⟨g1, g2, g3, g4⟩ := wl_spec hs hi p 0 p.length
  rw [bwrite_def]
  generalize writeLoop s (p.length + 2) b p 0 = r at *
  obtain ⟨b', p', nn⟩ := r
  simp only at g1 g2 g3 g4
  split
  · rename_i he
    simp only at he
    refine ⟨g1, ⟨by rw [g1]; exact g2, g3, fun hk => ?_⟩, he.symm, fun hk => ?_⟩
    · simp only at hk; rw [← g3, he] at hk; cases hk
    · simp only at hk; rw [← g3, he] at hk; cases hk
  · rename_i he
    simp only at he
    have he' : b'.err = false := by simpa using he
    have hk : b'.sk.erred = false := by rw [← g3]; exact he'
    obtain ⟨k1, k2, k3⟩ := g4 hk
    refine ⟨g1, ⟨?_, g3, fun _ => ?_⟩, he'.symm, fun _ => ?_⟩
    · simp only [List.length_append]; rw [g1]; exact k3
    · simp only [← List.append_assoc]; exact k1
    · simp only; omega

/-! ### scripts of writes -/

theorem erred_mono (s : Sink) : SinkPres s (fun st => st.erred = true) := by
  intro st p h
  simp only [sinkWrite_def, h, Bool.true_or]

/-- the running checksum after a script: fold of the update function -/
def crcFold (h : CRC) (c : Nat) (W : List Bytes) : Nat := W.foldl h.upd c

theorem crcFold_cons (h : CRC) (c : Nat) (p : Bytes) (W : List Bytes) :
    crcFold h c (p :: W) = h.upd c (p ++ W.flatten) := by
  induction W generalizing c p with
  | nil => simp [crcFold]
  | cons q W ih =>
    have := ih (h.upd c p) q
    simp only [crcFold, List.foldl_cons] at this ⊢
    rw [this, h.upd_append]
    simp

theorem crcFold_flatten (h : CRC) (c : Nat) (W : List Bytes) (hW : W = [] → h.upd c [] = c) :
    crcFold h c W = h.upd c W.flatten := by
  cases W with
  | nil => simp [crcFold, hW rfl]
  | cons p W => rw [crcFold_cons]; simp

theorem mergeWrites_spec {s : Sink} (hs : s.WellBehaved) (h : CRC) (honour : Nat → Bool)
    (W : List Bytes) :
    ∀ (i : Nat) (b : Bufio) (c : CHW) (done : Bytes), Inv b done →
      (mergeWrites s h honour W i b c).1.size = b.size ∧
      Inv (mergeWrites s h honour W i b c).1 (done ++ W.flatten) ∧
      ((mergeWrites s h honour W i b c).1.sk.erred = false →
        (mergeWrites s h honour W i b c).2.2 = false ∧
        (mergeWrites s h honour W i b c).2.1 =
          { crc := crcFold h c.crc W, n := c.n + W.flatten.length }) := by
  induction W with
  | nil =>
    intro i b c done hi
    simp only [mergeWrites, List.flatten_nil, List.append_nil, List.length_nil, Nat.add_zero]
    exact ⟨trivial, hi, fun _ => ⟨trivial, rfl⟩⟩
  | cons p W ih =>
    intro i b c done hi
    obtain ⟨g1, g2, g3, g4⟩ := bwrite_spec hs hi p
    simp only [mergeWrites]
    split
    · rename_i he
      have he' : (bwrite s b p).1.sk.erred = true := by
        rw [← g2.err, ← g3]; simp at he; exact he.1
      refine ⟨g1, ⟨g2.len, g2.err, fun hk => ?_⟩, fun hk => ?_⟩
      · rw [he'] at hk; cases hk
      · rw [he'] at hk; cases hk
    · obtain ⟨k1, k2, k3⟩ := ih (i + 1) (bwrite s b p).1 (c.note h p (bwrite s b p).2.1) (done ++ p) g2
      refine ⟨k1.trans g1, ?_, fun hk => ?_⟩
      · simpa only [List.flatten_cons, List.append_assoc] using k2
      · obtain ⟨m1, m2⟩ := k3 hk
        refine ⟨m1, ?_⟩
        rw [m2]
        have hb : (bwrite s b p).1.sk.erred = false := by
          cases hb : (bwrite s b p).1.sk.erred
          · rfl
          · have := mergeWrites_pres (erred_mono s) h honour W (i + 1) (bwrite s b p).1
              (c.note h p (bwrite s b p).2.1) hb
            rw [this] at hk; cases hk
        rw [g4 hb]
        simp only [CHW.note, List.take_length, List.flatten_cons, List.length_append, crcFold, List.foldl_cons,
          Nat.add_assoc]
/-! ### `Merger.WriteTo` -/

theorem mergerWriteTo_def (s : Sink) (h : CRC) (honour : Nat → Bool) (size : Nat) (W : List Bytes) :
    mergerWriteTo s h honour size W =
      if (mergeWrites s h honour W 0 { size := size } {}).2.2 then
        (.error, (mergeWrites s h honour W 0 { size := size } {}).1.sk)
      else if (flush s (mergeWrites s h honour W 0 { size := size } {}).1).2 then
        (.error, (flush s (mergeWrites s h honour W 0 { size := size } {}).1).1.sk)
      else (.ok (mergeWrites s h honour W 0 { size := size } {}).2.1.n,
            (flush s (mergeWrites s h honour W 0 { size := size } {}).1).1.sk) := rfl

theorem mergerWriteTo_pres {s : Sink} {P : SinkSt → Prop} (hP : SinkPres s P) (h : CRC)
    (honour : Nat → Bool) (size : Nat) (W : List Bytes) (h0 : P {}) :
    P (mergerWriteTo s h honour size W).2 := by
  have hm := mergeWrites_pres hP h honour W 0 { size := size } {} h0
  rw [mergerWriteTo_def]
  split
  · exact hm
  · have := flush_pres hP _ hm
    split
    · exact this
    · exact this

theorem inv_init (size : Nat) (sk : SinkSt) (hk : sk.erred = false) :
    Inv { size := size, sk := sk } sk.got :=
  ⟨Nat.zero_le _, hk.symm, fun _ => List.append_nil _⟩

theorem mergerWriteTo_spec {s : Sink} (hs : s.WellBehaved) (h : CRC) (honour : Nat → Bool)
    (size : Nat) (W : List Bytes) :
    ((mergerWriteTo s h honour size W).2.erred = true → (mergerWriteTo s h honour size W).1 = .error) ∧
    ((mergerWriteTo s h honour size W).2.erred = false →
      (mergerWriteTo s h honour size W).1 = .ok W.flatten.length ∧
      (mergerWriteTo s h honour size W).2.got = W.flatten) := by
  have hi : Inv ({ size := size } : Bufio) [] := inv_init size {} rfl
  obtain ⟨g1, g2, g3⟩ := mergeWrites_spec hs h honour W 0 _ {} [] hi
  obtain ⟨f1, f2, f3, f4⟩ := flush_spec hs g2
  rw [mergerWriteTo_def]
  generalize mergeWrites s h honour W 0 { size := size } {} = r at *
  obtain ⟨b, c, e⟩ := r
  simp only at g1 g2 g3 f1 f2 f3 f4 ⊢
  split
  · rename_i he
    refine ⟨fun _ => rfl, fun hk => ?_⟩
    simp only at hk
    rw [(g3 hk).1] at he; cases he
  · rename_i he
    split
    · rename_i hf
      refine ⟨fun _ => rfl, fun hk => ?_⟩
      simp only at hk
      rw [f3, f2.err, hk] at hf; cases hf
    · rename_i hf
      refine ⟨fun hk => ?_, fun hk => ?_⟩
      · simp only at hk
        rw [f3, f2.err, hk] at hf; exact absurd rfl hf
      · simp only at hk ⊢
        have hb : b.sk.erred = false := by
          cases hb : b.sk.erred
          · rfl
          · have := flush_pres (erred_mono s) b hb
            rw [this] at hk; cases hk
        have := f2.data hk
        rw [f4 hk] at this
        simp only [List.append_nil, List.nil_append] at this
        refine ⟨?_, this⟩
        rw [(g3 hb).2]
        simp
/-! ### `Segment.WriteTo` -/

theorem length_be (k x : Nat) : (be k x).length = k := by
  induction k with
  | zero => rfl
  | succ k ih => simp [be, ih]

theorem length_footerFields (f : Footer) : (footerFields f).length = 40 := by
  simp [footerFields, length_be]

theorem length_persistFooter (h : CRC) (f : Footer) : (persistFooter h f).length = 44 := by
  simp [persistFooter, length_footerFields, length_be]

theorem segmentWriteTo_def (s : Sink) (h : CRC) (data : Bytes) (f : Footer) :
    segmentWriteTo s h data f =
      if (sinkWrite s {} data).2.2 then (.error, (sinkWrite s {} data).1)
      else
        if (bwrite s { size := 4096, sk := (sinkWrite s {} data).1 }
              (persistFooter h { f with crc := h.upd 0 (data.take (sinkWrite s {} data).2.1) })).2.2 then
          (.error, (bwrite s { size := 4096, sk := (sinkWrite s {} data).1 }
              (persistFooter h { f with crc := h.upd 0 (data.take (sinkWrite s {} data).2.1) })).1.sk)
        else
          if (flush s (bwrite s { size := 4096, sk := (sinkWrite s {} data).1 }
              (persistFooter h { f with crc := h.upd 0 (data.take (sinkWrite s {} data).2.1) })).1).2 then
            (.error, (flush s (bwrite s { size := 4096, sk := (sinkWrite s {} data).1 }
              (persistFooter h { f with crc := h.upd 0 (data.take (sinkWrite s {} data).2.1) })).1).1.sk)
          else
            (.ok ((sinkWrite s {} data).2.1 + 44), (flush s (bwrite s { size := 4096, sk := (sinkWrite s {} data).1 }
              (persistFooter h { f with crc := h.upd 0 (data.take (sinkWrite s {} data).2.1) })).1).1.sk) := rfl

theorem segmentWriteTo_spec {s : Sink} (hs : s.WellBehaved) (h : CRC) (data : Bytes) (f : Footer) :
    ((segmentWriteTo s h data f).2.erred = true → (segmentWriteTo s h data f).1 = .error) ∧
    ((segmentWriteTo s h data f).2.erred = false →
      (segmentWriteTo s h data f).1 = .ok (data.length + 44) ∧
      (segmentWriteTo s h data f).2.got = data ++ persistFooter h { f with crc := h.upd 0 data }) := by
  rw [segmentWriteTo_def]
  obtain ⟨hw1, hw2⟩ := sinkWrite_wb hs {} data
  have hke : (sinkWrite s {} data).1.erred = (sinkWrite s {} data).2.2 := rfl
  have hg : (sinkWrite s {} data).1.got = data.take (sinkWrite s {} data).2.1 := rfl
  generalize sinkWrite s {} data = r at *
  obtain ⟨sk, n, e⟩ := r
  simp only at hw1 hw2 hke hg ⊢
  split
  · rename_i he
    refine ⟨fun _ => rfl, fun hk => ?_⟩
    simp only at hk
    rw [hke, he] at hk; cases hk
  · rename_i he
    have he' : e = false := by simpa using he
    have hn := hw2 he'
    subst hn
    rw [List.take_length] at hg ⊢
    have hi : Inv { size := 4096, sk := sk } data := by
      have := inv_init 4096 sk (by rw [hke, he'])
      rwa [hg] at this
    obtain ⟨g1, g2, g3, g4⟩ := bwrite_spec hs hi (persistFooter h { f with crc := h.upd 0 data })
    obtain ⟨f1, f2, f3, f4⟩ := flush_spec hs g2
    generalize bwrite s { size := 4096, sk := sk } (persistFooter h { f with crc := h.upd 0 data }) = r at *
    obtain ⟨b, m, e1⟩ := r
    simp only at g1 g2 g3 g4 f1 f2 f3 f4 ⊢
    split
    · rename_i h1
      refine ⟨fun _ => rfl, fun hk => ?_⟩
      simp only at hk
      rw [g3, g2.err, hk] at h1; cases h1
    · split
      · rename_i hf
        refine ⟨fun _ => rfl, fun hk => ?_⟩
        simp only at hk
        rw [f3, f2.err, hk] at hf; cases hf
      · rename_i hf
        refine ⟨fun hk => ?_, fun hk => ?_⟩
        · simp only at hk
          rw [f3, f2.err, hk] at hf; exact absurd rfl hf
        · simp only at hk ⊢
          have := f2.data hk
          rw [f4 hk] at this
          simp only [List.append_nil] at this
          exact ⟨trivial, this⟩
/-! ### sinks that never fail; the footer codec -/

theorem noErr_pres (s : Sink) (hn : ∀ i g n, (s.beh i g n).err = false) :
    SinkPres s (fun st => st.erred = false) := by
  intro st p h
  simp only [sinkWrite_def, h, hn, Bool.or_false]

theorem foldl_be (k x acc : Nat) :
    (be k x).foldl (fun acc b => acc * 256 + b) acc = acc * 256 ^ k + x % 256 ^ k := by
  induction k generalizing acc with
  | zero => simp [be, Nat.mod_one]
  | succ k ih =>
    simp only [be, List.foldl_cons, ih]
    rw [Nat.pow_succ, Nat.mod_mul, Nat.add_mul, Nat.mul_assoc, Nat.mul_comm 256 (256 ^ k),
      Nat.mul_comm (256 ^ k) (x / 256 ^ k % 256)]
    omega

theorem unbe_be' (k x : Nat) (h : x < 256 ^ k) : unbe (be k x) = x := by
  rw [unbe, foldl_be, Nat.mod_eq_of_lt h]; simp

theorem parseFooter_append (data a b c d e f g : Bytes)
    (ha : a.length = 8) (hb : b.length = 8) (hc : c.length = 8) (hd : d.length = 8)
    (he : e.length = 4) (hf : f.length = 4) (hg : g.length = 4) :
    parseFooter (data ++ (a ++ b ++ c ++ d ++ e ++ f ++ g)) =
      if unbe f != 2 then none
      else some { numDocs := unbe a, storedIndexOffset := unbe b, fieldsIndexOffset := unbe c,
                  docValueOffset := unbe d, chunkMode := unbe e, version := unbe f, crc := unbe g } := by
  have hlen : (a ++ b ++ c ++ d ++ e ++ f ++ g).length = 44 := by simp [*]
  unfold parseFooter
  rw [if_neg (by simp only [List.length_append, hlen]; omega)]
  have : (data ++ (a ++ b ++ c ++ d ++ e ++ f ++ g)).length - 44 = data.length := by
    rw [List.length_append, hlen]; omega
  rw [this, List.drop_left]
  simp [List.drop_append, List.drop_eq_nil_of_le, List.take_of_length_le, *]
end Ice.Model.Writer
