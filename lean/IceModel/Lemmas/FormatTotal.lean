import IceModel.Lemmas.Format
import IceModel.Lemmas.Sort
/-
  TOTALITY of the container writer (`Model/Format.lean: serialize`): every error branch of
  `serialize` / `foldW` / `writeField` / `writeTerm` is excluded by the structural validity of the
  description.  Which branches exist and what excludes them:

    getChunkSize          err   unknown chunk mode                 chunkMode ≤ 1025
    Coder.new             panic chunkSize 0 / length ≥ 2^63        1024 > 0, numDocs < 2^32
    Coder.setChunkSize    panic chunkSize 0 / length ≥ 2^63        1 ≤ chunkMode, card ≤ numDocs,
                                                                   0 < numDocs < 2^32
    Coder.encode          panic `chunkLens[currChunk]` out of      entries ascending by document,
                                range (Add after a later chunk,    documents < numDocs (T5)
                                document beyond maxDocNum)
    writeTerm, 1-hit      err   1-hit in the builder, document     TermDesc.Valid
                                not `under32Bits`
    writeField            err   vellum `Insert` out of order       term keys ascending (and the
                                                                   order is transitive, so dropping
                                                                   the terms with value 0 keeps it)
    buildField/mergeField panic/err of the content coder           C07.Valid (C07.writeField_eq)

  No bound on the SIZE of the output is needed: offsets are computed in `uint64` with wrap-around,
  which never fails (it makes the file unreadable, which is what the `size` field of `C04.Valid`
  is about, not a failing writer).
-/
namespace Ice.Model.Format
open Ice Ice.Model
open Ice.Model.Writer (be unbe Footer)
open Ice.Model.ChunkBytes (Entry BLoc Coder tfAdds locAdds uvarintU64 Fresh TailZero)
open Ice.Model.DocValues (add64 sub64 maxUint64)

/-! ### the writer loop -/

/-- if every step from a state satisfying `I` succeeds and re-establishes `I`, so does the loop -/
theorem foldW_ok {σ α β : Type} (step : σ → Nat → α → Res (σ × Bytes × β)) (I : σ → Prop)
    (l : List α)
    (hstep : ∀ s c x, I s → x ∈ l → ∃ s' b o, step s c x = .ok (s', b, o) ∧ I s') :
    ∀ s c, I s → ∃ s' B O, foldW step s c l = .ok (s', B, O) ∧ I s' := by
  induction l with
  | nil => intro s c hI; exact ⟨s, [], [], rfl, hI⟩
  | cons a r ih =>
    intro s c hI
    obtain ⟨s1, b, o, h1, hI1⟩ := hstep s c a hI (by simp)
    obtain ⟨s2, bs, os, h2, hI2⟩ :=
      ih (fun s c x hI hx => hstep s c x hI (by simp [hx])) s1 (c + b.length) hI1
    exact ⟨s2, b ++ bs, o :: os, by simp only [foldW, h1, h2], hI2⟩

/-! ### ascending keys -/

theorem ascKeys_pairwise : ∀ ks : List Bytes, ascKeys ks = true →
    ks.Pairwise (fun a b => Bytes.cmp a b = .lt)
  | [], _ => .nil
  | [a], _ => by simp
  | a :: b :: r, h => by
    simp only [ascKeys, Bool.and_eq_true] at h
    have ih := ascKeys_pairwise (b :: r) h.2
    have hab : Bytes.cmp a b = .lt := by simpa [Bytes.lt] using h.1
    refine List.pairwise_cons.mpr ⟨?_, ih⟩
    intro x hx
    rcases List.mem_cons.mp hx with rfl | hx
    · exact hab
    · exact Bytes.cmp_lt_trans hab ((List.pairwise_cons.mp ih).1 x hx)

theorem pairwise_ascKeys : ∀ ks : List Bytes, ks.Pairwise (fun a b => Bytes.cmp a b = .lt) →
    ascKeys ks = true
  | [], _ => rfl
  | [a], _ => rfl
  | a :: b :: r, h => by
    have h1 := List.pairwise_cons.mp h
    simp only [ascKeys, Bool.and_eq_true]
    exact ⟨by simp [Bytes.lt, h1.1 b (by simp)], pairwise_ascKeys (b :: r) h1.2⟩

/-- `Bytes.cmp` is transitive, so a subsequence of an ascending key list is ascending: vellum
    accepts the keys that are left when terms without postings are skipped -/
theorem ascKeys_sublist {ks ks' : List Bytes} (hs : ks'.Sublist ks) (h : ascKeys ks = true) :
    ascKeys ks' = true :=
  pairwise_ascKeys ks' ((ascKeys_pairwise ks h).sublist hs)

theorem fstEntries_keys_sublist (terms : List (Bytes × TermDesc)) (vals : List Nat)
    (hl : vals.length = terms.length) :
    ((fstEntries terms vals).map (·.1)).Sublist (terms.map (·.1)) := by
  unfold fstEntries
  have h1 : (((terms.map (·.1)).zip vals).filter (fun p => decide (p.2 > 0))).Sublist
      ((terms.map (·.1)).zip vals) := List.filter_sublist
  have h2 := h1.map (·.1)
  rw [List.map_fst_zip (by simp [hl])] at h2
  exact h2

/-! ### one term -/

theorem writeTerm_ok (K : Codecs) (merger : Bool) (chunkMode numDocs : Nat)
    (hmode : 1 ≤ chunkMode ∧ chunkMode ≤ 1025) (hnd : 0 < numDocs) (hn32 : numDocs < 2 ^ 32)
    (st : Coders) (count : Nat) (t : Bytes × TermDesc)
    (hI : Fresh st.tf ∧ Fresh st.lc) (hv : t.2.Valid merger numDocs) :
    ∃ st' b v, writeTerm K merger chunkMode numDocs st count t = .ok (st', b, v) ∧
      (Fresh st'.tf ∧ Fresh st'.lc) := by
  have hok := hv.entriesOK
  obtain ⟨cs, hcs⟩ := getChunkSize_ok chunkMode t.2.entries.length numDocs hmode.2
  have hcspos : 0 < cs := getChunkSize_pos chunkMode _ numDocs cs hmode.1 hok.length_le hnd hcs
  obtain ⟨tf0, htf0, hf1, hc1, hl1⟩ :=
    Coder.setChunkSize_ok hI.1 hcspos (chunk_total_lt (numDocs := numDocs) (cs := cs) hn32)
  obtain ⟨lc0, hlc0, hf2, hc2, hl2⟩ :=
    Coder.setChunkSize_ok hI.2 hcspos (chunk_total_lt (numDocs := numDocs) (cs := cs) hn32)
  obtain ⟨hs1, hs2⟩ := Ice.Props.ChunkBytes.T7_sorted cs t.2.entries hok.sorted
  have hidx1 : ∀ a ∈ tfAdds t.2.entries, a.1 / cs < (numDocs - 1) / cs + 1 := by
    intro a ha
    simp only [tfAdds, List.mem_map] at ha
    obtain ⟨e, he, rfl⟩ := ha
    have := hok.2.2 e he
    exact chunk_index_lt cs e.doc (numDocs - 1) (by omega)
  have hidx2 : ∀ a ∈ locAdds t.2.entries, a.1 / cs < (numDocs - 1) / cs + 1 := by
    intro a ha
    simp only [locAdds, List.mem_flatMap] at ha
    obtain ⟨e, he, ha⟩ := ha
    rw [ChunkBytes.locAddsOf_doc e a ha]
    have := hok.2.2 e he
    exact chunk_index_lt cs e.doc (numDocs - 1) (by omega)
  obtain ⟨tf', htf', -, -, -⟩ := Ice.Props.ChunkBytes.T5_encode K.chunk tf0 hf1 cs _ hc1 hcspos hl1
    (Nat.succ_pos _) (tfAdds t.2.entries) hs1 hidx1
  obtain ⟨lc', hlc', -, -, -⟩ := Ice.Props.ChunkBytes.T5_encode K.chunk lc0 hf2 cs _ hc2 hcspos hl2
    (Nat.succ_pos _) (locAdds t.2.entries) hs2 hidx2
  have key : ∃ st' b v, writeTerm K merger chunkMode numDocs st count t = .ok (st', b, v) := by
    unfold writeTerm
    simp only [hcs, htf0, hlc0, htf', hlc', ChunkBytes.ok_bind]
    cases ht : t.2 with
    | oneHit d n =>
      rw [ht] at hv
      obtain ⟨hm, hd, _, _⟩ := hv
      have hne : (TermDesc.oneHit d n).entries.isEmpty = false := rfl
      have hu : under32Bits d = true := by
        unfold under32Bits mask31; simp; omega
      simp only [hne, Bool.false_eq_true, if_false, hm, hu, Bool.and_self, if_true,
        ChunkBytes.ok_bind, ChunkBytes.pure_eq_ok]
      exact ⟨_, _, _, rfl⟩
    | general es =>
      rw [ht] at hv
      have hne : (TermDesc.general es).entries.isEmpty = false := by
        cases es with
        | nil => exact absurd rfl hv.1
        | cons _ _ => rfl
      simp only [hne, Bool.false_eq_true, if_false, ChunkBytes.ok_bind, ChunkBytes.pure_eq_ok]
      exact ⟨_, _, _, rfl⟩
  obtain ⟨st', b, v, h⟩ := key
  exact ⟨st', b, v, h,
    (writeTerm_inv K merger chunkMode numDocs hmode.1 hnd hn32 st st' count t b v hI hv h).1⟩

/-! ### one field -/

theorem writeField_ok (K : Codecs) (merger : Bool) (chunkMode numDocs : Nat)
    (hmode : 1 ≤ chunkMode ∧ chunkMode ≤ 1025) (hnd : 0 < numDocs) (hn32 : numDocs < 2 ^ 32)
    (st : Coders) (count : Nat) (f : FieldDesc)
    (hI : Fresh st.tf ∧ Fresh st.lc) (hv : f.Valid merger numDocs) :
    ∃ st' b o, writeField K merger chunkMode numDocs st count f = .ok (st', b, o) ∧
      (Fresh st'.tf ∧ Fresh st'.lc) := by
  obtain ⟨_, _, _, hasc, hterms, hdv⟩ := hv
  obtain ⟨st1, tb, vals, hfold, hI1⟩ := foldW_ok (writeTerm K merger chunkMode numDocs)
    (fun s => Fresh s.tf ∧ Fresh s.lc) f.terms
    (fun s c x hI hx => writeTerm_ok K merger chunkMode numDocs hmode hnd hn32 s c x hI (hterms x hx))
    st count hI
  have hlen : vals.length = f.terms.length :=
    (foldW_inv (writeTerm K merger chunkMode numDocs) (fun _ => True) (fun _ _ _ _ => True) f.terms
      (fun _ _ _ _ _ _ _ _ _ => ⟨trivial, trivial⟩) st count st1 tb vals trivial hfold).2.1
  have hasc' : ascKeys ((fstEntries f.terms vals).map (·.1)) = true :=
    ascKeys_sublist (fstEntries_keys_sublist f.terms vals hlen) hasc
  unfold writeField
  simp only [hfold, ChunkBytes.ok_bind, hasc', Bool.not_true, Bool.false_eq_true, if_false]
  cases hfd : f.dv with
  | none => exact ⟨_, _, _, rfl, hI1⟩
  | some dvals =>
    have hw := Ice.Props.C07.writeField_eq (dvMode merger) K.dv (hdv dvals hfd)
      (count + tb.length +
        (putUvarint (K.fstEnc (fstEntries f.terms vals)).length ++
          K.fstEnc (fstEntries f.terms vals)).length)
    cases merger
    · simp only [Ice.Props.C07.writeField, dvMode, Bool.false_eq_true, if_false] at hw
      simp only [Bool.false_eq_true, if_false, hw, ChunkBytes.ok_bind, ChunkBytes.pure_eq_ok]
      exact ⟨_, _, _, rfl, hI1⟩
    · simp only [Ice.Props.C07.writeField, dvMode, if_true] at hw
      simp only [if_true, hw, ChunkBytes.ok_bind, ChunkBytes.pure_eq_ok]
      exact ⟨_, _, _, rfl, hI1⟩

/-! ### the whole data section -/

/-- **Totality of the writer**, with exactly the hypotheses the proof uses: a document count in
    `uint32`, a known chunk mode that does not divide by zero, and (if there are documents) valid
    field descriptions.  No size bound, nothing about the stored content. -/
theorem serialize_ok (K : Codecs) (L : LSeg) (hn32 : L.numDocs < 2 ^ 32)
    (hmode : 1 ≤ L.chunkMode ∧ L.chunkMode ≤ 1025)
    (hfields : 0 < L.numDocs → ∀ f ∈ L.fields, f.Valid L.merger L.numDocs) :
    ∃ data ft, serialize K L = .ok (data, ft) := by
  by_cases hnd : 0 < L.numDocs
  · obtain ⟨c0, hc0, hf0, -, -⟩ := Coder.new_ok (cs := 1024) (m := L.numDocs - 1) (by decide)
      (chunk_total_lt hn32)
    obtain ⟨st', fb, outs, hfold, -⟩ := foldW_ok (writeField K L.merger L.chunkMode L.numDocs)
      (fun s => Fresh s.tf ∧ Fresh s.lc) L.fields
      (fun s c x hI hx =>
        writeField_ok K L.merger L.chunkMode L.numDocs hmode hnd hn32 s c x hI (hfields hnd x hx))
      { tf := c0, lc := c0 } (storedOut K L).bytes.length ⟨hf0, hf0⟩
    unfold storedOut at hfold
    unfold serialize serializeWith
    simp only [if_true, hnd, hc0, ChunkBytes.ok_bind, hfold, ChunkBytes.pure_eq_ok]
    exact ⟨_, _, rfl⟩
  · unfold serialize serializeWith
    simp only [if_true, hnd, if_false, ChunkBytes.pure_eq_ok, ChunkBytes.ok_bind]
    exact ⟨_, _, rfl⟩

end Ice.Model.Format
