import IceModel.Props.E2EBuild
import IceModel.Props.C02Model
import IceModel.Props.C02Stored
import IceModel.Props.C16
import IceModel.Props.C05OneHit
import IceModel.Props.C04Total
/-
  END-TO-END, merger path: definitions.

    `MIn`                one input of a merge on the level the merge models take their inputs:
                         the abstract segment (from which the per-field dictionaries are derived by
                         the abstraction function `absDict` of `Lemmas/MergeLoopSpec.lean`), the
                         deletions, the stored documents (in the input's own field ids) and the
                         doc-value column of every field (terms per document)
    `mergedLSeg`         the laid-out description (`Format.LSeg`, `merger := true`) assembled from
                         the outputs of the merge models: `MergeRest.mergeFields`,
                         `MergeRest.computeNewDocCount`, `MergeLoop.mergeField` per field,
                         the documents `MergeRest.mergeStored` writes (`C02Stored.mergedDocs`),
                         the column `MergeRest.dvField` writes (`dvColFrom`)
    `TermRep`, `Lays`    "the description `L` lays out the abstract segment `S`"
    `AbsOK`              invariants of an abstract segment that `Spec.build` establishes and
                         `Spec.merge` preserves
    `ReadsAsM`           `ReadsAs` of `Props/E2EBuild.lean` with the 1-hit case
-/
namespace Ice.Props.E2EM
open Ice Ice.Spec Ice.Model Ice.Model.Format
open Ice.Model.MergeLoop (Cfg SegIn DictEntry MPosting MLoc mergeField absCfg absSegs absDict
  TermsNodupDocs)
open Ice.Model.MergeRest (mergeFields computeNewDocCount DocRel ClosedDoc IdFirstAsc Rel₂ DocAsc)
open Ice.Model.ChunkBytes (Entry BLoc)
open Ice.Model.DocValues (termsOf NoSep)
open Ice.Model.IterBytes (mkB runB)
open Ice.Model.Iter (RFlags)
open Ice.Props.E2E

/-! ## the inputs of a merge -/

/-- one input segment of a merge, as the merge models see it -/
structure MIn where
  /-- what the segment means; its dictionary of field `f` is `absDict abs f` -/
  abs : AbsSeg
  /-- `drops[i]` as a list (nil and empty bitmap alike) -/
  drops : List Nat
  /-- the stored documents its stored section was written from (its own field ids) -/
  docs : List Stored.Doc
  /-- per field name: the doc-value column its reader for that field reads (`none`: no reader) -/
  dvCol : Bytes → Option (List (Nat × List Bytes))

/-- the inputs of `Spec.merge` -/
def absIns (ins : List MIn) : List (AbsSeg × List Nat) := ins.map fun i => (i.abs, i.drops)

/-- the input as the stored part (`Props/C02Stored.lean`) takes it; `tail` = the bytes behind the
    stored section in the input's file -/
def MIn.sIn (i : MIn) (tail : Bytes := []) : C02Stored.Input :=
  { abs := i.abs, drops := i.drops, docs := i.docs, tail := tail }

/-- `setupActiveForField`: the segment has a dictionary for the field with at least one key -/
def MIn.inFocus (i : MIn) (f : Bytes) : Bool := !(terms i.abs f).isEmpty

/-! ## the merged description -/

/-- `fieldsInv` of the merge: `mergeFields` (merge.go:825-856) -/
def mFields (ins : List MIn) : List Bytes := (mergeFields (ins.map (·.abs.fields))).2

/-- `computeNewDocCount` (merge.go:174-183) -/
def mNumDocs (ins : List MIn) : Nat :=
  computeNewDocCount (ins.map fun i => (i.abs.docs.length, i.drops))

/-- the parameters of `persistMergedRestField` -/
def mCfg (mode : Nat) (ins : List MIn) : Cfg :=
  { fieldsInv := mFields ins, chunkMode := mode, newSegDocCount := mNumDocs ins }

def mlocToB (l : MLoc) : BLoc := { fieldID := l.fieldID, pos := l.pos, start := l.start, stop := l.stop }

/-- what `mergeTermFreqNormLocs` hands to the two int coders -/
def mpToE (p : MPosting) : Entry :=
  { doc := p.doc, freq := p.freq, norm := p.norm, locs := p.locs.map mlocToB }

/-- one `newVellum.Insert` of the merge loop as a term description: 1-hit when `finishTerm`
    decided so (`DictEntry.oneHit`, the decision of the closure `use1HitEncoding`), otherwise
    the entries fed to the coders -/
def termOf (e : DictEntry) : Bytes × TermDesc :=
  (e.term, match e.oneHit, e.entries with
    | some _, [p] => .oneHit p.doc p.norm
    | _, _ => .general (e.entries.map mpToE))

/-- a survivor's doc values under its new number -/
def gMapT (drops : List Nat) (start : Nat) (p : Nat × List Bytes) : Option (Nat × List Bytes) :=
  if drops.contains p.1 then none else some (start + liveCount drops p.1, p.2)

/-- what input `i` contributes to the merged column of field `f` (`buildMergedDocVals`,
    merge.go:386-412: only segments in focus that have a reader) -/
def MIn.dvPart (i : MIn) (f : Bytes) (start : Nat) : List (Nat × List Bytes) :=
  if i.inFocus f then
    match i.dvCol f with
    | none => []
    | some vals => vals.filterMap (gMapT i.drops start)
  else []

/-- the merged column of field `f`, numbering survivors from `start` -/
def dvColFrom (f : Bytes) : List MIn → Nat → List (Nat × List Bytes)
  | [], _ => []
  | i :: r, start => i.dvPart f start ++ dvColFrom f r (start + liveCount i.drops i.abs.docs.length)

/-- `fdvReadersAvailable` (merge.go:395) -/
def dvHas (ins : List MIn) (f : Bytes) : Bool := ins.any fun i => i.inFocus f && (i.dvCol f).isSome

def dvColM (ins : List MIn) (f : Bytes) : Option (List (Nat × List Bytes)) :=
  if dvHas ins f then some (dvColFrom f ins 0) else none

/-- the description of one field: the result of `MergeLoop.mergeField` for it (dictionary,
    `fieldDocs`, `fieldFreqs`) and the merged column.  The inputs of the loop are the abstraction
    `absSegs` of the input segments with the document-number maps `mergeStoredAndRemap` returned
    (`C02Stored.S_merged`: they are `(Spec.merge …).2`). -/
def fieldOf (mode : Nat) (ins : List MIn) (f : Bytes) : FieldDesc :=
  match mergeField (mCfg mode ins) (absSegs mode f (absIns ins)) with
  | .ok r => { name := f, fieldDocs := r.fieldDocs, fieldFreqs := r.fieldFreq,
               terms := r.dict.map termOf, dv := dvColM ins f }
  | .error _ => { name := f, fieldDocs := 0, fieldFreqs := 0, terms := [], dv := none }

/-- a field of a merge without surviving documents: `persistMergedRest` is not called
    (merge.go:137), `dictLocs` are zero, the statistics maps nil -/
def emptyField (f : Bytes) : FieldDesc :=
  { name := f, fieldDocs := 0, fieldFreqs := 0, terms := [], dv := none }

/-- the survivors' stored documents in merged field ids: what `mergeStoredAndRemap` writes
    (`C02Stored.S_merged`) -/
def mDocs (ins : List MIn) : List Stored.Doc := C02Stored.mergedDocs (ins.map (·.sIn))

/-- **what `mergeToWriter` lays out** (merge.go:111-160) -/
def mergedLSeg (mode : Nat) (ins : List MIn) : LSeg :=
  { merger := true, numDocs := mNumDocs ins, chunkMode := mode,
    fields := if mNumDocs ins = 0 then (mFields ins).map emptyField
              else (mFields ins).map (fieldOf mode ins),
    stored := mDocs ins }

/-! ## "the description lays out the abstract segment" -/

/-- the term description `td` stands for the postings `ps` (field names of locations through `F`) -/
def TermRep (F : List Bytes) (td : TermDesc) (ps : List Posting) : Prop :=
  match td with
  | .general es => es = ps.map (postingToE F)
  | .oneHit d n => d < 2 ^ 31 ∧ ∃ p, ps = [p] ∧ p.doc = d ∧ p.norm = n ∧ p.freq = 1 ∧ p.locs = []

/-- `L` lays out `S`: same field list and statistics, per field the terms of the specification
    in order, each standing for its postings; document by document the stored values; the
    doc-value columns hold the specification's doc values -/
structure Lays (S : AbsSeg) (L : LSeg) : Prop where
  numDocs : L.numDocs = S.docs.length
  mode : L.chunkMode = S.chunkMode
  names : L.fields.map (·.name) = S.fields
  fieldDocs : L.fields.map (·.fieldDocs) = S.fieldDocs
  fieldFreqs : L.fields.map (·.fieldFreqs) = S.fieldFreqs
  terms : ∀ (i : Nat) (f : Bytes) (fd : FieldDesc), S.fields[i]? = some f → L.fields[i]? = some fd →
    fd.terms.map (·.1) = Spec.terms S f ∧
    ∀ (j : Nat) (t : Bytes) (td : TermDesc), fd.terms[j]? = some (t, td) →
      TermRep S.fields td (postings S f t)
  /-- only the merger 1-hit encodes -/
  oneHit : ∀ fd ∈ L.fields, ∀ t ∈ fd.terms, ∀ d n, t.2 = .oneHit d n → L.merger = true
  stored : Rel₂ (DocRel S.fields) L.stored S.docs
  storedAsc : ∀ d ∈ L.stored, DocAsc d
  storedIds : ∀ d ∈ L.stored, ∀ fv ∈ d, fv.1 < S.fields.length
  dv : ∀ (i : Nat) (f : Bytes) (fd : FieldDesc), S.fields[i]? = some f → L.fields[i]? = some fd →
    match fd.dv with
    | some vals => vals.Pairwise (fun a b => a.1 < b.1) ∧ (∀ q ∈ vals, q.1 < S.docs.length) ∧
        ∀ n, termsOf vals n = dvOf S n f
    | none => ∀ n, dvOf S n f = []
  /-- the builder's column lists only documents that have a term (`docTermMap`, new.go:852-854;
      the non-progressive writer would drop an empty entry) -/
  dvNonempty : L.merger = false → ∀ fd ∈ L.fields, ∀ vals, fd.dv = some vals → ∀ q ∈ vals, q.2 ≠ []
  /-- without documents neither writer writes doc values or statistics -/
  empty : L.numDocs = 0 → ∀ fd ∈ L.fields, fd.dv = none ∧ fd.fieldFreqs = 0

/-- invariants of abstract segments: established by `Spec.build` (for a valid batch inside the
    bounds), preserved by `Spec.merge` (numeric bounds of the result permitting).
    * `fields`    `_id`, then the other names ascending (`fieldList`)
    * `names`     every field of every document is listed by its segment (hence a document stores
                  values only under listed names: `AbsOK.closed`)
    * `nodup`     a document has no term twice in a field (documents are rolled up)
    * `locs`      the field of every location is a field of the segment (`fieldsMap[…]-1` at
                  merge.go:591, 605 would wrap to 65535 otherwise)
    * `norm31`    norm bits are those of a non-negative float32: bit 31 is clear
                  (`fSTValEncode1Hit` keeps 31 bits of the norm)
    * `fieldDocs` a field occurs in at most as many documents as there are
    * `bounds`    `SpecBounds` of `Lemmas/E2EDefs.lean` -/
structure AbsOK (S : AbsSeg) : Prop where
  fields : IdFirstAsc S.fields
  nfields : S.fields.length < 65535
  names : ∀ d ∈ S.docs, ∀ af ∈ d, af.name ∈ S.fields
  nodup : ∀ f, TermsNodupDocs S.docs f
  locs : ∀ d ∈ S.docs, ∀ af ∈ d, ∀ x ∈ af.terms, ∀ l ∈ x.locs, l.field ∈ S.fields
  norm31 : ∀ d ∈ S.docs, ∀ af ∈ d, af.norm < 2 ^ 31
  fieldDocs : ∀ x ∈ S.fieldDocs, x ≤ S.docs.length
  bounds : SpecBounds S

theorem AbsOK.closed {S : AbsSeg} (h : AbsOK S) : ∀ a ∈ S.docs, ClosedDoc S.fields a :=
  fun a ha => C02Stored.closed_of_names S.fields a (h.names a ha)

/-! ## what a reader observes (with 1-hit terms) -/

/-- the answers of an iterator seen through the flags the caller asked for -/
def viewRun (fl : Flags) (l : List (Option (Option Posting))) : List (Option (Option Posting)) :=
  l.map fun r => r.map fun o => o.map (view fl)

/-- `ReadsAs` of `Props/E2EBuild.lean`, where a term may also be 1-hit encoded: then
    `PostingsList.read` decodes document and norm from the FST value and the iterator is the
    1-hit path of `PostingsIterator` (`Model/Iter1Hit.lean`) -/
structure ReadsAsM (K : Codecs) (S : AbsSeg) (ld : Loaded) : Prop where
  fields : ld.fieldsInv = S.fields ∧ ld.fieldDocs = S.fieldDocs ∧ ld.fieldFreqs = S.fieldFreqs ∧
    ld.footer.numDocs = numDocs S ∧ ld.footer.chunkMode = S.chunkMode
  stats : ∀ f, loadedStats ld f = stats S f
  dict : ∀ (i : Nat) (f : Bytes), S.fields[i]? = some f →
    ∃ o, dictionaryOf K ld i = .ok o ∧ dictKeys o = terms S f ∧ (S.docs ≠ [] → o.isSome)
  dictNone : ∀ i : Nat, S.fields[i]? = none → dictionaryOf K ld i = .ok none
  iter : ∀ (i : Nat) (f : Bytes), S.fields[i]? = some f →
    ∀ (j : Nat) (t : Bytes), (terms S f)[j]? = some t →
    ∃ fst v, dictionaryOf K ld i = .ok (some fst) ∧ fst[j]? = some (t, v) ∧
      ((∃ fo lo cs, readPostings K ld v = .ok (.general fo lo ((postings S f t).map (·.doc)) cs) ∧
        ∀ (ex : Option (List Nat)) (fl : Flags) (ops : List IterOp),
          ∃ i0, mkB (plbOf ld fo lo cs ((postings S f t).map (·.doc)) ex) (RFlags.of fl) = .ok i0 ∧
            (runB K.chunk i0 ops).map (C05Bytes.viewRes fl) =
              (iterRun fl (live (postings S f t) ex) ops).map .ok) ∨
       (∃ d n, readPostings K ld v = .ok (.oneHit d n) ∧ postings S f t = [Iter1Hit.posting d n] ∧
        ∀ (ex : Option (List Nat)) (fl : Flags) (ops : List IterOp),
          viewRun fl (Iter1Hit.run (Iter1Hit.mk d n ex (RFlags.of fl)) ops) =
            (iterRun fl (live (postings S f t) ex) ops).map some))
  stored : ∀ (n : Nat) (buf : Stored.Buf) (stop : Option Nat),
    ∃ vs buf', Stored.visit K.stored ld.storedSeg buf n stop = .ok (vs, buf') ∧
      vs.map (fun p => (ld.fieldsInv.getD p.1 [], p.2)) = Stored.takeStop stop (stored S n)
  dv : ∀ (i : Nat) (f : Bytes), S.fields[i]? = some f →
    ∃ ro, ld.dvReaders[i]? = some ro ∧
      match ro with
      | none => ∀ n, dvOf S n f = []
      | some r0 => ∀ ds : List Nat, (∀ d ∈ ds, d < S.docs.length) →
          ∃ r', DocValues.Reader.visitAll K.dv ld.data dvChunk r0 ds =
            .ok (ds.map (fun n => dvOf S n f), r')

/-- a segment without 1-hit terms that `ReadsAs` also `ReadsAsM` -/
theorem ReadsAs.toM {K : Codecs} {S : AbsSeg} {ld : Loaded} (h : ReadsAs K S ld) :
    ReadsAsM K S ld :=
  { fields := h.fields, stats := h.stats, dict := h.dict, dictNone := h.dictNone,
    iter := fun i f hf j t ht => by
      obtain ⟨fst, v, fo, lo, cs, h1, h2, h3, h4⟩ := h.iter i f hf j t ht
      exact ⟨fst, v, h1, h2, .inl ⟨fo, lo, cs, h3, h4⟩⟩
    stored := h.stored, dv := h.dv }

/-! ## the input contract of a merge -/

/-- the doc-value column of field `f` of input `i`: document numbers ascending and inside the
    segment, no term contains the separator, and it holds the doc values of the abstract segment;
    an input without reader for the field has no doc values in it -/
structure DvColOK (f : Bytes) (i : MIn) : Prop where
  valid : ∀ vals, i.dvCol f = some vals →
    vals.Pairwise (fun a b => a.1 < b.1) ∧ (∀ q ∈ vals, q.1 < i.abs.docs.length) ∧
    ∀ q ∈ vals, NoSep q.2
  rel : match i.dvCol f with
    | some vals => ∀ d, termsOf vals d = dvOf i.abs d f
    | none => ∀ d, dvOf i.abs d f = []

/-- the contract of one input: the abstract segment is well formed, the stored part is inside
    the contract of `C02Stored.S_merged` (both paths), the doc-value columns are those of the
    abstract segment -/
structure MInOK (K : Codecs) (i : MIn) : Prop where
  abs : AbsOK i.abs
  stored : C02Stored.InputOK K.stored docBlock i.sIn
  copy : C02Stored.InputCopyOK i.sIn
  dv : ∀ f, DvColOK f i

/-- numeric bounds of the RESULT of a merge (Go-level reasons as for `Bounds`/`SpecBounds`):
    fewer than 2^32 merged documents (`uint32` document numbers in roaring), the merged field
    list has fewer than 65535 entries (`uint16` ids, `fieldsMap[name] = id + 1`), the total of
    the inputs' document counts is a `uint64`, the per-field frequency totals are `uint64`
    counters that the model does not wrap -/
structure MBounds (mode : Nat) (ins : List MIn) : Prop where
  hmode : 1 ≤ mode ∧ mode ≤ 1025
  numDocs : numDocs (merge mode (absIns ins)).1 < 2 ^ 32
  total : (ins.map fun i => i.abs.docs.length).sum < 2 ^ 64
  nfields : (mFields ins).length < 65535
  freqs : ∀ x ∈ (merge mode (absIns ins)).1.fieldFreqs, x < 2 ^ 64

end Ice.Props.E2EM
