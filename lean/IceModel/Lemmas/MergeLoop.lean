import IceModel.Model.MergeLoop
import IceModel.Lemmas.MergeLoopEnum
import IceModel.Lemmas.Bits
/-
  The merge loop of one field as a pure fold: `body` never fails on well-formed input and equals
  `stepPure`; the fold of `stepPure` over the enumerator's deliveries in closed form.
-/
namespace Ice.Model.MergeLoop
open Ice Ice.Spec

/-! ### the pure counterparts of the pieces of the loop body -/

def newDocOf (nd : List (Option Nat)) (d : Nat) : Nat :=
  match nd[d]? with
  | some (some n) => n
  | _ => 0

/-- one round of `mergeTermFreqNormLocs` -/
def accStep (fi : List Bytes) (nd : List (Option Nat)) (a : Acc) (p : Posting) : Acc :=
  { roaring := bmAdd (u32 (newDocOf nd p.doc)) a.roaring,
    docTracking := bmAdd (u32 (newDocOf nd p.doc)) a.docTracking,
    entries := a.entries ++ [encPosting fi (newDocOf nd p.doc) p],
    locData := a.locData || !p.locs.isEmpty,
    lastDocNum := newDocOf nd p.doc, lastFreq := p.freq, lastNorm := p.norm,
    sumFreq := a.sumFreq + p.freq }

theorem mtfnl_ok (fi : List Bytes) (nd : List (Option Nat)) (ps : List Posting)
    (h : ∀ p ∈ ps, ∃ n, nd[p.doc]? = some (some n)) (a : Acc) :
    mtfnl fi nd ps a = .ok (ps.foldl (accStep fi nd) a) := by
  induction ps generalizing a with
  | nil => rfl
  | cons p r ih =>
    obtain ⟨n, hn⟩ := h p (by simp)
    have hnd : newDocOf nd p.doc = n := by simp [newDocOf, hn]
    simp only [mtfnl, hn, List.foldl_cons]
    rw [ih (fun q hq => h q (by simp [hq]))]
    simp only [accStep, hnd]

def clearSt (s : St) : St :=
  { s with roaring := [], entries := [], locData := false,
           lastDocNum := 0, lastFreq := 0, lastNorm := 0 }

/-- `finishTerm` when `Insert` does not fail -/
def flush (st : St) : St :=
  if st.roaring.length = 0 then clearSt st
  else clearSt { st with
    out := st.out ++ [{ term := st.prevTerm.bytes, entries := st.entries, bitmap := st.roaring,
                        oneHit := use1Hit st, card := st.card, chunkSize := st.chunkSize }],
    builderLast := if st.prevTerm.bytes.isEmpty then st.builderLast else st.prevTerm.bytes }

theorem finishTerm_ok (st : St)
    (h : st.roaring = [] ∨ Bytes.cmp st.prevTerm.bytes st.builderLast ≠ .lt) :
    finishTerm st = .ok (flush st) := by
  unfold finishTerm flush clearSt
  by_cases hr : st.roaring.length = 0
  · simp [hr]
  · have : Bytes.cmp st.prevTerm.bytes st.builderLast ≠ .lt := by
      rcases h with h | h
      · rw [h] at hr; exact absurd rfl hr
      · exact h
    simp [hr, this]

/-- `prepareNewTerm` when nothing fails (and after commit c645d07) -/
def prepPure (cfg : Cfg) (active : List Active) (hs : List (Nat × Nat)) (st : St) : St :=
  match cardLoop active hs (0, 0) with
  | .ok (card, _) =>
    match getChunkSize cfg.chunkMode card cfg.newSegDocCount with
    | .ok cs => { st with card := card, chunkSize := cs }
    | _ => st
  | .error _ => st

/-- the accumulation of one (term, segment) delivery -/
def accum (cfg : Cfg) (nd : List (Option Nat)) (sp : List Posting) (k : Bytes) (st : St) : St :=
  let a := sp.foldl (accStep cfg.fieldsInv nd)
    { roaring := st.roaring, docTracking := st.docTracking, entries := st.entries,
      locData := st.locData }
  { st with
    roaring := a.roaring, docTracking := a.docTracking, entries := a.entries,
    locData := a.locData, lastDocNum := a.lastDocNum, lastFreq := a.lastFreq,
    lastNorm := a.lastNorm, fieldFreq := st.fieldFreq + a.sumFreq,
    prevTerm := if st.prevTerm.isNone && k.isEmpty then none else some k }

/-- the surviving postings delivery `(i, v)` leads to, with their segment -/
def stepSeg (active : List Active) (iv : Nat × Nat) : Option (Active × List Posting) :=
  match active[iv.1]? with
  | none => none
  | some s =>
    match postingsListFromOffset s.dict iv.2 with
    | .ok ps => some (s, iterSurvivors s.drops ps)
    | .error _ => none

def accumStep (cfg : Cfg) (active : List Active) (k : Bytes) (st : St) (iv : Nat × Nat) : St :=
  match stepSeg active iv with
  | some (s, sp) => accum cfg s.newDocNums sp k st
  | none => st

/-- the loop body as a total function -/
def stepPure (cfg : Cfg) (active : List Active) (st : St)
    (x : (Key × Nat × Nat) × List (Nat × Nat)) : St :=
  let k := x.1.1.bytes
  let st1 := if st.prevTerm.bytes = k then st else flush st
  let st2 := if st.prevTerm.bytes ≠ k ∨ st1.prevTerm.isNone then prepPure cfg active x.2 st1 else st1
  accumStep cfg active k st2 (x.1.2.1, x.1.2.2)

/-- what has to hold for one delivery so that the body does not fail -/
structure StepOK (cfg : Cfg) (active : List Active)
    (x : (Key × Nat × Nat) × List (Nat × Nat)) : Prop where
  seg : ∃ s ps, active[x.1.2.1]? = some s ∧ postingsListFromOffset s.dict x.1.2.2 = .ok ps ∧
    ∀ p ∈ iterSurvivors s.drops ps, ∃ n, s.newDocNums[p.doc]? = some (some n)
  prep : ∃ card ff cs, cardLoop active x.2 (0, 0) = .ok (card, ff) ∧
    getChunkSize cfg.chunkMode card cfg.newSegDocCount = .ok cs ∧ cs ≠ 0

theorem flush_prevTerm (st : St) : (flush st).prevTerm = st.prevTerm := by
  unfold flush clearSt; split <;> rfl

theorem body_ok (cfg : Cfg) (hfix : cfg.sumFreqFix = true) (active : List Active) (st : St)
    (x : (Key × Nat × Nat) × List (Nat × Nat)) (hx : StepOK cfg active x)
    (hfin : st.prevTerm.bytes = x.1.1.bytes ∨ st.roaring = [] ∨
      Bytes.cmp st.prevTerm.bytes st.builderLast ≠ .lt) :
    body cfg active st x.1 (.ok x.2) = .ok (stepPure cfg active st x) := by
  obtain ⟨s, ps, hs, hps, hnd⟩ := hx.seg
  obtain ⟨card, ff, cs, hcard, hcs, hcs0⟩ := hx.prep
  have hprep : ∀ st', prepareNewTerm cfg active (.ok x.2) st' =
      .ok (prepPure cfg active x.2 st') := by
    intro st'
    simp only [prepareNewTerm, prepPure, hcard, hcs, hcs0, if_false, hfix, if_true]
  have hseg : stepSeg active (x.1.2.1, x.1.2.2) = some (s, iterSurvivors s.drops ps) := by
    simp only [stepSeg, hs, hps]
  unfold body stepPure
  simp only [Key.eq]
  by_cases hk : st.prevTerm.bytes = x.1.1.bytes
  · -- same term as before: no finishTerm
    simp only [hk, beq_self_eq_true, Bool.not_true, Bool.false_eq_true, if_false, Bool.false_or,
      ne_eq, not_true_eq_false, false_or]
    rcases hp : st.prevTerm with _ | b
    · simp only [hp, Option.isNone_none, if_true, hprep, getIdx, hs, hps, mtfnl_ok _ _ _ hnd,
        accumStep, hseg, accum, hfix]
    · simp only [Option.isNone_some, Bool.false_eq_true, if_false, if_true, getIdx, hs, hps,
        mtfnl_ok _ _ _ hnd, accumStep, hseg, accum, hfix, hp]
  · have hne : (st.prevTerm.bytes == x.1.1.bytes) = false := by simpa using hk
    have hfin' : st.roaring = [] ∨ Bytes.cmp st.prevTerm.bytes st.builderLast ≠ .lt := by
      rcases hfin with h | h
      · exact absurd h hk
      · exact h
    simp only [hne, Bool.not_false, if_true, finishTerm_ok st hfin', flush_prevTerm,
      Bool.true_or, hprep, getIdx, hs, hps, mtfnl_ok _ _ _ hnd, hk, if_false, ne_eq,
      not_false_eq_true, true_or, accumStep, hseg, accum, hfix]

/-! ### simple facts about the pure pieces -/

theorem prepPure_eq (cfg : Cfg) (active : List Active) (hs : List (Nat × Nat)) (st : St) :
    ∃ c cs, prepPure cfg active hs st = { st with card := c, chunkSize := cs } := by
  unfold prepPure
  split
  · split
    · exact ⟨_, _, rfl⟩
    · exact ⟨st.card, st.chunkSize, rfl⟩
  · exact ⟨st.card, st.chunkSize, rfl⟩

theorem accum_prevTerm_bytes (cfg : Cfg) (nd : List (Option Nat)) (sp : List Posting) (k : Bytes)
    (st : St) : (accum cfg nd sp k st).prevTerm.bytes = k := by
  simp only [accum]
  split
  · next h =>
    simp only [Bool.and_eq_true] at h
    cases k with
    | nil => rfl
    | cons a r => simp at h
  · rfl

theorem cmp_nil_right_not_lt (k : Bytes) : Bytes.cmp k [] ≠ .lt := by
  cases k <;> simp [Bytes.cmp]

def keyLe (a b : Bytes) : Prop := a = b ∨ Bytes.cmp a b = .lt

theorem keyLe_nil (k : Bytes) : keyLe [] k := by
  cases k with
  | nil => left; rfl
  | cons a r => right; simp [Bytes.cmp]

theorem keyLe_trans_lt {a b c : Bytes} (h1 : keyLe a b) (h2 : Bytes.cmp b c = .lt) :
    Bytes.cmp a c = .lt := by
  rcases h1 with rfl | h1
  · exact h2
  · exact Bytes.cmp_lt_trans h1 h2

/-- what the loop maintains about the vellum builder: its last key is not above the current
    term (so `Insert` never reports `ErrOutOfOrder`) -/
def LoopInv (st : St) : Prop := st.builderLast = [] ∨ keyLe st.builderLast st.prevTerm.bytes

theorem finishOK_of_inv {st : St} (h : LoopInv st) :
    Bytes.cmp st.prevTerm.bytes st.builderLast ≠ .lt := by
  rcases h with h | h | h
  · rw [h]; exact cmp_nil_right_not_lt _
  · rw [h, Bytes.cmp_self]; simp
  · intro h'
    exact Bytes.cmp_lt_asymm h h'

theorem flush_builderLast (st : St) :
    (flush st).builderLast = st.builderLast ∨ (flush st).builderLast = st.prevTerm.bytes := by
  unfold flush clearSt
  split
  · left; rfl
  · simp only []
    split
    · left; rfl
    · right; rfl

theorem stepPure_spec (cfg : Cfg) (active : List Active) (st : St)
    (x : (Key × Nat × Nat) × List (Nat × Nat)) (hx : StepOK cfg active x) :
    (stepPure cfg active st x).prevTerm.bytes = x.1.1.bytes ∧
    (stepPure cfg active st x).builderLast =
      (if st.prevTerm.bytes = x.1.1.bytes then st else flush st).builderLast := by
  obtain ⟨s, ps, hs, hps, _⟩ := hx.seg
  have hseg : stepSeg active (x.1.2.1, x.1.2.2) = some (s, iterSurvivors s.drops ps) := by
    simp only [stepSeg, hs, hps]
  simp only [stepPure, accumStep, hseg, accum_prevTerm_bytes, true_and]
  generalize (if st.prevTerm.bytes = x.1.1.bytes then st else flush st) = st1
  have : ∀ st2 : St, (accum cfg s.newDocNums (iterSurvivors s.drops ps) x.1.1.bytes st2).builderLast
      = st2.builderLast := fun _ => rfl
  rw [this]
  split
  · obtain ⟨c, cs, h⟩ := prepPure_eq cfg active x.2 st1
    rw [h]
  · rfl

theorem foldBody_pure (cfg : Cfg) (hfix : cfg.sumFreqFix = true) (active : List Active) :
    ∀ (L : List ((Key × Nat × Nat) × List (Nat × Nat))) (st : St),
    L.Pairwise (fun a b => keyLe a.1.1.bytes b.1.1.bytes) →
    (∀ x ∈ L, StepOK cfg active x) → LoopInv st →
    (∀ x ∈ L, keyLe st.prevTerm.bytes x.1.1.bytes) →
    foldBody (body cfg active) L st = .ok (L.foldl (stepPure cfg active) st) ∧
      LoopInv (L.foldl (stepPure cfg active) st) := by
  intro L
  induction L with
  | nil => intro st _ _ hinv _; exact ⟨rfl, hinv⟩
  | cons x L ih =>
    intro st hsorted hok hinv hle
    have hp := List.pairwise_cons.1 hsorted
    have hx := hok x (by simp)
    obtain ⟨c, lw⟩ := x
    have hb := body_ok cfg hfix active st (c, lw) hx (Or.inr (Or.inr (finishOK_of_inv hinv)))
    simp only [foldBody, List.foldl_cons] at hb ⊢
    rw [hb]
    obtain ⟨h1, h2⟩ := stepPure_spec cfg active st (c, lw) hx
    have hle0 := hle (c, lw) (by simp)
    apply ih _ hp.2 (fun y hy => hok y (by simp [hy]))
    · -- the invariant after the step
      unfold LoopInv
      rw [h1, h2]
      by_cases hk : st.prevTerm.bytes = c.1.bytes
      · simp only [hk, if_true]
        rcases hinv with h | h
        · left; exact h
        · right; rw [← hk]; exact h
      · simp only [hk, if_false]
        have hlt : Bytes.cmp st.prevTerm.bytes c.1.bytes = .lt := by
          rcases hle0 with h | h
          · exact absurd h hk
          · exact h
        rcases flush_builderLast st with h | h
        · rw [h]
          rcases hinv with h' | h'
          · left; exact h'
          · right; right; exact keyLe_trans_lt h' hlt
        · rw [h]; right; right; exact hlt
    · intro y hy
      rw [h1]
      exact hp.1 y hy

/-! ### the deliveries of the merge: order, and what each of them leads to -/

theorem expectedFull_sorted (ls : List (List (Bytes × Nat))) :
    (expectedFull ls).Pairwise (fun a b => keyLe a.1.1.bytes b.1.1.bytes) := by
  unfold expectedFull
  rw [List.pairwise_flatMap]
  constructor
  · intro k _
    rw [List.pairwise_map]
    exact List.pairwise_of_forall (fun _ _ => Or.inl rfl)
  · have hasc : Asc (allKeys ls) := asc_sortDedup _
    refine hasc.imp ?_
    intro a b hab x hx y hy
    obtain ⟨p, _, rfl⟩ := List.mem_map.1 hx
    obtain ⟨q, _, rfl⟩ := List.mem_map.1 hy
    right
    simpa using hab

/-- index of the first entry with key `k` -/
def firstIdx {β : Type} (k : Bytes) : List (Bytes × β) → Option Nat
  | [] => none
  | (k', _) :: r => if k' = k then some 0 else (firstIdx k r).map (· + 1)

theorem lookupK_zipIdx {β : Type} (k : Bytes) (d : List (Bytes × β)) (i : Nat) :
    lookupK k ((d.zipIdx i).map (fun p => (p.1.1, p.2 + 1))) =
      (firstIdx k d).map (fun j => i + j + 1) := by
  induction d generalizing i with
  | nil => rfl
  | cons e r ih =>
    obtain ⟨k', ps⟩ := e
    simp only [List.zipIdx_cons, List.map_cons, lookupK, firstIdx]
    by_cases hk : k' = k
    · simp [hk]
    · simp only [hk, if_false, ih (i + 1), Option.map_map]
      congr 1
      funext j
      simp only [Function.comp]
      omega

theorem firstIdx_spec {β : Type} (k : Bytes) (d : List (Bytes × β)) :
    match firstIdx k d with
    | some j => ∃ ps, d[j]? = some (k, ps) ∧ lookupK k d = some ps
    | none => lookupK k d = none := by
  induction d with
  | nil => simp [firstIdx, lookupK]
  | cons e r ih =>
    obtain ⟨k', ps⟩ := e
    simp only [firstIdx, lookupK]
    by_cases hk : k' = k
    · simp [hk]
    · simp only [hk, if_false]
      cases hf : firstIdx k r with
      | none => simpa [hf] using ih
      | some j => simpa [hf] using ih

/-- the FST value of a term leads to the postings of that term -/
theorem fst_lookup (k : Bytes) (d : List (Bytes × List Posting)) :
    match lookupK k d with
    | some ps => ∃ v, lookupK k (fstEntries d) = some v ∧ postingsListFromOffset d v = .ok ps
    | none => lookupK k (fstEntries d) = none := by
  have h1 := lookupK_zipIdx k d 0
  have h2 := firstIdx_spec k d
  unfold fstEntries
  cases hf : firstIdx k d with
  | none =>
    rw [hf] at h1 h2
    simp only [h2]
    simpa using h1
  | some j =>
    rw [hf] at h1 h2
    obtain ⟨ps, hj, hl⟩ := h2
    simp only [hl]
    refine ⟨j + 1, by simpa using h1, ?_⟩
    simp [postingsListFromOffset, hj]

/-- the segments holding term `k`, each with its surviving postings for `k` -/
def segsOf (active : List Active) (k : Bytes) : List (Active × List Posting) :=
  active.filterMap (fun s => (lookupK k s.dict).map (fun ps => (s, iterSurvivors s.drops ps)))

/-- the iterators of a merge -/
def fstLists (active : List Active) : List (List (Bytes × Nat)) :=
  active.map (fun s => fstEntries s.dict)

theorem holders_link (k : Bytes) : ∀ (suf pre : List Active),
    (holdersAt (fstLists suf) k pre.length).map (stepSeg (pre ++ suf)) =
      (segsOf suf k).map some := by
  intro suf
  induction suf with
  | nil => intro pre; rfl
  | cons s suf ih =>
    intro pre
    have hc : holdersAt (fstLists (s :: suf)) k pre.length =
        (match lookupK k (fstEntries s.dict) with | some v => [(pre.length, v)] | none => []) ++
          holdersAt (fstLists suf) k (pre.length + 1) := by
      simp only [holdersAt, fstLists, List.map_cons, List.zipIdx_cons, List.filterMap_cons]
      cases lookupK k (fstEntries s.dict) <;> simp
    have hih := ih (pre ++ [s])
    simp only [List.length_append, List.length_cons, List.length_nil, Nat.zero_add,
      List.append_assoc, List.cons_append, List.nil_append] at hih
    rw [hc, List.map_append, hih]
    have hf := fst_lookup k s.dict
    simp only [segsOf, List.filterMap_cons]
    cases hl : lookupK k s.dict with
    | none =>
      rw [hl] at hf
      simp [hf]
    | some ps =>
      rw [hl] at hf
      obtain ⟨v, hv, hp⟩ := hf
      simp [hv, stepSeg, hp]

theorem holders_stepSeg (active : List Active) (k : Bytes) :
    (holders (fstLists active) k).map (stepSeg active) = (segsOf active k).map some := by
  have := holders_link k active []
  simpa [holders] using this

/-! ### well-formed input: the body never fails -/

/-- number of postings of term `k` that survive, over all segments -/
def termCard (active : List Active) (k : Bytes) : Nat :=
  ((segsOf active k).map (fun q => q.2.length)).sum

/-- the contract of `persistMergedRestField` on the level of the model -/
structure WFActive (cfg : Cfg) (active : List Active) : Prop where
  /-- every FST is strictly ascending -/
  asc : ∀ s ∈ active, Asc (s.dict.map (·.1))
  /-- `newDocNums` has a number for every document that is not deleted and carries a posting
      (so `newDocNums[doc]` is in range and not `docDropped`) -/
  mapped : ∀ s ∈ active, ∀ e ∈ s.dict, ∀ p ∈ e.2, dropped s.drops p.doc = false →
    ∃ n, s.newDocNums[p.doc]? = some (some n)
  /-- a valid chunk mode (chunk.go) -/
  mode : 1 ≤ cfg.chunkMode ∧ cfg.chunkMode ≤ 1025
  /-- `persistMergedRest` runs only if some document survives (merge.go:137) -/
  docs : 1 ≤ cfg.newSegDocCount
  /-- no term has more surviving postings than the new segment has documents -/
  card : ∀ k, termCard active k ≤ cfg.newSegDocCount

theorem plCount_eq (drops : Option (List Nat)) (ps : List Posting) :
    plCount drops ps = (iterSurvivors drops ps).length := by
  unfold plCount iterSurvivors
  have := List.length_eq_countP_add_countP (fun p : Posting => dropped drops p.doc) (l := ps)
  simp only [List.countP_eq_length_filter] at this
  have e : (ps.filter (fun a => decide ¬(dropped drops a.doc) = true)) =
      ps.filter (fun p => !dropped drops p.doc) := by
    congr 1
    funext a
    cases dropped drops a.doc <;> simp
  rw [e] at this
  omega

theorem cardLoop_ok (active : List Active) : ∀ (hs : List (Nat × Nat)) (acc : Nat × Nat),
    (∀ iv ∈ hs, ∃ q, stepSeg active iv = some q) →
    ∃ ff, cardLoop active hs acc =
      .ok (acc.1 + ((hs.map (stepSeg active)).map (fun o => match o with
                        | some q => q.2.length
                        | none => 0)).sum, ff) := by
  intro hs
  induction hs with
  | nil => intro acc _; exact ⟨acc.2, by simp [cardLoop]⟩
  | cons iv r ih =>
    intro acc h
    obtain ⟨i, v⟩ := iv
    obtain ⟨card, ff⟩ := acc
    obtain ⟨q, hq⟩ := h (i, v) (by simp)
    simp only [stepSeg] at hq
    rcases hs : active[i]? with _ | s
    · simp [hs] at hq
    · simp only [hs] at hq
      rcases hp : postingsListFromOffset s.dict v with e | ps
      · simp [hp] at hq
      · simp only [hp, Option.some.injEq] at hq
        obtain ⟨ff', h'⟩ := ih (card + plCount s.drops ps, ff + (card + plCount s.drops ps))
          (fun iv hiv => h iv (by simp [hiv]))
        refine ⟨ff', ?_⟩
        simp only [cardLoop, getIdx, hs, hp, List.map_cons, List.sum_cons, stepSeg]
        rw [h']
        simp only [plCount_eq]
        congr 2
        omega

theorem stepOK_of_wf {cfg : Cfg} {active : List Active} (hwf : WFActive cfg active) :
    ∀ x ∈ expectedFull (fstLists active), StepOK cfg active x := by
  intro x hx
  simp only [expectedFull, List.mem_flatMap, List.mem_map] at hx
  obtain ⟨k, _, ⟨i, v⟩, hiv, rfl⟩ := hx
  have hlink := holders_stepSeg active k
  have hall : ∀ iv ∈ holders (fstLists active) k, ∃ q, stepSeg active iv = some q := by
    intro iv hiv
    have : stepSeg active iv ∈ (segsOf active k).map some := by
      rw [← hlink]; exact List.mem_map.2 ⟨iv, hiv, rfl⟩
    obtain ⟨q, _, hq⟩ := List.mem_map.1 this
    exact ⟨q, hq.symm⟩
  constructor
  · obtain ⟨q, hq⟩ := hall (i, v) hiv
    simp only [stepSeg] at hq
    rcases hs : active[i]? with _ | s
    · simp [hs] at hq
    · simp only [hs] at hq
      rcases hp : postingsListFromOffset s.dict v with e | ps
      · simp [hp] at hq
      · refine ⟨s, ps, rfl, hp, ?_⟩
        intro p hp'
        simp only [iterSurvivors, List.mem_filter, Bool.not_eq_true'] at hp'
        -- the postings come from an entry of the dictionary
        unfold postingsListFromOffset at hp
        split at hp
        · cases hp
        · rcases he : s.dict[v - 1]? with _ | e
          · simp [he] at hp
          · simp only [he, Except.ok.injEq] at hp
            exact hwf.mapped s (List.mem_of_getElem? hs) e (List.mem_of_getElem? he) p
              (hp ▸ hp'.1) hp'.2
  · obtain ⟨ff, hc⟩ := cardLoop_ok active (holders (fstLists active) k) (0, 0) hall
    rw [hlink] at hc
    have hcard : ((((segsOf active k).map some).map (fun o => match o with
        | some q => q.2.length
        | none => 0)).sum) = termCard active k := by
      simp [termCard, List.map_map, Function.comp_def]
    rw [hcard, Nat.zero_add] at hc
    obtain ⟨cs, hcs⟩ := getChunkSize_ok cfg.chunkMode (termCard active k) cfg.newSegDocCount
      hwf.mode.2
    refine ⟨_, ff, cs, hc, hcs, ?_⟩
    have := getChunkSize_pos _ _ _ cs hwf.mode.1 (hwf.card k) hwf.docs hcs
    omega

theorem wfIters_of_wf {cfg : Cfg} {active : List Active} (hwf : WFActive cfg active) :
    WFIters (fstLists active) := by
  constructor
  · intro l hl
    obtain ⟨s, hs, rfl⟩ := List.mem_map.1 hl
    have : (fstEntries s.dict).map (·.1) = s.dict.map (·.1) := by
      simp only [fstEntries, List.map_map]
      apply List.ext_getElem?
      intro i
      simp [List.getElem?_map, List.getElem?_zipIdx]
      cases s.dict[i]? <;> simp
    rw [this]; exact hwf.asc s hs
  · intro l hl v hv
    obtain ⟨s, hs, rfl⟩ := List.mem_map.1 hl
    simp only [fstEntries, List.mem_map] at hv
    obtain ⟨p, _, hp⟩ := hv
    simp only [Prod.mk.injEq] at hp
    omega

def resultOf (st : St) : FieldResult :=
  { dict := st.out, fieldDocs := st.docTracking.length, fieldFreq := st.fieldFreq }

/-- the state of the loop when the enumerator is done -/
def finalSt (cfg : Cfg) (active : List Active) : St :=
  (expectedFull (fstLists active)).foldl (stepPure cfg active) {}

/-- **M1** in its general form: on well-formed input `mergeField` does not fail - no index
    panic, no "see hit with dropped docNum", no bad offset, no chunk-size error or division by
    zero, no `ErrOutOfOrder`, fuel not exhausted - and its result is the pure fold -/
theorem mergeField_pure (cfg : Cfg) (hfix : cfg.sumFreqFix = true) (segs : List SegIn)
    (hwf : WFActive cfg (setupActive segs)) :
    mergeField cfg segs = .ok (resultOf (flush (finalSt cfg (setupActive segs)))) := by
  have hit := wfIters_of_wf hwf
  have hmap : (setupActive segs).map (fun s => VIter.fresh (fstEntries s.dict)) =
      (fstLists (setupActive segs)).map VIter.fresh := by
    simp [fstLists, List.map_map, Function.comp_def]
  have hinit : LoopInv ({} : St) := Or.inl rfl
  have hpure := foldBody_pure cfg hfix (setupActive segs)
    (expectedFull (fstLists (setupActive segs))) {} (expectedFull_sorted _) (stepOK_of_wf hwf) hinit
    (fun x _ => keyLe_nil _)
  unfold mergeField
  simp only [hmap]
  have hd := new_done hit
  rcases hnew : Enum.new ((fstLists (setupActive segs)).map VIter.fresh) with ⟨e, done⟩
  rw [hnew] at hd
  simp only at hd ⊢
  by_cases hz : ((fstLists (setupActive segs)).map List.length).sum = 0
  · have hall : ∀ l ∈ fstLists (setupActive segs), l = [] := by
      intro l hl
      exact all_nil_of_fuel_zero ((fstLists (setupActive segs)).map VIter.fresh)
        (by rw [fuelFor_fresh]; exact hz) (VIter.fresh l) (List.mem_map.2 ⟨l, hl, rfl⟩)
    have hnil : finalSt cfg (setupActive segs) = {} := by
      simp only [finalSt, expectedFull_nil _ hall, List.foldl_nil]
    simp only [hd, hz, decide_true, if_true]
    rw [finishTerm_ok _ (Or.inl rfl), hnil]
    rfl
  · have hl := loop_spec (body cfg (setupActive segs)) hit hz 0 {}
    rw [hnew, Nat.zero_add] at hl
    simp only [hd, hz, decide_false, Bool.false_eq_true, if_false]
    simp only at hl
    rw [hl, hpure.1]
    simp only []
    rw [finishTerm_ok _ (Or.inr (finishOK_of_inv hpure.2))]
    rfl

end Ice.Model.MergeLoop
