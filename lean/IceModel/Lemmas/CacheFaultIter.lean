import IceModel.Lemmas.CacheFaultDec
/-
  (b) the chunk cache of `PostingsIterator` under `failFrom`: until the first failing read the run
  IS the healthy run; the first failure leaves a state on which the guard stays true; from then on
  every access reports an error and changes nothing.
-/
namespace Ice.Model.CacheFault
namespace PIter

/-- never-changing facts plus "the key is not ahead of the chunk being asked for" -/
structure Good (n : Nat) (it : PIter) : Prop where
  incFreq : it.incFreq = true
  enc : it.freq.encoded = true
  le : it.currChunk ≤ n

/-- the storage fails (`f ≤ clk`) and the guard is true for every chunk from `m` on -/
def Dead (f m clk : Nat) (it : PIter) : Prop :=
  f ≤ clk ∧ it.incFreq = true ∧ it.freq.encoded = true ∧ (it.freq.isNil = true ∨ it.currChunk < m)

theorem Dead.mono {f m m' clk it} (h : Dead f m clk it) (hm : m ≤ m') : Dead f m' clk it := by
  obtain ⟨h1, h2, h3, h4⟩ := h
  exact ⟨h1, h2, h3, h4.imp id (fun h => by omega)⟩

/-- what a failed `loadChunk` leaves (repaired version) -/
def FailedLoad (it it' : PIter) : Prop :=
  it'.currChunk = it.currChunk ∧ it'.incFreq = it.incFreq ∧ it'.incLocs = it.incLocs ∧
  it'.freq.encoded = it.freq.encoded ∧ (it'.freq = it.freq ∨ it'.freq.isNil = true)

theorem loadChunk_failFrom (st : IStore) (f clk : Nat) (it : PIter) (n : Nat) :
    it.loadChunk ifixed st (failFrom f) clk n = it.loadChunk ifixed st healthy clk n ∨
    ((it.loadChunk ifixed st (failFrom f) clk n).2.2 = false ∧
      f < (it.loadChunk ifixed st (failFrom f) clk n).2.1 ∧
      FailedLoad it (it.loadChunk ifixed st (failFrom f) clk n).1) := by
  unfold loadChunk
  simp only [ifixed, Bool.false_eq_true, if_false]
  by_cases hF : it.incFreq = true
  · simp only [hF, if_true]
    rcases Dec.loadChunk_failFrom st.f f clk it.freq n with h1 | ⟨h1, hf⟩
    · rw [h1]
      rcases hh : it.freq.loadChunk st.f healthy clk n with ⟨f', clk', ok⟩
      cases ok
      · left; simp
      · simp only [Bool.not_true, Bool.false_eq_true, if_false]
        by_cases hL : it.incLocs = true
        · simp only [hL, if_true]
          rcases Dec.loadChunk_failFrom st.l f clk' it.loc n with h2 | ⟨h2, hf2⟩
          · left; rw [h2]
          · right
            rw [h2]
            simp [FailedLoad, hF, hL, Dec.isNil]
            refine ⟨by omega, ?_⟩
            have := Dec.loadChunk_encoded st.f healthy clk it.freq n
            rw [hh] at this; exact this
        · left; simp [hL]
    · right
      rw [h1]
      simp [FailedLoad, hF]
      omega
  · simp only [hF]
    simp only [Bool.false_eq_true, if_false, Bool.not_true]
    by_cases hL : it.incLocs = true
    · simp only [hL, if_true]
      rcases Dec.loadChunk_failFrom st.l f clk it.loc n with h2 | ⟨h2, hf2⟩
      · left; rw [h2]
      · right
        rw [h2]
        simp [FailedLoad, hF, hL]
        omega
    · left; simp [hL]

/-- frame of `loadChunk` (repaired version, any oracle): flags and encodings stay; the key is
    the new chunk on success and the old one on failure -/
theorem loadChunk_frame (st : IStore) (o : Oracle) (clk : Nat) (it : PIter) (n : Nat) :
    let r := it.loadChunk ifixed st o clk n
    r.1.incFreq = it.incFreq ∧ r.1.incLocs = it.incLocs ∧ r.1.freq.encoded = it.freq.encoded ∧
    r.1.loc.encoded = it.loc.encoded ∧
    r.1.currChunk = (if r.2.2 then n else it.currChunk) := by
  unfold loadChunk
  simp only [ifixed, Bool.false_eq_true, if_false]
  by_cases hF : it.incFreq = true <;> by_cases hL : it.incLocs = true
  · simp only [hF, hL, if_true]
    have e1 := Dec.loadChunk_encoded st.f o clk it.freq n
    rcases hh : it.freq.loadChunk st.f o clk n with ⟨f', clk', ok⟩
    rw [hh] at e1
    cases ok
    · simp_all
    · have e2 := Dec.loadChunk_encoded st.l o clk' it.loc n
      rcases hh2 : it.loc.loadChunk st.l o clk' n with ⟨l', clk'', ok2⟩
      rw [hh2] at e2
      cases ok2 <;> simp_all
  · simp only [hF, hL, if_true]
    have e1 := Dec.loadChunk_encoded st.f o clk it.freq n
    rcases hh : it.freq.loadChunk st.f o clk n with ⟨f', clk', ok⟩
    rw [hh] at e1
    cases ok <;> simp_all
  · simp only [hF, hL]
    have e2 := Dec.loadChunk_encoded st.l o clk it.loc n
    rcases hh2 : it.loc.loadChunk st.l o clk n with ⟨l', clk'', ok2⟩
    rw [hh2] at e2
    cases ok2 <;> simp_all
  · simp [hF, hL]

theorem ensure_good (st : IStore) (o : Oracle) (clk : Nat) (it : PIter) (n : Nat) (g : Good n it) :
    Good n (it.ensure ifixed st o clk n).1 := by
  unfold ensure
  split
  · have h := loadChunk_frame st o clk it n
    simp only at h
    obtain ⟨h1, _, h3, _, h5⟩ := h
    refine ⟨h1.trans g.incFreq, h3.trans g.enc, ?_⟩
    rw [h5]; split
    · exact Nat.le_refl _
    · exact g.le
  · exact g

theorem readEntry_frame (it : PIter) :
    it.readEntry.1.currChunk = it.currChunk ∧ it.readEntry.1.incFreq = it.incFreq ∧
    it.readEntry.1.incLocs = it.incLocs ∧ it.readEntry.1.freq.encoded = it.freq.encoded ∧
    it.readEntry.1.freq.bytes = it.freq.bytes ∧ it.readEntry.1.loc.encoded = it.loc.encoded ∧
    it.readEntry.1.loc.bytes = it.loc.bytes := by
  unfold readEntry
  have hb := Dec.read_bytes it.freq
  have hl := Dec.read_bytes it.loc
  rcases h1 : it.freq.read with ⟨f', r⟩
  rw [h1] at hb
  cases r with
  | panic => simp
  | error => simp
  | ok e =>
    simp only
    split
    · rcases h2 : it.loc.read with ⟨l', r2⟩
      rw [h2] at hl
      cases r2 <;> simp_all
    · simp_all

theorem readEntry_good {n : Nat} {it : PIter} (g : Good n it) : Good n it.readEntry.1 := by
  obtain ⟨h1, h2, _, h4, _⟩ := readEntry_frame it
  exact ⟨h2.trans g.incFreq, h4.trans g.enc, h1 ▸ g.le⟩

/-- the guarded load under `failFrom`: the healthy one, or a failure after which the guard stays true -/
theorem ensure_failFrom (st : IStore) (f clk : Nat) (it : PIter) (n : Nat) (g : Good n it) :
    it.ensure ifixed st (failFrom f) clk n = it.ensure ifixed st healthy clk n ∨
    ((it.ensure ifixed st (failFrom f) clk n).2.2 = false ∧
      Dead f n (it.ensure ifixed st (failFrom f) clk n).2.1 (it.ensure ifixed st (failFrom f) clk n).1) := by
  unfold ensure
  by_cases hg : it.guard n = true
  · simp only [hg, if_true]
    rcases loadChunk_failFrom st f clk it n with h | ⟨h1, h2, h3⟩
    · left; exact h
    · right
      refine ⟨h1, by omega, h3.2.1.trans g.incFreq, h3.2.2.2.1.trans g.enc, ?_⟩
      rcases h3.2.2.2.2 with he | he
      · rw [he, h3.1]
        simp only [guard, Bool.or_eq_true, bne_iff_ne, ne_eq] at hg
        rcases hg with hg | hg
        · right; have := g.le; omega
        · left; exact hg
      · left; exact he
  · left; simp [hg]

/-- once the storage fails and the guard is true, the guarded load fails and changes nothing -/
theorem ensure_dead (st : IStore) (o : Oracle) (f m clk : Nat) (it : PIter) (n : Nat)
    (ho : ∀ k, f ≤ k → o k = true)
    (hd : Dead f m clk it) (hn : m ≤ n) :
    ∃ clk', clk ≤ clk' ∧ it.ensure ifixed st o clk n = (it, clk', false) := by
  obtain ⟨h1, h2, h3, h4⟩ := hd
  have hg : it.guard n = true := by
    simp only [guard, Bool.or_eq_true, bne_iff_ne, ne_eq]
    rcases h4 with h | h
    · right; exact h
    · left; omega
  obtain ⟨clk', hc, he⟩ := Dec.loadChunk_of_read_fails st.f o clk it.freq n h3 (ho clk h1)
  refine ⟨clk', hc, ?_⟩
  unfold ensure loadChunk
  simp [hg, ifixed, h2, he]
  cases it; simp_all

theorem skips_good (st : IStore) (o : Oracle) (n k : Nat) : ∀ (clk : Nat) (it : PIter), Good n it →
    Good n (PIter.skips ifixed st o n k clk it).1 := by
  induction k with
  | zero => intro clk it g; simpa [skips] using g
  | succ k ih =>
    intro clk it g
    unfold skips
    have g1 := ensure_good st o clk it n g
    rcases he : it.ensure ifixed st o clk n with ⟨it1, clk1, ok⟩
    rw [he] at g1
    cases ok
    · simpa using g1
    · simp only [Bool.not_true, Bool.false_eq_true, if_false]
      have g2 := readEntry_good g1
      rcases hr : it1.readEntry with ⟨it2, r⟩
      rw [hr] at g2
      cases r with
      | ok _ => exact ih clk1 it2 g2
      | error => simpa using g2
      | panic => simpa using g2

theorem skips_failFrom (st : IStore) (f n k : Nat) : ∀ (clk : Nat) (it : PIter), Good n it →
    PIter.skips ifixed st (failFrom f) n k clk it = PIter.skips ifixed st healthy n k clk it ∨
    ((PIter.skips ifixed st (failFrom f) n k clk it).2.2 = .error ∧
      Dead f n (PIter.skips ifixed st (failFrom f) n k clk it).2.1
        (PIter.skips ifixed st (failFrom f) n k clk it).1) := by
  induction k with
  | zero => intro clk it _; left; rfl
  | succ k ih =>
    intro clk it g
    unfold skips
    rcases ensure_failFrom st f clk it n g with h | ⟨h1, h2⟩
    · rw [h]
      have g1 := ensure_good st healthy clk it n g
      rcases he : it.ensure ifixed st healthy clk n with ⟨it1, clk1, ok⟩
      rw [he] at g1
      cases ok
      · left; rfl
      · simp only [Bool.not_true, Bool.false_eq_true, if_false]
        have g2 := readEntry_good g1
        rcases hr : it1.readEntry with ⟨it2, r⟩
        rw [hr] at g2
        cases r with
        | ok _ => exact ih clk1 it2 g2
        | error => left; rfl
        | panic => left; rfl
    · right
      rcases he : it.ensure ifixed st (failFrom f) clk n with ⟨it1, clk1, ok⟩
      rw [he] at h1 h2
      simp only at h1 h2
      subst h1
      simpa using h2

/-- ONE ACCESS under `failFrom`: the healthy access (same state, same counter, same outcome), or
    an error that leaves a state on which the guard stays true while the storage fails -/
theorem access_failFrom (st : IStore) (f clk : Nat) (it : PIter) (a : IAcc) (g : Good a.chunk it) :
    it.access ifixed st (failFrom f) clk a = it.access ifixed st healthy clk a ∨
    ((it.access ifixed st (failFrom f) clk a).2.2 = .error ∧
      Dead f a.chunk (it.access ifixed st (failFrom f) clk a).2.1
        (it.access ifixed st (failFrom f) clk a).1) := by
  unfold access
  simp only [g.incFreq, Bool.not_true, Bool.false_eq_true, if_false]
  rcases skips_failFrom st f a.chunk a.skip clk it g with h | ⟨h1, h2⟩
  · rw [h]
    have g1 := skips_good st healthy a.chunk a.skip clk it g
    rcases hs : PIter.skips ifixed st healthy a.chunk a.skip clk it with ⟨it1, clk1, r⟩
    rw [hs] at g1
    cases r with
    | error => left; rfl
    | panic => left; rfl
    | ok u =>
      simp only
      rcases ensure_failFrom st f clk1 it1 a.chunk g1 with h' | ⟨h1', h2'⟩
      · rw [h']; left; rfl
      · right
        rcases he : it1.ensure ifixed st (failFrom f) clk1 a.chunk with ⟨it2, clk2, ok⟩
        rw [he] at h1' h2'
        simp only at h1' h2'
        subst h1'
        simpa using h2'
  · right
    rcases hs : PIter.skips ifixed st (failFrom f) a.chunk a.skip clk it with ⟨it1, clk1, r⟩
    rw [hs] at h1 h2
    simp only at h1 h2
    subst h1
    simpa using h2

theorem access_good (st : IStore) (o : Oracle) (clk : Nat) (it : PIter) (a : IAcc) (g : Good a.chunk it) :
    Good a.chunk (it.access ifixed st o clk a).1 := by
  unfold access
  simp only [g.incFreq, Bool.not_true, Bool.false_eq_true, if_false]
  have g1 := skips_good st o a.chunk a.skip clk it g
  rcases hs : PIter.skips ifixed st o a.chunk a.skip clk it with ⟨it1, clk1, r⟩
  rw [hs] at g1
  cases r with
  | error => simpa using g1
  | panic => simpa using g1
  | ok u =>
    simp only
    have g2 := ensure_good st o clk1 it1 a.chunk g1
    rcases he : it1.ensure ifixed st o clk1 a.chunk with ⟨it2, clk2, ok⟩
    rw [he] at g2
    cases ok
    · simpa using g2
    · simp only [Bool.not_true, Bool.false_eq_true, if_false]
      have g3 := readEntry_good g2
      rcases hr : it2.readEntry with ⟨it3, r⟩
      rw [hr] at g3
      cases r <;> simpa using g3

/-- ONE ACCESS once the storage fails and the guard is true: an error, the state stays -/
theorem access_dead (st : IStore) (o : Oracle) (f m clk : Nat) (it : PIter) (a : IAcc)
    (ho : ∀ k, f ≤ k → o k = true) (hd : Dead f m clk it) (hn : m ≤ a.chunk) :
    ∃ clk', clk ≤ clk' ∧ it.access ifixed st o clk a = (it, clk', .error) := by
  obtain ⟨clk', hc, he⟩ := ensure_dead st o f m clk it a.chunk ho hd hn
  unfold access
  simp only [hd.2.1, Bool.not_true, Bool.false_eq_true, if_false]
  cases hk : a.skip with
  | zero =>
    simp only [skips, he]
    exact ⟨clk', hc, by simp⟩
  | succ k =>
    simp only [skips, he]
    exact ⟨clk', hc, by simp⟩

end PIter
end Ice.Model.CacheFault
