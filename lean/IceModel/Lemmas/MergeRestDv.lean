import IceModel.Model.MergeRest
import IceModel.Lemmas.DocValues
import IceModel.Lemmas.MergeRestRemap
/-
  `iterateAllDocValues` on a column written by the doc-value writer (either mode), and
  `buildMergedDocVals` as `DocValues.mergeField` of the survivors.
-/
namespace Ice.Model.MergeRest
open Ice Ice.Model Ice.Model.DocValues

/-! ### folding a visitor over (docNum, bytes) pairs -/

/-- the visitor applied to the pairs in order, stopping at the first failure -/
def foldV {σ : Type} (f : σ → Nat → Bytes → Res σ) : List (Nat × Bytes) → σ → Res σ
  | [], s => .ok s
  | (d, v) :: r, s => f s d v >>= fun s => foldV f r s

theorem foldV_append {σ : Type} (f : σ → Nat → Bytes → Res σ) (a b : List (Nat × Bytes)) :
    ∀ s, foldV f (a ++ b) s = foldV f a s >>= fun s => foldV f b s := by
  induction a with
  | nil => intro s; rfl
  | cons p a ih =>
    intro s
    obtain ⟨d, v⟩ := p
    simp only [List.cons_append, foldV]
    cases f s d v with
    | ok s' => simp [ih]
    | err => rfl
    | panic => rfl

/-- the result without the reader -/
def resFst {σ ρ : Type} (r : Res (σ × ρ)) : Res σ := r >>= fun p => .ok p.1

@[simp] theorem resFst_ok {σ ρ : Type} (s : σ) (r : ρ) : resFst (Res.ok (s, r)) = .ok s := rfl

/-! ### one chunk -/

theorem iterChunk_spec {σ : Type} (f : σ → Nat → Bytes → Res σ) :
    ∀ (g : List (Nat × Bytes)) (P X : Bytes) (s : σ),
    iterChunk f (P ++ (dataOf g ++ X)) (hdrExt P.length g) P.length s = foldV f g s := by
  intro g
  induction g with
  | nil => intro P X s; rfl
  | cons p g ih =>
    intro P X s
    obtain ⟨d, v⟩ := p
    simp only [hdrExt, iterChunk, foldV, dataOf_cons]
    have h1 : P.length ≤ P.length + v.length ∧
        P.length + v.length ≤ (P ++ (v ++ dataOf g ++ X)).length := by
      simp only [List.length_append]; omega
    rw [if_pos h1]
    have h2 : ((P ++ (v ++ dataOf g ++ X)).drop P.length).take (P.length + v.length - P.length) = v := by
      rw [List.drop_left, Nat.add_sub_cancel_left, List.append_assoc, List.take_left]
    rw [h2]
    cases f s d v with
    | ok s' =>
      simp only [ok_bind]
      have := ih (P ++ v) X s'
      simp only [List.length_append, List.append_assoc] at this
      simpa [List.append_assoc] using this
    | err => rfl
    | panic => rfl

/-! ### all chunks -/

theorem hdr_bounds {cs maxDocNum : Nat} {vals : List (Nat × Bytes)}
    (hv : ValidVals cs maxDocNum vals) (c : Nat) :
    ∀ m ∈ hdrExt 0 (chunkVals cs vals c), m.1 < 2 ^ 64 ∧ m.2 < 2 ^ 64 := by
  intro m hm
  obtain ⟨⟨q, hq, e⟩, hle⟩ := mem_hdrExt _ 0 m hm
  have hq' : q ∈ vals := (List.mem_filter.mp hq).1
  have := hv.max q hq'
  have := hv.maxDoc
  have := hv.raw
  have := length_dataOf_chunkVals_le cs vals c
  exact ⟨by omega, by omega⟩

/-- `iterateAllDocValues` over any list of chunk numbers of a written column: the visitor sees
    the documents of those chunks, in order; empty and never-flushed chunks contribute nothing -/
theorem iterateAll_chunks {σ : Type} (z : Codec) {cs maxDocNum : Nat} {vals : List (Nat × Bytes)}
    (hv : ValidVals cs maxDocNum vals) {file : Data} {pre suf : Bytes}
    (L : Layout file pre (chunksOf z cs (maxDocNum / cs + 1) vals) suf)
    (f : σ → Nat → Bytes → Res σ) :
    ∀ (l : List Nat) (di : Reader) (s : σ), (∀ c ∈ l, c < maxDocNum / cs + 1) →
    di.chunkOffsets = offsOf (chunksOf z cs (maxDocNum / cs + 1) vals) →
    di.dvDataLoc = pre.length →
    resFst (iterateAll z file f l di s) = foldV f (l.flatMap (chunkVals cs vals)) s := by
  intro l
  induction l with
  | nil => intro di s _ _ _; rfl
  | cons c r ih =>
    intro di s hl ho hloc
    have hc := hl c (by simp)
    have hr : ∀ x ∈ r, x < maxDocNum / cs + 1 := fun x hx => hl x (by simp [hx])
    have hG := chunksOf_getElem? z cs _ vals c hc
    simp only [List.flatMap_cons]
    rw [foldV_append]
    by_cases hfl : c = 0 ∨ chunkVals cs vals c ≠ []
    · have hcb : chunkBytes z cs vals c =
          encChunk z (hdrExt 0 (chunkVals cs vals c)) (dataOf (chunkVals cs vals c)) := by
        unfold chunkBytes; rw [if_pos hfl]
      rw [hcb] at hG
      have hload := L.loadDvChunk_enc di ho hloc c z _ _ hG (hdr_bounds hv c)
      rw [iterateAll, hload]
      simp only [ok_bind]
      by_cases hnil : chunkVals cs vals c = []
      · simp only [hnil, hdrExt, List.length_nil, if_true, foldV, ok_bind]
        exact ih _ s hr ho hloc
      · have hlen : ¬ (hdrExt 0 (chunkVals cs vals c)).length = 0 := by
          rw [length_hdrExt]
          intro h; exact hnil (List.length_eq_zero_iff.mp h)
        rw [if_neg hlen, z.rt]
        simp only
        have hch := iterChunk_spec f (chunkVals cs vals c) [] [] s
        simp only [List.nil_append, List.append_nil, List.length_nil] at hch
        rw [hch]
        cases hfv : foldV f (chunkVals cs vals c) s with
        | ok s' =>
          simp only [ok_bind]
          exact ih _ s' hr ho hloc
        | err => rfl
        | panic => rfl
    · have hcb : chunkBytes z cs vals c = [] := by
        unfold chunkBytes; rw [if_neg hfl]
      rw [hcb] at hG
      have hnil : chunkVals cs vals c = [] := by
        apply Classical.byContradiction
        intro h; exact hfl (.inr h)
      have hload := L.loadDvChunk_empty di ho c hG
      rw [iterateAll, hload]
      simp only [ok_bind, hnil, foldV]
      exact ih _ s hr ho hloc

/-- the chunks cover the column -/
theorem chunks_cover (cs : Nat) : ∀ (n : Nat) (vals : List (Nat × Bytes)),
    vals.Pairwise (fun a b => a.1 / cs ≤ b.1 / cs) → (∀ p ∈ vals, p.1 / cs < n) →
    (List.range n).flatMap (chunkVals cs vals) = vals := by
  intro n
  induction n with
  | zero =>
    intro vals _ hb
    cases vals with
    | nil => rfl
    | cons p _ => exact absurd (hb p (by simp)) (Nat.not_lt_zero _)
  | succ n ih =>
    intro vals hs hb
    rw [List.range_succ, List.flatMap_append]
    simp only [List.flatMap_cons, List.flatMap_nil, List.append_nil]
    -- split `vals` into the chunks below `n` and chunk `n`
    have hsplit : ∀ (L : List (Nat × Bytes)), L.Pairwise (fun a b => a.1 / cs ≤ b.1 / cs) →
        (∀ p ∈ L, p.1 / cs ≤ n) →
        L = (L.filter fun p => decide (p.1 / cs < n)) ++ L.filter fun p => p.1 / cs == n := by
      intro L
      induction L with
      | nil => intro _ _; rfl
      | cons p r ihL =>
        intro hs hb
        have hs' := List.pairwise_cons.1 hs
        have hr := ihL hs'.2 (fun q hq => hb q (by simp [hq]))
        by_cases hp : p.1 / cs < n
        · have hne : ¬ p.1 / cs = n := by omega
          simp only [List.filter_cons, hp, decide_true, if_true, beq_iff_eq, hne, if_false,
            List.cons_append]
          exact congrArg _ hr
        · have hpn : p.1 / cs = n := by have := hb p (by simp); omega
          have hall : ∀ q ∈ r, q.1 / cs = n := by
            intro q hq
            have := hs'.1 q hq
            have := hb q (by simp [hq])
            omega
          have h1 : (r.filter fun p => decide (p.1 / cs < n)) = [] := by
            rw [List.filter_eq_nil_iff]
            intro q hq; simp [hall q hq]
          have h2 : (r.filter fun p => p.1 / cs == n) = r := by
            rw [List.filter_eq_self]
            intro q hq; simp [hall q hq]
          simp [hpn, h1, h2]
    have hsp := hsplit vals hs (fun p hp => by have := hb p hp; omega)
    have h1 : (List.range n).flatMap (chunkVals cs vals) =
        (List.range n).flatMap (chunkVals cs (vals.filter fun p => decide (p.1 / cs < n))) := by
      apply Spec.flatMap_congr'
      intro m hm
      have hmn := List.mem_range.1 hm
      unfold chunkVals
      rw [List.filter_filter]
      apply List.filter_congr
      intro p _
      by_cases he : p.1 / cs = m
      · simp [he, hmn]
      · simp [he]
    rw [h1, ih _ (hs.filter _) (fun p hp => by simpa using (List.mem_filter.1 hp).2)]
    exact hsp.symm

/-- **D (iteration).**  `iterateAllDocValues` over a column written by the doc-value writer
    hands the visitor every (docNum, bytes) of the column, in ascending document order. -/
theorem iterateAll_spec {σ : Type} (z : Codec) {cs maxDocNum : Nat} {vals : List (Nat × Bytes)}
    (hv : ValidVals cs maxDocNum vals) {file : Data} {pre suf : Bytes}
    (L : Layout file pre (chunksOf z cs (maxDocNum / cs + 1) vals) suf)
    (f : σ → Nat → Bytes → Res σ) (di : Reader) (s : σ)
    (ho : di.chunkOffsets = offsOf (chunksOf z cs (maxDocNum / cs + 1) vals))
    (hloc : di.dvDataLoc = pre.length) :
    resFst (iterateAll z file f (List.range di.chunkOffsets.length) di s) = foldV f vals s := by
  have hlen : di.chunkOffsets.length = maxDocNum / cs + 1 := by
    rw [ho]; simp [offsOf, endOffsets_length, chunksOf_length]
  rw [hlen, iterateAll_chunks z hv L f _ di s (fun c hc => List.mem_range.1 hc) ho hloc]
  have hcs := chunkSorted_of_ascending cs maxDocNum vals hv.asc hv.max
  rw [chunks_cover cs _ vals hcs.1 (fun p hp => (hcs.2 p hp).2)]

/-! ### the visitor of `buildMergedDocVals` -/

/-- the survivors of a column under the map `nums`: (newDocNum, bytes) -/
def mapVals (nums : List Nat) (vals : List (Nat × Bytes)) : List (Nat × Bytes) :=
  vals.filterMap fun p =>
    match nums[p.1]? with
    | some nn => if nn = docDropped then none else some (nn, p.2)
    | none => none

theorem foldV_dvVisitor (z : Codec) (ndn : List (List Nat)) (segI : Nat) (nums : List Nat)
    (hn : ndn[segI]? = some nums) : ∀ (vals : List (Nat × Bytes)) (c : Coder),
    (∀ p ∈ vals, p.1 < nums.length) →
    foldV (dvVisitor z ndn segI) vals c = addAll z c (mapVals nums vals) := by
  intro vals
  induction vals with
  | nil => intro c _; rfl
  | cons p r ih =>
    intro c hb
    obtain ⟨d, v⟩ := p
    have hd : d < nums.length := hb (d, v) (by simp)
    have hr : ∀ q ∈ r, q.1 < nums.length := fun q hq => hb q (by simp [hq])
    simp only [foldV, dvVisitor, hn, Option.bind_some, List.getElem?_eq_getElem hd, mapVals,
      List.filterMap_cons]
    by_cases hdrop : nums[d] = docDropped
    · simp only [hdrop, if_true, ok_bind]
      exact ih c hr
    · simp only [hdrop, if_false, addAll]
      cases c.add z nums[d] v with
      | ok c' => simp only [ok_bind]; exact ih c' hr
      | err => rfl
      | panic => rfl

theorem addAll_append (z : Codec) (a b : List (Nat × Bytes)) : ∀ c,
    addAll z c (a ++ b) = addAll z c a >>= fun c => addAll z c b := by
  induction a with
  | nil => intro c; rfl
  | cons p a ih =>
    intro c
    obtain ⟨d, v⟩ := p
    simp only [List.cons_append, addAll]
    cases c.add z d v with
    | ok c' => simp [ih]
    | err => rfl
    | panic => rfl

/-! ### the loop over the segments in focus -/

/-- a segment in focus with what is known about its column: `none` = no reader for the field -/
structure DvSpec where
  seg : DvSeg
  cs : Nat
  maxDocNum : Nat
  pre : Bytes
  suf : Bytes
  col : Option (List (Nat × Bytes))

/-- the segment's reader, if any, reads a column written by the doc-value writer from `col` -/
def DvSpec.OK (z : Codec) (cs : Nat) (s : DvSpec) : Prop :=
  match s.col with
  | none => s.seg.reader = none
  | some vals =>
    s.cs = cs ∧ ValidVals cs s.maxDocNum vals ∧
    Layout s.seg.data s.pre (chunksOf z cs (s.maxDocNum / cs + 1) vals) s.suf ∧
    ∃ r, s.seg.reader = some r ∧
      r.chunkOffsets = offsOf (chunksOf z cs (s.maxDocNum / cs + 1) vals) ∧
      r.dvDataLoc = s.pre.length

/-- what the segment contributes to the merged column -/
def DvSpec.part (s : DvSpec) (nums : List Nat) : List (Nat × Bytes) :=
  match s.col with
  | none => []
  | some vals => mapVals nums vals

theorem dvLoop_spec (z : Codec) (cs : Nat) (ndn : List (List Nat)) :
    ∀ (S : List DvSpec) (k : Nat) (c : Coder) (av : Bool),
    (∀ s ∈ S, s.OK z cs) →
    (∀ j s, S[j]? = some s → ∃ nums, ndn[k + j]? = some nums ∧
      ∀ vals, s.col = some vals → ∀ p ∈ vals, p.1 < nums.length) →
    dvLoop z ndn ((S.map (·.seg)).zipIdx k) c av =
      addAll z c ((S.zipIdx k).flatMap fun p => p.1.part (ndn.getD p.2 [])) >>= fun c =>
        .ok (c, av || S.any fun s => s.col.isSome) := by
  intro S
  induction S with
  | nil => intro k c av _ _; simp [dvLoop, addAll]
  | cons s S ih =>
    intro k c av hok hn
    have hs := hok s (by simp)
    have hS : ∀ t ∈ S, t.OK z cs := fun t ht => hok t (by simp [ht])
    obtain ⟨nums, hnums, hb⟩ := hn 0 s (by simp)
    simp only [Nat.add_zero] at hnums
    have hnS : ∀ j t, S[j]? = some t → ∃ nums, ndn[k + 1 + j]? = some nums ∧
        ∀ vals, t.col = some vals → ∀ p ∈ vals, p.1 < nums.length := by
      intro j t hj
      have := hn (j + 1) t (by simpa using hj)
      rw [show k + 1 + j = k + (j + 1) by omega]; exact this
    have hgd : ndn.getD k [] = nums := by rw [List.getD_eq_getElem?_getD, hnums]; rfl
    simp only [List.map_cons, List.zipIdx_cons, List.flatMap_cons, List.any_cons, hgd]
    rw [dvLoop, addAll_append]
    unfold DvSpec.OK at hs
    cases hcol : s.col with
    | none =>
      rw [hcol] at hs
      simp only at hs
      have hpart : s.part nums = [] := by simp [DvSpec.part, hcol]
      simp only [hs, hpart, addAll, ok_bind, Option.isSome_none, Bool.false_or]
      exact ih (k + 1) c av hS hnS
    | some vals =>
      rw [hcol] at hs
      simp only at hs
      obtain ⟨hcs, hv, L, r, hr, ho, hloc⟩ := hs
      have hpart : s.part nums = mapVals nums vals := by simp [DvSpec.part, hcol]
      simp only [hr, hpart, Option.isSome_some, Bool.true_or, Bool.or_true]
      have hit := iterateAll_spec z hv L (dvVisitor z ndn k) r.clone c ho hloc
      rw [foldV_dvVisitor z ndn k nums hnums vals c (hb vals hcol)] at hit
      have hclone : r.clone.chunkOffsets = r.chunkOffsets := rfl
      rw [hclone] at hit
      cases hres : iterateAll z s.seg.data (dvVisitor z ndn k) (List.range r.chunkOffsets.length)
          r.clone c with
      | ok p =>
        rw [hres] at hit
        obtain ⟨c', di'⟩ := p
        simp only [resFst_ok] at hit
        rw [← hit]
        simp only [ok_bind]
        have := ih (k + 1) c' true hS hnS
        simpa using this
      | err =>
        rw [hres] at hit
        have : addAll z c (mapVals nums vals) = .err := hit.symm
        rw [this]; rfl
      | panic =>
        rw [hres] at hit
        have : addAll z c (mapVals nums vals) = .panic := hit.symm
        rw [this]; rfl

/-- **D (merge of one field's doc values).**  `buildMergedDocVals` is `DocValues.mergeField`
    applied to the concatenation, over the segments in focus in order, of the surviving
    (newDocNum, bytes) pairs; the field gets a column iff some segment in focus has a reader. -/
theorem buildMergedDocVals_eq (z : Codec) (cs n count : Nat) (hcs : 0 < cs) (S : List DvSpec)
    (ndn : List (List Nat)) (hok : ∀ s ∈ S, s.OK z cs)
    (hn : ∀ (j : Nat) (s : DvSpec), S[j]? = some s → ∃ nums, ndn[j]? = some nums ∧
      ∀ vals, s.col = some vals → ∀ p ∈ vals, p.1 < nums.length) :
    buildMergedDocVals z cs n count (S.map (·.seg)) ndn =
      if S.any (fun s => s.col.isSome) then
        mergeField z cs (sub64 n 1) count (S.zipIdx.flatMap fun p => p.1.part (ndn.getD p.2 []))
      else .ok ([], fieldNotUninverted, fieldNotUninverted) := by
  have hcs' : cs ≠ 0 := by omega
  have hnil : ¬ (S.any fun s => s.col.isSome) = true →
      (S.zipIdx.flatMap fun p => p.1.part (ndn.getD p.2 [])) = [] := by
    intro hany
    rw [List.flatMap_eq_nil_iff]
    intro p hp
    have hmem : p.1 ∈ S := by
      obtain ⟨_, hlt, he⟩ := List.mem_zipIdx hp
      simp only [Nat.zero_add, Nat.sub_zero] at hlt he
      rw [he]; exact List.getElem_mem hlt
    have : p.1.col.isSome = false := by
      cases h : p.1.col.isSome with
      | false => rfl
      | true => exact absurd (List.any_eq_true.2 ⟨p.1, hmem, h⟩) hany
    unfold DvSpec.part
    cases hc : p.1.col with
    | none => rfl
    | some v => rw [hc] at this; simp at this
  unfold buildMergedDocVals mergeField
  simp only [Coder.new, hcs', if_false, ok_bind, pure_eq]
  rw [dvLoop_spec z cs ndn S 0 _ false hok (by simpa using hn)]
  simp only [Bool.false_or]
  by_cases hany : (S.any fun s => s.col.isSome) = true
  · rw [if_pos hany]
    cases hadd : addAll z _ (S.zipIdx.flatMap fun p => p.1.part (ndn.getD p.2 [])) with
    | ok c =>
      simp only [ok_bind, hany, if_true]
    | err => rfl
    | panic => rfl
  · rw [if_neg hany, hnil hany]
    simp only [addAll, ok_bind, hany]
    rfl

end Ice.Model.MergeRest
