import IceModel.Lemmas.E2EShape
/-
  END-TO-END, builder path: the description `r.toLSeg mode` is a valid input of the container
  (`C04.Valid`), its postings satisfy the contract of the byte-level iterator
  (`C05Bytes.Contract`), and its stored documents are the specification's stored values.
-/
namespace Ice.Props.E2E
open Ice Ice.Spec Ice.Model Ice.Model.Builder Ice.Model.Format
open Ice.Model.ChunkBytes (Entry BLoc)
open Ice.Model.IterBytes (toP toLoc)

/-! ### keys -/

theorem ascKeys_of_asc : ∀ (l : List Bytes), Asc l → ascKeys l = true
  | [], _ => rfl
  | [_], _ => rfl
  | a :: c :: r, h => by
    have h1 : Bytes.cmp a c = .lt := (List.pairwise_cons.1 h).1 c (by simp)
    have h2 : Asc (c :: r) := (List.pairwise_cons.1 h).2
    simp only [ascKeys, Bytes.lt, h1, ascKeys_of_asc (c :: r) h2]
    rfl

/-! ### entries -/

theorem toLoc_locToB {F : List Bytes} {l : Loc} (h : l.field ∈ F) : toLoc F (locToB F l) = l := by
  unfold toLoc locToB
  have hlt := List.idxOf_lt_length_of_mem h
  have : F[F.idxOf l.field]? = some l.field := by
    rw [List.getElem?_eq_getElem hlt]; simp
  simp [this]

theorem toP_postingToE {F : List Bytes} {p : Posting} (h : ∀ l ∈ p.locs, l.field ∈ F) :
    toP F (postingToE F p) = p := by
  unfold toP postingToE
  simp only [List.map_map]
  have : p.locs.map (toLoc F ∘ locToB F) = p.locs := by
    conv => rhs; rw [← List.map_id p.locs]
    apply List.map_congr_left
    intro l hl
    exact toLoc_locToB (h l hl)
  rw [this]

theorem map_toP_postingToE {F : List Bytes} {ps : List Posting}
    (h : ∀ p ∈ ps, ∀ l ∈ p.locs, l.field ∈ F) : (ps.map (postingToE F)).map (toP F) = ps := by
  rw [List.map_map]
  conv => rhs; rw [← List.map_id ps]
  apply List.map_congr_left
  intro p hp
  exact toP_postingToE (h p hp)

theorem idxOf_le_length' (F : List Bytes) (x : Bytes) : F.idxOf x ≤ F.length := by
  by_cases h : x ∈ F
  · exact Nat.le_of_lt (List.idxOf_lt_length_of_mem h)
  · exact Nat.le_of_eq (List.idxOf_eq_length h)

section
variable {S : AbsSeg} (hB : SpecBounds S) (hF : S.fields.length ≤ 65535) (f t : Bytes)
include hB hF

/-- the postings of a (field, term) of the specification are valid byte-level entries -/
theorem entriesOK_postings :
    EntriesOK S.docs.length ((postings S f t).map (postingToE S.fields)) := by
  obtain ⟨hpw, hdoc⟩ := postings_docs S f t
  refine ⟨?_, ?_, ?_⟩
  · intro e he
    obtain ⟨p, hp, rfl⟩ := List.mem_map.1 he
    obtain ⟨h1, h2, h3, h5, h4⟩ := hB.posting hp
    refine ⟨by show p.freq < 2 ^ 63; omega, by show p.norm < 2 ^ 64; omega, ?_, ?_⟩
    · show (p.locs.map (locToB S.fields)).length < 2 ^ 57
      rw [List.length_map]; exact h5
    · intro l hl
      obtain ⟨l0, hl0, rfl⟩ := List.mem_map.1 hl
      obtain ⟨a, c, d⟩ := h4 l0 hl0
      refine ⟨?_, a, c, d⟩
      show S.fields.idxOf l0.field < 2 ^ 64
      have := idxOf_le_length' S.fields l0.field
      omega
  · rw [List.pairwise_map]; exact hpw
  · intro e he
    obtain ⟨p, hp, rfl⟩ := List.mem_map.1 he
    exact hdoc p hp

/-- … and satisfy the input contract of the byte-level iterator, given that every location names
    a field of the segment -/
theorem contract_postings (hloc : ∀ p ∈ postings S f t, ∀ l ∈ p.locs, l.field ∈ S.fields) :
    C05Bytes.Contract S.fields (S.docs.length - 1) ((postings S f t).map (postingToE S.fields)) := by
  obtain ⟨hv, hpw, hdoc⟩ := entriesOK_postings hB hF f t
  refine ⟨hv, ?_, ?_, ?_, ?_, hpw⟩
  · intro e he
    obtain ⟨p, hp, rfl⟩ := List.mem_map.1 he
    show (p.locs.map (locToB S.fields)).length ≤ p.freq
    rw [List.length_map]; exact (hB.posting hp).2.2.1
  · intro e he
    obtain ⟨p, hp, rfl⟩ := List.mem_map.1 he
    exact (hB.posting hp).2.1
  · intro e he l hl
    obtain ⟨p, hp, rfl⟩ := List.mem_map.1 he
    obtain ⟨l0, hl0, rfl⟩ := List.mem_map.1 hl
    exact List.idxOf_lt_length_of_mem (hloc p hp l0 hl0)
  · intro e he
    have := hdoc e he
    omega

end

/-! ### doc values -/

theorem lookup_of_mem {α : Type} {vals : List (Nat × α)} (hasc : vals.Pairwise (fun a c => a.1 < c.1))
    {q : Nat × α} (hq : q ∈ vals) : DocValues.lookup vals q.1 = some q.2 := by
  unfold DocValues.lookup
  induction vals with
  | nil => cases hq
  | cons a r ih =>
    rw [List.pairwise_cons] at hasc
    rcases List.mem_cons.1 hq with rfl | hq'
    · simp
    · have := hasc.1 q hq'
      have hne : (a.1 == q.1) = false := by simp; omega
      simp only [List.find?_cons, hne]
      exact ih hasc.2 hq'

/-- the terms the specification lists as doc values of a document are terms of a field with doc
    values: no separator byte -/
theorem dvOf_noSep {S : AbsSeg} (hB : SpecBounds S) (n : Nat) (f : Bytes) :
    ∀ t ∈ dvOf S n f, (255 : Nat) ∉ t := by
  intro t ht
  unfold dvOf at ht
  cases hd : S.docs[n]? with
  | none => rw [hd] at ht; cases ht
  | some d =>
    rw [hd] at ht
    simp only at ht
    cases hf : d.field? f with
    | none => rw [hf] at ht; cases ht
    | some af =>
      rw [hf] at ht
      simp only at ht
      split at ht
      · rename_i hdv
        obtain ⟨x, hx, rfl⟩ := List.mem_map.1 ht
        exact (hB.field d (List.mem_of_getElem? hd) af (field?_mem hf).1).2.1 hdv x hx
      · cases ht

/-! ### stored values -/

theorem filterMap_congr' {α β : Type} {f g : α → Option β} : ∀ {l : List α},
    (∀ a ∈ l, f a = g a) → l.filterMap f = l.filterMap g
  | [], _ => rfl
  | a :: r, h => by
    simp only [List.filterMap_cons, h a (by simp),
      filterMap_congr' (l := r) (fun x hx => h x (by simp [hx]))]

theorem filter_keyed (g : Bytes → List Bytes) (x : Bytes) : ∀ (F : List Bytes), F.Nodup →
    (F.flatMap (fun f => (g f).map (fun v => (f, v)))).filter (fun p => p.1 == x) =
      if x ∈ F then (g x).map (fun v => (x, v)) else []
  | [], _ => by simp
  | a :: r, hn => by
    rw [List.nodup_cons] at hn
    simp only [List.flatMap_cons, List.filter_append, filter_keyed g x r hn.2, List.mem_cons]
    by_cases h : x = a
    · subst h
      have h1 : List.filter (fun p : Bytes × Bytes => p.1 == x) ((g x).map (fun v => (x, v))) =
          (g x).map (fun v => (x, v)) := by
        rw [List.filter_eq_self]
        intro p hp
        obtain ⟨v, _, rfl⟩ := List.mem_map.1 hp
        simp
      simp [h1, hn.1]
    · have h1 : List.filter (fun p : Bytes × Bytes => p.1 == x) ((g a).map (fun v => (a, v))) = [] := by
        rw [List.filter_eq_nil_iff]
        intro p hp
        obtain ⟨v, _, rfl⟩ := List.mem_map.1 hp
        simp only [beq_iff_eq]
        exact fun e => h e.symm
      simp [h1, h]

/-- the stored document reconstructed from a field-ordered value list delivers that list -/
theorem flat_storedDocOf (F : List Bytes) (hn : F.Nodup) (g : Bytes → List Bytes) :
    (Stored.flat (storedDocOf F (F.flatMap (fun f => (g f).map (fun v => (f, v)))))).map
      (fun p => (F.getD p.1 [], p.2)) = F.flatMap (fun f => (g f).map (fun v => (f, v))) := by
  have hdoc : storedDocOf F (F.flatMap (fun f => (g f).map (fun v => (f, v)))) =
      (List.range F.length).filterMap (fun i =>
        if (g (fname F i)).isEmpty then none else some (i, g (fname F i))) := by
    unfold storedDocOf
    apply filterMap_congr'
    intro i hi
    have hi' : i < F.length := List.mem_range.1 hi
    have hmem : F.getD i [] ∈ F := by
      rw [List.getD_eq_getElem?_getD, List.getElem?_eq_getElem hi']
      exact List.getElem_mem hi'
    simp only [filter_keyed g _ F hn, hmem, if_true, List.map_map]
    have : ((fun x : Bytes × Bytes => x.2) ∘ fun v => (F.getD i [], v)) = id := by funext v; rfl
    rw [this, List.map_id]
    rfl
  rw [hdoc]
  conv => rhs; rw [← range_map_fname F]
  generalize List.range F.length = R
  induction R with
  | nil => rfl
  | cons i R ih =>
    simp only [List.filterMap_cons, List.map_cons, List.flatMap_cons]
    cases hg : g (fname F i) with
    | nil =>
      simp only [List.isEmpty_nil, if_true, List.map_nil, List.nil_append]
      exact ih
    | cons v vs =>
      simp only [List.isEmpty_cons, Bool.false_eq_true, if_false]
      simp only [Stored.flat, List.flatMap_cons, List.map_append] at ih ⊢
      rw [ih]
      simp [fname, List.map_map, Function.comp_def]

/-- … and, before the names are put back, the (field id, value) list: what the builder's loop
    new.go:600-610 feeds to `encodeStoredFieldValues` -/
theorem flat_storedDocOf_ids (F : List Bytes) (hn : F.Nodup) (g : Bytes → List Bytes) :
    Stored.flat (storedDocOf F (F.flatMap (fun f => (g f).map (fun v => (f, v))))) =
      (List.range F.length).flatMap (fun i => (g (fname F i)).map (fun v => (i, v))) := by
  have hdoc : storedDocOf F (F.flatMap (fun f => (g f).map (fun v => (f, v)))) =
      (List.range F.length).filterMap (fun i =>
        if (g (fname F i)).isEmpty then none else some (i, g (fname F i))) := by
    unfold storedDocOf
    apply filterMap_congr'
    intro i hi
    have hi' : i < F.length := List.mem_range.1 hi
    have hmem : F.getD i [] ∈ F := by
      rw [List.getD_eq_getElem?_getD, List.getElem?_eq_getElem hi']
      exact List.getElem_mem hi'
    simp only [filter_keyed g _ F hn, hmem, if_true, List.map_map]
    have : ((fun x : Bytes × Bytes => x.2) ∘ fun v => (F.getD i [], v)) = id := by funext v; rfl
    rw [this, List.map_id]
    rfl
  rw [hdoc]
  generalize List.range F.length = R
  induction R with
  | nil => rfl
  | cons i R ih =>
    simp only [List.filterMap_cons, List.flatMap_cons]
    cases hg : g (fname F i) with
    | nil =>
      simp only [List.isEmpty_nil, if_true, List.map_nil, List.nil_append]
      exact ih
    | cons v vs =>
      simp only [List.isEmpty_cons, Bool.false_eq_true, if_false]
      simp only [Stored.flat, List.flatMap_cons] at ih ⊢
      rw [ih]

/-- the stored document `toLSeg` reconstructs from the names is the builder's: its (field id,
    value) list is `Builder.storedOut` of the document's stored-field map -/
theorem flat_storedDocOf_raw (F : List Bytes) (hn : F.Nodup) (dsf : AMap Nat (List Bytes)) :
    Stored.flat (storedDocOf F ((Builder.storedOut F.length dsf).map
      (fun p => (F.getD p.1 [], p.2)))) = Builder.storedOut F.length dsf := by
  let h : Nat → List Bytes := fun i => match aget dsf (u16 i) with
    | some vals => vals
    | none => []
  have hraw : Builder.storedOut F.length dsf =
      (List.range F.length).flatMap (fun i => (h i).map (fun v => (i, v))) := by
    unfold Builder.storedOut
    apply flatMap_congr'
    intro i _
    simp only [h]
    cases aget dsf (u16 i) <;> rfl
  have hkeyed : (Builder.storedOut F.length dsf).map (fun p => (F.getD p.1 [], p.2)) =
      F.flatMap (fun f => (h (F.idxOf f)).map (fun v => (f, v))) := by
    have hF : ∀ G : Bytes → List (Bytes × Bytes),
        F.flatMap G = (List.range F.length).flatMap (fun i => G (fname F i)) := by
      intro G
      conv => lhs; rw [← range_map_fname F]
      rw [List.flatMap_map]
    rw [hraw, hF, List.map_flatMap]
    apply flatMap_congr'
    intro i hi
    have hi' : i < F.length := List.mem_range.1 hi
    have hidx : F.idxOf (fname F i) = i := by
      have : fname F i = F[i] := by
        simp [fname, List.getD_eq_getElem?_getD, List.getElem?_eq_getElem hi']
      rw [this]; exact idxOf_getElem_nodup hn i hi'
    simp only [List.map_map, hidx]
    rfl
  rw [hkeyed, flat_storedDocOf_ids F hn, hraw]
  apply flatMap_congr'
  intro i hi
  have hi' : i < F.length := List.mem_range.1 hi
  have hidx : F.idxOf (fname F i) = i := by
    have : fname F i = F[i] := by
      simp [fname, List.getD_eq_getElem?_getD, List.getElem?_eq_getElem hi']
    rw [this]; exact idxOf_getElem_nodup hn i hi'
  rw [hidx]

theorem takeStop_map {α β : Type} (g : α → β) (stop : Option Nat) (l : List α) :
    Stored.takeStop stop (l.map g) = (Stored.takeStop stop l).map g := by
  cases stop <;> simp [Stored.takeStop, List.map_take]

/-- `Spec.stored` in field-keyed form -/
theorem spec_stored_keyed (S : AbsSeg) (n : Nat) :
    ∃ g : Bytes → List Bytes, stored S n = S.fields.flatMap (fun f => (g f).map (fun v => (f, v))) := by
  unfold stored
  cases hd : S.docs[n]? with
  | none => exact ⟨fun _ => [], by simp⟩
  | some d =>
    refine ⟨fun f => match d.field? f with
      | some af => af.stored
      | none => [], ?_⟩
    simp only
    apply flatMap_congr'
    intro f _
    cases d.field? f <;> rfl

/-! ### `locToB` is the inverse of the builder's `resolveILoc`

  `Built` carries locations with field NAMES (what a reader sees); the location encoder receives
  field IDS (`ILoc.fieldID`, new.go:536-547).  `toLSeg` recovers the id as the index of the name
  in the field table; the table is duplicate-free, so this is the id the builder had. -/

theorem mapE_ok_map {α β γ : Type} (fn : α → M β) (g : β → γ) (h : α → γ)
    (hfg : ∀ x y, fn x = .ok y → g y = h x) :
    ∀ (l : List α) (ys : List β), mapE fn l = .ok ys → ys.map g = l.map h
  | [], ys, hm => by
    simp only [mapE] at hm
    injection hm with hm
    subst hm; rfl
  | x :: r, ys, hm => by
    simp only [mapE] at hm
    cases hx : fn x with
    | error e => rw [hx] at hm; cases hm
    | ok y =>
      rw [hx] at hm
      simp only at hm
      cases hr : mapE fn r with
      | error e => rw [hr] at hm; cases hm
      | ok ys' =>
        rw [hr] at hm
        simp only at hm
        injection hm with hm
        subst hm
        simp only [List.map_cons, hfg x y hx, mapE_ok_map fn g h hfg r ys' hr]

theorem locToB_resolve {F : List Bytes} (hn : F.Nodup) {il : ILoc} {l : Loc}
    (h : resolveILoc F il = .ok l) :
    locToB F l = BLoc.mk il.fieldID il.pos il.start il.stop := by
  unfold resolveILoc at h
  cases hi : F[il.fieldID]? with
  | none => rw [hi] at h; cases h
  | some n =>
    rw [hi] at h
    simp only at h
    injection h with h
    subst h
    have hlt : il.fieldID < F.length := by
      by_cases hl : il.fieldID < F.length
      · exact hl
      · rw [List.getElem?_eq_none (by omega)] at hi; cases hi
    have hn' : n = F[il.fieldID] := by
      rw [List.getElem?_eq_getElem hlt] at hi
      injection hi with hi
      exact hi.symm
    simp only [locToB, hn', idxOf_getElem_nodup hn il.fieldID hlt]

/-- the byte-level entry `toLSeg` hands to the writer is the builder's raw entry
    (`writeDictsTermField`: document, frequency, norm bits, locations with their field ids) -/
theorem postingToE_resolve {F : List Bytes} (hn : F.Nodup) {re : RawEntry} {p : Posting}
    (h : resolveEntry F re = .ok p) :
    postingToE F p = Entry.mk re.doc re.freq re.norm
      (re.locs.map (fun il => BLoc.mk il.fieldID il.pos il.start il.stop)) := by
  unfold resolveEntry at h
  cases hm : mapE (resolveILoc F) re.locs with
  | error e => rw [hm] at h; cases h
  | ok ls =>
    rw [hm] at h
    simp only at h
    injection h with h
    subst h
    simp only [postingToE]
    rw [mapE_ok_map (resolveILoc F) (locToB F) _ (fun x y hxy => locToB_resolve hn hxy) re.locs ls hm]

/-! ### the trailer of the stored section fits its `uint32` fields -/

theorem length_flatMap_putUvarint_le (l : List Nat) (h : ∀ x ∈ l, x < 2 ^ 64) :
    (l.flatMap putUvarint).length ≤ 10 * l.length := by
  induction l with
  | nil => simp
  | cons a r ih =>
    simp only [List.flatMap_cons, List.length_append, List.length_cons]
    have := putUvarint_length_le_ten a (h a (by simp))
    have := ih (fun x hx => h x (by simp [hx]))
    omega

/-- fewer than 2^32 documents in blocks of 128: at most 2^25 + 1 chunk offsets of at most ten
    bytes each -/
theorem trailer_ok (K : Codecs) (L : LSeg) (hn : L.stored.length < 2 ^ 32)
    (hlen : (Stored.writeStoredFields K.stored docBlock L.stored).bytes.length < 2 ^ 63) :
    ((Format.storedOut K L).chunkOffsets.flatMap putUvarint).length < 2 ^ 32 ∧
    (Format.storedOut K L).chunkOffsets.length < 2 ^ 32 := by
  unfold Format.storedOut
  have hcl := Stored.chunkOffsets_length K.stored docBlock (by decide) L.stored
  obtain ⟨P, dso, hb, _, _, ho⟩ := Stored.writeStoredFields_layout K.stored docBlock L.stored
  have hbl := congrArg List.length hb
  simp only [List.length_append] at hbl
  have hle := length_flatMap_putUvarint_le
    (Stored.writeStoredFields K.stored docBlock L.stored).chunkOffsets
    (fun x hx => by have := ho x hx; omega)
  have hdiv : L.stored.length / docBlock ≤ 2 ^ 25 := by
    unfold docBlock
    omega
  rw [hcl] at hle ⊢
  omega

end Ice.Props.E2E
