import IceModel.Model.ChunkBytes
import IceModel.Lemmas.Varint
import IceModel.Lemmas.Bits
/-
  Helper lemmas for the byte layer (Model/ChunkBytes.lean).
-/
namespace Ice.Model.ChunkBytes
open Ice Ice.Model

/-! ### the `Res` monad -/

@[simp] theorem ok_bind {α β : Type} (a : α) (f : α → Res β) : (Res.ok a >>= f) = f a := rfl
@[simp] theorem err_bind {α β : Type} (f : α → Res β) : ((Res.err : Res α) >>= f) = .err := rfl
@[simp] theorem panic_bind {α β : Type} (f : α → Res β) : ((Res.panic : Res α) >>= f) = .panic := rfl
@[simp] theorem pure_eq_ok {α : Type} (a : α) : (pure a : Res α) = .ok a := rfl

/-! ### list facts -/

theorem drop_advance {S P B : Bytes} {C : Nat} (h : S.drop C = P ++ B) :
    S.drop (C + P.length) = B := by
  rw [← List.drop_drop, h, List.drop_left]

theorem drop_length_le {S P B : Bytes} {C : Nat} (h : S.drop C = P ++ B) :
    C + P.length + B.length = S.length ∨ (P = [] ∧ B = [] ∧ S.length ≤ C) := by
  have := congrArg List.length h
  simp only [List.length_drop, List.length_append] at this
  by_cases hc : C ≤ S.length
  · left; omega
  · right
    have h0 : P.length + B.length = 0 := by omega
    refine ⟨List.eq_nil_of_length_eq_zero (by omega), List.eq_nil_of_length_eq_zero (by omega), by omega⟩

/-! ### `memUvarintReader` on what the writer wrote -/

theorem Rd.readUvarint_drop {S B : Bytes} {C x : Nat} (h : S.drop C = putUvarint x ++ B)
    (hx : x < two64) :
    Rd.readUvarint ⟨S, C⟩ = .ok (x, ⟨S, C + (putUvarint x).length⟩) := by
  simp [Rd.readUvarint, h, readUvarint_put x B hx]

theorem Rd.skipUvarint_drop {S B : Bytes} {C x : Nat} (h : S.drop C = putUvarint x ++ B) :
    Rd.skipUvarint ⟨S, C⟩ = .ok ⟨S, C + (putUvarint x).length⟩ := by
  simp [Rd.skipUvarint, h, skipUvarint_put x B]

/-! ### one entry -/

theorem readFreqNormHasLocs_drop {S B : Bytes} {C : Nat} {e : Entry} (hv : e.Valid)
    (h : S.drop C = encFN e ++ B) :
    readFreqNormHasLocs ⟨S, C⟩ =
      .ok ((e.freq, e.norm, !e.locs.isEmpty), ⟨S, C + (encFN e).length⟩) := by
  obtain ⟨hf, hn, -, -⟩ := hv
  unfold encFN at h
  rw [List.append_assoc] at h
  have h2 := drop_advance h
  unfold readFreqNormHasLocs
  rw [Rd.readUvarint_drop h (encodeFreqHasLocs_lt _ _ hf)]
  simp only [ok_bind, decode_encodeFreqHasLocs _ _ hf]
  rw [Rd.readUvarint_drop h2 (by simpa [two64] using hn)]
  simp [encFN, Nat.add_assoc]

theorem skipFreqNormReadHasLocs_drop {S B : Bytes} {C : Nat} {e : Entry} (hv : e.Valid)
    (h : S.drop C = encFN e ++ B) :
    skipFreqNormReadHasLocs ⟨S, C⟩ =
      .ok (!e.locs.isEmpty, ⟨S, C + (encFN e).length⟩) := by
  obtain ⟨hf, hn, -, -⟩ := hv
  unfold encFN at h
  rw [List.append_assoc] at h
  have h2 := drop_advance h
  unfold skipFreqNormReadHasLocs
  rw [Rd.readUvarint_drop h (encodeFreqHasLocs_lt _ _ hf)]
  simp only [ok_bind]
  rw [Rd.skipUvarint_drop h2]
  have hd := decode_encodeFreqHasLocs e.freq (!e.locs.isEmpty) hf
  unfold decodeFreqHasLocs at hd
  have hb : (encodeFreqHasLocs e.freq (!e.locs.isEmpty) % 2 != 0) = !e.locs.isEmpty :=
    (Prod.mk.inj hd).2
  simp [encFN, Nat.add_assoc, hb]

theorem readLocation_drop {S B : Bytes} {C : Nat} {l : BLoc} (hv : l.Valid)
    (h : S.drop C = encLoc l ++ B) :
    readLocation ⟨S, C⟩ = .ok (l, ⟨S, C + (encLoc l).length⟩) := by
  obtain ⟨h1, h2, h3, h4⟩ := hv
  unfold encLoc at h
  simp only [List.append_assoc] at h
  have d2 := drop_advance h
  have d3 := drop_advance d2
  have d4 := drop_advance d3
  unfold readLocation
  rw [Rd.readUvarint_drop h (by simpa [two64] using h1)]
  simp only [ok_bind]
  rw [Rd.readUvarint_drop d2 (by simpa [two64] using h2)]
  simp only [ok_bind]
  rw [Rd.readUvarint_drop d3 (by simpa [two64] using h3)]
  simp only [ok_bind]
  rw [Rd.readUvarint_drop d4 (by simpa [two64] using h4)]
  simp [encLoc, Nat.add_assoc]

theorem encLoc_length_pos (l : BLoc) : 4 ≤ (encLoc l).length := by
  have a := putUvarint_ne_nil l.fieldID
  have b := putUvarint_ne_nil l.pos
  have c := putUvarint_ne_nil l.start
  have d := putUvarint_ne_nil l.stop
  have ha := List.length_pos_iff.mpr a
  have hb := List.length_pos_iff.mpr b
  have hc := List.length_pos_iff.mpr c
  have hd := List.length_pos_iff.mpr d
  simp only [encLoc, List.length_append]; omega

theorem encLoc_length_le (l : BLoc) (hv : l.Valid) : (encLoc l).length ≤ 40 := by
  obtain ⟨h1, h2, h3, h4⟩ := hv
  have a := putUvarint_length_le_ten _ h1
  have b := putUvarint_length_le_ten _ h2
  have c := putUvarint_length_le_ten _ h3
  have d := putUvarint_length_le_ten _ h4
  simp only [encLoc, List.length_append]; omega

theorem totalUvarintBytes_eq (l : BLoc) :
    totalUvarintBytes l.fieldID l.pos l.start l.stop = (encLoc l).length := by
  simp [totalUvarintBytes, encLoc, numUvarintBytes_eq_length, Nat.add_assoc]

theorem foldl_numBytes (ls : List BLoc) (n : Nat) :
    ls.foldl (fun n l => n + totalUvarintBytes l.fieldID l.pos l.start l.stop) n
      = n + (ls.flatMap encLoc).length := by
  induction ls generalizing n with
  | nil => simp
  | cons l ls ih =>
    rw [List.foldl_cons, ih, totalUvarintBytes_eq, List.flatMap_cons, List.length_append,
      Nat.add_assoc]

theorem numBytesLocs_eq (e : Entry) : numBytesLocs e = (e.locs.flatMap encLoc).length := by
  simp [numBytesLocs, foldl_numBytes]

theorem flatMap_encLoc_length_ge (ls : List BLoc) : 4 * ls.length ≤ (ls.flatMap encLoc).length := by
  induction ls with
  | nil => simp
  | cons l ls ih =>
    have := encLoc_length_pos l
    simp only [List.flatMap_cons, List.length_append, List.length_cons]; omega

theorem flatMap_encLoc_length_le (ls : List BLoc) (hv : ∀ l ∈ ls, l.Valid) :
    (ls.flatMap encLoc).length ≤ 40 * ls.length := by
  induction ls with
  | nil => simp
  | cons l ls ih =>
    have := encLoc_length_le l (hv l (by simp))
    have := ih (fun x hx => hv x (by simp [hx]))
    simp only [List.flatMap_cons, List.length_append, List.length_cons]; omega

theorem numBytesLocs_lt (e : Entry) (hv : e.Valid) : numBytesLocs e < two63 := by
  obtain ⟨-, -, hl, hls⟩ := hv
  rw [numBytesLocs_eq]
  have := flatMap_encLoc_length_le e.locs hls
  unfold two63; omega

/-! ### the location loop -/

theorem readLocsLoop_enc {S B : Bytes} {C0 nlb start : Nat} (cap : Option Nat)
    (hstart : start = S.length - C0) (hle : C0 + nlb ≤ S.length) :
    ∀ (todo : List BLoc) (fuel j C : Nat) (acc : List BLoc),
      (∀ l ∈ todo, l.Valid) →
      S.drop C = todo.flatMap encLoc ++ B →
      (todo.flatMap encLoc).length ≤ nlb → C = C0 + (nlb - (todo.flatMap encLoc).length) →
      todo.length < fuel → (∀ f, cap = some f → j + todo.length ≤ f) →
      readLocsLoop fuel cap start nlb j ⟨S, C⟩ acc = .ok (acc ++ todo, ⟨S, C0 + nlb⟩) := by
  intro todo
  induction todo with
  | nil =>
    intro fuel j C acc _ _ _ hC hfuel _
    obtain ⟨f, rfl⟩ : ∃ f, fuel = f + 1 := ⟨fuel - 1, by simp at hfuel; omega⟩
    simp only [List.flatMap_nil, List.length_nil, Nat.sub_zero] at hC
    subst hC
    have : ¬ (start - (S.length - (C0 + nlb)) < nlb) := by omega
    simp [readLocsLoop, Rd.len, this]
  | cons l t ih =>
    intro fuel j C acc hv hdrop hlen hC hfuel hcap
    obtain ⟨f, rfl⟩ : ∃ f, fuel = f + 1 := ⟨fuel - 1, by simp at hfuel; omega⟩
    simp only [List.flatMap_cons, List.length_append, List.append_assoc] at hdrop hlen hC
    have hpos := encLoc_length_pos l
    have hcond : start - (S.length - C) < nlb := by omega
    have hok : capOk cap j = true := by
      cases cap with
      | none => rfl
      | some f' => have := hcap f' rfl; simp [capOk]; simp at this; omega
    have hrd := readLocation_drop (hv l (by simp)) hdrop
    unfold readLocsLoop
    simp only [Rd.len, hcond, if_true, hok, hrd]
    rw [ih f (j + 1) (C + (encLoc l).length) (acc ++ [l]) (fun x hx => hv x (by simp [hx]))
      (drop_advance hdrop) (by omega) (by omega) (by simp at hfuel; omega)
      (by intro f' hf'; have := hcap f' hf'; simp at this; omega)]
    simp

/-- with `len(nextLocs) = f` smaller than the number of encoded locations the loop panics at
    `nextLocs[f]` -/
theorem readLocsLoop_enc_panic {S B : Bytes} {C0 nlb start f : Nat}
    (hstart : start = S.length - C0) (hle : C0 + nlb ≤ S.length) :
    ∀ (todo : List BLoc) (fuel j C : Nat) (acc : List BLoc),
      (∀ l ∈ todo, l.Valid) →
      S.drop C = todo.flatMap encLoc ++ B →
      (todo.flatMap encLoc).length ≤ nlb → C = C0 + (nlb - (todo.flatMap encLoc).length) →
      todo.length < fuel → j ≤ f → f < j + todo.length →
      readLocsLoop fuel (some f) start nlb j ⟨S, C⟩ acc = .panic := by
  intro todo
  induction todo with
  | nil => intro fuel j C acc _ _ _ _ _ h1 h2; simp at h2; omega
  | cons l t ih =>
    intro fuel j C acc hv hdrop hlen hC hfuel hjf hfj
    obtain ⟨g, rfl⟩ : ∃ g, fuel = g + 1 := ⟨fuel - 1, by simp at hfuel; omega⟩
    simp only [List.flatMap_cons, List.length_append, List.append_assoc] at hdrop hlen hC
    have hpos := encLoc_length_pos l
    have hcond : start - (S.length - C) < nlb := by omega
    unfold readLocsLoop
    simp only [Rd.len, hcond, if_true]
    by_cases hj : j < f
    · have hok : capOk (some f) j = true := by simp [capOk, hj]
      have hrd := readLocation_drop (hv l (by simp)) hdrop
      simp only [hok, if_true, hrd]
      exact ih g (j + 1) (C + (encLoc l).length) (acc ++ [l]) (fun x hx => hv x (by simp [hx]))
        (drop_advance hdrop) (by omega) (by omega) (by simp at hfuel; omega) (by omega)
        (by simp at hfj; omega)
    · have hok : capOk (some f) j = false := by simp [capOk, hj]
      simp [hok]

theorem encLocs_of_ne {e : Entry} (h : e.locs ≠ []) :
    encLocs e = putUvarint (numBytesLocs e) ++ e.locs.flatMap encLoc := by
  have : e.locs.isEmpty = false := by cases hl : e.locs <;> simp_all
  simp [encLocs, this]

theorem readLocsWith_drop {S B : Bytes} {C : Nat} {e : Entry} (cap : Option Nat) (hv : e.Valid)
    (hne : e.locs ≠ []) (hcap : ∀ f, cap = some f → e.locs.length ≤ f)
    (h : S.drop C = encLocs e ++ B) :
    readLocsWith cap ⟨S, C⟩ = .ok (e.locs, ⟨S, C + (encLocs e).length⟩) := by
  rw [encLocs_of_ne hne, List.append_assoc] at h
  have hnb := numBytesLocs_lt e hv
  have h2 := drop_advance h
  have hlen := drop_length_le h2
  have hge := flatMap_encLoc_length_ge e.locs
  have hnb' := numBytesLocs_eq e
  unfold readLocsWith
  rw [Rd.readUvarint_drop h (by unfold two63 at hnb; unfold two64; omega)]
  simp only [ok_bind, hnb, if_true]
  have hle : C + (putUvarint (numBytesLocs e)).length + numBytesLocs e ≤ S.length := by
    rcases hlen with hl | ⟨hl, -, -⟩
    · omega
    · exfalso
      have : e.locs.length = 0 := by rw [hl] at hge; simp at hge; omega
      exact hne (List.eq_nil_of_length_eq_zero this)
  show readLocsLoop _ cap (S.length - (C + (putUvarint (numBytesLocs e)).length)) _ _ _ _ = _
  rw [readLocsLoop_enc (B := B) (C0 := C + (putUvarint (numBytesLocs e)).length) cap rfl hle
    e.locs _ 0 _ [] hv.2.2.2 h2 (by omega) (by omega) (by omega)
    (by intro f hf; have := hcap f hf; omega)]
  simp [encLocs_of_ne hne, hnb', Nat.add_assoc]

theorem readLocsFreq_drop_panic {S B : Bytes} {C f : Nat} {e : Entry} (hv : e.Valid)
    (hf : f < e.locs.length) (h : S.drop C = encLocs e ++ B) :
    readLocsFreq f ⟨S, C⟩ = .panic := by
  have hne : e.locs ≠ [] := by intro h0; rw [h0] at hf; simp at hf
  rw [encLocs_of_ne hne, List.append_assoc] at h
  have hnb := numBytesLocs_lt e hv
  have h2 := drop_advance h
  have hlen := drop_length_le h2
  have hge := flatMap_encLoc_length_ge e.locs
  have hnb' := numBytesLocs_eq e
  unfold readLocsFreq readLocsWith
  rw [Rd.readUvarint_drop h (by unfold two63 at hnb; unfold two64; omega)]
  simp only [ok_bind, hnb, if_true]
  have hle : C + (putUvarint (numBytesLocs e)).length + numBytesLocs e ≤ S.length := by
    rcases hlen with hl | ⟨hl, -, -⟩
    · omega
    · exfalso
      have : e.locs.length = 0 := by rw [hl] at hge; simp at hge; omega
      exact hne (List.eq_nil_of_length_eq_zero this)
  show readLocsLoop _ _ (S.length - (C + (putUvarint (numBytesLocs e)).length)) _ _ _ _ = _
  exact readLocsLoop_enc_panic (B := B) (C0 := C + (putUvarint (numBytesLocs e)).length) rfl hle
    e.locs _ 0 _ [] hv.2.2.2 h2 (by omega) (by omega) (by omega) (by omega) (by omega)

theorem skipLocs_drop {S B : Bytes} {C : Nat} {e : Entry} (hv : e.Valid) (hne : e.locs ≠ [])
    (h : S.drop C = encLocs e ++ B) :
    skipLocs ⟨S, C⟩ = .ok ⟨S, C + (encLocs e).length⟩ := by
  rw [encLocs_of_ne hne, List.append_assoc] at h
  have hnb := numBytesLocs_lt e hv
  unfold skipLocs
  rw [Rd.readUvarint_drop h (by unfold two63 at hnb; unfold two64; omega)]
  simp only [ok_bind, Rd.skipBytesInt, hnb, if_true, Rd.skipBytes, encLocs_of_ne hne,
    List.length_append, ← numBytesLocs_eq, Nat.add_assoc]

/-! ### positions inside the two chunk streams -/

theorem fnBytes_drop (pre : List Entry) (e : Entry) (post : List Entry) :
    (fnBytes (pre ++ e :: post)).drop (fnBytes pre).length = encFN e ++ fnBytes post := by
  simp [fnBytes]

theorem locBytes_drop (pre : List Entry) (e : Entry) (post : List Entry) :
    (locBytes (pre ++ e :: post)).drop (locBytes pre).length = encLocs e ++ locBytes post := by
  simp [locBytes]

theorem fnBytes_snoc_length (pre : List Entry) (e : Entry) :
    (fnBytes (pre ++ [e])).length = (fnBytes pre).length + (encFN e).length := by
  simp [fnBytes]

theorem locBytes_snoc_length (pre : List Entry) (e : Entry) :
    (locBytes (pre ++ [e])).length = (locBytes pre).length + (encLocs e).length := by
  simp [locBytes]

theorem encFN_length_pos (e : Entry) : 0 < (encFN e).length := by
  have := List.length_pos_iff.mpr (putUvarint_ne_nil e.norm)
  simp only [encFN, List.length_append]; omega

theorem decodeAll_enc (all : List Entry) (hv : ∀ e ∈ all, e.Valid) :
    ∀ (post pre : List Entry) (fuel : Nat), all = pre ++ post → post.length < fuel →
      decodeAll fuel ⟨fnBytes all, (fnBytes pre).length⟩ ⟨locBytes all, (locBytes pre).length⟩
        = .ok (post.map fun e => (e.freq, e.norm, e.locs)) := by
  intro post
  induction post with
  | nil =>
    intro pre fuel hall hfuel
    obtain ⟨f, rfl⟩ : ∃ f, fuel = f + 1 := ⟨fuel - 1, by simp at hfuel; omega⟩
    simp at hall; subst hall
    simp [decodeAll, Rd.len]
  | cons e t ih =>
    intro pre fuel hall hfuel
    obtain ⟨f, rfl⟩ : ∃ f, fuel = f + 1 := ⟨fuel - 1, by simp at hfuel; omega⟩
    subst hall
    have hve : e.Valid := hv e (by simp)
    have hpos := encFN_length_pos e
    have hlen : (fnBytes (pre ++ e :: t)).length - (fnBytes pre).length ≠ 0 := by
      have := congrArg List.length (fnBytes_drop pre e t)
      simp only [List.length_drop, List.length_append] at this
      omega
    have hrd := readFreqNormHasLocs_drop hve (fnBytes_drop pre e t)
    have hnext := ih (pre ++ [e]) f (by simp) (by simp at hfuel; omega)
    rw [fnBytes_snoc_length, locBytes_snoc_length] at hnext
    unfold decodeAll
    simp only [Rd.len, hlen, if_false, hrd, ok_bind]
    by_cases hl : e.locs = []
    · have he : encLocs e = [] := by simp [encLocs, hl]
      rw [he] at hnext
      simp only [List.length_nil, Nat.add_zero] at hnext
      simp [hl, hnext]
    · have hb : (!e.locs.isEmpty) = true := by cases h : e.locs <;> simp_all
      have hrl := readLocsWith_drop none hve hl (by intro f hf; cases hf) (locBytes_drop pre e t)
      simp only [hb, if_true, readLocs, hrl, ok_bind, hnext]
      simp

/-! ### the fuel of `readLocsLoop` is never used up (on any input, valid or not) -/

theorem readUvarintAux_consumed : ∀ (S : Bytes) (x s n v m : Nat),
    readUvarintAux S x s n = .ok (v, m) → n < m ∧ m ≤ n + S.length := by
  intro S
  induction S with
  | nil => intro x s n v m h; simp [readUvarintAux] at h
  | cons b rest ih =>
    intro x s n v m h
    unfold readUvarintAux at h
    split at h
    · split at h
      · cases h
      · cases h; simp
    · have := ih _ _ _ _ _ h
      simp only [List.length_cons]; omega

theorem Rd.readUvarint_consumed {r r' : Rd} {v : Nat} (h : r.readUvarint = .ok (v, r')) :
    r'.S = r.S ∧ r.C < r'.C ∧ r'.C ≤ r.S.length := by
  unfold Rd.readUvarint at h
  split at h
  · rename_i v' n heq
    cases h
    have := readUvarintAux_consumed _ _ _ _ _ _ heq
    simp only [List.length_drop] at this
    refine ⟨rfl, ?_, ?_⟩ <;> simp <;> omega
  · cases h
  · cases h

theorem readLocation_consumed {r r' : Rd} {l : BLoc} (h : readLocation r = .ok (l, r')) :
    r'.S = r.S ∧ r.C < r'.C ∧ r'.C ≤ r.S.length := by
  unfold readLocation at h
  cases h1 : r.readUvarint with
  | err => simp [h1] at h
  | panic => simp [h1] at h
  | ok p1 =>
    obtain ⟨v1, r1⟩ := p1
    simp only [h1, ok_bind] at h
    cases h2 : r1.readUvarint with
    | err => simp [h2] at h
    | panic => simp [h2] at h
    | ok p2 =>
      obtain ⟨v2, r2⟩ := p2
      simp only [h2, ok_bind] at h
      cases h3 : r2.readUvarint with
      | err => simp [h3] at h
      | panic => simp [h3] at h
      | ok p3 =>
        obtain ⟨v3, r3⟩ := p3
        simp only [h3, ok_bind] at h
        cases h4 : r3.readUvarint with
        | err => simp [h4] at h
        | panic => simp [h4] at h
        | ok p4 =>
          obtain ⟨v4, r4⟩ := p4
          simp only [h4, ok_bind, pure_eq_ok, Res.ok.injEq, Prod.mk.injEq] at h
          obtain ⟨-, rfl⟩ := h
          obtain ⟨a1, b1, c1⟩ := Rd.readUvarint_consumed h1
          obtain ⟨a2, b2, c2⟩ := Rd.readUvarint_consumed h2
          obtain ⟨a3, b3, c3⟩ := Rd.readUvarint_consumed h3
          obtain ⟨a4, b4, c4⟩ := Rd.readUvarint_consumed h4
          rw [a3, a2, a1] at c4
          refine ⟨by rw [a4, a3, a2, a1], by omega, c4⟩

/-- Any two amounts of fuel above `nlb - consumed` give the same result: the `panic` of the
    `0`-fuel case is unreachable from `readLocsWith`. -/
theorem readLocsLoop_fuel (cap : Option Nat) (start nlb : Nat) :
    ∀ (f1 f2 j : Nat) (r : Rd) (acc : List BLoc), r.len ≤ start → r.C ≤ r.S.length →
      nlb - (start - r.len) < f1 → nlb - (start - r.len) < f2 →
      readLocsLoop f1 cap start nlb j r acc = readLocsLoop f2 cap start nlb j r acc := by
  intro f1
  induction f1 with
  | zero => intro f2 j r acc _ _ h; omega
  | succ f1 ih =>
    intro f2 j r acc hs hC h1 h2
    obtain ⟨g, rfl⟩ : ∃ g, f2 = g + 1 := ⟨f2 - 1, by omega⟩
    unfold readLocsLoop
    split
    · rename_i hcond
      split
      · cases hrl : readLocation r with
        | err => rfl
        | panic => rfl
        | ok p =>
          obtain ⟨l, r'⟩ := p
          obtain ⟨hS, hlt, hle⟩ := readLocation_consumed hrl
          simp only
          have hlen : r'.len < r.len := by unfold Rd.len; rw [hS]; omega
          apply ih
          · omega
          · rw [hS]; exact hle
          · omega
          · omega
      · rfl
    · rfl

/-- `readLocsWith` gives the same result with any larger amount of fuel for its loop. -/
theorem readLocsWith_fuel (cap : Option Nat) (r r' : Rd) (v : Nat)
    (h : r.readUvarint = .ok (v, r')) (k : Nat) :
    readLocsLoop (v + 1 + k) cap r'.len v 0 r' [] = readLocsLoop (v + 1) cap r'.len v 0 r' [] := by
  obtain ⟨hS, -, hle⟩ := Rd.readUvarint_consumed h
  apply readLocsLoop_fuel
  · exact Nat.le_refl _
  · rw [hS]; exact hle
  · omega
  · omega

end Ice.Model.ChunkBytes

/-! ## PART 2 -/
namespace Ice.Model.ChunkBytes
open Ice Ice.Model

/-- concatenation of the compressed chunks `0 … n-1` -/
def concatZ (K : Codec) (B : Nat → Bytes) (n : Nat) : Bytes :=
  (List.range n).flatMap (fun i => K.Z (B i))

theorem concatZ_succ (K : Codec) (B : Nat → Bytes) (n : Nat) :
    concatZ K B (n + 1) = concatZ K B n ++ K.Z (B n) := by
  simp [concatZ, List.range_succ]

theorem concatZ_congr (K : Codec) {B B' : Nat → Bytes} {n : Nat} (h : ∀ i, i < n → B i = B' i) :
    concatZ K B n = concatZ K B' n := by
  induction n with
  | zero => rfl
  | succ n ih =>
    rw [concatZ_succ, concatZ_succ, ih (fun i hi => h i (by omega)), h n (by omega)]

theorem concatZ_skip (K : Codec) {B : Nat → Bytes} {k c : Nat} (hkc : k ≤ c)
    (h : ∀ i, k ≤ i → i < c → B i = []) : concatZ K B c = concatZ K B k := by
  induction c with
  | zero => have : k = 0 := by omega
            subst this; rfl
  | succ c ih =>
    by_cases hk : k = c + 1
    · subst hk; rfl
    · rw [concatZ_succ, h c (by omega) (by omega), K.z_nil, List.append_nil]
      exact ih (by omega) (fun i h1 h2 => h i h1 (by omega))

/-- the state of a coder in the middle of a run of `Add`s: `B i` are the uncompressed bytes
    received so far for chunk `i`, `k` is the open chunk -/
structure Inv (K : Codec) (total cs : Nat) (c : Coder) (B : Nat → Bytes) (k : Nat) : Prop where
  cs : c.chunkSize = cs
  len : c.lensLen = total
  cap : total ≤ c.lensArr.length
  cur : c.currChunk = k
  klt : k < total
  buf : c.chunkBuf = B k
  above : ∀ i, k < i → B i = []
  fin : c.final = concatZ K B k
  lo : ∀ i, i < k → c.lensArr[i]? = some (K.Z (B i)).length
  hi : ∀ i, k ≤ i → i < c.lensArr.length → c.lensArr[i]? = some 0

/-- the state after the final `Close` -/
structure Done (K : Codec) (total cs : Nat) (c : Coder) (B : Nat → Bytes) : Prop where
  cs : c.chunkSize = cs
  len : c.lensLen = total
  cap : total ≤ c.lensArr.length
  fin : c.final = concatZ K B total
  lens : ∀ i, i < total → c.lensArr[i]? = some (K.Z (B i)).length
  tail : ∀ i, total ≤ i → i < c.lensArr.length → c.lensArr[i]? = some 0

theorem Inv.add {K : Codec} {total cs : Nat} {c : Coder} {B : Nat → Bytes} {k : Nat}
    (h : Inv K total cs c B k) (hcs : 0 < cs) (d : Nat) (vs : List Nat)
    (hk : k ≤ d / cs) (ht : d / cs < total) :
    ∃ c', c.add K d vs = .ok c' ∧
      Inv K total cs c' (fun i => B i ++ (if d / cs = i then vs.flatMap putUvarint else [])) (d / cs) := by
  have hne : c.chunkSize ≠ 0 := by rw [h.cs]; omega
  by_cases hsame : d / cs = k
  · refine ⟨{ c with chunkBuf := c.chunkBuf ++ vs.flatMap putUvarint }, ?_, ?_⟩
    · have hcs0 : ¬ cs = 0 := by omega
      simp [Coder.add, h.cs, hcs0, hsame, h.cur]
    · rw [hsame]
      refine ⟨h.cs, h.len, h.cap, h.cur, h.klt, ?_, ?_, ?_, ?_, ?_⟩
      · simp [h.buf]
      · intro i hi
        have : ¬ k = i := by omega
        simp [this, h.above i hi]
      · show c.final = _
        rw [h.fin]
        apply concatZ_congr
        intro i hi
        have : ¬ k = i := by omega
        simp [this]
      · intro i hi
        have : ¬ k = i := by omega
        simp only [this, if_false, List.append_nil]
        exact h.lo i hi
      · exact h.hi
  · have hlt : k < d / cs := by omega
    have hkl : c.currChunk < c.lensLen ∧ c.currChunk < c.lensArr.length := by
      rw [h.cur, h.len]; have := h.klt; have := h.cap; omega
    refine ⟨{ c with lensArr := c.lensArr.set c.currChunk (K.Z c.chunkBuf).length,
                     final := c.final ++ K.Z c.chunkBuf,
                     currChunk := d / cs,
                     chunkBuf := vs.flatMap putUvarint }, ?_, ?_⟩
    · have : ¬ d / cs = c.currChunk := by rw [h.cur]; exact hsame
      have hcs0 : ¬ cs = 0 := by omega
      simp [Coder.add, h.cs, hcs0, this, Coder.close, hkl]
    · refine ⟨h.cs, h.len, by simpa using h.cap, rfl, ht, ?_, ?_, ?_, ?_, ?_⟩
      · simp [h.above _ hlt]
      · intro i hi
        have : ¬ d / cs = i := by omega
        simp [this, h.above i (by omega)]
      · show c.final ++ K.Z c.chunkBuf = _
        rw [h.fin, h.buf, ← concatZ_succ,
          ← concatZ_skip K (k := k + 1) (c := d / cs) (by omega) (fun i h1 _ => h.above i (by omega))]
        apply concatZ_congr
        intro i hi
        have : ¬ d / cs = i := by omega
        simp [this]
      · intro i hi
        have hne' : ¬ d / cs = i := by omega
        simp only [hne', if_false, List.append_nil]
        show (c.lensArr.set c.currChunk (K.Z c.chunkBuf).length)[i]? = _
        rw [h.cur, h.buf]
        by_cases hik : i = k
        · subst hik
          rw [List.getElem?_set_self (by have := h.klt; have := h.cap; omega)]
        · rw [List.getElem?_set_ne (by omega)]
          by_cases hik' : i < k
          · exact h.lo i hik'
          · rw [h.hi i (by omega) (by have := h.cap; omega), h.above i (by omega), K.z_nil]; rfl
      · intro i hi hil
        show (c.lensArr.set c.currChunk (K.Z c.chunkBuf).length)[i]? = _
        simp only [List.length_set] at hil
        rw [h.cur, List.getElem?_set_ne (by omega)]
        exact h.hi i (by omega) hil

theorem Inv.close {K : Codec} {total cs : Nat} {c : Coder} {B : Nat → Bytes} {k : Nat}
    (h : Inv K total cs c B k) : ∃ c', c.close K = .ok c' ∧ Done K total cs c' B := by
  have hkl : c.currChunk < c.lensLen ∧ c.currChunk < c.lensArr.length := by
    rw [h.cur, h.len]; have := h.klt; have := h.cap; omega
  refine ⟨{ c with lensArr := c.lensArr.set c.currChunk (K.Z c.chunkBuf).length,
                   final := c.final ++ K.Z c.chunkBuf,
                   currChunk := c.capLens }, by simp only [Coder.close, hkl, and_self, if_true], ?_⟩
  refine ⟨h.cs, h.len, by simpa using h.cap, ?_, ?_, ?_⟩
  · show c.final ++ K.Z c.chunkBuf = _
    rw [h.fin, h.buf, ← concatZ_succ]
    exact (concatZ_skip K (by have := h.klt; omega) (fun i h1 _ => h.above i (by omega))).symm
  · intro i hi
    show (c.lensArr.set c.currChunk (K.Z c.chunkBuf).length)[i]? = _
    rw [h.cur, h.buf]
    by_cases hik : i = k
    · subst hik
      rw [List.getElem?_set_self (by have := h.cap; omega)]
    · rw [List.getElem?_set_ne (by omega)]
      by_cases hik' : i < k
      · exact h.lo i hik'
      · rw [h.hi i (by omega) (by have := h.cap; omega), h.above i (by omega), K.z_nil]; rfl
  · intro i hi hil
    show (c.lensArr.set c.currChunk (K.Z c.chunkBuf).length)[i]? = _
    simp only [List.length_set] at hil
    rw [h.cur, List.getElem?_set_ne (by have := h.klt; omega)]
    exact h.hi i (by have := h.klt; omega) hil

theorem bytesOfChunk_cons (cs : Nat) (d : Nat) (vs : List Nat) (rest : List (Nat × List Nat))
    (i : Nat) :
    bytesOfChunk cs ((d, vs) :: rest) i
      = (if d / cs = i then vs.flatMap putUvarint else []) ++ bytesOfChunk cs rest i := by
  unfold bytesOfChunk
  by_cases h : d / cs = i <;> simp [h]

theorem Inv.encode {K : Codec} {total cs : Nat} (hcs : 0 < cs) :
    ∀ (adds : List (Nat × List Nat)) (c : Coder) (B : Nat → Bytes) (k : Nat),
      Inv K total cs c B k →
      (∀ a ∈ adds, k ≤ a.1 / cs ∧ a.1 / cs < total) →
      (adds.map (fun a => a.1 / cs)).Pairwise (· ≤ ·) →
      ∃ c', c.encode K adds = .ok c' ∧
        Done K total cs c' (fun i => B i ++ bytesOfChunk cs adds i) := by
  intro adds
  induction adds with
  | nil =>
    intro c B k h _ _
    obtain ⟨c', hc, hd⟩ := h.close
    refine ⟨c', by simp [Coder.encode, Coder.addAll, hc], ?_⟩
    simpa [bytesOfChunk] using hd
  | cons a rest ih =>
    intro c B k h hb hs
    obtain ⟨d, vs⟩ := a
    obtain ⟨hk, ht⟩ := hb (d, vs) (by simp)
    obtain ⟨c1, hadd, hinv⟩ := h.add hcs d vs hk ht
    simp only [List.map_cons, List.pairwise_cons, List.mem_map] at hs
    obtain ⟨c', henc, hdone⟩ := ih c1 _ (d / cs) hinv
      (fun a ha => ⟨hs.1 _ ⟨a, ha, rfl⟩, (hb a (by simp [ha])).2⟩) hs.2
    refine ⟨c', ?_, ?_⟩
    · simp only [Coder.encode, Coder.addAll, hadd]
      exact henc
    · have : (fun i => B i ++ bytesOfChunk cs ((d, vs) :: rest) i)
          = (fun i => (B i ++ (if d / cs = i then vs.flatMap putUvarint else [])) ++ bytesOfChunk cs rest i) := by
        funext i; rw [bytesOfChunk_cons, List.append_assoc]
      rw [this]; exact hdone

/-! ### fresh coders, reuse -/

/-- a coder as `newChunkedIntCoder` or `Reset` leaves it -/
structure Fresh (c : Coder) : Prop where
  fin : c.final = []
  buf : c.chunkBuf = []
  cur : c.currChunk = 0
  cap : c.lensLen ≤ c.lensArr.length
  zero : ∀ x ∈ c.lensArr, x = 0

/-- everything behind the slice `chunkLens` in its backing array is zero -/
def TailZero (c : Coder) : Prop :=
  c.lensLen ≤ c.lensArr.length ∧
    ∀ i, c.lensLen ≤ i → i < c.lensArr.length → c.lensArr[i]? = some 0

theorem Fresh.inv (K : Codec) {c : Coder} (h : Fresh c) (ht : 0 < c.lensLen) :
    Inv K c.lensLen c.chunkSize c (fun _ => []) 0 := by
  refine ⟨rfl, rfl, h.cap, h.cur, ht, h.buf, fun _ _ => rfl, h.fin, fun i hi => by omega, ?_⟩
  intro i _ hil
  rw [List.getElem?_eq_getElem hil, h.zero _ (List.getElem_mem hil)]

theorem Coder.new_ok {cs m : Nat} (hcs : 0 < cs) (hm : m / cs + 1 < two63) :
    ∃ c, Coder.new cs m = .ok c ∧ Fresh c ∧ c.chunkSize = cs ∧ c.lensLen = m / cs + 1 := by
  have h0 : ¬ cs = 0 := by omega
  have h1 : (m / cs + 1) % two64 = m / cs + 1 := Nat.mod_eq_of_lt (by unfold two63 at hm; unfold two64; omega)
  have h2 : ¬ two63 ≤ m / cs + 1 := by omega
  refine ⟨{ chunkSize := cs, lensArr := List.replicate (m / cs + 1) 0, lensLen := m / cs + 1,
            currChunk := 0, chunkBuf := [], final := [] },
    by simp only [Coder.new, totalChunks, h0, if_false, ok_bind, h1, h2, pure_eq_ok], ?_, rfl, rfl⟩
  exact ⟨rfl, rfl, rfl, by simp, by intro x hx; simp at hx; exact hx⟩

theorem Coder.setChunkSize_ok {c : Coder} (hf : Fresh c) {cs m : Nat} (hcs : 0 < cs)
    (hm : m / cs + 1 < two63) :
    ∃ c', c.setChunkSize cs m = .ok c' ∧ Fresh c' ∧ c'.chunkSize = cs ∧ c'.lensLen = m / cs + 1 := by
  have h0 : ¬ cs = 0 := by omega
  have h1 : (m / cs + 1) % two64 = m / cs + 1 := Nat.mod_eq_of_lt (by unfold two63 at hm; unfold two64; omega)
  have h2 : ¬ two63 ≤ m / cs + 1 := by omega
  by_cases hc : c.capLens < m / cs + 1
  · refine ⟨{ c with chunkSize := cs, lensArr := List.replicate (m / cs + 1) 0, lensLen := m / cs + 1 },
      by simp only [Coder.setChunkSize, totalChunks, h0, if_false, ok_bind, h1, h2, hc, if_true, pure_eq_ok],
      ?_, rfl, rfl⟩
    exact ⟨hf.fin, hf.buf, hf.cur, by simp, by intro x hx; simp at hx; exact hx⟩
  · refine ⟨{ c with chunkSize := cs, lensLen := m / cs + 1 },
      by simp only [Coder.setChunkSize, totalChunks, h0, if_false, ok_bind, h1, h2, hc, pure_eq_ok],
      ?_, rfl, rfl⟩
    exact ⟨hf.fin, hf.buf, hf.cur, by unfold Coder.capLens at hc; simp; omega, hf.zero⟩

theorem Done.tailZero {K : Codec} {total cs : Nat} {c : Coder} {B : Nat → Bytes}
    (h : Done K total cs c B) : TailZero c := by
  refine ⟨by rw [h.len]; exact h.cap, ?_⟩
  rw [h.len]; exact h.tail

theorem endOffsets_length : ∀ (L : List Nat) (run : Nat), (endOffsets run L).length = L.length := by
  intro L
  induction L with
  | nil => intro _; rfl
  | cons l ls ih => intro run; simp [endOffsets, ih]

theorem TailZero.write {c : Coder} (h : TailZero c) : TailZero c.write.2 := by
  obtain ⟨hle, hz⟩ := h
  have hlen : (endOffsets 0 c.chunkLens).length = c.lensLen := by
    rw [endOffsets_length]; simp [Coder.chunkLens]; omega
  refine ⟨?_, ?_⟩
  · show c.lensLen ≤ (endOffsets 0 c.chunkLens ++ c.lensArr.drop c.lensLen).length
    simp [hlen]
  · intro i hi hil
    show (endOffsets 0 c.chunkLens ++ c.lensArr.drop c.lensLen)[i]? = _
    have hi' : c.lensLen ≤ i := hi
    have hil' : i < (endOffsets 0 c.chunkLens ++ c.lensArr.drop c.lensLen).length := hil
    simp only [List.length_append, hlen, List.length_drop] at hil'
    rw [List.getElem?_append_right (by omega), hlen, List.getElem?_drop]
    have : c.lensLen + (i - c.lensLen) = i := by omega
    rw [this]
    exact hz i hi' (by omega)

theorem TailZero.reset {c : Coder} (h : TailZero c) : Fresh c.reset := by
  obtain ⟨hle, hz⟩ := h
  refine ⟨rfl, rfl, rfl, ?_, ?_⟩
  · show c.lensLen ≤ (List.replicate (min c.lensLen c.lensArr.length) 0 ++ c.lensArr.drop c.lensLen).length
    simp; omega
  · intro x hx
    have hx' : x ∈ List.replicate (min c.lensLen c.lensArr.length) 0 ++ c.lensArr.drop c.lensLen := hx
    rw [List.mem_append] at hx'
    rcases hx' with h1 | h1
    · simp at h1; exact h1.2
    · obtain ⟨i, hi⟩ := List.mem_iff_getElem?.mp h1
      rw [List.getElem?_drop] at hi
      have hlt : c.lensLen + i < c.lensArr.length := by
        by_cases hlt : c.lensLen + i < c.lensArr.length
        · exact hlt
        · rw [List.getElem?_eq_none (by omega)] at hi; cases hi
      rw [hz _ (by omega) hlt] at hi
      cases hi; rfl

theorem Done.chunkLens_eq {K : Codec} {total cs : Nat} {c : Coder} {B : Nat → Bytes}
    (h : Done K total cs c B) :
    c.chunkLens = (List.range total).map (fun i => (K.Z (B i)).length) := by
  apply List.ext_getElem?
  intro i
  unfold Coder.chunkLens
  rw [h.len, List.getElem?_take]
  by_cases hi : i < total
  · simp [hi, h.lens i hi]
  · simp [hi]

/-! ### `binary.Uvarint` on a window -/

theorem uvarintU64Aux_of_read : ∀ (S : Bytes) (x s i v m : Nat), s = 7 * i →
    readUvarintAux S x s i = .ok (v, m) → i ≤ 9 ∧ uvarintU64Aux S x s i = (v, m) := by
  intro S
  induction S with
  | nil => intro x s i v m _ h; simp [readUvarintAux] at h
  | cons b rest ih =>
    intro x s i v m hs h
    unfold readUvarintAux at h
    split at h
    · rename_i hb
      split at h
      · cases h
      · rename_i hc
        cases h
        have hi : i ≤ 9 := by
          apply Classical.byContradiction; intro hn; apply hc; omega
        refine ⟨hi, ?_⟩
        have h10 : ¬ i = 10 := by omega
        have h9 : ¬ (i = 9 ∧ b > 1) := by
          intro ⟨h9, hb1⟩; apply hc; omega
        simp [uvarintU64Aux, h10, hb, h9]
    · rename_i hb
      obtain ⟨hi, he⟩ := ih _ _ _ _ _ (by omega) h
      have h10 : ¬ i = 10 := by omega
      refine ⟨by omega, ?_⟩
      simp [uvarintU64Aux, h10, hb, he]

theorem uvarintU64_put (x : Nat) (rest : Bytes) (h : x < two64) :
    uvarintU64 (putUvarint x ++ rest) = (x, (putUvarint x).length) := by
  have := readUvarint_put x rest h
  exact (uvarintU64Aux_of_read _ 0 0 0 _ _ rfl this).2

theorem take_ten_put (x : Nat) (rest : Bytes) (h : x < two64) :
    (putUvarint x ++ rest).take 10 = putUvarint x ++ rest.take (10 - (putUvarint x).length) := by
  have := putUvarint_length_le_ten x (by simpa [two64] using h)
  rw [List.take_append, List.take_of_length_le this]

/-- one 10-byte window read at a position where the writer put a uvarint -/
theorem window_put {file : Bool} {data rest : Bytes} {pos x : Nat} (hx : x < two64)
    (hd : data.drop pos = putUvarint x ++ rest) (hsz : data.length < 2 ^ 62)
    (hf : file = true → pos + 10 ≤ data.length) :
    ∃ w, Data.read file data (pos % two64) ((pos + 10) % two64) = .ok w ∧
      uvarintU64 w = (x, (putUvarint x).length) := by
  have hpos : pos < data.length := by
    have := congrArg List.length hd
    have hp := List.length_pos_iff.mpr (putUvarint_ne_nil x)
    simp only [List.length_drop, List.length_append] at this
    omega
  have e1 : pos % two64 = pos := Nat.mod_eq_of_lt (by unfold two64; omega)
  have e2 : (pos + 10) % two64 = pos + 10 := Nat.mod_eq_of_lt (by unfold two64; omega)
  have h1 : intLt (pos + 10) pos = false := by
    have a : ¬ two63 ≤ pos + 10 := by unfold two63; omega
    have b : ¬ two63 ≤ pos := by unfold two63; omega
    simp [intLt, a, b]
  have h2 : ¬ two63 ≤ pos := by unfold two63; omega
  have h3 : (file && decide (data.length < pos + 10)) = false := by
    cases file
    · rfl
    · have := hf rfl; simp; omega
  refine ⟨(data.drop pos).take 10, ?_, ?_⟩
  · rw [e1, e2]
    simp [Data.read, h1, h2, h3]
  · rw [hd, take_ten_put x rest hx, uvarintU64_put x _ hx]

theorem endOffsets_lt : ∀ (L : List Nat) (run : Nat), ∀ o ∈ endOffsets run L, o < two64 := by
  intro L
  induction L with
  | nil => intro _ o ho; simp [endOffsets] at ho
  | cons l ls ih =>
    intro run o ho
    simp only [endOffsets, List.mem_cons] at ho
    rcases ho with rfl | ho
    · exact Nat.mod_lt _ (by unfold two64; omega)
    · exact ih _ o ho

theorem length_le_flatMap_put (L : List Nat) : L.length ≤ (L.flatMap putUvarint).length := by
  induction L with
  | nil => simp
  | cons l ls ih =>
    have := List.length_pos_iff.mpr (putUvarint_ne_nil l)
    simp only [List.flatMap_cons, List.length_append, List.length_cons]; omega

theorem readOffsets_enc {file : Bool} {data : Bytes} {off : Nat} (hsz : data.length < 2 ^ 62) :
    ∀ (offs : List Nat) (n : Nat) (acc : List Nat) (tail : Bytes), (∀ o ∈ offs, o < two64) →
      data.drop (off + n) = offs.flatMap putUvarint ++ tail →
      (file = true → 10 ≤ tail.length ∨ offs = []) →
      readOffsets file data off offs.length n acc
        = .ok (acc ++ offs, n + (offs.flatMap putUvarint).length) := by
  intro offs
  induction offs with
  | nil => intro n acc tail _ _ _; simp [readOffsets]
  | cons o os ih =>
    intro n acc tail hlt hd hf
    simp only [List.flatMap_cons, List.append_assoc] at hd
    have hlen := congrArg List.length hd
    simp only [List.length_drop, List.length_append] at hlen
    have hp := List.length_pos_iff.mpr (putUvarint_ne_nil o)
    obtain ⟨w, hw, hu⟩ := window_put (file := file) (hlt o (by simp)) hd hsz (by
      intro hfile
      rcases hf hfile with h | h
      · have := putUvarint_length_le_ten o (by simpa [two64] using hlt o (by simp))
        omega
      · cases h)
    have hn : (n + (putUvarint o).length) % two64 = n + (putUvarint o).length :=
      Nat.mod_eq_of_lt (by unfold two64; omega)
    have hd' := drop_advance hd
    rw [Nat.add_assoc] at hd'
    simp only [List.length_cons, readOffsets, hw, hu, hn]
    rw [ih _ _ tail (fun x hx => hlt x (by simp [hx])) hd' (by
      intro hfile
      rcases hf hfile with h | h
      · exact Or.inl h
      · cases h)]
    simp [Nat.add_assoc]

/-! ### the decoder on a written stream -/

/-- what `Write` emits in front of `final` -/
def header (L : List Nat) : Bytes :=
  putUvarint (endOffsets 0 L).length ++ (endOffsets 0 L).flatMap putUvarint

theorem Coder.write_eq (c : Coder) : c.write.1 = header c.chunkLens ++ c.final := rfl

theorem Decoder.newWith_enc {file : Bool} {pre suf body : Bytes} (L : List Nat) (hpre : pre ≠ [])
    (hsz : (pre ++ (header L ++ body) ++ suf).length < 2 ^ 62)
    (hf : file = true → 10 ≤ body.length + suf.length) :
    Decoder.newWith file (pre ++ (header L ++ body) ++ suf) pre.length
      = .ok { file, data := pre ++ (header L ++ body) ++ suf, startOffset := pre.length,
              dataStartOffset := pre.length + (header L).length,
              chunkOffsets := endOffsets 0 L } := by
  have hoff : ¬ pre.length = 0 := by
    intro h; exact hpre (List.eq_nil_of_length_eq_zero h)
  have hlenflat := length_le_flatMap_put (endOffsets 0 L)
  have hlen : (pre ++ (header L ++ body) ++ suf).length
      = pre.length + ((putUvarint (endOffsets 0 L).length).length
          + ((endOffsets 0 L).flatMap putUvarint).length + body.length) + suf.length := by
    simp only [header, List.length_append]
  have hnc : (endOffsets 0 L).length < two64 := by unfold two64; omega
  have hd : (pre ++ (header L ++ body) ++ suf).drop pre.length
      = putUvarint (endOffsets 0 L).length ++ ((endOffsets 0 L).flatMap putUvarint ++ (body ++ suf)) := by
    simp [header]
  have hten := putUvarint_length_le_ten _ (by simpa [two64] using hnc)
  obtain ⟨w, hw, hu⟩ := window_put (file := file) hnc hd hsz (by intro hfile; have := hf hfile; omega)
  have h63 : ¬ two63 ≤ (endOffsets 0 L).length := by unfold two63; omega
  have hd2 := drop_advance hd
  have hro := readOffsets_enc (file := file) (off := pre.length) hsz (endOffsets 0 L)
    (putUvarint (endOffsets 0 L).length).length [] (body ++ suf) (endOffsets_lt L 0) hd2
    (by intro hfile; left; have := hf hfile; simp; omega)
  have hmod : (pre.length + ((putUvarint (endOffsets 0 L).length).length
      + ((endOffsets 0 L).flatMap putUvarint).length)) % two64
      = pre.length + (header L).length := by
    rw [Nat.mod_eq_of_lt (by unfold two64; omega)]; simp [header]
  simp only [Decoder.newWith, hoff, if_false, hw, hu, ok_bind, h63, hro, pure_eq_ok, List.nil_append,
    hmod]

theorem endOffsets_getElem? : ∀ (L : List Nat) (run i : Nat), run + L.sum < two64 → i < L.length →
    (endOffsets run L)[i]? = some (run + (L.take (i + 1)).sum) := by
  intro L
  induction L with
  | nil => intro run i _ hi; simp at hi
  | cons l ls ih =>
    intro run i hlt hi
    simp only [List.sum_cons] at hlt
    have hm : (run + l) % two64 = run + l := Nat.mod_eq_of_lt (by omega)
    cases i with
    | zero => simp [endOffsets, hm]
    | succ j =>
      simp only [List.length_cons] at hi
      simp only [endOffsets, hm, List.getElem?_cons_succ]
      rw [ih (run + l) j (by omega) (by omega)]
      simp [List.take_succ_cons, Nat.add_assoc]

theorem sum_take_map_length (zs : List Bytes) (k : Nat) :
    ((zs.map List.length).take k).sum = (zs.take k).flatten.length := by
  rw [← List.map_take, List.length_flatten]

theorem flatten_split (zs : List Bytes) (i : Nat) (hi : i < zs.length) :
    zs.flatten = (zs.take i).flatten ++ (zs[i] ++ (zs.drop (i + 1)).flatten) := by
  have h := List.take_append_drop i zs
  rw [List.drop_eq_getElem_cons hi] at h
  calc zs.flatten = (zs.take i ++ zs[i] :: zs.drop (i + 1)).flatten := by rw [h]
    _ = _ := by rw [List.flatten_append, List.flatten_cons]

theorem Data.read_slice {file : Bool} (A X Y : Bytes) (hsz : (A ++ (X ++ Y)).length < 2 ^ 62) :
    Data.read file (A ++ (X ++ Y)) (A.length % two64) ((A.length + X.length) % two64) = .ok X := by
  simp only [List.length_append] at hsz
  have e1 : A.length % two64 = A.length := Nat.mod_eq_of_lt (by unfold two64; omega)
  have e2 : (A.length + X.length) % two64 = A.length + X.length :=
    Nat.mod_eq_of_lt (by unfold two64; omega)
  have a : ¬ two63 ≤ A.length + X.length := by unfold two63; omega
  have b : ¬ two63 ≤ A.length := by unfold two63; omega
  have h1 : intLt (A.length + X.length) A.length = false := by simp [intLt, a, b]
  have h3 : (file && decide ((A ++ (X ++ Y)).length < A.length + X.length)) = false := by
    cases file
    · rfl
    · simp
  rw [e1, e2]
  simp only [Data.read, h1, b, h3, if_false, Bool.false_eq_true, Nat.add_sub_cancel_left,
    List.drop_left, List.take_left]

/-- `loadChunk` finds the compressed chunk `i` in a written stream -/
theorem Decoder.loadChunk_enc (K : Codec) {file : Bool} {pre suf : Bytes} (zs : List Bytes)
    (hpre : pre ≠ [])
    (hsz : (pre ++ (header (zs.map List.length) ++ zs.flatten) ++ suf).length < 2 ^ 62)
    (i : Nat) (hi : i < zs.length) :
    Decoder.loadChunk K
      { file, data := pre ++ (header (zs.map List.length) ++ zs.flatten) ++ suf,
        startOffset := pre.length,
        dataStartOffset := pre.length + (header (zs.map List.length)).length,
        chunkOffsets := endOffsets 0 (zs.map List.length) } i
      = (match K.unZ zs[i] with | some b => .ok b | none => .err) := by
  have hoff : ¬ pre.length = 0 := by
    intro h; exact hpre (List.eq_nil_of_length_eq_zero h)
  have hsum : 0 + (zs.map List.length).sum < two64 := by
    rw [← List.length_flatten]
    simp only [List.length_append] at hsz
    unfold two64; omega
  have hlen : (endOffsets 0 (zs.map List.length)).length = zs.length := by
    rw [endOffsets_length, List.length_map]
  have he := endOffsets_getElem? (zs.map List.length) 0 i hsum (by simpa using hi)
  rw [sum_take_map_length, Nat.zero_add] at he
  have hs : (if i > 0 then (endOffsets 0 (zs.map List.length))[i - 1]? else some 0)
      = some (zs.take i).flatten.length := by
    by_cases h0 : i > 0
    · have := endOffsets_getElem? (zs.map List.length) 0 (i - 1) hsum (by simp; omega)
      rw [sum_take_map_length, Nat.zero_add, show i - 1 + 1 = i by omega] at this
      simp [h0, this]
    · have : i = 0 := by omega
      subst this; simp
  have htake : (zs.take (i + 1)).flatten.length = (zs.take i).flatten.length + zs[i].length := by
    rw [List.take_succ_eq_append_getElem hi]
    simp only [List.flatten_append, List.length_append, List.flatten_cons, List.flatten_nil,
      List.append_nil]
  have hdata : pre ++ (header (zs.map List.length) ++ zs.flatten) ++ suf
      = (pre ++ header (zs.map List.length) ++ (zs.take i).flatten) ++ (zs[i]
          ++ ((zs.drop (i + 1)).flatten ++ suf)) := by
    conv => lhs; rw [flatten_split zs i hi]
    simp only [List.append_assoc]
  have hrd := Data.read_slice (file := file)
    (pre ++ header (zs.map List.length) ++ (zs.take i).flatten) zs[i]
    ((zs.drop (i + 1)).flatten ++ suf) (by rw [← hdata]; exact hsz)
  rw [← hdata] at hrd
  simp only [List.length_append] at hrd
  have hnlt : ¬ i ≥ zs.length := by omega
  simp only [Decoder.loadChunk, hoff, if_false, hlen, hnlt, readChunkBoundary, hs, he, ok_bind,
    htake, ← Nat.add_assoc, hrd]
  cases K.unZ zs[i] <;> rfl

/-! ### the `termNotEncoded` path -/

/-- only the empty input compresses to the empty output (a consequence of the two codec laws) -/
theorem Codec.eq_nil_of_z_nil (K : Codec) {b : Bytes} (h : K.Z b = []) : b = [] := by
  have h1 := K.rt b
  have h2 := K.rt []
  rw [h] at h1
  rw [K.z_nil, h1] at h2
  cases h2; rfl

theorem concatZ_eq_nil (K : Codec) {B : Nat → Bytes} {n : Nat} (h : concatZ K B n = []) :
    ∀ i, i < n → B i = [] := by
  intro i hi
  unfold concatZ at h
  rw [List.flatMap_eq_nil_iff] at h
  exact K.eq_nil_of_z_nil (h i (List.mem_range.mpr hi))

theorem Decoder.newWith_zero (file : Bool) (data : Bytes) :
    Decoder.newWith file data 0
      = .ok { file, data, startOffset := 0, dataStartOffset := 0, chunkOffsets := [] } := by
  have : ¬ two63 ≤ 0 := by unfold two63; omega
  simp [Decoder.newWith, this, readOffsets]

/-! ### the writer's `Add` calls: chunk `c` of the stream holds the entries of chunk `c` -/

theorem bytesOfChunk_nil (cs c : Nat) : bytesOfChunk cs [] c = [] := rfl

theorem bytesOfChunk_append (cs : Nat) (a b : List (Nat × List Nat)) (c : Nat) :
    bytesOfChunk cs (a ++ b) c = bytesOfChunk cs a c ++ bytesOfChunk cs b c := by
  simp [bytesOfChunk]

theorem bytesOfChunk_tfAdds (cs : Nat) (es : List Entry) (c : Nat) :
    bytesOfChunk cs (tfAdds es) c = fnBytes (es.filter (fun e => e.doc / cs == c)) := by
  induction es with
  | nil => rfl
  | cons e t ih =>
    have ih' : bytesOfChunk cs (List.map (fun e => (e.doc, [encodeFreqHasLocs e.freq (!e.locs.isEmpty), e.norm])) t) c
        = fnBytes (t.filter (fun e => e.doc / cs == c)) := ih
    simp only [tfAdds, List.map_cons, bytesOfChunk_cons, ih']
    by_cases h : e.doc / cs = c
    · simp [h, fnBytes, encFN]
    · simp [h]

theorem bytesOfChunk_locMap (cs d : Nat) (ls : List BLoc) (c : Nat) :
    bytesOfChunk cs (ls.map (fun l => (d, [l.fieldID, l.pos, l.start, l.stop]))) c
      = if d / cs = c then ls.flatMap encLoc else [] := by
  induction ls with
  | nil => simp [bytesOfChunk]
  | cons l t ih =>
    simp only [List.map_cons, bytesOfChunk_cons, ih]
    by_cases h : d / cs = c
    · simp [h, encLoc]
    · simp [h]

theorem bytesOfChunk_locAddsOf (cs : Nat) (e : Entry) (c : Nat) :
    bytesOfChunk cs (locAddsOf e) c = if e.doc / cs = c then encLocs e else [] := by
  unfold locAddsOf encLocs
  by_cases he : e.locs.isEmpty = true
  · simp [he, bytesOfChunk]
  · have he' : e.locs.isEmpty = false := by simpa using he
    rw [he']
    simp only [Bool.false_eq_true, if_false]
    rw [bytesOfChunk_cons, bytesOfChunk_locMap]
    by_cases h : e.doc / cs = c
    · simp [h]
    · simp [h]

theorem bytesOfChunk_locAdds (cs : Nat) (es : List Entry) (c : Nat) :
    bytesOfChunk cs (locAdds es) c = locBytes (es.filter (fun e => e.doc / cs == c)) := by
  induction es with
  | nil => rfl
  | cons e t ih =>
    have ih' : bytesOfChunk cs (List.flatMap locAddsOf t) c
        = locBytes (t.filter (fun e => e.doc / cs == c)) := ih
    simp only [locAdds, List.flatMap_cons, bytesOfChunk_append, bytesOfChunk_locAddsOf, ih']
    by_cases h : e.doc / cs = c
    · simp [h, locBytes]
    · simp [h]

theorem locAddsOf_doc (e : Entry) : ∀ a ∈ locAddsOf e, a.1 = e.doc := by
  intro a ha
  unfold locAddsOf at ha
  split at ha
  · simp at ha
  · simp only [List.mem_cons, List.mem_map] at ha
    rcases ha with rfl | ⟨l, -, rfl⟩ <;> rfl

theorem pairwise_tfAdds (cs : Nat) (es : List Entry)
    (hs : es.Pairwise (fun a b => a.doc ≤ b.doc)) :
    ((tfAdds es).map (fun a => a.1 / cs)).Pairwise (· ≤ ·) := by
  simp only [tfAdds, List.map_map, List.pairwise_map]
  exact hs.imp (fun h => Nat.div_le_div_right h)

theorem pairwise_locAdds (cs : Nat) (es : List Entry)
    (hs : es.Pairwise (fun a b => a.doc ≤ b.doc)) :
    ((locAdds es).map (fun a => a.1 / cs)).Pairwise (· ≤ ·) := by
  rw [List.pairwise_map]
  induction es with
  | nil => simp [locAdds]
  | cons e t ih =>
    rw [List.pairwise_cons] at hs
    simp only [locAdds, List.flatMap_cons, List.pairwise_append]
    refine ⟨?_, ih hs.2, ?_⟩
    · -- all additions of one posting carry the same document number
      have hd := locAddsOf_doc e
      generalize locAddsOf e = X at hd
      induction X with
      | nil => exact List.Pairwise.nil
      | cons x xs ihx =>
        rw [List.pairwise_cons]
        refine ⟨?_, ihx (fun a ha => hd a (by simp [ha]))⟩
        intro y hy
        rw [hd x (by simp), hd y (by simp [hy])]
        exact Nat.le_refl _
    · intro a ha b hb
      rw [List.mem_flatMap] at hb
      obtain ⟨e', he', hb⟩ := hb
      rw [locAddsOf_doc e a ha, locAddsOf_doc e' b hb]
      exact Nat.div_le_div_right (hs.1 e' he')

end Ice.Model.ChunkBytes
