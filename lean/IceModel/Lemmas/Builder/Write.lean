import IceModel.Lemmas.Builder.Stored
/-
  new.go:639-858 - writing the dictionaries: what writeDictsTermField reads back from the windows
  (bitmap order, consecutive freq/norm cells, consecutive location cells), the vellum insertion
  order, and the per-document term lists of the doc-value column.
-/
namespace Ice.Model.Builder
open Ice Ice.Spec

def toRaw (e : Emit) : RawEntry := { doc := e.doc, freq := e.fn.freq, norm := e.fn.norm, locs := e.locs }

theorem mapE_ok {α β : Type} (f : α → M β) (g : α → β) (l : List α) (h : ∀ x ∈ l, f x = .ok (g x)) :
    mapE f l = .ok (l.map g) := by
  induction l with
  | nil => rfl
  | cons a r ih =>
    simp only [mapE, h a (by simp), ih (fun x hx => h x (by simp [hx])), List.map_cons]

/-- the loop new.go:796-836 reads the postings back exactly as they were emitted -/
theorem readEntries_gen (fn : Slice FreqNorm) (fnB : List FreqNorm) (lw : Slice ILoc) (locB : List ILoc)
    (all : List Emit) (hget : ∀ k, fn.get? fnB k = (all.map (·.fn))[k]?)
    (hsub : ∀ lo m, lo + m ≤ (all.flatMap (·.locs)).length →
      lw.sub? locB lo (lo + m) = some (((all.flatMap (·.locs)).drop lo).take m))
    (hnl : ∀ e ∈ all, e.fn.numLocs = e.locs.length) :
    ∀ (Es pre : List Emit), all = pre ++ Es →
      readEntries fn fnB lw locB (Es.map (·.doc)) pre.length (pre.flatMap (·.locs)).length =
        .ok (Es.map toRaw) := by
  intro Es
  induction Es with
  | nil => intro pre _; rfl
  | cons e r ih =>
    intro pre hall
    have hmem : e ∈ all := by rw [hall]; simp
    have hg : fn.get? fnB pre.length = some e.fn := by
      rw [hget, hall]; simp
    have hrec := ih (pre ++ [e]) (by simp [hall])
    simp only [List.length_append, List.length_singleton, List.flatMap_append, List.flatMap_cons,
      List.flatMap_nil, List.append_nil] at hrec
    simp only [List.map_cons, readEntries, hg]
    by_cases h0 : e.fn.numLocs > 0
    · have hs : lw.sub? locB (pre.flatMap (·.locs)).length ((pre.flatMap (·.locs)).length + e.fn.numLocs) =
          some e.locs := by
        rw [hsub _ _ (by rw [hall, hnl e hmem]; simp), hall, hnl e hmem]
        simp [List.flatMap_append]
      rw [← hnl e hmem] at hrec
      simp only [h0, if_true, hs, hrec, toRaw]
    · have hl : e.locs = [] := by
        have := hnl e hmem
        have h1 : e.locs.length = 0 := by omega
        exact List.eq_nil_of_length_eq_zero h1
      rw [hl] at hrec
      simp only [List.length_nil, Nat.add_zero] at hrec
      simp only [h0, if_false, hrec, toRaw, hl]

/-- `docTermMap` after a term's postings -/
def addTerm (t : Bytes) (dtm : List (List Bytes)) (docs : List Nat) : List (List Bytes) :=
  docs.foldl (fun dtm n => dtm.set n (lget dtm n ++ [t])) dtm

theorem length_addTerm (t : Bytes) (dtm : List (List Bytes)) (docs : List Nat) :
    (addTerm t dtm docs).length = dtm.length :=
  foldl_length_inv _ (by intros; simp) docs dtm

theorem appendTerms_ok (t : Bytes) (es : List RawEntry) :
    ∀ (dtm : List (List Bytes)), (∀ r ∈ es, r.doc < dtm.length) →
      foldlE (appendTerm t) dtm es = .ok (addTerm t dtm (es.map (·.doc))) := by
  induction es with
  | nil => intro dtm _; rfl
  | cons r rest ih =>
    intro dtm h
    have hr : r.doc < dtm.length := h r (by simp)
    have g : getE dtm r.doc 833 = .ok (lget dtm r.doc) :=
      getE_eq_ok (by simp [lget, List.getD_eq_getElem?_getD, List.getElem?_eq_getElem hr])
    simp only [foldlE, appendTerm, g, List.map_cons]
    rw [ih _ (fun r' hr' => by simpa using h r' (by simp [hr']))]
    rfl

/-- the terms appended to document `n`'s cell: those whose postings contain `n` -/
theorem addTerm_get (t : Bytes) (docs : List Nat) :
    ∀ (dtm : List (List Bytes)), docs.Nodup → (∀ d ∈ docs, d < dtm.length) → ∀ n,
      lget (addTerm t dtm docs) n = lget dtm n ++ if n ∈ docs then [t] else [] := by
  induction docs with
  | nil => intro dtm _ _ n; simp [addTerm]
  | cons d r ih =>
    intro dtm hn hlt n
    have hn' := List.nodup_cons.1 hn
    have hd : d < dtm.length := hlt d (by simp)
    have hcons : addTerm t dtm (d :: r) = addTerm t (dtm.set d (lget dtm d ++ [t])) r := rfl
    rw [hcons, ih _ hn'.2 (fun x hx => by simpa using hlt x (by simp [hx])), lget_set]
    by_cases e : d = n
    · subst e; simp [hd, hn'.1]
    · have e' : ¬ n = d := fun e' => e e'.symm
      simp [e, e']

theorem foldl_addDoc (docs : List Nat) :
    ∀ (l : List Nat), (l ++ docs).Pairwise (· < ·) → docs.foldl (fun l d => addDoc d l) l = l ++ docs := by
  induction docs with
  | nil => intro l _; simp
  | cons d r ih =>
    intro l h
    have hd : ∀ x ∈ l, x < d := by
      intro x hx
      exact (List.pairwise_append.1 h).2.2 x hx d (by simp)
    rw [List.foldl_cons, addDoc_append l d hd, ih (l ++ [d]) (by simpa [List.append_assoc] using h)]
    simp

/-! ### one field -/

/-- what the state offers to writeDictsField for the terms of one field -/
structure TermView (s : St) (dict : AMap Bytes Nat) (numDocs : Nat) (t : Bytes) (Es : List Emit) : Prop where
  ne : Es ≠ []
  docs : (Es.map (·.doc)).Pairwise (· < ·)
  lt : ∀ e ∈ Es, e.doc < numDocs
  nl : ∀ e ∈ Es, e.fn.numLocs = e.locs.length
  read : ∃ v pid bs fn lw, aget dict t = some v ∧ pidOf v 778 = .ok pid ∧
    s.postings[pid]? = some bs ∧ bs = Es.map (·.doc) ∧ s.fnWins[pid]? = some fn ∧
    s.locWins[pid]? = some lw ∧ pid < s.numTerms.length ∧
    (∀ k, fn.get? s.fnBacking k = (Es.map (·.fn))[k]?) ∧
    (∀ lo m, lo + m ≤ (Es.flatMap (·.locs)).length →
      lw.sub? s.locBacking lo (lo + m) = some (((Es.flatMap (·.locs)).drop lo).take m))

theorem writeDictsTermField_ok {s : St} {dict : AMap Bytes Nat} {numDocs : Nat} {t : Bytes}
    {Es : List Emit} (h : TermView s dict numDocs t Es) (dtm : List (List Bytes))
    (hdtm : dtm.length = numDocs) (ents : List (Bytes × List RawEntry))
    (hord : ∀ l, ents.getLast? = some l → Bytes.cmp l.1 t = .lt) :
    writeDictsTermField s dict (dtm, ents) t =
      .ok (addTerm t dtm (Es.map (·.doc)), ents ++ [(t, Es.map toRaw)]) := by
  obtain ⟨v, pid, bs, fn, lw, hv, hpid, hbs, hbsE, hfn, hlw, hnt, hget, hsub⟩ := h.read
  have hre := readEntries_gen fn s.fnBacking lw s.locBacking Es hget hsub h.nl Es [] rfl
  simp only [List.length_nil, List.flatMap_nil] at hre
  have g4 : getE s.numTerms pid 788 = .ok s.numTerms[pid] := getE_eq_ok (List.getElem?_eq_getElem hnt)
  have happ := appendTerms_ok t (Es.map toRaw) dtm (by
    intro r hr
    simp only [List.mem_map] at hr
    obtain ⟨e, he, rfl⟩ := hr
    rw [hdtm]; exact h.lt e he)
  have hdocs : (Es.map toRaw).map (·.doc) = Es.map (·.doc) := by simp [toRaw]
  have hne : bs.isEmpty = false := by
    rw [hbsE]; cases hE : Es with
    | nil => exact absurd hE h.ne
    | cons a r => rfl
  have hvi : vellumInsert ents t (Es.map toRaw) = .ok (ents ++ [(t, Es.map toRaw)]) := by
    unfold vellumInsert
    cases hl : ents.getLast? with
    | none => rfl
    | some l => simp [hord l hl]
  simp only [writeDictsTermField, hv, Option.getD_some, hpid, getE_eq_ok hbs, getE_eq_ok hfn,
    getE_eq_ok hlw, g4]
  rw [hbsE, hre]
  simp only [happ, hdocs]
  rw [← hbsE]
  simp [hne, hvi]

/-- the doc-value column of a field: per document the terms whose postings contain it -/
def dtmOf (numDocs : Nat) (terms : List Bytes) (docsOf : Bytes → List Nat) : List (List Bytes) :=
  terms.foldl (fun dtm t => addTerm t dtm (docsOf t)) (List.replicate numDocs [])

def dvOut (dv : Bool) (dtm : List (List Bytes)) : Option (List (Nat × List Bytes)) :=
  if dv then some ((dtm.zipIdx.filter (fun p => !p.1.isEmpty)).map (fun p => (p.2, p.1))) else none

theorem getLast?_map_fst_asc {pre post : List Bytes} {t : Bytes} (h : Asc (pre ++ t :: post))
    {β : Type} (g : Bytes → β) (l : Bytes × β) (hl : (pre.map (fun t => (t, g t))).getLast? = some l) :
    Bytes.cmp l.1 t = .lt := by
  have hm : l ∈ pre.map (fun t => (t, g t)) := List.mem_of_getLast? hl
  simp only [List.mem_map] at hm
  obtain ⟨x, hx, rfl⟩ := hm
  exact (List.pairwise_append.1 h).2.2 x hx t (by simp)

/-- new.go:687-774 -/
theorem writeDictsField_ok {s : St} {numDocs i : Nat} {terms : List Bytes} {dict : AMap Bytes Nat}
    (hdict : s.dicts[i]? = some dict) (hasc : Asc terms) (ES : Bytes → List Emit)
    (hES : ∀ t ∈ terms, TermView s dict numDocs t (ES t)) {dv : Bool} (hdv : s.includeDV[i]? = some dv) :
    writeDictsField s numDocs i terms =
      .ok { entries := terms.map (fun t => (t, (ES t).map toRaw)),
            dv := dvOut dv (dtmOf numDocs terms (fun t => (ES t).map (·.doc))) } := by
  obtain ⟨x, e, hx⟩ := foldlE_inv (writeDictsTermField s dict)
    (fun pre x => x = (pre.foldl (fun dtm t => addTerm t dtm ((ES t).map (·.doc))) (List.replicate numDocs []),
                       pre.map (fun t => (t, (ES t).map toRaw))))
    terms (List.replicate numDocs [], []) rfl
    (by
      intro pre t post x hdd hx
      subst hx
      refine ⟨_, writeDictsTermField_ok (hES t (by simp [hdd])) _ ?_ _ ?_, ?_⟩
      · rw [foldl_length_inv _ (fun l x => length_addTerm x l _)]; simp
      · intro l hl
        exact getLast?_map_fst_asc (hdd ▸ hasc) _ l hl
      · simp)
  simp only [writeDictsField, getE_eq_ok hdict, e, hx, getE_eq_ok hdv]
  cases dv <;> simp [dvOut, dtmOf]

/-- which terms end up in document `n`'s cell -/
theorem dtmOf_get (numDocs : Nat) (terms : List Bytes) (docsOf : Bytes → List Nat)
    (hn : ∀ t ∈ terms, (docsOf t).Nodup) (hlt : ∀ t ∈ terms, ∀ d ∈ docsOf t, d < numDocs) (n : Nat) :
    lget (dtmOf numDocs terms docsOf) n = terms.filter (fun t => decide (n ∈ docsOf t)) := by
  have gen : ∀ (terms : List Bytes) (dtm : List (List Bytes)), dtm.length = numDocs →
      (∀ t ∈ terms, (docsOf t).Nodup) → (∀ t ∈ terms, ∀ d ∈ docsOf t, d < numDocs) →
      lget (terms.foldl (fun dtm t => addTerm t dtm (docsOf t)) dtm) n =
        lget dtm n ++ terms.filter (fun t => decide (n ∈ docsOf t)) := by
    intro terms
    induction terms with
    | nil => intro dtm _ _ _; simp
    | cons t r ih =>
      intro dtm hl hn hlt
      rw [List.foldl_cons, ih _ (by rw [length_addTerm, hl]) (fun t' h' => hn t' (by simp [h']))
        (fun t' h' => hlt t' (by simp [h'])),
        addTerm_get t _ dtm (hn t (by simp)) (fun d hd => by rw [hl]; exact hlt t (by simp) d hd)]
      by_cases e : n ∈ docsOf t <;> simp [e, List.filter_cons]
  have := gen terms (List.replicate numDocs []) (by simp) hn hlt
  rw [dtmOf, this, lget_replicate_nil]; simp

/-- reading the doc-value column back (`vals` of C07) -/
theorem dvOut_get (dtm : List (List Bytes)) (n : Nat) :
    (match dvOut true dtm with
     | none => []
     | some vals => (aget vals n).getD []) = lget dtm n := by
  simp only [dvOut, if_true]
  have gen : ∀ (dtm : List (List Bytes)) (k : Nat), k ≤ n →
      (aget (((dtm.zipIdx k).filter (fun p => !p.1.isEmpty)).map (fun p => (p.2, p.1))) n).getD [] =
        lget dtm (n - k) := by
    intro dtm
    induction dtm with
    | nil => intro k _; simp [aget, lget]
    | cons a r ih =>
      intro k hk
      simp only [List.zipIdx_cons, List.filter_cons]
      by_cases e : k = n
      · subst e
        cases a with
        | nil =>
          simp only [List.isEmpty_nil, Bool.not_true, Bool.false_eq_true, if_false, Nat.sub_self]
          have : ∀ (r : List (List Bytes)) (j : Nat), k < j →
              aget (((r.zipIdx j).filter (fun p => !p.1.isEmpty)).map (fun p => (p.2, p.1))) k = none := by
            intro r
            induction r with
            | nil => intro j _; simp [aget]
            | cons b r' ih' =>
              intro j hj
              simp only [List.zipIdx_cons, List.filter_cons]
              split
              · simp only [List.map_cons, aget]
                rw [if_neg (by omega)]; exact ih' (j + 1) (by omega)
              · exact ih' (j + 1) (by omega)
          simp [this r (k + 1) (by omega), lget]
        | cons x xs => simp [aget, lget]
      · have h1 : n - k = (n - (k + 1)) + 1 := by omega
        have h2 : lget (a :: r) (n - k) = lget r (n - (k + 1)) := by
          rw [h1]; simp [lget]
        rw [h2, ← ih (k + 1) (by omega)]
        split
        · simp only [List.map_cons, aget]
          rw [if_neg (fun e' => e e'.symm)]
        · rfl
  simpa using gen dtm 0 (Nat.zero_le _)

end Ice.Model.Builder
