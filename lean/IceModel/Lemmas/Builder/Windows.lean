import IceModel.Lemmas.Builder.Pass1
/-
  The window lemma in refinement form.  `Refines res W B A`: the windows `W` carved into the backing
  array `B` with reservations `res` represent the lists `A`, each inside its reservation.  An append
  to a window that is still *strictly* inside its reservation is an append to the represented list
  and leaves every other list alone (`Refines.append`).
-/
namespace Ice.Model.Builder
open Ice Ice.Spec

/-- where the window of postings list `p` starts -/
def offs (res : List Nat) (p : Nat) : Nat := (res.take p).sum

/-- the list represented by window `p` -/
def lget {α : Type} (A : List (List α)) (p : Nat) : List α := A.getD p []

theorem lget_set {α : Type} (A : List (List α)) (i j : Nat) (a : List α) :
    lget (A.set i a) j = if i = j ∧ i < A.length then a else lget A j := getD_set A i j a []

theorem offs_succ (res : List Nat) (p : Nat) : offs res (p + 1) = offs res p + nget res p := by
  induction res generalizing p with
  | nil => simp [offs, nget]
  | cons x r ih =>
    cases p with
    | zero => simp [offs, nget]
    | succ q =>
      have := ih q
      simp only [offs, nget, List.take_succ_cons, List.sum_cons, List.getD_cons_succ] at this ⊢
      omega

theorem offs_mono (res : List Nat) {p q : Nat} (h : p ≤ q) : offs res p ≤ offs res q := by
  induction q with
  | zero => have : p = 0 := by omega
            subst this; exact Nat.le_refl _
  | succ k ih =>
    by_cases e : p = k + 1
    · subst e; exact Nat.le_refl _
    · have := ih (by omega)
      rw [offs_succ]; omega

theorem offs_le_sum (res : List Nat) (p : Nat) : offs res p ≤ res.sum := by
  have h1 : offs res (max p res.length) = res.sum := by
    simp [offs, List.take_of_length_le (Nat.le_max_right p res.length)]
  rw [← h1]; exact offs_mono res (Nat.le_max_left _ _)

theorem offs_end (res : List Nat) (p : Nat) : offs res p + nget res p ≤ res.sum := by
  rw [← offs_succ]; exact offs_le_sum res _

theorem offs_disjoint (res : List Nat) {p q k k' : Nat} (hne : p ≠ q) (hk : k < nget res p)
    (hk' : k' < nget res q) : offs res p + k ≠ offs res q + k' := by
  rcases Nat.lt_or_gt_of_ne hne with h | h
  · have := offs_mono res (show p + 1 ≤ q by omega)
    rw [offs_succ] at this; omega
  · have := offs_mono res (show q + 1 ≤ p by omega)
    rw [offs_succ] at this; omega

structure Refines {α : Type} (res : List Nat) (W : List (Slice α)) (B : List α)
    (A : List (List α)) : Prop where
  lenW : W.length = res.length
  lenA : A.length = res.length
  lenB : B.length = res.sum
  win : ∀ p, p < res.length →
    W[p]? = some (.shared (offs res p) (lget A p).length (res.sum - offs res p))
  bound : ∀ p, p < res.length → (lget A p).length ≤ nget res p
  cell : ∀ p k, p < res.length → k < (lget A p).length → B[offs res p + k]? = (lget A p)[k]?

/-- THE WINDOW LEMMA: an append that stays strictly inside the reservation touches nothing else -/
theorem Refines.append {α : Type} {res : List Nat} {W : List (Slice α)} {B : List α}
    {A : List (List α)} (h : Refines res W B A) {p : Nat} (hp : p < res.length)
    (hlt : (lget A p).length < nget res p) (x : α) :
    ∃ w, W[p]? = some w ∧
      Refines res (W.set p (w.append B x).1) (w.append B x).2 (A.set p (lget A p ++ [x])) := by
  have hend := offs_end res p
  refine ⟨_, h.win p hp, ?_⟩
  have hcap : (lget A p).length < res.sum - offs res p := by omega
  simp only [Slice.append, hcap, if_true]
  have hpA : p < A.length := by rw [h.lenA]; exact hp
  have hA' : ∀ q, lget (A.set p (lget A p ++ [x])) q = if p = q then lget A p ++ [x] else lget A q := by
    intro q; rw [lget_set]; simp [hpA]
  refine ⟨by simp [h.lenW], by simp [h.lenA], by simp [h.lenB], ?_, ?_, ?_⟩
  · intro q hq
    rw [hA', List.getElem?_set]
    by_cases e : p = q
    · subst e; simp [h.lenW, hp]
    · simp only [e, if_false]; exact h.win q hq
  · intro q hq
    rw [hA']
    by_cases e : p = q
    · subst e; simp; omega
    · simp only [e, if_false]; exact h.bound q hq
  · intro q k hq hk
    rw [hA'] at hk ⊢
    rw [List.getElem?_set]
    by_cases e : p = q
    · subst e
      simp only [if_true, List.length_append, List.length_singleton] at hk ⊢
      by_cases e2 : k = (lget A p).length
      · subst e2
        have : offs res p + (lget A p).length < B.length := by rw [h.lenB]; omega
        simp [this]
      · have hk2 : k < (lget A p).length := by omega
        have : ¬ offs res p + (lget A p).length = offs res p + k := by omega
        simp only [this, if_false]
        rw [h.cell p k hp hk2, List.getElem?_append_left hk2]
    · simp only [e, if_false] at hk ⊢
      have hb := h.bound q hq
      have := offs_disjoint res e hlt (show k < nget res q by omega)
      simp only [this, if_false]
      exact h.cell q k hq hk

theorem Refines.get? {α : Type} {res : List Nat} {W : List (Slice α)} {B : List α}
    {A : List (List α)} (h : Refines res W B A) {p : Nat} (hp : p < res.length) {w : Slice α}
    (hw : W[p]? = some w) (k : Nat) : w.get? B k = (lget A p)[k]? := by
  rw [h.win p hp] at hw
  injection hw with hw
  subst hw
  simp only [Slice.get?]
  split
  · next hk => exact h.cell p k hp hk
  · next hk => simp at hk; simp [hk]

theorem Refines.sub? {α : Type} {res : List Nat} {W : List (Slice α)} {B : List α}
    {A : List (List α)} (h : Refines res W B A) {p : Nat} (hp : p < res.length) {w : Slice α}
    (hw : W[p]? = some w) (lo m : Nat) (hm : lo + m ≤ (lget A p).length) :
    w.sub? B lo (lo + m) = some (((lget A p).drop lo).take m) := by
  rw [h.win p hp] at hw
  injection hw with hw
  subst hw
  have hend := offs_end res p
  have hb := h.bound p hp
  have hc : lo ≤ lo + m ∧ lo + m ≤ res.sum - offs res p := by omega
  simp only [Slice.sub?, hc, and_self, if_true, Nat.add_sub_cancel_left, Option.some.injEq]
  apply List.ext_getElem?
  intro j
  simp only [List.getElem?_take, List.getElem?_drop]
  split
  · next hj =>
    have := h.cell p (lo + j) hp (by omega)
    rw [← this]; congr 1; omega
  · rfl

/-- the carving loops new.go:376-380 / 394-398 -/
theorem carve_spec {α : Type} (site : Nat) (r : List Nat) :
    ∀ (wins : List (Slice α)) (off len cap pid : Nat), len = r.sum → pid + r.length = wins.length →
    ∃ W, carve site wins off len cap pid r = .ok W ∧ W.length = wins.length ∧
      (∀ q, q < pid → W[q]? = wins[q]?) ∧
      (∀ j, j < r.length → W[pid + j]? = some (.shared (off + (r.take j).sum) 0 (cap - (r.take j).sum))) := by
  induction r with
  | nil => intro wins off len cap pid _ _; exact ⟨wins, rfl, rfl, fun _ _ => rfl, by simp⟩
  | cons n r ih =>
    intro wins off len cap pid hlen hpid
    have hp : pid < wins.length := by simp at hpid; omega
    have hn : n ≤ len := by simp at hlen; omega
    obtain ⟨W, hW, hl, hq, hj⟩ := ih (wins.set pid (.shared off 0 cap)) (off + n) (len - n) (cap - n)
      (pid + 1) (by simp at hlen; omega) (by simp at hpid ⊢; omega)
    refine ⟨W, ?_, by simpa using hl, ?_, ?_⟩
    · simp only [carve, setE_eq_ok _ hp, hn, if_true, hW]
    · intro q hqp
      rw [hq q (by omega), List.getElem?_set]
      have : ¬ pid = q := by omega
      simp [this]
    · intro j hjl
      cases j with
      | zero =>
        rw [Nat.add_zero, hq pid (by omega), List.getElem?_set]
        simp [hp]
      | succ k =>
        have := hj k (by simpa using hjl)
        rw [show pid + (k + 1) = pid + 1 + k by omega, this]
        simp only [List.take_succ_cons, List.sum_cons, Option.some.injEq, Slice.shared.injEq,
          true_and]
        omega

theorem carve_refines {α : Type} (site : Nat) (res : List Nat) (d : α) :
    ∃ W, carve site (List.replicate res.length (Slice.own [])) 0 res.sum res.sum 0 res = .ok W ∧
      Refines res W (List.replicate res.sum d) (List.replicate res.length []) := by
  obtain ⟨W, hW, hl, _, hj⟩ := carve_spec (α := α) site res (List.replicate res.length (.own [])) 0
    res.sum res.sum 0 rfl (by simp)
  have hA : ∀ p, lget (List.replicate res.length ([] : List α)) p = [] := by
    intro p
    simp only [lget, List.getD_eq_getElem?_getD, List.getElem?_replicate]
    split <;> simp
  refine ⟨W, hW, by simpa using hl, by simp, by simp, ?_, ?_, ?_⟩
  · intro p hp
    have := hj p hp
    simpa [hA, offs] using this
  · intro p _; simp [hA]
  · intro p k _ hk; simp [hA] at hk

end Ice.Model.Builder
