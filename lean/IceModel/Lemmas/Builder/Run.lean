import IceModel.Lemmas.Builder.View
/-
  `convert` as a whole: for every batch inside the contract and every map order, the builder
  returns `builtOf nc b`, an explicit function of the batch in which the map order does not occur.
-/
namespace Ice.Model.Builder
open Ice Ice.Spec

/-- the input contract of `New`: every location names its own field (empty name) or a field of the
    batch; fewer than 65535 distinct field names (field ids are uint16) -/
def ValidBatch (b : Batch) : Prop :=
  (∀ d ∈ b, ∀ f ∈ d, ∀ o ∈ f.terms, ∀ l ∈ o.locs, l.field = [] ∨ l.field ∈ names b) ∧
  (sortDedup (names b)).length < 65535

instance (b : Batch) : Decidable (ValidBatch b) := by unfold ValidBatch; infer_instance

/-- the dictionary keys of field `i` -/
def keysOf (F : List Bytes) (b : Batch) (i : Nat) : List Bytes :=
  sortDedup (((evsI F b.flatten).filter (fun e => e.1 == i)).map (·.2.term))

def dvFlag (F : List Bytes) (b : Batch) (i : Nat) : Bool :=
  b.flatten.any (fun f => F.idxOf f.name == i && f.dv)

def viewOf (nc : Bytes → Nat → Nat) (F : List Bytes) (b : Batch) (i : Nat) : FieldView :=
  { entries := (keysOf F b i).map (fun t => (t, entriesOf nc F b i t)),
    dv := dvOut (dvFlag F b i)
            (dtmOf b.length (keysOf F b i) (fun t => (entriesOf nc F b i t).map (·.doc))) }

/-- what `New` builds -/
def builtOf (nc : Bytes → Nat → Nat) (b : Batch) : Built :=
  { fields := FL b,
    fieldDocs := (List.range (FL b).length).map (docCnt (FL b) b),
    fieldFreqs := (List.range (FL b).length).map (freqSum (FL b) b.flatten),
    stored := b.map (fun d => (storedOut (FL b).length (dsfOf (FL b) d)).map
                (fun p => ((FL b).getD p.1 [], p.2))),
    dicts := (List.range (FL b).length).map (viewOf nc (FL b) b) }

theorem kget_map_sortS (K : List (List Bytes)) (i : Nat) : kget (K.map sortS) i = sortS (kget K i) := by
  simp only [kget, List.getD_eq_getElem?_getD, List.getElem?_map]
  cases K[i]? <;> simp [sortS]

theorem DictInv.sortKeys {nF : Nat} {E : List (Nat × TermOcc)} {D : List (AMap Bytes Nat)}
    {K : List (List Bytes)} {nT nL : List Nat} {n : Nat} (h : DictInv nF E D K nT nL n) :
    DictInv nF E D (K.map sortS) nT nL n :=
  ⟨h.lenD, by simp [h.lenK], h.lenT, h.lenL, h.rng, h.cntT, h.cntL, h.inj, h.dom,
    fun i hi t => by rw [kget_map_sortS, mem_sortS]; exact h.keys i hi t,
    fun i hi => by rw [kget_map_sortS]; exact asc_nodup (asc_sortS _ (h.nodup i hi)),
    h.sumT, h.sumL⟩

theorem cnt_pos_iff (E : List (Nat × TermOcc)) (i : Nat) (t : Bytes) :
    0 < cnt E i t ↔ t ∈ ((E.filter (fun e => e.1 == i)).map (·.2.term)) := by
  simp only [cnt, List.countP_pos_iff, List.mem_map, List.mem_filter, Bool.and_eq_true, beq_iff_eq]
  constructor
  · rintro ⟨e, he, h1, h2⟩; exact ⟨e, ⟨he, h1⟩, h2⟩
  · rintro ⟨e, ⟨he, h1⟩, h2⟩; exact ⟨e, he, h1, h2⟩

theorem keys_eq {F : List Bytes} {b : Batch} {D : List (AMap Bytes Nat)} {K : List (List Bytes)}
    {nT nL : List Nat} {n : Nat} (h : DictInv F.length (evsI F b.flatten) D K nT nL n) {i : Nat}
    (hi : i < F.length) : sortS (kget K i) = keysOf F b i := by
  apply asc_ext (asc_sortS _ (h.nodup i hi)) (asc_sortDedup _)
  intro t
  rw [mem_sortS, mem_sortDedup, h.keys i hi t, h.dom i t hi, cnt_pos_iff]

theorem mem_keysOf {F : List Bytes} {b : Batch} {D : List (AMap Bytes Nat)} {K : List (List Bytes)}
    {nT nL : List Nat} {n : Nat} (h : DictInv F.length (evsI F b.flatten) D K nT nL n) {i : Nat}
    (hi : i < F.length) (t : Bytes) : t ∈ keysOf F b i ↔ (dget D i t).isSome := by
  unfold keysOf
  rw [mem_sortDedup, h.dom i t hi, cnt_pos_iff]

theorem dtmOf_congr (numDocs : Nat) (terms : List Bytes) (f g : Bytes → List Nat)
    (h : ∀ t ∈ terms, f t = g t) : dtmOf numDocs terms f = dtmOf numDocs terms g := by
  unfold dtmOf
  generalize List.replicate numDocs ([] : List Bytes) = init
  induction terms generalizing init with
  | nil => rfl
  | cons t r ih =>
    rw [List.foldl_cons, List.foldl_cons, h t (by simp)]
    exact ih (fun t' h' => h t' (by simp [h'])) _

theorem zipIdx_map_range {α β : Type} (K : List α) (g : Nat → β) :
    K.zipIdx.map (fun x => g x.2) = (List.range K.length).map g := by
  have : K.zipIdx.map (fun x => g x.2) = (K.zipIdx.map Prod.snd).map g := by
    rw [List.map_map]; rfl
  rw [this, List.zipIdx_map_snd, List.range_eq_range']

theorem FL_length_le {b : Batch} (h : (sortDedup (names b)).length < 65535) : (FL b).length ≤ 65535 := by
  simp only [FL, fieldList, List.length_cons]
  have := List.length_filter_le (fun n => n != idField) (sortDedup (names b))
  omega

/-! ### the dictionaries -/

def ESof (nc : Bytes → Nat → Nat) (π : Order) (F : List Bytes) (D : List (AMap Bytes Nat)) (b : Batch)
    (i : Nat) (t : Bytes) : List Emit :=
  esel (allEmits false nc π F D b) ((dget D i t).getD 0 - 1)

def fieldOutOf (nc : Bytes → Nat → Nat) (π : Order) (F : List Bytes) (D : List (AMap Bytes Nat))
    (b : Batch) (i : Nat) : FieldOut :=
  { entries := (keysOf F b i).map (fun t => (t, (ESof nc π F D b i t).map toRaw)),
    dv := dvOut (dvFlag F b i)
            (dtmOf b.length (keysOf F b i) (fun t => (ESof nc π F D b i t).map (·.doc))) }

section dicts
variable {F : List Bytes} {b : Batch} {s1 s : St} (nc : Bytes → Nat → Nat) (π : Order)
  (hF : FieldsOK F s1)
  (hD : DictInv F.length (evsI F b.flatten) s1.dicts s1.dictKeys s1.numTerms s1.numLocs s1.numTerms.length)
  (hπ : PermOK π)
  (hval : ∀ d ∈ b, ∀ f ∈ d, ∀ o ∈ f.terms, ∀ l ∈ o.locs, l.field = [] ∨ l.field ∈ F)
  (hS : Sim s1 s (applyAll (Abs.empty s1.numTerms.length) (allEmits false nc π F s1.dicts b)))

include hF hD hπ hval hS in
theorem writeDicts_ok (hK : ∀ i, i < F.length → kget s1.dictKeys i = keysOf F b i)
    (hdv : s.includeDV = dvFold F b.flatten (List.replicate F.length false)) :
    writeDicts s b.length = .ok ((List.range F.length).map (fieldOutOf nc π F s1.dicts b)) := by
  have hlenK : s.dictKeys.length = F.length := by rw [hS.core.dkeys, hD.lenK]
  obtain ⟨acc, e, hacc⟩ := foldlE_inv (writeDictsStep s b.length)
    (fun pre acc => acc = pre.map (fun x => fieldOutOf nc π F s1.dicts b x.2))
    s.dictKeys.zipIdx [] rfl
    (by
      intro pre x post acc hdd hacc
      subst hacc
      have hx : x ∈ s.dictKeys.zipIdx := by rw [hdd]; simp
      have hx2 := List.mem_zipIdx_iff_getElem?.1 hx
      have hi : x.2 < F.length := by
        rw [← hlenK]
        by_cases h : x.2 < s.dictKeys.length
        · exact h
        · rw [List.getElem?_eq_none (by omega)] at hx2; simp at hx2
      have hterms : x.1 = keysOf F b x.2 := by
        rw [← hK x.2 hi, ← hS.core.dkeys]
        simp [kget, List.getD_eq_getElem?_getD, hx2]
      have hiD : x.2 < s.dicts.length := by rw [hS.core.dicts, hD.lenD]; exact hi
      have hdict : s.dicts[x.2]? = some (s1.dicts.getD x.2 []) := by
        rw [hS.core.dicts] at hiD ⊢
        simp [List.getD_eq_getElem?_getD, List.getElem?_eq_getElem hiD]
      have hdvi : s.includeDV[x.2]? = some (dvFlag F b x.2) := by
        have hl : x.2 < (dvFold F b.flatten (List.replicate F.length false)).length := by
          rw [length_dvFold]; simpa using hi
        have := dvFold_get F b.flatten (List.replicate F.length false) x.2 (by simpa using hi)
        rw [hdv, List.getElem?_eq_getElem hl]
        simp only [List.getD_eq_getElem?_getD, List.getElem?_eq_getElem hl, Option.getD_some] at this
        rw [this]
        simp [dvFlag, List.getElem?_replicate, hi]
      have := writeDictsField_ok (s := s) (numDocs := b.length) (i := x.2) (terms := x.1) hdict
        (hterms ▸ asc_sortDedup _) (ESof nc π F s1.dicts b x.2)
        (by
          intro t ht
          rw [hterms] at ht
          obtain ⟨v, hv⟩ := Option.isSome_iff_exists.1 ((mem_keysOf hD hi t).1 ht)
          have := termView_ok nc π hF hD hπ hval hS hv
          simpa [ESof, hv] using this)
        hdvi
      have h' : writeDictsField s b.length x.2 x.1 = .ok (fieldOutOf nc π F s1.dicts b x.2) := by
        rw [this]; simp [fieldOutOf, hterms]
      refine ⟨pre.map (fun x => fieldOutOf nc π F s1.dicts b x.2) ++ [fieldOutOf nc π F s1.dicts b x.2],
        ?_, by simp⟩
      simp only [writeDictsStep, h'])
  unfold writeDicts
  rw [e, hacc, zipIdx_map_range, hlenK]

include hD hπ hval in
theorem resolveField_ok {i : Nat} (hi : i < F.length) :
    resolveField F (fieldOutOf nc π F s1.dicts b i) = .ok (viewOf nc F b i) := by
  have htf := tfsOK_of_valid hD hval
  -- per term
  have hterm : ∀ t ∈ keysOf F b i,
      mapE (resolveEntry F) ((ESof nc π F s1.dicts b i t).map toRaw) = .ok (entriesOf nc F b i t) ∧
      (ESof nc π F s1.dicts b i t).map (·.doc) = (entriesOf nc F b i t).map (·.doc) := by
    intro t ht
    obtain ⟨v, hv⟩ := Option.isSome_iff_exists.1 ((mem_keysOf hD hi t).1 ht)
    have hsel := esel_allEmits nc π hD hπ hv htf
    have hES : ESof nc π F s1.dicts b i t = esel (allEmits false nc π F s1.dicts b) (v - 1) := by
      simp only [ESof, hv, Option.getD_some]
    rw [hsel] at hES
    have hmem : ∀ e ∈ ESof nc π F s1.dicts b i t, ∃ x tf, x ∈ b.zipIdx ∧
        aget (lget (rollTFs false F x.1) i) t = some tf ∧
        e = mkEmit nc F s1.dicts x.2 i (rollLens F x.1) (t, tf) := by
      intro e he
      rw [hES] at he
      simp only [List.mem_flatMap, Option.mem_toList, Option.map_eq_some_iff] at he
      obtain ⟨x, hx, tf, h1, h2⟩ := he
      exact ⟨x, tf, hx, h1, h2.symm⟩
    have hlocs : ∀ x ∈ b.zipIdx, ∀ tf, aget (lget (rollTFs false F x.1) i) t = some tf →
        ∀ l ∈ tf.locs, l.field = [] ∨ l.field ∈ F := by
      intro x hx tf hg
      have hxb : x.1 ∈ b := List.mem_of_getElem? (List.mem_zipIdx_iff_getElem?.1 hx)
      have hr := rollTFs_ok F x.1 i hi
      exact (htf x.1 hxb i t tf ((mem_iff_aget hr.nodup t tf).2 hg)).2
    refine ⟨?_, ?_⟩
    · rw [mapE_map_ok (resolveEntry F) toRaw
        (fun e => match resolveEntry F (toRaw e) with | .ok p => p | .error _ => default)]
      · rw [hES, map_flatMap_toList, entriesOf]
        congr 1
        apply flatMap_congr'
        intro x hx
        simp only [postingIn]
        cases hg : aget (lget (rollTFs false F x.1) i) t with
        | none => rfl
        | some tf =>
          simp only [Option.map_some]
          rw [resolveEntry_ok nc hi x.2 (rollLens F x.1) t tf (hlocs x hx tf hg)]
      · intro e he
        obtain ⟨x, tf, hx, hg, rfl⟩ := hmem e he
        rw [resolveEntry_ok nc hi x.2 (rollLens F x.1) t tf (hlocs x hx tf hg)]
    · rw [hES, entriesOf, map_flatMap_toList, map_flatMap_toList]
      apply flatMap_congr'
      intro x _
      simp only [postingIn]
      cases aget (lget (rollTFs false F x.1) i) t <;> simp [mkEmit]
  unfold resolveField fieldOutOf viewOf
  rw [mapE_map_ok _ _ (fun t => (t, entriesOf nc F b i t))]
  · simp only [FieldView.mk.injEq, true_and, Except.ok.injEq]
    congr 1
    exact dtmOf_congr _ _ _ _ (fun t ht => (hterm t ht).2)
  · intro t ht
    simp only [(hterm t ht).1]

end dicts

/-! ### convert -/

theorem u16_lt (i : Nat) (h : i < 65536) : u16 i = i := by unfold u16; omega

/-- REFINEMENT: inside the contract, for EVERY map order, the builder returns `builtOf nc b` -/
theorem run_eq (nc : Bytes → Nat → Nat) (π : Order) (b : Batch) (hv : ValidBatch b) (hπ : PermOK π) :
    run nc π b = .ok (builtOf nc b) := by
  have hlen : (FL b).length ≤ 65535 := FL_length_le hv.2
  obtain ⟨m, e0, hF0⟩ := initFields_ok b hlen
  obtain ⟨s1, e1, hS1⟩ := prepareDicts_ok hF0 rfl
  have hF1 : FieldsOK (FL b) (sortKeys s1) := hF0.of_eq hS1.fmap hS1.finv
  have hD1 : DictInv (FL b).length (evsI (FL b) b.flatten) (sortKeys s1).dicts (sortKeys s1).dictKeys
      (sortKeys s1).numTerms (sortKeys s1).numLocs (sortKeys s1).numTerms.length := hS1.dict.sortKeys
  have hSim0 : Sim (sortKeys s1) (sortKeys s1) (Abs.empty (sortKeys s1).numTerms.length) :=
    ⟨Core.refl _, hS1.post, by simp [Abs.empty], hS1.fn, hS1.loc⟩
  have hval : ∀ d ∈ b, ∀ f ∈ d, ∀ o ∈ f.terms, ∀ l ∈ o.locs, l.field = [] ∨ l.field ∈ FL b := by
    intro d hd f hf o ho l hl
    rcases hv.1 d hd f hf o ho l hl with h | h
    · exact Or.inl h
    · exact Or.inr ((mem_FL b _).2 (Or.inr h))
  have hbF : ∀ d ∈ b, ∀ f ∈ d, f.name ∈ FL b := by
    intro d hd f hf
    rw [mem_FL]; right
    simp only [names, List.mem_flatMap, List.mem_map]
    exact ⟨d, hd, f, hf, rfl⟩
  obtain ⟨s2, e2, hS2⟩ := processDocuments_ok nc π hF1 hD1 hπ false b hSim0 hbF
    (tfsOK_of_valid hD1 hval) (fits_all nc π hD1 hπ hval)
  have hF2 : FieldsOK (FL b) s2 := hF1.of_eq hS2.core.fmap hS2.core.finv
  have hdv2 : s2.includeDV = List.replicate (FL b).length false := by
    rw [hS2.core.dv]; show s1.includeDV = _; rw [hS1.dv]; rfl
  have e3 := writeStoredFields_ok hF2 (by rw [hdv2]; simp) b hbF
  -- the state the dictionaries are written from
  have hS3 : Sim { sortKeys s1 with includeDV := dvFold (FL b) b.flatten s2.includeDV }
      { s2 with includeDV := dvFold (FL b) b.flatten s2.includeDV }
      (applyAll (Abs.empty (sortKeys s1).numTerms.length)
        (allEmits false nc π (FL b) (sortKeys s1).dicts b)) :=
    ⟨⟨hS2.core.fmap, hS2.core.finv, hS2.core.fdocs, hS2.core.ffreqs, hS2.core.dicts, hS2.core.dkeys,
      rfl, hS2.core.nT, hS2.core.nL⟩, hS2.post, hS2.lenP, hS2.fn, hS2.loc⟩
  have hK : ∀ i, i < (FL b).length → kget (sortKeys s1).dictKeys i = keysOf (FL b) b i := by
    intro i hi
    show kget (s1.dictKeys.map sortS) i = _
    rw [kget_map_sortS]; exact keys_eq hS1.dict hi
  have e5 : mapE (resolveField (FL b)) ((List.range (FL b).length).map
      (fieldOutOf nc π (FL b) (sortKeys s1).dicts b)) =
      .ok ((List.range (FL b).length).map (viewOf nc (FL b) b)) := by
    apply mapE_map_ok
    intro i hi
    exact resolveField_ok nc π hD1 hπ hval (List.mem_range.1 hi)
  have e4 : (if b.length > 0 then
        writeDicts { s2 with includeDV := dvFold (FL b) b.flatten s2.includeDV } b.length
      else .ok (List.replicate (FL b).length {})) =
      .ok ((List.range (FL b).length).map (fieldOutOf nc π (FL b) (sortKeys s1).dicts b)) := by
    by_cases hb0 : b.length > 0
    · rw [if_pos hb0]
      exact writeDicts_ok (s1 := { sortKeys s1 with includeDV := dvFold (FL b) b.flatten s2.includeDV })
        nc π (hF1.of_eq rfl rfl) hD1 hπ hval hS3 hK (by rw [hdv2])
    · have : b = [] := List.eq_nil_of_length_eq_zero (by omega)
      subst this
      rw [if_neg hb0]
      have hg : fieldOutOf nc π (FL []) (sortKeys s1).dicts [] = fun _ => {} := by
        funext i; simp [fieldOutOf, keysOf, evsI, dvFlag, dvOut, sortDedup]
      rw [hg]
      congr 1
  have hfinv : s2.fieldsInv = FL b := hF2.inv
  unfold run runV
  simp only [hfinv] at e4
  simp only [e0, e1, e2, e3, hfinv, e4, e5]
  simp only [builtOf, Except.ok.injEq, Built.mk.injEq, true_and]
  refine ⟨?_, ?_, ?_⟩
  · apply List.map_congr_left
    intro i hi
    rw [u16_lt i (by have := List.mem_range.1 hi; omega), hS2.core.fdocs]
    exact hS1.fd i
  · apply List.map_congr_left
    intro i hi
    rw [u16_lt i (by have := List.mem_range.1 hi; omega), hS2.core.ffreqs]
    exact hS1.ff i
  · simp

end Ice.Model.Builder
