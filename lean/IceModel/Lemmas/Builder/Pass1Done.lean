import IceModel.Lemmas.Builder.Windows
/-
  new.go:339-399 - the state after prepareDicts and the sorting of the key lists (new.go:281-283).
-/
namespace Ice.Model.Builder
open Ice Ice.Spec

/-- everything later phases need to know about the state after pass 1 -/
structure S1 (F : List Bytes) (b : Batch) (s0 s : St) : Prop where
  fmap : s.fieldsMap = s0.fieldsMap
  finv : s.fieldsInv = s0.fieldsInv
  dv : s.includeDV = s0.includeDV
  dict : DictInv F.length (evsI F b.flatten) s.dicts s.dictKeys s.numTerms s.numLocs s.numTerms.length
  ff : ∀ i, (aget s.fieldFreqs i).getD 0 = freqSum F b.flatten i
  fd : ∀ i, (aget s.fieldDocs i).getD 0 = docCnt F b i
  post : s.postings = List.replicate s.numTerms.length []
  fn : Refines s.numTerms s.fnWins s.fnBacking (List.replicate s.numTerms.length [])
  loc : Refines s.numLocs s.locWins s.locBacking (List.replicate s.numTerms.length [])

theorem prepareDicts_ok {F : List Bytes} {b : Batch} {m : AMap Bytes Nat}
    (hF : FieldsOK F (st0 b m)) (hFL : F = FL b) :
    ∃ s, prepareDicts (st0 b m) b = .ok s ∧ S1 F b (st0 b m) s := by
  have hb : ∀ d ∈ b, ∀ f ∈ d, f.name ∈ F := by
    intro d hd f hf
    rw [hFL, mem_FL]; right
    simp only [names, List.mem_flatMap, List.mem_map]
    exact ⟨d, hd, f, hf, rfl⟩
  have h0 : P1D F (st0 b m) [] (st0 b m) {} := by
    refine ⟨⟨⟨rfl, rfl, rfl, rfl, rfl, rfl, rfl, rfl⟩, ?_, rfl, rfl, ?_⟩, ?_⟩
    · have := DictInv.init F.length
      simpa [st0, hFL, evsI] using this
    · intro i; simp [st0, aget, freqSum]
    · intro i; simp [st0, aget, docCnt]
  obtain ⟨s, t, e, hp⟩ := prepDocs_ok hF b hb h0
  have hd := hp.p1.dict
  have hT : t.totTFs = s.numTerms.sum := by rw [hp.p1.tfs, hd.sumT]
  have hL : t.totLocs = s.numLocs.sum := by rw [hp.p1.tl, hd.sumL]
  have hn : t.pidNext = s.numTerms.length := hd.lenT.symm
  have hn' : t.pidNext = s.numLocs.length := hd.lenL.symm
  obtain ⟨fw, hfw, hfr⟩ := carve_refines (α := FreqNorm) 378 s.numTerms default
  obtain ⟨lw, hlw, hlr⟩ := carve_refines (α := ILoc) 396 s.numLocs default
  refine ⟨{ s with postings := List.replicate t.pidNext [], fnWins := fw,
                   fnBacking := List.replicate t.totTFs default, locWins := lw,
                   locBacking := List.replicate t.totLocs default }, ?_, ?_⟩
  · simp only [prepareDicts, e]
    rw [hT, hn, hfw]
    simp only
    rw [hL, ← hn, hn', hlw]
  · refine ⟨hp.p1.frame.fmap, hp.p1.frame.finv, hp.p1.frame.dv, ?_, hp.p1.ff, hp.fd, ?_, ?_, ?_⟩
    · simpa [hn] using hd
    · simp [hn]
    · simpa [hT] using hfr
    · have : s.numTerms.length = s.numLocs.length := by rw [← hn, hn']
      simpa [hL, this] using hlr

end Ice.Model.Builder
