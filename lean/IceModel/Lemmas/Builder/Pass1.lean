import IceModel.Lemmas.Builder.Fields
/-
  new.go:339-451 - pass 1.  `DictInv` describes the dictionaries, the key lists and the two
  counters per postings list in terms of the flat list of (field id, term occurrence) events.
-/
namespace Ice.Model.Builder
open Ice Ice.Spec

/-! ### table access -/

/-- `Dicts[i][t]` -/
def dget (D : List (AMap Bytes Nat)) (i : Nat) (t : Bytes) : Option Nat := aget (D.getD i []) t

theorem getD_set {α : Type} (l : List α) (i j : Nat) (a d : α) :
    (l.set i a).getD j d = if i = j ∧ i < l.length then a else l.getD j d := by
  simp only [List.getD_eq_getElem?_getD, List.getElem?_set]
  by_cases h : i = j
  · subst h
    by_cases h2 : i < l.length
    · simp [h2]
    · simp [h2]
  · simp [h]

theorem dget_set (D : List (AMap Bytes Nat)) (i j : Nat) (m : AMap Bytes Nat) (t : Bytes)
    (hi : i < D.length) : dget (D.set i m) j t = if j = i then aget m t else dget D j t := by
  simp only [dget, getD_set]
  by_cases h : i = j
  · subst h; simp [hi]
  · have : ¬ j = i := fun e => h e.symm
    simp [h, this]

/-- `numTermsPerPostingsList[k]` -/
def nget (l : List Nat) (k : Nat) : Nat := l.getD k 0
/-- `DictKeys[i]` -/
def kget (K : List (List Bytes)) (i : Nat) : List Bytes := K.getD i []

theorem nget_set (l : List Nat) (i j a : Nat) :
    nget (l.set i a) j = if i = j ∧ i < l.length then a else nget l j := getD_set l i j a 0

theorem kget_set (K : List (List Bytes)) (i j : Nat) (a : List Bytes) :
    kget (K.set i a) j = if i = j ∧ i < K.length then a else kget K j := getD_set K i j a []

theorem nget_append_lt (l r : List Nat) (j : Nat) (h : j < l.length) :
    nget (l ++ r) j = nget l j := by
  simp [nget, List.getD_eq_getElem?_getD, List.getElem?_append_left h]

theorem nget_append_len (l : List Nat) (x : Nat) : nget (l ++ [x]) l.length = x := by
  simp [nget, List.getD_eq_getElem?_getD]

theorem getD_append_lt {α : Type} (l r : List α) (j : Nat) (d : α) (h : j < l.length) :
    (l ++ r).getD j d = l.getD j d := by
  simp [List.getD_eq_getElem?_getD, List.getElem?_append_left h]

theorem sum_set_add (l : List Nat) (k c : Nat) (h : k < l.length) :
    (l.set k (nget l k + c)).sum = l.sum + c := by
  induction l generalizing k with
  | nil => simp at h
  | cons x r ih =>
    cases k with
    | zero => simp [nget]; omega
    | succ j =>
      have := ih j (by simpa using h)
      simp only [nget, List.set_cons_succ, List.sum_cons, List.getD_cons_succ] at this ⊢
      omega

/-! ### events -/

/-- the (field id, term occurrence) events of a list of field instances, in processing order -/
def evsI (F : List Bytes) (I : List FieldInst) : List (Nat × TermOcc) :=
  I.flatMap (fun f => f.terms.map (fun o => (F.idxOf f.name, o)))

/-- number of occurrences of term `t` in field `i` -/
def cnt (E : List (Nat × TermOcc)) (i : Nat) (t : Bytes) : Nat :=
  E.countP (fun e => e.1 == i && e.2.term == t)

/-- number of locations of term `t` in field `i` -/
def lsum (E : List (Nat × TermOcc)) (i : Nat) (t : Bytes) : Nat :=
  (E.map (fun e => if e.1 = i ∧ e.2.term = t then e.2.locs.length else 0)).sum

def lsumAll (E : List (Nat × TermOcc)) : Nat := (E.map (fun e => e.2.locs.length)).sum

theorem cnt_append (E E' : List (Nat × TermOcc)) (i : Nat) (t : Bytes) :
    cnt (E ++ E') i t = cnt E i t + cnt E' i t := by simp [cnt, List.countP_append]

theorem lsum_append (E E' : List (Nat × TermOcc)) (i : Nat) (t : Bytes) :
    lsum (E ++ E') i t = lsum E i t + lsum E' i t := by simp [lsum, List.sum_append]

theorem lsumAll_append (E E' : List (Nat × TermOcc)) :
    lsumAll (E ++ E') = lsumAll E + lsumAll E' := by simp [lsumAll, List.sum_append]

theorem cnt_single (i j : Nat) (o : TermOcc) (t : Bytes) :
    cnt [(i, o)] j t = if i = j ∧ o.term = t then 1 else 0 := by
  simp only [cnt, List.countP_cons, List.countP_nil]
  by_cases h : i = j ∧ o.term = t
  · simp [h]
  · rw [if_neg h]
    have : ((i == j) && (o.term == t)) = false := by
      simp only [Bool.and_eq_false_iff, beq_eq_false_iff_ne, ne_eq]
      by_cases h1 : i = j
      · right; intro h2; exact h ⟨h1, h2⟩
      · left; exact h1
    simp [this]

theorem lsum_single (i j : Nat) (o : TermOcc) (t : Bytes) :
    lsum [(i, o)] j t = if i = j ∧ o.term = t then o.locs.length else 0 := by
  simp [lsum]

theorem evsI_append (F : List Bytes) (I J : List FieldInst) :
    evsI F (I ++ J) = evsI F I ++ evsI F J := by simp [evsI]

/-! ### the dictionary invariant -/

structure DictInv (nF : Nat) (E : List (Nat × TermOcc)) (D : List (AMap Bytes Nat))
    (K : List (List Bytes)) (nT nL : List Nat) (pn : Nat) : Prop where
  lenD : D.length = nF
  lenK : K.length = nF
  lenT : nT.length = pn
  lenL : nL.length = pn
  rng : ∀ i t v, dget D i t = some v → 1 ≤ v ∧ v ≤ pn
  cntT : ∀ i t v, dget D i t = some v → nget nT (v - 1) = cnt E i t
  cntL : ∀ i t v, dget D i t = some v → nget nL (v - 1) = lsum E i t
  inj : ∀ i j t u v, dget D i t = some v → dget D j u = some v → i = j ∧ t = u
  dom : ∀ i t, i < nF → ((dget D i t).isSome ↔ 0 < cnt E i t)
  keys : ∀ i, i < nF → ∀ t, t ∈ kget K i ↔ (dget D i t).isSome
  nodup : ∀ i, i < nF → (kget K i).Nodup
  sumT : nT.sum = E.length
  sumL : nL.sum = lsumAll E

theorem DictInv.init (nF : Nat) :
    DictInv nF [] (List.replicate nF []) (List.replicate nF []) [] [] 0 := by
  have hd : ∀ i t, dget (List.replicate nF []) i t = none := by
    intro i t
    simp only [dget, List.getD_eq_getElem?_getD, List.getElem?_replicate]
    split <;> simp [aget]
  have hk : ∀ i, kget (List.replicate nF ([] : List Bytes)) i = [] := by
    intro i
    simp only [kget, List.getD_eq_getElem?_getD, List.getElem?_replicate]
    split <;> simp
  constructor <;> simp [hd, hk, cnt, lsumAll]

/-- one term occurrence, new.go:414-440 -/
theorem prepTerm_step {nF : Nat} {E : List (Nat × TermOcc)} {D : List (AMap Bytes Nat)}
    {K : List (List Bytes)} {nT nL : List Nat} {pn : Nat} (h : DictInv nF E D K nT nL pn)
    {i : Nat} (hi : i < nF) (a : TermAcc) (o : TermOcc)
    (hd : a.dict = D.getD i []) (hk : a.keys = kget K i) (hT : a.numTerms = nT)
    (hL : a.numLocs = nL) (hp : a.pidNext = pn) :
    ∃ a', prepTerm a o = .ok a' ∧
      DictInv nF (E ++ [(i, o)]) (D.set i a'.dict) (K.set i a'.keys) a'.numTerms a'.numLocs a'.pidNext ∧
      a'.numTermsLocal = a.numTermsLocal + 1 ∧ a'.totLocs = a.totLocs + o.locs.length := by
  have hiD : i < D.length := by rw [h.lenD]; exact hi
  have hiK : i < K.length := by rw [h.lenK]; exact hi
  have hdg : ∀ t, aget a.dict t = dget D i t := by intro t; simp [dget, hd]
  cases hg : dget D i o.term with
  | some v =>
    obtain ⟨hv1, hv2⟩ := h.rng i o.term v hg
    have hvT : v - 1 < nT.length := by rw [h.lenT]; omega
    have hvL : v - 1 < nL.length := by rw [h.lenL]; omega
    refine ⟨{ a with numTermsLocal := a.numTermsLocal + 1,
                     numTerms := nT.set (v - 1) (nget nT (v - 1) + 1),
                     numLocs := nL.set (v - 1) (nget nL (v - 1) + o.locs.length),
                     totLocs := a.totLocs + o.locs.length }, ?_, ?_, rfl, rfl⟩
    · have hv0 : v ≠ 0 := by omega
      simp only [prepTerm, hdg, hg, pidOf, hv0, if_false, hT, hL, getE]
      rw [List.getElem?_eq_getElem hvT, List.getElem?_eq_getElem hvL]
      simp [nget, List.getD_eq_getElem?_getD, List.getElem?_eq_getElem hvT, List.getElem?_eq_getElem hvL]
    · have hDs : D.set i a.dict = D := by
        rw [hd]; apply List.ext_getElem?; intro j
        simp only [List.getElem?_set, List.getD_eq_getElem?_getD]
        split
        · next e => subst e; simp [hiD]
        · rfl
      have hKs : K.set i a.keys = K := by
        rw [hk]; apply List.ext_getElem?; intro j
        simp only [kget, List.getElem?_set, List.getD_eq_getElem?_getD]
        split
        · next e => subst e; simp [hiK]
        · rfl
      show DictInv nF (E ++ [(i, o)]) (D.set i a.dict) (K.set i a.keys) _ _ a.pidNext
      rw [hDs, hKs, hp]
      -- which table entries are the one that is incremented
      have hkey : ∀ j u w, dget D j u = some w → (w - 1 = v - 1 ↔ (i = j ∧ o.term = u)) := by
        intro j u w hw
        obtain ⟨hw1, _⟩ := h.rng j u w hw
        constructor
        · intro e
          have : w = v := by omega
          subst this
          have := h.inj i j o.term u w hg hw
          exact this
        · rintro ⟨rfl, rfl⟩
          rw [hg] at hw; injection hw with hw; rw [hw]
      refine ⟨h.lenD, h.lenK, by simp [h.lenT], by simp [h.lenL], h.rng, ?_, ?_, h.inj, ?_, h.keys,
        h.nodup, ?_, ?_⟩
      · intro j u w hw
        rw [nget_set, cnt_append, cnt_single, ← h.cntT j u w hw]
        by_cases e : i = j ∧ o.term = u
        · have := (hkey j u w hw).2 e
          simp [e, this, hvT]
        · have : ¬ (v - 1 = w - 1) := fun e' => e ((hkey j u w hw).1 e'.symm)
          simp [e, this]
      · intro j u w hw
        rw [nget_set, lsum_append, lsum_single, ← h.cntL j u w hw]
        by_cases e : i = j ∧ o.term = u
        · have := (hkey j u w hw).2 e
          simp [e, this, hvL]
        · have : ¬ (v - 1 = w - 1) := fun e' => e ((hkey j u w hw).1 e'.symm)
          simp [e, this]
      · intro j u hj
        rw [cnt_append, cnt_single, h.dom j u hj]
        by_cases e : i = j ∧ o.term = u
        · obtain ⟨rfl, rfl⟩ := e
          have := (h.dom i o.term hi).1 (by simp [hg])
          simp; omega
        · simp [e]
      · rw [sum_set_add _ _ _ hvT, h.sumT]; simp
      · rw [sum_set_add _ _ _ hvL, h.sumL, lsumAll_append]; simp [lsumAll]
  | none =>
    have hc0 : cnt E i o.term = 0 := by
      have := (h.dom i o.term hi)
      rw [hg] at this
      simp at this; exact this
    have hnT : nget (nT ++ [0]) pn = 0 := by rw [← h.lenT]; exact nget_append_len _ _
    have hnL : nget (nL ++ [0]) pn = 0 := by rw [← h.lenL]; exact nget_append_len _ _
    refine ⟨{ a with numTermsLocal := a.numTermsLocal + 1, pidNext := pn + 1,
                     dict := aset a.dict o.term (pn + 1), keys := a.keys ++ [o.term],
                     numTerms := (nT ++ [0]).set pn (nget (nT ++ [0]) pn + 1),
                     numLocs := (nL ++ [0]).set pn (nget (nL ++ [0]) pn + o.locs.length),
                     totLocs := a.totLocs + o.locs.length }, ?_, ?_, rfl, rfl⟩
    · have e1 : (nT ++ [0])[pn]? = some 0 := by rw [← h.lenT]; simp
      have e2 : (nL ++ [0])[pn]? = some 0 := by rw [← h.lenL]; simp
      have g1 := getE_eq_ok (site := 431) e1
      have g2 := getE_eq_ok (site := 437) e2
      have hne : pn + 1 ≠ 0 := by omega
      simp only [prepTerm, hdg, hg, pidOf, hT, hL, hp, Nat.add_sub_cancel, hne, if_false, g1, g2,
        hnT, hnL]
    · show DictInv nF (E ++ [(i, o)]) (D.set i (aset a.dict o.term (pn + 1)))
        (K.set i (a.keys ++ [o.term])) _ _ (pn + 1)
      have hD' : ∀ j u, dget (D.set i (aset a.dict o.term (pn + 1))) j u =
          if j = i ∧ u = o.term then some (pn + 1) else dget D j u := by
        intro j u
        rw [dget_set _ _ _ _ _ hiD, aget_aset, hdg]
        by_cases e1 : j = i
        · subst e1; by_cases e2 : u = o.term <;> simp [e2]
        · simp [e1]
      have hK' : ∀ j, kget (K.set i (a.keys ++ [o.term])) j =
          if i = j then kget K i ++ [o.term] else kget K j := by
        intro j; rw [kget_set, hk]; simp [hiK]
      have hT' : ∀ k, k < pn → nget ((nT ++ [0]).set pn (nget (nT ++ [0]) pn + 1)) k = nget nT k := by
        intro k hk'
        rw [nget_set, if_neg (by omega), nget_append_lt _ _ _ (by rw [h.lenT]; exact hk')]
      have hL' : ∀ k, k < pn →
          nget ((nL ++ [0]).set pn (nget (nL ++ [0]) pn + o.locs.length)) k = nget nL k := by
        intro k hk'
        rw [nget_set, if_neg (by omega), nget_append_lt _ _ _ (by rw [h.lenL]; exact hk')]
      have hT'' : nget ((nT ++ [0]).set pn (nget (nT ++ [0]) pn + 1)) pn = 1 := by
        rw [nget_set, hnT]; simp [h.lenT]
      have hL'' : nget ((nL ++ [0]).set pn (nget (nL ++ [0]) pn + o.locs.length)) pn =
          o.locs.length := by
        rw [nget_set, hnL]; simp [h.lenL]
      have hl0 : lsum E i o.term = 0 := by
        have : ∀ E' : List (Nat × TermOcc), cnt E' i o.term = 0 → lsum E' i o.term = 0 := by
          intro E'
          induction E' with
          | nil => simp [lsum]
          | cons e r ih =>
            intro hc
            have hc' : cnt [e] i o.term + cnt r i o.term = 0 := by
              rw [← cnt_append]; exact hc
            have h1 : cnt [e] i o.term = 0 := by omega
            have h2 : cnt r i o.term = 0 := by omega
            have : lsum (e :: r) i o.term = lsum [e] i o.term + lsum r i o.term := by
              rw [← lsum_append]; rfl
            rw [this, ih h2]
            obtain ⟨ei, eo⟩ := e
            rw [cnt_single] at h1
            rw [lsum_single]
            split at h1
            · omega
            · next hne => simp [hne]
        exact this E hc0
      refine ⟨by simp [h.lenD], by simp [h.lenK], by simp [h.lenT], by simp [h.lenL],
        ?_, ?_, ?_, ?_, ?_, ?_, ?_, ?_, ?_⟩
      · intro j u w hw
        rw [hD'] at hw
        split at hw
        · injection hw with hw; omega
        · have := h.rng j u w hw; omega
      · intro j u w hw
        rw [hD'] at hw
        rw [cnt_append, cnt_single]
        split at hw
        · next e =>
          obtain ⟨rfl, rfl⟩ := e
          injection hw with hw; subst hw
          simp [hT'', hc0]
        · next e =>
          have := h.rng j u w hw
          rw [hT' _ (by omega), h.cntT j u w hw]
          have : ¬ (i = j ∧ o.term = u) := fun e' => e ⟨e'.1.symm, e'.2.symm⟩
          simp [this]
      · intro j u w hw
        rw [hD'] at hw
        rw [lsum_append, lsum_single]
        split at hw
        · next e =>
          obtain ⟨rfl, rfl⟩ := e
          injection hw with hw; subst hw
          simp [hL'', hl0]
        · next e =>
          have := h.rng j u w hw
          rw [hL' _ (by omega), h.cntL j u w hw]
          have : ¬ (i = j ∧ o.term = u) := fun e' => e ⟨e'.1.symm, e'.2.symm⟩
          simp [this]
      · intro j j' u u' w hw hw'
        rw [hD'] at hw hw'
        split at hw
        · next e =>
          split at hw'
          · next e' => exact ⟨e.1.trans e'.1.symm, e.2.trans e'.2.symm⟩
          · injection hw with hw; subst hw
            have := h.rng j' u' _ hw'; omega
        · split at hw'
          · injection hw' with hw'; subst hw'
            have := h.rng j u _ hw; omega
          · exact h.inj j j' u u' w hw hw'
      · intro j u hj
        rw [hD', cnt_append, cnt_single]
        by_cases e : j = i ∧ u = o.term
        · obtain ⟨rfl, rfl⟩ := e; simp
        · have : ¬ (i = j ∧ o.term = u) := fun e' => e ⟨e'.1.symm, e'.2.symm⟩
          simp only [e, this, if_false, Nat.add_zero]
          exact h.dom j u hj
      · intro j hj u
        rw [hK', hD']
        by_cases e : i = j
        · subst e
          simp only [if_true, List.mem_append, List.mem_singleton, true_and]
          by_cases e2 : u = o.term
          · simp [e2]
          · simp [e2, h.keys i hi u]
        · have : ¬ (j = i ∧ u = o.term) := fun e' => e e'.1.symm
          simp only [e, this, if_false]
          exact h.keys j hj u
      · intro j hj
        rw [hK']
        split
        · rw [List.nodup_append]
          refine ⟨h.nodup i hi, by simp, ?_⟩
          intro x hx y hy
          simp only [List.mem_singleton] at hy
          subst hy
          intro e; subst e
          have := (h.keys i hi _).1 hx
          rw [hg] at this; simp at this
        · exact h.nodup j hj
      · rw [sum_set_add _ _ _ (by simp [h.lenT]), List.sum_append, h.sumT]; simp
      · rw [sum_set_add _ _ _ (by simp [h.lenL]), List.sum_append, h.sumL, lsumAll_append]
        simp [lsumAll]

/-! ### fields and documents -/

/-- Σ Length() of the instances of field `i` -/
def freqSum (F : List Bytes) (I : List FieldInst) (i : Nat) : Nat :=
  (I.map (fun f => if F.idxOf f.name = i then f.length else 0)).sum

/-- number of documents with an instance of field `i` -/
def docCnt (F : List Bytes) (ds : List Doc) (i : Nat) : Nat :=
  ds.countP (fun d => d.any (fun f => F.idxOf f.name == i))

/-- the parts of the state pass 1 does not touch -/
structure Frame1 (s0 s : St) : Prop where
  fmap : s.fieldsMap = s0.fieldsMap
  finv : s.fieldsInv = s0.fieldsInv
  dv : s.includeDV = s0.includeDV
  post : s.postings = s0.postings
  fw : s.fnWins = s0.fnWins
  fb : s.fnBacking = s0.fnBacking
  lw : s.locWins = s0.locWins
  lb : s.locBacking = s0.locBacking

theorem FieldsOK.of_eq {F : List Bytes} {s0 s : St} (h : FieldsOK F s0)
    (h1 : s.fieldsMap = s0.fieldsMap) (h2 : s.fieldsInv = s0.fieldsInv) : FieldsOK F s :=
  ⟨h2 ▸ h.inv, h1 ▸ h.map, h.len, h.nodup⟩

/-- the state of pass 1 after the field instances `I` -/
structure P1 (F : List Bytes) (s0 : St) (I : List FieldInst) (s : St) (t : Tot) : Prop where
  frame : Frame1 s0 s
  dict : DictInv F.length (evsI F I) s.dicts s.dictKeys s.numTerms s.numLocs t.pidNext
  tfs : t.totTFs = (evsI F I).length
  tl : t.totLocs = lsumAll (evsI F I)
  ff : ∀ i, (aget s.fieldFreqs i).getD 0 = freqSum F I i

theorem getD_addAt (m : AMap Nat Nat) (k n i : Nat) :
    (aget (addAt m k n) i).getD 0 = (aget m i).getD 0 + if i = k then n else 0 := by
  simp only [addAt, aget_aset]
  by_cases h : i = k <;> simp [h]

theorem set_getD_self {α : Type} (l : List α) (i : Nat) (d : α) : l.set i (l.getD i d) = l := by
  apply List.ext_getElem?; intro j
  simp only [List.getElem?_set, List.getD_eq_getElem?_getD]
  split
  · next e =>
    subst e
    by_cases h : i < l.length
    · simp [h]
    · simp [h]
  · rfl

theorem getD_set_self {α : Type} (l : List α) (i : Nat) (a d : α) (h : i < l.length) :
    (l.set i a).getD i d = a := by rw [getD_set]; simp [h]

/-- the `EachField` callback, new.go:404-445 -/
theorem prepField_step {F : List Bytes} {s0 s : St} {I : List FieldInst} {t : Tot}
    (hF : FieldsOK F s0) (h : P1 F s0 I s t) (seen : List Nat) (f : FieldInst) (hf : f.name ∈ F) :
    ∃ s' t', prepField (s, t, seen) f = .ok (s', t', seeField seen (F.idxOf f.name)) ∧
      P1 F s0 (I ++ [f]) s' t' ∧ s'.fieldDocs = s.fieldDocs := by
  have hFs : FieldsOK F s := hF.of_eq h.frame.fmap h.frame.finv
  have hi : F.idxOf f.name < F.length := List.idxOf_lt_length_of_mem hf
  generalize hidef : F.idxOf f.name = i at hi
  have hiD : i < s.dicts.length := by rw [h.dict.lenD]; exact hi
  have hiK : i < s.dictKeys.length := by rw [h.dict.lenK]; exact hi
  -- the inner loop
  have hloop := foldlE_inv prepTerm
    (fun pre a => DictInv F.length (evsI F I ++ pre.map (fun o => (i, o))) (s.dicts.set i a.dict)
        (s.dictKeys.set i a.keys) a.numTerms a.numLocs a.pidNext ∧
      a.numTermsLocal = pre.length ∧
      a.totLocs = t.totLocs + lsumAll (pre.map (fun o => (i, o))))
    f.terms
    { dict := s.dicts.getD i [], keys := kget s.dictKeys i, numTermsLocal := 0, pidNext := t.pidNext,
      totLocs := t.totLocs, numTerms := s.numTerms, numLocs := s.numLocs }
    (by
      refine ⟨?_, rfl, by simp [lsumAll]⟩
      simp only [List.map_nil, List.append_nil, kget, set_getD_self]
      exact h.dict)
    (by
      intro pre o post a _ ⟨hd, hn, hl⟩
      obtain ⟨a', ha', hd', hn', hl'⟩ := prepTerm_step hd hi a o
        (by rw [getD_set_self _ _ _ _ hiD]) (by rw [kget, getD_set_self _ _ _ _ hiK]) rfl rfl rfl
      refine ⟨a', ha', ?_, ?_, ?_⟩
      · simpa [List.set_set, List.append_assoc] using hd'
      · simp [hn', hn]
      · simp [hl', hl, lsumAll_append, lsumAll]; omega)
  obtain ⟨a, ha, hda, hna, hla⟩ := hloop
  have hev : evsI F (I ++ [f]) = evsI F I ++ f.terms.map (fun o => (i, o)) := by
    simp [evsI, hidef]
  refine ⟨{ s with fieldFreqs := addAt s.fieldFreqs i f.length, dicts := s.dicts.set i a.dict,
                   dictKeys := s.dictKeys.set i a.keys, numTerms := a.numTerms,
                   numLocs := a.numLocs },
    { pidNext := a.pidNext, totLocs := a.totLocs, totTFs := t.totTFs + a.numTermsLocal }, ?_, ?_, rfl⟩
  · have hu : u16 i = i := hidef ▸ u16_idx hFs hf
    have g1 : getE s.dicts i 410 = .ok (s.dicts.getD i []) :=
      getE_eq_ok (by simp [List.getD_eq_getElem?_getD, List.getElem?_eq_getElem hiD])
    have g2 : getE s.dictKeys i 411 = .ok (kget s.dictKeys i) :=
      getE_eq_ok (by simp [kget, List.getD_eq_getElem?_getD, List.getElem?_eq_getElem hiK])
    simp only [prepField, god_known hFs hf, hidef, hu, g1, g2, ha, setE_eq_ok _ hiK]
  · refine ⟨⟨h.frame.fmap, h.frame.finv, h.frame.dv, h.frame.post, h.frame.fw, h.frame.fb,
      h.frame.lw, h.frame.lb⟩, ?_, ?_, ?_, ?_⟩
    · rw [hev]; exact hda
    · rw [hev]; simp [h.tfs, hna]
    · rw [hev, lsumAll_append]; simp [hla, h.tl]
    · intro j
      show (aget (addAt s.fieldFreqs i f.length) j).getD 0 = _
      rw [getD_addAt, h.ff j]
      simp only [freqSum, List.map_append, List.sum_append, List.map_cons, List.map_nil,
        List.sum_cons, List.sum_nil, hidef, Nat.add_zero]
      by_cases e : j = i
      · simp [e]
      · have : ¬ i = j := fun e' => e e'.symm
        simp [e, this]

/-- the set `fieldsSeen` of a document -/
def seenOf (F : List Bytes) (I : List FieldInst) : List Nat :=
  I.foldl (fun acc f => seeField acc (F.idxOf f.name)) []

theorem seenOf_snoc (F : List Bytes) (I : List FieldInst) (f : FieldInst) :
    seenOf F (I ++ [f]) = seeField (seenOf F I) (F.idxOf f.name) := by
  simp [seenOf]

theorem seenFold_spec (F : List Bytes) (I : List FieldInst) (acc : List Nat) (ha : acc.Nodup) :
    (I.foldl (fun acc f => seeField acc (F.idxOf f.name)) acc).Nodup ∧
    ∀ i, i ∈ I.foldl (fun acc f => seeField acc (F.idxOf f.name)) acc ↔
      i ∈ acc ∨ ∃ f ∈ I, F.idxOf f.name = i := by
  induction I generalizing acc with
  | nil => simp [ha]
  | cons f r ih =>
    have hn : (seeField acc (F.idxOf f.name)).Nodup := by
      unfold seeField
      split
      · exact ha
      · next hm =>
        rw [List.nodup_append]
        refine ⟨ha, by simp, ?_⟩
        intro a ha' b hb
        simp only [List.mem_singleton] at hb
        subst hb
        intro e; subst e; exact hm ha'
    have hm : ∀ i, i ∈ seeField acc (F.idxOf f.name) ↔ i ∈ acc ∨ F.idxOf f.name = i := by
      intro i
      unfold seeField
      split
      · next hm => constructor
                   · intro h; exact Or.inl h
                   · rintro (h | h)
                     · exact h
                     · exact h ▸ hm
      · simp only [List.mem_append, List.mem_singleton]
        constructor
        · rintro (h | h)
          · exact Or.inl h
          · exact Or.inr h.symm
        · rintro (h | h)
          · exact Or.inl h
          · exact Or.inr h.symm
    obtain ⟨h1, h2⟩ := ih _ hn
    refine ⟨by simpa using h1, ?_⟩
    intro i
    rw [List.foldl_cons, h2 i, hm i]
    simp only [List.mem_cons, exists_eq_or_imp]
    constructor
    · rintro ((h | h) | h)
      · exact Or.inl h
      · exact Or.inr (Or.inl h)
      · exact Or.inr (Or.inr h)
    · rintro (h | h | h)
      · exact Or.inl (Or.inl h)
      · exact Or.inl (Or.inr h)
      · exact Or.inr h

theorem seenOf_spec (F : List Bytes) (I : List FieldInst) :
    (seenOf F I).Nodup ∧ ∀ i, i ∈ seenOf F I ↔ ∃ f ∈ I, F.idxOf f.name = i := by
  have := seenFold_spec F I [] (by simp)
  refine ⟨this.1, ?_⟩
  intro i
  have h := this.2 i
  simpa [seenOf] using h

theorem getD_incrAll (seen : List Nat) (hn : seen.Nodup) (m : AMap Nat Nat) (i : Nat) :
    (aget (seen.foldl (fun m k => addAt m k 1) m) i).getD 0 =
      (aget m i).getD 0 + if i ∈ seen then 1 else 0 := by
  induction seen generalizing m with
  | nil => simp
  | cons k r ih =>
    have hn' := List.nodup_cons.1 hn
    rw [List.foldl_cons, ih hn'.2, getD_addAt]
    by_cases e : i = k
    · subst e; simp [hn'.1]
    · by_cases e2 : i ∈ r <;> simp [e, e2]

/-- the state of pass 1 after the documents `ds` -/
structure P1D (F : List Bytes) (s0 : St) (ds : List Doc) (s : St) (t : Tot) : Prop where
  p1 : P1 F s0 ds.flatten s t
  fd : ∀ i, (aget s.fieldDocs i).getD 0 = docCnt F ds i

/-- new.go:401-451 -/
theorem prepDoc_step {F : List Bytes} {s0 s : St} {ds : List Doc} {t : Tot}
    (hF : FieldsOK F s0) (h : P1D F s0 ds s t) (d : Doc) (hd : ∀ f ∈ d, f.name ∈ F) :
    ∃ s' t', prepDoc (s, t) d = .ok (s', t') ∧ P1D F s0 (ds ++ [d]) s' t' := by
  have hloop := foldlE_inv prepField
    (fun pre x => P1 F s0 (ds.flatten ++ pre) x.1 x.2.1 ∧ x.1.fieldDocs = s.fieldDocs ∧
      x.2.2 = seenOf F pre)
    d (s, t, [])
    (by simpa [seenOf] using h.p1)
    (by
      intro pre f post x hdd ⟨hp, hfd, hs⟩
      obtain ⟨s1, t1, seen⟩ := x
      obtain ⟨s', t', e, hp', hfd'⟩ := prepField_step hF hp seen f (hd f (by simp [hdd]))
      refine ⟨(s', t', seeField seen (F.idxOf f.name)), e, ?_, ?_, ?_⟩
      · simpa [List.append_assoc] using hp'
      · exact hfd'.trans hfd
      · simp only at hs; rw [seenOf_snoc, ← hs])
  obtain ⟨⟨s1, t1, seen⟩, e, hp, hfd, hs⟩ := hloop
  simp only at hp hfd hs
  refine ⟨{ s1 with fieldDocs := seen.foldl (fun m k => addAt m k 1) s1.fieldDocs }, t1, ?_, ?_, ?_⟩
  · simp only [prepDoc, e]
  · have hfl : (ds ++ [d]).flatten = ds.flatten ++ d := by simp
    rw [hfl]
    exact ⟨⟨hp.frame.fmap, hp.frame.finv, hp.frame.dv, hp.frame.post, hp.frame.fw, hp.frame.fb,
      hp.frame.lw, hp.frame.lb⟩, hp.dict, hp.tfs, hp.tl, hp.ff⟩
  · intro i
    show (aget (seen.foldl (fun m k => addAt m k 1) s1.fieldDocs) i).getD 0 = _
    have hsp := seenOf_spec F d
    rw [hs, getD_incrAll _ hsp.1, hfd, h.fd i]
    simp only [docCnt, List.countP_append, List.countP_cons, List.countP_nil, Nat.zero_add]
    congr 1
    have : (i ∈ seenOf F d) ↔ (d.any (fun f => F.idxOf f.name == i) = true) := by
      rw [hsp.2 i]; simp
    by_cases e : i ∈ seenOf F d
    · simp [e, this.1 e]
    · have : ¬ (d.any (fun f => F.idxOf f.name == i) = true) := fun e' => e (this.2 e')
      simp [e, this]

theorem prepDocs_ok {F : List Bytes} {s0 : St} (hF : FieldsOK F s0) (b : Batch)
    (hb : ∀ d ∈ b, ∀ f ∈ d, f.name ∈ F)
    (h0 : P1D F s0 [] s0 {}) :
    ∃ s t, foldlE prepDoc (s0, {}) b = .ok (s, t) ∧ P1D F s0 b s t := by
  obtain ⟨⟨s, t⟩, e, hp⟩ := foldlE_inv prepDoc (fun pre x => P1D F s0 pre x.1 x.2) b (s0, {}) h0
    (by
      intro pre d post x hdd hp
      obtain ⟨s', t', e, hp'⟩ := prepDoc_step hF hp d (hb d (by simp [hdd]))
      exact ⟨(s', t'), e, hp'⟩)
  exact ⟨s, t, e, hp⟩

end Ice.Model.Builder
