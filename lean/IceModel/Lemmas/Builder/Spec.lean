import IceModel.Lemmas.Builder.Run
/-
  `builtOf nc b` against `Spec.build nc mode b`: the observations coincide.
-/
namespace Ice.Model.Builder
open Ice Ice.Spec

/-! ### spec-side helpers -/

theorem find?_beq (l : List Bytes) (f : Bytes) :
    l.find? (fun n => n == f) = if f ∈ l then some f else none := by
  induction l with
  | nil => simp
  | cons a r ih =>
    simp only [List.find?_cons, List.mem_cons]
    by_cases h : a = f
    · subst h; simp
    · have h' : ¬ f = a := fun e => h e.symm
      have : (a == f) = false := by simp [h]
      simp [this, ih, h']

theorem field?_rollDoc (nc : Bytes → Nat → Nat) (g : Bytes → Bool) (d : Doc) (f : Bytes) :
    (rollDoc nc g d).field? f =
      if f ∈ d.map (·.name) then some (rollField nc g d f) else none := by
  unfold ADoc.field? rollDoc
  rw [List.find?_map]
  have : ((fun af : AField => af.name == f) ∘ rollField nc g d) = (fun n => n == f) := by
    funext n; simp [rollField]
  rw [this, find?_beq]
  simp only [List.mem_eraseDups]
  split <;> simp

theorem find?_rollTerms (fname : Bytes) (occs : List TermOcc) (t : Bytes) :
    (rollTerms fname occs).find? (fun x => x.term == t) =
      if t ∈ occs.map (·.term) then
        some { term := t, freq := ((occs.filter (fun o => o.term == t)).map (·.freq)).sum,
               locs := (occs.filter (fun o => o.term == t)).flatMap
                         (fun o => o.locs.map (resolveLoc fname)) }
      else none := by
  unfold rollTerms
  rw [List.find?_map]
  have : ((fun x : ATerm => x.term == t) ∘ fun t' =>
      ({ term := t', freq := ((occs.filter (fun o => o.term == t')).map (·.freq)).sum,
         locs := (occs.filter (fun o => o.term == t')).flatMap (fun o => o.locs.map (resolveLoc fname)) } : ATerm))
      = (fun n => n == t) := by
    funext n; rfl
  simp only [this, find?_beq, mem_sortDedup]
  split <;> simp

theorem map_term_rollTerms (fname : Bytes) (occs : List TermOcc) :
    (rollTerms fname occs).map (·.term) = sortDedup (occs.map (·.term)) := by
  unfold rollTerms; rw [List.map_map]; simp [Function.comp_def]

theorem sortDedup_congr {l₁ l₂ : List Bytes} (h : ∀ x, x ∈ l₁ ↔ x ∈ l₂) :
    sortDedup l₁ = sortDedup l₂ :=
  asc_ext (asc_sortDedup _) (asc_sortDedup _) (fun x => by rw [mem_sortDedup, mem_sortDedup, h])

/-! ### field ids and names -/

theorem idx_eq_iff {F : List Bytes} (hn : F.Nodup) {n : Bytes} (hm : n ∈ F) {i : Nat} (hi : i < F.length) :
    F.idxOf n = i ↔ n = fname F i := by
  have hl := List.idxOf_lt_length_of_mem hm
  constructor
  · intro e; subst e
    simp [fname, List.getD_eq_getElem?_getD, List.getElem?_eq_getElem hl]
  · intro e; subst e
    have : fname F i = F[i] := by simp [fname, List.getD_eq_getElem?_getD, List.getElem?_eq_getElem hi]
    rw [this]; exact idxOf_getElem_nodup hn i hi

theorem fname_idxOf {F : List Bytes} {n : Bytes} (hm : n ∈ F) : fname F (F.idxOf n) = n := by
  have hl := List.idxOf_lt_length_of_mem hm
  simp [fname, List.getD_eq_getElem?_getD, List.getElem?_eq_getElem hl]

theorem range_map_fname (F : List Bytes) : (List.range F.length).map (fname F) = F := by
  apply List.ext_getElem?
  intro i
  by_cases h : i < F.length
  · simp [h, fname, List.getD_eq_getElem?_getD, List.getElem?_eq_getElem h]
  · simp [h, List.getElem?_eq_none (Nat.le_of_not_lt h)]

theorem FL_nodup (b : Batch) : (FL b).Nodup := nodup_fieldList _

theorem name_mem_FL {b : Batch} {d : Doc} (hd : d ∈ b) {f : FieldInst} (hf : f ∈ d) : f.name ∈ FL b := by
  rw [mem_FL]; right
  simp only [names, List.mem_flatMap, List.mem_map]
  exact ⟨d, hd, f, hf, rfl⟩

/-- the occurrences of term `t` in field number `i` of a document are those of the field's name -/
theorem occs_eq {b : Batch} {d : Doc} (hd : d ∈ b) {i : Nat} (hi : i < (FL b).length) (t : Bytes) :
    occs (evsI (FL b) d) i t =
      ((d.filter (fun f => f.name == fname (FL b) i)).flatMap (·.terms)).filter (fun o => o.term == t) := by
  have key : ∀ (I : List FieldInst), (∀ f ∈ I, f.name ∈ FL b) →
      occs (evsI (FL b) I) i t =
        ((I.filter (fun f => f.name == fname (FL b) i)).flatMap (·.terms)).filter (fun o => o.term == t) := by
    intro I
    induction I with
    | nil => intro _; simp [occs, evsI]
    | cons f r ih =>
      intro hI
      have hev : evsI (FL b) (f :: r) = f.terms.map (fun o => ((FL b).idxOf f.name, o)) ++ evsI (FL b) r := by
        simp [evsI]
      rw [hev, occs_append, ih (fun g hg => hI g (by simp [hg]))]
      have hfm := hI f (by simp)
      have hiff := idx_eq_iff (FL_nodup b) hfm hi
      by_cases e : f.name = fname (FL b) i
      · have e1 : (FL b).idxOf f.name = i := hiff.2 e
        have : occs (f.terms.map (fun o => ((FL b).idxOf f.name, o))) i t =
            f.terms.filter (fun o => o.term == t) := by
          simp only [occs, e1, List.filter_map, List.map_map]
          have : ((fun e : Nat × TermOcc => e.1 == i && e.2.term == t) ∘ fun o => (i, o)) =
              (fun o => o.term == t) := by funext o; simp
          rw [this]; simp [Function.comp_def]
        rw [this]
        simp [List.filter_cons, e]
      · have e1 : ¬ (FL b).idxOf f.name = i := fun h => e (hiff.1 h)
        have : occs (f.terms.map (fun o => ((FL b).idxOf f.name, o))) i t = [] := by
          simp only [occs, List.map_eq_nil_iff, List.filter_eq_nil_iff, List.mem_map]
          rintro x ⟨o, _, rfl⟩
          simp [e1]
        rw [this]
        simp [List.filter_cons, e]
  exact key d (fun f hf => name_mem_FL hd hf)

theorem freqSum_eq {b : Batch} {d : Doc} (hd : d ∈ b) {i : Nat} (hi : i < (FL b).length) :
    freqSum (FL b) d i = ((d.filter (fun f => f.name == fname (FL b) i)).map (·.length)).sum := by
  have key : ∀ (I : List FieldInst), (∀ f ∈ I, f.name ∈ FL b) →
      freqSum (FL b) I i = ((I.filter (fun f => f.name == fname (FL b) i)).map (·.length)).sum := by
    intro I
    induction I with
    | nil => intro _; simp [freqSum]
    | cons f r ih =>
      intro hI
      have hfm := hI f (by simp)
      have hiff := idx_eq_iff (FL_nodup b) hfm hi
      have := ih (fun g hg => hI g (by simp [hg]))
      simp only [freqSum, List.map_cons, List.sum_cons] at this ⊢
      rw [this]
      by_cases e : f.name = fname (FL b) i
      · have e1 : (FL b).idxOf f.name = i := hiff.2 e
        have hb : (f.name == fname (FL b) i) = true := beq_iff_eq.2 e
        simp only [e1, if_true, List.filter_cons, hb, List.map_cons, List.sum_cons]
      · have e1 : ¬ (FL b).idxOf f.name = i := fun h => e (hiff.1 h)
        have hb : (f.name == fname (FL b) i) = false := beq_eq_false_iff_ne.2 e
        simp only [e1, if_false, List.filter_cons, hb]
        simp
  exact key d (fun f hf => name_mem_FL hd hf)

theorem any_idx_eq {b : Batch} {d : Doc} (hd : d ∈ b) {i : Nat} (hi : i < (FL b).length) (p : FieldInst → Bool) :
    d.any (fun f => (FL b).idxOf f.name == i && p f) = d.any (fun f => f.name == fname (FL b) i && p f) := by
  have key : ∀ (I : List FieldInst), (∀ f ∈ I, f.name ∈ FL b) →
      I.any (fun f => (FL b).idxOf f.name == i && p f) = I.any (fun f => f.name == fname (FL b) i && p f) := by
    intro I
    induction I with
    | nil => intro _; rfl
    | cons f r ih =>
      intro hI
      have hiff := idx_eq_iff (FL_nodup b) (hI f (by simp)) hi
      simp only [List.any_cons, ih (fun g hg => hI g (by simp [hg]))]
      congr 1
      by_cases e : f.name = fname (FL b) i
      · have h1 : ((FL b).idxOf f.name == i) = true := beq_iff_eq.2 (hiff.2 e)
        have h2 : (f.name == fname (FL b) i) = true := beq_iff_eq.2 e
        rw [h1, h2]
      · have e1 : ¬ (FL b).idxOf f.name = i := fun h => e (hiff.1 h)
        have h1 : ((FL b).idxOf f.name == i) = false := beq_eq_false_iff_ne.2 e1
        have h2 : (f.name == fname (FL b) i) = false := beq_eq_false_iff_ne.2 e
        rw [h1, h2]
  exact key d (fun f hf => name_mem_FL hd hf)

end Ice.Model.Builder
