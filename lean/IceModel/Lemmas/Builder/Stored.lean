import IceModel.Lemmas.Builder.Emits
/-
  new.go:555-637 - stored values per document and the IncludeDocValues flags.
-/
namespace Ice.Model.Builder
open Ice Ice.Spec

/-- `docStoredFields` after the instances `I` -/
def dsfOf (F : List Bytes) (I : List FieldInst) : AMap Nat (List Bytes) :=
  I.foldl (fun m f => if f.store then
      aset m (F.idxOf f.name) ((aget m (F.idxOf f.name)).getD [] ++ [f.value]) else m) []

/-- `IncludeDocValues` after the instances `I` -/
def dvFold (F : List Bytes) (I : List FieldInst) (dv : List Bool) : List Bool :=
  I.foldl (fun dv f => if f.dv then dv.set (F.idxOf f.name) true else dv) dv

theorem length_dvFold (F : List Bytes) (I : List FieldInst) (dv : List Bool) :
    (dvFold F I dv).length = dv.length := by
  unfold dvFold
  exact foldl_length_inv _ (by intro l x; split <;> simp) I dv

theorem dvFold_append (F : List Bytes) (I J : List FieldInst) (dv : List Bool) :
    dvFold F (I ++ J) dv = dvFold F J (dvFold F I dv) := by simp [dvFold]

theorem storeFields_ok {F : List Bytes} {s : St} (hF : FieldsOK F s) (hdv : s.includeDV.length = F.length)
    (d : Doc) (hd : ∀ f ∈ d, f.name ∈ F) :
    foldlE storeField (s, []) d =
      .ok ({ s with includeDV := dvFold F d s.includeDV }, dsfOf F d) := by
  obtain ⟨x, e, hx⟩ := foldlE_inv storeField
    (fun pre x => x = ({ s with includeDV := dvFold F pre s.includeDV }, dsfOf F pre)) d (s, []) rfl
    (by
      intro pre f post x hdd hx
      subst hx
      have hf : f.name ∈ F := hd f (by simp [hdd])
      have hi := List.idxOf_lt_length_of_mem hf
      have hFs : FieldsOK F { s with includeDV := dvFold F pre s.includeDV } := hF.of_eq rfl rfl
      have hl : F.idxOf f.name < (dvFold F pre s.includeDV).length := by
        rw [length_dvFold, hdv]; exact hi
      refine ⟨_, ?_, rfl⟩
      simp only [storeField, god_known hFs hf, u16_idx hFs hf]
      by_cases hdvf : f.dv = true
      · simp only [hdvf, if_true, setE_eq_ok _ hl]
        simp [dvFold, dsfOf, hdvf]
      · simp [hdvf, dvFold, dsfOf])
  rw [e, hx]

theorem writeStoredFields_ok {F : List Bytes} {s : St} (hF : FieldsOK F s)
    (hdv : s.includeDV.length = F.length) (b : Batch) (hb : ∀ d ∈ b, ∀ f ∈ d, f.name ∈ F) :
    writeStoredFields s b =
      .ok ({ s with includeDV := dvFold F b.flatten s.includeDV },
           b.map (fun d => storedOut F.length (dsfOf F d))) := by
  obtain ⟨x, e, hx⟩ := foldlE_inv storeDoc
    (fun pre x => x = ({ s with includeDV := dvFold F pre.flatten s.includeDV },
                       pre.map (fun d => storedOut F.length (dsfOf F d)))) b (s, []) rfl
    (by
      intro pre d post x hdd hx
      subst hx
      have hFs : FieldsOK F { s with includeDV := dvFold F pre.flatten s.includeDV } := hF.of_eq rfl rfl
      refine ⟨_, ?_, rfl⟩
      have := storeFields_ok hFs (by simp [length_dvFold, hdv]) d (hb d (by simp [hdd]))
      simp only [storeDoc, this]
      simp [dvFold_append, hF.inv])
  unfold writeStoredFields
  rw [e, hx]

/-- the values stored for field `i` by the instances `I`, in input order -/
theorem dsfOf_get (F : List Bytes) (I : List FieldInst) (i : Nat) :
    (aget (dsfOf F I) i).getD [] = (I.filter (fun f => F.idxOf f.name == i && f.store)).map (·.value) := by
  have gen : ∀ (I : List FieldInst) (m : AMap Nat (List Bytes)),
      (aget (I.foldl (fun m f => if f.store then
        aset m (F.idxOf f.name) ((aget m (F.idxOf f.name)).getD [] ++ [f.value]) else m) m) i).getD [] =
      (aget m i).getD [] ++ (I.filter (fun f => F.idxOf f.name == i && f.store)).map (·.value) := by
    intro I
    induction I with
    | nil => intro m; simp
    | cons f r ih =>
      intro m
      rw [List.foldl_cons, ih]
      by_cases hs : f.store = true
      · by_cases e : F.idxOf f.name = i
        · subst e; simp [hs, aget_aset]
        · have e' : ¬ i = F.idxOf f.name := fun e' => e e'.symm
          simp [hs, aget_aset, e, e']
      · simp [hs]
  have := gen I []
  simpa [dsfOf, aget] using this

theorem dvFold_get (F : List Bytes) (I : List FieldInst) (dv : List Bool) (i : Nat) (hi : i < dv.length) :
    (dvFold F I dv).getD i false = (dv.getD i false || I.any (fun f => F.idxOf f.name == i && f.dv)) := by
  induction I generalizing dv with
  | nil => simp [dvFold]
  | cons f r ih =>
    have hcons : dvFold F (f :: r) dv = dvFold F r (if f.dv then dv.set (F.idxOf f.name) true else dv) := rfl
    rw [hcons, ih _ (by split <;> simpa using hi)]
    by_cases hd : f.dv = true
    · simp only [hd, if_true, getD_set, List.any_cons, Bool.and_true]
      by_cases e : F.idxOf f.name = i
      · subst e; simp [hi]
      · have : (F.idxOf f.name == i) = false := by simp [e]
        simp [e, this]
    · simp [hd]

end Ice.Model.Builder
