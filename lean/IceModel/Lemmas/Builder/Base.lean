import IceModel.Model.Builder
import IceModel.Lemmas.Sort
/-
  Generic facts used by the builder refinement: the Hoare rule for `foldlE`, association lists,
  `sort.Strings`, bitmap insertion, index lookups.
-/
namespace Ice.Model.Builder
open Ice Ice.Spec

/-! ### foldlE -/

/-- total-correctness rule for a fold whose body may fail: an invariant indexed by the processed
    prefix -/
theorem foldlE_inv {σ α : Type} (f : σ → α → M σ) (P : List α → σ → Prop) (l : List α) (s0 : σ)
    (h0 : P [] s0)
    (hstep : ∀ pre x post s, l = pre ++ x :: post → P pre s → ∃ s', f s x = .ok s' ∧ P (pre ++ [x]) s') :
    ∃ s', foldlE f s0 l = .ok s' ∧ P l s' := by
  suffices h : ∀ rest pre s, l = pre ++ rest → P pre s → ∃ s', foldlE f s rest = .ok s' ∧ P l s' from
    h l [] s0 rfl h0
  intro rest
  induction rest with
  | nil =>
    intro pre s hl hp
    refine ⟨s, rfl, ?_⟩
    simpa [hl] using hp
  | cons x r ih =>
    intro pre s hl hp
    obtain ⟨s', hf, hp'⟩ := hstep pre x r s hl hp
    obtain ⟨s'', hr, hp''⟩ := ih (pre ++ [x]) s' (by simp [hl]) hp'
    exact ⟨s'', by simp [foldlE, hf, hr], hp''⟩

theorem foldlE_ok_eq {σ α : Type} (f : σ → α → M σ) (g : σ → α → σ) (l : List α) (s0 : σ)
    (h : ∀ s x, x ∈ l → f s x = .ok (g s x)) : foldlE f s0 l = .ok (l.foldl g s0) := by
  induction l generalizing s0 with
  | nil => rfl
  | cons x r ih =>
    simp only [foldlE, h s0 x (by simp), List.foldl_cons]
    exact ih _ (fun s y hy => h s y (by simp [hy]))

theorem getE_eq_ok {α : Type} {l : List α} {i site : Nat} {a : α} (h : l[i]? = some a) :
    getE l i site = .ok a := by simp [getE, h]

theorem getE_ok_iff {α : Type} {l : List α} {i site : Nat} {a : α} :
    getE l i site = .ok a ↔ l[i]? = some a := by
  unfold getE; split <;> simp_all

theorem setE_eq_ok {α : Type} {l : List α} {i site : Nat} (a : α) (h : i < l.length) :
    setE l i a site = .ok (l.set i a) := by simp [setE, h]

/-! ### association lists -/

section amap
variable {κ ν : Type} [DecidableEq κ]

theorem aget_aset (m : AMap κ ν) (k k' : κ) (v : ν) :
    aget (aset m k v) k' = if k' = k then some v else aget m k' := by
  induction m with
  | nil => simp [aset, aget]
  | cons p r ih =>
    obtain ⟨a, b⟩ := p
    simp only [aset]
    split
    · next h => subst h; simp only [aget]; split <;> simp_all
    · next h =>
      simp only [aget, ih]
      by_cases h1 : k' = a
      · have : ¬ a = k := by intro e; exact h e.symm
        simp [h1, this]
      · simp [h1]

theorem aget_aset_self (m : AMap κ ν) (k : κ) (v : ν) : aget (aset m k v) k = some v := by
  simp [aget_aset]

theorem aget_aset_ne (m : AMap κ ν) {k k' : κ} (v : ν) (h : k' ≠ k) :
    aget (aset m k v) k' = aget m k' := by simp [aget_aset, h]

theorem aget_isSome_iff (m : AMap κ ν) (k : κ) : (aget m k).isSome ↔ k ∈ m.map (·.1) := by
  induction m with
  | nil => simp [aget]
  | cons p r ih =>
    obtain ⟨a, b⟩ := p
    simp only [aget, List.map_cons, List.mem_cons]
    split
    · simp_all
    · next h => simp [h, ih]

theorem map_fst_aset (m : AMap κ ν) (k : κ) (v : ν) :
    (aset m k v).map (·.1) = if k ∈ m.map (·.1) then m.map (·.1) else m.map (·.1) ++ [k] := by
  induction m with
  | nil => simp [aset]
  | cons p r ih =>
    obtain ⟨a, b⟩ := p
    simp only [aset]
    split
    · next h => subst h; simp
    · next h =>
      simp only [List.map_cons, ih, List.mem_cons, h, false_or]
      split <;> simp

/-- with unique keys, membership is lookup -/
theorem mem_iff_aget {m : AMap κ ν} (hn : (m.map (·.1)).Nodup) (k : κ) (v : ν) :
    (k, v) ∈ m ↔ aget m k = some v := by
  induction m with
  | nil => simp [aget]
  | cons p r ih =>
    obtain ⟨a, b⟩ := p
    simp only [List.map_cons, List.nodup_cons] at hn
    simp only [aget, List.mem_cons, Prod.mk.injEq]
    split
    · next h =>
      subst h
      constructor
      · rintro (⟨-, rfl⟩ | h)
        · rfl
        · exact absurd (List.mem_map_of_mem (f := (·.1)) h) hn.1
      · intro h; left; simp_all
    · next h => simp [h, ih hn.2]

end amap

/-! ### sort.Strings -/

theorem mem_insertS (x y : Bytes) (l : List Bytes) : y ∈ insertS x l ↔ y = x ∨ y ∈ l := by
  induction l with
  | nil => simp [insertS]
  | cons z r ih =>
    simp only [insertS]
    split
    · simp [ih]; grind
    · simp

theorem mem_sortS (x : Bytes) (l : List Bytes) : x ∈ sortS l ↔ x ∈ l := by
  induction l with
  | nil => simp [sortS]
  | cons a r ih =>
    have : sortS (a :: r) = insertS a (sortS r) := rfl
    rw [this, mem_insertS, ih]; simp

theorem length_insertS (x : Bytes) (l : List Bytes) : (insertS x l).length = l.length + 1 := by
  induction l with
  | nil => simp [insertS]
  | cons z r ih => simp only [insertS]; split <;> simp [ih]

theorem length_sortS (l : List Bytes) : (sortS l).length = l.length := by
  induction l with
  | nil => simp [sortS]
  | cons a r ih =>
    have : sortS (a :: r) = insertS a (sortS r) := rfl
    rw [this, length_insertS, ih]; simp

theorem asc_insertS (x : Bytes) (l : List Bytes) (h : Asc l) (hx : x ∉ l) : Asc (insertS x l) := by
  induction l with
  | nil => simp [insertS, Asc]
  | cons z r ih =>
    simp only [insertS]
    have hz := List.pairwise_cons.1 h
    have hxz : x ≠ z := by intro e; exact hx (by simp [e])
    have hxr : x ∉ r := by intro e; exact hx (by simp [e])
    split
    · next hgt =>
      refine List.pairwise_cons.2 ⟨?_, ih hz.2 hxr⟩
      intro b hb
      rcases (mem_insertS x b r).1 hb with rfl | hb
      · exact (Bytes.cmp_swap _ _).1 hgt
      · exact hz.1 b hb
    · next hngt =>
      have hlt : Bytes.cmp x z = .lt := by
        cases hc : Bytes.cmp x z with
        | lt => rfl
        | eq => exact absurd ((Bytes.cmp_eq_iff x z).1 hc) hxz
        | gt => exact absurd hc (hngt)
      refine List.pairwise_cons.2 ⟨?_, h⟩
      intro b hb
      rcases List.mem_cons.1 hb with rfl | hb
      · exact hlt
      · exact Bytes.cmp_lt_trans hlt (hz.1 b hb)

/-- sorting a duplicate-free list gives a strictly ascending list -/
theorem asc_sortS (l : List Bytes) (h : l.Nodup) : Asc (sortS l) := by
  induction l with
  | nil => simp [sortS, Asc]
  | cons a r ih =>
    have hn := List.nodup_cons.1 h
    exact asc_insertS a _ (ih hn.2) (by
      have := mem_sortS a r
      intro hm; exact hn.1 (this.1 hm))

theorem sortS_eq_sortDedup (l : List Bytes) (h : l.Nodup) : sortS l = sortDedup l :=
  asc_ext (asc_sortS l h) (asc_sortDedup l) (fun x => by rw [mem_sortS, mem_sortDedup])

theorem asc_nodup {l : List Bytes} (h : Asc l) : l.Nodup := by
  refine List.Pairwise.imp ?_ h
  intro a b hab e
  subst e
  exact Bytes.cmp_lt_irrefl a hab

/-! ### index lookups -/

theorem idxOf?_eq_ite (l : List Bytes) (a : Bytes) :
    l.idxOf? a = if a ∈ l then some (l.idxOf a) else none := by
  induction l with
  | nil => simp
  | cons x r ih =>
    simp only [List.idxOf?_cons, List.idxOf_cons, ih, List.mem_cons]
    by_cases h : x = a
    · simp [h]
    · have h' : ¬ a = x := fun e => h e.symm
      have hb : (x == a) = false := by simp [h]
      simp only [hb, h', false_or, cond_false]
      split <;> simp_all

theorem idxOf_getElem_nodup {l : List Bytes} (hn : l.Nodup) (i : Nat) (h : i < l.length) :
    l.idxOf l[i] = i := by
  induction l generalizing i with
  | nil => simp at h
  | cons x r ih =>
    have hn' := List.nodup_cons.1 hn
    cases i with
    | zero => simp
    | succ j =>
      have hj : j < r.length := by simpa using h
      simp only [List.getElem_cons_succ, List.idxOf_cons]
      have : (x == r[j]) = false := by
        simp only [beq_eq_false_iff_ne, ne_eq]
        intro e; exact hn'.1 (e ▸ List.getElem_mem _)
      simp [this, ih hn'.2 j hj]

/-! ### bitmaps -/

theorem addDoc_append (l : List Nat) (d : Nat) (h : ∀ x ∈ l, x < d) : addDoc d l = l ++ [d] := by
  induction l with
  | nil => rfl
  | cons x r ih =>
    have hx : x < d := h x (by simp)
    have h1 : ¬ d < x := by omega
    have h2 : ¬ d = x := by omega
    simp [addDoc, h1, h2, ih (fun y hy => h y (by simp [hy]))]

end Ice.Model.Builder
