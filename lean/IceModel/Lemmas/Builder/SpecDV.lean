import IceModel.Lemmas.Builder.SpecObs2
/-
  Doc values of `builtOf nc b` against `Spec.build nc mode b`.
-/
namespace Ice.Model.Builder
open Ice Ice.Spec

theorem dvFlag_eq {b : Batch} {i : Nat} (hi : i < (FL b).length) :
    dvFlag (FL b) b i = dvFlagOf b (fname (FL b) i) := by
  unfold dvFlag dvFlagOf
  rw [List.any_flatten]
  have : ∀ (c : Batch), (∀ d ∈ c, d ∈ b) →
      c.any (fun d => d.any (fun f => (FL b).idxOf f.name == i && f.dv)) =
      c.any (fun d => d.any (fun f => f.name == fname (FL b) i && f.dv)) := by
    intro c
    induction c with
    | nil => intro _; rfl
    | cons d r ih =>
      intro hc
      simp only [List.any_cons]
      rw [any_idx_eq (hc d (by simp)) hi (fun f => f.dv), ih (fun d' hd' => hc d' (by simp [hd']))]
  exact this b (fun _ h => h)

/-- the documents of the postings of `(i, t)`: those that have the term in the field -/
theorem mem_docs_entriesOf (nc : Bytes → Nat → Nat) (F : List Bytes) (b : Batch) (i : Nat) (t : Bytes)
    (n : Nat) : n ∈ (entriesOf nc F b i t).map (·.doc) ↔
      ∃ d, b[n]? = some d ∧ (aget (lget (rollTFs false F d) i) t).isSome := by
  unfold entriesOf
  simp only [List.mem_map, List.mem_flatMap, Option.mem_toList, postingIn, Option.map_eq_some_iff]
  constructor
  · rintro ⟨p, ⟨x, hx, tf, htf, rfl⟩, rfl⟩
    exact ⟨x.1, List.mem_zipIdx_iff_getElem?.1 hx, by simp [htf]⟩
  · rintro ⟨d, hd, hs⟩
    obtain ⟨tf, htf⟩ := Option.isSome_iff_exists.1 hs
    exact ⟨_, ⟨(d, n), List.mem_zipIdx_iff_getElem?.2 hd, tf, htf, rfl⟩, rfl⟩

theorem docs_nat_asc {α : Type} (o : α × Nat → Option Nat) (hdoc : ∀ x d, o x = some d → d = x.2)
    (l : List α) : ∀ k, ((l.zipIdx k).flatMap (fun x => (o x).toList)).Pairwise (· < ·) ∧
      ∀ d ∈ (l.zipIdx k).flatMap (fun x => (o x).toList), k ≤ d ∧ d < k + l.length := by
  induction l with
  | nil => intro k; simp
  | cons a r ih =>
    intro k
    obtain ⟨h1, h2⟩ := ih (k + 1)
    simp only [List.zipIdx_cons, List.flatMap_cons, List.length_cons]
    cases ho : o (a, k) with
    | none =>
      simp only [Option.toList_none, List.nil_append]
      exact ⟨h1, fun d hd => by have := h2 d hd; omega⟩
    | some e =>
      have he := hdoc _ _ ho
      simp only at he
      simp only [Option.toList_some, List.singleton_append, List.pairwise_cons, List.mem_cons]
      refine ⟨⟨fun d hd => by have := h2 d hd; omega, h1⟩, ?_⟩
      rintro d (rfl | hd)
      · omega
      · have := h2 d hd; omega

theorem docs_entriesOf_asc (nc : Bytes → Nat → Nat) (F : List Bytes) (b : Batch) (i : Nat) (t : Bytes) :
    ((entriesOf nc F b i t).map (·.doc)).Pairwise (· < ·) ∧
    ∀ d ∈ (entriesOf nc F b i t).map (·.doc), d < b.length := by
  unfold entriesOf
  rw [map_flatMap_toList]
  have := docs_nat_asc (fun x : Doc × Nat => (postingIn nc F i t x).map (·.doc))
    (by
      intro x d hd
      simp only [postingIn, Option.map_map, Option.map_eq_some_iff] at hd
      obtain ⟨tf, _, rfl⟩ := hd
      rfl) b 0
  exact ⟨this.1, fun d hd => by have := this.2 d hd; omega⟩

theorem pairwise_lt_nodup {l : List Nat} (h : l.Pairwise (· < ·)) : l.Nodup := by
  refine List.Pairwise.imp ?_ h
  intro a b hab e; omega

/-- the terms of field number `i` in document `d`, ascending -/
def docTerms (F : List Bytes) (d : Doc) (i : Nat) : List Bytes :=
  sortDedup (((d.filter (fun f => f.name == fname F i)).flatMap (·.terms)).map (·.term))

theorem dtm_row (nc : Bytes → Nat → Nat) (b : Batch) {i : Nat} (hi : i < (FL b).length) (n : Nat) :
    lget (dtmOf b.length (keysOf (FL b) b i) (fun t => (entriesOf nc (FL b) b i t).map (·.doc))) n =
      match b[n]? with
      | some d => docTerms (FL b) d i
      | none => [] := by
  rw [dtmOf_get _ _ _ (fun t _ => pairwise_lt_nodup (docs_entriesOf_asc nc (FL b) b i t).1)
    (fun t _ => (docs_entriesOf_asc nc (FL b) b i t).2)]
  cases hn : b[n]? with
  | none =>
    rw [List.filter_eq_nil_iff]
    intro t _
    simp only [decide_eq_true_eq, mem_docs_entriesOf, hn]
    simp
  | some d =>
    have hd : d ∈ b := List.mem_of_getElem? hn
    simp only
    apply asc_ext (List.Pairwise.filter _ (asc_sortDedup _)) (asc_sortDedup _)
    intro t
    simp only [List.mem_filter, decide_eq_true_eq, mem_docs_entriesOf, hn, Option.some.injEq,
      exists_eq_left', docTerms, mem_sortDedup]
    have hocc := occs_eq hd hi t
    have hpres : (aget (lget (rollTFs false (FL b) d) i) t).isSome ↔
        t ∈ ((d.filter (fun f => f.name == fname (FL b) i)).flatMap (·.terms)).map (·.term) := by
      rw [(rollTFs_ok (FL b) d i hi).get t, hocc]
      constructor
      · intro h
        split at h
        · simp at h
        · next hne =>
          obtain ⟨o, ho⟩ := List.exists_mem_of_ne_nil _ hne
          simp only [List.mem_filter, beq_iff_eq] at ho
          exact List.mem_map.2 ⟨o, ho.1, ho.2⟩
      · intro h
        obtain ⟨o, ho, hto⟩ := List.mem_map.1 h
        rw [if_neg]
        · simp
        · intro e
          have := List.filter_eq_nil_iff.1 e o ho
          simp [hto] at this
    constructor
    · rintro ⟨_, h⟩; exact hpres.1 h
    · intro h
      refine ⟨?_, hpres.2 h⟩
      rw [← cnt_pos_iff]
      have h1 : 0 < cnt (evsI (FL b) d) i t := by
        rw [cnt_eq_occs, hocc]
        obtain ⟨o, ho, hto⟩ := List.mem_map.1 h
        apply List.length_pos_of_mem (a := o)
        simp [ho, hto]
      have := cnt_le_flatten (FL b) b d hd i t
      omega

/-- what the specification says about doc values, in terms of `docTerms` -/
theorem spec_dvOf (nc : Bytes → Nat → Nat) (mode : Nat) (b : Batch) {i : Nat} (hi : i < (FL b).length)
    (n : Nat) : dvOf (build nc mode b) n (fname (FL b) i) =
      if dvFlagOf b (fname (FL b) i) then
        (match b[n]? with
         | some d => docTerms (FL b) d i
         | none => [])
      else [] := by
  unfold dvOf
  show (match (b.map (rollDoc nc (dvFlagOf b)))[n]? with
    | none => []
    | some d => _) = _
  rw [List.getElem?_map]
  cases hn : b[n]? with
  | none => simp
  | some d =>
    simp only [Option.map_some]
    rw [field?_rollDoc]
    by_cases hf : fname (FL b) i ∈ d.map (·.name)
    · rw [if_pos hf]
      simp only [rollField, map_term_rollTerms]
      by_cases hflag : dvFlagOf b (fname (FL b) i) = true
      · simp only [hflag, Bool.true_and, if_true, docTerms]
        split
        · rfl
        · next hemp =>
          have : rollTerms (fname (FL b) i)
              ((d.filter (fun f => f.name == fname (FL b) i)).flatMap (·.terms)) = [] := by
            simpa using hemp
          rw [← map_term_rollTerms (fname (FL b) i), this]; rfl
      · simp [hflag]
    · rw [if_neg hf]
      have : d.filter (fun f => f.name == fname (FL b) i) = [] := by
        rw [List.filter_eq_nil_iff]
        intro f hfd hn'
        apply hf
        simp only [List.mem_map]
        exact ⟨f, hfd, by simpa using hn'⟩
      simp [docTerms, this, sortDedup]

theorem dvOf_builtOf (nc : Bytes → Nat → Nat) (mode : Nat) (b : Batch) (n : Nat) (f : Bytes) :
    (builtOf nc b).dvOf n f = dvOf (build nc mode b) n f := by
  unfold Built.dvOf
  rw [view_builtOf]
  by_cases hf : f ∈ FL b
  · rw [if_pos hf]
    have hi := List.idxOf_lt_length_of_mem hf
    have hfn : fname (FL b) ((FL b).idxOf f) = f := fname_idxOf hf
    have hspec := spec_dvOf nc mode b hi n
    have hflagEq : dvFlag (FL b) b ((FL b).idxOf f) = dvFlagOf b f := by rw [dvFlag_eq hi, hfn]
    rw [hfn] at hspec
    rw [hspec, ← hflagEq]
    simp only [viewOf]
    cases hflag : dvFlag (FL b) b ((FL b).idxOf f) with
    | false => simp [dvOut]
    | true =>
      have := dvOut_get (dtmOf b.length (keysOf (FL b) b ((FL b).idxOf f))
        (fun t => (entriesOf nc (FL b) b ((FL b).idxOf f) t).map (·.doc))) n
      rw [dtm_row nc b hi n] at this
      rw [if_pos rfl]
      exact this
  · rw [if_neg hf]
    unfold dvOf
    show [] = match (b.map (rollDoc nc (dvFlagOf b)))[n]? with
      | none => []
      | some d => _
    rw [List.getElem?_map]
    cases hn : b[n]? with
    | none => rfl
    | some d =>
      have hd : d ∈ b := List.mem_of_getElem? hn
      simp only [Option.map_some]
      rw [field?_none_of_not_FL nc _ hd hf]

end Ice.Model.Builder
