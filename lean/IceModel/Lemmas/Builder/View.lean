import IceModel.Lemmas.Builder.Write
/-
  The postings list of one (field, term) as it sits in the windows after pass 2 (`termView_ok`),
  and its resolution back to field names.
-/
namespace Ice.Model.Builder
open Ice Ice.Spec

/-- the posting of term `t` in field `i` of document `x.1` (number `x.2`), if any -/
def postingIn (nc : Bytes → Nat → Nat) (F : List Bytes) (i : Nat) (t : Bytes) (x : Doc × Nat) :
    Option Posting :=
  (aget (lget (rollTFs false F x.1) i) t).map fun tf =>
    { doc := x.2, freq := tf.freq, norm := nc (fname F i) (nget (rollLens F x.1) i),
      locs := tf.locs.map (resolveLoc (fname F i)) }

/-- the postings of term `t` in field `i`: independent of the map order -/
def entriesOf (nc : Bytes → Nat → Nat) (F : List Bytes) (b : Batch) (i : Nat) (t : Bytes) : List Posting :=
  b.zipIdx.flatMap (fun x => (postingIn nc F i t x).toList)

theorem flatMap_toList_docs {α : Type} (o : α × Nat → Option Emit)
    (hdoc : ∀ x e, o x = some e → e.doc = x.2) (l : List α) :
    ∀ k, (((l.zipIdx k).flatMap (fun x => (o x).toList)).map (·.doc)).Pairwise (· < ·) ∧
      ∀ d ∈ ((l.zipIdx k).flatMap (fun x => (o x).toList)).map (·.doc), k ≤ d ∧ d < k + l.length := by
  induction l with
  | nil => intro k; simp
  | cons a r ih =>
    intro k
    obtain ⟨h1, h2⟩ := ih (k + 1)
    simp only [List.zipIdx_cons, List.flatMap_cons, List.map_append, List.length_cons]
    cases ho : o (a, k) with
    | none =>
      simp only [Option.toList_none, List.map_nil, List.nil_append]
      exact ⟨h1, fun d hd => by have := h2 d hd; omega⟩
    | some e =>
      have he := hdoc _ _ ho
      simp only at he
      simp only [Option.toList_some, List.map_cons, List.map_nil, List.singleton_append,
        List.pairwise_cons, List.mem_cons]
      refine ⟨⟨fun d hd => by have := h2 d hd; omega, h1⟩, ?_⟩
      rintro d (rfl | hd)
      · omega
      · have := h2 d hd; omega

theorem map_flatMap_toList {α β γ : Type} (l : List α) (o : α → Option β) (g : β → γ) :
    (l.flatMap (fun x => (o x).toList)).map g = l.flatMap (fun x => ((o x).map g).toList) := by
  induction l with
  | nil => rfl
  | cons a r ih => cases h : o a <;> simp [h, ih]

section view
variable {F : List Bytes} {b : Batch} {s1 s : St} (nc : Bytes → Nat → Nat) (π : Order)
  (hF : FieldsOK F s1)
  (hD : DictInv F.length (evsI F b.flatten) s1.dicts s1.dictKeys s1.numTerms s1.numLocs s1.numTerms.length)
  (hπ : PermOK π)
  (hval : ∀ d ∈ b, ∀ f ∈ d, ∀ o ∈ f.terms, ∀ l ∈ o.locs, l.field = [] ∨ l.field ∈ F)
  (hS : Sim s1 s (applyAll (Abs.empty s1.numTerms.length) (allEmits false nc π F s1.dicts b)))

include hD in
theorem exists_doc_of_dget {i : Nat} {t : Bytes} {v : Nat} (hv : dget s1.dicts i t = some v) :
    ∃ d ∈ b, (aget (lget (rollTFs false F d) i) t).isSome := by
  have hi := lt_of_dget hD hv
  have hc : 0 < cnt (evsI F b.flatten) i t := (hD.dom i t hi).1 (by simp [hv])
  rw [← cnt_flatten] at hc
  have : ∃ d ∈ b, 0 < cnt (evsI F d) i t := by
    by_cases h : ∃ d ∈ b, 0 < cnt (evsI F d) i t
    · exact h
    · have hz : ∀ x ∈ b.map (fun d => cnt (evsI F d) i t), x = 0 := by
        intro x hx
        simp only [List.mem_map] at hx
        obtain ⟨d, hd, rfl⟩ := hx
        by_cases h0 : cnt (evsI F d) i t = 0
        · exact h0
        · exact absurd ⟨d, hd, by omega⟩ h
      have : (b.map (fun d => cnt (evsI F d) i t)).sum = 0 := by
        generalize b.map (fun d => cnt (evsI F d) i t) = l at hz
        induction l with
        | nil => rfl
        | cons a r ih =>
          rw [List.sum_cons, hz a (by simp), ih (fun x hx => hz x (by simp [hx]))]
      omega
  obtain ⟨d, hd, hc⟩ := this
  refine ⟨d, hd, ?_⟩
  have hr := rollTFs_ok F d i hi
  rw [hr.get t, if_neg]
  · simp
  · intro e; rw [cnt_eq_occs, e] at hc; simp at hc

include hF hD hπ hval hS in
theorem termView_ok {i : Nat} {t : Bytes} {v : Nat} (hv : dget s1.dicts i t = some v) :
    TermView s (s1.dicts.getD i []) b.length t
      (esel (allEmits false nc π F s1.dicts b) (v - 1)) := by
  have htf := tfsOK_of_valid hD hval
  have hsel := esel_allEmits nc π hD hπ hv htf
  obtain ⟨hv1, hv2⟩ := hD.rng i t v hv
  have hp : v - 1 < s1.numTerms.length := by omega
  have hpL : v - 1 < s1.numLocs.length := by rw [hD.lenL]; exact hp
  have hdocs := flatMap_toList_docs
    (fun x : Doc × Nat => (aget (lget (rollTFs false F x.1) i) t).map
      (fun tf => mkEmit nc F s1.dicts x.2 i (rollLens F x.1) (t, tf)))
    (by
      intro x e he
      simp only [Option.map_eq_some_iff] at he
      obtain ⟨tf, _, rfl⟩ := he
      rfl) b 0
  have hfit := fits_all nc π hD hπ hval
  have hsp := applyAll_spec (allEmits false nc π F s1.dicts b) (Abs.empty s1.numTerms.length)
    (by intro e he; simpa [Abs.empty] using hfit.pid e he) (by simp [Abs.empty]) (by simp [Abs.empty])
    (v - 1)
  obtain ⟨haf, hal, hpost⟩ := hsp
  rw [show (Abs.empty s1.numTerms.length).af = List.replicate _ [] from rfl, lget_replicate_nil,
    List.nil_append] at haf
  rw [show (Abs.empty s1.numTerms.length).al = List.replicate _ [] from rfl, lget_replicate_nil,
    List.nil_append] at hal
  rw [show (Abs.empty s1.numTerms.length).post = List.replicate _ [] from rfl, lget_replicate_nil]
    at hpost
  refine ⟨?_, ?_, ?_, ?_, ?_⟩
  · rw [hsel]
    obtain ⟨d, hd, hsome⟩ := exists_doc_of_dget hD hv
    obtain ⟨k, hk⟩ := List.getElem?_of_mem hd
    obtain ⟨tf, htf'⟩ := Option.isSome_iff_exists.1 hsome
    intro hnil
    have hmem : (d, k) ∈ b.zipIdx := List.mem_zipIdx_iff_getElem?.2 hk
    have := List.flatMap_eq_nil_iff.1 hnil (d, k) hmem
    simp [htf'] at this
  · rw [hsel]; exact hdocs.1
  · intro e he
    have := hdocs.2 e.doc (by rw [← hsel]; exact List.mem_map_of_mem he)
    omega
  · intro e he
    rw [hsel] at he
    simp only [List.mem_flatMap, Option.mem_toList, Option.map_eq_some_iff] at he
    obtain ⟨x, _, tf, _, rfl⟩ := he
    simp [mkEmit]
  · have hpP : v - 1 < s.postings.length := by
      rw [hS.post, (applyAll_lengths _ _).1]; simp [Abs.empty, hp]
    have hwf := hS.fn.win (v - 1) hp
    have hwl := hS.loc.win (v - 1) hpL
    refine ⟨v, v - 1, _, _, _, hv, by simp [pidOf]; omega, List.getElem?_eq_getElem hpP, ?_, hwf, hwl,
      by rw [hS.core.nT]; exact hp, ?_, ?_⟩
    · have : s.postings[v - 1] = lget s.postings (v - 1) := by
        simp [lget, List.getD_eq_getElem?_getD, List.getElem?_eq_getElem hpP]
      rw [this, hS.post, hpost]
      have := foldl_addDoc ((esel (allEmits false nc π F s1.dicts b) (v - 1)).map (·.doc)) []
        (by rw [List.nil_append, hsel]; exact hdocs.1)
      rw [List.foldl_map] at this
      simpa using this
    · intro k
      rw [hS.fn.get? hp hwf k, haf]
    · intro lo m hm
      rw [hS.loc.sub? hpL hwl lo m (by rw [hal]; exact hm), hal]

end view

/-! ### resolving field ids back to names (posting.go) -/

theorem resolveILoc_ok {F : List Bytes} {i : Nat} (hi : i < F.length) (l : Loc)
    (hl : l.field = [] ∨ l.field ∈ F) :
    resolveILoc F (toILoc F i l) = .ok (resolveLoc (fname F i) l) := by
  unfold resolveILoc toILoc resolveLoc
  by_cases h : l.field = []
  · simp [h, fname, List.getD_eq_getElem?_getD, List.getElem?_eq_getElem hi]
  · have hm : l.field ∈ F := hl.resolve_left h
    have hlt := List.idxOf_lt_length_of_mem hm
    have : F[F.idxOf l.field]? = some l.field := by
      rw [List.getElem?_eq_getElem hlt]; simp
    simp [h, this]

theorem mapE_map_ok {α β γ : Type} (f : β → M γ) (h : α → β) (g : α → γ) (l : List α)
    (hh : ∀ x ∈ l, f (h x) = .ok (g x)) : mapE f (l.map h) = .ok (l.map g) := by
  induction l with
  | nil => rfl
  | cons a r ih =>
    simp only [List.map_cons, mapE, hh a (by simp), ih (fun x hx => hh x (by simp [hx]))]

theorem resolveEntry_ok {F : List Bytes} {D : List (AMap Bytes Nat)} (nc : Bytes → Nat → Nat) {i : Nat}
    (hi : i < F.length) (n : Nat) (lens : List Nat) (t : Bytes) (tf : TokFreq)
    (hl : ∀ l ∈ tf.locs, l.field = [] ∨ l.field ∈ F) :
    resolveEntry F (toRaw (mkEmit nc F D n i lens (t, tf))) =
      .ok { doc := n, freq := tf.freq, norm := nc (fname F i) (nget lens i),
            locs := tf.locs.map (resolveLoc (fname F i)) } := by
  unfold resolveEntry
  have : mapE (resolveILoc F) (toRaw (mkEmit nc F D n i lens (t, tf))).locs =
      .ok (tf.locs.map (resolveLoc (fname F i))) :=
    mapE_map_ok _ _ _ _ (fun l hlm => resolveILoc_ok hi l (hl l hlm))
  rw [this]
  simp [toRaw, mkEmit]

end Ice.Model.Builder
