import IceModel.Lemmas.Builder.SpecObs
/-
  Statistics, stored values and doc values of `builtOf nc b` against `Spec.build nc mode b`.
-/
namespace Ice.Model.Builder
open Ice Ice.Spec

/-! ### statistics -/

theorem freqSum_flatten (F : List Bytes) (b : Batch) (i : Nat) :
    freqSum F b.flatten i = (b.map (fun d => freqSum F d i)).sum := by
  induction b with
  | nil => simp [freqSum]
  | cons d r ih =>
    simp only [List.flatten_cons, List.map_cons, List.sum_cons, ← ih]
    simp [freqSum, List.sum_append]

theorem isSome_field? (nc : Bytes → Nat → Nat) (g : Bytes → Bool) {b : Batch} {d : Doc} (hd : d ∈ b)
    {i : Nat} (hi : i < (FL b).length) :
    ((rollDoc nc g d).field? (fname (FL b) i)).isSome = d.any (fun f => (FL b).idxOf f.name == i) := by
  have h2 := any_idx_eq hd hi (fun _ => true)
  simp only [Bool.and_true] at h2
  rw [h2, field?_rollDoc]
  by_cases hf : fname (FL b) i ∈ d.map (·.name)
  · rw [if_pos hf]
    simp only [List.mem_map] at hf
    obtain ⟨f, hfd, hn⟩ := hf
    symm
    simp only [Option.isSome_some, List.any_eq_true, beq_iff_eq]
    exact ⟨f, hfd, hn⟩
  · rw [if_neg hf]
    symm
    simp only [Option.isSome_none, Bool.eq_false_iff, ne_eq, List.any_eq_true, beq_iff_eq, not_exists,
      not_and]
    intro f hfd hn
    exact hf (by simp only [List.mem_map]; exact ⟨f, hfd, hn⟩)

theorem fieldDocs_builtOf (nc : Bytes → Nat → Nat) (mode : Nat) (b : Batch) :
    (builtOf nc b).fieldDocs = (build nc mode b).fieldDocs := by
  show (List.range (FL b).length).map (docCnt (FL b) b) =
    (FL b).map (fun f => (b.map (rollDoc nc (dvFlagOf b))).countP (fun d => (d.field? f).isSome))
  conv => rhs; rw [← range_map_fname (FL b)]
  rw [List.map_map]
  apply List.map_congr_left
  intro i hi
  have hi' := List.mem_range.1 hi
  simp only [Function.comp, docCnt, List.countP_map]
  apply List.countP_congr
  intro d hd
  simp only [Function.comp]
  rw [isSome_field? nc _ hd hi']

theorem fieldFreqs_builtOf (nc : Bytes → Nat → Nat) (mode : Nat) (b : Batch) :
    (builtOf nc b).fieldFreqs = (build nc mode b).fieldFreqs := by
  show (List.range (FL b).length).map (freqSum (FL b) b.flatten) =
    (FL b).map (fun f => ((b.map (rollDoc nc (dvFlagOf b))).map (fun d => match d.field? f with
                                                         | some af => af.length | none => 0)).sum)
  conv => rhs; rw [← range_map_fname (FL b)]
  rw [List.map_map]
  apply List.map_congr_left
  intro i hi
  have hi' := List.mem_range.1 hi
  simp only [Function.comp, freqSum_flatten, List.map_map]
  congr 1
  apply List.map_congr_left
  intro d hd
  simp only [Function.comp]
  rw [freqSum_eq hd hi', field?_rollDoc]
  by_cases hf : fname (FL b) i ∈ d.map (·.name)
  · rw [if_pos hf]; rfl
  · rw [if_neg hf]
    have : d.filter (fun f => f.name == fname (FL b) i) = [] := by
      rw [List.filter_eq_nil_iff]
      intro f hfd hn
      apply hf
      simp only [List.mem_map]
      exact ⟨f, hfd, by simpa using hn⟩
    simp [this]

/-! ### stored values -/

theorem stored_doc (nc : Bytes → Nat → Nat) (g : Bytes → Bool) {b : Batch} (hlen : (FL b).length ≤ 65535)
    {d : Doc} (hd : d ∈ b) :
    (storedOut (FL b).length (dsfOf (FL b) d)).map (fun p => ((FL b).getD p.1 [], p.2)) =
      (FL b).flatMap (fun f => match (rollDoc nc g d).field? f with
                               | some af => af.stored.map (fun v => (f, v))
                               | none => []) := by
  conv => rhs; rw [← range_map_fname (FL b)]
  rw [List.flatMap_map]
  unfold storedOut
  rw [List.map_flatMap]
  apply flatMap_congr'
  intro i hi
  have hi' := List.mem_range.1 hi
  have hu : u16 i = i := u16_lt i (by omega)
  have hget := dsfOf_get (FL b) d i
  have hfilt : d.filter (fun f => (FL b).idxOf f.name == i && f.store) =
      d.filter (fun f => f.name == fname (FL b) i && f.store) := by
    apply List.filter_congr
    intro f hfd
    have hiff := idx_eq_iff (FL_nodup b) (name_mem_FL hd hfd) hi'
    by_cases e : f.name = fname (FL b) i
    · have h1 : ((FL b).idxOf f.name == i) = true := beq_iff_eq.2 (hiff.2 e)
      have h2 : (f.name == fname (FL b) i) = true := beq_iff_eq.2 e
      rw [h1, h2]
    · have h1 : ((FL b).idxOf f.name == i) = false := beq_eq_false_iff_ne.2 (fun h => e (hiff.1 h))
      have h2 : (f.name == fname (FL b) i) = false := beq_eq_false_iff_ne.2 e
      rw [h1, h2]
  have hR : (match (rollDoc nc g d).field? (fname (FL b) i) with
      | some af => af.stored.map (fun v => (fname (FL b) i, v))
      | none => []) =
      ((d.filter (fun f => f.name == fname (FL b) i && f.store)).map (·.value)).map
        (fun v => (fname (FL b) i, v)) := by
    rw [field?_rollDoc]
    by_cases hf : fname (FL b) i ∈ d.map (·.name)
    · rw [if_pos hf]
      simp only [rollField, List.filter_filter]
      congr 2
      apply List.filter_congr
      intro f _
      exact Bool.and_comm _ _
    · rw [if_neg hf]
      have : d.filter (fun f => f.name == fname (FL b) i && f.store) = [] := by
        rw [List.filter_eq_nil_iff]
        intro f hfd hn
        apply hf
        simp only [List.mem_map]
        simp only [Bool.and_eq_true, beq_iff_eq] at hn
        exact ⟨f, hfd, hn.1⟩
      simp [this]
  rw [hR, hu, ← hfilt, ← hget]
  cases hg : aget (dsfOf (FL b) d) i with
  | none => rfl
  | some vals => simp [fname, Function.comp_def]

theorem stored_builtOf (nc : Bytes → Nat → Nat) (mode : Nat) (b : Batch) (hlen : (FL b).length ≤ 65535)
    (n : Nat) : (builtOf nc b).storedOf n = stored (build nc mode b) n := by
  unfold Built.storedOf stored
  show ((b.map _).getD n []) = match (b.map (rollDoc nc (dvFlagOf b)))[n]? with
    | none => []
    | some d => (FL b).flatMap _
  simp only [List.getD_eq_getElem?_getD, List.getElem?_map]
  cases hn : b[n]? with
  | none => rfl
  | some d =>
    have hd : d ∈ b := List.mem_of_getElem? hn
    simp only [Option.map_some, Option.getD_some]
    exact stored_doc nc (dvFlagOf b) hlen hd

end Ice.Model.Builder
