import IceModel.Lemmas.Builder.Pass2
/-
  What the roll-up of one document (new.go:472-514) computes, in terms of the document's
  (field id, term occurrence) events.
-/
namespace Ice.Model.Builder
open Ice Ice.Spec

/-- the occurrences of term `t` in field `i`, in input order -/
def occs (E : List (Nat × TermOcc)) (i : Nat) (t : Bytes) : List TermOcc :=
  (E.filter (fun e => e.1 == i && e.2.term == t)).map (·.2)

/-- the rolled-up `tokenFreq` of a list of occurrences -/
def tfOf (os : List TermOcc) : TokFreq :=
  { freq := (os.map (·.freq)).sum, locs := os.flatMap (·.locs) }

theorem occs_append (E E' : List (Nat × TermOcc)) (i : Nat) (t : Bytes) :
    occs (E ++ E') i t = occs E i t ++ occs E' i t := by simp [occs]

theorem occs_single (i j : Nat) (o : TermOcc) (t : Bytes) :
    occs [(j, o)] i t = if j = i ∧ o.term = t then [o] else [] := by
  simp only [occs, List.filter_cons, List.filter_nil]
  by_cases h : j = i ∧ o.term = t
  · simp [h]
  · rw [if_neg h]
    have : ((j == i) && (o.term == t)) = false := by
      simp only [Bool.and_eq_false_iff, beq_eq_false_iff_ne, ne_eq]
      by_cases h1 : j = i
      · right; intro h2; exact h ⟨h1, h2⟩
      · left; exact h1
    simp [this]

theorem cnt_eq_occs (E : List (Nat × TermOcc)) (i : Nat) (t : Bytes) :
    cnt E i t = (occs E i t).length := by
  simp [cnt, occs, List.countP_eq_length_filter]

theorem lsum_eq_occs (E : List (Nat × TermOcc)) (i : Nat) (t : Bytes) :
    lsum E i t = (tfOf (occs E i t)).locs.length := by
  induction E with
  | nil => simp [lsum, occs, tfOf]
  | cons e r ih =>
    have h1 : lsum (e :: r) i t = lsum [e] i t + lsum r i t := by rw [← lsum_append]; rfl
    have h2 : occs (e :: r) i t = occs [e] i t ++ occs r i t := by rw [← occs_append]; rfl
    obtain ⟨j, o⟩ := e
    rw [h1, h2, ih, lsum_single, occs_single]
    by_cases h : j = i ∧ o.term = t
    · simp [h, tfOf]
    · simp [h, tfOf]

structure RollOK (E : List (Nat × TermOcc)) (i : Nat) (m : AMap Bytes TokFreq) : Prop where
  nodup : (m.map (·.1)).Nodup
  get : ∀ t, aget m t = if occs E i t = [] then none else some (tfOf (occs E i t))

theorem tfOf_snoc (os : List TermOcc) (o : TermOcc) :
    tfOf (os ++ [o]) = { freq := (tfOf os).freq + o.freq, locs := (tfOf os).locs ++ o.locs } := by
  simp [tfOf, List.sum_append]

theorem visitTerm_ok {E : List (Nat × TermOcc)} {i : Nat} {m : AMap Bytes TokFreq}
    (h : RollOK E i m) (fname : Bytes) (o : TermOcc) :
    RollOK (E ++ [(i, o)]) i (visitTerm false fname m o) := by
  have hocc : ∀ t, occs (E ++ [(i, o)]) i t = occs E i t ++ if o.term = t then [o] else [] := by
    intro t; rw [occs_append, occs_single]; simp
  unfold visitTerm
  cases hg : aget m o.term with
  | some tf =>
    have hne : occs E i o.term ≠ [] := by
      intro e; have := h.get o.term; rw [hg, e] at this; simp at this
    have htf : tf = tfOf (occs E i o.term) := by
      have := h.get o.term; rw [hg, if_neg hne] at this; injection this
    have hk : o.term ∈ m.map (·.1) := (aget_isSome_iff m o.term).1 (by simp [hg])
    refine ⟨?_, ?_⟩
    · simp only [Bool.false_eq_true, if_false]
      rw [map_fst_aset, if_pos hk]; exact h.nodup
    · intro t
      simp only [Bool.false_eq_true, if_false]
      rw [aget_aset, hocc]
      by_cases e : t = o.term
      · subst e
        simp only [if_true]
        rw [if_neg (by simp), htf, tfOf_snoc]
      · have e' : ¬ o.term = t := fun e' => e e'.symm
        simp only [e, e', if_false, List.append_nil]
        exact h.get t
  | none =>
    have he : occs E i o.term = [] := by
      have := h.get o.term; rw [hg] at this
      by_cases e : occs E i o.term = []
      · exact e
      · rw [if_neg e] at this; simp at this
    have hk : o.term ∉ m.map (·.1) := by
      intro hk; have := (aget_isSome_iff m o.term).2 hk; simp [hg] at this
    refine ⟨?_, ?_⟩
    · simp only
      rw [map_fst_aset, if_neg hk, List.nodup_append]
      refine ⟨h.nodup, by simp, ?_⟩
      intro a ha b hb
      simp only [List.mem_singleton] at hb
      subst hb; intro e; subst e; exact hk ha
    · intro t
      simp only
      rw [aget_aset, hocc]
      by_cases e : t = o.term
      · subst e
        simp [he, tfOf]
      · have e' : ¬ o.term = t := fun e' => e e'.symm
        simp only [e, e', if_false, List.append_nil]
        exact h.get t

theorem visitTerms_ok (fname : Bytes) (i : Nat) (os : List TermOcc) :
    ∀ (E : List (Nat × TermOcc)) (m : AMap Bytes TokFreq), RollOK E i m →
      RollOK (E ++ os.map (fun o => (i, o))) i (os.foldl (visitTerm false fname) m) := by
  induction os with
  | nil => intro E m h; simpa using h
  | cons o r ih =>
    intro E m h
    have := ih _ _ (visitTerm_ok h fname o)
    simpa [List.append_assoc] using this

theorem occs_other (E : List (Nat × TermOcc)) (os : List TermOcc) {i j : Nat} (h : j ≠ i) (t : Bytes) :
    occs (E ++ os.map (fun o => (j, o))) i t = occs E i t := by
  rw [occs_append]
  have : occs (os.map (fun o => (j, o))) i t = [] := by
    simp only [occs, List.map_eq_nil_iff, List.filter_eq_nil_iff, List.mem_map]
    rintro e ⟨o, _, rfl⟩
    simp [h]
  rw [this, List.append_nil]

theorem RollOK.other {E : List (Nat × TermOcc)} {i : Nat} {m : AMap Bytes TokFreq} (h : RollOK E i m)
    (os : List TermOcc) {j : Nat} (hj : j ≠ i) : RollOK (E ++ os.map (fun o => (j, o))) i m :=
  ⟨h.nodup, fun t => by rw [occs_other E os hj t]; exact h.get t⟩

theorem rollTFs_ok_gen (F : List Bytes) (I : List FieldInst) :
    ∀ (E : List (Nat × TermOcc)) (tfs : List (AMap Bytes TokFreq)),
      (∀ i, i < tfs.length → RollOK E i (lget tfs i)) →
      ∀ i, i < tfs.length → RollOK (E ++ evsI F I) i
        (lget (I.foldl (fun tfs f => tfs.set (F.idxOf f.name)
          (f.terms.foldl (visitTerm false f.name) (lget tfs (F.idxOf f.name)))) tfs) i) := by
  induction I with
  | nil => intro E tfs h i hi; simpa [evsI] using h i hi
  | cons f r ih =>
    intro E tfs h i hi
    have hev : E ++ evsI F (f :: r) =
        (E ++ f.terms.map (fun o => (F.idxOf f.name, o))) ++ evsI F r := by
      simp [evsI]
    rw [hev, List.foldl_cons]
    apply ih
    · intro k hk
      simp only [List.length_set] at hk
      rw [lget_set]
      by_cases e : F.idxOf f.name = k
      · subst e
        simp only [hk, and_self, if_true]
        exact visitTerms_ok f.name _ f.terms E _ (h _ hk)
      · simp only [e, false_and, if_false]
        exact (h k hk).other f.terms e
    · simpa using hi

theorem rollTFs_ok (F : List Bytes) (d : Doc) (i : Nat) (hi : i < F.length) :
    RollOK (evsI F d) i (lget (rollTFs false F d) i) := by
  have := rollTFs_ok_gen F d [] (List.replicate F.length [])
    (by
      intro k _
      rw [lget_replicate_nil]
      exact ⟨by simp, fun t => by simp [occs, aget]⟩)
    i (by simpa using hi)
  simpa [rollTFs] using this

theorem rollLens_gen (F : List Bytes) (I : List FieldInst) :
    ∀ (lens : List Nat) (i : Nat), i < lens.length →
      nget (I.foldl (fun lens f => lens.set (F.idxOf f.name) (nget lens (F.idxOf f.name) + f.length))
        lens) i = nget lens i + freqSum F I i := by
  induction I with
  | nil => intro lens i _; simp [freqSum]
  | cons f r ih =>
    intro lens i hi
    rw [List.foldl_cons, ih _ i (by simpa using hi), nget_set]
    simp only [freqSum, List.map_cons, List.sum_cons]
    by_cases e : F.idxOf f.name = i
    · subst e; simp [hi]; omega
    · simp [e]

theorem rollLens_eq (F : List Bytes) (d : Doc) (i : Nat) (hi : i < F.length) :
    nget (rollLens F d) i = freqSum F d i := by
  have := rollLens_gen F d (List.replicate F.length 0) i (by simpa using hi)
  rw [rollLens, this]
  simp [nget, List.getD_eq_getElem?_getD, List.getElem?_replicate, hi]

end Ice.Model.Builder
