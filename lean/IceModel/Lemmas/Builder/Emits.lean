import IceModel.Lemmas.Builder.Roll
/-
  The emissions of pass 2, grouped by postings list (for EVERY map order `π`), and the counting
  argument behind the window lemma: pass 2 appends to window `pid(i,t)` once per document that has
  term `t` in field `i`, pass 1 reserved one cell per occurrence.
-/
namespace Ice.Model.Builder
open Ice Ice.Spec

/-! ### list helpers -/

theorem flatMap_congr' {α β : Type} (l : List α) (f g : α → List β) (h : ∀ x ∈ l, f x = g x) :
    l.flatMap f = l.flatMap g := by
  induction l with
  | nil => rfl
  | cons a r ih =>
    simp only [List.flatMap_cons]
    rw [h a (by simp), ih (fun x hx => h x (by simp [hx]))]

theorem flatMap_zipIdx_beyond {α β : Type} (g : α → List β) (i : Nat) :
    ∀ (l : List α) (k : Nat), i < k →
      (l.zipIdx k).flatMap (fun y => if y.2 = i then g y.1 else []) = [] := by
  intro l
  induction l with
  | nil => intro k _; rfl
  | cons a r ih =>
    intro k hk
    have : ¬ k = i := by omega
    simp only [List.zipIdx_cons, List.flatMap_cons, this, if_false, List.nil_append]
    exact ih (k + 1) (by omega)

theorem flatMap_zipIdx_single {α β : Type} (g : α → List β) (i : Nat) :
    ∀ (l : List α) (k : Nat), k ≤ i →
      (l.zipIdx k).flatMap (fun y => if y.2 = i then g y.1 else []) = ((l[i - k]?).map g).getD [] := by
  intro l
  induction l with
  | nil => intro k _; simp
  | cons a r ih =>
    intro k hk
    simp only [List.zipIdx_cons, List.flatMap_cons]
    by_cases e : k = i
    · subst e
      simp [flatMap_zipIdx_beyond g k r (k + 1) (by omega)]
    · have h1 : i - k = (i - (k + 1)) + 1 := by omega
      rw [if_neg e, List.nil_append, ih (k + 1) (by omega), h1, List.getElem?_cons_succ]

theorem length_flatMap_le_sum {α β : Type} (L : List α) (g : α → List β) (c : α → Nat)
    (h : ∀ x ∈ L, (g x).length ≤ c x) : (L.flatMap g).length ≤ (L.map c).sum := by
  induction L with
  | nil => simp
  | cons a r ih =>
    have h1 := h a (by simp)
    have h2 := ih (fun x hx => h x (by simp [hx]))
    simp only [List.flatMap_cons, List.length_append, List.map_cons, List.sum_cons]
    omega

theorem length_flatMap_eq_sum {α β : Type} (L : List α) (g : α → List β) (c : α → Nat)
    (h : ∀ x ∈ L, (g x).length = c x) : (L.flatMap g).length = (L.map c).sum := by
  induction L with
  | nil => simp
  | cons a r ih =>
    have h1 := h a (by simp)
    have h2 := ih (fun x hx => h x (by simp [hx]))
    simp only [List.flatMap_cons, List.length_append, List.map_cons, List.sum_cons]
    omega

theorem sum_map_zipIdx_fst {α : Type} (l : List α) (c : α → Nat) (k : Nat) :
    ((l.zipIdx k).map (fun x => c x.1)).sum = (l.map c).sum := by
  induction l generalizing k with
  | nil => rfl
  | cons a r ih => simp [ih]

theorem filter_key {ν : Type} (m : AMap Bytes ν) (hn : (m.map (·.1)).Nodup) (t : Bytes) :
    m.filter (fun e => e.1 == t) = ((aget m t).map (fun v => (t, v))).toList := by
  induction m with
  | nil => simp [aget]
  | cons p r ih =>
    obtain ⟨a, b⟩ := p
    simp only [List.map_cons, List.nodup_cons] at hn
    simp only [List.filter_cons, aget]
    by_cases e : t = a
    · subst e
      have : r.filter (fun e => e.1 == t) = [] := by
        rw [List.filter_eq_nil_iff]
        intro x hx
        simp only [beq_iff_eq]
        intro e; exact hn.1 (e ▸ List.mem_map_of_mem (f := (·.1)) hx)
      simp [this]
    · have e' : ¬ a = t := fun e' => e e'.symm
      simp [e, e', ih hn.2]

/-! ### sums over the documents of a batch -/

theorem cnt_flatten (F : List Bytes) (b : Batch) (i : Nat) (t : Bytes) :
    (b.map (fun d => cnt (evsI F d) i t)).sum = cnt (evsI F b.flatten) i t := by
  induction b with
  | nil => simp [evsI, cnt]
  | cons d r ih => simp [evsI_append, cnt_append, ih]

theorem lsum_flatten (F : List Bytes) (b : Batch) (i : Nat) (t : Bytes) :
    (b.map (fun d => lsum (evsI F d) i t)).sum = lsum (evsI F b.flatten) i t := by
  induction b with
  | nil => simp [evsI, lsum]
  | cons d r ih => simp [evsI_append, lsum_append, ih]

theorem cnt_le_flatten (F : List Bytes) (b : Batch) (d : Doc) (hd : d ∈ b) (i : Nat) (t : Bytes) :
    cnt (evsI F d) i t ≤ cnt (evsI F b.flatten) i t := by
  obtain ⟨b1, b2, rfl⟩ := List.append_of_mem hd
  simp only [List.flatten_append, List.flatten_cons, evsI_append, cnt_append]
  omega

/-! ### grouping -/

section grouping
variable {F : List Bytes} {b : Batch} {D : List (AMap Bytes Nat)} {K : List (List Bytes)}
  {nT nL : List Nat} {n : Nat} (nc : Bytes → Nat → Nat) (π : Order)
  (hD : DictInv F.length (evsI F b.flatten) D K nT nL n) (hπ : PermOK π)

include hD in
theorem lt_of_dget {i : Nat} {t : Bytes} {v : Nat} (hv : dget D i t = some v) : i < F.length := by
  by_cases h : i < F.length
  · exact h
  · have : D.getD i [] = [] := by
      simp [List.getD_eq_getElem?_getD, List.getElem?_eq_none (show D.length ≤ i by rw [hD.lenD]; omega)]
    unfold dget at hv
    rw [this] at hv
    simp [aget] at hv

include hD hπ in
theorem esel_fieldEmits {i : Nat} {t : Bytes} {v : Nat} (hv : dget D i t = some v) (dn : Nat)
    (lens : List Nat) (m : AMap Bytes TokFreq) (j : Nat)
    (hm : ∀ t' tf, (t', tf) ∈ m → (dget D j t').isSome) (hnd : (m.map (·.1)).Nodup) :
    esel (fieldEmits nc π F D dn lens (m, j)) (v - 1) =
      if j = i then ((aget m t).map (fun tf => mkEmit nc F D dn i lens (t, tf))).toList else [] := by
  obtain ⟨hv1, _⟩ := hD.rng i t v hv
  have hpred : ∀ e ∈ π dn j m, (((fun e : Emit => e.pid == v - 1) ∘ mkEmit nc F D dn j lens) e) =
      (decide (j = i) && (e.1 == t)) := by
    intro e he
    have hem : e ∈ m := (hπ dn j m).mem_iff.1 he
    obtain ⟨w, hw⟩ := Option.isSome_iff_exists.1 (hm e.1 e.2 hem)
    obtain ⟨hw1, _⟩ := hD.rng j e.1 w hw
    simp only [Function.comp, mkEmit, hw, Option.getD_some]
    by_cases h : j = i ∧ e.1 = t
    · obtain ⟨rfl, h2⟩ := h
      rw [h2] at hw; rw [hv] at hw; injection hw with hw
      simp [hw, h2]
    · have hne : ¬ (w - 1 = v - 1) := by
        intro e'
        have : w = v := by omega
        subst this
        exact h (hD.inj j i e.1 t w hw hv)
      have : (decide (j = i) && (e.1 == t)) = false := by
        simp only [Bool.and_eq_false_iff, decide_eq_false_iff_not, beq_eq_false_iff_ne, ne_eq]
        by_cases h1 : j = i
        · right; intro h2; exact h ⟨h1, h2⟩
        · left; exact h1
      rw [this]; simp [hne]
  simp only [esel, fieldEmits, List.filter_map]
  rw [List.filter_congr hpred]
  by_cases e : j = i
  · subst e
    simp only [decide_true, Bool.true_and, if_true]
    have hperm := (hπ dn j m).filter (fun e => e.1 == t)
    rw [filter_key m hnd t] at hperm
    cases hg : aget m t with
    | none =>
      rw [hg] at hperm
      have h2 := List.perm_nil.1 hperm
      rw [h2]; rfl
    | some tf =>
      rw [hg] at hperm
      have h2 := List.perm_singleton.1 hperm
      rw [h2]; rfl
  · simp [e]

include hD hπ in
theorem esel_docEmits {i : Nat} {t : Bytes} {v : Nat} (hv : dget D i t = some v) (d : Doc) (dn : Nat)
    (htf : TFsOK F D (rollTFs false F d)) :
    esel (docEmits false nc π F D (d, dn)) (v - 1) =
      ((aget (lget (rollTFs false F d) i) t).map
        (fun tf => mkEmit nc F D dn i (rollLens F d) (t, tf))).toList := by
  have hi := lt_of_dget hD hv
  simp only [esel, docEmits, List.filter_flatMap]
  rw [flatMap_congr' _ _ (fun y => if y.2 = i then
      ((aget y.1 t).map (fun tf => mkEmit nc F D dn i (rollLens F d) (t, tf))).toList else [])]
  · rw [flatMap_zipIdx_single (fun m => ((aget m t).map
        (fun tf => mkEmit nc F D dn i (rollLens F d) (t, tf))).toList) i _ 0 (Nat.zero_le _)]
    have : (rollTFs false F d)[i - 0]? = some (lget (rollTFs false F d) i) := by
      have hl : i < (rollTFs false F d).length := by rw [length_rollTFs]; exact hi
      simp [lget, List.getD_eq_getElem?_getD, List.getElem?_eq_getElem hl]
    rw [this]; simp
  · intro y hy
    have hy2 := List.mem_zipIdx_iff_getElem?.1 hy
    have hj : y.2 < F.length := by
      have : y.2 < (rollTFs false F d).length := by
        by_cases h : y.2 < (rollTFs false F d).length
        · exact h
        · rw [List.getElem?_eq_none (by omega)] at hy2; simp at hy2
      rwa [length_rollTFs] at this
    have hlg : lget (rollTFs false F d) y.2 = y.1 := by
      simp [lget, List.getD_eq_getElem?_getD, hy2]
    have := esel_fieldEmits nc π hD hπ hv dn (rollLens F d) y.1 y.2
      (fun t' tf hm => (htf y.2 t' tf (by rw [hlg]; exact hm)).1)
      (hlg ▸ (rollTFs_ok F d y.2 hj).nodup)
    simpa [esel] using this

include hD hπ in
/-- the emissions into one postings list, for every map order: one per document that has the term,
    in document order -/
theorem esel_allEmits {i : Nat} {t : Bytes} {v : Nat} (hv : dget D i t = some v)
    (htf : ∀ d ∈ b, TFsOK F D (rollTFs false F d)) :
    esel (allEmits false nc π F D b) (v - 1) =
      b.zipIdx.flatMap (fun x => ((aget (lget (rollTFs false F x.1) i) t).map
        (fun tf => mkEmit nc F D x.2 i (rollLens F x.1) (t, tf))).toList) := by
  simp only [esel, allEmits, List.filter_flatMap]
  apply flatMap_congr'
  intro x hx
  have hxb : x.1 ∈ b := List.mem_of_getElem? (List.mem_zipIdx_iff_getElem?.1 hx)
  have := esel_docEmits nc π hD hπ hv x.1 x.2 (htf x.1 hxb)
  simpa [esel] using this

include hD in
theorem tfsOK_of_valid (hval : ∀ d ∈ b, ∀ f ∈ d, ∀ o ∈ f.terms, ∀ l ∈ o.locs, l.field = [] ∨ l.field ∈ F)
    (d : Doc) (hd : d ∈ b) : TFsOK F D (rollTFs false F d) := by
  intro i t tf hm
  have hi : i < F.length := by
    by_cases h : i < F.length
    · exact h
    · have : lget (rollTFs false F d) i = [] := by
        simp [lget, List.getD_eq_getElem?_getD,
          List.getElem?_eq_none (show (rollTFs false F d).length ≤ i by rw [length_rollTFs]; omega)]
      rw [this] at hm; simp at hm
  have hr := rollTFs_ok F d i hi
  have hg := (mem_iff_aget hr.nodup t tf).1 hm
  have hne : occs (evsI F d) i t ≠ [] := by
    intro e; have := hr.get t; rw [hg, e] at this; simp at this
  have htf : tf = tfOf (occs (evsI F d) i t) := by
    have := hr.get t; rw [hg, if_neg hne] at this; injection this
  refine ⟨?_, ?_⟩
  · apply (hD.dom i t hi).2
    have h1 : 0 < cnt (evsI F d) i t := by
      rw [cnt_eq_occs]; exact List.length_pos_iff.2 hne
    have := cnt_le_flatten F b d hd i t
    omega
  · intro l hl
    rw [htf] at hl
    simp only [tfOf, List.mem_flatMap] at hl
    obtain ⟨o, ho, hlo⟩ := hl
    simp only [occs, List.mem_map, List.mem_filter] at ho
    obtain ⟨e, ⟨he, _⟩, rfl⟩ := ho
    simp only [evsI, List.mem_flatMap, List.mem_map] at he
    obtain ⟨f, hf, o, ho, rfl⟩ := he
    exact hval d hd f hf o ho l hlo

include hD hπ in
/-- THE WINDOW LEMMA, counting half: pass 2 never appends more than pass 1 reserved -/
theorem fits_all (hval : ∀ d ∈ b, ∀ f ∈ d, ∀ o ∈ f.terms, ∀ l ∈ o.locs, l.field = [] ∨ l.field ∈ F) :
    Fits n nT nL (allEmits false nc π F D b) := by
  have htf := tfsOK_of_valid hD hval
  -- every emission goes to the postings list of a dictionary entry
  have hmem : ∀ e ∈ allEmits false nc π F D b, ∃ i t v, dget D i t = some v ∧ e.pid = v - 1 := by
    intro e he
    simp only [allEmits, docEmits, fieldEmits, List.mem_flatMap, List.mem_map] at he
    obtain ⟨x, hx, y, hy, z, hz, rfl⟩ := he
    have hxb : x.1 ∈ b := List.mem_of_getElem? (List.mem_zipIdx_iff_getElem?.1 hx)
    have hy2 := List.mem_zipIdx_iff_getElem?.1 hy
    have hlg : lget (rollTFs false F x.1) y.2 = y.1 := by
      simp [lget, List.getD_eq_getElem?_getD, hy2]
    have hzm : z ∈ y.1 := (hπ x.2 y.2 y.1).mem_iff.1 hz
    obtain ⟨w, hw⟩ := Option.isSome_iff_exists.1 (htf x.1 hxb y.2 z.1 z.2 (by rw [hlg]; exact hzm)).1
    exact ⟨y.2, z.1, w, hw, by simp [mkEmit, hw]⟩
  refine ⟨?_, ?_, ?_⟩
  · intro e he
    obtain ⟨i, t, v, hv, hp⟩ := hmem e he
    have := hD.rng i t v hv
    omega
  · intro p
    cases hs : esel (allEmits false nc π F D b) p with
    | nil => simp
    | cons e r =>
      have he : e ∈ esel (allEmits false nc π F D b) p := by rw [hs]; simp
      simp only [esel, List.mem_filter, beq_iff_eq] at he
      obtain ⟨i, t, v, hv, hp⟩ := hmem e he.1
      have hpv : p = v - 1 := by rw [← he.2, hp]
      rw [← hs, hpv, esel_allEmits nc π hD hπ hv htf, hD.cntT i t v hv, ← cnt_flatten,
        ← sum_map_zipIdx_fst b (fun d => cnt (evsI F d) i t) 0]
      apply length_flatMap_le_sum
      intro x hx
      have hi := lt_of_dget hD hv
      have hr := rollTFs_ok F x.1 i hi
      cases hg : aget (lget (rollTFs false F x.1) i) t with
      | none => simp
      | some tf =>
        have hne : occs (evsI F x.1) i t ≠ [] := by
          intro e; have := hr.get t; rw [hg, e] at this; simp at this
        have : 0 < cnt (evsI F x.1) i t := by
          rw [cnt_eq_occs]; exact List.length_pos_iff.2 hne
        simp only [Option.map_some, Option.toList_some, List.length_singleton]; omega
  · intro p
    cases hs : esel (allEmits false nc π F D b) p with
    | nil => simp
    | cons e r =>
      have he : e ∈ esel (allEmits false nc π F D b) p := by rw [hs]; simp
      simp only [esel, List.mem_filter, beq_iff_eq] at he
      obtain ⟨i, t, v, hv, hp⟩ := hmem e he.1
      have hpv : p = v - 1 := by rw [← he.2, hp]
      rw [← hs, hpv, esel_allEmits nc π hD hπ hv htf, hD.cntL i t v hv, ← lsum_flatten,
        ← sum_map_zipIdx_fst b (fun d => lsum (evsI F d) i t) 0, List.flatMap_assoc]
      apply Nat.le_of_eq
      apply length_flatMap_eq_sum
      intro x hx
      have hi := lt_of_dget hD hv
      have hr := rollTFs_ok F x.1 i hi
      rw [lsum_eq_occs]
      cases hg : aget (lget (rollTFs false F x.1) i) t with
      | none =>
        have : occs (evsI F x.1) i t = [] := by
          by_cases e : occs (evsI F x.1) i t = []
          · exact e
          · have := hr.get t; rw [hg, if_neg e] at this; simp at this
        simp [this, tfOf]
      | some tf =>
        have hne : occs (evsI F x.1) i t ≠ [] := by
          intro e; have := hr.get t; rw [hg, e] at this; simp at this
        have htf' : tf = tfOf (occs (evsI F x.1) i t) := by
          have := hr.get t; rw [hg, if_neg hne] at this; injection this
        simp [mkEmit, htf']

end grouping

end Ice.Model.Builder
