import IceModel.Lemmas.Builder.Base
/-
  new.go:253-277 - the field table.  After `initFields` the field list is `Spec.fieldList` of the
  batch's field names and `FieldsMap` is its inverse (`FieldsOK`); from then on `getOrDefineField`
  of a known name is a pure lookup.
-/
namespace Ice.Model.Builder
open Ice Ice.Spec

/-- all field names of a batch, in input order -/
def names (b : Batch) : List Bytes := b.flatMap (fun d => d.map (·.name))

/-- the field list of the built segment -/
def FL (b : Batch) : List Bytes := fieldList (names b)

theorem build_fields_eq (nc : Bytes → Nat → Nat) (mode : Nat) (b : Batch) :
    (build nc mode b).fields = FL b := rfl

/-- first-occurrence order -/
def firstOcc : List Bytes → List Bytes → List Bytes
  | acc, [] => acc
  | acc, n :: r => firstOcc (if n ∈ acc then acc else acc ++ [n]) r

theorem mem_firstOcc (acc l : List Bytes) (x : Bytes) : x ∈ firstOcc acc l ↔ x ∈ acc ∨ x ∈ l := by
  induction l generalizing acc with
  | nil => simp [firstOcc]
  | cons n r ih =>
    simp only [firstOcc, ih, List.mem_cons]
    split
    · next h => constructor
                · rintro (h1 | h1) <;> simp [h1]
                · rintro (h1 | rfl | h1) <;> simp_all
    · simp only [List.mem_append, List.mem_singleton]
      constructor
      · rintro ((h1 | h1) | h1) <;> simp [h1]
      · rintro (h1 | h1 | h1) <;> simp [h1]

theorem nodup_firstOcc (acc l : List Bytes) (h : acc.Nodup) : (firstOcc acc l).Nodup := by
  induction l generalizing acc with
  | nil => simpa [firstOcc]
  | cons n r ih =>
    simp only [firstOcc]
    split
    · exact ih _ h
    · next hn =>
      apply ih
      rw [List.nodup_append]
      refine ⟨h, by simp, ?_⟩
      intro a ha b hb
      simp only [List.mem_singleton] at hb
      subst hb
      intro e; subst e; exact hn ha

theorem firstOcc_cons (h : Bytes) (acc l : List Bytes) :
    ∃ r, firstOcc (h :: acc) l = h :: r := by
  induction l generalizing acc with
  | nil => exact ⟨acc, rfl⟩
  | cons n r ih =>
    simp only [firstOcc]
    split
    · exact ih acc
    · exact ih (acc ++ [n])

/-- the state while only `getOrDefineField` has run -/
def mk0 (m : AMap Bytes Nat) (inv : List Bytes) : St :=
  { fieldsMap := m, fieldsInv := inv,
    dicts := List.replicate inv.length [], dictKeys := List.replicate inv.length [] }

theorem god_mk0 (m : AMap Bytes Nat) (inv : List Bytes) (n : Bytes)
    (hm : ∀ x, (aget m x).isSome ↔ x ∈ inv) :
    ∃ m', (getOrDefineField (mk0 m inv) n).1 = mk0 m' (if n ∈ inv then inv else inv ++ [n]) ∧
      ∀ x, (aget m' x).isSome ↔ x ∈ (if n ∈ inv then inv else inv ++ [n]) := by
  unfold getOrDefineField
  cases hg : aget m n with
  | some v =>
    have : n ∈ inv := (hm n).1 (by simp [hg])
    refine ⟨m, ?_, ?_⟩
    · simp [mk0, hg, this]
    · simpa [this] using hm
  | none =>
    have : n ∉ inv := fun h => by have := (hm n).2 h; simp [hg] at this
    refine ⟨aset m n (u16 (inv.length + 1)), ?_, ?_⟩
    · simp [mk0, hg, this, List.replicate_succ']
    · intro x
      simp only [this, if_false, aget_aset, List.mem_append, List.mem_singleton]
      by_cases hx : x = n
      · simp [hx]
      · simp [hx, hm]

theorem god_fold (m : AMap Bytes Nat) (inv l : List Bytes)
    (hm : ∀ x, (aget m x).isSome ↔ x ∈ inv) :
    ∃ m', l.foldl (fun s n => (getOrDefineField s n).1) (mk0 m inv) = mk0 m' (firstOcc inv l) ∧
      ∀ x, (aget m' x).isSome ↔ x ∈ firstOcc inv l := by
  induction l generalizing m inv with
  | nil => exact ⟨m, rfl, hm⟩
  | cons n r ih =>
    obtain ⟨m1, h1, hm1⟩ := god_mk0 m inv n hm
    obtain ⟨m2, h2, hm2⟩ := ih m1 _ hm1
    refine ⟨m2, ?_, ?_⟩
    · simp only [List.foldl_cons, h1, h2, firstOcc]
    · simpa [firstOcc] using hm2

theorem aget_rebuildMap (m : AMap Bytes Nat) (i : Nat) (l : List Bytes) (hn : l.Nodup) (n : Bytes) :
    aget (rebuildMap m i l) n = if n ∈ l then some (u16 (i + l.idxOf n + 1)) else aget m n := by
  induction l generalizing m i with
  | nil => simp [rebuildMap]
  | cons x r ih =>
    have hn' := List.nodup_cons.1 hn
    simp only [rebuildMap, ih _ _ hn'.2, List.mem_cons, List.idxOf_cons]
    by_cases h1 : n ∈ r
    · have : ¬ x = n := by intro e; exact hn'.1 (e ▸ h1)
      have hb : (x == n) = false := by simp [this]
      simp only [h1, if_true, or_true, hb, cond_false]
      congr 2; omega
    · by_cases h2 : n = x
      · subst h2; simp [h1, aget_aset]
      · have hb : (x == n) = false := by simp; exact fun e => h2 e.symm
        simp [h1, h2, aget_aset]

/-- the field table is `F` and `FieldsMap` its inverse -/
structure FieldsOK (F : List Bytes) (s : St) : Prop where
  inv : s.fieldsInv = F
  map : ∀ n, aget s.fieldsMap n = if n ∈ F then some (F.idxOf n + 1) else none
  len : F.length ≤ 65535
  nodup : F.Nodup

theorem god_known {F : List Bytes} {s : St} (h : FieldsOK F s) {n : Bytes} (hn : n ∈ F) :
    getOrDefineField s n = (s, F.idxOf n) := by
  have hl := List.idxOf_lt_length_of_mem hn
  have := h.len
  have hm : aget s.fieldsMap n = some (F.idxOf n + 1) := by rw [h.map n, if_pos hn]
  have hu : u16 (F.idxOf n + 1 + 65535) = F.idxOf n := by unfold u16; omega
  unfold getOrDefineField
  rw [hm]
  simp only [hu]

theorem u16_idx {F : List Bytes} {s : St} (h : FieldsOK F s) {n : Bytes} (hn : n ∈ F) :
    u16 (F.idxOf n) = F.idxOf n := by
  have hl := List.idxOf_lt_length_of_mem hn
  have := h.len
  simp only [u16]; omega

theorem nodup_fieldList (l : List Bytes) : (fieldList l).Nodup := by
  simp only [fieldList, List.nodup_cons, List.mem_filter, mem_sortDedup]
  refine ⟨by simp, ?_⟩
  exact asc_nodup (List.Pairwise.filter _ (asc_sortDedup l))

theorem mem_FL (b : Batch) (n : Bytes) : n ∈ FL b ↔ n = idField ∨ n ∈ names b := mem_fieldList n _

/-- the state after new.go:253-277 -/
def st0 (b : Batch) (m : AMap Bytes Nat) : St :=
  { fieldsMap := m, fieldsInv := FL b,
    dicts := List.replicate (FL b).length [], dictKeys := List.replicate (FL b).length [],
    includeDV := List.replicate (FL b).length false }

theorem initFields_ok (b : Batch) (hlen : (FL b).length ≤ 65535) :
    ∃ m, initFields b = .ok (st0 b m) ∧ FieldsOK (FL b) (st0 b m) := by
  have h0 : ∃ m0, (getOrDefineField {} idField).1 = mk0 m0 [idField] ∧
      ∀ x, (aget m0 x).isSome ↔ x ∈ [idField] := by
    have := god_mk0 [] [] idField (by simp [aget])
    simpa [mk0] using this
  obtain ⟨m0, e0, hm0⟩ := h0
  have hfold : b.foldl (fun s d => d.foldl (fun s f => (getOrDefineField s f.name).1) s)
      (getOrDefineField {} idField).1 =
      (names b).foldl (fun s n => (getOrDefineField s n).1) (getOrDefineField {} idField).1 := by
    simp only [names, List.foldl_flatMap, List.foldl_map]
  obtain ⟨m1, e1, hm1⟩ := god_fold m0 [idField] (names b) hm0
  obtain ⟨r, hr⟩ := firstOcc_cons idField [] (names b)
  have hnd : (idField :: r).Nodup := hr ▸ nodup_firstOcc _ _ (by simp)
  have hmem : ∀ x, x ∈ idField :: r ↔ x = idField ∨ x ∈ names b := by
    intro x; rw [← hr, mem_firstOcc]; simp
  have hsort : idField :: sortS r = FL b := by
    simp only [FL, fieldList]
    congr 1
    apply asc_ext (asc_sortS r (List.nodup_cons.1 hnd).2)
      (List.Pairwise.filter _ (asc_sortDedup _))
    intro x
    rw [mem_sortS, List.mem_filter, mem_sortDedup]
    have hx := hmem x
    simp only [List.mem_cons] at hx
    have hid : idField ∉ r := (List.nodup_cons.1 hnd).1
    constructor
    · intro h
      have hne : x ≠ idField := fun e => hid (e ▸ h)
      exact ⟨(hx.1 (Or.inr h)).resolve_left hne, by simpa using hne⟩
    · rintro ⟨h1, h2⟩
      have hne : x ≠ idField := by simpa using h2
      exact (hx.2 (Or.inr h1)).resolve_left hne
  have hlen' : (idField :: r).length = (FL b).length := by
    rw [← hsort]; simp [length_sortS]
  refine ⟨rebuildMap m1 0 (FL b), ?_, ?_⟩
  · have hs : b.foldl (fun s d => d.foldl (fun s f => (getOrDefineField s f.name).1) s)
        (getOrDefineField {} idField).1 = mk0 m1 (idField :: r) := by
      rw [hfold, e0, e1, hr]
    unfold initFields
    simp only [hs]
    simp only [mk0, hsort, st0, hlen']
  · refine ⟨rfl, ?_, hlen, (show (FL b).Nodup from nodup_fieldList _)⟩
    intro n
    show aget (rebuildMap m1 0 (FL b)) n = _
    rw [aget_rebuildMap _ _ _ (show (FL b).Nodup from nodup_fieldList _)]
    split
    · next hn =>
      have hl := List.idxOf_lt_length_of_mem hn
      simp only [u16, Nat.zero_add]; congr 1; omega
    · next hn =>
      have : ¬ (aget m1 n).isSome := by
        rw [hm1, hr]
        intro hmm
        apply hn
        rw [← hsort]
        rcases List.mem_cons.1 hmm with e | e
        · simp [e]
        · exact List.mem_cons_of_mem _ ((mem_sortS _ _).2 e)
      simpa using this

end Ice.Model.Builder
