import IceModel.Lemmas.Builder.Spec
/-
  The observations of `builtOf nc b` are those of `Spec.build nc mode b`.
-/
namespace Ice.Model.Builder
open Ice Ice.Spec

theorem filterMap_eq_flatMap_toList {α β : Type} (h : α → Option β) (l : List α) :
    l.filterMap h = l.flatMap (fun x => (h x).toList) := by
  induction l with
  | nil => rfl
  | cons a r ih => cases e : h a <;> simp [List.filterMap_cons, e, ih]

theorem aget_map_self {ν : Type} (l : List Bytes) (g : Bytes → ν) (t : Bytes) :
    aget (l.map (fun t => (t, g t))) t = if t ∈ l then some (g t) else none := by
  induction l with
  | nil => simp [aget]
  | cons a r ih =>
    simp only [List.map_cons, aget, List.mem_cons, ih]
    by_cases e : t = a
    · subst e; simp
    · simp [e]

theorem view_builtOf (nc : Bytes → Nat → Nat) (b : Batch) (f : Bytes) :
    (builtOf nc b).view f =
      if f ∈ FL b then some (viewOf nc (FL b) b ((FL b).idxOf f)) else none := by
  unfold Built.view
  simp only [builtOf, idxOf?_eq_ite]
  by_cases h : f ∈ FL b
  · have hl := List.idxOf_lt_length_of_mem h
    simp [h, List.getElem?_map, List.getElem?_range, hl]
  · simp [h]

/-- no instance of field number `i` in the document: nothing is rolled up for it -/
theorem aget_rollTFs_none {b : Batch} {d : Doc} (hd : d ∈ b) {i : Nat} (hi : i < (FL b).length)
    (t : Bytes) (h : occs (evsI (FL b) d) i t = []) :
    aget (lget (rollTFs false (FL b) d) i) t = none := by
  rw [(rollTFs_ok (FL b) d i hi).get t, if_pos h]

theorem aget_rollTFs_some {b : Batch} {d : Doc} (hd : d ∈ b) {i : Nat} (hi : i < (FL b).length)
    (t : Bytes) (h : occs (evsI (FL b) d) i t ≠ []) :
    aget (lget (rollTFs false (FL b) d) i) t = some (tfOf (occs (evsI (FL b) d) i t)) := by
  rw [(rollTFs_ok (FL b) d i hi).get t, if_neg h]

/-- one document: the posting the builder emits is the posting the specification prescribes -/
theorem postingIn_eq (nc : Bytes → Nat → Nat) (g : Bytes → Bool) {b : Batch} {d : Doc} (hd : d ∈ b)
    {i : Nat} (hi : i < (FL b).length) (t : Bytes) (n : Nat) :
    postingIn nc (FL b) i t (d, n) = postingOf (rollDoc nc g d) n (fname (FL b) i) t := by
  unfold postingIn postingOf
  rw [field?_rollDoc]
  have hocc := occs_eq hd hi t
  by_cases hf : fname (FL b) i ∈ d.map (·.name)
  · rw [if_pos hf]
    simp only [rollField]
    rw [find?_rollTerms]
    by_cases ht : t ∈ ((d.filter (fun f => f.name == fname (FL b) i)).flatMap (·.terms)).map (·.term)
    · rw [if_pos ht]
      have hne : occs (evsI (FL b) d) i t ≠ [] := by
        rw [hocc]
        simp only [List.mem_map] at ht
        obtain ⟨o, ho, rfl⟩ := ht
        intro e
        have := List.filter_eq_nil_iff.1 e o ho
        simp at this
      rw [aget_rollTFs_some hd hi t hne, hocc]
      simp only [Option.map_some, tfOf, rollLens_eq _ _ _ hi, freqSum_eq hd hi, List.map_flatMap]
    · rw [if_neg ht]
      have he : occs (evsI (FL b) d) i t = [] := by
        rw [hocc, List.filter_eq_nil_iff]
        intro o ho hto
        apply ht
        simp only [List.mem_map]
        exact ⟨o, ho, by simpa using hto⟩
      rw [aget_rollTFs_none hd hi t he]; rfl
  · rw [if_neg hf]
    have he : occs (evsI (FL b) d) i t = [] := by
      rw [hocc]
      have : d.filter (fun f => f.name == fname (FL b) i) = [] := by
        rw [List.filter_eq_nil_iff]
        intro f hfd hn
        apply hf
        simp only [List.mem_map]
        exact ⟨f, hfd, by simpa using hn⟩
      simp [this]
    rw [aget_rollTFs_none hd hi t he]; rfl

theorem field?_none_of_not_FL (nc : Bytes → Nat → Nat) (g : Bytes → Bool) {b : Batch} {d : Doc}
    (hd : d ∈ b) {f : Bytes} (hf : f ∉ FL b) : (rollDoc nc g d).field? f = none := by
  rw [field?_rollDoc, if_neg]
  intro h
  simp only [List.mem_map] at h
  obtain ⟨g', hg, rfl⟩ := h
  exact hf (name_mem_FL hd hg)

theorem docs_zipIdx (nc : Bytes → Nat → Nat) (mode : Nat) (b : Batch) :
    (build nc mode b).docs.zipIdx = b.zipIdx.map (fun x => (rollDoc nc (dvFlagOf b) x.1, x.2)) := by
  show (b.map (rollDoc nc (dvFlagOf b))).zipIdx = _
  rw [List.zipIdx_map]
  apply List.map_congr_left
  intro x _; rfl

theorem entriesOf_eq (nc : Bytes → Nat → Nat) (mode : Nat) (b : Batch) {i : Nat} (hi : i < (FL b).length)
    (t : Bytes) : entriesOf nc (FL b) b i t = postings (build nc mode b) (fname (FL b) i) t := by
  unfold postings entriesOf
  rw [docs_zipIdx, List.filterMap_map, filterMap_eq_flatMap_toList]
  apply flatMap_congr'
  intro x hx
  have hxb : x.1 ∈ b := List.mem_of_getElem? (List.mem_zipIdx_iff_getElem?.1 hx)
  simp only [Function.comp]
  rw [← postingIn_eq nc (dvFlagOf b) hxb hi t x.2]

theorem not_mem_keysOf {b : Batch} {i : Nat} (hi : i < (FL b).length) {t : Bytes}
    (h : t ∉ keysOf (FL b) b i) : ∀ d ∈ b, occs (evsI (FL b) d) i t = [] := by
  intro d hd
  have h0 : ¬ 0 < cnt (evsI (FL b) b.flatten) i t := by
    intro hc; apply h; unfold keysOf; rw [mem_sortDedup]; exact (cnt_pos_iff _ _ _).1 hc
  have := cnt_le_flatten (FL b) b d hd i t
  rw [cnt_eq_occs] at this
  exact List.eq_nil_of_length_eq_zero (by omega)

theorem postings_builtOf (nc : Bytes → Nat → Nat) (mode : Nat) (b : Batch) (f t : Bytes) :
    (builtOf nc b).postings f t = postings (build nc mode b) f t := by
  unfold Built.postings
  rw [view_builtOf]
  by_cases hf : f ∈ FL b
  · rw [if_pos hf]
    have hi := List.idxOf_lt_length_of_mem hf
    have hfn : fname (FL b) ((FL b).idxOf f) = f := fname_idxOf hf
    simp only [viewOf, aget_map_self]
    rw [← hfn, ← entriesOf_eq nc mode b hi t, hfn]
    by_cases ht : t ∈ keysOf (FL b) b ((FL b).idxOf f)
    · simp [ht]
    · simp only [ht, if_false, Option.getD_none]
      have hno := not_mem_keysOf hi ht
      unfold entriesOf
      symm
      rw [List.flatMap_eq_nil_iff]
      intro x hx
      have hxb : x.1 ∈ b := List.mem_of_getElem? (List.mem_zipIdx_iff_getElem?.1 hx)
      simp [postingIn, aget_rollTFs_none hxb hi t (hno x.1 hxb)]
  · rw [if_neg hf]
    unfold postings
    rw [docs_zipIdx, List.filterMap_map]
    symm
    rw [List.filterMap_eq_nil_iff]
    intro x hx
    have hxb : x.1 ∈ b := List.mem_of_getElem? (List.mem_zipIdx_iff_getElem?.1 hx)
    simp [postingOf, field?_none_of_not_FL nc (dvFlagOf b) hxb hf]

/-! ### terms -/

theorem mem_terms (S : AbsSeg) (f t : Bytes) :
    t ∈ terms S f ↔ ∃ d ∈ S.docs, ∃ af, d.field? f = some af ∧ t ∈ af.terms.map (·.term) := by
  unfold terms
  rw [mem_sortDedup, List.mem_flatMap]
  constructor
  · rintro ⟨d, hd, h⟩
    cases hq : d.field? f with
    | none => simp [hq] at h
    | some af => exact ⟨d, hd, af, hq, by simpa [hq] using h⟩
  · rintro ⟨d, hd, af, hq, h⟩
    exact ⟨d, hd, by simpa [hq] using h⟩

theorem asc_terms (S : AbsSeg) (f : Bytes) : Asc (terms S f) := asc_sortDedup _

theorem terms_builtOf (nc : Bytes → Nat → Nat) (mode : Nat) (b : Batch) (f : Bytes) :
    (builtOf nc b).terms f = terms (build nc mode b) f := by
  unfold Built.terms
  rw [view_builtOf]
  by_cases hf : f ∈ FL b
  · rw [if_pos hf]
    have hi := List.idxOf_lt_length_of_mem hf
    simp only [viewOf, List.map_map]
    have : ((fun x : Bytes × List Posting => x.1) ∘ fun t => (t, entriesOf nc (FL b) b ((FL b).idxOf f) t)) = id := by
      funext t; rfl
    rw [this, List.map_id]
    apply asc_ext (asc_sortDedup _) (asc_terms _ _)
    intro t
    rw [mem_terms]
    rw [mem_sortDedup]
    simp only [List.mem_map, List.mem_filter, List.mem_flatMap, evsI, beq_iff_eq]
    constructor
    · rintro ⟨e, ⟨⟨g, hg, o, ho, he⟩, he1⟩, het⟩
      obtain ⟨d, hd, hgd⟩ := List.mem_flatten.1 hg
      rw [← he] at he1 het
      simp only at he1 het
      have hgn : g.name = f := by
        have := (idx_eq_iff (FL_nodup b) (name_mem_FL hd hgd) hi).1 he1
        rw [this, fname_idxOf hf]
      refine ⟨rollDoc nc (dvFlagOf b) d, List.mem_map_of_mem hd, rollField nc (dvFlagOf b) d f, ?_, ?_⟩
      · rw [field?_rollDoc, if_pos (by simp only [List.mem_map]; exact ⟨g, hgd, hgn⟩)]
      · refine List.mem_map.1 ?_
        show t ∈ (rollTerms f _).map (·.term)
        rw [map_term_rollTerms, mem_sortDedup]
        simp only [List.mem_map, List.mem_flatMap, List.mem_filter, beq_iff_eq]
        exact ⟨o, ⟨g, ⟨hgd, hgn⟩, ho⟩, het⟩
    · rintro ⟨ad, had, af, hq, ht⟩
      obtain ⟨d, hd, had'⟩ := List.mem_map.1 had
      rw [← had', field?_rollDoc] at hq
      by_cases hfd : f ∈ d.map (·.name)
      · rw [if_pos hfd] at hq
        injection hq with hq
        rw [← hq] at ht
        have ht' : t ∈ (rollTerms f ((d.filter (fun g => g.name == f)).flatMap (·.terms))).map (·.term) := List.mem_map.2 ht
        rw [map_term_rollTerms, mem_sortDedup] at ht'
        simp only [List.mem_map, List.mem_flatMap, List.mem_filter, beq_iff_eq] at ht'
        obtain ⟨o, ⟨g, ⟨hgd, hgn⟩, ho⟩, hto⟩ := ht'
        refine ⟨((FL b).idxOf g.name, o), ⟨⟨g, List.mem_flatten.2 ⟨d, hd, hgd⟩, o, ho, rfl⟩, ?_⟩, hto⟩
        simp [hgn]
      · rw [if_neg hfd] at hq; simp at hq
  · rw [if_neg hf]
    symm
    have : ∀ t, t ∉ terms (build nc mode b) f := by
      intro t ht
      rw [mem_terms] at ht
      obtain ⟨ad, had, af, hq, _⟩ := ht
      obtain ⟨d, hd, had'⟩ := List.mem_map.1 had
      rw [← had', field?_none_of_not_FL nc _ hd hf] at hq
      simp at hq
    cases hT : terms (build nc mode b) f with
    | nil => rfl
    | cons a r => exact absurd (by rw [hT]; simp) (this a)

end Ice.Model.Builder
