import IceModel.Spec.Seg
/-
  Ordering facts: `Bytes.cmp` is a strict total order, `sortDedup` yields the unique strictly
  ascending list of its members, `fieldList` depends only on the member set (modulo `_id`).
-/
namespace Ice

namespace Bytes

theorem cmp_eq_iff (a b : Bytes) : cmp a b = .eq ↔ a = b := by
  induction a generalizing b with
  | nil => cases b <;> simp [cmp]
  | cons x xs ih =>
    cases b with
    | nil => simp [cmp]
    | cons y ys =>
      simp only [cmp]
      split
      · simp; omega
      · split
        · simp; omega
        · rw [ih]
          have : x = y := by omega
          simp [this]

theorem cmp_self (a : Bytes) : cmp a a = .eq := (cmp_eq_iff a a).2 rfl

theorem cmp_swap (a b : Bytes) : cmp a b = .gt ↔ cmp b a = .lt := by
  induction a generalizing b with
  | nil => cases b <;> simp [cmp]
  | cons x xs ih =>
    cases b with
    | nil => simp [cmp]
    | cons y ys =>
      simp only [cmp]
      by_cases h1 : x < y
      · have h2 : ¬ y < x := by omega
        simp [h1, h2]
      · by_cases h2 : y < x
        · simp [h1, h2]
        · simp [h1, h2, ih]

theorem cmp_lt_trans {a b c : Bytes} (h1 : cmp a b = .lt) (h2 : cmp b c = .lt) :
    cmp a c = .lt := by
  induction a generalizing b c with
  | nil =>
    cases b with
    | nil => simp [cmp] at h1
    | cons y ys =>
      cases c with
      | nil => simp [cmp] at h2
      | cons z zs => simp [cmp]
  | cons x xs ih =>
    cases b with
    | nil => simp [cmp] at h1
    | cons y ys =>
      cases c with
      | nil => simp [cmp] at h2
      | cons z zs =>
        simp only [cmp] at h1 h2 ⊢
        by_cases hxy : x < y
        · by_cases hyz : y < z
          · have : x < z := by omega
            simp [this]
          · by_cases hzy : z < y
            · simp [hyz, hzy] at h2
            · have : x < z := by omega
              simp [this]
        · by_cases hyx : y < x
          · simp [hxy, hyx] at h1
          · simp only [hxy, hyx, if_false] at h1
            have hxy' : x = y := by omega
            subst hxy'
            by_cases hyz : x < z
            · simp [hyz]
            · by_cases hzy : z < x
              · simp [hyz, hzy] at h2
              · simp only [hyz, hzy, if_false] at h2 ⊢
                exact ih h1 h2

theorem cmp_lt_irrefl (a : Bytes) : cmp a a ≠ .lt := by
  rw [cmp_self]; simp

theorem cmp_lt_asymm {a b : Bytes} (h1 : cmp a b = .lt) (h2 : cmp b a = .lt) : False :=
  cmp_lt_irrefl a (cmp_lt_trans h1 h2)

end Bytes

/-- strictly ascending -/
abbrev Asc (l : List Bytes) : Prop := l.Pairwise (fun a b => Bytes.cmp a b = .lt)

theorem mem_insertU (x y : Bytes) (l : List Bytes) : y ∈ insertU x l ↔ y = x ∨ y ∈ l := by
  induction l with
  | nil => simp [insertU]
  | cons z r ih =>
    simp only [insertU]
    split
    · simp
    · next h =>
      have := (Bytes.cmp_eq_iff x z).1 h
      subst this
      simp
    · simp [ih]
      grind

theorem mem_sortDedup (x : Bytes) (l : List Bytes) : x ∈ sortDedup l ↔ x ∈ l := by
  induction l with
  | nil => simp [sortDedup]
  | cons a r ih =>
    have : sortDedup (a :: r) = insertU a (sortDedup r) := rfl
    rw [this, mem_insertU, ih]; simp

theorem asc_insertU (x : Bytes) (l : List Bytes) (h : Asc l) : Asc (insertU x l) := by
  induction l with
  | nil => simp [insertU, Asc]
  | cons z r ih =>
    simp only [insertU]
    have hz := List.pairwise_cons.1 h
    split
    · next hlt =>
      refine List.pairwise_cons.2 ⟨?_, h⟩
      intro b hb
      rcases List.mem_cons.1 hb with rfl | hb
      · exact hlt
      · exact Bytes.cmp_lt_trans hlt (hz.1 b hb)
    · exact h
    · next hgt =>
      refine List.pairwise_cons.2 ⟨?_, ih hz.2⟩
      intro b hb
      rcases (mem_insertU x b r).1 hb with rfl | hb
      · exact (Bytes.cmp_swap _ _).1 hgt
      · exact hz.1 b hb

theorem asc_sortDedup (l : List Bytes) : Asc (sortDedup l) := by
  induction l with
  | nil => simp [sortDedup, Asc]
  | cons a r ih => exact asc_insertU a _ ih

/-- strictly ascending lists are determined by their members -/
theorem asc_ext {l₁ l₂ : List Bytes} (h₁ : Asc l₁) (h₂ : Asc l₂)
    (h : ∀ x, x ∈ l₁ ↔ x ∈ l₂) : l₁ = l₂ := by
  induction l₁ generalizing l₂ with
  | nil =>
    cases l₂ with
    | nil => rfl
    | cons b r => exact absurd ((h b).2 (by simp)) (by simp)
  | cons a r₁ ih =>
    cases l₂ with
    | nil => exact absurd ((h a).1 (by simp)) (by simp)
    | cons b r₂ =>
      have ha := List.pairwise_cons.1 h₁
      have hb := List.pairwise_cons.1 h₂
      have hab : a = b := by
        rcases List.mem_cons.1 ((h a).1 (by simp)) with e | ha2
        · exact e
        · rcases List.mem_cons.1 ((h b).2 (by simp)) with e | hb1
          · exact e.symm
          · exact (Bytes.cmp_lt_asymm (ha.1 b hb1) (hb.1 a ha2)).elim
      subst hab
      congr 1
      apply ih ha.2 hb.2
      intro x
      constructor
      · intro hx
        rcases List.mem_cons.1 ((h x).1 (List.mem_cons_of_mem _ hx)) with e | hx2
        · subst e; exact (Bytes.cmp_lt_irrefl _ (ha.1 _ hx)).elim
        · exact hx2
      · intro hx
        rcases List.mem_cons.1 ((h x).2 (List.mem_cons_of_mem _ hx)) with e | hx2
        · subst e; exact (Bytes.cmp_lt_irrefl _ (hb.1 _ hx)).elim
        · exact hx2

namespace Spec

theorem mem_fieldList (f : Bytes) (names : List Bytes) :
    f ∈ fieldList names ↔ f = idField ∨ f ∈ names := by
  simp only [fieldList, List.mem_cons, List.mem_filter, mem_sortDedup]
  by_cases h : f = idField <;> simp [h]

/-- the field list depends only on the set of names other than `_id` -/
theorem fieldList_congr {l₁ l₂ : List Bytes}
    (h : ∀ x, x ≠ idField → (x ∈ l₁ ↔ x ∈ l₂)) : fieldList l₁ = fieldList l₂ := by
  simp only [fieldList]
  congr 1
  apply asc_ext
  · exact List.Pairwise.filter _ (asc_sortDedup l₁)
  · exact List.Pairwise.filter _ (asc_sortDedup l₂)
  · intro x
    simp only [List.mem_filter, mem_sortDedup]
    by_cases hx : x = idField
    · simp [hx]
    · simp [hx, h x hx]

end Spec
end Ice
