import IceModel.Props.C04
/-
  The segment `New` returns WITHOUT going through a file.

    New                      new.go:40-90    ↦ `initSegment` (`initSegmentV0`: before commit 6ad80a3)
    footerCRC                write.go:202-211 ↦ `footerCRC`
    interim.convert          new.go:252-316  ↦ `convert`  (= `serialize` + the two tables it returns)
    initSegmentBase          new.go:92-116   ↦ the tail of `initSegment`

  `convert` returns, besides the footer, `dictOffsets` and `storedFieldChunkOffsets`; `New` fills in
  `footer.crc = s.w.Sum32()` (checksum of the data section), `chunkMode`, `numDocs`, replaces
  `footer.crc` by `footerCRC(footer)` (the checksum `persistFooter` will write; since 6ad80a3), and
  `initSegmentBase` builds the `Segment` from the builder's tables (`FieldsInv`, `FieldDocs`,
  `FieldFreqs`), the two tables of `convert`, the data section as memory-backed `segment.Data`, and
  runs `loadDvReaders` on it.  Nothing is parsed.

  `convert` here repeats the body of `serializeWith true` (which cannot be changed) and keeps the
  tables; `serialize_eq_convert` shows it is the same computation.
-/
namespace Ice.Model.Format
open Ice Ice.Model
open Ice.Model.Writer (be unbe Footer footerFields persistFooter parseFooter CRC)
open Ice.Model.ChunkBytes (Entry BLoc Coder tfAdds locAdds uvarintU64 Fresh)
open Ice.Model.DocValues (add64 sub64 maxUint64 Data)

/-- `interim.convert`: data section, footer values, `dictOffsets`, `storedFieldChunkOffsets` -/
def convert (K : Codecs) (L : LSeg) : Res (Bytes × Footer × List Nat × List Nat) := do
  let so := Stored.writeStoredFields K.stored docBlock L.stored
  let (db, dictLocs, dvOff) ←
    (if L.numDocs > 0 then do
      let tf ← Coder.new 1024 (L.numDocs - 1)
      let lc ← Coder.new 1024 (L.numDocs - 1)
      let (_, fb, outs) ←
        foldW (writeField K L.merger L.chunkMode L.numDocs) { tf, lc } so.bytes.length L.fields
      pure (fb ++ dvIndexBytes outs, outs.map (·.dictLoc), u64 (so.bytes.length + fb.length))
     else
      pure ([], L.fields.map (fun _ => 0), if L.merger then maxUint64 else 0)
     : Res (Bytes × List Nat × Nat))
  let pf := persistFields (so.bytes.length + db.length) (dictLocs.zip L.fields)
  return (so.bytes ++ db ++ pf.1,
    { numDocs := L.numDocs, storedIndexOffset := so.storedIndexOffset, fieldsIndexOffset := pf.2,
      docValueOffset := dvOff, chunkMode := L.chunkMode, version := 2, crc := 0 },
    dictLocs, so.chunkOffsets)

/-- `New` from `convert` on, BEFORE commit 6ad80a3: the footer gets the checksum of the data
    section (`s.w.Sum32()`; `numDocs` and `chunkMode`, which `New` also fills in, are already in
    the footer value of the model), and `initSegmentBase` assembles the segment: memory-backed
    data, the builder's field tables (`FieldDocs` / `FieldFreqs` are maps in Go; entry `i` of the
    lists is the map lookup with its zero default, which is also what `persistFields` writes),
    the tables of `convert`, and the doc-value readers `loadDvReaders` opens on the data section.
    `Segment.CRC()` of this segment is the checksum of the data section - not what a segment
    loaded from the persisted file reports (`C04_new_crc_v0_counterexample`). -/
def initSegmentV0 (K : Codecs) (L : LSeg) : Res Loaded := do
  let (data, ft, dictOffsets, storedFieldChunkOffsets) ← convert K L
  let footer : Footer := { ft with crc := K.crc.upd 0 data }
  let d : Data := { bytes := data, mem := true }
  let fieldsInv := L.fields.map (·.name)
  let dvr ← loadDvReaders d footer fieldsInv
  return { data := d, footer := footer, fieldsInv := fieldsInv, dictLocs := dictOffsets,
           fieldDocs := L.fields.map (·.fieldDocs), fieldFreqs := L.fields.map (·.fieldFreqs),
           storedChunkOffsets := storedFieldChunkOffsets, dvReaders := dvr }

/-- `footerCRC` (write.go:202-211): `persistFooter` into a buffer - seeded with `footer.crc`, the
    checksum of the data section -, the last four of its 44 bytes as a big-endian `uint32`.
    (`persistFooter` into a `bytes.Buffer` cannot fail; the error branch of `New` is dead.) -/
def footerCRC (h : CRC) (f : Footer) : Nat := unbe ((persistFooter h f).drop 40)

/-- `footerCRC` of a footer holding the checksum of the data section is the checksum of the data
    section followed by the 40 footer-field bytes: what `parseFooter` reads back from the file
    (`C04_footer`, `loadedFooter`) -/
theorem footerCRC_eq (K : Codecs) (data : Bytes) (ft : Footer) :
    footerCRC K.crc { ft with crc := K.crc.upd 0 data } = K.crc.upd 0 (data ++ footerFields ft) := by
  have hlen : (footerFields { ft with crc := K.crc.upd 0 data }).length = 40 := by
    simp [footerFields, Ice.Props.C11.be_length]
  unfold footerCRC persistFooter
  rw [List.drop_left' hlen, Ice.Props.C11.unbe_be 4 _ (K.crc_lt _ _), K.crc.upd_append]
  rfl

/-- `New` from `convert` on (new.go, after commit 6ad80a3): `footer.crc = s.w.Sum32()`, then
    `footer.crc, err = footerCRC(footer)` - the in-memory segment reports the checksum its
    persisted file will end with -, and `initSegmentBase` assembles the segment as in
    `initSegmentV0`. -/
def initSegment (K : Codecs) (L : LSeg) : Res Loaded := do
  let (data, ft, dictOffsets, storedFieldChunkOffsets) ← convert K L
  let footer0 : Footer := { ft with crc := K.crc.upd 0 data }
  let footer : Footer := { footer0 with crc := footerCRC K.crc footer0 }
  let d : Data := { bytes := data, mem := true }
  let fieldsInv := L.fields.map (·.name)
  let dvr ← loadDvReaders d footer fieldsInv
  return { data := d, footer := footer, fieldsInv := fieldsInv, dictLocs := dictOffsets,
           fieldDocs := L.fields.map (·.fieldDocs), fieldFreqs := L.fields.map (·.fieldFreqs),
           storedChunkOffsets := storedFieldChunkOffsets, dvReaders := dvr }

/-- `serialize` is `convert` with the two tables dropped -/
theorem serialize_eq_convert (K : Codecs) (L : LSeg) :
    serialize K L = (convert K L >>= fun r => pure (r.1, r.2.1)) := by
  unfold serialize serializeWith convert
  simp only [if_true]
  by_cases hnd : L.numDocs > 0
  · simp only [hnd, if_true]
    cases Coder.new 1024 (L.numDocs - 1) with
    | ok c =>
      simp only [ChunkBytes.ok_bind]
      cases foldW (writeField K L.merger L.chunkMode L.numDocs) { tf := c, lc := c }
          (Stored.writeStoredFields K.stored docBlock L.stored).bytes.length L.fields with
      | ok r => rfl
      | err => rfl
      | panic => rfl
    | err => rfl
    | panic => rfl
  · simp only [hnd, if_false]
    rfl

/-- a successful `serialize` is a successful `convert` -/
theorem convert_of_serialize {K : Codecs} {L : LSeg} {data : Bytes} {ft : Footer}
    (hs : serialize K L = .ok (data, ft)) :
    ∃ dictLocs offs, convert K L = .ok (data, ft, dictLocs, offs) := by
  rw [serialize_eq_convert] at hs
  obtain ⟨r, hr, h⟩ := bind_eq_ok hs
  obtain ⟨d, f, dl, offs⟩ := r
  simp only [ChunkBytes.pure_eq_ok, Res.ok.injEq, Prod.mk.injEq] at h
  obtain ⟨rfl, rfl⟩ := h
  exact ⟨dl, offs, hr⟩

theorem serialize_of_convert {K : Codecs} {L : LSeg} {data : Bytes} {ft : Footer}
    {dictLocs offs : List Nat} (hc : convert K L = .ok (data, ft, dictLocs, offs)) :
    serialize K L = .ok (data, ft) := by
  rw [serialize_eq_convert, hc]; rfl

/-- inversion of `convert`: as `serialize_inv`, for the dictionary locations `convert` returns -/
theorem convert_inv (K : Codecs) (L : LSeg) (data : Bytes) (ft : Footer) (dictLocs offs : List Nat)
    (hn32 : L.numDocs < 2 ^ 32) (h : convert K L = .ok (data, ft, dictLocs, offs)) :
    offs = (storedOut K L).chunkOffsets ∧
    ∃ mid, Shape K L data ft mid dictLocs ∧
      (L.numDocs = 0 → mid = [] ∧ dictLocs = L.fields.map (fun _ => 0) ∧
        ft.docValueOffset = if L.merger then maxUint64 else 0) ∧
      (0 < L.numDocs → ∃ fb outs, Middle K L ft mid dictLocs fb outs) := by
  unfold convert at h
  obtain ⟨r, hr, h⟩ := bind_eq_ok h
  obtain ⟨db, dl, dvOff⟩ := r
  simp only [ChunkBytes.pure_eq_ok, Res.ok.injEq, Prod.mk.injEq] at h
  obtain ⟨rfl, rfl, rfl, rfl⟩ := h
  refine ⟨rfl, ?_⟩
  by_cases hnd : 0 < L.numDocs
  · simp only [hnd, if_true] at hr
    obtain ⟨tf, htf, hr⟩ := bind_eq_ok hr
    obtain ⟨lc, hlc, hr⟩ := bind_eq_ok hr
    obtain ⟨r2, hr2, hr⟩ := bind_eq_ok hr
    obtain ⟨st', fb, outs⟩ := r2
    simp only [ChunkBytes.pure_eq_ok, Res.ok.injEq, Prod.mk.injEq] at hr
    obtain ⟨rfl, rfl, rfl⟩ := hr
    obtain ⟨c0, hc0, hf0, -, -⟩ := Coder.new_ok (cs := 1024) (m := L.numDocs - 1) (by decide)
      (chunk_total_lt hn32)
    have e1 : tf = c0 := by rw [htf] at hc0; cases hc0; rfl
    have e2 : lc = c0 := by rw [hlc] at hc0; cases hc0; rfl
    have hlen : outs.length = L.fields.length :=
      (foldW_inv (writeField K L.merger L.chunkMode L.numDocs) (fun _ => True)
        (fun _ _ _ _ => True) L.fields (fun _ _ _ _ _ _ _ _ _ => ⟨trivial, trivial⟩)
        { tf := tf, lc := lc } _ st' fb outs trivial hr2).2.1
    refine ⟨fb ++ dvIndexBytes outs, ⟨by simp [hlen], rfl, rfl, rfl, rfl, rfl, rfl⟩,
      fun h0 => by omega, fun _ => ⟨fb, outs, ⟨tf, lc, st', e1 ▸ hf0, e2 ▸ hf0, hr2⟩, rfl, rfl, rfl⟩⟩
  · simp only [hnd, if_false, ChunkBytes.pure_eq_ok, Res.ok.injEq, Prod.mk.injEq] at hr
    obtain ⟨rfl, rfl, rfl⟩ := hr
    refine ⟨[], ⟨by simp, rfl, rfl, rfl, rfl, rfl, rfl⟩,
      fun _ => ⟨rfl, rfl, rfl⟩, fun h0 => absurd h0 hnd⟩

/-- `loadDvReaders` does not look at the checksum in the footer -/
theorem loadDvReaders_crc (d : Data) (ft : Footer) (c : Nat) (names : List Bytes) :
    loadDvReaders d { ft with crc := c } names = loadDvReaders d ft names := rfl

/-- neither do the lazy readers -/
theorem dictionaryOf_crc (K : Codecs) (ld : Loaded) (c : Nat) (i : Nat) :
    dictionaryOf K { ld with footer := { ld.footer with crc := c } } i = dictionaryOf K ld i := rfl

theorem readRecord_crc (K : Codecs) (ld : Loaded) (c : Nat) (v : Nat) :
    readRecord K { ld with footer := { ld.footer with crc := c } } v = readRecord K ld v := rfl

theorem readPostings_crc (K : Codecs) (ld : Loaded) (c : Nat) (v : Nat) :
    readPostings K { ld with footer := { ld.footer with crc := c } } v = readPostings K ld v := rfl

theorem storedSeg_crc (ld : Loaded) (c : Nat) :
    Loaded.storedSeg { ld with footer := { ld.footer with crc := c } } = ld.storedSeg := rfl

end Ice.Model.Format
