import IceModel.Lemmas.E2EValid
/-
  END-TO-END, builder path: `Built` (names inside locations, what `C01` talks about) is the
  resolution of the builder's raw per-field output `FieldOut` (field ids inside locations, what
  `writeDictsTermField` hands to the encoders).  The terms `toLSeg` lays out are the raw ones.
-/
namespace Ice.Props.E2E
open Ice Ice.Spec Ice.Model Ice.Model.Builder Ice.Model.Format
open Ice.Model.ChunkBytes (Entry BLoc)

/-- a raw entry of the builder as the byte-level entry the two int coders receive -/
def rawToE (re : RawEntry) : Entry :=
  Entry.mk re.doc re.freq re.norm (re.locs.map (fun il => BLoc.mk il.fieldID il.pos il.start il.stop))

/-- the terms of a raw field output -/
def termsOfRaw (fo : Builder.FieldOut) : List (Bytes × TermDesc) :=
  fo.entries.map fun e => (e.1, TermDesc.general (e.2.map rawToE))

/-- `convert` returns the resolution of what `writeDicts` produced (or of the empty per-field
    outputs for an empty batch) against the final field table -/
theorem run_inv {nc : Bytes → Nat → Nat} {π : Order} {b : Batch} {r : Built}
    (h : run nc π b = .ok r) :
    ∃ outs : List Builder.FieldOut, mapE (resolveField r.fields) outs = .ok r.dicts := by
  unfold run runV at h
  split at h
  · cases h
  · split at h
    · cases h
    · split at h
      · cases h
      · split at h
        · cases h
        · split at h
          · cases h
          · rename_i outs _
            split at h
            · cases h
            · rename_i views hviews
              injection h with h
              subst h
              exact ⟨outs, hviews⟩

theorem mapE_get {α β : Type} (fn : α → M β) :
    ∀ (l : List α) (ys : List β), mapE fn l = .ok ys →
      ys.length = l.length ∧ ∀ (i : Nat) (x : α), l[i]? = some x → ∃ y, ys[i]? = some y ∧ fn x = .ok y
  | [], ys, hm => by
    simp only [mapE] at hm
    injection hm with hm
    subst hm
    exact ⟨rfl, fun i x hx => by simp at hx⟩
  | a :: r, ys, hm => by
    simp only [mapE] at hm
    cases ha : fn a with
    | error e => rw [ha] at hm; cases hm
    | ok y =>
      rw [ha] at hm
      simp only at hm
      cases hr : mapE fn r with
      | error e => rw [hr] at hm; cases hm
      | ok ys' =>
        rw [hr] at hm
        simp only at hm
        injection hm with hm
        subst hm
        obtain ⟨hl, hg⟩ := mapE_get fn r ys' hr
        refine ⟨by simp [hl], ?_⟩
        intro i x hx
        cases i with
        | zero =>
          simp only [List.getElem?_cons_zero, Option.some.injEq] at hx
          subst hx
          exact ⟨y, by simp, ha⟩
        | succ i =>
          simp only [List.getElem?_cons_succ] at hx ⊢
          exact hg i x hx

/-- resolving a raw field output keeps the doc-value column and turns every raw entry into the
    posting whose byte-level entry (`postingToE`) is the raw entry again -/
theorem resolveField_terms {F : List Bytes} (hn : F.Nodup) {fo : Builder.FieldOut} {v : FieldView}
    (h : resolveField F fo = .ok v) : v.dv = fo.dv ∧ termsOfView F v = termsOfRaw fo := by
  unfold resolveField at h
  split at h
  · cases h
  · rename_i es hes
    injection h with h
    subst h
    refine ⟨rfl, ?_⟩
    unfold termsOfView termsOfRaw
    simp only
    refine mapE_ok_map _ (fun e : Bytes × List Posting => (e.1, TermDesc.general (e.2.map (postingToE F))))
      (fun e : Bytes × List RawEntry => (e.1, TermDesc.general (e.2.map rawToE))) ?_ fo.entries es hes
    intro p q hpq
    split at hpq
    · cases hpq
    · rename_i ps hps
      injection hpq with hpq
      subst hpq
      simp only
      rw [mapE_ok_map (resolveEntry F) (postingToE F) rawToE
        (fun x y hxy => postingToE_resolve hn hxy) p.2 ps hps]

section
variable {nc : Bytes → Nat → Nat} {π : Order} {b : Batch} {r : Built}
  (hv : ValidBatch b) (hπ : PermOK π) (hrun : run nc π b = .ok r) (mode : Nat)
include hv hπ hrun

/-- **the terms and doc values `toLSeg` lays out are the builder's raw per-field output**: there
    are raw outputs `outs` (what `writeDicts` produced, one per field) whose resolution is `r.dicts`,
    and field `i` of the description has exactly the raw terms and the doc-value column of
    `outs[i]`. -/
theorem toLSeg_raw :
    ∃ outs : List Builder.FieldOut, mapE (resolveField r.fields) outs = .ok r.dicts ∧
      outs.length = (r.toLSeg mode).fields.length ∧
      ∀ (i : Nat) (fo : Builder.FieldOut), outs[i]? = some fo →
        ∃ fd, (r.toLSeg mode).fields[i]? = some fd ∧ fd.terms = termsOfRaw fo ∧ fd.dv = fo.dv := by
  obtain ⟨outs, houts⟩ := run_inv hrun
  obtain ⟨hlen, hget⟩ := mapE_get _ outs r.dicts houts
  have hfe := fields_eq hv hπ hrun mode
  have hdl := dicts_length hv hπ hrun mode
  have hn : r.fields.Nodup := by rw [hfe]; exact spec_fields_nodup mode
  refine ⟨outs, houts, ?_, ?_⟩
  · rw [← hlen, hdl, toLSeg_fields_length hv hπ hrun mode]
  · intro i fo hfo
    obtain ⟨v, hv', hres⟩ := hget i fo hfo
    have hi : i < r.fields.length := by
      rw [hfe, ← hdl]
      by_cases h : i < r.dicts.length
      · exact h
      · rw [List.getElem?_eq_none (by omega)] at hv'; cases hv'
    refine ⟨fieldDescOf r r.fields[i] i, ?_, ?_, ?_⟩
    · simp only [Built.toLSeg, List.getElem?_map, List.getElem?_zipIdx,
        List.getElem?_eq_getElem hi, Option.map_some, Nat.zero_add]
    · simp only [fieldDescOf, hv']
      exact (resolveField_terms hn hres).2
    · simp only [fieldDescOf, hv']
      exact (resolveField_terms hn hres).1

end

end Ice.Props.E2E
