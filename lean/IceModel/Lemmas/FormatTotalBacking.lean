import IceModel.Model.Format
import IceModel.Lemmas.Format
import IceModel.Lemmas.FormatTotalBackingDV
/-
  The two backings of `segment.Data` (container side): everything `load` and the lazy readers do
  goes through `Data.read`, so whatever succeeds on the memory backing succeeds with the same
  result on the file backing (`OkLe`, see `Lemmas/FormatTotalBackingDV.lean`).  These lemmas are
  about ARBITRARY bytes, not only written segments.
-/
namespace Ice.Model.Format
open Ice Ice.Model
open Ice.Model.Writer (be unbe Footer footerFields persistFooter parseFooter CRC)
open Ice.Model.ChunkBytes (uvarintU64)
open Ice.Model.DocValues (add64 sub64 maxUint64 Data OkLe read_toFile)

/-- `OkLe.bind` for the monad instance the container model uses -/
theorem okLe_bind {α β : Type} {x y : Res α} {f g : α → Res β} (h : OkLe x y)
    (hf : ∀ a, OkLe (f a) (g a)) : OkLe (x >>= f) (y >>= g) := by
  intro r hr
  cases x with
  | ok a => rw [h a rfl]; exact hf a r hr
  | err => cases hr
  | panic => cases hr

/-- the same segment, file-backed -/
def Loaded.toFile (ld : Loaded) : Loaded := { ld with data := ld.data.toFile }

theorem loadFieldRecord_toFile (d : Data) (addr fe : Nat) :
    OkLe (loadFieldRecord d addr fe) (loadFieldRecord d.toFile addr fe) := by
  unfold loadFieldRecord
  apply okLe_bind (read_toFile _ _ _)
  intro w1
  generalize uvarintU64 w1 = p1
  obtain ⟨a1, b1⟩ := p1
  apply okLe_bind (read_toFile _ _ _)
  intro w2
  generalize uvarintU64 w2 = p2
  obtain ⟨a2, b2⟩ := p2
  apply okLe_bind (read_toFile _ _ _)
  intro w3
  apply okLe_bind (read_toFile _ _ _)
  intro w4
  generalize uvarintU64 w4 = p4
  obtain ⟨a4, b4⟩ := p4
  apply okLe_bind (read_toFile _ _ _)
  intro w5
  exact OkLe.refl _

theorem loadFieldsLoop_toFile (d : Data) (fio : Nat) : ∀ (fuel fieldID : Nat) (acc : FieldsAcc),
    OkLe (loadFieldsLoop d fio fuel fieldID acc) (loadFieldsLoop d.toFile fio fuel fieldID acc)
  | 0, _, _ => OkLe.refl _
  | fuel + 1, fieldID, acc => by
    simp only [loadFieldsLoop]
    have hb : d.toFile.bytes = d.bytes := rfl
    rw [hb]
    by_cases h : add64 fio (mul64 8 fieldID) < u64 d.bytes.length
    · rw [if_pos h, if_pos h]
      apply okLe_bind (read_toFile _ _ _)
      intro w
      apply okLe_bind (loadFieldRecord_toFile _ _ _)
      intro r
      obtain ⟨a, b, c, e⟩ := r
      exact loadFieldsLoop_toFile d fio fuel _ _
    · rw [if_neg h, if_neg h]; exact OkLe.refl _

theorem loadFields_toFile (d : Data) (fio : Nat) :
    OkLe (loadFields d fio) (loadFields d.toFile fio) :=
  loadFieldsLoop_toFile d fio _ _ _

theorem loadDvLoop_toFile (d : Data) (dvo : Nat) : ∀ (names : List Bytes) (read : Nat),
    OkLe (loadDvLoop d dvo names read) (loadDvLoop d.toFile dvo names read)
  | [], _ => OkLe.refl _
  | _ :: fs, read => by
    simp only [loadDvLoop]
    apply okLe_bind (read_toFile _ _ _)
    intro w1
    cases uvarint w1 with
    | none => exact OkLe.refl _
    | some p1 =>
      obtain ⟨s, n1⟩ := p1
      apply okLe_bind (read_toFile _ _ _)
      intro w2
      cases uvarint w2 with
      | none => exact OkLe.refl _
      | some p2 =>
        obtain ⟨e, n2⟩ := p2
        apply okLe_bind (DocValues.loadFieldDocValueReader_toFile d s e)
        intro r
        apply okLe_bind (loadDvLoop_toFile d dvo fs _)
        intro _
        exact OkLe.refl _

theorem loadDvReaders_toFile (d : Data) (ft : Footer) (names : List Bytes) :
    OkLe (loadDvReaders d ft names) (loadDvReaders d.toFile ft names) := by
  unfold loadDvReaders
  by_cases h : ft.docValueOffset = maxUint64 ∨ ft.numDocs = 0
  · rw [if_pos h, if_pos h]; exact OkLe.refl _
  · rw [if_neg h, if_neg h]; exact loadDvLoop_toFile d _ _ _

/-- **`load` for the two backings, any file.**  If the memory-backed `load` succeeds, the
    file-backed one succeeds with the same segment value (only the backing flag differs). -/
theorem load_toFile (file : Bytes) (ld : Loaded) (h : load true file = .ok ld) :
    load false file = .ok ld.toFile := by
  unfold load at h ⊢
  cases hp : parseFooter file with
  | none => rw [hp] at h; cases h
  | some ft =>
    rw [hp] at h
    simp only at h ⊢
    obtain ⟨fa, hfa, h⟩ := bind_eq_ok h
    obtain ⟨offs, hoffs, h⟩ := bind_eq_ok h
    obtain ⟨dvr, hdvr, h⟩ := bind_eq_ok h
    have e1 := loadFields_toFile _ _ _ hfa
    have e3 := loadDvReaders_toFile _ _ _ _ hdvr
    simp only [Data.toFile] at e1 e3
    simp only [ChunkBytes.pure_eq_ok, Res.ok.injEq] at h
    subst h
    simp only [e1, ChunkBytes.ok_bind, hoffs, e3, ChunkBytes.pure_eq_ok]
    rfl

/-! ### the lazy readers -/

theorem dictionaryOf_toFile (K : Codecs) (ld : Loaded) (i : Nat) :
    OkLe (dictionaryOf K ld i) (dictionaryOf K ld.toFile i) := by
  unfold dictionaryOf
  have hd : ld.toFile.dictLocs = ld.dictLocs := rfl
  rw [hd]
  cases ld.dictLocs[i]? with
  | none => exact OkLe.refl _
  | some ds =>
    dsimp only
    by_cases h : ds > 0
    · rw [if_pos h, if_pos h]
      apply okLe_bind (read_toFile _ _ _)
      intro w
      generalize uvarintU64 w = p
      obtain ⟨a, b⟩ := p
      apply okLe_bind (read_toFile _ _ _)
      intro _
      exact OkLe.refl _
    · rw [if_neg h, if_neg h]; exact OkLe.refl _

theorem readRecord_toFile (K : Codecs) (ld : Loaded) (v : Nat) :
    OkLe (readRecord K ld v) (readRecord K ld.toFile v) := by
  unfold readRecord
  apply okLe_bind (read_toFile _ _ _)
  intro w1
  generalize uvarintU64 w1 = p1
  obtain ⟨a1, b1⟩ := p1
  apply okLe_bind (read_toFile _ _ _)
  intro w2
  generalize uvarintU64 w2 = p2
  obtain ⟨a2, b2⟩ := p2
  apply okLe_bind (read_toFile _ _ _)
  intro w3
  generalize uvarintU64 w3 = p3
  obtain ⟨a3, b3⟩ := p3
  apply okLe_bind (read_toFile _ _ _)
  intro _
  exact OkLe.refl _

theorem readPostings_toFile (K : Codecs) (ld : Loaded) (v : Nat) :
    OkLe (readPostings K ld v) (readPostings K ld.toFile v) := by
  unfold readPostings
  by_cases h : is1Hit v = true
  · rw [if_pos h, if_pos h]; exact OkLe.refl _
  · rw [if_neg h, if_neg h]
    apply okLe_bind (readRecord_toFile K ld v)
    intro _
    exact OkLe.refl _

theorem store_toFile (K : Codecs) (ld : Loaded) (v : Nat) (r : Dict.Rec)
    (h : ld.store K v = some r) : ld.toFile.store K v = some r := by
  unfold Loaded.store at h ⊢
  cases hr : readRecord K ld v with
  | ok r' =>
    rw [hr] at h
    rw [readRecord_toFile K ld v r' hr]
    exact h
  | err => rw [hr] at h; cases h
  | panic => rw [hr] at h; cases h

theorem storedSeg_toFile (ld : Loaded) : ld.toFile.storedSeg = ld.storedSeg := rfl

end Ice.Model.Format
