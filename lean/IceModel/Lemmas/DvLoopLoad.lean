import IceModel.Model.DvLoop
import IceModel.Lemmas.DocValues
import IceModel.Lemmas.Format
/-
  Every doc-value reader `load` puts into a segment has an empty cache: it is its own clone
  (`cloneInto` of the segment's reader, docvalues.go:307, is the reader as loaded).
-/
namespace Ice.Model.DvLoop
open Ice Ice.Model Ice.Model.DocValues Ice.Model.Format

theorem loadField_fresh {d : Data} {s e : Nat} {r : Reader}
    (h : loadFieldDocValueReader d s e = .ok (some r)) : r.clone = r := by
  unfold loadFieldDocValueReader at h
  split at h
  · simp at h
  · split at h
    · obtain ⟨a, _, h⟩ := DocValues.bind_eq_ok h
      obtain ⟨b, _, h⟩ := DocValues.bind_eq_ok h
      split at h
      · cases h
      · obtain ⟨offs, _, h⟩ := DocValues.bind_eq_ok h
        simp only [pure_eq, Res.ok.injEq, Option.some.injEq] at h
        subst h; rfl
    · cases h

theorem loadDvLoop_fresh (d : Data) (dvo : Nat) : ∀ (fs : List Bytes) (read : Nat)
    (rs : List (Option Reader)), loadDvLoop d dvo fs read = .ok rs →
    ∀ r, some r ∈ rs → r.clone = r := by
  intro fs
  induction fs with
  | nil =>
    intro read rs h r hr
    simp only [loadDvLoop, Res.ok.injEq] at h
    subst h; cases hr
  | cons f fs ih =>
    intro read rs h r hr
    simp only [loadDvLoop] at h
    obtain ⟨w, _, h⟩ := Format.bind_eq_ok h
    split at h
    · cases h
    · obtain ⟨w2, _, h⟩ := Format.bind_eq_ok h
      split at h
      · cases h
      · obtain ⟨o, ho, h⟩ := Format.bind_eq_ok h
        obtain ⟨rest, hrest, h⟩ := Format.bind_eq_ok h
        simp only [pure_eq, Res.ok.injEq] at h
        subst h
        rcases List.mem_cons.mp hr with e | e
        · rw [← e] at ho; exact loadField_fresh ho
        · exact ih _ _ hrest r e

theorem load_fresh {mem : Bool} {file : Bytes} {ld : Loaded} (h : load mem file = .ok ld) :
    ∀ (i : Nat) (r : Reader), ld.dvReaders[i]? = some (some r) → r.clone = r := by
  intro i r hi
  have hmem : some r ∈ ld.dvReaders := List.mem_of_getElem? hi
  unfold load at h
  split at h
  · cases h
  · obtain ⟨fa, _, h⟩ := Format.bind_eq_ok h
    obtain ⟨offs, _, h⟩ := Format.bind_eq_ok h
    obtain ⟨dvr, hdvr, h⟩ := Format.bind_eq_ok h
    simp only [pure_eq, Res.ok.injEq] at h
    subst h
    simp only at hmem
    unfold loadDvReaders at hdvr
    split at hdvr
    · simp only [Res.ok.injEq] at hdvr
      subst hdvr
      simp at hmem
    · exact loadDvLoop_fresh _ _ _ _ _ hdvr r hmem

end Ice.Model.DvLoop
