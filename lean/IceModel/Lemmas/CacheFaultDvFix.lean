import IceModel.Lemmas.CacheFaultDvMore
/-
  (c) docValueReader as it is now (`dfixed`, repair F-C19-dvheader: the key is invalidated before
  the first read and before the header is touched, and set last): every visit, in any order, under
  ANY oracle, returns exactly the document's values or an error caused by a read failing in that
  very call.  The loader is the pre-repair loader `dV0` started from a reader without a key.
-/
namespace Ice.Model.CacheFault

theorem loadDvChunk_fixed (st : DvStore) (o : Oracle) (clk : Nat) (r : DvReader) (n : Nat) (c : DvChunk)
    (hc : st n = some c) :
    r.loadDvChunk dfixed st o clk n =
      ({ r with curChunkNum := noChunk } : DvReader).loadDvChunk dV0 st o clk n := by
  unfold DvReader.loadDvChunk
  simp only [hc, dfixed, dV0]
  cases o clk <;> simp

/-- nothing cached, or exactly the chunk the key names -/
def Holds (st : DvStore) (r : DvReader) : Prop :=
  r.curChunkNum = noChunk ∨ (r.header = entriesOf st r.curChunkNum ∧ DataOK st r.curChunkNum r)

theorem full_holds (st : DvStore) (r : DvReader) (c : DvChunk) (n : Nat) (r' : DvReader)
    (hc : st n = some c) (hf : FullLoad r c n r') : Holds st r' := by
  refine Or.inr ⟨?_, ?_⟩
  · rw [hf.cur, entriesOf_some hc]
    apply List.ext_getElem?
    intro j
    rw [header_getElem?, hf.len, hf.cells j]
    split
    · rfl
    · rename_i hj
      exact (List.getElem?_eq_none (by omega)).symm
  · rw [hf.cur]
    unfold DataOK; rw [hc]
    exact ⟨hf.data, Or.inl hf.unc⟩

theorem visit_on_holds (chunkOf : Nat → Nat) (st : DvStore) (wf : DvWF chunkOf st) (r : DvReader) (d : Nat)
    (h : Holds st r) (hcur : r.curChunkNum = chunkOf d) (hd : chunkOf d ≠ noChunk) :
    (r.visitDocValues d).2 = specValues chunkOf st d ∧ Holds st (r.visitDocValues d).1 := by
  rcases h with h | ⟨hh, hdat⟩
  · exact absurd (hcur ▸ h) hd
  · rw [hcur] at hh hdat
    refine ⟨visitDocValues_clean chunkOf st wf r d hh hdat, Or.inr ?_⟩
    obtain ⟨_, h2, h3, h4, h5⟩ :=
      visitDocValues_safe chunkOf st wf r d (safeView_of_eq chunkOf st _ _ hh) hdat
    rw [h4, hcur, header_congr h2 h3]
    exact ⟨hh, h5⟩

/-- ONE VISIT on the current code, any oracle: exactly the values, or an error with a read
    that failed during the call; the reader keeps `Holds` -/
theorem visit_fixed (chunkOf : Nat → Nat) (st : DvStore) (wf : DvWF chunkOf st) (o : Oracle)
    (clk : Nat) (r : DvReader) (d : Nat) (h : Holds st r) (hd : chunkOf d ≠ noChunk) :
    ((r.visit dfixed chunkOf st o clk d).2.2 = specValues chunkOf st d ∨
      ((r.visit dfixed chunkOf st o clk d).2.2 = .error ∧
        ∃ k, clk ≤ k ∧ k < (r.visit dfixed chunkOf st o clk d).2.1 ∧ o k = true)) ∧
    Holds st (r.visit dfixed chunkOf st o clk d).1 := by
  unfold DvReader.visit
  by_cases hmiss : chunkOf d ≠ r.curChunkNum
  · rw [if_pos hmiss]
    cases hc : st (chunkOf d) with
    | none =>
      rw [loadDvChunk_none dfixed st o clk r _ hc]
      simp only [Bool.not_true, Bool.false_eq_true, if_false]
      have hh : Holds st { r with hdrLen := 0, data := none, curChunkNum := chunkOf d, uncompressed := [] } :=
        Or.inr ⟨by simp [DvReader.header, entriesOf, hc], by simp [DataOK, hc]⟩
      obtain ⟨h1, h2⟩ := visit_on_holds chunkOf st wf _ d hh rfl hd
      exact ⟨Or.inl h1, h2⟩
    | some c =>
      rw [loadDvChunk_fixed st o clk r _ c hc]
      rcases loadDvChunk_result st o clk { r with curChunkNum := noChunk } (chunkOf d) c hc with
        ⟨ho, hL⟩ | ⟨_, hfail, hp, k, hk1, hk2, hk3⟩ | ⟨hok, _, hfull⟩
      · rw [hL]
        simp only [Bool.not_false, if_true]
        exact ⟨Or.inr ⟨by trivial, clk, Nat.le_refl _, by omega, ho⟩, Or.inl rfl⟩
      · have hcur := hp.cur
        rcases hL : ({ r with curChunkNum := noChunk } : DvReader).loadDvChunk dV0 st o clk (chunkOf d) with ⟨r1, clk1, ok⟩
        rw [hL] at hfail hk2 hcur
        simp only at hfail hk2 hcur
        subst hfail
        simp only [Bool.not_false, if_true]
        exact ⟨Or.inr ⟨by trivial, k, hk1, hk2, hk3⟩, Or.inl hcur⟩
      · have hh1 := full_holds st _ c _ _ hc hfull
        have hcur := hfull.cur
        rcases hL : ({ r with curChunkNum := noChunk } : DvReader).loadDvChunk dV0 st o clk (chunkOf d) with ⟨r1, clk1, ok⟩
        rw [hL] at hok hh1 hcur
        simp only at hok hh1 hcur
        subst hok
        simp only [Bool.not_true, Bool.false_eq_true, if_false]
        obtain ⟨h1, h2⟩ := visit_on_holds chunkOf st wf r1 d hh1 hcur hd
        exact ⟨Or.inl h1, h2⟩
  · have hcur : r.curChunkNum = chunkOf d := by
      have : ¬ ¬ chunkOf d = r.curChunkNum := hmiss
      exact (Classical.not_not.mp this).symm
    rw [if_neg hmiss]
    obtain ⟨h1, h2⟩ := visit_on_holds chunkOf st wf r d h hcur hd
    exact ⟨Or.inl h1, h2⟩

/-- exactly the values, or an error -/
def DvExact (chunkOf : Nat → Nat) (st : DvStore) (out : Outcome (List Nat)) (d : Nat) : Prop :=
  out = specValues chunkOf st d ∨ out = .error

theorem run_fixed (chunkOf : Nat → Nat) (st : DvStore) (wf : DvWF chunkOf st) (o : Oracle) (ds : List Nat) :
    ∀ (clk : Nat) (r : DvReader), Holds st r → (∀ d ∈ ds, chunkOf d ≠ noChunk) →
    Pointwise (DvExact chunkOf st) (DvReader.run dfixed chunkOf st o clk r ds) ds := by
  induction ds with
  | nil => intro _ _ _ _; exact .nil
  | cons d ds ih =>
    intro clk r h hd
    obtain ⟨h1, h2⟩ := visit_fixed chunkOf st wf o clk r d h (hd d (by simp))
    simp only [DvReader.run]
    exact .cons (h1.imp id (fun h => h.1)) (ih _ _ h2 (fun x hx => hd x (by simp [hx])))

/-- on a healthy storage every visit returns exactly the document's values -/
theorem run_fixed_healthy (chunkOf : Nat → Nat) (st : DvStore) (wf : DvWF chunkOf st) (ds : List Nat) :
    ∀ (clk : Nat) (r : DvReader), Holds st r → (∀ d ∈ ds, chunkOf d ≠ noChunk) →
    DvReader.run dfixed chunkOf st healthy clk r ds = ds.map (specValues chunkOf st) := by
  induction ds with
  | nil => intro _ _ _ _; rfl
  | cons d ds ih =>
    intro clk r h hd
    obtain ⟨h1, h2⟩ := visit_fixed chunkOf st wf healthy clk r d h (hd d (by simp))
    simp only [DvReader.run, List.map_cons]
    have hout : (r.visit dfixed chunkOf st healthy clk d).2.2 = specValues chunkOf st d := by
      rcases h1 with h1 | ⟨_, k, _, _, hk⟩
      · exact h1
      · simp [healthy] at hk
    rw [hout, ih _ _ h2 (fun x hx => hd x (by simp [hx]))]

end Ice.Model.CacheFault
