import IceModel.Model.IterBytes
import IceModel.Lemmas.Iter
import IceModel.Lemmas.ChunkBytes
/-
  The abstraction from the byte-level iterator (`Model/IterBytes.lean`) to the entry-level one
  (`Model/Iter.lean`), the environment a well-formed byte-level iterator lives in (`Env`), and the
  invariant `WF`.
-/
namespace Ice.Model.IterBytes
open Ice Ice.Spec Ice.Model Ice.Model.ChunkBytes
open Ice.Model.Iter (RFlags It)

/-! ### entries ↦ postings -/

/-- a location as the caller sees it: `l.field = fieldsInv[fieldID]` -/
def toLoc (finv : List Bytes) (l : BLoc) : Loc :=
  { field := (finv[l.fieldID]?).getD [], pos := l.pos, start := l.start, stop := l.stop }

def toP (finv : List Bytes) (e : Entry) : Posting :=
  { doc := e.doc, freq := e.freq, norm := e.norm, locs := e.locs.map (toLoc finv) }

def hasLocsE (e : Entry) : Bool := !e.locs.isEmpty

/-- the entries of chunk `c` (as `Ice.Props.ChunkBytes.chunkOf`) -/
def chunkE (cs : Nat) (es : List Entry) (c : Nat) : List Entry :=
  es.filter (fun e => e.doc / cs == c)

theorem hasLocs_toP (finv : List Bytes) (e : Entry) : Iter.hasLocs (toP finv e) = hasLocsE e := by
  cases h : e.locs <;> simp [Iter.hasLocs, toP, hasLocsE, h]

theorem filter_hasLocs_map (finv : List Bytes) (l : List Entry) :
    (l.map (toP finv)).filter Iter.hasLocs = (l.filter hasLocsE).map (toP finv) := by
  induction l with
  | nil => rfl
  | cons e t ih =>
    simp only [List.map_cons, List.filter_cons, hasLocs_toP]
    cases hasLocsE e <;> simp [ih]

theorem chunkOf_map (finv : List Bytes) (cs : Nat) (es : List Entry) (c : Nat) :
    Iter.chunkOf cs (es.map (toP finv)) c = (chunkE cs es c).map (toP finv) := by
  unfold Iter.chunkOf chunkE
  induction es with
  | nil => rfl
  | cons e t ih =>
    simp only [List.map_cons, List.filter_cons]
    have : (toP finv e).doc = e.doc := rfl
    rw [this]
    cases (e.doc / cs == c) <;> simp [ih]

/-! ### byte cursors ↦ entries still ahead -/

/-- the entries of `l` whose freq/norm bytes lie at or behind byte offset `n` of `fnBytes l` -/
def dropFN : Nat → List Entry → List Entry
  | _, [] => []
  | n, e :: es => if (encFN e).length ≤ n then dropFN (n - (encFN e).length) es else e :: es

/-- the same for the location stream (used on lists all of whose entries have locations) -/
def dropLoc : Nat → List Entry → List Entry
  | _, [] => []
  | n, e :: es => if (encLocs e).length ≤ n then dropLoc (n - (encLocs e).length) es else e :: es

theorem dropFN_split (pre rest : List Entry) : dropFN (fnBytes pre).length (pre ++ rest) = rest := by
  induction pre with
  | nil =>
    cases rest with
    | nil => rfl
    | cons e r =>
      have := encFN_length_pos e
      simp only [fnBytes, List.flatMap_nil, List.length_nil, List.nil_append, dropFN]
      rw [if_neg (by omega)]
  | cons p ps ih =>
    have e1 : (fnBytes (p :: ps)).length = (encFN p).length + (fnBytes ps).length := by
      simp [fnBytes]
    rw [e1, List.cons_append, dropFN, if_pos (by omega)]
    have : (encFN p).length + (fnBytes ps).length - (encFN p).length = (fnBytes ps).length := by omega
    rw [this, ih]

theorem encLocs_length_pos {e : Entry} (h : e.locs ≠ []) : 0 < (encLocs e).length := by
  rw [encLocs_of_ne h]
  have := List.length_pos_iff.mpr (putUvarint_ne_nil (numBytesLocs e))
  simp only [List.length_append]; omega

theorem dropLoc_split (pre rest : List Entry) (h : ∀ e ∈ rest, e.locs ≠ []) :
    dropLoc (locBytes pre).length (pre ++ rest) = rest := by
  induction pre with
  | nil =>
    cases rest with
    | nil => rfl
    | cons e r =>
      have := encLocs_length_pos (h e (by simp))
      simp only [locBytes, List.flatMap_nil, List.length_nil, List.nil_append, dropLoc]
      rw [if_neg (by omega)]
  | cons p ps ih =>
    have e1 : (locBytes (p :: ps)).length = (encLocs p).length + (locBytes ps).length := by
      simp [locBytes]
    rw [e1, List.cons_append, dropLoc, if_pos (by omega)]
    have : (encLocs p).length + (locBytes ps).length - (encLocs p).length = (locBytes ps).length := by
      omega
    rw [this, ih]

theorem fnBytes_eq_nil {l : List Entry} (h : fnBytes l = []) : l = [] := by
  cases l with
  | nil => rfl
  | cons e t =>
    have := encFN_length_pos e
    have h' := congrArg List.length h
    simp only [fnBytes, List.flatMap_cons, List.length_append, List.length_nil] at h'
    omega

theorem mem_filter_hasLocsE {l : List Entry} {e : Entry} (h : e ∈ l.filter hasLocsE) : e.locs ≠ [] := by
  have := (List.mem_filter.mp h).2
  intro h0
  simp [hasLocsE, h0] at this

theorem locBytes_filter (l : List Entry) : locBytes (l.filter hasLocsE) = locBytes l := by
  induction l with
  | nil => rfl
  | cons e t ih =>
    unfold locBytes at ih ⊢
    cases h : hasLocsE e with
    | true => rw [List.filter_cons_of_pos (by simp [h])]; simp [ih]
    | false =>
      rw [List.filter_cons_of_neg (by simp [h])]
      have : encLocs e = [] := by
        have : e.locs.isEmpty = true := by simpa [hasLocsE] using h
        simp [encLocs, this]
      simp [ih, this]

theorem locBytes_eq_nil {l : List Entry} (h : locBytes l = []) : l.filter hasLocsE = [] := by
  rw [← locBytes_filter] at h
  cases hl : l.filter hasLocsE with
  | nil => rfl
  | cons e t =>
    exfalso
    have he : e.locs ≠ [] := mem_filter_hasLocsE (l := l) (by rw [hl]; simp)
    have := encLocs_length_pos he
    rw [hl] at h
    have h' := congrArg List.length h
    simp only [locBytes, List.flatMap_cons, List.length_append, List.length_nil] at h'
    omega

/-! ### the abstraction -/

/-- the cursor of the decoder's reader (a nil reader has consumed nothing) -/
def rdC (b : DecB) : Nat :=
  match b.r with
  | some r => r.C
  | none => 0

/-- freq/norm decoder ↦ `fnR`: `isNil` ↦ `none`; otherwise the entries of the chunk that lie at
    or behind the cursor -/
def absFn (finv : List Bytes) (chunk : List Entry) (b : DecB) : Option (List Posting) :=
  if b.isNil then none else some ((dropFN (rdC b) chunk).map (toP finv))

/-- location decoder ↦ `lcR`: no reader or a reader on the empty slice ↦ `[]`; otherwise the
    entries with locations of the chunk that lie at or behind the cursor -/
def absLc (finv : List Bytes) (chunk : List Entry) (b : DecB) : List Posting :=
  match b.r with
  | none => []
  | some r => if r.S.isEmpty then [] else (dropLoc r.C (chunk.filter hasLocsE)).map (toP finv)

/-- everything that does not change during the life of an iterator -/
structure Env where
  K : Codec
  es : List Entry            -- the postings the writer encoded
  cs : Nat
  maxDoc : Nat
  file : Bool
  data : Bytes
  freqOffset : Nat
  locOffset : Nat
  finv : List Bytes
  dt : Decoder               -- what `newChunkedIntDecoder(data, freqOffset, _)` parses
  dl : Decoder               -- what `newChunkedIntDecoder(data, locOffset, _)` parses

def absFnR (E : Env) (i : ItB) : Option (List Posting) :=
  if i.fl.incFN then
    (match i.fnR with
     | some b => absFn E.finv (chunkE E.cs E.es i.currChunk) b
     | none => none)
  else none

def absLcR (E : Env) (i : ItB) : List Posting :=
  if i.fl.incL then
    (match i.lcR with
     | some b => absLc E.finv (chunkE E.cs E.es i.currChunk) b
     | none => [])
  else []

/-- THE ABSTRACTION: byte-level state ↦ entry-level state -/
def absIt (E : Env) (i : ItB) : It :=
  { cs := i.cs, P := E.es.map (toP E.finv), all := i.all, act := i.act, clean := i.clean,
    currChunk := i.currChunk, fnR := absFnR E i, lcR := absLcR E i, fl := i.fl }

/-- The streams in `data` at `freqOffset` / `locOffset` are what the writer produced for `es`
    (conclusions of T6/T7), and `es` respects the input contract. -/
structure Env.OK (E : Env) : Prop where
  cspos : 0 < E.cs
  valid : ∀ e ∈ E.es, e.Valid
  freq : ∀ e ∈ E.es, e.locs.length ≤ e.freq
  norm : ∀ e ∈ E.es, e.norm < 2 ^ 32
  fld : ∀ e ∈ E.es, ∀ l ∈ e.locs, l.fieldID < E.finv.length
  doc : ∀ e ∈ E.es, e.doc ≤ E.maxDoc
  newT : Decoder.newWith E.file E.data E.freqOffset = .ok E.dt
  newL : Decoder.newWith E.file E.data E.locOffset = .ok E.dl
  loadT : ∀ c, c ≤ E.maxDoc / E.cs → E.dt.loadChunk E.K c = .ok (fnBytes (chunkE E.cs E.es c))
  loadL : ∀ c, c ≤ E.maxDoc / E.cs → E.dl.loadChunk E.K c = .ok (locBytes (chunkE E.cs E.es c))

/-- the freq/norm decoder sits over the right stream; if a chunk is loaded, it is chunk `c` of
    the writer and the cursor stands at an entry boundary -/
structure FnOK (E : Env) (c : Nat) (b : DecB) : Prop where
  dEq : b.d = E.dt
  dataOk : b.dataNil = false
  zero : b.d.startOffset = 0 → b.curChunkBytes = []
  pos : b.curChunkBytes ≠ [] → ∃ pre rest, chunkE E.cs E.es c = pre ++ rest ∧
    b.curChunkBytes = fnBytes (pre ++ rest) ∧
    b.r = some ⟨fnBytes (pre ++ rest), (fnBytes pre).length⟩

/-- the same for the location decoder (over the entries of the chunk that have locations) -/
structure LcOK (E : Env) (c : Nat) (b : DecB) : Prop where
  dEq : b.d = E.dl
  dataOk : b.dataNil = false
  zero : b.d.startOffset = 0 → ∀ r, b.r = some r → r = ⟨[], 0⟩   -- `termNotEncoded`: never read
  pos : ∀ r, b.r = some r → r.S ≠ [] → ∃ pre rest,
    (chunkE E.cs E.es c).filter hasLocsE = pre ++ rest ∧
    r = ⟨locBytes (pre ++ rest), (locBytes pre).length⟩

/-- the location reader is as far as the freq/norm reader (entry level) -/
def Aligned (j : It) : Prop :=
  j.fl.incL = true → ∀ l, j.fnR = some l → j.lcR = l.filter Iter.hasLocs

/-- THE INVARIANT -/
structure WF (E : Env) (i : ItB) : Prop where
  cs : i.cs = E.cs
  finv : i.fieldsInv = E.finv
  act : ∀ n ∈ i.act, n ≤ E.maxDoc
  fn : i.fl.incFN = true → ∃ b, i.fnR = some b ∧ FnOK E i.currChunk b
  lc : i.fl.incL = true → ∃ b, i.lcR = some b ∧ LcOK E i.currChunk b
  aligned : Aligned (absIt E i)

/-- what the reader operations leave alone -/
structure SameB (i j : ItB) : Prop where
  cs : j.cs = i.cs
  finv : j.fieldsInv = i.fieldsInv
  fl : j.fl = i.fl
  all : j.all = i.all
  act : j.act = i.act
  clean : j.clean = i.clean

theorem SameB.refl (i : ItB) : SameB i i := ⟨rfl, rfl, rfl, rfl, rfl, rfl⟩

theorem SameB.trans {i j k : ItB} (h1 : SameB i j) (h2 : SameB j k) : SameB i k :=
  ⟨h2.cs.trans h1.cs, h2.finv.trans h1.finv, h2.fl.trans h1.fl, h2.all.trans h1.all,
   h2.act.trans h1.act, h2.clean.trans h1.clean⟩

theorem It.ext' {a b : It} (h1 : a.cs = b.cs) (h2 : a.P = b.P) (h3 : a.all = b.all)
    (h4 : a.act = b.act) (h5 : a.clean = b.clean) (h6 : a.currChunk = b.currChunk)
    (h7 : a.fnR = b.fnR) (h8 : a.lcR = b.lcR) (h9 : a.fl = b.fl) : a = b := by
  cases a; cases b; simp_all

/-! ### reading the abstraction off the invariant -/

theorem absFn_nil {finv : List Bytes} {chunk : List Entry} {b : DecB} (h : b.curChunkBytes = []) :
    absFn finv chunk b = none := by
  simp [absFn, DecB.isNil, h]

theorem absFn_isNone (finv : List Bytes) (chunk : List Entry) (b : DecB) :
    (absFn finv chunk b).isNone = b.isNil := by
  unfold absFn
  cases b.isNil <;> simp

theorem absFn_pos {finv : List Bytes} {b : DecB} {pre rest : List Entry}
    (h1 : b.curChunkBytes ≠ [])
    (h2 : b.r = some ⟨fnBytes (pre ++ rest), (fnBytes pre).length⟩) :
    absFn finv (pre ++ rest) b = some (rest.map (toP finv)) := by
  have : b.isNil = false := by
    cases h : b.curChunkBytes with
    | nil => exact absurd h h1
    | cons _ _ => simp [DecB.isNil, h]
  simp [absFn, this, rdC, h2, dropFN_split]

theorem absLc_none {finv : List Bytes} {chunk : List Entry} {b : DecB} (h : b.r = none) :
    absLc finv chunk b = [] := by
  simp [absLc, h]

theorem absLc_empty {finv : List Bytes} {chunk : List Entry} {b : DecB} {r : Rd} (h : b.r = some r)
    (hS : r.S = []) : absLc finv chunk b = [] := by
  simp [absLc, h, hS]

theorem absLc_pos {finv : List Bytes} {chunk : List Entry} {b : DecB} {pre rest : List Entry}
    (hsplit : chunk.filter hasLocsE = pre ++ rest)
    (h2 : b.r = some ⟨locBytes (pre ++ rest), (locBytes pre).length⟩) :
    absLc finv chunk b = rest.map (toP finv) := by
  have hrest : ∀ e ∈ rest, e.locs ≠ [] := by
    intro e he
    apply mem_filter_hasLocsE (l := chunk)
    rw [hsplit]; simp [he]
  unfold absLc
  rw [h2]
  simp only
  by_cases hS : (locBytes (pre ++ rest)).isEmpty = true
  · rw [if_pos hS]
    have h0 : locBytes (pre ++ rest) = [] := by simpa using hS
    have := locBytes_eq_nil h0
    rw [← hsplit, List.filter_filter] at this
    simp only [Bool.and_self] at this
    rw [hsplit] at this
    have : rest = [] := by
      cases rest with
      | nil => rfl
      | cons x _ => simp at this
    simp [this]
  · rw [if_neg hS, hsplit, dropLoc_split pre rest hrest]

/-- the abstraction of the location reader under `LcOK`, whatever the reader is -/
theorem LcOK.abs_cases {E : Env} {c : Nat} {b : DecB} (h : LcOK E c b) :
    absLc E.finv (chunkE E.cs E.es c) b = [] ∨
    ∃ pre rest, (chunkE E.cs E.es c).filter hasLocsE = pre ++ rest ∧
      b.r = some ⟨locBytes (pre ++ rest), (locBytes pre).length⟩ ∧
      absLc E.finv (chunkE E.cs E.es c) b = rest.map (toP E.finv) := by
  cases hr : b.r with
  | none => exact Or.inl (absLc_none hr)
  | some r =>
    by_cases hS : r.S = []
    · exact Or.inl (absLc_empty hr hS)
    · obtain ⟨pre, rest, h1, h2⟩ := h.pos r hr hS
      right
      refine ⟨pre, rest, h1, by rw [h2], ?_⟩
      exact absLc_pos h1 (by rw [hr, h2])

theorem Aligned.of_eq {j j' : It} (h : Aligned j) (h1 : j'.fl = j.fl) (h2 : j'.fnR = j.fnR)
    (h3 : j'.lcR = j.lcR) : Aligned j' := by
  intro hl l hf
  rw [h3]
  exact h (by rw [← h1]; exact hl) l (by rw [← h2]; exact hf)

end Ice.Model.IterBytes
