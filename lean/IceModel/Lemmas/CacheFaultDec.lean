import IceModel.Model.CacheFault
/-
  (a) `chunkedIntDecoder.loadChunk` is atomic with respect to storage faults: a failing load
  leaves the decoder exactly as it was; a read that does not fail behaves as on a healthy storage.
-/
namespace Ice.Model.CacheFault

theorem failFrom_lt {f k : Nat} (h : k < f) : failFrom f k = false := by
  simp [failFrom]; omega

theorem failFrom_ge {f k : Nat} (h : f ≤ k) : failFrom f k = true := by
  simp [failFrom]; omega

namespace Dec
variable {α : Type}

/-- a load whose read does not fail is the healthy load -/
theorem loadChunk_of_read_ok (st : Store α) (o : Oracle) (clk : Nat) (d : Dec α) (n : Nat)
    (h : o clk = false) : d.loadChunk st o clk n = d.loadChunk st healthy clk n := by
  unfold loadChunk; simp [h, healthy]

/-- ATOMICITY: a failed load leaves the decoder untouched (any oracle) -/
theorem loadChunk_fail_unchanged (st : Store α) (o : Oracle) (clk : Nat) (d : Dec α) (n : Nat)
    (h : (d.loadChunk st o clk n).2.2 = false) : (d.loadChunk st o clk n).1 = d := by
  unfold loadChunk at h ⊢
  split
  · simp_all
  · split
    · rfl
    · split
      · rfl
      · simp_all

/-- on a failing storage an encoded decoder cannot load: error, nothing changes -/
theorem loadChunk_of_read_fails (st : Store α) (o : Oracle) (clk : Nat) (d : Dec α) (n : Nat)
    (he : d.encoded = true) (h : o clk = true) :
    ∃ clk', clk ≤ clk' ∧ d.loadChunk st o clk n = (d, clk', false) := by
  unfold loadChunk
  simp [he]
  split
  · exact ⟨clk, Nat.le_refl _, rfl⟩
  · simp [h]

/-- under `failFrom`: the healthy load, or an error that leaves everything as it was and proves
    that the storage is already failing -/
theorem loadChunk_failFrom (st : Store α) (f clk : Nat) (d : Dec α) (n : Nat) :
    d.loadChunk st (failFrom f) clk n = d.loadChunk st healthy clk n ∨
    (d.loadChunk st (failFrom f) clk n = (d, clk + 1, false) ∧ f ≤ clk) := by
  by_cases h : f ≤ clk
  · unfold loadChunk
    split
    · left; rfl
    · split
      · left; rfl
      · right; simp [failFrom_ge h, h]
  · left; exact loadChunk_of_read_ok st _ clk d n (failFrom_lt (by omega))

theorem loadChunk_clk_le (st : Store α) (o : Oracle) (clk : Nat) (d : Dec α) (n : Nat) :
    clk ≤ (d.loadChunk st o clk n).2.1 := by
  unfold loadChunk
  split
  · simp
  · split
    · simp
    · split <;> simp

theorem loadChunk_encoded (st : Store α) (o : Oracle) (clk : Nat) (d : Dec α) (n : Nat) :
    (d.loadChunk st o clk n).1.encoded = d.encoded := by
  unfold loadChunk
  split
  · simp
  · split
    · simp
    · split <;> simp

/-- what a successful load of an encoded decoder leaves -/
theorem loadChunk_ok_encoded (st : Store α) (o : Oracle) (clk : Nat) (d : Dec α) (n : Nat)
    (he : d.encoded = true) (h : (d.loadChunk st o clk n).2.2 = true) :
    ∃ c, st n = some c ∧ (d.loadChunk st o clk n).1.bytes = some c ∧
      (d.loadChunk st o clk n).1.rdr = some (c, 0) := by
  unfold loadChunk at h ⊢
  simp [he] at h ⊢
  split
  · simp_all
  · rename_i c hc
    simp [hc] at h
    split
    · simp_all
    · exact ⟨c, hc, rfl, rfl⟩

/-- what a "successful" load of a not-encoded decoder leaves: an empty reader, bytes untouched -/
theorem loadChunk_not_encoded (st : Store α) (o : Oracle) (clk : Nat) (d : Dec α) (n : Nat)
    (he : d.encoded = false) :
    d.loadChunk st o clk n = ({ d with rdr := some ([], 0) }, clk, true) := by
  unfold loadChunk; simp [he]

theorem read_bytes (d : Dec α) : d.read.1.bytes = d.bytes ∧ d.read.1.encoded = d.encoded := by
  unfold read
  split
  · simp
  · split <;> simp

theorem read_rdr (d : Dec α) (s : List α) (c : Nat) (h : d.rdr = some (s, c)) :
    ∃ c', d.read.1.rdr = some (s, c') := by
  unfold read
  simp [h]
  split
  · exact ⟨c + 1, rfl⟩
  · exact ⟨c, by simp [h]⟩

theorem read_rdr_ne_none (d : Dec α) (h : d.rdr ≠ none) : d.read.1.rdr ≠ none := by
  unfold read
  split
  · simp_all
  · split <;> simp_all

/-- a read panics only on a nil reader or an exhausted chunk -/
theorem read_no_error (d : Dec α) : d.read.2 ≠ .error := by
  unfold read
  split
  · simp
  · split <;> simp

end Dec
end Ice.Model.CacheFault
