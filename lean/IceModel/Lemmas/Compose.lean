import IceModel.Spec.Seg
import IceModel.Lemmas.Sort
import IceModel.Lemmas.Merge
/-
  Compositionality of `Spec.merge`: replacing one input by the inputs it was merged from.
-/
namespace Ice.Spec

/-- deletions renumbered into the concatenation of the segments' documents (the recursion of
    `Props.C17.translate`) -/
def shiftDrops : List (AbsSeg × List Nat) → Nat → List Nat
  | [], _ => []
  | (s, d) :: r, base => d.map (· + base) ++ shiftDrops r (base + s.docs.length)

theorem shiftDrops_ge (A : List (AbsSeg × List Nat)) (base x : Nat) (h : x ∈ shiftDrops A base) :
    base ≤ x := by
  induction A generalizing base with
  | nil => simp [shiftDrops] at h
  | cons p r ih =>
    obtain ⟨s, d⟩ := p
    simp only [shiftDrops, List.mem_append, List.mem_map] at h
    rcases h with ⟨y, _, rfl⟩ | h
    · omega
    · have := ih _ h; omega

/-- filtering the concatenated documents by the renumbered deletions = concatenating the
    survivors; validity (`d < length`) keeps the numbers of different segments apart -/
theorem keepP_shiftDrops (A : List (AbsSeg × List Nat)) (base : Nat) (P : Nat → Bool)
    (hv : ∀ p ∈ A, ∀ x ∈ p.2, x < p.1.docs.length)
    (hP : ∀ i, base ≤ i → P i = !(shiftDrops A base).contains i) :
    keepP P base (A.flatMap (fun p => p.1.docs)) = A.flatMap (fun p => survivors p.1 p.2) := by
  induction A generalizing base with
  | nil => rfl
  | cons p r ih =>
    obtain ⟨s, d⟩ := p
    have hd : ∀ x ∈ d, x < s.docs.length := hv (s, d) (by simp)
    simp only [List.flatMap_cons, keepP_append]
    congr 1
    · rw [keepP_shift, survivors_eq]
      apply keepP_congr
      intro i _ hi
      rw [hP (i + base) (by omega)]
      congr 1
      rw [Bool.eq_iff_iff]
      simp only [List.contains_iff_mem, shiftDrops, List.mem_append, List.mem_map]
      constructor
      · rintro (⟨y, hy, hyi⟩ | h)
        · have : y = i := by omega
          subst this; exact hy
        · have := shiftDrops_ge _ _ _ h
          simp at hi; omega
      · intro h
        exact Or.inl ⟨i, h, rfl⟩
    · apply ih
      · intro p hp; exact hv p (List.mem_cons_of_mem _ hp)
      · intro i hi
        rw [hP i (by omega)]
        congr 1
        rw [Bool.eq_iff_iff]
        simp only [List.contains_iff_mem, shiftDrops, List.mem_append, List.mem_map]
        constructor
        · rintro (⟨y, hy, hyi⟩ | h)
          · have := hd y hy; omega
          · exact h
        · exact Or.inr

theorem merge_docs_noDrops (m : Nat) (A : List (AbsSeg × List Nat)) :
    (merge m (A.map (fun p => (p.1, ([] : List Nat))))).1.docs = A.flatMap (fun p => p.1.docs) := by
  simp only [merge_docs, List.flatMap_map, survivors_nil]

theorem merge_fields_noDrops (m : Nat) (A : List (AbsSeg × List Nat)) :
    (merge m (A.map (fun p => (p.1, ([] : List Nat))))).1.fields =
      fieldList (A.flatMap (fun p => p.1.fields)) := by
  simp only [merge_fields, List.flatMap_map]

/-- the survivors of an inner deletion-free merge under the renumbered deletions -/
theorem survivors_merge_noDrops (m : Nat) (A : List (AbsSeg × List Nat))
    (hv : ∀ p ∈ A, ∀ x ∈ p.2, x < p.1.docs.length) :
    survivors (merge m (A.map (fun p => (p.1, ([] : List Nat))))).1 (shiftDrops A 0) =
      A.flatMap (fun p => survivors p.1 p.2) := by
  rw [survivors_eq, merge_docs_noDrops]
  exact keepP_shiftDrops A 0 _ hv (fun _ _ => rfl)

/-- an input `(M, T)` may be replaced by inputs `A` with the same survivors and the same fields -/
theorem merge_replace (m m' : Nat) (pre A post : List (AbsSeg × List Nat)) (M : AbsSeg)
    (T : List Nat) (hd : survivors M T = A.flatMap (fun p => survivors p.1 p.2))
    (hf : ∀ x, x ≠ idField → (x ∈ M.fields ↔ x ∈ A.flatMap (fun p => p.1.fields))) :
    (merge m (pre ++ [(M, T)] ++ post)).1.docs = (merge m' (pre ++ A ++ post)).1.docs ∧
    (merge m (pre ++ [(M, T)] ++ post)).1.fields = (merge m' (pre ++ A ++ post)).1.fields ∧
    (merge m (pre ++ [(M, T)] ++ post)).1.fieldDocs = (merge m' (pre ++ A ++ post)).1.fieldDocs ∧
    (merge m (pre ++ [(M, T)] ++ post)).1.fieldFreqs =
      (merge m' (pre ++ A ++ post)).1.fieldFreqs := by
  apply merge_congr
  · simp only [merge_docs, List.flatMap_append, List.flatMap_cons, List.flatMap_nil,
      List.append_nil, hd]
  · simp only [merge_fields]
    apply fieldList_congr
    intro x hx
    simp only [List.flatMap_append, List.flatMap_cons, List.flatMap_nil, List.append_nil,
      List.mem_append, hf x hx]

/-- the fields of a merge, up to `_id`, are the fields of its inputs -/
theorem mem_merge_fields (m : Nat) (A : List (AbsSeg × List Nat)) (x : Bytes) (hx : x ≠ idField) :
    x ∈ (merge m A).1.fields ↔ x ∈ A.flatMap (fun p => p.1.fields) := by
  rw [merge_fields, mem_fieldList]; simp [hx]

end Ice.Spec
