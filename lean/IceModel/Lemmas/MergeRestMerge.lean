import IceModel.Lemmas.MergeRestCopy
/-
  `mergeStoredAndRemap` as a whole: whichever path each input segment takes, the destination
  receives the survivors' documents regrouped by merged field id, and the section written is
  `Stored.writeStoredFields` of them.
-/
namespace Ice.Model.MergeRest
open Ice Ice.Model Ice.Model.Stored
open Ice.Spec (keepP keepP_nil keepP_cons keepP_true length_keepP liveCount liveCount_nil remapAll)

/-! ### survivors as a filter of document numbers -/

theorem keepP_eq_filter_range {α : Type} (p : Nat → Bool) (a : α) (l : List α) : ∀ k,
    keepP p k l = ((List.range' k l.length).filter p).map (fun i => l.getD (i - k) a) := by
  induction l with
  | nil => intro k; simp [keepP_nil]
  | cons x l ih =>
    intro k
    rw [keepP_cons, ih (k + 1), List.length_cons, List.range'_succ, List.filter_cons]
    have htail : ((List.range' (k + 1) l.length).filter p).map (fun i => l.getD (i - (k + 1)) a) =
        ((List.range' (k + 1) l.length).filter p).map (fun i => (x :: l).getD (i - k) a) := by
      apply List.map_congr_left
      intro i hi
      have := (List.mem_range'_1.1 (List.mem_filter.1 hi).1).1
      have e : i - k = (i - (k + 1)) + 1 := by omega
      rw [e]; simp
    rw [htail]
    by_cases hp : p k = true
    · simp [hp]
    · simp [hp]

theorem filter_range_map_getD {α β : Type} (p : Nat → Bool) (a : α) (f : α → β) (l : List α) :
    ((List.range l.length).filter p).map (fun i => f (l.getD i a)) = (keepP p 0 l).map f := by
  rw [keepP_eq_filter_range p a l 0, List.range_eq_range', List.map_map]
  rfl

/-! ### `Tracks` only sees the flat values -/

theorem Tracks.congr {cd : Codec} {c0 : Coder} {total : Nat} {st : MS} {A B : List Doc}
    (h : Tracks cd c0 total st A) (hab : A.map flat = B.map flat) : Tracks cd c0 total st B := by
  have hl : A.length = B.length := by
    have := congrArg List.length hab; simpa using this
  have hw := writeDocs_congr cd A B hab c0 []
  exact ⟨by rw [← hw]; exact h.coder, by rw [← hl]; exact h.num, by rw [← hw, ← hl]; exact h.dno⟩

/-- entry `j` of the per-document offsets is the size of the destination buffer just before
    document `j` was added -/
theorem writeDocs_snd_getElem?_aux (cd : Codec) : ∀ (L : List Doc) (c : Coder) (dso : List Nat)
    (j : Nat), j < L.length →
    (writeDocs cd L c dso).2[dso.length + j]? =
      some (writeDocs cd (L.take j) c dso).1.buf.length := by
  intro L
  induction L with
  | nil => intro c dso j h; simp at h
  | cons d L ih =>
    intro c dso j hj
    cases j with
    | zero =>
      simp only [writeDocs, List.take_zero, Nat.add_zero]
      obtain ⟨_, _, ⟨z, hz⟩⟩ := writeDocs_ext cd L
        (c.add cd (encodeDoc d {}).mta (encodeDoc d {}).data) (dso ++ [c.buf.length])
      rw [hz, List.append_assoc, List.getElem?_append_right (by omega)]
      simp
    | succ j =>
      simp only [List.length_cons] at hj
      have := ih (c.add cd (encodeDoc d {}).mta (encodeDoc d {}).data) (dso ++ [c.buf.length]) j
        (by omega)
      simp only [List.length_append, List.length_cons, List.length_nil] at this
      simp only [writeDocs, List.take_succ_cons]
      rw [show dso.length + (j + 1) = dso.length + (0 + 1) + j by omega]
      exact this

theorem writeDocs_snd_getElem? (cd : Codec) (c0 : Coder) (L : List Doc) (j : Nat)
    (hj : j < L.length) :
    (writeDocs cd L c0 []).2[j]? = some (writeDocs cd (L.take j) c0 []).1.buf.length := by
  have := writeDocs_snd_getElem?_aux cd L c0 [] j hj
  simpa using this

/-! ### one input segment with what is known about it -/

/-- an input segment together with the documents it was written from and its deletions -/
structure SegSpec where
  src : Src
  docs : List Doc
  tail : Bytes
  drops : List Nat

/-- the merged documents of one input: the survivors, regrouped by merged field id -/
def segDocs (fm : Builder.AMap Bytes Nat) (nM : Nat) (s : SegSpec) : List Doc :=
  (keepP (fun i => !s.drops.contains i) 0 s.docs).map (reDoc (toMerged s.src.fields fm) nM)

/-- the source was written by the stored writer from `docs`, and its fields are known to the
    merged field map -/
structure SegOK (cd : Codec) (bs : Nat) (fm : Builder.AMap Bytes Nat) (nM : Nat) (s : SegSpec) :
    Prop where
  seg : s.src.seg = segOfNew cd bs s.src.fields.length s.docs s.tail
  valid : Ice.Props.C06.Valid cd bs s.src.fields.length s.docs
  mapped : FieldsMapped s.src.fields fm nM
  small : s.docs.length ≤ 2 ^ 32

/-- what the copy path additionally needs: block sizes inside `int` with the look-ahead, and the
    regrouping is the identity on the documents' values (field ids coincide) -/
structure CopyOK (fm : Builder.AMap Bytes Nat) (nM : Nat) (s : SegSpec) : Prop where
  size : (recs s.docs).length + 10 < 2 ^ 63
  ids : ∀ d ∈ s.docs, flat (reDoc (toMerged s.src.fields fm) nM d) = flat d

theorem length_segDocs (fm : Builder.AMap Bytes Nat) (nM : Nat) (s : SegSpec) :
    (segDocs fm nM s).length = liveCount s.drops s.docs.length := by
  simp only [segDocs, List.length_map, length_keepP, liveCount, List.range_eq_range']

theorem numDocs_segOfNew (cd : Codec) (bs nf : Nat) (docs : List Doc) (tail : Bytes) :
    (segOfNew cd bs nf docs tail).numDocs = docs.length := rfl

/-- **re-encode path, one segment** -/
theorem remapSegment_stored (cd : Codec) (bs : Nat) (fm : Builder.AMap Bytes Nat) (nM : Nat)
    (c0 : Coder) (total : Nat) (s : SegSpec) (hok : SegOK cd bs fm nM s) (st : MS) (D : List Doc)
    (ht : Tracks cd c0 total st D) (hroom : D.length + (segDocs fm nM s).length ≤ total) :
    ∃ st' seen', remapSegment cd s.src s.drops fm nM st = .ok (st', seen') ∧
      Tracks cd c0 total st' (D ++ segDocs fm nM s) := by
  have hnd : s.src.seg.numDocs = s.docs.length := by rw [hok.seg]; rfl
  have hfl := filter_range_map_getD (fun i => !s.drops.contains i) ([] : Doc)
    (reDoc (toMerged s.src.fields fm) nM) s.docs
  have hroom' : D.length + ((List.range s.docs.length).filter fun d => !s.drops.contains d).length
      ≤ total := by
    have := congrArg List.length hfl
    simp only [List.length_map] at this
    rw [this]
    simpa [segDocs] using hroom
  obtain ⟨st', seen', h1, h2⟩ := remapSegLoop_stored cd bs s.src s.docs s.tail s.drops fm nM c0
    total hok.seg hok.valid hok.mapped (List.range s.docs.length) st [] D
    (fun d hd => by have := List.mem_range.1 hd; have := hok.small; omega) ht hroom'
  refine ⟨st', seen', by rw [remapSegment, hnd]; exact h1, ?_⟩
  rw [hfl] at h2
  exact h2

/-- **copy path, one segment**, in the same terms -/
theorem copySegment_stored (cd : Codec) (hZ : NonemptyFrames cd) (bs : Nat) (hbs : 0 < bs)
    (fm : Builder.AMap Bytes Nat) (nM : Nat) (c0 : Coder) (total : Nat) (s : SegSpec)
    (hok : SegOK cd bs fm nM s) (hcp : CopyOK fm nM s) (hd : s.drops = []) (st : MS)
    (D : List Doc) (ht : Tracks cd c0 total st D)
    (hroom : D.length + (segDocs fm nM s).length ≤ total) :
    ∃ cs, copyStoredDocs cd s.src.seg ⟨st.newDocNum, st.dno, st.coder⟩ = .ok cs ∧
      Tracks cd c0 total
        { newDocNum := st.newDocNum + s.src.seg.numDocs, dno := cs.dno, coder := cs.coder,
          vdc := st.vdc } (D ++ segDocs fm nM s) := by
  have hsd : segDocs fm nM s = s.docs.map (reDoc (toMerged s.src.fields fm) nM) := by
    simp only [segDocs, hd]
    rw [keepP_true]
    intro i _ _; simp
  rw [hsd] at hroom ⊢
  simp only [List.length_map] at hroom
  have ht0 : Tracks cd c0 total (CS.ms ⟨st.newDocNum, st.dno, st.coder⟩) D :=
    ⟨ht.coder, ht.num, ht.dno⟩
  rw [hok.seg]
  obtain ⟨cs, h1, h2⟩ := copyStoredDocs_stored cd hZ bs s.src.fields.length hbs s.docs s.tail c0
    total hcp.size ⟨st.newDocNum, st.dno, st.coder⟩ D ht0 hroom
  refine ⟨cs, h1, ?_⟩
  have h3 : Tracks cd c0 total
      { newDocNum := st.newDocNum + s.docs.length, dno := cs.dno, coder := cs.coder,
        vdc := st.vdc } (D ++ s.docs) :=
    ⟨h2.coder, by simp [ht.num], h2.dno⟩
  rw [numDocs_segOfNew]
  apply h3.congr
  simp only [List.map_append, List.map_map]
  congr 1
  apply List.map_congr_left
  intro d hd'
  exact (hcp.ids d hd').symm

/-- **S_copy_eq_reencode** (lemma form): from any destination state reachable in a merge, the
    byte-copy path and the re-encode path leave the same coder (buffer, byte count, chunk
    offsets, output) and the same per-document offsets, and advance the counter alike -/
theorem copy_eq_reencode (cd : Codec) (hZ : NonemptyFrames cd) (bs : Nat) (hbs : 0 < bs)
    (fm : Builder.AMap Bytes Nat) (nM : Nat) (c0 : Coder) (total : Nat) (s : SegSpec)
    (hok : SegOK cd bs fm nM s) (hcp : CopyOK fm nM s) (hd : s.drops = []) (st : MS)
    (D : List Doc) (ht : Tracks cd c0 total st D)
    (hroom : D.length + s.docs.length ≤ total) :
    ∃ cs st' seen', copyStoredDocs cd s.src.seg ⟨st.newDocNum, st.dno, st.coder⟩ = .ok cs ∧
      remapSegment cd s.src s.drops fm nM st = .ok (st', seen') ∧
      cs.coder = st'.coder ∧ cs.dno = st'.dno ∧
      st'.newDocNum = st.newDocNum + s.src.seg.numDocs := by
  have hlen : (segDocs fm nM s).length = s.docs.length := by
    rw [length_segDocs, hd, liveCount_nil]
  obtain ⟨cs, h1, h2⟩ := copySegment_stored cd hZ bs hbs fm nM c0 total s hok hcp hd st D ht
    (by omega)
  obtain ⟨st', seen', h3, h4⟩ := remapSegment_stored cd bs fm nM c0 total s hok st D ht (by omega)
  refine ⟨cs, st', seen', h1, h3, ?_, ?_, ?_⟩
  · rw [h4.coder]; exact h2.coder
  · rw [h4.dno]; exact h2.dno
  · rw [h4.num]; exact h2.num.symm

/-! ### the segment loop -/

theorem segLoop_stored (cd : Codec) (hZ : NonemptyFrames cd) (bs : Nat) (hbs : 0 < bs)
    (drops : List (List Nat)) (fm : Builder.AMap Bytes Nat) (nM : Nat) (same : Bool) (c0 : Coder)
    (total : Nat) :
    ∀ (S : List SegSpec) (k : Nat) (st : MS) (acc : List (List Nat)) (D : List Doc),
    (∀ s ∈ S, SegOK cd bs fm nM s) →
    (same = true → ∀ s ∈ S, s.drops = [] → CopyOK fm nM s) →
    (∀ j s, S[j]? = some s → drops[k + j]? = some s.drops) →
    Tracks cd c0 total st D → D.length + (S.flatMap (segDocs fm nM)).length ≤ total →
    ∃ st' acc', segLoop cd drops fm nM same ((S.map (·.src)).zipIdx k) st acc = .ok (st', acc') ∧
      Tracks cd c0 total st' (D ++ S.flatMap (segDocs fm nM)) := by
  intro S
  induction S with
  | nil => intro k st acc D _ _ _ ht _; exact ⟨st, acc, rfl, by simpa using ht⟩
  | cons s S ih =>
    intro k st acc D hok hcp hdr ht hroom
    have hs := hok s (by simp)
    have hS : ∀ t ∈ S, SegOK cd bs fm nM t := fun t ht' => hok t (by simp [ht'])
    have hcpS : same = true → ∀ t ∈ S, t.drops = [] → CopyOK fm nM t :=
      fun h t ht' => hcp h t (by simp [ht'])
    have hd0 : drops[k]? = some s.drops := by simpa using hdr 0 s (by simp)
    have hdrS : ∀ j t, S[j]? = some t → drops[k + 1 + j]? = some t.drops := by
      intro j t hj
      have := hdr (j + 1) t (by simpa using hj)
      rw [show k + 1 + j = k + (j + 1) by omega]; exact this
    simp only [List.flatMap_cons, List.length_append] at hroom
    simp only [List.map_cons, List.zipIdx_cons]
    rw [segLoop, hd0]
    simp only
    by_cases hpath : (same && s.drops.length == 0) = true
    · rw [if_pos hpath]
      simp only [Bool.and_eq_true, beq_iff_eq] at hpath
      have hnil : s.drops = [] := List.length_eq_zero_iff.mp hpath.2
      obtain ⟨cs, h1, h2⟩ := copySegment_stored cd hZ bs hbs fm nM c0 total s hs
        (hcp hpath.1 s (by simp) hnil) hnil st D ht (by omega)
      rw [h1]
      simp only [Res.bind_ok]
      obtain ⟨st', acc', h3, h4⟩ := ih (k + 1) _
        (acc ++ [(List.range s.src.seg.numDocs).map (st.newDocNum + ·)]) _ hS hcpS hdrS h2
        (by simp only [List.length_append]; omega)
      exact ⟨st', acc', h3, by simpa [List.append_assoc] using h4⟩
    · rw [if_neg hpath]
      obtain ⟨st1, seen1, h1, h2⟩ := remapSegment_stored cd bs fm nM c0 total s hs st D ht
        (by omega)
      rw [h1]
      simp only [Res.bind_ok]
      obtain ⟨st', acc', h3, h4⟩ := ih (k + 1) st1 (acc ++ [seen1]) _ hS hcpS hdrS h2
        (by simp only [List.length_append]; omega)
      exact ⟨st', acc', h3, by simpa [List.append_assoc] using h4⟩

/-- **the stored section of a merge** (`mergeStoredAndRemap`): for inputs written by the stored
    writer, whichever path each of them takes, the result is the stored section
    `writeStoredFields` writes for the survivors' regrouped documents, together with the
    document-number maps of `Spec.remapAll` -/
theorem mergeStoredAndRemap_eq (cd : Codec) (hZ : NonemptyFrames cd) (bs : Nat) (hbs : 0 < bs)
    (S : List SegSpec) (fieldsInv : List Bytes) (same : Bool) (vdc : Buf)
    (hok : ∀ s ∈ S, SegOK cd bs (mapFields fieldsInv) fieldsInv.length s)
    (hcp : same = true → ∀ s ∈ S, s.drops = [] → CopyOK (mapFields fieldsInv) fieldsInv.length s) :
    ∃ buf', mergeStoredAndRemap cd bs (S.map (·.src)) (S.map (·.drops)) fieldsInv same
        ((S.map fun s => liveCount s.drops s.docs.length).sum) vdc =
      .ok (writeStoredFields cd bs (S.flatMap (segDocs (mapFields fieldsInv) fieldsInv.length)),
           (remapAll (S.map fun s => (s.docs.length, s.drops)) 0).map (·.map encNum), buf') := by
  have hlen : (S.flatMap (segDocs (mapFields fieldsInv) fieldsInv.length)).length =
      (S.map fun s => liveCount s.drops s.docs.length).sum := by
    rw [List.length_flatMap]
    congr 1
    apply List.map_congr_left
    intro s _
    exact length_segDocs _ _ s
  obtain ⟨st', acc', h1, h2⟩ := segLoop_stored cd hZ bs hbs (S.map (·.drops))
    (mapFields fieldsInv) fieldsInv.length same { chunkSize := bs }
    ((S.map fun s => liveCount s.drops s.docs.length).sum) S 0
    { newDocNum := 0, dno := List.replicate _ 0, coder := { chunkSize := bs }, vdc := vdc } [] []
    hok hcp (by intro j s hj; simp [hj]) (Tracks.init cd _ _ vdc) (by rw [hlen]; simp)
  have hnums := segLoop_nums cd (S.map (·.drops)) (mapFields fieldsInv) fieldsInv.length same
    ((S.map (·.src)).zipIdx) _ [] st' acc'
    (by
      intro p hp
      obtain ⟨_, hlt, he⟩ := List.mem_zipIdx hp
      simp only [Nat.zero_add, Nat.sub_zero, List.length_map] at hlt he
      have hs := hok S[p.2] (List.getElem_mem hlt)
      rw [he, List.getElem_map, hs.seg]
      exact hs.small) h1
  refine ⟨st'.vdc, ?_⟩
  unfold mergeStoredAndRemap
  rw [h1]
  simp only [Res.bind_ok]
  have hpairs : pairsOf (S.map (·.drops)) (S.map (·.src)).zipIdx =
      S.map fun s => (s.docs.length, s.drops) := by
    rw [pairsOf_zipIdx _ _ (by simp)]
    apply List.ext_getElem?
    intro i
    simp only [List.getElem?_map, List.zip_eq_zipWith, List.getElem?_zipWith]
    cases hi : S[i]? with
    | none => simp
    | some s =>
      have hs := hok s (List.mem_of_getElem? hi)
      simp [hs.seg, numDocs_segOfNew]
  have hdno : st'.dno =
      (writeDocs cd (S.flatMap (segDocs (mapFields fieldsInv) fieldsInv.length))
        { chunkSize := bs } []).2 := by
    rw [h2.dno]; simp [hlen]
  rw [hnums.1, hpairs]
  simp only [List.nil_append, Res.ok.injEq, Prod.mk.injEq, and_true]
  unfold writeStoredFields
  simp only [h2.coder, hdno, List.nil_append]

end Ice.Model.MergeRest
