import IceModel.Lemmas.E2EMValid
import IceModel.Lemmas.E2EMDv
/-
  END-TO-END, second generation: a segment that was written from a valid description laying out a
  well-formed abstract segment is an input inside the contract of the merge (`MInOK`).  Together
  with `mergedLSeg_lays` / `absOK_merge` / `lays_valid` this closes the induction over trees of
  merges.
-/
namespace Ice.Props.E2EM
open Ice Ice.Spec Ice.Model Ice.Model.Format
open Ice.Model.MergeLoop (idxOf?_spec)
open Ice.Model.DocValues (termsOf NoSep)
open Ice.Props.C03 (ValidDrops)
open Ice.Props.E2E

/-- the merge input a written segment is: its meaning, the deletions, the stored documents and
    the doc-value columns of its description -/
def MIn.ofLSeg (S : AbsSeg) (drops : List Nat) (L : LSeg) : MIn :=
  { abs := S, drops := drops, docs := L.stored,
    dvCol := fun f => match S.fields.idxOf? f with
      | some i => (L.fields[i]?).bind (·.dv)
      | none => none }

theorem idxOf?_none_of_not_mem (l : List Bytes) (a : Bytes) (h : a ∉ l) : l.idxOf? a = none :=
  Ice.Props.C16.idxOf?_eq_none l a h

theorem idxOf?_some_mem {l : List Bytes} {a : Bytes} {i : Nat} (h : l.idxOf? a = some i) :
    l[i]? = some a := by
  by_cases hm : a ∈ l
  · obtain ⟨j, h1, h2, _⟩ := idxOf?_spec l a hm
    rw [h] at h1
    injection h1 with h1
    rw [h1]; exact h2
  · rw [idxOf?_none_of_not_mem l a hm] at h; cases h

/-- a field no document carries has no doc values -/
theorem dvOf_nil_of_not_field {S : AbsSeg} (hA : AbsOK S) {f : Bytes} (hf : f ∉ S.fields) (d : Nat) :
    dvOf S d f = [] := by
  unfold dvOf
  cases hd : S.docs[d]? with
  | none => rfl
  | some doc =>
    simp only
    have : doc.field? f = none := by
      unfold ADoc.field?
      rw [List.find?_eq_none]
      intro af haf
      have := hA.names doc (List.mem_of_getElem? hd) af haf
      simp only [beq_iff_eq]
      intro e; exact hf (e ▸ this)
    rw [this]

section
variable {K : Codecs} {S : AbsSeg} {L : LSeg} (hV : C04.Valid K L) (hL : Lays S L) (hA : AbsOK S)

include hL hA in
theorem dvColOK_ofLSeg (drops : List Nat) (f : Bytes) : DvColOK f (MIn.ofLSeg S drops L) := by
  have hlen : L.fields.length = S.fields.length := by
    have := congrArg List.length hL.names
    simpa using this
  cases hi : S.fields.idxOf? f with
  | none =>
    have hcol : (MIn.ofLSeg S drops L).dvCol f = none := by
      unfold MIn.ofLSeg; simp only [hi]
    have hnf : f ∉ S.fields := by
      intro hm
      obtain ⟨j, h1, _, _⟩ := idxOf?_spec S.fields f hm
      rw [hi] at h1; cases h1
    refine ⟨(by intro vals hv; rw [hcol] at hv; cases hv), ?_⟩
    rw [hcol]
    exact dvOf_nil_of_not_field hA hnf
  | some i =>
    have hf : S.fields[i]? = some f := idxOf?_some_mem hi
    obtain ⟨fd, hfd, _⟩ := lays_field_mem' hf
    have hcol : (MIn.ofLSeg S drops L).dvCol f = fd.dv := by
      unfold MIn.ofLSeg; simp only [hi, hfd, Option.bind_some]
    have hdv := hL.dv i f fd hf hfd
    cases hfdv : fd.dv with
    | none =>
      rw [hfdv] at hdv hcol
      refine ⟨(by intro vals hv; rw [hcol] at hv; cases hv), ?_⟩
      rw [hcol]
      exact hdv
    | some vals =>
      rw [hfdv] at hdv hcol
      obtain ⟨hasc, hmax, hterms⟩ := hdv
      refine ⟨?_, ?_⟩
      · intro vals' hv'
        rw [hcol] at hv'
        injection hv' with hv'
        subst hv'
        refine ⟨hasc, hmax, ?_⟩
        intro q hq t ht
        have h1 : termsOf vals q.1 = q.2 := by
          unfold termsOf
          rw [lookup_of_mem hasc hq]; rfl
        rw [← h1, hterms q.1] at ht
        exact dvOf_noSep hA.bounds q.1 f t ht
      · rw [hcol]
        exact hterms
where
  lays_field_mem' {i : Nat} {f : Bytes} (hf : S.fields[i]? = some f) :
      ∃ fd, L.fields[i]? = some fd ∧ fd.name = f := by
    have h := congrArg (fun l => l[i]?) hL.names
    simp only [List.getElem?_map, hf] at h
    cases hfd : L.fields[i]? with
    | none => rw [hfd] at h; cases h
    | some fd =>
      rw [hfd] at h
      exact ⟨fd, rfl, by simpa using h⟩

include hV hL hA in
/-- **closure.**  A written segment (valid description `L` laying out the well-formed `S`) with
    valid deletions is an input inside the contract of the merge; `hcopy` is the extra size
    condition of the byte-copy path (`storedOffset + MaxVarintLen64` must not overflow `int`). -/
theorem minOK_of_lays (drops : List Nat) (hd : ValidDrops S.docs.length drops)
    (hcopy : (Stored.recs L.stored).length + 10 < 2 ^ 63) :
    MInOK K (MIn.ofLSeg S drops L) := by
  have hlen : L.fields.length = S.fields.length := by
    have := congrArg List.length hL.names
    simpa using this
  refine ⟨hA, ⟨hA.fields, ?_, ?_, hL.stored, hA.closed, hd⟩, ⟨hcopy, hL.storedAsc⟩,
    dvColOK_ofLSeg hL hA drops⟩
  · have := hV.stored
    rw [hlen] at this
    exact this
  · have h1 := hV.numDocs_eq
    have h2 := hV.numDocs_lt
    show L.stored.length ≤ 2 ^ 32
    omega

end

end Ice.Props.E2EM
