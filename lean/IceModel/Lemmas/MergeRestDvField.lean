import IceModel.Lemmas.MergeRestDvSpec
/-
  `setupActiveForField` + `buildMergedDocVals` (`dvField`): the maps handed on are the FILTERED
  ones, parallel to the segments in focus; the result is `mergeField` of the parts of the inputs
  in focus, each under its OWN map.
-/
namespace Ice.Model.MergeRest
open Ice Ice.Model Ice.Model.DocValues

theorem setupFocus_eq {α β : Type} (inFocus : α → Bool) (N : List β) (dflt : β) :
    ∀ (l : List (α × Nat)), (∀ p ∈ l, p.2 < N.length) →
    setupFocus inFocus N l =
      .ok ((l.filter fun p => inFocus p.1).map (fun p => N.getD p.2 dflt),
           (l.filter fun p => inFocus p.1).map (·.1)) := by
  intro l
  induction l with
  | nil => intro _; rfl
  | cons p r ih =>
    intro h
    obtain ⟨a, i⟩ := p
    have hi : i < N.length := h (a, i) (by simp)
    have hr := ih (fun q hq => h q (by simp [hq]))
    rw [setupFocus, List.filter_cons]
    by_cases hf : inFocus a = true
    · simp only [hf, if_true, List.getElem?_eq_getElem hi, hr, ok_bind, List.map_cons]
      rw [List.getD_eq_getElem?_getD, List.getElem?_eq_getElem hi]; rfl
    · simp only [hf, Bool.false_eq_true, if_false]
      exact hr

theorem flatMap_filter {α γ : Type} (q : α → Bool) (H : α → List γ) : ∀ (l : List α),
    (l.filter q).flatMap H = l.flatMap fun x => if q x then H x else [] := by
  intro l
  induction l with
  | nil => rfl
  | cons a l ih =>
    rw [List.filter_cons, List.flatMap_cons]
    by_cases h : q a = true
    · simp [h, ih]
    · simp [h, ih]

theorem any_filter {α : Type} (q r : α → Bool) : ∀ (l : List α),
    (l.filter q).any r = l.any fun x => q x && r x := by
  intro l
  induction l with
  | nil => rfl
  | cons a l ih =>
    rw [List.filter_cons, List.any_cons]
    by_cases h : q a = true
    · simp [h, ih]
    · simp [h, ih]

theorem any_zipIdx_fst {α : Type} (g : α → Bool) : ∀ (l : List α) (k : Nat),
    (l.zipIdx k).any (fun p => g p.1) = l.any g := by
  intro l
  induction l with
  | nil => intro _; rfl
  | cons a l ih => intro k; simp [List.zipIdx_cons, ih]

theorem zip_map_map {α β γ : Type} (a : α → β) (b : α → γ) : ∀ (F : List α),
    (F.map a).zip (F.map b) = F.map fun p => (a p, b p) := by
  intro F
  induction F with
  | nil => rfl
  | cons x F ih => simp [ih]

theorem zipIdx_flatMap_two_maps {α β γ δ : Type} (G : β → γ → List δ) (a : α → β) (b : α → γ)
    (d : γ) (F : List α) :
    ((F.map a).zipIdx).flatMap (fun q => G q.1 ((F.map b).getD q.2 d)) =
      F.flatMap fun p => G (a p) (b p) := by
  rw [zipIdx_flatMap_getD G d (F.map a) (F.map b) 0 (by simp), List.drop_zero, zip_map_map,
    List.flatMap_map]

/-- **D (which table).**  `dvField` = `setupActiveForField` followed by `buildMergedDocVals`:
    `mergeField` of the parts of the segments in focus, where the part of input number `i` is
    taken under `newDocNumsIn[i]` - the entry of the segment itself.  (Go indexes the filtered
    list with the position among the segments in focus; that IS `newDocNumsIn[i]`.) -/
theorem dvField_eq {α : Type} (z : Codec) (cs n count : Nat) (hcs : 0 < cs) (segs : List α)
    (inFocus : α → Bool) (spec : α → DvSpec) (ndnIn : List (List Nat))
    (hlen : segs.length ≤ ndnIn.length)
    (hok : ∀ a ∈ segs, inFocus a = true → (spec a).OK z cs)
    (hb : ∀ (j : Nat) (a : α), segs[j]? = some a → inFocus a = true →
      ∀ vals, (spec a).col = some vals → ∀ p ∈ vals, p.1 < (ndnIn.getD j []).length) :
    dvField z cs n count segs inFocus (fun a => (spec a).seg) ndnIn =
      if segs.any (fun a => inFocus a && (spec a).col.isSome) then
        mergeField z cs (sub64 n 1) count
          (segs.zipIdx.flatMap fun p =>
            if inFocus p.1 then (spec p.1).part (ndnIn.getD p.2 []) else [])
      else .ok ([], fieldNotUninverted, fieldNotUninverted) := by
  unfold dvField
  have hidx : ∀ p ∈ segs.zipIdx, p.2 < ndnIn.length := by
    intro p hp
    obtain ⟨_, hlt, _⟩ := List.mem_zipIdx hp
    omega
  rw [setupFocus_eq inFocus ndnIn [] segs.zipIdx hidx]
  simp only [ok_bind, List.map_map]
  have hS : ((segs.zipIdx.filter fun p => inFocus p.1).map
        ((fun a => (spec a).seg) ∘ fun p => p.1)) =
      ((segs.zipIdx.filter fun p => inFocus p.1).map fun p => spec p.1).map (·.seg) := by
    rw [List.map_map]; rfl
  rw [hS, buildMergedDocVals_eq z cs n count hcs _ _ ?_ ?_]
  · rw [zipIdx_flatMap_two_maps (fun (s : DvSpec) nums => s.part nums) (fun p => spec p.1)
        (fun p => ndnIn.getD p.2 []) [] (segs.zipIdx.filter fun p => inFocus p.1),
      flatMap_filter, List.any_map, any_filter]
    have hany : (segs.zipIdx.any fun x =>
          inFocus x.1 && ((fun s : DvSpec => s.col.isSome) ∘ fun p => spec p.1) x) =
        segs.any fun a => inFocus a && (spec a).col.isSome :=
      any_zipIdx_fst (fun a => inFocus a && (spec a).col.isSome) segs 0
    rw [hany]
  · intro s hs
    obtain ⟨p, hp, rfl⟩ := List.mem_map.1 hs
    obtain ⟨hp1, hp2⟩ := List.mem_filter.1 hp
    obtain ⟨_, hlt, he⟩ := List.mem_zipIdx hp1
    simp only [Nat.zero_add, Nat.sub_zero] at hlt he
    exact hok p.1 (he ▸ List.getElem_mem hlt) hp2
  · intro j s hj
    rw [List.getElem?_map] at hj
    cases hF : (segs.zipIdx.filter fun p => inFocus p.1)[j]? with
    | none => rw [hF] at hj; simp at hj
    | some p =>
      rw [hF] at hj
      simp only [Option.map_some, Option.some.injEq] at hj
      subst hj
      refine ⟨ndnIn.getD p.2 [], by rw [List.getElem?_map, hF]; rfl, ?_⟩
      have hp := List.mem_of_getElem? hF
      obtain ⟨hp1, hp2⟩ := List.mem_filter.1 hp
      have hget : segs[p.2]? = some p.1 := by
        have := List.mem_zipIdx_iff_getElem?.1 hp1
        exact this
      exact hb p.2 p.1 hget hp2

end Ice.Model.MergeRest
