import IceModel.Lemmas.MergeLoop
/-
  The pure fold of the merge loop, group by group (one group per term), in closed form.
-/
namespace Ice.Model.MergeLoop
open Ice Ice.Spec

/-! ### one accumulation in closed form -/

/-- the postings of one delivery with their new document numbers -/
def itemsOf (q : Active × List Posting) : List (Nat × Posting) :=
  q.2.map (fun p => (newDocOf q.1.newDocNums p.doc, p))

def bmAddAll (xs : List Nat) (r : List Nat) : List Nat := xs.foldl (fun r x => bmAdd x r) r

def encItem (fi : List Bytes) (np : Nat × Posting) : MPosting := encPosting fi np.1 np.2

theorem foldl_accStep (fi : List Bytes) (nd : List (Option Nat)) (sp : List Posting) (a : Acc) :
    let its := sp.map (fun p => (newDocOf nd p.doc, p))
    sp.foldl (accStep fi nd) a =
      { roaring := bmAddAll (its.map (fun np => u32 np.1)) a.roaring,
        docTracking := bmAddAll (its.map (fun np => u32 np.1)) a.docTracking,
        entries := a.entries ++ its.map (encItem fi),
        locData := a.locData || its.any (fun np => !np.2.locs.isEmpty),
        lastDocNum := match its.getLast? with | some np => np.1 | none => a.lastDocNum,
        lastFreq := match its.getLast? with | some np => np.2.freq | none => a.lastFreq,
        lastNorm := match its.getLast? with | some np => np.2.norm | none => a.lastNorm,
        sumFreq := a.sumFreq + (its.map (fun np => np.2.freq)).sum } := by
  induction sp using snoc_induction with
  | h0 => simp [bmAddAll]
  | hs sp p ih =>
    simp only [List.foldl_append, List.foldl_cons, List.foldl_nil, ih, accStep, List.map_append,
      List.map_cons, List.map_nil, List.getLast?_concat, bmAddAll, List.any_append, List.any_cons,
      List.any_nil, List.sum_append, List.sum_cons, List.sum_nil, List.append_assoc, encItem,
      Bool.or_false, Bool.or_assoc, Nat.add_zero, Nat.add_assoc]

theorem accum_eq (cfg : Cfg) (nd : List (Option Nat)) (sp : List Posting) (k : Bytes) (st : St) :
    let its := sp.map (fun p => (newDocOf nd p.doc, p))
    accum cfg nd sp k st =
      { st with
        roaring := bmAddAll (its.map (fun np => u32 np.1)) st.roaring,
        docTracking := bmAddAll (its.map (fun np => u32 np.1)) st.docTracking,
        entries := st.entries ++ its.map (encItem cfg.fieldsInv),
        locData := st.locData || its.any (fun np => !np.2.locs.isEmpty),
        lastDocNum := match its.getLast? with | some np => np.1 | none => 0,
        lastFreq := match its.getLast? with | some np => np.2.freq | none => 0,
        lastNorm := match its.getLast? with | some np => np.2.norm | none => 0,
        fieldFreq := st.fieldFreq + (its.map (fun np => np.2.freq)).sum,
        prevTerm := if st.prevTerm.isNone && k.isEmpty then none else some k } := by
  simp only [accum, foldl_accStep, Nat.zero_add]

/-! ### all deliveries of one term -/

def accQ (cfg : Cfg) (k : Bytes) (st : St) (q : Active × List Posting) : St :=
  accum cfg q.1.newDocNums q.2 k st

def allItems (Q : List (Active × List Posting)) : List (Nat × Posting) := Q.flatMap itemsOf

theorem bmAddAll_append (xs ys r : List Nat) :
    bmAddAll (xs ++ ys) r = bmAddAll ys (bmAddAll xs r) := by
  simp [bmAddAll, List.foldl_append]

theorem foldl_accQ (cfg : Cfg) (k : Bytes) (Q : List (Active × List Posting))
    (q : Active × List Posting) (X : St) :
    (Q ++ [q]).foldl (accQ cfg k) X =
      { X with
        roaring := bmAddAll ((allItems (Q ++ [q])).map (fun np => u32 np.1)) X.roaring,
        docTracking := bmAddAll ((allItems (Q ++ [q])).map (fun np => u32 np.1)) X.docTracking,
        entries := X.entries ++ (allItems (Q ++ [q])).map (encItem cfg.fieldsInv),
        locData := X.locData || (allItems (Q ++ [q])).any (fun np => !np.2.locs.isEmpty),
        lastDocNum := match (itemsOf q).getLast? with | some np => np.1 | none => 0,
        lastFreq := match (itemsOf q).getLast? with | some np => np.2.freq | none => 0,
        lastNorm := match (itemsOf q).getLast? with | some np => np.2.norm | none => 0,
        fieldFreq := X.fieldFreq + ((allItems (Q ++ [q])).map (fun np => np.2.freq)).sum,
        prevTerm := if X.prevTerm.isNone && k.isEmpty then none else some k } := by
  induction Q generalizing X with
  | nil =>
    simp only [List.nil_append, List.foldl_cons, List.foldl_nil, accQ, accum_eq, allItems,
      List.flatMap_cons, List.flatMap_nil, List.append_nil, itemsOf]
  | cons q0 Q ih =>
    simp only [List.cons_append, List.foldl_cons, ih]
    simp only [accQ, accum_eq, allItems, List.flatMap_cons, List.map_append, bmAddAll_append,
      List.any_append, List.sum_append, List.append_assoc, Bool.or_assoc, Nat.add_assoc, itemsOf]
    congr 1
    cases X.prevTerm <;> cases k <;> simp

theorem allItems_map_some (Q : List (Active × List Posting)) : allItems Q = Q.flatMap itemsOf := rfl

/-! ### one group of the fold -/

/-- the state after all deliveries of term `k`, starting from `st` -/
def groupSt (cfg : Cfg) (active : List Active) (k : Bytes) (st : St) : St :=
  (segsOf active k).foldl (accQ cfg k) (prepPure cfg active (holders (fstLists active) k) (flush st))

theorem flush_init : flush ({} : St) = {} := rfl

/-- the values `prepareNewTerm` computes -/
def prepVals (cfg : Cfg) (active : List Active) (hs : List (Nat × Nat)) : Option (Nat × Nat) :=
  match cardLoop active hs (0, 0) with
  | .ok (card, _) =>
    match getChunkSize cfg.chunkMode card cfg.newSegDocCount with
    | .ok cs => some (card, cs)
    | _ => none
  | .error _ => none

theorem prepPure_def (cfg : Cfg) (active : List Active) (hs : List (Nat × Nat)) (st : St) :
    prepPure cfg active hs st =
      match prepVals cfg active hs with
      | some (c, cs) => { st with card := c, chunkSize := cs }
      | none => st := by
  unfold prepPure prepVals
  cases cardLoop active hs (0, 0) with
  | error e => rfl
  | ok a =>
    obtain ⟨card, ff⟩ := a
    simp only []
    cases getChunkSize cfg.chunkMode card cfg.newSegDocCount <;> rfl

theorem prepPure_idem (cfg : Cfg) (active : List Active) (hs : List (Nat × Nat)) (st : St) :
    prepPure cfg active hs (prepPure cfg active hs st) = prepPure cfg active hs st := by
  simp only [prepPure_def]
  cases prepVals cfg active hs with
  | none => rfl
  | some a => rfl

theorem prepPure_accum (cfg : Cfg) (active : List Active) (hs : List (Nat × Nat)) (st : St)
    (nd : List (Option Nat)) (sp : List Posting) (k : Bytes)
    (h : prepPure cfg active hs st = st) :
    prepPure cfg active hs (accum cfg nd sp k st) = accum cfg nd sp k st := by
  simp only [prepPure_def] at h ⊢
  cases hv : prepVals cfg active hs with
  | none => rfl
  | some a =>
    obtain ⟨c, cs⟩ := a
    simp only [hv] at h
    have h1 : st.card = c := by
      have := congrArg St.card h; simpa using this.symm
    have h2 : st.chunkSize = cs := by
      have := congrArg St.chunkSize h; simpa using this.symm
    subst h1; subst h2
    rfl

def optAcc (cfg : Cfg) (k : Bytes) (st : St) (o : Option (Active × List Posting)) : St :=
  match o with
  | some q => accQ cfg k st q
  | none => st

theorem accumStep_eq (cfg : Cfg) (active : List Active) (k : Bytes) (hs : List (Nat × Nat))
    (st : St) :
    hs.foldl (accumStep cfg active k) st = (hs.map (stepSeg active)).foldl (optAcc cfg k) st := by
  rw [List.foldl_map]
  congr 1
  funext st iv
  simp only [accumStep, accQ, optAcc]
  cases stepSeg active iv with
  | none => rfl
  | some q => rfl

theorem foldl_map_some (cfg : Cfg) (k : Bytes) (l : List (Active × List Posting)) (a : St) :
    (l.map some).foldl (optAcc cfg k) a = l.foldl (accQ cfg k) a := by
  rw [List.foldl_map]; rfl

/-- inside a group (the term did not change, `prepareNewTerm` already ran with these low
    indexes) a delivery only accumulates -/
theorem stepPure_in_group (cfg : Cfg) (active : List Active) (k : Bytes) (hs : List (Nat × Nat))
    (st : St) (iv : Nat × Nat) (h1 : st.prevTerm.bytes = k)
    (h2 : prepPure cfg active hs st = st) :
    stepPure cfg active st ((keyOf k, iv.1, iv.2), hs) = accumStep cfg active k st iv := by
  simp only [stepPure, keyOf_bytes, h1, if_true, ne_eq, not_true_eq_false, false_or]
  split
  · rw [h2]
  · rfl

theorem accumStep_inv (cfg : Cfg) (active : List Active) (k : Bytes) (hs : List (Nat × Nat))
    (st : St) (iv : Nat × Nat) (hq : ∃ q, stepSeg active iv = some q)
    (h2 : prepPure cfg active hs st = st) :
    (accumStep cfg active k st iv).prevTerm.bytes = k ∧
      prepPure cfg active hs (accumStep cfg active k st iv) = accumStep cfg active k st iv := by
  obtain ⟨q, hq⟩ := hq
  simp only [accumStep, hq]
  exact ⟨accum_prevTerm_bytes _ _ _ _ _, prepPure_accum _ _ _ _ _ _ _ h2⟩

theorem foldl_in_group (cfg : Cfg) (active : List Active) (k : Bytes) (hs : List (Nat × Nat)) :
    ∀ (r : List (Nat × Nat)) (st : St), (∀ iv ∈ r, ∃ q, stepSeg active iv = some q) →
      st.prevTerm.bytes = k → prepPure cfg active hs st = st →
      (r.map (fun iv => ((keyOf k, iv.1, iv.2), hs))).foldl (stepPure cfg active) st =
        r.foldl (accumStep cfg active k) st := by
  intro r
  induction r with
  | nil => intros; rfl
  | cons iv r ih =>
    intro st hall h1 h2
    simp only [List.map_cons, List.foldl_cons]
    rw [stepPure_in_group cfg active k hs st iv h1 h2]
    obtain ⟨h3, h4⟩ := accumStep_inv cfg active k hs st iv (hall iv (by simp)) h2
    exact ih _ (fun iv hiv => hall iv (by simp [hiv])) h3 h4

/-- the fold over the deliveries of one term, started at a term boundary -/
theorem foldl_group (cfg : Cfg) (active : List Active) (k : Bytes) (st : St)
    (hb : st.prevTerm.bytes ≠ k ∨ st = {})
    (hne : holders (fstLists active) k ≠ []) :
    ((holders (fstLists active) k).map
        (fun iv => ((keyOf k, iv.1, iv.2), holders (fstLists active) k))).foldl
      (stepPure cfg active) st = groupSt cfg active k st := by
  have hlink := holders_stepSeg active k
  have hall : ∀ iv ∈ holders (fstLists active) k, ∃ q, stepSeg active iv = some q := by
    intro iv hiv
    have : stepSeg active iv ∈ (segsOf active k).map some := by
      rw [← hlink]; exact List.mem_map.2 ⟨iv, hiv, rfl⟩
    obtain ⟨q, _, hq⟩ := List.mem_map.1 this
    exact ⟨q, hq.symm⟩
  unfold groupSt
  rw [← foldl_map_some cfg k, ← hlink, ← accumStep_eq]
  generalize hhs : holders (fstLists active) k = hs at *
  rcases hs with _ | ⟨iv0, r⟩
  · exact absurd rfl hne
  · simp only [List.map_cons, List.foldl_cons]
    have hfirst : stepPure cfg active st ((keyOf k, iv0.1, iv0.2), iv0 :: r) =
        accumStep cfg active k (prepPure cfg active (iv0 :: r) (flush st)) iv0 := by
      simp only [stepPure, keyOf_bytes]
      rcases hb with hb | hb
      · simp [hb, flush_prevTerm]
      · subst hb
        by_cases hk : k = []
        · subst hk
          simp [Key.bytes, flush_init]
        · have : ¬ (Key.bytes ({} : St).prevTerm = k) := by
            simp only [Key.bytes]; exact fun e => hk e.symm
          simp [this]
    rw [hfirst]
    obtain ⟨h3, h4⟩ := accumStep_inv cfg active k (iv0 :: r)
      (prepPure cfg active (iv0 :: r) (flush st)) iv0 (hall iv0 (by simp))
      (prepPure_idem _ _ _ _)
    exact foldl_in_group cfg active k (iv0 :: r) r _ (fun iv hiv => hall iv (by simp [hiv])) h3 h4

/-! ### the fields of a group state -/

/-- the part of the loop state that belongs to the current term -/
structure Cur where
  roaring : List Nat
  entries : List MPosting
  locData : Bool
  lastDocNum : Nat
  lastFreq : Nat
  lastNorm : Nat
deriving DecidableEq, Repr

def St.cur (st : St) : Cur :=
  { roaring := st.roaring, entries := st.entries, locData := st.locData,
    lastDocNum := st.lastDocNum, lastFreq := st.lastFreq, lastNorm := st.lastNorm }

def use1HitC (c : Cur) : Option Nat :=
  if c.roaring.length = 1 && !c.locData then
    match c.roaring.head? with
    | none => none
    | some docNum =>
      if under32Bits docNum && docNum == c.lastDocNum && c.lastFreq == 1
      then some (encode1Hit docNum c.lastNorm) else none
  else none

theorem use1Hit_cur (st : St) : use1Hit st = use1HitC st.cur := rfl

/-- the current-term part of the state after all deliveries of term `k` -/
def groupCur (cfg : Cfg) (active : List Active) (k : Bytes) : Cur :=
  let Q := segsOf active k
  { roaring := bmAddAll ((allItems Q).map (fun np => u32 np.1)) [],
    entries := (allItems Q).map (encItem cfg.fieldsInv),
    locData := (allItems Q).any (fun np => !np.2.locs.isEmpty),
    lastDocNum := match Q.getLast? with
      | some q => (match (itemsOf q).getLast? with | some np => np.1 | none => 0)
      | none => 0,
    lastFreq := match Q.getLast? with
      | some q => (match (itemsOf q).getLast? with | some np => np.2.freq | none => 0)
      | none => 0,
    lastNorm := match Q.getLast? with
      | some q => (match (itemsOf q).getLast? with | some np => np.2.norm | none => 0)
      | none => 0 }

theorem prepPure_fields (cfg : Cfg) (active : List Active) (hs : List (Nat × Nat)) (st : St) :
    (prepPure cfg active hs st).cur = st.cur ∧ (prepPure cfg active hs st).out = st.out ∧
    (prepPure cfg active hs st).docTracking = st.docTracking ∧
    (prepPure cfg active hs st).fieldFreq = st.fieldFreq ∧
    (prepPure cfg active hs st).prevTerm = st.prevTerm ∧
    (prepPure cfg active hs st).builderLast = st.builderLast := by
  rw [prepPure_def]
  cases prepVals cfg active hs with
  | none => exact ⟨rfl, rfl, rfl, rfl, rfl, rfl⟩
  | some a => exact ⟨rfl, rfl, rfl, rfl, rfl, rfl⟩

theorem flush_fields (st : St) :
    (flush st).roaring = [] ∧ (flush st).entries = [] ∧ (flush st).locData = false ∧
    (flush st).docTracking = st.docTracking ∧ (flush st).fieldFreq = st.fieldFreq := by
  unfold flush clearSt
  split <;> exact ⟨rfl, rfl, rfl, rfl, rfl⟩

theorem groupSt_spec (cfg : Cfg) (active : List Active) (k : Bytes) (st : St)
    (hne : segsOf active k ≠ []) :
    (groupSt cfg active k st).cur = groupCur cfg active k ∧
    (groupSt cfg active k st).prevTerm.bytes = k ∧
    (groupSt cfg active k st).out = (flush st).out ∧
    (groupSt cfg active k st).docTracking =
      bmAddAll ((allItems (segsOf active k)).map (fun np => u32 np.1)) st.docTracking ∧
    (groupSt cfg active k st).fieldFreq =
      st.fieldFreq + ((allItems (segsOf active k)).map (fun np => np.2.freq)).sum := by
  obtain ⟨Q, q, hQ⟩ : ∃ Q q, segsOf active k = Q ++ [q] := by
    rcases List.eq_nil_or_concat (segsOf active k) with h | ⟨Q, q, h⟩
    · exact absurd h hne
    · exact ⟨Q, q, by simpa using h⟩
  obtain ⟨p1, p2, p3, p4, p5, _⟩ :=
    prepPure_fields cfg active (holders (fstLists active) k) (flush st)
  obtain ⟨f1, f2, f3, f4, f5⟩ := flush_fields st
  have c1 := congrArg Cur.roaring p1
  have c2 := congrArg Cur.entries p1
  have c3 := congrArg Cur.locData p1
  simp only [St.cur] at c1 c2 c3
  unfold groupSt groupCur
  rw [hQ, foldl_accQ]
  simp only [St.cur, List.getLast?_concat, c1, c2, c3, f1, f2, f3, p2, p3, p4, f4, f5,
    List.nil_append, Bool.false_or, true_and]
  split
  · next h =>
    simp only [Bool.and_eq_true] at h
    cases k with
    | nil => exact ⟨rfl, trivial⟩
    | cons a r => simp at h
  · exact ⟨rfl, trivial⟩

/-! ### all groups -/

theorem segsOf_ne_nil (active : List Active) (k : Bytes) (h : holders (fstLists active) k ≠ []) :
    segsOf active k ≠ [] := by
  intro hn
  have := holders_stepSeg active k
  rw [hn] at this
  simp at this
  exact h this

theorem foldl_groups (cfg : Cfg) (active : List Active) : ∀ (ks : List Bytes) (st : St),
    (st = {} ∨ ∀ k ∈ ks, st.prevTerm.bytes ≠ k) →
    (∀ k ∈ ks, holders (fstLists active) k ≠ []) → ks.Pairwise (· ≠ ·) →
    (ks.flatMap (fun k => (holders (fstLists active) k).map
        (fun iv => ((keyOf k, iv.1, iv.2), holders (fstLists active) k)))).foldl
      (stepPure cfg active) st = ks.foldl (fun st k => groupSt cfg active k st) st := by
  intro ks
  induction ks with
  | nil => intros; rfl
  | cons k ks ih =>
    intro st hst hne hpw
    have hp := List.pairwise_cons.1 hpw
    simp only [List.flatMap_cons, List.foldl_append, List.foldl_cons]
    rw [foldl_group cfg active k st (by
      rcases hst with h | h
      · right; exact h
      · left; exact h k (by simp)) (hne k (by simp))]
    apply ih _ _ (fun k' hk' => hne k' (by simp [hk'])) hp.2
    right
    intro k' hk'
    rw [(groupSt_spec cfg active k st (segsOf_ne_nil active k (hne k (by simp)))).2.1]
    exact hp.1 k' hk'

def pendingE (st : St) : List DictEntry :=
  if st.roaring.length = 0 then []
  else [{ term := st.prevTerm.bytes, entries := st.entries, bitmap := st.roaring,
          oneHit := use1Hit st, card := st.card, chunkSize := st.chunkSize }]

theorem flush_out (st : St) : (flush st).out = st.out ++ pendingE st := by
  unfold flush clearSt pendingE
  split <;> simp

/-- what is compared with the specification of a dictionary entry -/
def coreE (e : DictEntry) : Bytes × List MPosting × List Nat × Option Nat :=
  (e.term, e.entries, e.bitmap, e.oneHit)

/-- the dictionary entry of term `k` (none if no posting survives) -/
def groupCore (cfg : Cfg) (active : List Active) (k : Bytes) :
    List (Bytes × List MPosting × List Nat × Option Nat) :=
  let c := groupCur cfg active k
  if c.roaring.length = 0 then [] else [(k, c.entries, c.roaring, use1HitC c)]

theorem pending_group (cfg : Cfg) (active : List Active) (k : Bytes) (st : St)
    (hne : segsOf active k ≠ []) :
    (pendingE (groupSt cfg active k st)).map coreE = groupCore cfg active k := by
  obtain ⟨h1, h2, _⟩ := groupSt_spec cfg active k st hne
  unfold pendingE groupCore
  have r : (groupSt cfg active k st).roaring = (groupCur cfg active k).roaring :=
    congrArg Cur.roaring h1
  have e : (groupSt cfg active k st).entries = (groupCur cfg active k).entries :=
    congrArg Cur.entries h1
  simp only [r]
  split
  · rfl
  · simp only [List.map_cons, List.map_nil, coreE, h2, r, e, use1Hit_cur, h1]

theorem out_groups (cfg : Cfg) (active : List Active) : ∀ (ks : List Bytes) (st : St),
    (∀ k ∈ ks, segsOf active k ≠ []) →
    ((flush (ks.foldl (fun st k => groupSt cfg active k st) st)).out).map coreE =
      st.out.map coreE ++ (pendingE st).map coreE ++ ks.flatMap (groupCore cfg active) := by
  intro ks
  induction ks with
  | nil => intro st _; simp [flush_out]
  | cons k ks ih =>
    intro st hne
    simp only [List.foldl_cons, List.flatMap_cons]
    rw [ih _ (fun k' hk' => hne k' (by simp [hk'])),
      (groupSt_spec cfg active k st (hne k (by simp))).2.2.1, flush_out,
      pending_group cfg active k st (hne k (by simp))]
    simp [List.append_assoc]

theorem stats_groups (cfg : Cfg) (active : List Active) : ∀ (ks : List Bytes) (st : St),
    (∀ k ∈ ks, segsOf active k ≠ []) →
    (ks.foldl (fun st k => groupSt cfg active k st) st).docTracking =
      bmAddAll (ks.flatMap (fun k => (allItems (segsOf active k)).map (fun np => u32 np.1)))
        st.docTracking ∧
    (ks.foldl (fun st k => groupSt cfg active k st) st).fieldFreq =
      st.fieldFreq +
        (ks.map (fun k => ((allItems (segsOf active k)).map (fun np => np.2.freq)).sum)).sum := by
  intro ks
  induction ks with
  | nil => intro st _; simp [bmAddAll]
  | cons k ks ih =>
    intro st hne
    obtain ⟨_, _, _, h4, h5⟩ := groupSt_spec cfg active k st (hne k (by simp))
    obtain ⟨i1, i2⟩ := ih (groupSt cfg active k st) (fun k' hk' => hne k' (by simp [hk']))
    simp only [List.foldl_cons, List.flatMap_cons, List.map_cons, List.sum_cons]
    rw [i1, i2, h4, h5, bmAddAll_append]
    exact ⟨rfl, by omega⟩

/-! ### the result of `mergeField` in closed form -/

/-- the terms of the merged dictionary before empty ones are dropped: ascending union -/
def mergedTerms (active : List Active) : List Bytes :=
  sortDedup (active.flatMap (fun s => s.dict.map (·.1)))

theorem fstEntries_keys (d : List (Bytes × List Posting)) :
    (fstEntries d).map (·.1) = d.map (·.1) := by
  simp only [fstEntries, List.map_map]
  apply List.ext_getElem?
  intro i
  simp [List.getElem?_map, List.getElem?_zipIdx]
  cases d[i]? <;> simp

theorem allKeys_fstLists (active : List Active) : allKeys (fstLists active) = mergedTerms active := by
  unfold allKeys mergedTerms fstLists
  congr 1
  induction active with
  | nil => rfl
  | cons s r ih =>
    simp only [List.map_cons, List.flatMap_cons, ih, fstEntries_keys]

theorem holders_ne_nil {ls : List (List (Bytes × Nat))} (h : WFIters ls) (k : Bytes)
    (hk : k ∈ allKeys ls) : holders ls k ≠ [] := by
  simp only [allKeys, mem_sortDedup, List.mem_flatMap, List.mem_map] at hk
  obtain ⟨l, hl, ⟨k', v⟩, hp, rfl⟩ := hk
  obtain ⟨i, hi⟩ := List.mem_iff_getElem?.1 hl
  have : (i, v) ∈ holdersAt ls k' 0 :=
    (mem_holdersAt k' ls 0 i v).2 ⟨Nat.zero_le _, l, by simpa using hi,
      lookupK_of_mem (h.asc l hl) hp⟩
  intro hn
  unfold holders at hn
  rw [hn] at this
  cases this

theorem bmAdd_ne_nil (x : Nat) (r : List Nat) : bmAdd x r ≠ [] := by
  cases r with
  | nil => simp [bmAdd]
  | cons y r =>
    simp only [bmAdd]
    split
    · simp
    · split <;> simp

theorem bmAddAll_ne_nil (xs r : List Nat) (h : r ≠ []) : bmAddAll xs r ≠ [] := by
  induction xs generalizing r with
  | nil => exact h
  | cons x xs ih => exact ih _ (bmAdd_ne_nil x r)

theorem bmAddAll_eq_nil (xs : List Nat) : bmAddAll xs [] = [] ↔ xs = [] := by
  cases xs with
  | nil => simp [bmAddAll]
  | cons x xs =>
    simp only [reduceCtorEq, iff_false]
    exact bmAddAll_ne_nil xs _ (bmAdd_ne_nil x [])

/-- **the closed form of the merge of one field** -/
theorem mergeField_closed (cfg : Cfg) (hfix : cfg.sumFreqFix = true) (segs : List SegIn)
    (hwf : WFActive cfg (setupActive segs)) :
    ∃ r, mergeField cfg segs = .ok r ∧
      r.dict.map coreE =
        (mergedTerms (setupActive segs)).flatMap (groupCore cfg (setupActive segs)) ∧
      r.fieldDocs = (bmAddAll ((mergedTerms (setupActive segs)).flatMap (fun k =>
        (allItems (segsOf (setupActive segs) k)).map (fun np => u32 np.1))) []).length ∧
      r.fieldFreq = ((mergedTerms (setupActive segs)).map (fun k =>
        ((allItems (segsOf (setupActive segs) k)).map (fun np => np.2.freq)).sum)).sum := by
  refine ⟨_, mergeField_pure cfg hfix segs hwf, ?_⟩
  have hit := wfIters_of_wf hwf
  have hks : ∀ k ∈ allKeys (fstLists (setupActive segs)),
      holders (fstLists (setupActive segs)) k ≠ [] := fun k hk => holders_ne_nil hit k hk
  have hseg : ∀ k ∈ allKeys (fstLists (setupActive segs)), segsOf (setupActive segs) k ≠ [] :=
    fun k hk => segsOf_ne_nil _ k (hks k hk)
  have hasc : Asc (allKeys (fstLists (setupActive segs))) := asc_sortDedup _
  have hpw : (allKeys (fstLists (setupActive segs))).Pairwise (· ≠ ·) :=
    hasc.imp (fun {a b} h (e : a = b) => Bytes.cmp_lt_irrefl a (by rw [← e] at h; exact h))
  have hfin : finalSt cfg (setupActive segs) =
      (allKeys (fstLists (setupActive segs))).foldl
        (fun st k => groupSt cfg (setupActive segs) k st) {} := by
    unfold finalSt expectedFull
    exact foldl_groups cfg _ _ {} (Or.inl rfl) hks hpw
  have hout := out_groups cfg (setupActive segs) _ {} hseg
  obtain ⟨hd, hf⟩ := stats_groups cfg (setupActive segs) _ {} hseg
  obtain ⟨_, _, _, f4, f5⟩ := flush_fields (finalSt cfg (setupActive segs))
  rw [← allKeys_fstLists]
  refine ⟨?_, ?_, ?_⟩
  · simp only [resultOf, hfin, hout]
    simp [pendingE]
  · simp only [resultOf]
    rw [f4, hfin, hd]
  · simp only [resultOf]
    rw [f5, hfin, hf]
    simp

end Ice.Model.MergeLoop
