import IceModel.Lemmas.E2EMSpec
/-
  END-TO-END, merger path: the merged doc-value column (`dvColFrom`, terms per document).
  Encoded (`encVals`) it is the byte column `mergedColFrom` of `Lemmas/MergeRestDvSpec.lean`, which
  `C02Stored.D_merged` shows `buildMergedDocVals` feeds to the chunked content coder; it ascends,
  stays inside the merged segment, and holds `Spec.dvOf` of the merged segment.
-/
namespace Ice.Props.E2EM
open Ice Ice.Spec Ice.Model Ice.Model.Format
open Ice.Model.MergeRest (ColIn mergedColFrom gMap mergedColFrom_asc mergedColFrom_range
  lookup_mergedColFrom exists_source lookup_eq_none_of_not_key)
open Ice.Model.DocValues (termsOf NoSep encVals docBytes lookup bytesOf splitSep
  splitSep_bytesOf_encVals lookup_encVals)
open Ice.Props.C03 (ValidDrops)
open Ice.Props.E2E

/-- the input as the doc-value part sees it for field `f` (bytes per document) -/
def MIn.colIn (f : Bytes) (i : MIn) : ColIn :=
  { n := i.abs.docs.length, drops := i.drops,
    col := if i.inFocus f then (i.dvCol f).map encVals else none }

/-- the doc-value reader of field `f` in the file of input `i`, as `buildMergedDocVals` finds it:
    a reader on a column written by the doc-value writer (any mode, anywhere in the file) from
    `i.dvCol f`, or no reader -/
structure DvFileOK (K : Codecs) (f : Bytes) (i : MIn) (sp : Ice.Model.MergeRest.DvSpec) : Prop where
  ok : sp.OK K.dv dvChunk
  col : sp.col = (i.dvCol f).map DocValues.encVals
  docs : ∀ vals, sp.col = some vals → sp.maxDocNum < i.abs.docs.length

/-- the input as the doc-value part (`Props/C02Stored.lean`, (D)) takes it -/
def dvInOf (f : Bytes) (x : MIn × Ice.Model.MergeRest.DvSpec) : C02Stored.DvInput :=
  { abs := x.1.abs, drops := x.1.drops, inFocus := x.1.inFocus f, spec := x.2 }

theorem encVals_filterMap_gMapT (drops : List Nat) (start : Nat) (vals : List (Nat × List Bytes)) :
    encVals (vals.filterMap (gMapT drops start)) = (encVals vals).filterMap (gMap drops start) := by
  induction vals with
  | nil => rfl
  | cons q r ih =>
    have hc : encVals (q :: r) = (q.1, docBytes q.2) :: encVals r := rfl
    rw [hc, List.filterMap_cons, List.filterMap_cons, ← ih]
    unfold gMapT gMap
    simp only
    cases drops.contains q.1 with
    | true => rfl
    | false => rfl

theorem encVals_append (a b : List (Nat × List Bytes)) : encVals (a ++ b) = encVals a ++ encVals b := by
  simp [encVals]

theorem encVals_dvPart (f : Bytes) (i : MIn) (start : Nat) :
    encVals (i.dvPart f start) = (i.colIn f).part start := by
  unfold MIn.dvPart ColIn.part MIn.colIn
  cases i.inFocus f with
  | false => rfl
  | true =>
    simp only [if_true]
    cases i.dvCol f with
    | none => rfl
    | some vals => exact encVals_filterMap_gMapT _ _ _

/-- the encoded merged column is the byte column of the doc-value part of the merge -/
theorem encVals_dvColFrom (f : Bytes) : ∀ (l : List MIn) (start : Nat),
    encVals (dvColFrom f l start) = mergedColFrom (l.map (MIn.colIn f)) start := by
  intro l
  induction l with
  | nil => intro _; rfl
  | cons i r ih =>
    intro start
    simp only [dvColFrom, List.map_cons, mergedColFrom, encVals_append, encVals_dvPart, ih]
    rfl

theorem colIn_ok {f : Bytes} {i : MIn} (h : DvColOK f i) : (i.colIn f).OK := by
  intro vals hvals
  unfold MIn.colIn at hvals
  simp only at hvals
  cases hf : i.inFocus f with
  | false => rw [hf] at hvals; simp at hvals
  | true =>
    rw [hf] at hvals
    simp only [if_true] at hvals
    cases hc : i.dvCol f with
    | none => rw [hc] at hvals; cases hvals
    | some tv =>
      rw [hc] at hvals
      simp only [Option.map_some, Option.some.injEq] at hvals
      subst hvals
      obtain ⟨hasc, hmax, _⟩ := h.valid tv hc
      refine ⟨?_, ?_⟩
      · unfold encVals; rw [List.pairwise_map]; exact hasc
      · intro p hp
        unfold encVals at hp
        obtain ⟨q, hq, rfl⟩ := List.mem_map.1 hp
        exact hmax q hq

theorem mem_dvColFrom {f : Bytes} : ∀ {l : List MIn} {start : Nat} {q : Nat × List Bytes},
    q ∈ dvColFrom f l start → ∃ i ∈ l, ∃ vals, i.dvCol f = some vals ∧ ∃ q' ∈ vals, q'.2 = q.2 := by
  intro l
  induction l with
  | nil => intro _ _ h; cases h
  | cons i r ih =>
    intro start q h
    simp only [dvColFrom, List.mem_append] at h
    rcases h with h | h
    · unfold MIn.dvPart at h
      cases hf : i.inFocus f with
      | false => rw [hf] at h; simp at h
      | true =>
        rw [hf] at h
        simp only [if_true] at h
        cases hc : i.dvCol f with
        | none => rw [hc] at h; cases h
        | some vals =>
          rw [hc] at h
          obtain ⟨q', hq', hg⟩ := List.mem_filterMap.1 h
          unfold gMapT at hg
          split at hg
          · cases hg
          · injection hg with hg
            exact ⟨i, by simp, vals, hc, q', hq', by rw [← hg]⟩
    · obtain ⟨j, hj, rest⟩ := ih h
      exact ⟨j, by simp [hj], rest⟩

/-- without terms in the field no document has doc values in it -/
theorem dvOf_nil_of_no_terms {S : AbsSeg} {f : Bytes} (h : (terms S f).isEmpty = true) (d : Nat) :
    dvOf S d f = [] := by
  unfold dvOf
  cases hd : S.docs[d]? with
  | none => rfl
  | some doc =>
    simp only
    cases hf : doc.field? f with
    | none => rfl
    | some af =>
      simp only
      split
      · -- the terms of `af` are terms of the field: there are none
        have hnil : terms S f = [] := List.isEmpty_iff.1 h
        cases hts : af.terms with
        | nil => rfl
        | cons x r =>
          exfalso
          have : x.term ∈ terms S f := by
            unfold terms
            rw [mem_sortDedup, List.mem_flatMap]
            refine ⟨doc, List.mem_of_getElem? hd, ?_⟩
            rw [hf]
            simp [hts]
          rw [hnil] at this
          cases this
      · rfl

section
variable {mode : Nat} {ins : List MIn} {f : Bytes}
  (hdv : ∀ i ∈ ins, DvColOK f i)

include hdv in
theorem dvColFrom_shape :
    (dvColFrom f ins 0).Pairwise (fun a b => a.1 < b.1) ∧
    (∀ q ∈ dvColFrom f ins 0, q.1 < (merge mode (absIns ins)).1.docs.length) ∧
    ∀ q ∈ dvColFrom f ins 0, NoSep q.2 := by
  have hcok : ∀ c ∈ ins.map (MIn.colIn f), c.OK := by
    intro c hc
    obtain ⟨i, hi, rfl⟩ := List.mem_map.1 hc
    exact colIn_ok (hdv i hi)
  have hasc := mergedColFrom_asc _ 0 hcok
  have hrange := mergedColFrom_range _ 0 hcok
  rw [← encVals_dvColFrom] at hasc hrange
  refine ⟨?_, ?_, ?_⟩
  · unfold encVals at hasc
    rw [List.pairwise_map] at hasc
    exact hasc
  · intro q hq
    have := (hrange (q.1, docBytes q.2) (List.mem_map.2 ⟨q, hq, rfl⟩)).2
    have hn : (merge mode (absIns ins)).1.docs.length =
        ((ins.map (MIn.colIn f)).map fun c => liveCount c.drops c.n).sum := by
      have := numDocs_merge mode (absIns ins)
      unfold numDocs at this
      rw [this, absIns, List.map_map, List.map_map]
      rfl
    rw [hn]
    simpa using this
  · intro q hq
    obtain ⟨i, hi, vals, hc, q', hq', he⟩ := mem_dvColFrom hq
    rw [← he]
    exact ((hdv i hi).valid vals hc).2.2 q' hq'

include hdv in
/-- **the merged column holds the doc values of the merged segment** -/
theorem dvColFrom_dvOf (k : Nat) :
    termsOf (dvColFrom f ins 0) k = dvOf (merge mode (absIns ins)).1 k f := by
  have hcok : ∀ c ∈ ins.map (MIn.colIn f), c.OK := by
    intro c hc
    obtain ⟨i, hi, rfl⟩ := List.mem_map.1 hc
    exact colIn_ok (hdv i hi)
  obtain ⟨_, hrange, hnosep⟩ := dvColFrom_shape (mode := mode) hdv
  have hn : (merge mode (absIns ins)).1.docs.length =
      ((ins.map (MIn.colIn f)).map fun c => liveCount c.drops c.n).sum := by
    have := numDocs_merge mode (absIns ins)
    unfold numDocs at this
    rw [this, absIns, List.map_map, List.map_map]
    rfl
  by_cases hk : k < (merge mode (absIns ins)).1.docs.length
  · rw [← splitSep_bytesOf_encVals _ hnosep k, encVals_dvColFrom]
    rw [hn] at hk
    obtain ⟨j, c, d, hj, hd, hc, hkeq⟩ := exists_source _ k hk
    rw [List.getElem?_map] at hj
    cases hi : ins[j]? with
    | none => rw [hi] at hj; simp at hj
    | some i =>
      rw [hi] at hj
      simp only [Option.map_some, Option.some.injEq] at hj
      subst hj
      have hio := hdv i (List.mem_of_getElem? hi)
      have hlook := lookup_mergedColFrom _ 0 hcok j (i.colIn f) d
        (by rw [List.getElem?_map, hi]; rfl) hd hc
      rw [Nat.zero_add, ← hkeq] at hlook
      -- the specification side
      have hi' : (absIns ins)[j]? = some (i.abs, i.drops) := by
        rw [absIns, List.getElem?_map, hi]; rfl
      have hdlt : d < i.abs.docs.length := hd
      have hlm := Ice.Props.C03.lookup_merge mode (absIns ins) j d i.abs i.drops hi'
      rw [if_pos hdlt] at hlm
      have hcd : i.drops.contains d = false := hc
      rw [hcd] at hlm
      simp only [Bool.false_eq_true, if_false] at hlm
      have hsum : (((absIns ins).take j).map fun p => liveCount p.2 p.1.docs.length).sum =
          (((ins.map (MIn.colIn f)).take j).map fun c => liveCount c.drops c.n).sum := by
        rw [absIns, ← List.map_take, ← List.map_take, List.map_map, List.map_map]; rfl
      have hkeq' : k = (((ins.map (MIn.colIn f)).take j).map fun c => liveCount c.drops c.n).sum +
          liveCount i.drops d := hkeq
      rw [hsum, ← hkeq'] at hlm
      have hcont := (Ice.Props.C03.C03_content mode (absIns ins) j d k i.abs i.drops hi' hlm).1
      have hdvk : dvOf (merge mode (absIns ins)).1 k f = dvOf i.abs d f := by
        unfold dvOf; rw [hcont]
      rw [hdvk]
      unfold bytesOf
      rw [hlook]
      -- the input's side
      unfold MIn.colIn
      simp only
      cases hf : i.inFocus f with
      | false =>
        simp only [Bool.false_eq_true, if_false]
        have : (terms i.abs f).isEmpty = true := by
          unfold MIn.inFocus at hf
          simpa using hf
        rw [dvOf_nil_of_no_terms this]
        rfl
      | true =>
        simp only [if_true]
        have hrel := hio.rel
        cases hcol : i.dvCol f with
        | none =>
          rw [hcol] at hrel
          simp only at hrel
          rw [hrel d]
          rfl
        | some vals =>
          rw [hcol] at hrel
          simp only [Option.map_some] at hrel ⊢
          rw [← hrel d, ← splitSep_bytesOf_encVals vals ((hio.valid vals hcol).2.2) d]
          rfl
  · have h1 : dvOf (merge mode (absIns ins)).1 k f = [] := by
      unfold dvOf
      rw [List.getElem?_eq_none (by omega)]
    rw [h1]
    unfold termsOf
    rw [lookup_eq_none_of_not_key' (fun q hq => by have := hrange q hq; omega)]
    rfl
where
  lookup_eq_none_of_not_key' {vals : List (Nat × List Bytes)} {k : Nat}
      (h : ∀ q ∈ vals, q.1 ≠ k) : lookup vals k = none := by
    unfold lookup
    rw [List.find?_eq_none.2 (fun q hq => by simpa using h q hq)]
    rfl

include hdv in
/-- a field for which no input in focus has a reader has no doc values in the merged segment -/
theorem dvOf_nil_of_not_has (h : dvHas ins f = false) (k : Nat) :
    dvOf (merge mode (absIns ins)).1 k f = [] := by
  rw [← dvColFrom_dvOf (mode := mode) hdv k]
  have hnil : ∀ (l : List MIn) (start : Nat), (∀ i ∈ l, (i.inFocus f && (i.dvCol f).isSome) = false) →
      dvColFrom f l start = [] := by
    intro l
    induction l with
    | nil => intro _ _; rfl
    | cons i r ih =>
      intro start hl
      simp only [dvColFrom]
      rw [ih _ (fun j hj => hl j (by simp [hj])), List.append_nil]
      have := hl i (by simp)
      unfold MIn.dvPart
      cases hf : i.inFocus f with
      | false => rfl
      | true =>
        rw [hf] at this
        simp only [Bool.true_and] at this
        simp only [if_true]
        cases hc : i.dvCol f with
        | none => rfl
        | some v => rw [hc] at this; cases this
  rw [hnil ins 0 (by
    intro i hi
    unfold dvHas at h
    rw [List.any_eq_false] at h
    simpa using h i hi)]
  rfl

end

end Ice.Props.E2EM
