import IceModel.Lemmas.MergeLoopGroups
import IceModel.Lemmas.Merge
import IceModel.Props.C03
/-
  Link between the merge loop of one field and `Spec.merge`: the abstraction of `AbsSeg`s to the
  loop's inputs, and the postings of a term in the merged segment, segment by segment.
-/
namespace Ice.Model.MergeLoop
open Ice Ice.Spec

/-! ### facts about the observations of the specification -/

theorem postingOf_doc {d : ADoc} {i : Nat} {f t : Bytes} {p : Posting}
    (h : postingOf d i f t = some p) : p.doc = i := by
  unfold postingOf at h
  split at h
  · cases h
  · split at h
    · cases h
    · cases h; rfl

theorem postingOf_renumber (d : ADoc) (i j : Nat) (f t : Bytes) :
    postingOf d j f t = (postingOf d i f t).map (fun p => { p with doc := j }) := by
  unfold postingOf
  split
  · rfl
  · split <;> rfl

/-- the terms of field `f` in document `d` -/
def docTerms (d : ADoc) (f : Bytes) : List Bytes :=
  match d.field? f with
  | some af => af.terms.map (·.term)
  | none => []

theorem terms_def (s : AbsSeg) (f : Bytes) : terms s f = sortDedup (s.docs.flatMap (docTerms · f)) :=
  rfl

theorem postingOf_isSome (d : ADoc) (i : Nat) (f t : Bytes) :
    (postingOf d i f t).isSome = true ↔ t ∈ docTerms d f := by
  unfold postingOf docTerms
  cases d.field? f with
  | none => simp
  | some af =>
    simp only [List.mem_map]
    cases hfind : af.terms.find? (fun x => x.term == t) with
    | none =>
      simp only [Option.isSome_none, Bool.false_eq_true, false_iff]
      rintro ⟨x, hx, rfl⟩
      have := List.find?_eq_none.1 hfind x hx
      simp at this
    | some x =>
      simp only [Option.isSome_some, true_iff]
      have h1 := List.find?_some hfind
      have h2 := List.mem_of_find?_eq_some hfind
      exact ⟨x, h2, by simpa using h1⟩

theorem mem_terms_iff (s : AbsSeg) (f t : Bytes) :
    t ∈ terms s f ↔ postings s f t ≠ [] := by
  rw [terms_def, mem_sortDedup, List.mem_flatMap]
  unfold postings
  constructor
  · rintro ⟨d, hd, ht⟩
    obtain ⟨i, hi⟩ := List.mem_iff_getElem?.1 hd
    have hs := (postingOf_isSome d i f t).2 ht
    obtain ⟨p, hp⟩ := Option.isSome_iff_exists.1 hs
    intro hnil
    have hmem : p ∈ s.docs.zipIdx.filterMap (fun q => postingOf q.1 q.2 f t) := by
      refine List.mem_filterMap.2 ⟨(d, i), ?_, hp⟩
      rw [List.mem_iff_getElem?]
      exact ⟨i, by simp [List.getElem?_zipIdx, hi]⟩
    rw [hnil] at hmem
    cases hmem
  · intro hne
    obtain ⟨p, hp⟩ := List.exists_mem_of_ne_nil _ hne
    obtain ⟨q, hq, hqp⟩ := List.mem_filterMap.1 hp
    have hmem := (List.mem_zipIdx hq).2.2
    refine ⟨q.1, by rw [hmem]; exact List.getElem_mem _, ?_⟩
    exact (postingOf_isSome q.1 q.2 f t).1 (by rw [hqp]; rfl)

theorem postings_doc_lt (s : AbsSeg) (f t : Bytes) (p : Posting) (hp : p ∈ postings s f t) :
    p.doc < s.docs.length := by
  obtain ⟨q, hq, hqp⟩ := List.mem_filterMap.1 hp
  have := (List.mem_zipIdx hq).2.1
  rw [postingOf_doc hqp]
  omega

/-! ### numbering the survivors -/

theorem zipIdx_keepP {α : Type} (p : Nat → Bool) (l : List α) : ∀ (k off : Nat),
    (keepP p k l).zipIdx off =
      ((l.zipIdx k).filter (fun q => p q.2)).map
        (fun q => (q.1, off + (List.range' k (q.2 - k)).countP p)) := by
  induction l with
  | nil => intro k off; rfl
  | cons x r ih =>
    intro k off
    rw [keepP_cons, List.zipIdx_cons, List.filter_cons]
    have hshift : ∀ (off' : Nat) (c : Nat), (∀ n, (List.range' k (n + 1)).countP p =
        c + (List.range' (k + 1) n).countP p) → off' = off + c →
        ((r.zipIdx (k + 1)).filter (fun q => p q.2)).map
          (fun q => (q.1, off' + (List.range' (k + 1) (q.2 - (k + 1))).countP p)) =
        ((r.zipIdx (k + 1)).filter (fun q => p q.2)).map
          (fun q => (q.1, off + (List.range' k (q.2 - k)).countP p)) := by
      intro off' c hc hoff
      apply List.map_congr_left
      intro q hq
      have hk : k + 1 ≤ q.2 := (List.mem_zipIdx (List.mem_filter.1 hq).1).1
      have : q.2 - k = (q.2 - (k + 1)) + 1 := by omega
      rw [this, hc, hoff]
      congr 1
      omega
    by_cases hp : p k = true
    · simp only [hp, if_true, List.cons_append, List.nil_append, List.zipIdx_cons, List.map_cons,
        Nat.sub_self, List.range'_zero, List.countP_nil, Nat.add_zero, ih (k + 1) (off + 1)]
      congr 1
      exact hshift (off + 1) 1 (by
        intro n; rw [List.range'_succ, List.countP_cons, hp]; simp; omega) rfl
    · simp only [hp, Bool.false_eq_true, if_false, List.nil_append, ih (k + 1) off]
      exact hshift off 0 (by
        intro n; rw [List.range'_succ, List.countP_cons]; simp [hp]) rfl

/-- the postings of term `t` among the survivors of one segment, numbered from `start`: the
    segment's postings of `t` outside the deletions, renumbered by rank -/
theorem postings_survivors (s : AbsSeg) (d : List Nat) (start : Nat) (f t : Bytes) :
    ((survivors s d).zipIdx start).filterMap (fun q => postingOf q.1 q.2 f t) =
      ((postings s f t).filter (fun p => !d.contains p.doc)).map
        (fun p => { p with doc := start + liveCount d p.doc }) := by
  rw [survivors_eq, zipIdx_keepP, List.filterMap_map]
  unfold postings
  have hrange : ∀ n, List.range' 0 (n - 0) = List.range n := by
    intro n; rw [Nat.sub_zero, List.range_eq_range']
  simp only [Function.comp_def, hrange]
  generalize s.docs.zipIdx = L
  induction L with
  | nil => rfl
  | cons q L ih =>
    simp only [List.filter_cons, List.filterMap_cons]
    cases hpo : postingOf q.1 q.2 f t with
    | none =>
      by_cases hd : (!d.contains q.2) = true
      · simp only [hd, if_true, List.filterMap_cons]
        rw [postingOf_renumber q.1 q.2 _ f t, hpo]
        exact ih
      · simp only [hd, Bool.false_eq_true, if_false]; exact ih
    | some x =>
      have hx := postingOf_doc hpo
      by_cases hd : (!d.contains q.2) = true
      · simp only [hd, if_true, List.filterMap_cons, List.filter_cons, hx]
        rw [postingOf_renumber q.1 q.2 _ f t, hpo]
        simp only [Option.map_some, List.map_cons, ih, hx, liveCount]
      · simp only [hd, List.filter_cons, hx, Bool.false_eq_true, if_false]
        exact ih

/-! ### the abstraction function -/

/-- the dictionary of field `f` of an abstract segment: its terms in ascending order, each with
    its postings -/
def absDict (s : AbsSeg) (f : Bytes) : List (Bytes × List Posting) :=
  (terms s f).map (fun t => (t, postings s f t))

/-- one input of the merge loop: the segment, its deletions, its old→new number map.
    (`dict := none`, a segment not knowing the field, behaves like the empty dictionary: both
    are left out by `setupActive`.) -/
def absSegIn (f : Bytes) (s : AbsSeg) (drops : List Nat) (nd : List (Option Nat)) : SegIn :=
  { dict := some (absDict s f), drops := some drops, newDocNums := nd }

/-- the inputs of the merge loop for `Spec.merge mode ins` -/
def absSegs (mode : Nat) (f : Bytes) (ins : List (AbsSeg × List Nat)) : List SegIn :=
  (ins.zip (merge mode ins).2).map (fun q => absSegIn f q.1.1 q.1.2 q.2)

def absCfg (mode : Nat) (ins : List (AbsSeg × List Nat)) : Cfg :=
  { fieldsInv := (merge mode ins).1.fields, chunkMode := mode,
    newSegDocCount := numDocs (merge mode ins).1 }

def normDrops (d : List Nat) : Option (List Nat) :=
  match d with
  | x :: r => some (x :: r)
  | [] => none

theorem dropped_normDrops (d : List Nat) (x : Nat) : dropped (normDrops d) x = d.contains x := by
  cases d <;> rfl

/-- the active segments, with the number maps in closed form -/
def activeFrom (f : Bytes) : List (AbsSeg × List Nat) → Nat → List Active
  | [], _ => []
  | (s, d) :: r, start =>
    (if (terms s f).isEmpty then []
     else [{ dict := absDict s f, drops := normDrops d,
             newDocNums := remapList s.docs.length d start }]) ++
    activeFrom f r (start + liveCount d s.docs.length)

theorem setupActive_cons (x : SegIn) (r : List SegIn) :
    setupActive (x :: r) = setupActive [x] ++ setupActive r := by
  simp only [setupActive, List.filterMap_cons, List.filterMap_nil]
  split <;> simp

theorem setupActive_one (f : Bytes) (s : AbsSeg) (d : List Nat) (nd : List (Option Nat)) :
    setupActive [absSegIn f s d nd] =
      if (terms s f).isEmpty then []
      else [{ dict := absDict s f, drops := normDrops d, newDocNums := nd }] := by
  simp only [setupActive, List.filterMap_cons, List.filterMap_nil, absSegIn, absDict,
    List.isEmpty_map]
  by_cases he : (terms s f).isEmpty = true
  · simp [he]
  · simp only [he, Bool.false_eq_true, if_false]
    cases d <;> rfl

theorem setupActive_abs (f : Bytes) : ∀ (ins : List (AbsSeg × List Nat)) (start : Nat),
    setupActive ((ins.zip (remapAll (ins.map (fun p => (p.1.docs.length, p.2))) start)).map
      (fun q => absSegIn f q.1.1 q.1.2 q.2)) = activeFrom f ins start := by
  intro ins
  induction ins with
  | nil => intro start; rfl
  | cons p r ih =>
    intro start
    obtain ⟨s, d⟩ := p
    simp only [List.map_cons, remapAll_cons, List.zip_cons_cons, activeFrom]
    rw [setupActive_cons, ih (start + liveCount d s.docs.length), setupActive_one]

theorem setupActive_absSegs (mode : Nat) (f : Bytes) (ins : List (AbsSeg × List Nat)) :
    setupActive (absSegs mode f ins) = activeFrom f ins 0 := by
  unfold absSegs
  rw [merge_maps]
  exact setupActive_abs f ins 0

/-! ### the postings of a term, segment by segment -/

/-- the postings of `k` the loop writes, with the field of a location still as a name -/
def termPostings (active : List Active) (k : Bytes) : List Posting :=
  active.flatMap (fun s =>
    match lookupK k s.dict with
    | some ps => (iterSurvivors s.drops ps).map (fun p => { p with doc := newDocOf s.newDocNums p.doc })
    | none => [])

theorem lookupK_absDict (s : AbsSeg) (f t : Bytes) :
    lookupK t (absDict s f) = if t ∈ terms s f then some (postings s f t) else none := by
  unfold absDict
  generalize terms s f = ts
  induction ts with
  | nil => rfl
  | cons a r ih =>
    simp only [List.map_cons, lookupK, ih, List.mem_cons]
    by_cases h : a = t
    · subst h; simp
    · have : ¬ t = a := fun e => h e.symm
      simp [h, this]

theorem newDocOf_remapList (n : Nat) (d : List Nat) (start x : Nat) (hx : x < n)
    (hd : d.contains x = false) : newDocOf (remapList n d start) x = start + liveCount d x := by
  have : x ∉ d := by simpa using hd
  simp [newDocOf, getElem?_remapList, hx, this]

/-- **S2**: what the loop writes for term `t` is what the specification says the merged segment
    holds for `t` -/
theorem termPostings_spec (f t : Bytes) : ∀ (ins : List (AbsSeg × List Nat)) (start : Nat),
    termPostings (activeFrom f ins start) t =
      ((ins.flatMap (fun p => survivors p.1 p.2)).zipIdx start).filterMap
        (fun q => postingOf q.1 q.2 f t) := by
  intro ins
  induction ins with
  | nil => intro start; rfl
  | cons p r ih =>
    intro start
    obtain ⟨s, d⟩ := p
    simp only [List.flatMap_cons, List.zipIdx_append, List.filterMap_append, length_survivors,
      postings_survivors, activeFrom]
    rw [← ih (start + liveCount d s.docs.length)]
    simp only [termPostings, List.flatMap_append]
    congr 1
    -- the part of segment `s`
    have hnil : t ∉ terms s f → postings s f t = [] := by
      intro h
      by_cases hp : postings s f t = []
      · exact hp
      · exact absurd ((mem_terms_iff s f t).2 hp) h
    by_cases he : (terms s f).isEmpty = true
    · have : t ∉ terms s f := by
        rw [List.isEmpty_iff.1 he]; simp
      simp [he, hnil this]
    · simp only [he, Bool.false_eq_true, if_false, List.flatMap_cons, List.flatMap_nil,
        List.append_nil, lookupK_absDict]
      by_cases ht : t ∈ terms s f
      · simp only [ht, if_true, iterSurvivors, dropped_normDrops]
        apply List.map_congr_left
        intro p hp
        have hp' := List.mem_filter.1 hp
        rw [newDocOf_remapList _ _ _ _ (postings_doc_lt s f t p hp'.1) (by simpa using hp'.2)]
      · simp [ht, hnil ht]

theorem termPostings_merge (mode : Nat) (f t : Bytes) (ins : List (AbsSeg × List Nat)) :
    termPostings (activeFrom f ins 0) t = postings (merge mode ins).1 f t := by
  rw [termPostings_spec]; rfl

theorem mem_mergedTerms_of_postings (active : List Active) (t : Bytes)
    (h : termPostings active t ≠ []) : t ∈ mergedTerms active := by
  obtain ⟨p, hp⟩ := List.exists_mem_of_ne_nil _ h
  simp only [termPostings, List.mem_flatMap] at hp
  obtain ⟨s, hs, hps⟩ := hp
  simp only [mergedTerms, mem_sortDedup, List.mem_flatMap, List.mem_map]
  cases hl : lookupK t s.dict with
  | none => simp [hl] at hps
  | some ps => exact ⟨s, hs, (t, ps), lookupK_mem hl, rfl⟩

/-- **S3**: the terms the loop inserts are the terms of the merged segment -/
theorem mergedTerms_spec (mode : Nat) (f : Bytes) (ins : List (AbsSeg × List Nat)) :
    (mergedTerms (activeFrom f ins 0)).filter
        (fun t => !(termPostings (activeFrom f ins 0) t).isEmpty) =
      terms (merge mode ins).1 f := by
  apply asc_ext
  · exact List.Pairwise.filter _ (asc_sortDedup _)
  · exact asc_sortDedup _
  · intro t
    rw [List.mem_filter, mem_terms_iff, ← termPostings_merge mode f t ins]
    constructor
    · rintro ⟨_, h⟩
      intro e; rw [e] at h; simp at h
    · intro h
      refine ⟨mem_mergedTerms_of_postings _ t h, ?_⟩
      cases hh : termPostings (activeFrom f ins 0) t with
      | nil => exact absurd hh h
      | cons a r => rfl

/-! ### the abstraction satisfies the contract of the loop -/

theorem mem_activeFrom (f : Bytes) : ∀ (ins : List (AbsSeg × List Nat)) (start : Nat) (a : Active),
    a ∈ activeFrom f ins start → ∃ s d st, (s, d) ∈ ins ∧ a.dict = absDict s f ∧
      a.drops = normDrops d ∧ a.newDocNums = remapList s.docs.length d st := by
  intro ins
  induction ins with
  | nil => intro start a h; cases h
  | cons p r ih =>
    intro start a h
    obtain ⟨s, d⟩ := p
    simp only [activeFrom, List.mem_append] at h
    rcases h with h | h
    · split at h
      · cases h
      · simp only [List.mem_singleton] at h
        subst h
        exact ⟨s, d, start, by simp, rfl, rfl, rfl⟩
    · obtain ⟨s', d', st, hm, h1, h2, h3⟩ := ih _ a h
      exact ⟨s', d', st, by simp [hm], h1, h2, h3⟩

theorem termCard_eq (active : List Active) (k : Bytes) :
    termCard active k = (termPostings active k).length := by
  unfold termCard termPostings segsOf
  induction active with
  | nil => rfl
  | cons s r ih =>
    simp only [List.filterMap_cons, List.flatMap_cons, List.length_append]
    cases lookupK k s.dict with
    | none => simpa using ih
    | some ps => simp only [Option.map_some, List.map_cons, List.sum_cons, ih, List.length_map]

theorem wfActive_abs (mode : Nat) (f : Bytes) (ins : List (AbsSeg × List Nat))
    (hmode : 1 ≤ mode ∧ mode ≤ 1025) (hdocs : 1 ≤ numDocs (merge mode ins).1) :
    WFActive (absCfg mode ins) (activeFrom f ins 0) := by
  constructor
  · intro a ha
    obtain ⟨s, d, st, _, h1, _, _⟩ := mem_activeFrom f ins 0 a ha
    rw [h1]
    simp only [absDict, List.map_map, Function.comp_def, List.map_id']
    exact asc_sortDedup _
  · intro a ha e he p hp hdrop
    obtain ⟨s, d, st, _, h1, h2, h3⟩ := mem_activeFrom f ins 0 a ha
    rw [h1] at he
    simp only [absDict, List.mem_map] at he
    obtain ⟨t, _, rfl⟩ := he
    rw [h2, dropped_normDrops] at hdrop
    have hlt := postings_doc_lt s f t p hp
    have : p.doc ∉ d := by simpa using hdrop
    rw [h3, getElem?_remapList]
    simp [hlt, this]
  · exact hmode
  · exact hdocs
  · intro k
    rw [termCard_eq, termPostings_merge mode]
    show (postings (merge mode ins).1 f k).length ≤ (merge mode ins).1.docs.length
    unfold postings
    have := List.length_filterMap_le (fun q : ADoc × Nat => postingOf q.1 q.2 f k)
      (merge mode ins).1.docs.zipIdx
    simpa using this

/-! ### reading the re-encoded locations back -/

theorem idxOf?_spec (l : List Bytes) (a : Bytes) (h : a ∈ l) :
    ∃ i, l.idxOf? a = some i ∧ l[i]? = some a ∧ i < l.length := by
  induction l with
  | nil => cases h
  | cons b r ih =>
    rw [List.idxOf?_cons]
    by_cases hb : b = a
    · subst hb; exact ⟨0, by simp, by simp, by simp⟩
    · have : a ∈ r := by
        rcases List.mem_cons.1 h with e | h
        · exact absurd e.symm hb
        · exact h
      obtain ⟨i, h1, h2, h3⟩ := ih this
      refine ⟨i + 1, by simp [hb, h1], by simpa using h2, by simp; omega⟩

theorem read_encLoc (fi : List Bytes) (hlen : fi.length ≤ 65536) (l : Loc) (h : l.field ∈ fi) :
    MLoc.read fi (encLoc fi l) = some l := by
  obtain ⟨i, h1, h2, h3⟩ := idxOf?_spec fi l.field h
  have : i % 65536 = i := Nat.mod_eq_of_lt (by omega)
  simp [MLoc.read, encLoc, fieldIdOf, h1, this, h2]

theorem readLocs_enc (fi : List Bytes) (hlen : fi.length ≤ 65536) (ls : List Loc)
    (h : ∀ l ∈ ls, l.field ∈ fi) : readLocs fi (ls.map (encLoc fi)) = some ls := by
  induction ls with
  | nil => rfl
  | cons l r ih =>
    simp only [List.map_cons, readLocs, read_encLoc fi hlen l (h l (by simp)),
      ih (fun x hx => h x (by simp [hx]))]

/-- reading back a re-encoded posting gives the posting with its new number, provided the fields
    named by its locations are fields of the merged segment -/
theorem read_encPosting (fi : List Bytes) (hlen : fi.length ≤ 65536) (p : Posting)
    (h : ∀ l ∈ p.locs, l.field ∈ fi) : (encPosting fi p.doc p).read fi = some p := by
  simp [MPosting.read, encPosting, readLocs_enc fi hlen p.locs h]

end Ice.Model.MergeLoop
