import IceModel.Model.CacheFault
/-
  (c) docValueReader: `sort.Search` on an arbitrary predicate, and the visit of a document on a
  header that a failed load has partly overwritten.
-/
namespace Ice.Model.CacheFault

/-! ### sort.Search without monotonicity -/

theorem searchLoop_spec (p : Nat → Bool) (n : Nat) : ∀ (fuel lo hi : Nat),
    hi - lo ≤ fuel → lo ≤ hi → hi ≤ n →
    (lo = 0 ∨ p (lo - 1) = false) → (hi = n ∨ p hi = true) →
    let i := searchLoop p fuel lo hi
    i ≤ n ∧ (i = 0 ∨ p (i - 1) = false) ∧ (i = n ∨ p i = true) := by
  intro fuel
  induction fuel with
  | zero =>
    intro lo hi hf hle hn hlo hhi
    have : lo = hi := by omega
    subst this
    simp only [searchLoop]
    exact ⟨hn, hlo, hhi⟩
  | succ fuel ih =>
    intro lo hi hf hle hn hlo hhi
    simp only [searchLoop]
    by_cases hlt : lo < hi
    · simp only [hlt, if_true]
      have hmid1 : lo ≤ (lo + hi) / 2 := by omega
      have hmid2 : (lo + hi) / 2 < hi := by omega
      cases hp : p ((lo + hi) / 2)
      · simp only [Bool.not_false, if_true]
        exact ih ((lo + hi) / 2 + 1) hi (by omega) (by omega) hn
          (Or.inr (by simpa using hp)) hhi
      · simp only [Bool.not_true, Bool.false_eq_true, if_false]
        exact ih lo ((lo + hi) / 2) (by omega) (by omega) (by omega) hlo (Or.inr hp)
    · simp only [hlt, if_false]
      have : lo = hi := by omega
      subst this
      exact ⟨hn, hlo, hhi⟩

/-- whatever the predicate: the result has a false predecessor (or is 0) and is itself true (or is n) -/
theorem sortSearch_spec (n : Nat) (p : Nat → Bool) :
    sortSearch n p ≤ n ∧ (sortSearch n p = 0 ∨ p (sortSearch n p - 1) = false) ∧
    (sortSearch n p = n ∨ p (sortSearch n p) = true) :=
  searchLoop_spec p n n 0 n (by omega) (by omega) (by omega) (Or.inl rfl) (Or.inl rfl)

/-- what `getDocValueLocs` guarantees when it finds something -/
theorem getDocValueLocs_some {hdr : List Meta} {d s e : Nat} (h : getDocValueLocs hdr d = some (s, e)) :
    ∃ i m, hdr[i]? = some m ∧ m.doc = d ∧ e = m.off ∧
      ((i = 0 ∧ s = 0) ∨ (0 < i ∧ ∃ m', hdr[i - 1]? = some m' ∧ m'.doc < d ∧ s = m'.off)) := by
  unfold getDocValueLocs at h
  simp only at h
  split at h
  · rename_i hc
    obtain ⟨hlt, hdoc⟩ := hc
    generalize hi : sortSearch hdr.length (fun i => decide (d ≤ (hdr.getD i default).doc)) = i at h hlt hdoc
    have hs := (sortSearch_spec hdr.length (fun i => decide (d ≤ (hdr.getD i default).doc))).2.1
    rw [hi] at hs
    simp only [Option.some.injEq, Prod.mk.injEq] at h
    have hget : hdr[i]? = some (hdr.getD i default) := by
      simp [List.getD, List.getElem?_eq_getElem hlt]
    refine ⟨i, hdr.getD i default, hget, hdoc, h.2.symm, ?_⟩
    rcases Nat.eq_zero_or_pos i with h0 | hpos
    · left; subst h0; simp at h; exact ⟨rfl, h.1.symm⟩
    · right
      refine ⟨hpos, hdr.getD (i - 1) default, ?_, ?_, ?_⟩
      · have : i - 1 < hdr.length := by omega
        simp [List.getD, List.getElem?_eq_getElem this]
      · rcases hs with hs | hs
        · omega
        · simp only [decide_eq_false_iff_not, Nat.not_le] at hs; exact hs
      · simp [hpos] at h; exact h.1.symm
  · cases h

/-! ### cells of a header, seen from the cached chunk `B` -/

def entriesOf (st : DvStore) (n : Nat) : List Meta :=
  match st n with
  | none => []
  | some c => c.entries

/-- a cell that cannot be taken for a document of chunk `B` with values: it names a document of
    another chunk, or it is a zeroed cell of a fresh array -/
def Foreign (chunkOf : Nat → Nat) (B : Nat) (m : Meta) : Prop := chunkOf m.doc ≠ B ∨ m = default

/-- a cell whose document lies in a later chunk -/
def High (chunkOf : Nat → Nat) (B : Nat) (m : Meta) : Prop := B < chunkOf m.doc

/-- cell `j` is entry `j` of chunk `B`, untouched -/
def Own (st : DvStore) (B : Nat) (j : Nat) (m : Meta) : Prop := (entriesOf st B)[j]? = some m

/-- every cell of the visible header is foreign to `B`, or it is `B`'s own entry AND its
    predecessor is `B`'s own entry or names a later chunk -/
def SafeView (chunkOf : Nat → Nat) (st : DvStore) (B : Nat) (v : List Meta) : Prop :=
  ∀ j m, v[j]? = some m →
    Foreign chunkOf B m ∨
    (Own st B j m ∧ (j = 0 ∨ ∃ m', v[j - 1]? = some m' ∧ (High chunkOf B m' ∨ Own st B (j - 1) m')))

/-- compressed data and decompressed copy are those of chunk `B` -/
def DataOK (st : DvStore) (B : Nat) (r : DvReader) : Prop :=
  match st B with
  | none => True
  | some c => r.data = some c.data ∧ (r.uncompressed = [] ∨ r.uncompressed = c.data)

theorem findIdx_of_sorted (es : List Meta) (hs : es.Pairwise (fun a b => a.doc < b.doc)) :
    ∀ (i : Nat) (m : Meta), es[i]? = some m → es.findIdx? (fun x => x.doc == m.doc) = some i := by
  induction es with
  | nil => intro i m h; simp at h
  | cons a l ih =>
    intro i m h
    rw [List.findIdx?_cons]
    obtain ⟨ha, hl⟩ := List.pairwise_cons.mp hs
    cases i with
    | zero =>
      simp only [List.getElem?_cons_zero, Option.some.injEq] at h
      subst h; simp
    | succ i =>
      simp only [List.getElem?_cons_succ] at h
      have hm : m ∈ l := List.mem_of_getElem? h
      have := ha m hm
      have hne : (a.doc == m.doc) = false := by simp; omega
      simp [hne, ih hl i m h]

/-- the two branches of the decompressed-copy logic deliver chunk `B`'s data -/
theorem DataOK.uncompressed {st : DvStore} {B : Nat} {r : DvReader} {c : DvChunk}
    (hc : st B = some c) (h : DataOK st B r) :
    (if r.uncompressed.length > 0 then r else { r with uncompressed := r.data.getD [] }).uncompressed = c.data := by
  unfold DataOK at h
  rw [hc] at h
  obtain ⟨h1, h2⟩ := h
  split
  · rename_i hl
    rcases h2 with h2 | h2
    · rw [h2] at hl; simp at hl
    · exact h2
  · simp [h1]

/-- **a visit on a partly overwritten header**: the values of the document, or nothing - never a
    panic, never another slice; the header stays, the data stays that of chunk `B` -/
theorem visitDocValues_safe (chunkOf : Nat → Nat) (st : DvStore) (wf : DvWF chunkOf st)
    (r : DvReader) (d : Nat)
    (hv : SafeView chunkOf st (chunkOf d) r.header) (hd : DataOK st (chunkOf d) r) :
    ((r.visitDocValues d).2 = specValues chunkOf st d ∨ (r.visitDocValues d).2 = .ok []) ∧
    (r.visitDocValues d).1.hdrBuf = r.hdrBuf ∧ (r.visitDocValues d).1.hdrLen = r.hdrLen ∧
    (r.visitDocValues d).1.curChunkNum = r.curChunkNum ∧ DataOK st (chunkOf d) (r.visitDocValues d).1 := by
  unfold DvReader.visitDocValues
  cases hg : getDocValueLocs r.header d with
  | none => exact ⟨Or.inr rfl, rfl, rfl, rfl, hd⟩
  | some se =>
    obtain ⟨s, e⟩ := se
    simp only
    by_cases hse : s = e
    · rw [if_pos hse]; exact ⟨Or.inr rfl, rfl, rfl, rfl, hd⟩
    · simp only [hse, if_false]
      obtain ⟨i, m, hm, hdoc, he, hpred⟩ := getDocValueLocs_some hg
      rcases hv i m hm with hfor | ⟨hown, hp⟩
      · -- a foreign cell can only be a zeroed one, at position 0, and then start = end = 0
        exfalso
        rcases hfor with hfor | hfor
        · rw [hdoc] at hfor; exact hfor rfl
        · subst hfor
          have hd0 : d = 0 := hdoc.symm
          rcases hpred with ⟨_, hs0⟩ | ⟨_, m', _, hlt, _⟩
          · apply hse; rw [hs0, he]; rfl
          · omega
      · -- the chunk's own entry with a trustworthy predecessor
        unfold Own entriesOf at hown
        cases hc : st (chunkOf d) with
        | none => rw [hc] at hown; simp at hown
        | some c =>
          rw [hc] at hown
          simp only at hown
          have hidx := findIdx_of_sorted c.entries (wf.sorted _ _ hc) i m hown
          rw [hdoc] at hidx
          have hstart : s = (if i > 0 then (c.entries.getD (i - 1) default).off else 0) := by
            rcases hpred with ⟨hi0, hs0⟩ | ⟨hpos, m', hm', hlt, hs⟩
            · simp [hi0, hs0]
            · rcases hp with hi0 | ⟨m'', hm'', hcls⟩
              · omega
              · have : m'' = m' := by rw [hm'] at hm''; exact (Option.some.inj hm'').symm
                subst this
                rcases hcls with hhigh | hown'
                · exfalso
                  unfold High at hhigh
                  have := wf.mono m''.doc d (by omega)
                  omega
                · unfold Own entriesOf at hown'
                  rw [hc] at hown'
                  simp only at hown'
                  simp [hpos, List.getD, hown', hs]
          have hend : e = (c.entries.getD i default).off := by
            simp [List.getD, hown, he]
          have hu := DataOK.uncompressed hc hd
          generalize hr2 : (if r.uncompressed.length > 0 then r
            else { r with uncompressed := r.data.getD [] }) = r2 at hu ⊢
          have hf : r2.hdrBuf = r.hdrBuf ∧ r2.hdrLen = r.hdrLen ∧ r2.curChunkNum = r.curChunkNum ∧
              r2.data = r.data := by
            rw [← hr2]; split <;> exact ⟨rfl, rfl, rfl, rfl⟩
          have hd2 : DataOK st (chunkOf d) r2 := by
            unfold DataOK
            rw [hc]
            unfold DataOK at hd; rw [hc] at hd
            exact ⟨hf.2.2.2.trans hd.1, Or.inr hu⟩
          refine ⟨Or.inl ?_, ?_, ?_, ?_, ?_⟩
          · unfold specValues
            simp only [hc, hidx]
            rw [← hstart, ← hend]
            simp only [hse, if_false]
            rw [hu]
            split <;> rfl
          · split <;> exact hf.1
          · split <;> exact hf.2.1
          · split <;> exact hf.2.2.1
          · split <;> exact hd2

end Ice.Model.CacheFault
