import IceModel.Lemmas.E2EValid
/-
  END-TO-END: the ADAPTER between the container (C04) and the byte-level iterator (C05Bytes).

  `C04_postings` exposes, for a general term of a loaded segment, decoders opened at
  `freqOffset` / `locOffset` whose chunks decode back to the entries; the invariant of the
  byte-level iterator (`IterBytes.Env.OK`) wants the chunks themselves (`fnBytes` / `locBytes` of
  the entries of the chunk).  Both are consequences of T6/T7 for the coders `writeTerm` re-sized
  (`TermPost`); `term_env` derives the environment of the iterator from the position of the term's
  bytes in the data section (`C04.field_dict`), together with what `dictionaryOf` and
  `readPostings` return.  `iter_env` is (B2) of `Props/C05Bytes.lean` for an environment.
-/
namespace Ice.Props.E2E
open Ice Ice.Spec Ice.Model Ice.Model.Format
open Ice.Model.ChunkBytes (Entry Coder Codec tfAdds locAdds fnBytes locBytes Decoder Fresh)
open Ice.Model.IterBytes
open Ice.Model.Iter (RFlags)
open Ice.Model.DocValues (add64 sub64 Data)
open Ice.Model.Writer (Footer)

open Ice.Props.ChunkBytes in
/-- `Lemmas/Format.lean: postings_decoders` with the chunks themselves in the conclusion: the
    decoders opened at the offsets `writeAt` returned load, for every chunk, `fnBytes` /
    `locBytes` of the entries of that chunk -/
theorem postings_streams (Kc : Codec) (cs total : Nat) (hpos : 0 < cs)
    (es : List Entry) (hs : es.Pairwise (fun a b => a.doc ≤ b.doc))
    (hidx : ∀ e ∈ es, e.doc / cs < total) (ht : 0 < total)
    (tf lc tf' lc' : Coder) (hf1 : Fresh tf) (hc1 : tf.chunkSize = cs) (hl1 : tf.lensLen = total)
    (hf2 : Fresh lc) (hc2 : lc.chunkSize = cs) (hl2 : lc.lensLen = total)
    (htf' : tf.encode Kc (tfAdds es) = .ok tf') (hlc' : lc.encode Kc (locAdds es) = .ok lc')
    (file : Bool) (pre suf : Bytes) (hpre : pre ≠ []) :
    let w1 := tf'.writeAt pre.length
    let w2 := lc'.writeAt (pre.length + w1.2.1.length)
    let data := pre ++ w1.2.1 ++ w2.2.1 ++ suf
    data.length < 2 ^ 62 → (file = true → 10 ≤ suf.length) →
    ∃ dt dl, Decoder.newWith file data w1.1 = .ok dt ∧
      Decoder.newWith file data w2.1 = .ok dl ∧
      ∀ c, c < total →
        dt.loadChunk Kc c = .ok (fnBytes (chunkE cs es c)) ∧
        dl.loadChunk Kc c = .ok (locBytes (chunkE cs es c)) := by
  intro w1 w2 data hsz hsuf
  have hidx1 : ∀ a ∈ tfAdds es, a.1 / cs < total := by
    intro a ha
    simp only [tfAdds, List.mem_map] at ha
    obtain ⟨e, he, rfl⟩ := ha
    exact hidx e he
  have hidx2 : ∀ a ∈ locAdds es, a.1 / cs < total := by
    intro a ha
    simp only [locAdds, List.mem_flatMap] at ha
    obtain ⟨e, he, ha⟩ := ha
    rw [ChunkBytes.locAddsOf_doc e a ha]
    exact hidx e he
  obtain ⟨hs1, hs2⟩ := T7_sorted cs es hs
  have hd1 : data = pre ++ (tf'.writeAt pre.length).2.1 ++ (w2.2.1 ++ suf) := by
    simp only [data, w1, List.append_assoc]
  have hd2 : data = (pre ++ w1.2.1) ++ (lc'.writeAt (pre ++ w1.2.1).length).2.1 ++ suf := by
    simp only [data, w2, List.length_append]
  obtain ⟨dt, hdt, hlt⟩ := T6_writeAt Kc tf hf1 cs total hc1 hpos hl1 ht (tfAdds es) hs1
    hidx1 tf' htf' file pre (w2.2.1 ++ suf) hpre (by rw [← hd1]; exact hsz)
    (by intro h; have := hsuf h; simp; omega)
  obtain ⟨dl, hdl, hll⟩ := T6_writeAt Kc lc hf2 cs total hc2 hpos hl2 ht (locAdds es) hs2
    hidx2 lc' hlc' file (pre ++ w1.2.1) suf (by simp [hpre]) (by rw [← hd2]; exact hsz) hsuf
  rw [← hd1] at hdt
  rw [← hd2] at hdl
  have hw2 : w2.1 = (lc'.writeAt (pre ++ w1.2.1).length).1 := by simp only [w2, List.length_append]
  refine ⟨dt, dl, hdt, by rw [hw2]; exact hdl, ?_⟩
  intro c hc
  refine ⟨?_, ?_⟩
  · rw [hlt c hc, (T7_chunks cs es c).1]; rfl
  · rw [hll c hc, (T7_chunks cs es c).2]; rfl

/-- **C04_postings, in the vocabulary of the byte-level iterator.**  For a general term of a
    written segment with documents: `dictionaryOf` finds its FST value, `readPostings` its record,
    and the record's offsets, the data section and the backing `file` form an environment in
    which the invariant of the byte-level iterator holds (`Env.OK`) - for any field table `finv`
    for which the entries satisfy the reader's contract. -/
theorem term_env {K : Codecs} {L : LSeg} (hv : C04.Valid K L) {data : Bytes} {ft : Footer}
    {mid : Bytes} {dictLocs : List Nat} (hw : C04.Written K L data ft mid dictLocs)
    (hnd : 0 < L.numDocs) (mem : Bool) (rs : List (Option DocValues.Reader))
    (i : Nat) (f : FieldDesc) (hf : L.fields[i]? = some f)
    (j : Nat) (key : Bytes) (es : List Entry) (ht : f.terms[j]? = some (key, .general es))
    (finv : List Bytes) (hc : C05Bytes.Contract finv (L.numDocs - 1) es) (file : Bool) :
    ∃ fst v fo lo cs,
      dictionaryOf K (C04.loadedSeg K L data ft mem dictLocs rs) i = .ok (some fst) ∧
      fst.map (·.1) = f.terms.map (·.1) ∧ fst[j]? = some (key, v) ∧
      readPostings K (C04.loadedSeg K L data ft mem dictLocs rs) v =
        .ok (.general fo lo (es.map (·.doc)) cs) ∧
      getChunkSize L.chunkMode es.length L.numDocs = .ok cs ∧
      ∃ E : Env, E.OK ∧ E.K = K.chunk ∧ E.es = es ∧ E.cs = cs ∧ E.finv = finv ∧ E.file = file ∧
        E.data = data ∧ E.freqOffset = fo ∧ E.locOffset = lo ∧ E.maxDoc = L.numDocs - 1 := by
  obtain ⟨vals, hvl, hvals, hdict, hterm⟩ := C04.field_dict hv hw hnd mem rs i f hf
  obtain ⟨pre, tbj, suf, v, hvj, hdd, hpre, hsuf, htp⟩ := hterm j _ ht
  have hlen := hw.len
  have hl' := congrArg List.length hdd
  simp only [List.length_append] at hl'
  have hprepos : 0 < pre.length := List.length_pos_iff.mpr hpre
  have htv := (hv.fields f (List.mem_of_getElem? hf)).2.2.2.2.1 (key, .general es)
    (List.mem_of_getElem? ht)
  obtain ⟨hne, hok⟩ := htv
  obtain ⟨cs, tf0, lc0, tf', lc', hcs, hcspos, hf1, hc1, hl1, hf2, hc2, hl2, htf', hlc', hb, hvv⟩ := htp
  have hbl := congrArg List.length hb
  simp only [List.length_append] at hbl
  obtain ⟨hraw, hw1lt, hw1c, hw2c, hadj⟩ :=
    locOffset_roundtrip tf' lc' pre.length hprepos (by omega)
  rw [u64_small (by omega)] at hvv
  -- the record lies at `v`
  have hdrop : ({ bytes := data, mem := mem } : Data).bytes.drop v =
      putUvarint (tf'.writeAt pre.length).1 ++
        putUvarint (if (lc'.writeAt (pre.length + (tf'.writeAt pre.length).2.1.length)).1 > 0 ∧
            (tf'.writeAt pre.length).1 > 0
          then sub64 (lc'.writeAt (pre.length + (tf'.writeAt pre.length).2.1.length)).1
            (tf'.writeAt pre.length).1
          else (lc'.writeAt (pre.length + (tf'.writeAt pre.length).2.1.length)).1) ++
        putUvarint (K.rEnc (es.map (·.doc))).length ++ K.rEnc (es.map (·.doc)) ++ suf := by
    show data.drop v = _
    rw [hdd, hb, hvv]
    have : pre ++ ((tf'.writeAt pre.length).2.1 ++
        (lc'.writeAt (pre.length + (tf'.writeAt pre.length).2.1.length)).2.1 ++
        postingsRecord K (tf'.writeAt pre.length).1
          (lc'.writeAt (pre.length + (tf'.writeAt pre.length).2.1.length)).1 (es.map (·.doc))) ++ suf =
        (pre ++ (tf'.writeAt pre.length).2.1 ++
          (lc'.writeAt (pre.length + (tf'.writeAt pre.length).2.1.length)).2.1) ++
        (postingsRecord K (tf'.writeAt pre.length).1
          (lc'.writeAt (pre.length + (tf'.writeAt pre.length).2.1.length)).1 (es.map (·.doc)) ++ suf) := by
      simp only [List.append_assoc]
    rw [this]
    have hl3 : (pre ++ (tf'.writeAt pre.length).2.1 ++
        (lc'.writeAt (pre.length + (tf'.writeAt pre.length).2.1.length)).2.1).length =
        pre.length + (tf'.writeAt pre.length).2.1.length +
          (lc'.writeAt (pre.length + (tf'.writeAt pre.length).2.1.length)).2.1.length := by
      simp only [List.length_append]
    rw [← hl3, List.drop_left]
    unfold postingsRecord
    simp only [List.append_assoc]
  have hdocs : (es.map (·.doc)).Pairwise (· < ·) := by
    rw [List.pairwise_map]; exact hok.2.1
  have h32 : ∀ d ∈ es.map (·.doc), d < 2 ^ 32 := by
    intro d hd
    obtain ⟨e, he, rfl⟩ := List.mem_map.mp hd
    have := hok.2.2 e he
    have := hv.numDocs_lt
    omega
  have hrec := readRecord_ok K (C04.loadedSeg K L data ft mem dictLocs rs) v _ _
    (es.map (fun (e : Entry) => e.doc)) suf hdrop (by omega) (by show v ≤ data.length; omega)
    (by show data.length < 2 ^ 62; omega) hw1lt hraw hdocs h32
  have hcs' : getChunkSize (C04.loadedSeg K L data ft mem dictLocs rs).footer.chunkMode
      (es.map (·.doc)).length (C04.loadedSeg K L data ft mem dictLocs rs).footer.numDocs = .ok cs := by
    show getChunkSize ft.chunkMode _ ft.numDocs = _
    rw [hw.shape.mode, hw.shape.numDocs, List.length_map]; exact hcs
  have hidx : ∀ e ∈ es, e.doc / cs < (L.numDocs - 1) / cs + 1 := by
    intro e he
    have := hok.2.2 e he
    exact chunk_index_lt cs e.doc (L.numDocs - 1) (by omega)
  have hstreams := postings_streams K.chunk cs ((L.numDocs - 1) / cs + 1) hcspos es hok.sorted hidx
    (Nat.succ_pos _) tf0 lc0 tf' lc' hf1 hc1 hl1 hf2 hc2 hl2 htf' hlc' file pre
    (postingsRecord K (tf'.writeAt pre.length).1
      (lc'.writeAt (pre.length + (tf'.writeAt pre.length).2.1.length)).1 (es.map (·.doc)) ++ suf)
    hpre
  simp only at hstreams
  have hdata : pre ++ (tf'.writeAt pre.length).2.1 ++
      (lc'.writeAt (pre.length + (tf'.writeAt pre.length).2.1.length)).2.1 ++
      (postingsRecord K (tf'.writeAt pre.length).1
        (lc'.writeAt (pre.length + (tf'.writeAt pre.length).2.1.length)).1 (es.map (·.doc)) ++ suf)
      = data := by
    rw [hdd, hb]; simp only [List.append_assoc]
  rw [hdata] at hstreams
  obtain ⟨dt, dl, hdt, hdl, hload⟩ :=
    hstreams (by omega) (by intro _; simp only [List.length_append]; omega)
  refine ⟨_, v, (tf'.writeAt pre.length).1,
    (lc'.writeAt (pre.length + (tf'.writeAt pre.length).2.1.length)).1, cs, hdict, ?_, ?_, ?_, hcs,
    { K := K.chunk, es := es, cs := cs, maxDoc := L.numDocs - 1, file := file, data := data,
      freqOffset := (tf'.writeAt pre.length).1,
      locOffset := (lc'.writeAt (pre.length + (tf'.writeAt pre.length).2.1.length)).1,
      finv := finv, dt := dt, dl := dl },
    ?_, rfl, rfl, rfl, rfl, rfl, rfl, rfl, rfl, rfl⟩
  · rw [List.map_fst_zip]; simp [hvl]
  · rw [List.getElem?_zip_eq_some]
    exact ⟨by rw [List.getElem?_map, ht]; rfl, hvj⟩
  · unfold readPostings
    have h1 : is1Hit v = false := is1Hit_offset v (by omega)
    rw [h1]
    simp only [Bool.false_eq_true, if_false, hrec, ChunkBytes.ok_bind, hcs',
      ChunkBytes.pure_eq_ok]
    rw [hadj]
  · refine ⟨hcspos, hc.valid, hc.freq, hc.norm, hc.fld, hc.doc, hdt, hdl, ?_, ?_⟩
    · intro c hcle
      exact (hload c (by show c < (L.numDocs - 1) / cs + 1; exact Nat.lt_succ_of_le hcle)).1
    · intro c hcle
      exact (hload c (by show c < (L.numDocs - 1) / cs + 1; exact Nat.lt_succ_of_le hcle)).2

/-- (B2) of `Props/C05Bytes.lean` for an environment: a fresh iterator over the postings list of
    the environment answers every script as the specification iterator does over the entries seen
    through the field table. -/
theorem iter_env {E : Env} (hE : E.OK) (hsorted : E.es.Pairwise (fun a b => a.doc < b.doc))
    (ex : Option (List Nat)) (fl : Flags) (ops : List IterOp) :
    ∃ i0, mkB (E.pl ex) (RFlags.of fl) = .ok i0 ∧
      (runB E.K i0 ops).map (C05Bytes.viewRes fl) =
        (iterRun fl (live (E.es.map (toP E.finv)) ex) ops).map .ok := by
  obtain ⟨i0, hmk, hwf, habs⟩ := iteratorB_ok hE ex (RFlags.of fl) none
  refine ⟨i0, hmk, ?_⟩
  have hsm : C05.Sorted (E.es.map (toP E.finv)) := C05Bytes.sorted_map hsorted
  have hent := C05.C05_entry E.cs hE.cspos (E.es.map (toP E.finv)) hsm ex (RFlags.of fl)
    (C05.RFlags.of_wf fl) ops
  have h2 : runB E.K i0 ops =
      (Iter.specRun (RFlags.of fl) (live (E.es.map (toP E.finv)) ex) ops).map resOf := by
    rw [runB_sim hE ops i0 hwf (by rw [habs, hent]; exact C05Bytes.specRun_ne_none _ ops _), habs, hent]
  have hent' := C05.C05_entry_of E.cs hE.cspos _ hsm ex fl ops
  have hview := C05.C05_view E.cs hE.cspos _ hsm ex fl ops
  rw [hent'] at hview
  rw [h2, List.map_map]
  have : (C05Bytes.viewRes fl ∘ resOf) =
      (fun r => match r with
        | some o => Res.ok o
        | none => Res.err) ∘ (fun r : Option (Option Posting) => r.map (fun o => o.map (view fl))) := by
    funext r
    cases r <;> rfl
  rw [this, ← List.map_map, hview, List.map_map]
  rfl

end Ice.Props.E2E
