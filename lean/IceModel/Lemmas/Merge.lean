import IceModel.Spec.Seg
/-
  List algebra behind `Spec.merge`: survivors as an index filter (`keepP`), the number map
  `remap`/`remapAll` in closed form, and the link between the two.
-/
namespace Ice.Spec

/-! ### generic list facts -/

theorem flatMap_congr' {α β} {f g : α → List β} {l : List α} (h : ∀ a ∈ l, f a = g a) :
    l.flatMap f = l.flatMap g := by
  induction l with
  | nil => rfl
  | cons a r ih =>
    simp only [List.flatMap_cons]
    rw [h a (by simp), ih (fun a ha => h a (List.mem_cons_of_mem _ ha))]

/-- element `j` of the `i`-th block of a `flatMap` -/
theorem getElem?_flatMap_block {α β} (f : α → List β) (l : List α) (i j : Nat) (a : α)
    (hi : l[i]? = some a) (hj : j < (f a).length) :
    (l.flatMap f)[((l.take i).map (fun x => (f x).length)).sum + j]? = (f a)[j]? := by
  induction l generalizing i with
  | nil => simp at hi
  | cons x r ih =>
    cases i with
    | zero =>
      simp at hi; subst hi
      simp [List.getElem?_append, hj]
    | succ i =>
      simp at hi
      have := ih i hi
      simp only [List.take_succ_cons, List.map_cons, List.sum_cons, List.flatMap_cons,
        List.getElem?_append]
      have h1 : ¬ (f x).length + ((r.take i).map (fun x => (f x).length)).sum + j < (f x).length := by
        omega
      rw [if_neg h1, ← this]
      congr 1
      omega

/-! ### survivors as an index filter -/

/-- elements of `l` whose index (counted from `k`) satisfies `p` -/
def keepP {α} (p : Nat → Bool) (k : Nat) (l : List α) : List α :=
  ((l.zipIdx k).filter (fun q => p q.2)).map (·.1)

theorem keepP_nil {α} (p : Nat → Bool) (k : Nat) : keepP p k ([] : List α) = [] := rfl

theorem keepP_cons {α} (p : Nat → Bool) (k : Nat) (x : α) (l : List α) :
    keepP p k (x :: l) = (if p k then [x] else []) ++ keepP p (k + 1) l := by
  simp only [keepP, List.zipIdx_cons, List.filter_cons]
  split <;> simp

theorem keepP_append {α} (p : Nat → Bool) (k : Nat) (l₁ l₂ : List α) :
    keepP p k (l₁ ++ l₂) = keepP p k l₁ ++ keepP p (k + l₁.length) l₂ := by
  simp [keepP, List.zipIdx_append]

theorem keepP_congr {α} {p q : Nat → Bool} (k : Nat) (l : List α)
    (h : ∀ i, k ≤ i → i < k + l.length → p i = q i) : keepP p k l = keepP q k l := by
  induction l generalizing k with
  | nil => rfl
  | cons x r ih =>
    rw [keepP_cons, keepP_cons, h k (Nat.le_refl _) (by simp), ih (k + 1)]
    intro i h1 h2
    exact h i (by omega) (by simp; omega)

theorem keepP_shift {α} (p : Nat → Bool) (k : Nat) (l : List α) :
    keepP p k l = keepP (fun i => p (i + k)) 0 l := by
  suffices h : ∀ j, keepP p (j + k) l = keepP (fun i => p (i + k)) j l by simpa using h 0
  induction l with
  | nil => intro j; rfl
  | cons x r ih =>
    intro j
    rw [keepP_cons, keepP_cons]
    have := ih (j + 1)
    rw [show j + 1 + k = j + k + 1 by omega] at this
    rw [this]

theorem keepP_true {α} (p : Nat → Bool) (k : Nat) (l : List α)
    (h : ∀ i, k ≤ i → i < k + l.length → p i = true) : keepP p k l = l := by
  induction l generalizing k with
  | nil => rfl
  | cons x r ih =>
    rw [keepP_cons, h k (Nat.le_refl _) (by simp), ih (k + 1)]
    · simp
    · intro i h1 h2
      exact h i (by omega) (by simp; omega)

theorem keepP_map {α β} (f : α → β) (p : Nat → Bool) (k : Nat) (l : List α) :
    keepP p k (l.map f) = (keepP p k l).map f := by
  induction l generalizing k with
  | nil => rfl
  | cons x r ih =>
    rw [List.map_cons, keepP_cons, keepP_cons, ih]
    split <;> simp

theorem mem_keepP {α} {p : Nat → Bool} {k : Nat} {l : List α} {x : α} (h : x ∈ keepP p k l) :
    x ∈ l := by
  induction l generalizing k with
  | nil => simp [keepP_nil] at h
  | cons y r ih =>
    rw [keepP_cons] at h
    rcases List.mem_append.1 h with h | h
    · split at h <;> simp at h
      simp [h]
    · exact List.mem_cons_of_mem _ (ih h)

theorem length_keepP {α} (p : Nat → Bool) (k : Nat) (l : List α) :
    (keepP p k l).length = (List.range' k l.length).countP p := by
  induction l generalizing k with
  | nil => rfl
  | cons x r ih =>
    rw [keepP_cons, List.length_append, ih, List.length_cons, List.range'_succ, List.countP_cons]
    split <;> simp <;> omega

theorem getElem?_keepP {α} (p : Nat → Bool) (k : Nat) (l : List α) (d : Nat)
    (hp : p (k + d) = true) :
    (keepP p k l)[(List.range' k d).countP p]? = l[d]? := by
  induction l generalizing k d with
  | nil => simp [keepP_nil]
  | cons x r ih =>
    rw [keepP_cons]
    cases d with
    | zero =>
      simp at hp
      simp [hp]
    | succ d =>
      have hp' : p (k + 1 + d) = true := by rw [← hp]; congr 1; omega
      have := ih (k + 1) d hp'
      rw [List.range'_succ, List.countP_cons, List.getElem?_cons_succ, ← this]
      by_cases hk : p k = true
      · simp [hk]
      · simp [hk]

/-- number of indices `< n` that survive `drops` -/
def liveCount (drops : List Nat) (n : Nat) : Nat :=
  (List.range n).countP (fun i => !drops.contains i)

theorem survivors_eq (s : AbsSeg) (drops : List Nat) :
    survivors s drops = keepP (fun i => !drops.contains i) 0 s.docs := rfl

theorem survivors_nil (s : AbsSeg) : survivors s [] = s.docs := by
  rw [survivors_eq]; exact keepP_true _ _ _ (by simp)

theorem length_survivors (s : AbsSeg) (drops : List Nat) :
    (survivors s drops).length = liveCount drops s.docs.length := by
  rw [survivors_eq, length_keepP, liveCount, List.range_eq_range']

theorem liveCount_nil (n : Nat) : liveCount [] n = n := by
  simp [liveCount]

theorem liveCount_succ (drops : List Nat) (n : Nat) :
    liveCount drops (n + 1) = liveCount drops n + (if drops.contains n then 0 else 1) := by
  simp only [liveCount, List.range_succ, List.countP_append, List.countP_cons, List.countP_nil]
  cases drops.contains n <;> simp

theorem liveCount_mono (drops : List Nat) {a b : Nat} (h : a ≤ b) : liveCount drops a ≤ liveCount drops b := by
  induction b with
  | zero => have : a = 0 := by omega
            subst this; exact Nat.le_refl _
  | succ b ih =>
    by_cases hab : a = b + 1
    · subst hab; exact Nat.le_refl _
    · have := ih (by omega)
      rw [liveCount_succ]; omega

theorem liveCount_valid (drops : List Nat) (n : Nat) (hn : drops.Nodup) (hr : ∀ x ∈ drops, x < n) :
    liveCount drops n = n - drops.length := by
  have h1 : (List.range n).countP (fun i => !drops.contains i) +
      (List.range n).countP (fun i => drops.contains i) = n := by
    have := List.length_eq_countP_add_countP (fun i => !drops.contains i) (l := List.range n)
    simp only [List.length_range] at this
    have e : (List.range n).countP (fun a => decide ¬(!drops.contains a) = true) =
        (List.range n).countP (fun i => drops.contains i) := by
      apply List.countP_congr
      intro x _
      cases drops.contains x <;> simp
    omega
  have h2 : (List.range n).countP (fun i => drops.contains i) = drops.length := by
    rw [List.countP_eq_length_filter]
    apply List.Perm.length_eq
    rw [List.perm_ext_iff_of_nodup (List.Pairwise.filter _ List.nodup_range) hn]
    intro a
    simp only [List.mem_filter, List.mem_range, List.contains_iff_mem]
    constructor
    · exact fun h => h.2
    · exact fun h => ⟨hr a h, h⟩
  unfold liveCount
  omega

/-! ### the number maps in closed form -/

/-- the closed form of one segment's number map -/
def remapList (n : Nat) (drops : List Nat) (start : Nat) : List (Option Nat) :=
  (List.range n).map (fun d => if drops.contains d then none else some (start + liveCount drops d))

theorem remap_eq (n : Nat) (drops : List Nat) (start : Nat) :
    remap n drops start = (remapList n drops start, start + liveCount drops n) := by
  induction n with
  | zero => simp [remap, remapList, liveCount]
  | succ n ih =>
    have hstep : remap (n + 1) drops start =
        (if drops.contains n then ((remap n drops start).1 ++ [none], (remap n drops start).2)
         else ((remap n drops start).1 ++ [some (remap n drops start).2],
               (remap n drops start).2 + 1)) := by
      simp only [remap, List.range_succ, List.foldl_append, List.foldl_cons, List.foldl_nil]
    rw [hstep, ih, liveCount_succ]
    simp only [remapList, List.range_succ, List.map_append, List.map_cons, List.map_nil]
    cases drops.contains n <;> simp
    omega

theorem length_remapList (n : Nat) (drops : List Nat) (start : Nat) :
    (remapList n drops start).length = n := by
  simp [remapList]

theorem remapAll_cons (n : Nat) (drops : List Nat) (r : List (Nat × List Nat)) (start : Nat) :
    remapAll ((n, drops) :: r) start =
      remapList n drops start :: remapAll r (start + liveCount drops n) := by
  simp [remapAll, remap_eq]

theorem map_length_remapAll (l : List (Nat × List Nat)) (start : Nat) :
    (remapAll l start).map List.length = l.map (·.1) := by
  induction l generalizing start with
  | nil => rfl
  | cons p r ih =>
    obtain ⟨n, drops⟩ := p
    rw [remapAll_cons, List.map_cons, ih, length_remapList]; rfl

theorem getElem?_remapAll (l : List (Nat × List Nat)) (start i : Nat) :
    (remapAll l start)[i]? = (l[i]?).map (fun p =>
      remapList p.1 p.2 (start + ((l.take i).map (fun q => liveCount q.2 q.1)).sum)) := by
  induction l generalizing start i with
  | nil => simp [remapAll]
  | cons p r ih =>
    obtain ⟨n, drops⟩ := p
    rw [remapAll_cons]
    cases i with
    | zero => simp
    | succ i =>
      simp only [List.getElem?_cons_succ, ih, List.take_succ_cons, List.map_cons, List.sum_cons]
      congr 1
      funext p
      congr 1
      omega

theorem getElem?_remapList (n : Nat) (drops : List Nat) (start d : Nat) :
    (remapList n drops start)[d]? =
      if d < n then some (if drops.contains d then none else some (start + liveCount drops d))
      else none := by
  simp only [remapList, List.getElem?_map]
  split <;> simp_all

theorem filterMap_remapList (n : Nat) (drops : List Nat) (start : Nat) :
    (remapList n drops start).filterMap id = List.range' start (liveCount drops n) := by
  induction n with
  | zero => simp [remapList, liveCount]
  | succ n ih =>
    have : remapList (n + 1) drops start = remapList n drops start ++
        [if drops.contains n then none else some (start + liveCount drops n)] := by
      simp [remapList, List.range_succ]
    rw [this, List.filterMap_append, ih, liveCount_succ]
    cases drops.contains n
    · simp [List.range'_concat]
    · simp

theorem filterMap_remapAll (l : List (Nat × List Nat)) (start : Nat) :
    (remapAll l start).flatten.filterMap id =
      List.range' start ((l.map (fun q => liveCount q.2 q.1)).sum) := by
  induction l generalizing start with
  | nil => simp [remapAll]
  | cons p r ih =>
    obtain ⟨n, drops⟩ := p
    rw [remapAll_cons, List.flatten_cons, List.filterMap_append, filterMap_remapList, ih]
    simp only [List.map_cons, List.sum_cons]
    have := @List.range'_append start (liveCount drops n) ((r.map (fun q => liveCount q.2 q.1)).sum) 1
    simp

/-! ### `merge` -/

theorem merge_docs (m : Nat) (ins : List (AbsSeg × List Nat)) :
    (merge m ins).1.docs = ins.flatMap (fun p => survivors p.1 p.2) := rfl

theorem merge_fields (m : Nat) (ins : List (AbsSeg × List Nat)) :
    (merge m ins).1.fields = fieldList (ins.flatMap (fun p => p.1.fields)) := rfl

theorem merge_maps (m : Nat) (ins : List (AbsSeg × List Nat)) :
    (merge m ins).2 = remapAll (ins.map (fun p => (p.1.docs.length, p.2))) 0 := rfl

theorem numDocs_merge (m : Nat) (ins : List (AbsSeg × List Nat)) :
    numDocs (merge m ins).1 = (ins.map (fun p => liveCount p.2 p.1.docs.length)).sum := by
  simp only [numDocs, merge_docs, List.length_flatMap, length_survivors]

/-- two merges with the same documents and the same field list are observably equal -/
theorem merge_congr (m m' : Nat) (X Y : List (AbsSeg × List Nat))
    (hd : (merge m X).1.docs = (merge m' Y).1.docs)
    (hf : (merge m X).1.fields = (merge m' Y).1.fields) :
    (merge m X).1.docs = (merge m' Y).1.docs ∧ (merge m X).1.fields = (merge m' Y).1.fields ∧
    (merge m X).1.fieldDocs = (merge m' Y).1.fieldDocs ∧
    (merge m X).1.fieldFreqs = (merge m' Y).1.fieldFreqs := by
  refine ⟨hd, hf, ?_, ?_⟩
  · show ((merge m X).1.fields.map fun f => (merge m X).1.docs.countP (fun d => fieldHasTerm d f))
      = ((merge m' Y).1.fields.map fun f => (merge m' Y).1.docs.countP (fun d => fieldHasTerm d f))
    rw [hd, hf]
  · show ((merge m X).1.fields.map fun f => ((merge m X).1.docs.map (fun d => fieldTermFreq d f)).sum)
      = ((merge m' Y).1.fields.map fun f => ((merge m' Y).1.docs.map (fun d => fieldTermFreq d f)).sum)
    rw [hd, hf]

end Ice.Spec
