import IceModel.Lemmas.Varint
/-
  `binary.Uvarint` (the fixed-window reader, `Ice.Model.uvarint`) after `binary.PutUvarint`:
  the value comes back and the byte count is the length written, whatever follows and also when
  the buffer is only a (≤ 10 byte) window that still holds the whole varint.
-/
namespace Ice.Model

private theorem pow_split' (s : Nat) : 2 ^ (s + 7) = 2 ^ s * 128 := by
  rw [Nat.pow_add]

/-- reader after writer at any state reachable inside `Uvarint` (`s = 7 i`, `i ≤ 9`) -/
theorem uvarintAux_put (x : Nat) : ∀ (acc s i : Nat) (rest : Bytes),
    s = 7 * i → i ≤ 9 → x * 2 ^ s < two64 →
    uvarintAux (putUvarint x ++ rest) acc s i = some (acc + x * 2 ^ s, i + (putUvarint x).length) := by
  induction x using Nat.strongRecOn with
  | _ x ih =>
    intro acc s i rest hsi hi hx
    have hi10 : ¬ i = 10 := by omega
    unfold putUvarint
    split
    · rename_i hlt
      simp only [List.cons_append, List.nil_append, uvarintAux, hi10, hlt, if_true, if_false,
        List.length_cons, List.length_nil]
      have hg : ¬ (i = 9 ∧ x > 1) := by
        intro ⟨h1, h2⟩
        subst h1
        subst hsi
        have : x * 2 ^ (7 * 9) ≥ 2 * 2 ^ (7 * 9) := Nat.mul_le_mul_right _ h2
        unfold two64 at hx
        omega
      simp only [hg, if_false]
      rw [Nat.mod_eq_of_lt hx]
    · rename_i hge
      have hge : 128 ≤ x := by omega
      have hnot : ¬ (x % 128 + 128 < 128) := by omega
      simp only [List.cons_append, uvarintAux, hi10, hnot, if_false]
      have hmod : (x % 128 + 128) % 128 = x % 128 := by omega
      rw [hmod]
      have hpow : 2 ^ (s + 7) = 2 ^ s * 128 := pow_split' s
      have hlow : x % 128 * 2 ^ s ≤ x * 2 ^ s := Nat.mul_le_mul_right _ (Nat.mod_le _ _)
      have hlow' : x % 128 * 2 ^ s < two64 := Nat.lt_of_le_of_lt hlow hx
      have hs7 : s + 7 ≤ 63 := by
        have h1 : 128 * 2 ^ s ≤ x * 2 ^ s := Nat.mul_le_mul_right _ hge
        have h2 : 2 ^ (s + 7) < 2 ^ 64 := by
          rw [hpow, Nat.mul_comm]; unfold two64 at hx; omega
        have := (Nat.pow_lt_pow_iff_right (a := 2) (by omega)).mp h2
        omega
      have hdiv : x / 128 * 2 ^ (s + 7) ≤ x * 2 ^ s := by
        rw [hpow, ← Nat.mul_assoc, Nat.mul_comm (x / 128 * 2 ^ s), ← Nat.mul_assoc]
        exact Nat.mul_le_mul_right _ (by rw [Nat.mul_comm]; exact Nat.div_mul_le_self x 128)
      have hdiv' : x / 128 * 2 ^ (s + 7) < two64 := Nat.lt_of_le_of_lt hdiv hx
      rw [ih (x / 128) (by omega) _ (s + 7) (i + 1) rest (by omega) (by omega) hdiv']
      rw [Nat.mod_eq_of_lt hlow']
      have hsum : x % 128 * 2 ^ s + x / 128 * 2 ^ (s + 7) = x * 2 ^ s := by
        rw [hpow]
        have : x / 128 * (2 ^ s * 128) = 128 * (x / 128) * 2 ^ s := by
          rw [Nat.mul_comm (2 ^ s) 128, ← Nat.mul_assoc, Nat.mul_comm (x / 128) 128]
        rw [this, ← Nat.add_mul, Nat.add_comm, Nat.div_add_mod]
      simp only [List.length_cons]
      congr 1
      congr 1
      · omega
      · omega

/-- `binary.Uvarint` of what `PutUvarint` wrote, followed by anything -/
theorem uvarint_put (x : Nat) (rest : Bytes) (h : x < 2 ^ 64) :
    uvarint (putUvarint x ++ rest) = some (x, (putUvarint x).length) := by
  have := uvarintAux_put x 0 0 0 rest (by omega) (by omega) (by simpa [two64] using h)
  simpa [uvarint] using this

/-- … also through a window of `w` bytes that still contains the whole varint -/
theorem uvarint_put_window (x : Nat) (rest : Bytes) (w : Nat) (h : x < 2 ^ 64)
    (hw : (putUvarint x).length ≤ w) :
    uvarint ((putUvarint x ++ rest).take w) = some (x, (putUvarint x).length) := by
  rw [List.take_append, List.take_of_length_le hw]
  exact uvarint_put x _ h

end Ice.Model
