import IceModel.Lemmas.Format
import IceModel.Lemmas.Stored
import IceModel.Lemmas.UvarintWindow
/-
  Lemmas for the container model, loader side: strict reads at positions where the writer put
  something, the fields section, the doc-value index.
-/
namespace Ice.Model.Format
open Ice Ice.Model
open Ice.Model.Writer (be unbe Footer)
open Ice.Model.ChunkBytes (uvarintU64)
open Ice.Model.DocValues (add64 sub64 maxUint64 Data)

/-! ### strict reads where the writer put something -/

theorem drop_len {bs X rest : Bytes} {off : Nat} (h : bs.drop off = X ++ rest) (hoff : off ≤ bs.length) :
    off + X.length + rest.length = bs.length := by
  have := congrArg List.length h
  simp only [List.length_drop, List.length_append] at this
  omega

theorem add64_small' {a b : Nat} (h : a + b < 2 ^ 62) : add64 a b = a + b :=
  DocValues.add64_small (by omega)

/-- an exact read of bytes the writer put at `off` -/
theorem read_exact (d : Data) (off : Nat) (X rest : Bytes) (h : d.bytes.drop off = X ++ rest)
    (hoff : off ≤ d.bytes.length) (hlen : d.bytes.length < 2 ^ 62) :
    d.read off (add64 off X.length) = .ok X := by
  have hl := drop_len h hoff
  rw [add64_small' (by omega), DocValues.Data.read_ok d off (off + X.length) (by omega) (by omega)
    (by omega), h, show off + X.length - off = X.length by omega, List.take_left]

/-- a 10-byte window at a uvarint the writer put at `off`, with the window inside the data -/
theorem read_window (d : Data) (off x : Nat) (rest : Bytes)
    (h : d.bytes.drop off = putUvarint x ++ rest) (h10 : off + 10 ≤ d.bytes.length)
    (hx : x < 2 ^ 64) (hlen : d.bytes.length < 2 ^ 62) :
    ∃ w, d.read off (add64 off 10) = .ok w ∧ uvarintU64 w = (x, (putUvarint x).length) ∧
      uvarint w = some (x, (putUvarint x).length) := by
  refine ⟨(d.bytes.drop off).take 10, ?_, ?_, ?_⟩
  · rw [add64_small' (by omega), DocValues.Data.read_ok d off (off + 10) (by omega) h10 (by omega),
      show off + 10 - off = 10 by omega]
  · rw [h, ChunkBytes.take_ten_put x rest (by simpa [two64] using hx),
      ChunkBytes.uvarintU64_put x _ (by simpa [two64] using hx)]
  · rw [h]
    exact uvarint_put_window x rest 10 hx (putUvarint_length_le_ten x hx)

/-- a window that extends to the end of the data (`loadFields`) -/
theorem read_to_end (d : Data) (off x : Nat) (rest : Bytes)
    (h : d.bytes.drop off = putUvarint x ++ rest) (hoff : off ≤ d.bytes.length)
    (hx : x < 2 ^ 64) (hlen : d.bytes.length < 2 ^ 62) :
    ∃ w, d.read off (u64 d.bytes.length) = .ok w ∧ uvarintU64 w = (x, (putUvarint x).length) := by
  refine ⟨putUvarint x ++ rest, ?_, ChunkBytes.uvarintU64_put x _ (by simpa [two64] using hx)⟩
  rw [u64_small (by omega), DocValues.Data.read_ok d off d.bytes.length hoff (Nat.le_refl _) (by omega),
    ← h, ← List.length_drop, List.take_length]

/-- **In-bounds lemma (reader side).**  `Data.read` is strict for both backings: if a read of at
    least one byte between two offsets that are non-negative `int`s succeeds, it lies inside the
    data, and its result is the plain slice.  So every "`… = .ok …`" statement about the loader
    (all its reads go through `Data.read` on the data section, i.e. the file without the footer)
    says that the windows it opened lie within the data section; the memory-backed reader with
    spare capacity (plain `take`/`drop`) and the file-backed reader (error past the end) agree. -/
theorem read_inbounds (d : Data) (s e : Nat) (w : Bytes) (hs : s < 2 ^ 63) (he : e < 2 ^ 63)
    (hse : s < e) (h : d.read s e = .ok w) :
    e ≤ d.bytes.length ∧ w = (d.bytes.drop s).take (e - s) := by
  have h1 : DocValues.i64 s = (s : Int) := by unfold DocValues.i64 two64; split <;> omega
  have h2 : DocValues.i64 e = (e : Int) := by unfold DocValues.i64 two64; split <;> omega
  have hn : DocValues.wrap64 ((e : Int) - (s : Int)) = ((e - s : Nat) : Int) := by
    unfold DocValues.wrap64 DocValues.i64 two64; split <;> omega
  unfold DocValues.Data.read at h
  simp only [h1, h2, hn] at h
  cases hm : d.mem with
  | true =>
    rw [hm] at h
    simp only [if_true] at h
    split at h
    · rename_i hc
      simp only [Res.ok.injEq] at h
      refine ⟨by omega, ?_⟩
      rw [← h]
      congr 2
      omega
    · cases h
  | false =>
    rw [hm] at h
    simp only [Bool.false_eq_true, if_false] at h
    have n1 : ¬ (((e - s : Nat) : Int) < 0) := by omega
    have n2 : ¬ ((s : Int) < 0) := by omega
    have n3 : ¬ (((e - s : Nat) : Int) = 0) := by omega
    simp only [n1, n2, n3, if_false] at h
    split at h
    · cases h
    · rename_i hc
      simp only [Res.ok.injEq] at h
      exact ⟨by omega, h.symm⟩

/-! ### the fields section -/

theorem loadFieldRecord_ok (d : Data) (addr dl : Nat) (f : FieldDesc) (R : Bytes)
    (h : d.bytes.drop addr = fieldRecord dl f ++ R) (haddr : addr ≤ d.bytes.length)
    (hlen : d.bytes.length < 2 ^ 62) (hdl : dl < 2 ^ 64) (hname : f.name.length < 2 ^ 64)
    (hfd : f.fieldDocs < 2 ^ 64) (hff : f.fieldFreqs < 2 ^ 64) :
    loadFieldRecord d addr (u64 d.bytes.length) = .ok (dl, f.name, f.fieldDocs, f.fieldFreqs) := by
  unfold fieldRecord at h
  simp only [List.append_assoc] at h
  have hl := drop_len h haddr
  simp only [List.length_append] at hl
  -- dictLoc
  obtain ⟨w1, r1, u1⟩ := read_to_end d addr dl _ h haddr hdl hlen
  have h2 := ChunkBytes.drop_advance h
  -- nameLen
  obtain ⟨w2, r2, u2⟩ := read_to_end d (addr + (putUvarint dl).length) f.name.length _ h2
    (by omega) hname hlen
  have h3 := ChunkBytes.drop_advance h2
  -- name
  have r3 := read_exact d (addr + (putUvarint dl).length + (putUvarint f.name.length).length) f.name _
    h3 (by omega) hlen
  have h4 := ChunkBytes.drop_advance h3
  -- fieldDocs
  obtain ⟨w4, r4, u4⟩ := read_to_end d _ f.fieldDocs _ h4 (by omega) hfd hlen
  have h5 := ChunkBytes.drop_advance h4
  -- fieldFreqs
  obtain ⟨w5, r5, u5⟩ := read_to_end d _ f.fieldFreqs _ h5 (by omega) hff hlen
  have a1 : add64 addr (putUvarint dl).length = addr + (putUvarint dl).length :=
    add64_small' (by omega)
  have a2 : add64 (putUvarint dl).length (putUvarint f.name.length).length =
      (putUvarint dl).length + (putUvarint f.name.length).length := add64_small' (by omega)
  have a3 : add64 addr ((putUvarint dl).length + (putUvarint f.name.length).length) =
      addr + (putUvarint dl).length + (putUvarint f.name.length).length := by
    rw [add64_small' (by omega)]; omega
  have a4 : add64 ((putUvarint dl).length + (putUvarint f.name.length).length) f.name.length =
      (putUvarint dl).length + (putUvarint f.name.length).length + f.name.length :=
    add64_small' (by omega)
  have a5 : add64 addr ((putUvarint dl).length + (putUvarint f.name.length).length + f.name.length) =
      addr + (putUvarint dl).length + (putUvarint f.name.length).length + f.name.length := by
    rw [add64_small' (by omega)]; omega
  have a6 : add64 ((putUvarint dl).length + (putUvarint f.name.length).length + f.name.length)
      (putUvarint f.fieldDocs).length =
      (putUvarint dl).length + (putUvarint f.name.length).length + f.name.length +
        (putUvarint f.fieldDocs).length := add64_small' (by omega)
  have a7 : add64 addr ((putUvarint dl).length + (putUvarint f.name.length).length + f.name.length +
        (putUvarint f.fieldDocs).length) =
      addr + (putUvarint dl).length + (putUvarint f.name.length).length + f.name.length +
        (putUvarint f.fieldDocs).length := by
    rw [add64_small' (by omega)]; omega
  unfold loadFieldRecord
  simp only [r1, ChunkBytes.ok_bind, u1, a1, r2, u2, a2, a3, r3, a4, a5, r4, u4, a6, a7, r5, u5,
    ChunkBytes.pure_eq_ok]

/-- the table entry `k` of `l.flatMap (be 8)` placed at `base` -/
theorem table_drop (l : List Nat) (pre tail : Bytes) : ∀ (k x : Nat), l[k]? = some x →
    ∃ rest, (pre ++ l.flatMap (be 8) ++ tail).drop (pre.length + 8 * k) = be 8 x ++ rest := by
  induction l generalizing pre with
  | nil => intro k x h; simp at h
  | cons a l ih =>
    intro k x h
    cases k with
    | zero =>
      simp only [List.getElem?_cons_zero, Option.some.injEq] at h
      subst h
      exact ⟨l.flatMap (be 8) ++ tail, by simp [List.flatMap_cons]⟩
    | succ k =>
      simp only [List.getElem?_cons_succ] at h
      obtain ⟨rest, hr⟩ := ih (pre ++ be 8 a) k x h
      refine ⟨rest, ?_⟩
      have e : pre ++ (a :: l).flatMap (be 8) ++ tail = pre ++ be 8 a ++ l.flatMap (be 8) ++ tail := by
        simp [List.flatMap_cons]
      rw [e, ← hr]
      congr 1
      simp [Stored.be_length]; omega

/-- what `loadFields` collects from the fields `fs` -/
def accOf (fs : List (Nat × FieldDesc)) : FieldsAcc :=
  { fieldsInv := fs.map (·.2.name), dictLocs := fs.map (·.1),
    fieldDocs := fs.map (·.2.fieldDocs), fieldFreqs := fs.map (·.2.fieldFreqs) }

def FieldsAcc.append (a b : FieldsAcc) : FieldsAcc :=
  { fieldsInv := a.fieldsInv ++ b.fieldsInv, dictLocs := a.dictLocs ++ b.dictLocs,
    fieldDocs := a.fieldDocs ++ b.fieldDocs, fieldFreqs := a.fieldFreqs ++ b.fieldFreqs }

/-- the table walk: with `k` records done it collects the remaining ones and stops exactly at the
    end of the data section -/
theorem loadFieldsLoop_ok (d : Data) (A : Bytes) (fs : List (Nat × FieldDesc))
    (hd : d.bytes = A ++ (persistFieldsLoop A.length fs).1 ++
      (persistFieldsLoop A.length fs).2.flatMap (be 8))
    (hlen : d.bytes.length < 2 ^ 62)
    (hval : ∀ p ∈ fs, p.1 < 2 ^ 64 ∧ p.2.name.length < 2 ^ 64 ∧ p.2.fieldDocs < 2 ^ 64 ∧
      p.2.fieldFreqs < 2 ^ 64) :
    ∀ (n k : Nat) (acc : FieldsAcc) (fuel : Nat), k + n = fs.length → n < fuel →
      loadFieldsLoop d (A.length + (persistFieldsLoop A.length fs).1.length) fuel k acc =
        .ok (acc.append (accOf (fs.drop k))) := by
  have htl := persistFieldsLoop_length fs A.length
  have hbl : d.bytes.length = A.length + (persistFieldsLoop A.length fs).1.length + 8 * fs.length := by
    rw [hd, List.length_append, List.length_append, Stored.flatMap_be8_length, htl]
  intro n
  induction n with
  | zero =>
    intro k acc fuel hk hf
    cases fuel with
    | zero => omega
    | succ fuel =>
      have hdrop : fs.drop k = [] := List.drop_eq_nil_of_le (by omega)
      have hm : mul64 8 k = 8 * k := by unfold mul64 two64; omega
      have hp : add64 (A.length + (persistFieldsLoop A.length fs).1.length) (8 * k) =
          A.length + (persistFieldsLoop A.length fs).1.length + 8 * k := add64_small' (by omega)
      have hnot : ¬ (A.length + (persistFieldsLoop A.length fs).1.length + 8 * k < d.bytes.length) := by
        omega
      simp only [loadFieldsLoop, hm, hp, u64_small (show d.bytes.length < 2 ^ 64 by omega), hnot,
        if_false, hdrop, accOf, FieldsAcc.append, List.map_nil, List.append_nil]
  | succ n ih =>
    intro k acc fuel hk hf
    cases fuel with
    | zero => omega
    | succ fuel =>
      have hklt : k < fs.length := by omega
      have hget0 : fs[k]? = some fs[k] := List.getElem?_eq_getElem hklt
      generalize hp0 : fs[k] = p0 at hget0
      obtain ⟨dl, f⟩ := p0
      have hget : fs[k]? = some (dl, f) := hget0
      obtain ⟨pre, post, hrec, hoff⟩ := persistFieldsLoop_spec fs A.length k (dl, f) hget
      obtain ⟨hdl, hname, hfd, hff⟩ := hval (dl, f) (List.mem_of_getElem? hget)
      have hm : mul64 8 k = 8 * k := by unfold mul64 two64; omega
      have hp : add64 (A.length + (persistFieldsLoop A.length fs).1.length) (8 * k) =
          A.length + (persistFieldsLoop A.length fs).1.length + 8 * k := add64_small' (by omega)
      have hlt : A.length + (persistFieldsLoop A.length fs).1.length + 8 * k < d.bytes.length := by
        omega
      -- the table entry
      obtain ⟨rest, htab⟩ := table_drop (persistFieldsLoop A.length fs).2
        (A ++ (persistFieldsLoop A.length fs).1) [] k _ hoff
      rw [List.append_nil, ← hd, List.length_append] at htab
      have hrlen : (persistFieldsLoop A.length fs).1.length =
          pre.length + (fieldRecord dl f).length + post.length := by
        rw [hrec]; simp only [List.length_append]
      have hsm : A.length + pre.length < 2 ^ 64 := by omega
      have hread := read_exact d _ (be 8 (u64 (A.length + pre.length))) rest htab (by omega) hlen
      rw [Stored.be_length] at hread
      -- the record
      have hrecd : d.bytes.drop (A.length + pre.length) =
          fieldRecord dl f ++ (post ++ (persistFieldsLoop A.length fs).2.flatMap (be 8)) := by
        rw [hd, hrec]
        have : A ++ (pre ++ fieldRecord dl f ++ post) ++
            (persistFieldsLoop A.length fs).2.flatMap (be 8) =
            (A ++ pre) ++ (fieldRecord dl f ++ (post ++ (persistFieldsLoop A.length fs).2.flatMap (be 8))) := by
          simp only [List.append_assoc]
        rw [this, ← List.length_append, List.drop_left]
      have hrecord := loadFieldRecord_ok d (A.length + pre.length) dl f _ hrecd (by omega) hlen hdl
        hname hfd hff
      have hunbe : unbe (be 8 (u64 (A.length + pre.length))) = A.length + pre.length := by
        rw [Stored.unbe_be8 _ (u64_lt _), u64_small hsm]
      have ihk := ih (k + 1)
        { fieldsInv := acc.fieldsInv ++ [f.name], dictLocs := acc.dictLocs ++ [dl],
          fieldDocs := acc.fieldDocs ++ [f.fieldDocs], fieldFreqs := acc.fieldFreqs ++ [f.fieldFreqs] }
        fuel (by omega) (by omega)
      have hdropk : fs.drop k = (dl, f) :: fs.drop (k + 1) := by
        rw [List.drop_eq_getElem_cons hklt, hp0]
      simp only [loadFieldsLoop, hm, hp, u64_small (show d.bytes.length < 2 ^ 64 by omega), hlt,
        if_true, hread, ChunkBytes.ok_bind, hunbe]
      rw [u64_small (show d.bytes.length < 2 ^ 64 by omega)] at hrecord
      rw [hrecord]
      simp only [ChunkBytes.ok_bind]
      rw [ihk, hdropk]
      simp [accOf, FieldsAcc.append]

/-! ### the doc-value index -/

/-- the loop of `loadDvReaders` on the index the writer put at `dvo`, with at least ten bytes
    behind it: every window is inside the data, both varints of every field are found, and the
    readers are whatever `loadFieldDocValueReader` makes of the recorded offsets -/
theorem loadDvLoop_ok (d : Data) (dvo : Nat) (hlen : d.bytes.length < 2 ^ 62) :
    ∀ (outs : List FieldOut) (names : List Bytes) (read : Nat) (rest : Bytes),
      names.length = outs.length →
      d.bytes.drop (dvo + read) = dvIndexBytes outs ++ rest → 10 ≤ rest.length →
      dvo + read ≤ d.bytes.length →
      (∀ o ∈ outs, o.dvStart < 2 ^ 64 ∧ o.dvEnd < 2 ^ 64 ∧
        ∃ r, DocValues.loadFieldDocValueReader d o.dvStart o.dvEnd = .ok r) →
      ∃ rs, loadDvLoop d dvo names read = .ok rs ∧ rs.length = outs.length ∧
        ∀ (i : Nat) (o : FieldOut), outs[i]? = some o →
          ∃ r, rs[i]? = some r ∧ DocValues.loadFieldDocValueReader d o.dvStart o.dvEnd = .ok r := by
  intro outs
  induction outs with
  | nil =>
    intro names read rest hn _ _ _ _
    have : names = [] := List.eq_nil_of_length_eq_zero (by simpa using hn)
    subst this
    exact ⟨[], rfl, rfl, fun i o h => by simp at h⟩
  | cons o outs ih =>
    intro names read rest hn hdrop hrest hoff hrd
    cases names with
    | nil => simp at hn
    | cons nm names =>
      obtain ⟨hs, he, r, hr⟩ := hrd o (by simp)
      have hdrop' : d.bytes.drop (dvo + read) =
          putUvarint o.dvStart ++ (putUvarint o.dvEnd ++ (dvIndexBytes outs ++ rest)) := by
        rw [hdrop]; simp [dvIndexBytes, List.flatMap_cons]
      have hl := drop_len hdrop' hoff
      simp only [List.length_append] at hl
      obtain ⟨w1, r1, -, u1⟩ := read_window d (dvo + read) o.dvStart _ hdrop' (by omega) hs hlen
      have hdrop2 := ChunkBytes.drop_advance hdrop'
      obtain ⟨w2, r2, -, u2⟩ := read_window d _ o.dvEnd _ hdrop2 (by omega) he hlen
      have hdrop3 := ChunkBytes.drop_advance hdrop2
      have a1 : add64 dvo read = dvo + read := add64_small' (by omega)
      have a2 : add64 read (putUvarint o.dvStart).length = read + (putUvarint o.dvStart).length :=
        add64_small' (by omega)
      have a3 : add64 dvo (read + (putUvarint o.dvStart).length) =
          dvo + read + (putUvarint o.dvStart).length := by rw [add64_small' (by omega)]; omega
      have a4 : add64 (read + (putUvarint o.dvStart).length) (putUvarint o.dvEnd).length =
          read + (putUvarint o.dvStart).length + (putUvarint o.dvEnd).length := add64_small' (by omega)
      obtain ⟨rs, hrs, hrl, hri⟩ := ih names
        (read + (putUvarint o.dvStart).length + (putUvarint o.dvEnd).length) rest
        (by simpa using hn)
        (by rw [← hdrop3]; congr 1; omega) hrest (by omega)
        (fun o' ho' => hrd o' (by simp [ho']))
      refine ⟨r :: rs, ?_, by simp [hrl], ?_⟩
      · simp only [loadDvLoop, a1, r1, ChunkBytes.ok_bind, u1, a2, a3, r2, u2, a4, hr, hrs,
          ChunkBytes.pure_eq_ok]
      · intro i o' hi
        cases i with
        | zero =>
          simp only [List.getElem?_cons_zero, Option.some.injEq] at hi
          subst hi
          exact ⟨r, rfl, hr⟩
        | succ i =>
          simp only [List.getElem?_cons_succ] at hi
          obtain ⟨r', h1, h2⟩ := hri i o' hi
          exact ⟨r', by simpa using h1, h2⟩

/-! ### dictionaries and postings records -/

/-- `Segment.dictionary` on the dictionary the writer put at `dictStart`, followed by at least
    ten bytes -/
theorem dictionary_ok (K : Codecs) (ld : Loaded) (i dictStart : Nat) (es : List (Bytes × Nat))
    (rest : Bytes) (hdl : ld.dictLocs[i]? = some dictStart) (hpos : 0 < dictStart)
    (hdrop : ld.data.bytes.drop dictStart = dictBytes K es ++ rest) (hrest : 10 ≤ rest.length)
    (hoff : dictStart ≤ ld.data.bytes.length) (hlen : ld.data.bytes.length < 2 ^ 62)
    (hasc : ascKeys (es.map (·.1)) = true) (hv : ∀ e ∈ es, e.2 < 2 ^ 64) :
    dictionaryOf K ld i = .ok (some es) := by
  unfold dictBytes at hdrop
  simp only [List.append_assoc] at hdrop
  have hl := drop_len hdrop hoff
  simp only [List.length_append] at hl
  obtain ⟨w, r1, u1, -⟩ := read_window ld.data dictStart (K.fstEnc es).length _ hdrop (by omega)
    (by omega) hlen
  have h2 := ChunkBytes.drop_advance hdrop
  have r2 := read_exact ld.data _ (K.fstEnc es) rest h2 (by omega) hlen
  have a1 : add64 dictStart (putUvarint (K.fstEnc es).length).length =
      dictStart + (putUvarint (K.fstEnc es).length).length := add64_small' (by omega)
  unfold dictionaryOf
  simp only [hdl, hpos, if_true, r1, ChunkBytes.ok_bind, u1, a1, r2, K.fst_rt es hasc hv,
    ChunkBytes.pure_eq_ok]

/-- the storage part of `PostingsList.read` on a record the writer put at `off`, followed by at
    least ten bytes: all three look-ahead windows stay inside the data -/
theorem readRecord_ok (K : Codecs) (ld : Loaded) (off tfOff locRaw : Nat) (docs : List Nat)
    (rest : Bytes)
    (hdrop : ld.data.bytes.drop off =
      putUvarint tfOff ++ putUvarint locRaw ++ putUvarint (K.rEnc docs).length ++ K.rEnc docs ++ rest)
    (hrest : 10 ≤ rest.length) (hoff : off ≤ ld.data.bytes.length)
    (hlen : ld.data.bytes.length < 2 ^ 62) (htf : tfOff < 2 ^ 64) (hloc : locRaw < 2 ^ 64)
    (hasc : docs.Pairwise (· < ·)) (h32 : ∀ d ∈ docs, d < 2 ^ 32) :
    readRecord K ld off = .ok { freqOffset := tfOff, locOffset := locRaw, docs := docs } := by
  simp only [List.append_assoc] at hdrop
  have hl := drop_len hdrop hoff
  simp only [List.length_append] at hl
  obtain ⟨w1, r1, u1, -⟩ := read_window ld.data off tfOff _ hdrop (by omega) htf hlen
  have h2 := ChunkBytes.drop_advance hdrop
  obtain ⟨w2, r2, u2, -⟩ := read_window ld.data _ locRaw _ h2 (by omega) hloc hlen
  have h3 := ChunkBytes.drop_advance h2
  obtain ⟨w3, r3, u3, -⟩ := read_window ld.data _ (K.rEnc docs).length _ h3 (by omega) (by omega) hlen
  have h4 := ChunkBytes.drop_advance h3
  have r4 := read_exact ld.data _ (K.rEnc docs) rest h4 (by omega) hlen
  have a1 : add64 off (putUvarint tfOff).length = off + (putUvarint tfOff).length :=
    add64_small' (by omega)
  have a2 : add64 (putUvarint tfOff).length (putUvarint locRaw).length =
      (putUvarint tfOff).length + (putUvarint locRaw).length := add64_small' (by omega)
  have a3 : add64 off ((putUvarint tfOff).length + (putUvarint locRaw).length) =
      off + (putUvarint tfOff).length + (putUvarint locRaw).length := by
    rw [add64_small' (by omega)]; omega
  have a4 : add64 ((putUvarint tfOff).length + (putUvarint locRaw).length)
      (putUvarint (K.rEnc docs).length).length =
      (putUvarint tfOff).length + (putUvarint locRaw).length +
        (putUvarint (K.rEnc docs).length).length := add64_small' (by omega)
  have a5 : add64 off ((putUvarint tfOff).length + (putUvarint locRaw).length +
        (putUvarint (K.rEnc docs).length).length) =
      off + (putUvarint tfOff).length + (putUvarint locRaw).length +
        (putUvarint (K.rEnc docs).length).length := by
    rw [add64_small' (by omega)]; omega
  unfold readRecord
  simp only [r1, ChunkBytes.ok_bind, u1, a1, r2, u2, a2, a3, r3, u3, a4, a5, r4,
    K.r_rt docs hasc h32, ChunkBytes.pure_eq_ok]

end Ice.Model.Format
