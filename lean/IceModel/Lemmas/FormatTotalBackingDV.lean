import IceModel.Model.DocValues
import IceModel.Lemmas.DocValues
/-
  The two backings of `segment.Data` (doc-value side).

  `Data.read` on memory-backed data (capacity = length) succeeds only for `0 ≤ s ≤ e ≤ len` and
  then returns the plain slice; the file-backed read of the same bytes returns the same slice
  there.  So EVERY computation that reads through `Data.read` and succeeds on the memory backing
  succeeds with the same result on the file backing (`OkLe`).  The converse does not hold in
  general (a file-backed read of length 0 succeeds at any non-negative offset, the memory-backed
  one panics beyond the end), which is why agreement is stated in this direction and combined, in
  `Props/C04Total.lean`, with the success of the memory-backed reads of a written segment.
-/
namespace Ice.Model.DocValues
open Ice Ice.Model Ice.Model.Writer

/-- the same bytes, file-backed -/
def Data.toFile (d : Data) : Data := { bytes := d.bytes, mem := false }

/-- `y` succeeds with the same result whenever `x` succeeds -/
def OkLe {α : Type} (x y : Res α) : Prop := ∀ r, x = .ok r → y = .ok r

theorem OkLe.refl {α : Type} (x : Res α) : OkLe x x := fun _ h => h

theorem OkLe.bind {α β : Type} {x y : Res α} {f g : α → Res β} (h : OkLe x y)
    (hf : ∀ a, OkLe (f a) (g a)) : OkLe (x >>= f) (y >>= g) := by
  intro r hr
  cases x with
  | ok a => rw [h a rfl]; exact hf a r hr
  | err => cases hr
  | panic => cases hr

/-- **the two backings agree where the memory-backed read succeeds** -/
theorem read_toFile (d : Data) (s e : Nat) : OkLe (d.read s e) (d.toFile.read s e) := by
  intro w h
  cases hm : d.mem with
  | false =>
    have : d.toFile = d := by
      obtain ⟨b, m⟩ := d
      dsimp only at hm
      subst hm; rfl
    rw [this]; exact h
  | true =>
    unfold Data.read at h
    simp only [hm, if_true] at h
    split at h
    · rename_i hc
      obtain ⟨h0, h1, h2⟩ := hc
      simp only [Res.ok.injEq] at h
      have hei : i64 e < 2 ^ 63 := by unfold i64 two64; split <;> omega
      have hn : wrap64 (i64 e - i64 s) = i64 e - i64 s := by
        generalize i64 e = ei at *
        generalize i64 s = si at *
        unfold wrap64 i64 two64; split <;> omega
      unfold Data.read Data.toFile
      simp only [Bool.false_eq_true, if_false, hn]
      have n1 : ¬ (i64 e - i64 s < 0) := by omega
      have n2 : ¬ (i64 s < 0) := by omega
      simp only [n1, n2, if_false]
      by_cases h3 : i64 e - i64 s = 0
      · simp only [h3, if_true]
        rw [← h, h3]; simp
      · have n4 : ¬ (i64 s + (i64 e - i64 s) > (d.bytes.length : Int)) := by omega
        simp only [h3, n4, if_false]
        rw [h]
    · cases h

theorem readOffsets_toFile (d : Data) (pos : Nat) : ∀ (k off : Nat),
    OkLe (readOffsets d pos k off) (readOffsets d.toFile pos k off)
  | 0, _ => OkLe.refl _
  | k + 1, off => by
    simp only [readOffsets]
    apply OkLe.bind (read_toFile _ _ _)
    intro w
    cases uvarint w with
    | none => exact OkLe.refl _
    | some p =>
      obtain ⟨loc, rd⟩ := p
      exact OkLe.bind (readOffsets_toFile d pos k _) (fun _ => OkLe.refl _)

theorem loadFieldDocValueReader_toFile (d : Data) (s e : Nat) :
    OkLe (loadFieldDocValueReader d s e) (loadFieldDocValueReader d.toFile s e) := by
  unfold loadFieldDocValueReader
  by_cases h1 : s = maxUint64
  · simp only [h1, if_true]; exact OkLe.refl _
  · simp only [h1, if_false]
    by_cases h2 : sub64 e s > 16
    · simp only [h2, if_true]
      apply OkLe.bind (read_toFile _ _ _)
      intro w1
      apply OkLe.bind (read_toFile _ _ _)
      intro w2
      by_cases h3 : unbe w1 ≥ 2 ^ 63
      · simp only [h3, if_true]; exact OkLe.refl _
      · simp only [h3, if_false]
        exact OkLe.bind (readOffsets_toFile d _ _ _) (fun _ => OkLe.refl _)
    · simp only [h2, if_false]; exact OkLe.refl _

theorem readHeader_toFile (d : Data) (metaLoc : Nat) : ∀ (k off dd doff : Nat),
    OkLe (readHeader d metaLoc k off dd doff) (readHeader d.toFile metaLoc k off dd doff)
  | 0, _, _, _ => OkLe.refl _
  | k + 1, off, dd, doff => by
    simp only [readHeader]
    apply OkLe.bind (read_toFile _ _ _)
    intro a
    apply OkLe.bind (read_toFile _ _ _)
    intro b
    exact OkLe.bind (readHeader_toFile d metaLoc k _ _ _) (fun _ => OkLe.refl _)

theorem loadDvChunk_toFile (d : Data) (di : Reader) (c : Nat) :
    OkLe (di.loadDvChunk d c) (di.loadDvChunk d.toFile c) := by
  unfold Reader.loadDvChunk
  apply OkLe.bind (OkLe.refl _)
  intro se
  by_cases h1 : se.1 ≥ se.2
  · simp only [h1, if_true]; exact OkLe.refl _
  · simp only [h1, if_false]
    apply OkLe.bind (read_toFile _ _ _)
    intro nd
    cases uvarint nd with
    | none => exact OkLe.refl _
    | some p =>
      obtain ⟨numDocs, rd⟩ := p
      dsimp only
      by_cases h2 : numDocs ≥ 2 ^ 63
      · simp only [h2, if_true]; exact OkLe.refl _
      · simp only [h2, if_false]
        apply OkLe.bind (readHeader_toFile d _ _ _ _ _)
        intro h
        apply OkLe.bind (read_toFile _ _ _)
        intro _
        exact OkLe.refl _

theorem visit_toFile (z : Codec) (d : Data) (cs : Nat) (di : Reader) (doc : Nat) :
    OkLe (di.visit z d cs doc) (di.visit z d.toFile cs doc) := by
  unfold Reader.visit
  by_cases h0 : cs = 0
  · rw [if_pos h0, if_pos h0]; exact OkLe.refl _
  · rw [if_neg h0, if_neg h0]
    refine OkLe.bind ?_ (fun _ => OkLe.refl _)
    by_cases h1 : (doc / cs != di.curChunkNum) = true
    · rw [if_pos h1, if_pos h1]; exact loadDvChunk_toFile d di _
    · rw [if_neg h1, if_neg h1]; exact OkLe.refl _

/-- every sequence of visits that succeeds on memory-backed data gives the same terms and leaves
    the same reader on file-backed data -/
theorem visitAll_toFile (z : Codec) (d : Data) (cs : Nat) : ∀ (ds : List Nat) (di : Reader),
    OkLe (Reader.visitAll z d cs di ds) (Reader.visitAll z d.toFile cs di ds)
  | [], _ => OkLe.refl _
  | doc :: ds, di => by
    simp only [Reader.visitAll]
    apply OkLe.bind (visit_toFile z d cs di doc)
    intro r
    exact OkLe.bind (visitAll_toFile z d cs ds r.2) (fun _ => OkLe.refl _)

end Ice.Model.DocValues
