import IceModel.Model.Pool
/-
  Go-slice lemmas, the pool invariant `Clean`, and what reset() (new.go:179-224) establishes.
-/
namespace Ice.Model.Pool
open Ice Ice.Spec Ice.Model.Builder

/-! ### lists -/

theorem eq_replicate_of_all {α : Type} {a : α} : ∀ {l : List α}, (∀ x ∈ l, x = a) →
    l = List.replicate l.length a
  | [], _ => rfl
  | x :: r, h => by
    rw [List.length_cons, List.replicate_succ, h x (by simp),
      ← eq_replicate_of_all (fun y hy => h y (by simp [hy]))]

theorem drop_append_short {α : Type} (l1 l2 : List α) (n : Nat) (h : l1.length ≤ n) :
    (l1 ++ l2).drop n = l2.drop (n - l1.length) := by
  induction l1 generalizing n with
  | nil => simp
  | cons a r ih =>
    cases n with
    | zero => simp at h
    | succ k =>
      simp only [List.cons_append, List.drop_succ_cons, List.length_cons]
      rw [ih k (by simpa using h)]
      congr 1; omega

theorem mem_modify {α : Type} (f : α → α) : ∀ (l : List α) (i : Nat) (x : α),
    x ∈ l.modify i f → x ∈ l ∨ ∃ y ∈ l, x = f y
  | [], _, x, h => by simp at h
  | a :: r, 0, x, h => by
    simp only [List.modify_zero_cons, List.mem_cons] at h
    rcases h with h | h
    · exact Or.inr ⟨a, by simp, h⟩
    · exact Or.inl (by simp [h])
  | a :: r, i + 1, x, h => by
    simp only [List.modify_succ_cons, List.mem_cons] at h
    rcases h with h | h
    · exact Or.inl (by simp [h])
    · rcases mem_modify f r i x h with h' | ⟨y, hy, e⟩
      · exact Or.inl (by simp [h'])
      · exact Or.inr ⟨y, by simp [hy], e⟩

/-! ### Go slices -/

namespace GoSlice
variable {α : Type}

@[simp] theorem content_len0 (s : GoSlice α) (h : s.len = 0) : s.content = [] := by
  simp [content, h]

theorem mem_content {s : GoSlice α} {x : α} (h : x ∈ s.content) : x ∈ s.backing :=
  List.mem_of_mem_take h

/-- re-slicing upwards exposes the stale cells -/
theorem content_reslice (s : GoSlice α) (n : Nat) : (s.reslice n).content = s.backing.take n := rfl

theorem content_make (zero : α) (n : Nat) : (make zero n).content = List.replicate n zero := by
  simp [make, content]

/-- where the cells of the array after an `append` come from -/
theorem mem_append {zero : α} {s : GoSlice α} {y x : α} (h : x ∈ (s.append zero y).backing) :
    x ∈ s.backing ∨ x = y ∨ x = zero := by
  unfold append at h
  split at h
  · rcases List.mem_or_eq_of_mem_set h with h | h
    · exact Or.inl h
    · exact Or.inr (Or.inl h)
  · simp only [List.mem_append, List.mem_singleton, List.mem_replicate] at h
    rcases h with (h | h) | h
    · exact Or.inl (mem_content h)
    · exact Or.inr (Or.inl h)
    · exact Or.inr (Or.inr h.2)

theorem withContent_rest (s : GoSlice α) (l : List α) :
    (s.withContent l).backing.drop (s.withContent l).len = s.backing.drop l.length := by
  simp [withContent]

/-- after `for i := range s { s[i] = f(s[i]) }; s = s[:0]` every cell satisfies `P` if `f` establishes
    `P` and the cells beyond `len` satisfied it already: the loop stops at `len` -/
theorem all_mapElems_trunc (P : α → Prop) (f : α → α) (s : GoSlice α) (hf : ∀ x, P (f x))
    (hrest : ∀ x ∈ s.backing.drop s.len, P x) :
    ∀ x ∈ ((s.mapElems f).truncate0).backing, P x := by
  intro x hx
  simp only [truncate0, mapElems, List.mem_append, List.mem_map] at hx
  rcases hx with ⟨y, _, rfl⟩ | hx
  · exact hf y
  · exact hrest x hx

end GoSlice

/-! ### the pool invariant -/

/-- what the next build may rely on.  The cells of `freqNormsBacking`, `locsBacking`, the slice
    headers in `FreqNorms`/`Locs`, the maps in `Dicts`, the strings in the key slices and the counters
    are NOT constrained: they are written before they are read. -/
structure Clean (o : PoolObj) : Prop where
  fieldsInv : o.fieldsInv.len = 0
  dicts : o.dicts.len = 0
  dictKeys : o.dictKeys.len = 0
  dictKeysIn : ∀ g ∈ o.dictKeys.backing, g.len = 0
  includeDV : o.includeDV.len = 0
  includeDVIn : ∀ x ∈ o.includeDV.backing, x = false
  postings : o.postings.len = 0
  postingsIn : ∀ x ∈ o.postings.backing, x = []
  freqNorms : o.freqNorms.len = 0
  fnBacking : o.fnBacking.len = 0
  locs : o.locs.len = 0
  locBacking : o.locBacking.len = 0
  numTerms : o.numTerms.len = 0
  numLocs : o.numLocs.len = 0
  bufs : o.builderBuf.len = 0 ∧ o.metaBuf.len = 0 ∧ o.tmp0.len = 0 ∧ o.tmp1.len = 0

instance (o : PoolObj) : Decidable (Clean o) :=
  decidable_of_iff
    (o.fieldsInv.len = 0 ∧ o.dicts.len = 0 ∧ o.dictKeys.len = 0 ∧
     (∀ g ∈ o.dictKeys.backing, g.len = 0) ∧ o.includeDV.len = 0 ∧
     (∀ x ∈ o.includeDV.backing, x = false) ∧ o.postings.len = 0 ∧
     (∀ x ∈ o.postings.backing, x = []) ∧ o.freqNorms.len = 0 ∧ o.fnBacking.len = 0 ∧
     o.locs.len = 0 ∧ o.locBacking.len = 0 ∧ o.numTerms.len = 0 ∧ o.numLocs.len = 0 ∧
     (o.builderBuf.len = 0 ∧ o.metaBuf.len = 0 ∧ o.tmp0.len = 0 ∧ o.tmp1.len = 0))
    ⟨fun ⟨a, b, c, d, e, f, g, h, i, j, k, l, m, n, p⟩ => ⟨a, b, c, d, e, f, g, h, i, j, k, l, m, n, p⟩,
     fun ⟨a, b, c, d, e, f, g, h, i, j, k, l, m, n, p⟩ => ⟨a, b, c, d, e, f, g, h, i, j, k, l, m, n, p⟩⟩

theorem clean_fresh : Clean PoolObj.fresh := by decide

/-- a clean object looks like `&interim{}` to the builder -/
theorem ofObj_clean {o : PoolObj} (h : Clean o) : St.ofObj o = {} := by
  simp [St.ofObj, h.fieldsInv, h.dicts, h.dictKeys, h.numTerms, h.numLocs]

/-! ### reset -/

/-- new.go:179-224, statement by statement -/
theorem reset_eq (o : PoolObj) : reset o =
    { fieldsInv := GoSlice.nil,
      dicts := (o.dicts.mapElems (fun _ => [])).truncate0,
      dictKeys := (o.dictKeys.mapElems GoSlice.truncate0).truncate0,
      includeDV := (o.includeDV.mapElems (fun _ => false)).truncate0,
      postings := (o.postings.mapElems (fun _ => [])).truncate0,
      freqNorms := o.freqNorms.truncate0,
      fnBacking := (o.fnBacking.mapElems (fun _ => default)).truncate0,
      locs := o.locs.truncate0,
      locBacking := (o.locBacking.mapElems (fun _ => default)).truncate0,
      numTerms := o.numTerms.truncate0,
      numLocs := o.numLocs.truncate0,
      builder := o.builder,
      builderBuf := o.builderBuf.trunc,
      metaBuf := o.metaBuf.trunc,
      tmp0 := o.tmp0.trunc,
      tmp1 := o.tmp1.trunc,
      lastNumDocs := 0,
      lastOutSize := 0 } := rfl

/-- the model's reset() is the plan generated from /repo (`Ice.Gen.PoolReset.resetPlan`, pinned in
    `Ice.Bridge.resetPlan`), and every statement of the plan has a meaning in the model -/
theorem reset_implements_plan :
    Plan.names resetActs = Ice.Bridge.resetPlan ∧ Plan.names resetActs = Ice.Gen.PoolReset.resetPlan ∧
    ∀ o, interp resetActs o = some (reset o) :=
  ⟨by decide, by decide, fun _ => rfl⟩

/-- `FieldsInv = nil` (new.go:184), not `[:0]`: the next build cannot write into the array the
    segment returned by this build still refers to (initSegmentBase keeps `s.FieldsInv`, new.go:73) -/
theorem reset_fieldsInv_nil (o : PoolObj) : (reset o).fieldsInv.cap = 0 := rfl

/-- reset() makes an object clean provided the cells BEYOND the lengths were clean: its loops stop at
    `len` -/
theorem clean_reset {o : PoolObj}
    (hK : ∀ g ∈ o.dictKeys.backing.drop o.dictKeys.len, g.len = 0)
    (hDV : ∀ x ∈ o.includeDV.backing.drop o.includeDV.len, x = false)
    (hP : ∀ x ∈ o.postings.backing.drop o.postings.len, x = []) : Clean (reset o) := by
  rw [reset_eq]
  refine ⟨rfl, rfl, rfl, ?_, rfl, ?_, rfl, ?_, rfl, rfl, rfl, rfl, rfl, rfl, ⟨rfl, rfl, rfl, rfl⟩⟩
  · exact GoSlice.all_mapElems_trunc (fun (g : GoSlice Bytes) => g.len = 0) _ _ (fun _ => rfl) hK
  · exact GoSlice.all_mapElems_trunc (fun x => x = false) _ _ (fun _ => rfl) hDV
  · exact GoSlice.all_mapElems_trunc (fun x => x = []) _ _ (fun _ => rfl) hP

/-- remembering the sizes (new.go:78-79) does not matter -/
theorem clean_recycle {o : PoolObj} (nc : Bytes → Nat → Nat) (b : Batch) (h : Clean (reset o)) :
    Clean (recycle nc b o) :=
  ⟨h.fieldsInv, h.dicts, h.dictKeys, h.dictKeysIn, h.includeDV, h.includeDVIn, h.postings,
   h.postingsIn, h.freqNorms, h.fnBacking, h.locs, h.locBacking, h.numTerms, h.numLocs, h.bufs⟩

end Ice.Model.Pool
