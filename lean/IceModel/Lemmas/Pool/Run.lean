import IceModel.Lemmas.Pool.Pass2
/-
  The dictionary writer and the rest of `convert` over REUSED backing arrays: `termView_ok`,
  `writeDicts_ok` and the tail of `run_eq` (Lemmas/Builder/View.lean, Run.lean) with `SimC` for `Sim`.
  Result (`finish_okC`): from ANY state after pass 1 whose windows are carved into arrays of capacity
  `Cf`, `Cl` with arbitrary stale cells, the rest of the build returns `builtOf nc b` - the value a
  fresh builder returns (`Builder.run_eq`).
-/
namespace Ice.Model.Pool
open Ice Ice.Spec Ice.Model.Builder

section view
variable {Cf Cl : Nat} {F : List Bytes} {b : Batch} {s1 s : St} (nc : Bytes → Nat → Nat) (π : Order)
  (hF : FieldsOK F s1)
  (hD : DictInv F.length (evsI F b.flatten) s1.dicts s1.dictKeys s1.numTerms s1.numLocs s1.numTerms.length)
  (hπ : PermOK π)
  (hval : ∀ d ∈ b, ∀ f ∈ d, ∀ o ∈ f.terms, ∀ l ∈ o.locs, l.field = [] ∨ l.field ∈ F)
  (hS : SimC Cf Cl s1 s (applyAll (Abs.empty s1.numTerms.length) (allEmits false nc π F s1.dicts b)))

include hF hD hπ hval hS in
theorem termView_okC {i : Nat} {t : Bytes} {v : Nat} (hv : dget s1.dicts i t = some v) :
    TermView s (s1.dicts.getD i []) b.length t
      (esel (allEmits false nc π F s1.dicts b) (v - 1)) := by
  have htf := tfsOK_of_valid hD hval
  have hsel := esel_allEmits nc π hD hπ hv htf
  obtain ⟨hv1, hv2⟩ := hD.rng i t v hv
  have hp : v - 1 < s1.numTerms.length := by omega
  have hpL : v - 1 < s1.numLocs.length := by rw [hD.lenL]; exact hp
  have hdocs := flatMap_toList_docs
    (fun x : Doc × Nat => (aget (lget (rollTFs false F x.1) i) t).map
      (fun tf => mkEmit nc F s1.dicts x.2 i (rollLens F x.1) (t, tf)))
    (by
      intro x e he
      simp only [Option.map_eq_some_iff] at he
      obtain ⟨tf, _, rfl⟩ := he
      rfl) b 0
  have hfit := fits_all nc π hD hπ hval
  have hsp := applyAll_spec (allEmits false nc π F s1.dicts b) (Abs.empty s1.numTerms.length)
    (by intro e he; simpa [Abs.empty] using hfit.pid e he) (by simp [Abs.empty]) (by simp [Abs.empty])
    (v - 1)
  obtain ⟨haf, hal, hpost⟩ := hsp
  rw [show (Abs.empty s1.numTerms.length).af = List.replicate _ [] from rfl, lget_replicate_nil,
    List.nil_append] at haf
  rw [show (Abs.empty s1.numTerms.length).al = List.replicate _ [] from rfl, lget_replicate_nil,
    List.nil_append] at hal
  rw [show (Abs.empty s1.numTerms.length).post = List.replicate _ [] from rfl, lget_replicate_nil]
    at hpost
  refine ⟨?_, ?_, ?_, ?_, ?_⟩
  · rw [hsel]
    obtain ⟨d, hd, hsome⟩ := exists_doc_of_dget hD hv
    obtain ⟨k, hk⟩ := List.getElem?_of_mem hd
    obtain ⟨tf, htf'⟩ := Option.isSome_iff_exists.1 hsome
    intro hnil
    have hmem : (d, k) ∈ b.zipIdx := List.mem_zipIdx_iff_getElem?.2 hk
    have := List.flatMap_eq_nil_iff.1 hnil (d, k) hmem
    simp [htf'] at this
  · rw [hsel]; exact hdocs.1
  · intro e he
    have := hdocs.2 e.doc (by rw [← hsel]; exact List.mem_map_of_mem he)
    omega
  · intro e he
    rw [hsel] at he
    simp only [List.mem_flatMap, Option.mem_toList, Option.map_eq_some_iff] at he
    obtain ⟨x, _, tf, _, rfl⟩ := he
    simp [mkEmit]
  · have hpP : v - 1 < s.postings.length := by
      rw [hS.post, (applyAll_lengths _ _).1]; simp [Abs.empty, hp]
    have hwf := hS.fn.win (v - 1) hp
    have hwl := hS.loc.win (v - 1) hpL
    refine ⟨v, v - 1, _, _, _, hv, by simp [pidOf]; omega, List.getElem?_eq_getElem hpP, ?_, hwf, hwl,
      by rw [hS.core.nT]; exact hp, ?_, ?_⟩
    · have : s.postings[v - 1] = lget s.postings (v - 1) := by
        simp [lget, List.getD_eq_getElem?_getD, List.getElem?_eq_getElem hpP]
      rw [this, hS.post, hpost]
      have := foldl_addDoc ((esel (allEmits false nc π F s1.dicts b) (v - 1)).map (·.doc)) []
        (by rw [List.nil_append, hsel]; exact hdocs.1)
      rw [List.foldl_map] at this
      simpa using this
    · intro k
      rw [hS.fn.get? hp hwf k, haf]
    · intro lo m hm
      rw [hS.loc.sub? hpL hwl lo m (by rw [hal]; exact hm), hal]

end view

section dicts
variable {Cf Cl : Nat} {F : List Bytes} {b : Batch} {s1 s : St} (nc : Bytes → Nat → Nat) (π : Order)
  (hF : FieldsOK F s1)
  (hD : DictInv F.length (evsI F b.flatten) s1.dicts s1.dictKeys s1.numTerms s1.numLocs s1.numTerms.length)
  (hπ : PermOK π)
  (hval : ∀ d ∈ b, ∀ f ∈ d, ∀ o ∈ f.terms, ∀ l ∈ o.locs, l.field = [] ∨ l.field ∈ F)
  (hS : SimC Cf Cl s1 s (applyAll (Abs.empty s1.numTerms.length) (allEmits false nc π F s1.dicts b)))

include hF hD hπ hval hS in
theorem writeDicts_okC (hK : ∀ i, i < F.length → kget s1.dictKeys i = keysOf F b i)
    (hdv : s.includeDV = dvFold F b.flatten (List.replicate F.length false)) :
    writeDicts s b.length = .ok ((List.range F.length).map (fieldOutOf nc π F s1.dicts b)) := by
  have hlenK : s.dictKeys.length = F.length := by rw [hS.core.dkeys, hD.lenK]
  obtain ⟨acc, e, hacc⟩ := foldlE_inv (writeDictsStep s b.length)
    (fun pre acc => acc = pre.map (fun x => fieldOutOf nc π F s1.dicts b x.2))
    s.dictKeys.zipIdx [] rfl
    (by
      intro pre x post acc hdd hacc
      subst hacc
      have hx : x ∈ s.dictKeys.zipIdx := by rw [hdd]; simp
      have hx2 := List.mem_zipIdx_iff_getElem?.1 hx
      have hi : x.2 < F.length := by
        rw [← hlenK]
        by_cases h : x.2 < s.dictKeys.length
        · exact h
        · rw [List.getElem?_eq_none (by omega)] at hx2; simp at hx2
      have hterms : x.1 = keysOf F b x.2 := by
        rw [← hK x.2 hi, ← hS.core.dkeys]
        simp [kget, List.getD_eq_getElem?_getD, hx2]
      have hiD : x.2 < s.dicts.length := by rw [hS.core.dicts, hD.lenD]; exact hi
      have hdict : s.dicts[x.2]? = some (s1.dicts.getD x.2 []) := by
        rw [hS.core.dicts] at hiD ⊢
        simp [List.getD_eq_getElem?_getD, List.getElem?_eq_getElem hiD]
      have hdvi : s.includeDV[x.2]? = some (dvFlag F b x.2) := by
        have hl : x.2 < (dvFold F b.flatten (List.replicate F.length false)).length := by
          rw [length_dvFold]; simpa using hi
        have := dvFold_get F b.flatten (List.replicate F.length false) x.2 (by simpa using hi)
        rw [hdv, List.getElem?_eq_getElem hl]
        simp only [List.getD_eq_getElem?_getD, List.getElem?_eq_getElem hl, Option.getD_some] at this
        rw [this]
        simp [dvFlag, List.getElem?_replicate, hi]
      have := writeDictsField_ok (s := s) (numDocs := b.length) (i := x.2) (terms := x.1) hdict
        (hterms ▸ asc_sortDedup _) (ESof nc π F s1.dicts b x.2)
        (by
          intro t ht
          rw [hterms] at ht
          obtain ⟨v, hv⟩ := Option.isSome_iff_exists.1 ((mem_keysOf hD hi t).1 ht)
          have := termView_okC nc π hF hD hπ hval hS hv
          simpa [ESof, hv] using this)
        hdvi
      have h' : writeDictsField s b.length x.2 x.1 = .ok (fieldOutOf nc π F s1.dicts b x.2) := by
        rw [this]; simp [fieldOutOf, hterms]
      refine ⟨pre.map (fun x => fieldOutOf nc π F s1.dicts b x.2) ++ [fieldOutOf nc π F s1.dicts b x.2],
        ?_, by simp⟩
      simp only [writeDictsStep, h'])
  unfold writeDicts
  rw [e, hacc, zipIdx_map_range, hlenK]

end dicts

/-! ### the state after pass 1 on a pooled object, and the rest of convert -/

/-- `Builder.S1` for windows carved into reused arrays of capacity `Cf`, `Cl` -/
structure S1C (Cf Cl : Nat) (F : List Bytes) (b : Batch) (s0 s : St) : Prop where
  fmap : s.fieldsMap = s0.fieldsMap
  finv : s.fieldsInv = s0.fieldsInv
  dv : s.includeDV = s0.includeDV
  dict : DictInv F.length (evsI F b.flatten) s.dicts s.dictKeys s.numTerms s.numLocs s.numTerms.length
  ff : ∀ i, (aget s.fieldFreqs i).getD 0 = freqSum F b.flatten i
  fd : ∀ i, (aget s.fieldDocs i).getD 0 = docCnt F b i
  post : s.postings = List.replicate s.numTerms.length []
  fn : RefinesC Cf s.numTerms s.fnWins s.fnBacking (List.replicate s.numTerms.length [])
  loc : RefinesC Cl s.numLocs s.locWins s.locBacking (List.replicate s.numTerms.length [])

/-- new.go:281-315 from a pass-1 state over reused arrays: the result of a fresh builder -/
theorem finish_okC {Cf Cl : Nat} (nc : Bytes → Nat → Nat) (π : Order) (b : Batch) (hv : ValidBatch b)
    (hπ : PermOK π) {m : AMap Bytes Nat} (hF0 : FieldsOK (FL b) (st0 b m)) {s1 : St}
    (hS1 : S1C Cf Cl (FL b) b (st0 b m) s1) :
    ∃ sF, finish nc π b s1 = .ok (builtOf nc b, sF) := by
  have hF1 : FieldsOK (FL b) (sortKeys s1) := hF0.of_eq hS1.fmap hS1.finv
  have hD1 : DictInv (FL b).length (evsI (FL b) b.flatten) (sortKeys s1).dicts (sortKeys s1).dictKeys
      (sortKeys s1).numTerms (sortKeys s1).numLocs (sortKeys s1).numTerms.length := hS1.dict.sortKeys
  have hSim0 : SimC Cf Cl (sortKeys s1) (sortKeys s1) (Abs.empty (sortKeys s1).numTerms.length) :=
    ⟨Core.refl _, hS1.post, by simp [Abs.empty], hS1.fn, hS1.loc⟩
  have hval : ∀ d ∈ b, ∀ f ∈ d, ∀ o ∈ f.terms, ∀ l ∈ o.locs, l.field = [] ∨ l.field ∈ FL b := by
    intro d hd f hf o ho l hl
    rcases hv.1 d hd f hf o ho l hl with h | h
    · exact Or.inl h
    · exact Or.inr ((mem_FL b _).2 (Or.inr h))
  have hbF : ∀ d ∈ b, ∀ f ∈ d, f.name ∈ FL b := by
    intro d hd f hf
    rw [mem_FL]; right
    simp only [names, List.mem_flatMap, List.mem_map]
    exact ⟨d, hd, f, hf, rfl⟩
  obtain ⟨s2, e2, hS2⟩ := processDocuments_okC nc π hF1 hD1 hπ false b hSim0 hbF
    (tfsOK_of_valid hD1 hval) (fits_all nc π hD1 hπ hval)
  have hF2 : FieldsOK (FL b) s2 := hF1.of_eq hS2.core.fmap hS2.core.finv
  have hdv2 : s2.includeDV = List.replicate (FL b).length false := by
    rw [hS2.core.dv]; show s1.includeDV = _; rw [hS1.dv]; rfl
  have e3 := writeStoredFields_ok hF2 (by rw [hdv2]; simp) b hbF
  have hS3 : SimC Cf Cl { sortKeys s1 with includeDV := dvFold (FL b) b.flatten s2.includeDV }
      { s2 with includeDV := dvFold (FL b) b.flatten s2.includeDV }
      (applyAll (Abs.empty (sortKeys s1).numTerms.length)
        (allEmits false nc π (FL b) (sortKeys s1).dicts b)) :=
    ⟨⟨hS2.core.fmap, hS2.core.finv, hS2.core.fdocs, hS2.core.ffreqs, hS2.core.dicts, hS2.core.dkeys,
      rfl, hS2.core.nT, hS2.core.nL⟩, hS2.post, hS2.lenP, hS2.fn, hS2.loc⟩
  have hK : ∀ i, i < (FL b).length → kget (sortKeys s1).dictKeys i = keysOf (FL b) b i := by
    intro i hi
    show kget (s1.dictKeys.map sortS) i = _
    rw [kget_map_sortS]; exact keys_eq hS1.dict hi
  have e5 : mapE (resolveField (FL b)) ((List.range (FL b).length).map
      (fieldOutOf nc π (FL b) (sortKeys s1).dicts b)) =
      .ok ((List.range (FL b).length).map (viewOf nc (FL b) b)) := by
    apply mapE_map_ok
    intro i hi
    exact resolveField_ok nc π hD1 hπ hval (List.mem_range.1 hi)
  have e4 : (if b.length > 0 then
        writeDicts { s2 with includeDV := dvFold (FL b) b.flatten s2.includeDV } b.length
      else .ok (List.replicate (FL b).length {})) =
      .ok ((List.range (FL b).length).map (fieldOutOf nc π (FL b) (sortKeys s1).dicts b)) := by
    by_cases hb0 : b.length > 0
    · rw [if_pos hb0]
      exact writeDicts_okC (s1 := { sortKeys s1 with includeDV := dvFold (FL b) b.flatten s2.includeDV })
        nc π (hF1.of_eq rfl rfl) hD1 hπ hval hS3 hK (by rw [hdv2])
    · have : b = [] := List.eq_nil_of_length_eq_zero (by omega)
      subst this
      rw [if_neg hb0]
      have hg : fieldOutOf nc π (FL []) (sortKeys s1).dicts [] = fun _ => {} := by
        funext i; simp [fieldOutOf, keysOf, evsI, dvFlag, dvOut, sortDedup]
      rw [hg]
      congr 1
  have hfinv : s2.fieldsInv = FL b := hF2.inv
  refine ⟨{ s2 with includeDV := dvFold (FL b) b.flatten s2.includeDV }, ?_⟩
  unfold finish
  simp only [hfinv] at e4
  simp only [e2, e3, hfinv, e4, e5]
  simp only [builtOf, Except.ok.injEq, Prod.mk.injEq, Built.mk.injEq, true_and, and_true]
  refine ⟨?_, ?_, ?_⟩
  · apply List.map_congr_left
    intro i hi
    rw [u16_lt i (by have := List.mem_range.1 hi; have := FL_length_le hv.2; omega), hS2.core.fdocs]
    exact hS1.fd i
  · apply List.map_congr_left
    intro i hi
    rw [u16_lt i (by have := List.mem_range.1 hi; have := FL_length_le hv.2; omega), hS2.core.ffreqs]
    exact hS1.ff i
  · simp

end Ice.Model.Pool
