import IceModel.Lemmas.Pool.Reuse
/-
  The pool model extends the builder model: started on `&interim{}` (what `sync.Pool.New` returns),
  `buildFrom` IS `Builder.run` - for every batch, inside the input contract or not, errors included.
  (`initFieldsFrom`, `prepareDictsFrom`, `finish` are the `…From` variants of the functions of
  Model/Builder.lean that hard-wire the fresh state.)
-/
namespace Ice.Model.Pool
open Ice Ice.Spec Ice.Model.Builder

theorem run_eq_finish (nc : Bytes → Nat → Nat) (π : Order) (b : Batch) :
    run nc π b =
      match initFields b with
      | .error e => .error e
      | .ok s =>
        match prepareDicts s b with
        | .error e => .error e
        | .ok s => (finish nc π b s).map (·.1) := by
  unfold run runV finish
  cases initFields b with
  | error e => rfl
  | ok s =>
    simp only
    cases prepareDicts s b with
    | error e => rfl
    | ok s =>
      simp only
      cases processDocuments false nc π (sortKeys s) b with
      | error e => rfl
      | ok s =>
        simp only
        cases writeStoredFields s b with
        | error e => rfl
        | ok x =>
          obtain ⟨s, stored⟩ := x
          simp only
          cases (if b.length > 0 then writeDicts s b.length
                 else .ok (List.replicate s.fieldsInv.length {})) with
          | error e => rfl
          | ok outs =>
            simp only
            cases mapE (resolveField s.fieldsInv) outs with
            | error e => rfl
            | ok views => rfl

namespace GoSlice
variable {α : Type}

theorem nil_reuseOrMake_backing (z : α) (n : Nat) :
    ((GoSlice.nil : GoSlice α).reuseOrMake z n).backing = List.replicate n z := by
  unfold reuseOrMake
  split
  · next h =>
    have : n = 0 := by simp only [cap, nil, List.length_nil] at h; omega
    subst this; rfl
  · rfl

theorem nil_reuseOrMake_content (z : α) (n : Nat) :
    ((GoSlice.nil : GoSlice α).reuseOrMake z n).content = List.replicate n z :=
  content_reuseOrMake z _ n (fun _ h => by cases h)

theorem nil_reuseOrMake_cap (z : α) (n : Nat) : ((GoSlice.nil : GoSlice α).reuseOrMake z n).cap = n := by
  simp [cap, nil_reuseOrMake_backing]

end GoSlice

/-- convert's set-up on a clean object, errors included -/
theorem initFieldsFrom_map {o : PoolObj} (ho : Clean o) (b : Batch) :
    (initFieldsFrom o b).map (·.1) = initFields b := by
  cases e : initFields b with
  | ok s =>
    obtain ⟨dv, e', _⟩ := initFieldsFrom_clean ho b e
    rw [e']; rfl
  | error er =>
    unfold initFields at e
    unfold initFieldsFrom
    rw [ofObj_clean ho]
    simp only at e ⊢
    generalize List.foldl (fun s d => List.foldl (fun s f => (getOrDefineField s f.name).1) s d)
      (getOrDefineField {} idField).1 b = S at e ⊢
    cases hS : S.fieldsInv with
    | nil => rw [hS] at e; simp only at e ⊢; rw [← e]; rfl
    | cons h r => rw [hS] at e; cases e

/-- prepareDicts on `&interim{}` is `Builder.prepareDicts`, from every state and for every batch -/
theorem prepareDictsFrom_fresh (s : St) (b : Batch) :
    (prepareDictsFrom PoolObj.fresh s b).map (·.1) = prepareDicts s b := by
  unfold prepareDictsFrom prepareDicts
  cases foldlE prepDoc (s, {}) b with
  | error e => rfl
  | ok x =>
    obtain ⟨s, t⟩ := x
    simp only
    have h1 : (PoolObj.fresh.freqNorms.reuseOrMake (.own []) t.pidNext).content =
        List.replicate t.pidNext (.own []) := GoSlice.nil_reuseOrMake_content _ _
    have h2 : (PoolObj.fresh.fnBacking.reuseOrMake default t.totTFs).cap = t.totTFs :=
      GoSlice.nil_reuseOrMake_cap _ _
    have h3 : (PoolObj.fresh.fnBacking.reuseOrMake default t.totTFs).backing =
        List.replicate t.totTFs default := GoSlice.nil_reuseOrMake_backing _ _
    have h4 : (PoolObj.fresh.locs.reuseOrMake (.own []) t.pidNext).content =
        List.replicate t.pidNext (.own []) := GoSlice.nil_reuseOrMake_content _ _
    have h5 : (PoolObj.fresh.locBacking.reuseOrMake default t.totLocs).cap = t.totLocs :=
      GoSlice.nil_reuseOrMake_cap _ _
    have h6 : (PoolObj.fresh.locBacking.reuseOrMake default t.totLocs).backing =
        List.replicate t.totLocs default := GoSlice.nil_reuseOrMake_backing _ _
    have h7 : (reusePostings PoolObj.fresh.postings t.pidNext).content = List.replicate t.pidNext [] :=
      content_reusePostings _ _ (fun _ h => by cases h)
    rw [h1, h2, h3, h4, h5, h6, h7]
    cases carve 378 (List.replicate t.pidNext (Slice.own [])) 0 t.totTFs t.totTFs 0 s.numTerms with
    | error e => rfl
    | ok fw =>
      simp only
      cases carve 396 (List.replicate t.pidNext (Slice.own [])) 0 t.totLocs t.totLocs 0 s.numLocs with
      | error e => rfl
      | ok lw => rfl

/-- THE POOL MODEL EXTENDS THE BUILDER MODEL: on a fresh object `buildFrom` is `Builder.run` -/
theorem buildFrom_fresh (nc : Bytes → Nat → Nat) (π : Order) (b : Batch) :
    (buildFrom PoolObj.fresh nc π b).map (·.1) = run nc π b := by
  rw [run_eq_finish, ← initFieldsFrom_map clean_fresh b]
  unfold buildFrom
  cases initFieldsFrom PoolObj.fresh b with
  | error e => rfl
  | ok x =>
    obtain ⟨s, dv⟩ := x
    simp only [Except.map]
    rw [← prepareDictsFrom_fresh s b]
    cases prepareDictsFrom PoolObj.fresh s b with
    | error e => rfl
    | ok y =>
      obtain ⟨s1, cv⟩ := y
      simp only [Except.map]
      cases finish nc π b s1 with
      | error e => rfl
      | ok z => rfl

end Ice.Model.Pool
