import IceModel.Lemmas.Builder.Run
import IceModel.Model.Pool
/-
  The window lemma for a REUSED backing array (property C14).

  `Builder.Refines res W B A` (Lemmas/Builder/Windows.lean) describes windows carved into a freshly
  made array: `B.length = res.sum` and window `p` has capacity `res.sum - offs res p`.  A pooled
  builder carves its windows into an array of capacity `C ≥ res.sum` that it re-sliced to length
  `res.sum` (new.go:370-380): the windows have capacity `C - offs res p` and the cells nobody wrote
  yet are STALE.  `RefinesC C` is `Refines` for such an array; nothing is said about unwritten cells.
  The lemmas are the ones of Lemmas/Builder/Windows.lean with `C` for `res.sum`.
-/
namespace Ice.Model.Pool
open Ice Ice.Spec Ice.Model.Builder

structure RefinesC {α : Type} (C : Nat) (res : List Nat) (W : List (Slice α)) (B : List α)
    (A : List (List α)) : Prop where
  lenW : W.length = res.length
  lenA : A.length = res.length
  lenB : B.length = C
  room : res.sum ≤ C
  win : ∀ p, p < res.length →
    W[p]? = some (.shared (offs res p) (lget A p).length (C - offs res p))
  bound : ∀ p, p < res.length → (lget A p).length ≤ nget res p
  cell : ∀ p k, p < res.length → k < (lget A p).length → B[offs res p + k]? = (lget A p)[k]?

/-- the fresh array is the special case `C = res.sum` -/
theorem RefinesC.of_refines {α : Type} {res : List Nat} {W : List (Slice α)} {B : List α}
    {A : List (List α)} (h : Refines res W B A) : RefinesC res.sum res W B A :=
  ⟨h.lenW, h.lenA, h.lenB, Nat.le_refl _, h.win, h.bound, h.cell⟩

/-- THE WINDOW LEMMA on a reused array -/
theorem RefinesC.append {α : Type} {C : Nat} {res : List Nat} {W : List (Slice α)} {B : List α}
    {A : List (List α)} (h : RefinesC C res W B A) {p : Nat} (hp : p < res.length)
    (hlt : (lget A p).length < nget res p) (x : α) :
    ∃ w, W[p]? = some w ∧
      RefinesC C res (W.set p (w.append B x).1) (w.append B x).2 (A.set p (lget A p ++ [x])) := by
  have hend := offs_end res p
  have hroom := h.room
  refine ⟨_, h.win p hp, ?_⟩
  have hcap : (lget A p).length < C - offs res p := by omega
  simp only [Slice.append, hcap, if_true]
  have hpA : p < A.length := by rw [h.lenA]; exact hp
  have hA' : ∀ q, lget (A.set p (lget A p ++ [x])) q = if p = q then lget A p ++ [x] else lget A q := by
    intro q; rw [lget_set]; simp [hpA]
  refine ⟨by simp [h.lenW], by simp [h.lenA], by simp [h.lenB], hroom, ?_, ?_, ?_⟩
  · intro q hq
    rw [hA', List.getElem?_set]
    by_cases e : p = q
    · subst e; simp [h.lenW, hp]
    · simp only [e, if_false]; exact h.win q hq
  · intro q hq
    rw [hA']
    by_cases e : p = q
    · subst e; simp; omega
    · simp only [e, if_false]; exact h.bound q hq
  · intro q k hq hk
    rw [hA'] at hk ⊢
    rw [List.getElem?_set]
    by_cases e : p = q
    · subst e
      simp only [if_true, List.length_append, List.length_singleton] at hk ⊢
      by_cases e2 : k = (lget A p).length
      · subst e2
        have : offs res p + (lget A p).length < B.length := by rw [h.lenB]; omega
        simp [this]
      · have hk2 : k < (lget A p).length := by omega
        have : ¬ offs res p + (lget A p).length = offs res p + k := by omega
        simp only [this, if_false]
        rw [h.cell p k hp hk2, List.getElem?_append_left hk2]
    · simp only [e, if_false] at hk ⊢
      have hb := h.bound q hq
      have := offs_disjoint res e hlt (show k < nget res q by omega)
      simp only [this, if_false]
      exact h.cell q k hq hk

theorem RefinesC.get? {α : Type} {C : Nat} {res : List Nat} {W : List (Slice α)} {B : List α}
    {A : List (List α)} (h : RefinesC C res W B A) {p : Nat} (hp : p < res.length) {w : Slice α}
    (hw : W[p]? = some w) (k : Nat) : w.get? B k = (lget A p)[k]? := by
  rw [h.win p hp] at hw
  injection hw with hw
  subst hw
  simp only [Slice.get?]
  split
  · next hk => exact h.cell p k hp hk
  · next hk => simp at hk; simp [hk]

theorem RefinesC.sub? {α : Type} {C : Nat} {res : List Nat} {W : List (Slice α)} {B : List α}
    {A : List (List α)} (h : RefinesC C res W B A) {p : Nat} (hp : p < res.length) {w : Slice α}
    (hw : W[p]? = some w) (lo m : Nat) (hm : lo + m ≤ (lget A p).length) :
    w.sub? B lo (lo + m) = some (((lget A p).drop lo).take m) := by
  rw [h.win p hp] at hw
  injection hw with hw
  subst hw
  have hend := offs_end res p
  have hb := h.bound p hp
  have hroom := h.room
  have hc : lo ≤ lo + m ∧ lo + m ≤ C - offs res p := by omega
  simp only [Slice.sub?, hc, and_self, if_true, Nat.add_sub_cancel_left, Option.some.injEq]
  apply List.ext_getElem?
  intro j
  simp only [List.getElem?_take, List.getElem?_drop]
  split
  · next hj =>
    have := h.cell p (lo + j) hp (by omega)
    rw [← this]; congr 1; omega
  · rfl

/-- the carving loops new.go:376-380 / 394-398 over a re-sliced array of capacity `C`: whatever
    slice headers (`wins`) and cells (`B`) earlier builds left behind -/
theorem carve_refinesC {α : Type} (site : Nat) (res : List Nat) (C : Nat) (hC : res.sum ≤ C)
    (wins : List (Slice α)) (hw : wins.length = res.length) (B : List α) (hB : B.length = C) :
    ∃ W, carve site wins 0 res.sum C 0 res = .ok W ∧
      RefinesC C res W B (List.replicate res.length []) := by
  obtain ⟨W, hW, hl, _, hj⟩ := carve_spec (α := α) site res wins 0 res.sum C 0 rfl (by simp [hw])
  have hA : ∀ p, lget (List.replicate res.length ([] : List α)) p = [] := by
    intro p
    simp only [lget, List.getD_eq_getElem?_getD, List.getElem?_replicate]
    split <;> simp
  refine ⟨W, hW, by rw [hl, hw], by simp, hB, hC, ?_, ?_, ?_⟩
  · intro p hp
    have := hj p hp
    simpa [hA, offs] using this
  · intro p _; simp [hA]
  · intro p k _ hk; simp [hA] at hk

end Ice.Model.Pool
