import IceModel.Lemmas.Pool.Run
import IceModel.Lemmas.Pool.Clean
/-
  Reuse of a CLEAN pooled object is invisible (C14): component by component
    * the field table, `Dicts`, `DictKeys`, the counters: a clean object looks like `&interim{}`;
    * `IncludeDocValues[:n]` (new.go:273): all cells false, as after `make`;
    * `Postings[:n]` / the copied bitmaps (351-362): all empty, as after `roaring.New()`;
    * the stale headers in `FreqNorms`/`Locs` are all overwritten by the carving loops, the stale cells
      and the larger capacity of `freqNormsBacking`/`locsBacking` are covered by `RefinesC`.
-/
namespace Ice.Model.Pool
open Ice Ice.Spec Ice.Model.Builder

/-! ### re-slice or make -/

namespace GoSlice
variable {α : Type}

theorem len_reuseOrMake (z : α) (g : GoSlice α) (n : Nat) : (g.reuseOrMake z n).len = n := by
  unfold reuseOrMake; split <;> rfl

theorem le_cap_reuseOrMake (z : α) (g : GoSlice α) (n : Nat) : n ≤ (g.reuseOrMake z n).cap := by
  unfold reuseOrMake; split
  · next h => exact h
  · simp [make, cap]

theorem length_content_reuseOrMake (z : α) (g : GoSlice α) (n : Nat) :
    (g.reuseOrMake z n).content.length = n := by
  have h1 := le_cap_reuseOrMake z g n
  have h2 := len_reuseOrMake z g n
  simp only [content, cap, List.length_take] at *
  omega

theorem all_reuseOrMake (P : α → Prop) (z : α) (g : GoSlice α) (n : Nat) (hz : P z)
    (hg : ∀ x ∈ g.backing, P x) : ∀ x ∈ (g.reuseOrMake z n).backing, P x := by
  unfold reuseOrMake; split
  · exact hg
  · intro x hx
    simp only [make, List.mem_replicate] at hx
    rw [hx.2]; exact hz

/-- within capacity or not: if all stale cells are `z`, the re-sliced array is the made one -/
theorem content_reuseOrMake (z : α) (g : GoSlice α) (n : Nat) (hg : ∀ x ∈ g.backing, x = z) :
    (g.reuseOrMake z n).content = List.replicate n z := by
  have hall := all_reuseOrMake (fun x => x = z) z g n rfl hg
  have hlen := length_content_reuseOrMake z g n
  have := eq_replicate_of_all (l := (g.reuseOrMake z n).content) (fun x hx => hall x (mem_content hx))
  rw [this, hlen]

end GoSlice

theorem len_reusePostings (g : GoSlice (List Nat)) (n : Nat) : (reusePostings g n).len = n := by
  unfold reusePostings; split <;> rfl

theorem all_reusePostings (g : GoSlice (List Nat)) (n : Nat) (hg : ∀ x ∈ g.backing, x = []) :
    ∀ x ∈ (reusePostings g n).backing, x = [] := by
  unfold reusePostings; split
  · exact hg
  · intro x hx
    simp only [List.mem_append, List.mem_replicate] at hx
    rcases hx with hx | hx
    · exact hg x hx
    · exact hx.2

theorem content_reusePostings (g : GoSlice (List Nat)) (n : Nat) (hg : ∀ x ∈ g.backing, x = []) :
    (reusePostings g n).content = List.replicate n [] := by
  have hall := all_reusePostings g n hg
  have hlen : (reusePostings g n).content.length = n := by
    unfold reusePostings; split
    · next h =>
      simp only [GoSlice.cap] at h
      simp only [GoSlice.content, GoSlice.reslice, List.length_take]; omega
    · next h =>
      simp only [GoSlice.cap] at h
      simp only [GoSlice.content, GoSlice.cap, List.length_take, List.length_append,
        List.length_replicate]
      omega
  have := eq_replicate_of_all (l := (reusePostings g n).content)
    (fun x hx => hall x (GoSlice.mem_content hx))
  rw [this, hlen]

/-! ### the field table and IncludeDocValues (new.go:253-277) -/

/-- on a clean object convert sets up exactly the state of a fresh builder -/
theorem initFieldsFrom_clean {o : PoolObj} (ho : Clean o) (b : Batch) {s : St}
    (e : initFields b = .ok s) :
    ∃ dv, initFieldsFrom o b = .ok (s, dv) ∧ ∀ x ∈ dv.backing, x = false := by
  unfold initFields at e
  unfold initFieldsFrom
  rw [ofObj_clean ho]
  simp only at e ⊢
  generalize List.foldl (fun s d => List.foldl (fun s f => (getOrDefineField s f.name).1) s d)
    (getOrDefineField {} idField).1 b = S at e ⊢
  cases hS : S.fieldsInv with
  | nil => rw [hS] at e; cases e
  | cons h r =>
    rw [hS] at e
    simp only at e ⊢
    injection e with e
    refine ⟨GoSlice.reuseOrMake false o.includeDV (h :: sortS r).length, ?_,
      GoSlice.all_reuseOrMake (fun x => x = false) false _ _ rfl ho.includeDVIn⟩
    rw [GoSlice.content_reuseOrMake false _ _ ho.includeDVIn, e]

/-- whatever the batch: the slice `IncludeDocValues` taken from a clean object has no true cell
    beyond what this build sets -/
theorem initFieldsFrom_dv {o : PoolObj} (ho : Clean o) {b : Batch} {s : St} {dv : GoSlice Bool}
    (e : initFieldsFrom o b = .ok (s, dv)) : ∀ x ∈ dv.backing, x = false := by
  unfold initFieldsFrom at e
  simp only at e
  split at e
  · cases e
  · injection e with e
    injection e with _ e
    rw [← e]
    exact GoSlice.all_reuseOrMake (fun x => x = false) false _ _ rfl ho.includeDVIn

/-! ### prepareDicts (new.go:339-399) -/

theorem prepareDictsFrom_post {o : PoolObj} (ho : Clean o) {b : Batch} {s s' : St} {cv : Carved}
    (e : prepareDictsFrom o s b = .ok (s', cv)) : ∀ x ∈ cv.post.backing, x = [] := by
  unfold prepareDictsFrom at e
  split at e
  · cases e
  · simp only at e
    split at e
    · cases e
    · split at e
      · cases e
      · injection e with e
        injection e with _ e
        rw [← e]
        exact all_reusePostings _ _ ho.postingsIn

/-- pass 1 on a clean object: the state of a fresh builder, except that the windows are carved
    into the reused arrays (capacity `cap`, stale cells) -/
theorem prepareDictsFrom_ok {o : PoolObj} (ho : Clean o) {F : List Bytes} {b : Batch}
    {m : AMap Bytes Nat} (hF : FieldsOK F (st0 b m)) (hFL : F = FL b) :
    ∃ s cv, prepareDictsFrom o (st0 b m) b = .ok (s, cv) ∧
      S1C cv.fnB.cap cv.locB.cap F b (st0 b m) s := by
  have hb : ∀ d ∈ b, ∀ f ∈ d, f.name ∈ F := by
    intro d hd f hf
    rw [hFL, mem_FL]; right
    simp only [names, List.mem_flatMap, List.mem_map]
    exact ⟨d, hd, f, hf, rfl⟩
  have h0 : P1D F (st0 b m) [] (st0 b m) {} := by
    refine ⟨⟨⟨rfl, rfl, rfl, rfl, rfl, rfl, rfl, rfl⟩, ?_, rfl, rfl, ?_⟩, ?_⟩
    · have := DictInv.init F.length
      simpa [st0, hFL, evsI] using this
    · intro i; simp [st0, aget, freqSum]
    · intro i; simp [st0, aget, docCnt]
  obtain ⟨s, t, e, hp⟩ := prepDocs_ok hF b hb h0
  have hd := hp.p1.dict
  have hT : t.totTFs = s.numTerms.sum := by rw [hp.p1.tfs, hd.sumT]
  have hL : t.totLocs = s.numLocs.sum := by rw [hp.p1.tl, hd.sumL]
  have hn : t.pidNext = s.numTerms.length := hd.lenT.symm
  have hn' : t.pidNext = s.numLocs.length := hd.lenL.symm
  obtain ⟨pn, tl, tt⟩ := t
  simp only at hT hL hn hn' e
  subst hT hL
  obtain ⟨fw, hfw, hfr⟩ := carve_refinesC (α := FreqNorm) 378 s.numTerms
    (o.fnBacking.reuseOrMake default s.numTerms.sum).cap (GoSlice.le_cap_reuseOrMake _ _ _)
    (o.freqNorms.reuseOrMake (.own []) pn).content
    (by rw [GoSlice.length_content_reuseOrMake, hn])
    (o.fnBacking.reuseOrMake default s.numTerms.sum).backing rfl
  obtain ⟨lw, hlw, hlr⟩ := carve_refinesC (α := ILoc) 396 s.numLocs
    (o.locBacking.reuseOrMake default s.numLocs.sum).cap (GoSlice.le_cap_reuseOrMake _ _ _)
    (o.locs.reuseOrMake (.own []) pn).content
    (by rw [GoSlice.length_content_reuseOrMake, hn'])
    (o.locBacking.reuseOrMake default s.numLocs.sum).backing rfl
  refine ⟨{ s with postings := (reusePostings o.postings pn).content,
                   fnWins := fw, fnBacking := (o.fnBacking.reuseOrMake default s.numTerms.sum).backing,
                   locWins := lw, locBacking := (o.locBacking.reuseOrMake default s.numLocs.sum).backing },
          { post := reusePostings o.postings pn,
            fnW := o.freqNorms.reuseOrMake (.own []) pn,
            fnB := o.fnBacking.reuseOrMake default s.numTerms.sum,
            locW := o.locs.reuseOrMake (.own []) pn,
            locB := o.locBacking.reuseOrMake default s.numLocs.sum }, ?_, ?_⟩
  · simp only [prepareDictsFrom, e, hfw, hlw]
  · refine ⟨hp.p1.frame.fmap, hp.p1.frame.finv, hp.p1.frame.dv, ?_, hp.p1.ff, hp.fd, ?_, ?_, ?_⟩
    · simpa [hn] using hd
    · show (reusePostings o.postings pn).content = _
      rw [content_reusePostings _ _ ho.postingsIn, hn]
    · exact hfr
    · have : s.numTerms.length = s.numLocs.length := by rw [← hn, hn']
      simpa [this] using hlr

/-! ### the whole build -/

/-- on a clean object and inside the contract the build returns `builtOf nc b` -/
theorem buildFrom_eq {o : PoolObj} (ho : Clean o) (nc : Bytes → Nat → Nat) (π : Order) (b : Batch)
    (hv : ValidBatch b) (hπ : PermOK π) : ∃ o', buildFrom o nc π b = .ok (builtOf nc b, o') := by
  have hlen : (FL b).length ≤ 65535 := FL_length_le hv.2
  obtain ⟨m, e0, hF0⟩ := initFields_ok b hlen
  obtain ⟨dv, e0', _⟩ := initFieldsFrom_clean ho b e0
  obtain ⟨s1, cv, e1, hS1⟩ := prepareDictsFrom_ok ho hF0 rfl
  obtain ⟨sF, e2⟩ := finish_okC nc π b hv hπ hF0 hS1
  exact ⟨harvest nc b o dv cv sF, by simp only [buildFrom, e0', e1, e2]⟩

/-- REUSE IS INVISIBLE: the result of a build on a clean pooled object is the result of a fresh
    builder -/
theorem reuse_invisible {o : PoolObj} (ho : Clean o) (nc : Bytes → Nat → Nat) (π : Order) (b : Batch)
    (hv : ValidBatch b) (hπ : PermOK π) :
    (buildFrom o nc π b).map (·.1) = run nc π b := by
  obtain ⟨o', e⟩ := buildFrom_eq ho nc π b hv hπ
  rw [e, run_eq nc π b hv hπ]; rfl

/-! ### the object after the build -/

theorem all_extendKeys (g : GoSlice (GoSlice Bytes)) (h : ∀ x ∈ g.backing, x.len = 0) :
    ∀ x ∈ (extendKeys g).backing, x.len = 0 := by
  intro x hx
  unfold extendKeys at hx
  split at hx
  · rcases mem_modify _ _ _ _ hx with h' | ⟨y, _, e⟩
    · exact h x h'
    · rw [e]; rfl
  · rcases GoSlice.mem_append hx with h' | h' | h'
    · exact h x h'
    · rw [h']; rfl
    · rw [h']; rfl

theorem all_iter_extendKeys (k : Nat) : ∀ (g : GoSlice (GoSlice Bytes)),
    (∀ x ∈ g.backing, x.len = 0) → ∀ x ∈ (iter extendKeys k g).backing, x.len = 0 := by
  induction k with
  | zero => intro g h; exact h
  | succ k ih => intro g h; exact ih _ (all_extendKeys g h)

/-- the slots of `DictKeys` beyond the fields of this build still have length 0 -/
theorem harvestKeys_rest (g : GoSlice (GoSlice Bytes)) (K : List (List Bytes))
    (h : ∀ x ∈ g.backing, x.len = 0) :
    ∀ x ∈ (harvestKeys g K).backing.drop (harvestKeys g K).len, x.len = 0 := by
  intro x hx
  simp only [harvestKeys] at hx
  rw [drop_append_short _ _ _ (by simp only [List.length_zipWith, List.length_take]; omega)] at hx
  exact all_iter_extendKeys _ g h x (List.mem_of_mem_drop (List.mem_of_mem_drop hx))

/-- a clean object is clean again after build + reset, whatever the batch (the contract is not
    needed: nothing writes `IncludeDocValues`, `Postings` or `DictKeys` beyond their lengths) -/
theorem reset_clean {o o' : PoolObj} (ho : Clean o) {nc : Bytes → Nat → Nat} {π : Order} {b : Batch}
    {r : Built} (e : buildFrom o nc π b = .ok (r, o')) : Clean (reset o') := by
  unfold buildFrom at e
  split at e
  · cases e
  · next s dv e0 =>
    split at e
    · cases e
    · next s1 cv e1 =>
      split at e
      · cases e
      · next r' sF e2 =>
        injection e with e
        injection e with _ e
        subst e
        apply clean_reset
        · exact harvestKeys_rest _ _ ho.dictKeysIn
        · show ∀ x ∈ (dv.withContent sF.includeDV).backing.drop (dv.withContent sF.includeDV).len, _
          rw [GoSlice.withContent_rest]
          exact fun x hx => initFieldsFrom_dv ho e0 x (List.mem_of_mem_drop hx)
        · show ∀ x ∈ (cv.post.withContent sF.postings).backing.drop
            (cv.post.withContent sF.postings).len, _
          rw [GoSlice.withContent_rest]
          exact fun x hx => prepareDictsFrom_post ho e1 x (List.mem_of_mem_drop hx)

end Ice.Model.Pool
