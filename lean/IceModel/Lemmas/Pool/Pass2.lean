import IceModel.Lemmas.Pool.Windows
/-
  Pass 2 (new.go:453-553) over windows carved into REUSED backing arrays: the simulation of
  Lemmas/Builder/Pass2.lean with `RefinesC` for `Refines` (`SimC` for `Sim`).  The proofs are the
  ones of that file; the abstract state (`Abs`, `applyEmit`, `allEmits`, `Fits`) is shared, so the
  reused builder emits into the SAME abstract lists as the fresh one.
-/
namespace Ice.Model.Pool
open Ice Ice.Spec Ice.Model.Builder

structure SimC (Cf Cl : Nat) (s1 s : St) (A : Abs) : Prop where
  core : Core s1 s
  post : s.postings = A.post
  lenP : A.post.length = s1.numTerms.length
  fn : RefinesC Cf s1.numTerms s.fnWins s.fnBacking A.af
  loc : RefinesC Cl s1.numLocs s.locWins s.locBacking A.al

/-- new.go:536-547 -/
theorem emitLocs_okC {C : Nat} {F : List Bytes} {i : Nat} (hi : i < F.length) {res : List Nat} {p : Nat}
    (hp : p < res.length) (locs : List Loc) :
    ∀ (s : St) (W : List (Slice ILoc)) (AL : List (List ILoc)) (lw : Slice ILoc),
    FieldsOK F s → RefinesC C res W s.locBacking AL → W[p]? = some lw →
    (∀ l ∈ locs, l.field = [] ∨ l.field ∈ F) → (lget AL p).length + locs.length ≤ nget res p →
    ∃ B' lw', locs.foldl (emitLoc i) (s, lw) = ({ s with locBacking := B' }, lw') ∧
      RefinesC C res (W.set p lw') B' (AL.set p (lget AL p ++ locs.map (toILoc F i))) := by
  induction locs with
  | nil =>
    intro s W AL lw _ hR hw _ _
    refine ⟨s.locBacking, lw, rfl, ?_⟩
    simpa [set_of_getElem? hw, lget_set_self] using hR
  | cons l r ih =>
    intro s W AL lw hF hR hw hv hfit
    have hpW : p < W.length := by rw [hR.lenW]; exact hp
    have hpA : p < AL.length := by rw [hR.lenA]; exact hp
    have hstep : emitLoc i (s, lw) l =
        ({ s with locBacking := (lw.append s.locBacking (toILoc F i l)).2 },
         (lw.append s.locBacking (toILoc F i l)).1) := by
      have hui : u16 i = i := by have := hF.len; simp only [u16]; omega
      unfold emitLoc toILoc
      by_cases hl : l.field = []
      · simp [hl, hui]
      · have hm : l.field ∈ F := (hv l (by simp)).resolve_left hl
        simp [hl, god_known hF hm, u16_idx hF hm]
    obtain ⟨w0, hw0, hR'⟩ := hR.append hp (by simp at hfit; omega) (toILoc F i l)
    rw [hw] at hw0; injection hw0 with hw0; subst hw0
    obtain ⟨B', lw', e, hR''⟩ := ih { s with locBacking := (lw.append s.locBacking (toILoc F i l)).2 }
      _ _ (lw.append s.locBacking (toILoc F i l)).1 (hF.of_eq rfl rfl) hR'
      (by simp [hpW]) (fun l' hl' => hv l' (by simp [hl']))
      (by rw [lget_set]; simp [hpA]; simp at hfit; omega)
    refine ⟨B', lw', ?_, ?_⟩
    · rw [List.foldl_cons, hstep, e]
    · rw [lget_set] at hR''
      simpa [hpA, List.set_set, List.append_assoc] using hR''

/-- the body of `for term, tf := range tfs`, new.go:521-551 -/
theorem emitTerm_okC {Cf Cl : Nat} {F : List Bytes} {s1 s : St} {A : Abs} (hF : FieldsOK F s1) (hS : SimC Cf Cl s1 s A)
    (hLen : s1.numLocs.length = s1.numTerms.length) {i : Nat} (hi : i < F.length)
    (docNum norm : Nat) (t : Bytes) (tf : TokFreq) {v : Nat} (hv : dget s1.dicts i t = some v)
    (hv1 : 1 ≤ v) (hv2 : v ≤ s1.numTerms.length)
    (hlocs : ∀ l ∈ tf.locs, l.field = [] ∨ l.field ∈ F)
    (hw1 : (lget A.af (v - 1)).length < nget s1.numTerms (v - 1))
    (hw2 : (lget A.al (v - 1)).length + tf.locs.length ≤ nget s1.numLocs (v - 1)) :
    ∃ s', emitTerm docNum i norm (s1.dicts.getD i []) s (t, tf) = .ok s' ∧
      SimC Cf Cl s1 s' (applyEmit A { pid := v - 1, doc := docNum,
                                      fn := { freq := tf.freq, norm := norm, numLocs := tf.locs.length },
                                      locs := tf.locs.map (toILoc F i) }) := by
  have hp : v - 1 < s1.numTerms.length := by omega
  have hpL : v - 1 < s1.numLocs.length := by omega
  have hpP : v - 1 < s.postings.length := by rw [hS.post, hS.lenP]; exact hp
  have hv0 : v ≠ 0 := by omega
  obtain ⟨w, hw, hRf⟩ := hS.fn.append hp hw1
    { freq := tf.freq, norm := norm, numLocs := tf.locs.length }
  have hg : aget (s1.dicts.getD i []) t = some v := hv
  have g1 : getE s.postings (v - 1) 523 = .ok (lget s.postings (v - 1)) :=
    getE_eq_ok (by simp [lget, List.getD_eq_getElem?_getD, List.getElem?_eq_getElem hpP])
  have g2 : getE s.fnWins (v - 1) 526 = .ok w := getE_eq_ok hw
  obtain ⟨sA, hsA⟩ : ∃ sA : St, sA =
      { s with postings := s.postings.set (v - 1) (addDoc docNum (lget s.postings (v - 1))),
               fnWins := s.fnWins.set (v - 1) (w.append s.fnBacking
                 { freq := tf.freq, norm := norm, numLocs := tf.locs.length }).1,
               fnBacking := (w.append s.fnBacking
                 { freq := tf.freq, norm := norm, numLocs := tf.locs.length }).2 } := ⟨_, rfl⟩
  have hcore : Core s1 sA := by
    subst hsA
    exact ⟨hS.core.fmap, hS.core.finv, hS.core.fdocs, hS.core.ffreqs, hS.core.dicts, hS.core.dkeys,
        hS.core.dv, hS.core.nT, hS.core.nL⟩
  have hpost : sA.postings = A.post.set (v - 1) (addDoc docNum (lget A.post (v - 1))) := by
    subst hsA; simp [hS.post]
  have hfn : RefinesC Cf s1.numTerms sA.fnWins sA.fnBacking
      (A.af.set (v - 1) (lget A.af (v - 1) ++ [{ freq := tf.freq, norm := norm, numLocs := tf.locs.length }])) := by
    subst hsA; exact hRf
  have hlw : sA.locWins = s.locWins := by subst hsA; rfl
  have hlb : sA.locBacking = s.locBacking := by subst hsA; rfl
  by_cases h0 : tf.locs.length > 0
  · have hpW : v - 1 < sA.locWins.length := by rw [hlw, hS.loc.lenW]; exact hpL
    obtain ⟨B', lw', e, hRl⟩ := emitLocs_okC (F := F) hi hpL tf.locs sA
      sA.locWins A.al sA.locWins[v - 1] (hF.of_eq hcore.fmap hcore.finv) (by rw [hlw, hlb]; exact hS.loc)
      (List.getElem?_eq_getElem hpW) hlocs hw2
    have g3 : getE sA.locWins (v - 1) 534 = .ok sA.locWins[v - 1] :=
      getE_eq_ok (List.getElem?_eq_getElem hpW)
    refine ⟨{ sA with locBacking := B', locWins := sA.locWins.set (v - 1) lw' }, ?_, ?_⟩
    · have g3' : getE s.locWins (v - 1) 534 = .ok sA.locWins[v - 1] := by rw [← hlw]; exact g3
      simp only [emitTerm, hg, Option.getD_some, pidOf, hv0, if_false, g1, g2, h0, if_true, ← hsA,
        g3', e, setE_eq_ok _ hpW]
    · exact ⟨⟨hcore.fmap, hcore.finv, hcore.fdocs, hcore.ffreqs, hcore.dicts, hcore.dkeys,
        hcore.dv, hcore.nT, hcore.nL⟩, hpost, by simp [applyEmit, hS.lenP], hfn, hRl⟩
  · have hl0 : tf.locs = [] := by
      cases hl : tf.locs with
      | nil => rfl
      | cons a r => simp [hl] at h0
    refine ⟨sA, ?_, ?_⟩
    · simp only [emitTerm, hg, Option.getD_some, pidOf, hv0, if_false, g1, g2, h0, ← hsA]
    · exact ⟨hcore, hpost, by simp [applyEmit, hS.lenP], hfn,
        by rw [hlw, hlb]; simpa [applyEmit, hl0, lget_set_self] using hS.loc⟩
section pass2
variable {Cf Cl : Nat} {F : List Bytes} {s1 : St} {E0 : List (Nat × TermOcc)} (nc : Bytes → Nat → Nat) (π : Order)
  (hF : FieldsOK F s1)
  (hD : DictInv F.length E0 s1.dicts s1.dictKeys s1.numTerms s1.numLocs s1.numTerms.length)
  (hπ : PermOK π)
include hF hD hπ

/-- the body of `for fieldID, tfs := range fieldTFs`, new.go:517-552 -/
theorem emitField_okC {s : St} {E1 : List Emit} (n : Nat) (lens : List Nat)
    (x : AMap Bytes TokFreq × Nat)
    (hS : SimC Cf Cl s1 s (applyAll (Abs.empty s1.numTerms.length) E1))
    (hi : x.2 < F.length) (hlens : lens.length = F.length)
    (hx : ∀ t tf, (t, tf) ∈ x.1 → (dget s1.dicts x.2 t).isSome ∧ ∀ l ∈ tf.locs, l.field = [] ∨ l.field ∈ F)
    (hfit : Fits s1.numTerms.length s1.numTerms s1.numLocs (E1 ++ fieldEmits nc π F s1.dicts n lens x)) :
    ∃ s', emitField nc π n lens s x = .ok s' ∧
      SimC Cf Cl s1 s' (applyAll (Abs.empty s1.numTerms.length) (E1 ++ fieldEmits nc π F s1.dicts n lens x)) := by
  obtain ⟨m, i⟩ := x
  simp only at hi hx
  have hiD : i < s1.dicts.length := by rw [hD.lenD]; exact hi
  have hiL : i < lens.length := by rw [hlens]; exact hi
  have g1 : getE s.dicts i 518 = .ok (s1.dicts.getD i []) := by
    rw [hS.core.dicts]
    exact getE_eq_ok (by simp [List.getD_eq_getElem?_getD, List.getElem?_eq_getElem hiD])
  have g2 : getE s.fieldsInv i 519 = .ok (fname F i) := by
    rw [hS.core.finv, hF.inv]
    exact getE_eq_ok (by simp [fname, List.getD_eq_getElem?_getD, List.getElem?_eq_getElem hi])
  have g3 : getE lens i 519 = .ok (nget lens i) :=
    getE_eq_ok (by simp [nget, List.getD_eq_getElem?_getD, List.getElem?_eq_getElem hiL])
  have hloop := foldlE_inv (emitTerm n i (nc (fname F i) (nget lens i)) (s1.dicts.getD i []))
    (fun pre s => SimC Cf Cl s1 s (applyAll (Abs.empty s1.numTerms.length)
      (E1 ++ pre.map (mkEmit nc F s1.dicts n i lens))))
    (π n i m) s (by simpa using hS)
    (by
      intro pre e post s hdd hSs
      obtain ⟨t, tf⟩ := e
      have hmem : (t, tf) ∈ m := (hπ n i m).mem_iff.1 (by rw [hdd]; simp)
      obtain ⟨hsome, hlocs⟩ := hx t tf hmem
      obtain ⟨v, hv⟩ := Option.isSome_iff_exists.1 hsome
      obtain ⟨hv1, hv2⟩ := hD.rng i t v hv
      -- the window still has room
      have hfit2 : Fits s1.numTerms.length s1.numTerms s1.numLocs
          ((E1 ++ pre.map (mkEmit nc F s1.dicts n i lens)) ++ [mkEmit nc F s1.dicts n i lens (t, tf)]) := by
        have : E1 ++ fieldEmits nc π F s1.dicts n lens (m, i) =
            ((E1 ++ pre.map (mkEmit nc F s1.dicts n i lens)) ++ [mkEmit nc F s1.dicts n i lens (t, tf)]) ++
              post.map (mkEmit nc F s1.dicts n i lens) := by
          simp [fieldEmits, hdd]
        rw [this] at hfit
        exact hfit.prefix
      have hpidE : (mkEmit nc F s1.dicts n i lens (t, tf)).pid = v - 1 := by simp [mkEmit, hv]
      have hsp := applyAll_spec (E1 ++ pre.map (mkEmit nc F s1.dicts n i lens))
        (Abs.empty s1.numTerms.length) (by
          intro e he
          have := hfit2.prefix.pid e he
          simpa [Abs.empty] using this) (by simp [Abs.empty]) (by simp [Abs.empty]) (v - 1)
      have hc := hfit2.cnt (v - 1)
      have hl := hfit2.locs (v - 1)
      rw [esel_append] at hc hl
      have hself : esel [mkEmit nc F s1.dicts n i lens (t, tf)] (v - 1) =
          [mkEmit nc F s1.dicts n i lens (t, tf)] := by simp [esel, hpidE]
      rw [hself] at hc hl
      obtain ⟨s', e', hS'⟩ := emitTerm_okC hF hSs (by rw [hD.lenL]) hi n
        (nc (fname F i) (nget lens i)) t tf hv hv1 hv2 hlocs
        (by rw [hsp.1]; simp [Abs.empty, lget_replicate_nil] at hc ⊢; omega)
        (by rw [hsp.2.1]
            simp [Abs.empty, lget_replicate_nil, mkEmit] at hl ⊢; omega)
      refine ⟨s', e', ?_⟩
      rw [List.map_append, ← List.append_assoc, List.map_singleton, applyAll_snoc]
      simpa [mkEmit, hv] using hS')
  obtain ⟨s', e, hS'⟩ := hloop
  refine ⟨s', ?_, ?_⟩
  · simp only [emitField, g1, g2, g3, e]
  · simpa [fieldEmits] using hS'

/-- new.go:469-553 -/
theorem processDocument_okC (v0 : Bool) {s : St} {Ed : List Emit} (x : Doc × Nat)
    (hS : SimC Cf Cl s1 s (applyAll (Abs.empty s1.numTerms.length) Ed))
    (hd : ∀ f ∈ x.1, f.name ∈ F) (htf : TFsOK F s1.dicts (rollTFs v0 F x.1))
    (hfit : Fits s1.numTerms.length s1.numTerms s1.numLocs (Ed ++ docEmits v0 nc π F s1.dicts x)) :
    ∃ s', processDocument v0 nc π F.length s x = .ok s' ∧
      SimC Cf Cl s1 s' (applyAll (Abs.empty s1.numTerms.length) (Ed ++ docEmits v0 nc π F s1.dicts x)) := by
  obtain ⟨d, n⟩ := x
  simp only at hd htf
  have hFs : FieldsOK F s := hF.of_eq hS.core.fmap hS.core.finv
  have hloop := foldlE_inv (emitField nc π n (rollLens F d))
    (fun pre s => SimC Cf Cl s1 s (applyAll (Abs.empty s1.numTerms.length)
      (Ed ++ pre.flatMap (fieldEmits nc π F s1.dicts n (rollLens F d)))))
    (rollTFs v0 F d).zipIdx s (by simpa using hS)
    (by
      intro pre y post s hdd hSs
      have hy : y ∈ (rollTFs v0 F d).zipIdx := by rw [hdd]; simp
      have hy2 := List.mem_zipIdx_iff_getElem?.1 hy
      have hi : y.2 < F.length := by
        have : y.2 < (rollTFs v0 F d).length := by
          by_cases h : y.2 < (rollTFs v0 F d).length
          · exact h
          · rw [List.getElem?_eq_none (by omega)] at hy2; simp at hy2
        rwa [length_rollTFs] at this
      have hlg : lget (rollTFs v0 F d) y.2 = y.1 := by
        simp [lget, List.getD_eq_getElem?_getD, hy2]
      obtain ⟨s', e, hS'⟩ := emitField_okC nc π hF hD hπ n (rollLens F d) y hSs hi (length_rollLens F d)
        (fun t tf hm => htf y.2 t tf (by rw [hlg]; exact hm))
        (by
          have : Ed ++ docEmits v0 nc π F s1.dicts (d, n) =
              ((Ed ++ pre.flatMap (fieldEmits nc π F s1.dicts n (rollLens F d))) ++
                fieldEmits nc π F s1.dicts n (rollLens F d) y) ++
                post.flatMap (fieldEmits nc π F s1.dicts n (rollLens F d)) := by
            simp [docEmits, hdd]
          rw [this] at hfit
          exact hfit.prefix)
      refine ⟨s', e, ?_⟩
      simpa [List.flatMap_append] using hS')
  obtain ⟨s', e, hS'⟩ := hloop
  refine ⟨s', ?_, ?_⟩
  · simp only [processDocument, visitFields_ok v0 hFs d hd, e]
  · simpa [docEmits] using hS'

/-- new.go:453-467 -/
theorem processDocuments_okC (v0 : Bool) {s : St} (b : Batch)
    (hS : SimC Cf Cl s1 s (Abs.empty s1.numTerms.length))
    (hb : ∀ d ∈ b, ∀ f ∈ d, f.name ∈ F) (htf : ∀ d ∈ b, TFsOK F s1.dicts (rollTFs v0 F d))
    (hfit : Fits s1.numTerms.length s1.numTerms s1.numLocs (allEmits v0 nc π F s1.dicts b)) :
    ∃ s', processDocuments v0 nc π s b = .ok s' ∧
      SimC Cf Cl s1 s' (applyAll (Abs.empty s1.numTerms.length) (allEmits v0 nc π F s1.dicts b)) := by
  have hlenF : s.fieldsInv.length = F.length := by rw [hS.core.finv, hF.inv]
  have hloop := foldlE_inv (processDocument v0 nc π F.length)
    (fun pre s => SimC Cf Cl s1 s (applyAll (Abs.empty s1.numTerms.length)
      (pre.flatMap (docEmits v0 nc π F s1.dicts))))
    b.zipIdx s (by simpa [applyAll] using hS)
    (by
      intro pre x post s hdd hSs
      have hx : x.1 ∈ b := by
        have : x ∈ b.zipIdx := by rw [hdd]; simp
        have := List.mem_zipIdx_iff_getElem?.1 this
        exact List.mem_of_getElem? this
      obtain ⟨s', e, hS'⟩ := processDocument_okC nc π hF hD hπ v0 x hSs (hb x.1 hx) (htf x.1 hx)
        (by
          have : allEmits v0 nc π F s1.dicts b =
              (pre.flatMap (docEmits v0 nc π F s1.dicts) ++ docEmits v0 nc π F s1.dicts x) ++
                post.flatMap (docEmits v0 nc π F s1.dicts) := by
            simp [allEmits, hdd]
          rw [this] at hfit
          exact hfit.prefix)
      refine ⟨s', e, ?_⟩
      simpa [List.flatMap_append] using hS')
  obtain ⟨s', e, hS'⟩ := hloop
  refine ⟨s', ?_, ?_⟩
  · simp only [processDocuments, hlenF, e]
  · simpa [allEmits] using hS'

end pass2

end Ice.Model.Pool
