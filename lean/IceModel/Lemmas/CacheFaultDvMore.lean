import IceModel.Lemmas.CacheFaultDvRun
/-
  (c) docValueReader, continued: ascending scripts only have upward faults; on a healthy storage
  every visit returns exactly the document's values (the cache is transparent).
-/
namespace Ice.Model.CacheFault

theorem visitDocValues_cur (r : DvReader) (d : Nat) :
    (r.visitDocValues d).1.curChunkNum = r.curChunkNum := by
  unfold DvReader.visitDocValues
  split
  · rfl
  · split
    · rfl
    · simp only
      split <;> (split <;> rfl)

theorem loadDvChunk_cur (st : DvStore) (o : Oracle) (clk : Nat) (r : DvReader) (n : Nat) :
    (r.loadDvChunk dV0 st o clk n).1.curChunkNum = r.curChunkNum ∨
    (r.loadDvChunk dV0 st o clk n).1.curChunkNum = n := by
  cases hc : st n with
  | none => rw [loadDvChunk_none dV0 st o clk r n hc]; right; rfl
  | some c =>
    rcases loadDvChunk_result st o clk r n c hc with ⟨_, hL⟩ | ⟨_, _, hp, _⟩ | ⟨_, _, hf⟩
    · rw [hL]; left; rfl
    · left; exact hp.cur
    · right; exact hf.cur

theorem visit_cur (chunkOf : Nat → Nat) (st : DvStore) (o : Oracle) (clk : Nat) (r : DvReader) (d : Nat) :
    (r.visit dV0 chunkOf st o clk d).1.curChunkNum = r.curChunkNum ∨
    (r.visit dV0 chunkOf st o clk d).1.curChunkNum = chunkOf d := by
  unfold DvReader.visit
  split
  · have h := loadDvChunk_cur st o clk r (chunkOf d)
    rcases hL : r.loadDvChunk dV0 st o clk (chunkOf d) with ⟨r1, clk1, ok⟩
    rw [hL] at h
    simp only at h ⊢
    cases ok
    · simpa using h
    · simp only [Bool.not_true, Bool.false_eq_true, if_false]
      rw [visitDocValues_cur]; exact h
  · simp only; rw [visitDocValues_cur]; left; rfl

/-- visits in ascending chunk order (ascending doc order in particular) -/
def Ascending (chunkOf : Nat → Nat) (ds : List Nat) : Prop :=
  ds.Pairwise (fun a b => chunkOf a ≤ chunkOf b)

theorem upward_of_ascending (chunkOf : Nat → Nat) (st : DvStore) (o : Oracle) (ds : List Nat) :
    ∀ (clk : Nat) (r : DvReader), (r.curChunkNum = noChunk ∨ ∀ d ∈ ds, r.curChunkNum ≤ chunkOf d) →
    Ascending chunkOf ds → UpwardFaults dV0 chunkOf st o clk r ds := by
  induction ds with
  | nil => intro _ _ _ _; trivial
  | cons d ds ih =>
    intro clk r hr hasc
    obtain ⟨hd, hasc'⟩ := List.pairwise_cons.mp hasc
    refine ⟨fun hp => ?_, ih _ _ ?_ hasc'⟩
    · rcases hr with hr | hr
      · left; exact hr
      · right
        have := hr d (by simp)
        have hne := hp.1
        omega
    · rcases visit_cur chunkOf st o clk r d with h | h
      · rw [h]
        exact hr.imp id (fun hr x hx => hr x (by simp [hx]))
      · rw [h]; right; exact hd

/-! ### the clean reader finds every listed document -/

theorem sorted_lt {es : List Meta} (hs : es.Pairwise (fun a b => a.doc < b.doc)) {i j : Nat}
    (hi : i < es.length) (hj : j < es.length) (hij : i < j) : es[i].doc < es[j].doc :=
  List.pairwise_iff_getElem.mp hs i j hi hj hij

theorem getDocValueLocs_sorted (es : List Meta) (hs : es.Pairwise (fun a b => a.doc < b.doc))
    (i : Nat) (m : Meta) (hm : es[i]? = some m) : getDocValueLocs es m.doc ≠ none := by
  obtain ⟨hi, hmi⟩ := List.getElem?_eq_some_iff.mp hm
  unfold getDocValueLocs
  simp only
  have hs3 := sortSearch_spec es.length (fun i => decide (m.doc ≤ (es.getD i default).doc))
  generalize sortSearch es.length (fun i => decide (m.doc ≤ (es.getD i default).doc)) = i' at hs3
  obtain ⟨hle, hlo, hhi⟩ := hs3
  have hgd : ∀ k (hk : k < es.length), (es.getD k default) = es[k] := by
    intro k hk; simp [List.getD, List.getElem?_eq_getElem hk]
  have : i' = i := by
    rcases Nat.lt_trichotomy i' i with hlt | heq | hgt
    · exfalso
      have hi' : i' < es.length := by omega
      rcases hhi with hhi | hhi
      · omega
      · simp only [decide_eq_true_eq] at hhi
        rw [hgd i' hi'] at hhi
        have := sorted_lt hs hi' hi hlt
        rw [hmi] at this; omega
    · exact heq
    · exfalso
      rcases hlo with hlo | hlo
      · omega
      · simp only [decide_eq_false_iff_not, Nat.not_le] at hlo
        have hi1 : i' - 1 < es.length := by omega
        rw [hgd (i' - 1) hi1] at hlo
        by_cases heq : i' - 1 = i
        · subst heq; rw [hmi] at hlo; omega
        · have := sorted_lt hs hi hi1 (by omega)
          rw [hmi] at this; omega
  subst this
  rw [hgd i' hi, hmi]
  simp [hi]

/-- a reader that holds exactly chunk `chunkOf d` answers EXACTLY with the document's values -/
theorem visitDocValues_clean (chunkOf : Nat → Nat) (st : DvStore) (wf : DvWF chunkOf st) (r : DvReader) (d : Nat)
    (hh : r.header = entriesOf st (chunkOf d)) (hdat : DataOK st (chunkOf d) r) :
    (r.visitDocValues d).2 = specValues chunkOf st d := by
  unfold DvReader.visitDocValues specValues
  rw [hh]
  cases hst : st (chunkOf d) with
  | none =>
    have : getDocValueLocs (entriesOf st (chunkOf d)) d = none := by
      cases hg : getDocValueLocs (entriesOf st (chunkOf d)) d with
      | none => rfl
      | some se =>
        obtain ⟨i, m, hm, _⟩ := getDocValueLocs_some (s := se.1) (e := se.2) hg
        simp [entriesOf, hst] at hm
    rw [this]
  | some c =>
    rw [entriesOf_some hst]
    simp only
    cases hidx : c.entries.findIdx? (fun m => m.doc == d) with
    | none =>
      have : getDocValueLocs c.entries d = none := by
        cases hg : getDocValueLocs c.entries d with
        | none => rfl
        | some se =>
          exfalso
          obtain ⟨i, m, hm, hdoc, _⟩ := getDocValueLocs_some (s := se.1) (e := se.2) hg
          have := List.findIdx?_eq_none_iff.mp hidx m (List.mem_of_getElem? hm)
          simp [hdoc] at this
      rw [this]
    | some i =>
      obtain ⟨hi, hdoc, _⟩ := List.findIdx?_eq_some_iff_getElem.mp hidx
      have hdoc' : c.entries[i].doc = d := by simpa using hdoc
      have hfound := getDocValueLocs_sorted c.entries (wf.sorted _ _ hst) i c.entries[i]
        (List.getElem?_eq_getElem hi)
      rw [hdoc'] at hfound
      cases hg : getDocValueLocs c.entries d with
      | none => exact absurd hg hfound
      | some se =>
        obtain ⟨s, e⟩ := se
        obtain ⟨i2, m2, hm2, hdoc2, he2, hpred⟩ := getDocValueLocs_some hg
        have hidx2 := findIdx_of_sorted c.entries (wf.sorted _ _ hst) i2 m2 hm2
        rw [hdoc2, hidx] at hidx2
        have hii : i = i2 := Option.some.inj hidx2
        subst hii
        have hend : e = (c.entries.getD i default).off := by
          simp [List.getD, hm2, he2]
        have hstart : s = (if i > 0 then (c.entries.getD (i - 1) default).off else 0) := by
          rcases hpred with ⟨hi0, hs0⟩ | ⟨hpos, m', hm', _, hs⟩
          · simp [hi0, hs0]
          · simp [hpos, List.getD, hm', hs]
        simp only
        rw [← hstart, ← hend]
        by_cases hse : s = e
        · simp [hse]
        · simp only [hse, if_false]
          have hdat' : DataOK st (chunkOf d) r := hdat
          have hu := DataOK.uncompressed hst hdat'
          generalize (if r.uncompressed.length > 0 then r
            else { r with uncompressed := r.data.getD [] }) = r2 at hu ⊢
          rw [hu]
          split <;> rfl

theorem Clean.holds {st : DvStore} {r : DvReader} {n : Nat} (h : Clean st r) (hcur : r.curChunkNum = n)
    (hn : n ≠ noChunk) : r.header = entriesOf st n ∧ DataOK st n r := by
  rcases h.2 with h | h
  · exact absurd (hcur ▸ h) hn
  · rw [hcur] at h; exact h

/-- ONE VISIT from a clean reader, any oracle: EXACTLY the document's values, or an error caused
    by a read that failed during this very call - never a spurious "nothing" -/
theorem visit_clean_exact (chunkOf : Nat → Nat) (st : DvStore) (wf : DvWF chunkOf st) (o : Oracle)
    (clk : Nat) (r : DvReader) (d : Nat) (hcl : Clean st r) (hd : chunkOf d ≠ noChunk) :
    (r.visit dV0 chunkOf st o clk d).2.2 = specValues chunkOf st d ∨
    ((r.visit dV0 chunkOf st o clk d).2.2 = .error ∧
      ∃ k, clk ≤ k ∧ k < (r.visit dV0 chunkOf st o clk d).2.1 ∧ o k = true) := by
  unfold DvReader.visit
  by_cases hmiss : chunkOf d ≠ r.curChunkNum
  · rw [if_pos hmiss]
    cases hc : st (chunkOf d) with
    | none =>
      rw [loadDvChunk_none dV0 st o clk r _ hc]
      simp only [Bool.not_true, Bool.false_eq_true, if_false]
      left
      obtain ⟨h1, h2⟩ := (emptied_clean st r _ hc hcl.1).holds rfl hd
      exact visitDocValues_clean chunkOf st wf _ d h1 h2
    | some c =>
      rcases loadDvChunk_result st o clk r (chunkOf d) c hc with ⟨ho, hL⟩ | ⟨ho, hfail, hp, k, hk1, hk2, hk3⟩ | ⟨hok, hclk, hfull⟩
      · rw [hL]
        simp only [Bool.not_false, if_true]
        right; exact ⟨by trivial, clk, Nat.le_refl _, by omega, ho⟩
      · rcases hL : r.loadDvChunk dV0 st o clk (chunkOf d) with ⟨r1, clk1, ok⟩
        rw [hL] at hfail hk2
        simp only at hfail hk2
        subst hfail
        simp only [Bool.not_false, if_true]
        right; exact ⟨by trivial, k, hk1, hk2, hk3⟩
      · have hcl1 := full_clean st r c _ _ hcl hc hfull
        have hcur := hfull.cur
        rcases hL : r.loadDvChunk dV0 st o clk (chunkOf d) with ⟨r1, clk1, ok⟩
        rw [hL] at hok hcl1 hcur
        simp only at hok hcl1 hcur
        subst hok
        simp only [Bool.not_true, Bool.false_eq_true, if_false]
        left
        obtain ⟨h1, h2⟩ := hcl1.holds hcur hd
        exact visitDocValues_clean chunkOf st wf r1 d h1 h2
  · have hcur : r.curChunkNum = chunkOf d := by
      have : ¬ ¬ chunkOf d = r.curChunkNum := hmiss
      exact (Classical.not_not.mp this).symm
    rw [if_neg hmiss]
    left
    obtain ⟨h1, h2⟩ := hcl.holds hcur hd
    exact visitDocValues_clean chunkOf st wf r d h1 h2

/-- on a healthy storage the reader stays clean and every visit returns the document's values -/
theorem run_healthy (chunkOf : Nat → Nat) (st : DvStore) (wf : DvWF chunkOf st) (ds : List Nat) :
    ∀ (clk : Nat) (r : DvReader), Clean st r → (∀ d ∈ ds, chunkOf d ≠ noChunk) →
    DvReader.run dV0 chunkOf st healthy clk r ds = ds.map (specValues chunkOf st) := by
  induction ds with
  | nil => intro _ _ _ _; rfl
  | cons d ds ih =>
    intro clk r hcl hd
    have hd0 := hd d (by simp)
    have hex := visit_clean_exact chunkOf st wf healthy clk r d hcl hd0
    have hst := visit_clean chunkOf st wf healthy clk r d hcl hd0
      (fun hp => by
        exfalso
        obtain ⟨hmiss, hne, _, hfail⟩ := hp
        cases hc : st (chunkOf d) with
        | none => exact hne hc
        | some c =>
          rcases loadDvChunk_result st healthy clk r (chunkOf d) c hc with ⟨ho, _⟩ | ⟨_, _, _, k, _, _, hk3⟩ | ⟨hok, _, _⟩
          · simp [healthy] at ho
          · simp [healthy] at hk3
          · rw [hok] at hfail; cases hfail)
    simp only [DvReader.run, List.map_cons]
    have hout : (r.visit dV0 chunkOf st healthy clk d).2.2 = specValues chunkOf st d := by
      rcases hex with h | ⟨_, k, _, _, hk⟩
      · exact h
      · simp [healthy] at hk
    have hcl' : Clean st (r.visit dV0 chunkOf st healthy clk d).1 := by
      rcases hst.2.2 with h | ⟨_, k, _, hk⟩
      · exact h
      · simp [healthy] at hk
    rw [hout, ih _ _ hcl' (fun x hx => hd x (by simp [hx]))]

theorem fresh_clean (st : DvStore) : Clean st {} :=
  ⟨fun j m h => by simp at h, Or.inl rfl⟩

end Ice.Model.CacheFault
