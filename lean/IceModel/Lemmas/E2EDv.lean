import IceModel.Lemmas.E2EShape
/-
  END-TO-END, builder path: the doc-value column of a field of `r.toLSeg mode` is the column
  `Format.dvOfTerms` derives from the field's postings - the builder's `docTermMap`
  (new.go:852-854): for every document the terms whose postings contain it, in term order.
-/
namespace Ice.Props.E2E
open Ice Ice.Spec Ice.Model Ice.Model.Builder Ice.Model.Format

theorem zipIdx_filter_rows (dtm : List (List Bytes)) : ∀ k,
    ((dtm.zipIdx k).filter (fun p => !p.1.isEmpty)).map (fun p => (p.2, p.1)) =
      (List.range' k dtm.length).filterMap (fun d =>
        if (dtm.getD (d - k) []).isEmpty then none else some (d, dtm.getD (d - k) [])) := by
  induction dtm with
  | nil => intro k; rfl
  | cons a r ih =>
    intro k
    simp only [List.zipIdx_cons, List.length_cons, List.range'_succ, List.filterMap_cons,
      List.filter_cons, Nat.sub_self, List.getD_cons_zero]
    have htail : (List.range' (k + 1) r.length).filterMap (fun d =>
        if ((a :: r).getD (d - k) []).isEmpty then none else some (d, (a :: r).getD (d - k) [])) =
        (List.range' (k + 1) r.length).filterMap (fun d =>
          if (r.getD (d - (k + 1)) []).isEmpty then none else some (d, r.getD (d - (k + 1)) [])) := by
      apply filterMap_congr''
      intro d hd
      have hd' := (List.mem_range'_1.1 hd).1
      have : d - k = (d - (k + 1)) + 1 := by omega
      rw [this, List.getD_cons_succ]
    cases ha : a.isEmpty
    · simp only [Bool.not_false, if_true, List.map_cons, Bool.false_eq_true, if_false]
      rw [ih (k + 1), htail]
    · simp only [Bool.not_true, Bool.false_eq_true, if_false, if_true]
      rw [ih (k + 1), htail]
where
  filterMap_congr'' {α β : Type} {f g : α → Option β} : ∀ {l : List α},
      (∀ a ∈ l, f a = g a) → l.filterMap f = l.filterMap g
    | [], _ => rfl
    | a :: r, h => by
      simp only [List.filterMap_cons, h a (by simp),
        filterMap_congr'' (l := r) (fun x hx => h x (by simp [hx]))]

/-- `dvOut` on a `docTermMap` of `n` rows, as a function of the rows -/
theorem dvOut_rows (dtm : List (List Bytes)) :
    dvOut true dtm = some ((List.range dtm.length).filterMap (fun d =>
      if (lget dtm d).isEmpty then none else some (d, lget dtm d))) := by
  unfold dvOut
  simp only [if_true]
  have := zipIdx_filter_rows dtm 0
  simp only [Nat.sub_zero] at this
  rw [this, List.range_eq_range']
  rfl

/-- the doc-value column of a field view is derived from its postings as `Format.dvOfTerms`
    says -/
theorem view_dv_eq (nc : Bytes → Nat → Nat) (F : List Bytes) (b : Batch) (i : Nat) (F' : List Bytes)
    (vals : List (Nat × List Bytes)) (h : (viewOf nc F b i).dv = some vals) :
    vals = dvOfTerms b.length (termsOfView F' (viewOf nc F b i)) := by
  simp only [viewOf] at h
  unfold dvOut at h
  split at h
  · rename_i hflag
    have h2 := dvOut_rows (dtmOf b.length (keysOf F b i) (fun t => (entriesOf nc F b i t).map (·.doc)))
    unfold dvOut at h2
    simp only [if_true] at h2
    rw [h2] at h
    injection h with h
    rw [← h, length_dtmOf]
    unfold dvOfTerms
    apply zipIdx_filter_rows.filterMap_congr''
    intro d _
    have hrow := dtmOf_get b.length (keysOf F b i) (fun t => (entriesOf nc F b i t).map (·.doc))
      (fun t _ => pairwise_lt_nodup (docs_entriesOf_asc nc F b i t).1)
      (fun t _ => (docs_entriesOf_asc nc F b i t).2) d
    have hts : ((termsOfView F' (viewOf nc F b i)).filter
        (fun t => t.2.entries.any (fun e => e.doc == d))).map (·.1) =
        (keysOf F b i).filter (fun t => decide (d ∈ (entriesOf nc F b i t).map (·.doc))) := by
      simp only [termsOfView, viewOf, List.map_map, List.filter_map]
      have hid : ((fun x : Bytes × TermDesc => x.1) ∘ ((fun e : Bytes × List Posting =>
          (e.1, TermDesc.general (e.2.map (postingToE F')))) ∘ fun t => (t, entriesOf nc F b i t))) = id := by
        funext t; rfl
      rw [hid, List.map_id]
      apply List.filter_congr
      intro t _
      simp only [Function.comp, TermDesc.entries]
      rw [Bool.eq_iff_iff]
      simp only [List.any_eq_true, List.mem_map, beq_iff_eq, decide_eq_true_eq]
      constructor
      · rintro ⟨e, ⟨p, hp, rfl⟩, he⟩
        exact ⟨p, hp, he⟩
      · rintro ⟨p, hp, he⟩
        exact ⟨postingToE F' p, ⟨p, hp, rfl⟩, he⟩
    simp only [hrow, hts]
  · cases h

section
variable {nc : Bytes → Nat → Nat} {π : Order} {b : Batch} {r : Built}
  (hv : ValidBatch b) (hπ : PermOK π) (hrun : run nc π b = .ok r) (mode : Nat)
include hv hπ hrun

/-- **the doc-value column of every field of `r.toLSeg mode` is `Format.dvOfTerms` of its terms** -/
theorem toLSeg_dv {fd : FieldDesc} (hfd : fd ∈ (r.toLSeg mode).fields)
    (vals : List (Nat × List Bytes)) (h : fd.dv = some vals) :
    vals = dvOfTerms (r.toLSeg mode).numDocs fd.terms := by
  obtain ⟨i, f, hf, hfi⟩ := toLSeg_field_mem hv hπ hrun mode hfd
  obtain ⟨hd, _, _, _⟩ := dict_at hv hπ hrun mode hf
  have hfe := fields_eq hv hπ hrun mode
  have hfd' : (r.toLSeg mode).fields[i]? = some (fieldDescOf r f i) := by
    simp only [Built.toLSeg, List.getElem?_map, List.getElem?_zipIdx, hfe, hf, Option.map_some,
      Nat.zero_add]
  rw [hfd'] at hfi
  injection hfi with hfi
  subst hfi
  simp only [fieldDescOf, hd] at h ⊢
  rw [toLSeg_numDocs hv hπ hrun mode]
  exact view_dv_eq nc (FL b) b i r.fields vals h

end

end Ice.Props.E2E
