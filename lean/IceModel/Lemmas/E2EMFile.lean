import IceModel.Lemmas.E2EMClose
/-
  END-TO-END, second generation on the level of FILES: what the merge models read of a segment
  that was written from a valid description `L` laying out `S` and loaded back -

    * the stored part:   `⟨ld.fieldsInv, ld.storedSeg⟩` is the `Src` of the input `MIn.ofLSeg S d L`
                         (`loaded_src`), for the bytes that follow the stored section in the file;
    * the doc values:    the segment's data and `fieldDvReaders[fieldsMap[f]-1]` form a `DvSpec`
                         that is OK and reads the column of `MIn.ofLSeg S d L` (`loaded_dvFile`);
    * the dictionaries:  `dictKeys (dictionaryOf …) = Spec.terms S f` is part of `ReadsAsM`; the
                         merge-loop model takes the dictionary as `absDict S f`.
-/
namespace Ice.Props.E2EM
open Ice Ice.Spec Ice.Model Ice.Model.Format
open Ice.Model.MergeRest (Src DvSpec DvSeg dvReaderOf setupFocus dvField buildMergedDocVals)
open Ice.Model.MergeLoop (idxOf?_spec)
open Ice.Model.DocValues (encVals)
open Ice.Model.Writer (Footer)
open Ice.Props.E2E

section
variable {K : Codecs} {S : AbsSeg} {L : LSeg} (hV : C04.Valid K L) (hL : Lays S L) (hA : AbsOK S)
  {data : Bytes} {ft : Footer} (hs : serialize K L = .ok (data, ft)) (mem : Bool)
  {ld : Loaded} (hl : load mem (fileOf K data ft) = .ok ld)

include hV hL hs hl in
/-- what `mergeStoredAndRemap` reads of the loaded segment is the `Src` of the merge input -/
theorem loaded_src (drops : List Nat) :
    ∃ tail, ({ fields := ld.fieldsInv, seg := ld.storedSeg } : Src) =
      ((MIn.ofLSeg S drops L).sIn tail).src K.stored docBlock := by
  obtain ⟨ld', tail, hl', _, hseg, _, _⟩ := C04.C04_stored K L hV data ft hs mem
  rw [hl] at hl'
  injection hl' with hl'
  subst hl'
  obtain ⟨hfi, _⟩ := lays_fields' hV hL hs mem hl
  have hlen : L.fields.length = S.fields.length := by
    have := congrArg List.length hL.names
    simpa using this
  refine ⟨tail, ?_⟩
  unfold C02Stored.Input.src MIn.sIn MIn.ofLSeg
  simp only
  rw [hfi, hseg, hlen]
where
  lays_fields' {K : Codecs} {S : AbsSeg} {L : LSeg} (hV : C04.Valid K L) (hL : Lays S L)
      {data : Bytes} {ft : Footer} (hs : serialize K L = .ok (data, ft)) (mem : Bool)
      {ld : Loaded} (hl : load mem (fileOf K data ft) = .ok ld) :
      ld.fieldsInv = S.fields ∧ ld.data = { bytes := data, mem := mem } := by
    obtain ⟨ld', hl', hdata, _, _, _, hfi, _⟩ := C04.C04_fields K L hV data ft hs mem
    rw [hl] at hl'
    injection hl' with hl'
    subst hl'
    exact ⟨by rw [hfi, hL.names], hdata⟩

include hV hL hA hs hl in
/-- what `buildMergedDocVals` reads of the loaded segment for field `f` - its data and
    `fieldDvReaders[fieldsMap[f]-1]` - is a reader on the column of the merge input (or none) -/
theorem loaded_dvFile (drops : List Nat) (f : Bytes) :
    ∃ sp : DvSpec, sp.seg.data = ld.data ∧
      sp.seg.reader = dvReaderOf ld.fieldsInv ld.dvReaders f ∧
      DvFileOK K f (MIn.ofLSeg S drops L) sp := by
  obtain ⟨hfi, hdata⟩ := loaded_src.lays_fields' hV hL hs mem hl
  obtain ⟨mid, dictLocs, rs, hw, hl', hrl, hz, hp⟩ := C04.load_written hV hs mem
  rw [hl] at hl'
  injection hl' with hl'
  subst hl'
  have hlen : L.fields.length = S.fields.length := by
    have := congrArg List.length hL.names
    simpa using this
  have hrd : (C04.loadedSeg K L data ft mem dictLocs rs).dvReaders = rs := rfl
  -- a spec without column: no reader
  have hnone : ∀ (r : Option DocValues.Reader), r = none → (MIn.ofLSeg S drops L).dvCol f = none →
      dvReaderOf (C04.loadedSeg K L data ft mem dictLocs rs).fieldsInv rs f = r →
      ∃ sp : DvSpec, sp.seg.data = (C04.loadedSeg K L data ft mem dictLocs rs).data ∧
        sp.seg.reader = dvReaderOf (C04.loadedSeg K L data ft mem dictLocs rs).fieldsInv
          (C04.loadedSeg K L data ft mem dictLocs rs).dvReaders f ∧
        DvFileOK K f (MIn.ofLSeg S drops L) sp := by
    intro r hr hcol hrd'
    refine ⟨{ seg := { data := (C04.loadedSeg K L data ft mem dictLocs rs).data, reader := none },
              cs := dvChunk, maxDocNum := 0, pre := [], suf := [], col := none }, rfl, ?_, ?_⟩
    · rw [hrd, hrd', hr]
    · exact ⟨rfl, by rw [hcol]; rfl, by intro vals hv; cases hv⟩
  cases hi : S.fields.idxOf? f with
  | none =>
    have hcol : (MIn.ofLSeg S drops L).dvCol f = none := by
      unfold MIn.ofLSeg; simp only [hi]
    exact hnone none rfl hcol (by unfold dvReaderOf; rw [hfi, hi])
  | some i =>
    have hf : S.fields[i]? = some f := idxOf?_some_mem hi
    obtain ⟨fd, hfd, _⟩ := dvColOK_ofLSeg.lays_field_mem' hL hf
    have hcol : (MIn.ofLSeg S drops L).dvCol f = fd.dv := by
      unfold MIn.ofLSeg; simp only [hi, hfd, Option.bind_some]
    have hreader : dvReaderOf (C04.loadedSeg K L data ft mem dictLocs rs).fieldsInv rs f =
        (rs[i]?).join := by
      unfold dvReaderOf; rw [hfi, hi]
    by_cases hnd : 0 < L.numDocs
    · obtain ⟨r, hr, hrn, hrs⟩ := hp hnd i fd hfd
      cases hfdv : fd.dv with
      | none =>
        rw [hfdv] at hcol
        exact hnone none rfl hcol (by rw [hreader, hr, hrn hfdv]; rfl)
      | some vals =>
        rw [hfdv] at hcol
        obtain ⟨r0, rfl, ⟨pre, sec, suf, s, e, hwf, hfile, hsuf, hload⟩⟩ := hrs vals hfdv
        have hcv := (hV.fields fd (List.mem_of_getElem? hfd)).2.2.2.2.2 vals hfdv
        -- the column the reader reads is the encoded column of the description
        have hfed : C07.fed (dvMode L.merger) vals = encVals vals := by
          unfold dvMode
          cases hm : L.merger with
          | true => rfl
          | false =>
            simp only [Bool.false_eq_true, if_false, C07.fed]
            rw [List.filter_eq_self]
            intro p hp'
            unfold encVals at hp'
            obtain ⟨q, hq, rfl⟩ := List.mem_map.1 hp'
            have hne := hL.dvNonempty hm fd (List.mem_of_getElem? hfd) vals hfdv q hq
            cases hts : q.2 with
            | nil => exact absurd hts hne
            | cons t r =>
              simp only [DocValues.docBytes, List.flatMap_cons, List.length_append,
                List.length_cons, decide_eq_true_eq]
              omega
        rw [C07.writeField_eq (dvMode L.merger) K.dv hcv pre.length, hfed] at hwf
        simp only [Res.ok.injEq, Prod.mk.injEq] at hwf
        obtain ⟨h1, h2, h3⟩ := hwf
        subst h1; subst h2; subst h3
        have hvv := C07.validVals_encVals hcv
        have hdd : data = pre ++ DocValues.sectionOf (DocValues.chunksOf K.dv dvChunk
            ((L.numDocs - 1) / dvChunk + 1) (encVals vals)) ++ suf := hfile
        have hlenf : (pre ++ DocValues.sectionOf (DocValues.chunksOf K.dv dvChunk
            ((L.numDocs - 1) / dvChunk + 1) (encVals vals)) ++ suf).length < 2 ^ 63 := by
          rw [← hdd]
          have := hw.len
          omega
        obtain ⟨r0', hload', hok'⟩ := C02Stored.D_written_ok K.dv hvv pre suf mem hsuf hlenf
        rw [← hdd] at hload' hok'
        rw [hload] at hload'
        injection hload' with hload'
        injection hload' with hload'
        subst hload'
        refine ⟨_, rfl, ?_, hok', ?_, ?_⟩
        · show some r0 = _
          rw [hrd, hreader, hr]; rfl
        · show some (encVals vals) = _
          rw [hcol]; rfl
        · intro vals' _
          show L.numDocs - 1 < S.docs.length
          rw [← hL.numDocs]; omega
    · have h0 : L.numDocs = 0 := by omega
      have hdv := (hL.empty h0 fd (List.mem_of_getElem? hfd)).1
      rw [hdv] at hcol
      refine hnone ((rs[i]?).join) ?_ hcol hreader
      cases hri : rs[i]? with
      | none => rfl
      | some r =>
        have := hz h0 r (List.mem_of_getElem? hri)
        rw [this]; rfl

end

/-! ### `dvField` only looks at the focus flags and the doc-value views of the segments -/

theorem setupFocus_canon {α β : Type} (p : α → Bool) (nums : List β) :
    ∀ (l : List α) (k : Nat),
    setupFocus p nums (l.zipIdx k) =
      (setupFocus (fun b : Bool => b) nums ((l.map p).zipIdx k) >>= fun r =>
        Res.ok (r.1, (l.zipIdx k).filterMap fun x => if p x.1 then some x.1 else none)) := by
  intro l
  induction l with
  | nil => intro k; rfl
  | cons a r ih =>
    intro k
    simp only [List.zipIdx_cons, List.map_cons, setupFocus, List.filterMap_cons]
    cases hp : p a with
    | false =>
      simp only [Bool.false_eq_true, if_false]
      exact ih (k + 1)
    | true =>
      simp only [if_true]
      cases nums[k]? with
      | none => rfl
      | some m =>
        simp only
        rw [ih (k + 1)]
        cases setupFocus (fun b : Bool => b) nums ((List.map p r).zipIdx (k + 1)) <;> rfl

/-- two lists of segments with the same focus flags and the same doc-value views give the same
    result -/
theorem dvField_congr {α β : Type} (z : DocValues.Codec) (cs n count : Nat)
    (l₁ : List α) (p₁ : α → Bool) (q₁ : α → DvSeg) (l₂ : List β) (p₂ : β → Bool) (q₂ : β → DvSeg)
    (nums : List (List Nat)) (hp : l₁.map p₁ = l₂.map p₂) (hq : l₁.map q₁ = l₂.map q₂) :
    dvField z cs n count l₁ p₁ q₁ nums = dvField z cs n count l₂ p₂ q₂ nums := by
  have key : ∀ {γ : Type} (l : List γ) (p : γ → Bool) (q : γ → DvSeg),
      dvField z cs n count l p q nums =
        (setupFocus (fun b : Bool => b) nums ((l.map p).zipIdx 0) >>= fun r =>
          buildMergedDocVals z cs n count
            (((l.map p).zip (l.map q)).filterMap fun x => if x.1 then some x.2 else none) r.1) := by
    intro γ l p q
    unfold dvField
    rw [setupFocus_canon p nums l 0]
    have hfm : ∀ (k : Nat), ((l.zipIdx k).filterMap fun x => if p x.1 then some x.1 else none).map q =
        ((l.map p).zip (l.map q)).filterMap fun x => if x.1 then some x.2 else none := by
      induction l with
      | nil => intro k; rfl
      | cons a r ih =>
        intro k
        simp only [List.zipIdx_cons, List.filterMap_cons, List.map_cons, List.zip_cons_cons]
        cases p a with
        | false => simpa using ih (k + 1)
        | true => simpa using ih (k + 1)
    cases setupFocus (fun b : Bool => b) nums ((List.map p l).zipIdx 0) with
    | ok r =>
      show buildMergedDocVals z cs n count (List.map q _) r.1 = buildMergedDocVals z cs n count _ r.1
      rw [hfm 0]
    | err => rfl
    | panic => rfl
  rw [key l₁ p₁ q₁, key l₂ p₂ q₂, hp, hq]

end Ice.Props.E2EM
