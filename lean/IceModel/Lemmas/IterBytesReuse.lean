import IceModel.Lemmas.IterBytesMk
/-
  Reuse without any assumption on the bytes: two iterator states that differ only in what no code
  path reads before overwriting it (stale tails of the reused arrays, the capacity of `nextLocs`,
  a nil `memUvarintReader` versus one on the nil slice, decoders behind a flag that is off) behave
  identically under every operation - same answers, same errors, same panics.  A reused and a
  fresh iterator are related in this way, whatever `data` holds.
-/
namespace Ice.Model.IterBytes
open Ice Ice.Spec Ice.Model Ice.Model.ChunkBytes
open Ice.Model.Iter (RFlags It)

/-! ### relating two `Res` computations -/

def ResRel {α β : Type} (R : α → β → Prop) : Res α → Res β → Prop
  | .ok a, .ok b => R a b
  | .err, .err => True
  | .panic, .panic => True
  | _, _ => False

theorem ResRel.bind {α β γ δ : Type} {R : α → β → Prop} {S : γ → δ → Prop} {x : Res α} {y : Res β}
    {f : α → Res γ} {g : β → Res δ} (h : ResRel R x y) (hfg : ∀ a b, R a b → ResRel S (f a) (g b)) :
    ResRel S (x >>= f) (y >>= g) := by
  cases x <;> cases y <;> simp_all [ResRel]

theorem ResRel.refl_eq {α : Type} (x : Res α) : ResRel Eq x x := by
  cases x <;> simp [ResRel]

theorem ResRel.of_eq {α : Type} {x y : Res α} (h : x = y) : ResRel Eq x y := by
  rw [h]; exact ResRel.refl_eq y

theorem ResRel.eq {α : Type} {x y : Res α} (h : ResRel Eq x y) : x = y := by
  cases x <;> cases y <;> simp_all [ResRel]

/-! ### the relation -/

/-- no reader, or a reader on the nil slice: every read through it panics -/
def deadR (r : Option Rd) : Prop := r = none ∨ r = some ⟨[], 0⟩

/-- decoders that agree on everything that is read: the parsed offsets, the data pointer, the
    loaded chunk, the reader (or both readers dead).  `offsTail`, `uncompressed`, `uncTail` are
    free. -/
structure DecEq (a b : DecB) : Prop where
  d : a.d = b.d
  dataNil : a.dataNil = b.dataNil
  cur : a.curChunkBytes = b.curChunkBytes
  r : a.r = b.r ∨ (deadR a.r ∧ deadR b.r)

def SlotEq : Option DecB → Option DecB → Prop
  | none, none => True
  | some a, some b => DecEq a b
  | _, _ => False

/-- iterator states that agree on everything that is read; a decoder slot behind a flag that is
    off, `nextLocsCap` and the postings-list fields (used only by the constructor) are free -/
structure ItEq (a b : ItB) : Prop where
  cs : a.cs = b.cs
  finv : a.fieldsInv = b.fieldsInv
  all : a.all = b.all
  act : a.act = b.act
  clean : a.clean = b.clean
  cur : a.currChunk = b.currChunk
  fl : a.fl = b.fl
  fn : a.fl.incFN = true → SlotEq a.fnR b.fnR
  lc : a.fl.incL = true → SlotEq a.lcR b.lcR

/-- reading through the readers of two related decoders -/
theorem rd_rel {a b : DecB} (h : DecEq a b) {γ δ : Type} {S : γ → δ → Prop} {f : Rd → Res γ}
    {g : Rd → Res δ} (hfg : ∀ r, ResRel S (f r) (g r)) (hf : f ⟨[], 0⟩ = .panic)
    (hg : g ⟨[], 0⟩ = .panic) : ResRel S (a.rd >>= f) (b.rd >>= g) := by
  rcases h.r with he | ⟨ha, hb⟩
  · unfold DecB.rd
    rw [he]
    cases b.r with
    | none => simp [ResRel]
    | some r => simpa using hfg r
  · have h1 : (a.rd >>= f) = .panic := by
      unfold DecB.rd
      rcases ha with ha | ha <;> rw [ha] <;> simp [hf]
    have h2 : (b.rd >>= g) = .panic := by
      unfold DecB.rd
      rcases hb with hb | hb <;> rw [hb] <;> simp [hg]
    rw [h1, h2]; simp [ResRel]

/-! ### the decoders -/

theorem loadChunk_rel (K : Codec) {a b : DecB} (h : DecEq a b) (c : Nat) :
    ResRel DecEq (a.loadChunk K c) (b.loadChunk K c) := by
  unfold DecB.loadChunk
  rw [h.d, h.dataNil]
  by_cases h0 : b.d.startOffset = 0
  · simp only [h0, if_true, ResRel]
    exact ⟨rfl, rfl, h.cur, Or.inl rfl⟩
  · simp only [h0, if_false]
    by_cases hge : c ≥ b.d.chunkOffsets.length
    · simp [hge, ResRel]
    · simp only [hge, if_false]
      cases b.dataNil with
      | true => simp [ResRel]
      | false =>
        simp only [Bool.false_eq_true, if_false]
        cases Decoder.loadChunk K b.d c with
        | err => simp [ResRel]
        | panic => simp [ResRel]
        | ok bytes =>
          simp only [ResRel]
          exact ⟨rfl, rfl, rfl, Or.inl rfl⟩

theorem optLoad_rel (K : Codec) (on : Bool) {x y : Option DecB} (h : on = true → SlotEq x y) (c : Nat) :
    ResRel (fun x' y' => on = true → SlotEq x' y') (optLoad K on x c) (optLoad K on y c) := by
  unfold optLoad
  cases on with
  | false => simp [ResRel]
  | true =>
    simp only [if_true]
    have hs := h rfl
    cases x with
    | none =>
      cases y with
      | none => simp [ResRel]
      | some _ => exact absurd hs (by simp [SlotEq])
    | some a =>
      cases y with
      | none => exact absurd hs (by simp [SlotEq])
      | some b =>
        have hd : DecEq a b := hs
        apply ResRel.bind (loadChunk_rel K hd c)
        intro a' b' hab
        simp only [ResRel]
        exact fun _ => hab

/-- related successors that keep the flags of `a` -/
def Rel (a : ItB) : ItB → ItB → Prop := fun a' b' => ItEq a' b' ∧ a'.fl = a.fl

theorem ResRel.mono {α β : Type} {R S : α → β → Prop} {x : Res α} {y : Res β} (h : ResRel R x y)
    (hRS : ∀ a b, R a b → S a b) : ResRel S x y := by
  cases x <;> cases y <;> simp_all [ResRel]

theorem loadChunkB_rel (K : Codec) {a b : ItB} (h : ItEq a b) (c : Nat) :
    ResRel (Rel a) (loadChunkB K a c) (loadChunkB K b c) := by
  unfold loadChunkB
  rw [← h.fl]
  apply ResRel.bind (optLoad_rel K a.fl.incFN h.fn c)
  intro f1 f2 hf
  apply ResRel.bind (optLoad_rel K a.fl.incL h.lc c)
  intro l1 l2 hl
  simp only [pure_eq_ok, ResRel]
  exact ⟨⟨h.cs, h.finv, h.all, h.act, h.clean, rfl, rfl, hf, hl⟩, rfl⟩

theorem slot_some {x y : Option DecB} (h : SlotEq x y) :
    (x = none ∧ y = none) ∨ ∃ a b, x = some a ∧ y = some b ∧ DecEq a b := by
  cases x with
  | none =>
    cases y with
    | none => exact Or.inl ⟨rfl, rfl⟩
    | some _ => exact absurd h (by simp [SlotEq])
  | some a =>
    cases y with
    | none => exact absurd h (by simp [SlotEq])
    | some b => exact Or.inr ⟨a, b, rfl, rfl, h⟩

theorem needLoadB_rel {a b : ItB} (h : ItEq a b) (hfn : a.fl.incFN = true) (c : Nat) :
    needLoadB a c = needLoadB b c := by
  unfold needLoadB
  rw [← h.cur]
  rcases slot_some (h.fn hfn) with ⟨h1, h2⟩ | ⟨x, y, h1, h2, hd⟩
  · rw [h1, h2]
  · rw [h1, h2]
    simp only [DecB.isNil, hd.cur]

theorem ensureB_rel (K : Codec) {a b : ItB} (h : ItEq a b) (hfn : a.fl.incFN = true) (c : Nat) :
    ResRel (Rel a) (ensureB K a c) (ensureB K b c) := by
  unfold ensureB
  rw [needLoadB_rel h hfn c]
  cases needLoadB b c with
  | err => simp [ResRel]
  | panic => simp [ResRel]
  | ok nl =>
    simp only [ok_bind]
    cases nl with
    | true => simpa using loadChunkB_rel K h c
    | false =>
      simp only [Bool.false_eq_true, if_false, pure_eq_ok, ResRel]
      exact ⟨h, rfl⟩

theorem consumeB_rel {a b : ItB} (h : ItEq a b) (hfn : a.fl.incFN = true) :
    ResRel (Rel a) (consumeB a) (consumeB b) := by
  unfold consumeB
  rcases slot_some (h.fn hfn) with ⟨h1, h2⟩ | ⟨fa, fb, h1, h2, hd⟩
  · rw [h1, h2]; simp [ResRel]
  · rw [h1, h2]
    simp only
    apply rd_rel hd
    · intro r
      apply ResRel.bind (ResRel.refl_eq (skipFreqNormReadHasLocs r))
      intro p q hpq
      subst hpq
      obtain ⟨hasLocs, r'⟩ := p
      simp only
      have hflL : b.fl.incL = a.fl.incL := by rw [h.fl]
      rw [hflL]
      have hd' : DecEq { fa with r := some r' } { fb with r := some r' } :=
        ⟨hd.d, hd.dataNil, hd.cur, Or.inl rfl⟩
      have hi : ItEq { a with fnR := some { fa with r := some r' } }
          { b with fnR := some { fb with r := some r' } } :=
        ⟨h.cs, h.finv, h.all, h.act, h.clean, h.cur, h.fl, fun _ => hd', h.lc⟩
      cases hc : (a.fl.incL && hasLocs) with
      | false =>
        simp only [Bool.false_eq_true, if_false, pure_eq_ok, ResRel]
        exact ⟨hi, rfl⟩
      | true =>
        simp only [if_true]
        have hl : a.fl.incL = true := by
          cases hh : a.fl.incL with
          | true => rfl
          | false => rw [hh] at hc; simp at hc
        rcases slot_some (h.lc hl) with ⟨g1, g2⟩ | ⟨la, lb, g1, g2, hld⟩
        · rw [g1, g2]; simp [ResRel]
        · rw [g1, g2]
          simp only
          apply rd_rel hld
          · intro lr
            apply ResRel.bind (ResRel.refl_eq (skipLocs lr))
            intro p q hpq
            subst hpq
            simp only [pure_eq_ok, ResRel]
            exact ⟨⟨h.cs, h.finv, h.all, h.act, h.clean, h.cur, h.fl, fun _ => hd',
              fun _ => ⟨hld.d, hld.dataNil, hld.cur, Or.inl rfl⟩⟩, rfl⟩
          · rfl
          · rfl
    · rfl
    · rfl

theorem currChunkNextB_rel (K : Codec) {a b : ItB} (h : ItEq a b) (hfn : a.fl.incFN = true) (c : Nat) :
    ResRel (Rel a) (currChunkNextB K a c) (currChunkNextB K b c) := by
  unfold currChunkNextB
  apply ResRel.bind (ensureB_rel K h hfn c)
  intro a' b' h'
  apply (consumeB_rel h'.1 (by rw [h'.2]; exact hfn)).mono
  intro a'' b'' h''
  exact ⟨h''.1, h''.2.trans h'.2⟩

theorem repeatSkipB_rel (K : Codec) (c : Nat) : ∀ (k : Nat) {a b : ItB}, ItEq a b → a.fl.incFN = true →
    ResRel (Rel a) (repeatSkipB K k a c) (repeatSkipB K k b c) := by
  intro k
  induction k with
  | zero => intro a b h _; simp only [repeatSkipB, ResRel]; exact ⟨h, rfl⟩
  | succ k ih =>
    intro a b h hfn
    rw [repeatSkipB, repeatSkipB]
    have h1 := currChunkNextB_rel K h hfn c
    cases ha : currChunkNextB K a c with
    | err => rw [ha] at h1; cases hb : currChunkNextB K b c <;> rw [hb] at h1 <;> simp_all [ResRel]
    | panic => rw [ha] at h1; cases hb : currChunkNextB K b c <;> rw [hb] at h1 <;> simp_all [ResRel]
    | ok a' =>
      rw [ha] at h1
      cases hb : currChunkNextB K b c with
      | err => rw [hb] at h1; simp [ResRel] at h1
      | panic => rw [hb] at h1; simp [ResRel] at h1
      | ok b' =>
        rw [hb] at h1
        have h1' : Rel a a' b' := h1
        simp only
        apply (ih h1'.1 (by rw [h1'.2]; exact hfn)).mono
        intro a'' b'' h''
        exact ⟨h''.1, h''.2.trans h1'.2⟩

theorem exclLoopB_rel (K : Codec) (n nChunk : Nat) : ∀ (rest : List Nat) {a b : ItB} (allN : Nat),
    ItEq a b →
    ResRel (fun x y => Rel a x.1 y.1 ∧ x.2 = y.2) (exclLoopB K n nChunk a allN rest)
      (exclLoopB K n nChunk b allN rest) := by
  intro rest
  induction rest with
  | nil =>
    intro a b allN h
    rw [exclLoopB, exclLoopB]
    by_cases hn : (allN == n) = true
    · simp only [hn, if_true, ResRel]; exact ⟨⟨h, rfl⟩, trivial⟩
    · simp only [hn]
      rw [← h.fl, ← h.cs]
      cases hc : (a.fl.incFN && decide (allN ≥ nChunk * a.cs)) with
      | false => simp [ResRel]
      | true =>
        simp only [if_true]
        have hfn : a.fl.incFN = true := by
          cases hh : a.fl.incFN with
          | true => rfl
          | false => rw [hh] at hc; simp at hc
        have h1 := currChunkNextB_rel K h hfn nChunk
        cases ha : currChunkNextB K a nChunk <;> cases hb : currChunkNextB K b nChunk <;>
          rw [ha, hb] at h1 <;> simp_all [ResRel]
  | cons x r ih =>
    intro a b allN h
    rw [exclLoopB, exclLoopB]
    by_cases hn : (allN == n) = true
    · simp only [hn, if_true, ResRel]; exact ⟨⟨h, rfl⟩, trivial⟩
    · simp only [hn]
      rw [← h.fl, ← h.cs]
      cases hc : (a.fl.incFN && decide (allN ≥ nChunk * a.cs)) with
      | false =>
        simp only [Bool.false_eq_true, if_false]
        exact ih x h
      | true =>
        simp only [if_true]
        have hfn : a.fl.incFN = true := by
          cases hh : a.fl.incFN with
          | true => rfl
          | false => rw [hh] at hc; simp at hc
        have h1 := currChunkNextB_rel K h hfn nChunk
        cases ha : currChunkNextB K a nChunk with
        | err => rw [ha] at h1; cases hb : currChunkNextB K b nChunk <;> rw [hb] at h1 <;> simp_all [ResRel]
        | panic => rw [ha] at h1; cases hb : currChunkNextB K b nChunk <;> rw [hb] at h1 <;> simp_all [ResRel]
        | ok a' =>
          rw [ha] at h1
          cases hb : currChunkNextB K b nChunk with
          | err => rw [hb] at h1; simp [ResRel] at h1
          | panic => rw [hb] at h1; simp [ResRel] at h1
          | ok b' =>
            rw [hb] at h1
            have h1' : Rel a a' b' := h1
            simp only
            apply (ih x h1'.1).mono
            intro p q hpq
            exact ⟨⟨hpq.1.1, hpq.1.2.trans h1'.2⟩, hpq.2⟩

/-! ### `nextDocB` in three pieces -/

def ndCleanNoFN (i : ItB) (d : Nat) : Res (Option Nat × ItB) :=
  match i.act.dropWhile (· < d) with
  | [] => .ok (none, { i with act := [], all := [] })
  | n :: r => .ok (some n, { i with act := r, all := r })

def ndCleanFN (K : Codec) (i : ItB) (d n0 : Nat) (r0 : List Nat) : Res (Option Nat × ItB) :=
  match cleanLoopB i.cs d n0 (n0 / i.cs) 0 r0 with
  | (n, nChunk, same, rest) =>
    if n < d then .ok (none, { i with act := rest, all := rest })
    else
      match repeatSkipB K same { i with act := rest, all := rest } nChunk with
      | .ok i =>
        (match ensureB K i nChunk with
         | .ok i => .ok (some n, i)
         | .err => .err
         | .panic => .panic)
      | .err => .err
      | .panic => .panic

def ndExcl (K : Codec) (i : ItB) (d : Nat) : Res (Option Nat × ItB) :=
  match i.act.dropWhile (· < d) with
  | [] => .ok (none, { i with act := [] })
  | n :: r =>
    match i.all with
    | [] => .panic
    | allN :: arest =>
      match exclLoopB K n (n / i.cs) { i with act := r } allN arest with
      | .ok (j, arest') =>
        if j.fl.incFN then
          (match ensureB K { j with all := arest' } (n / i.cs) with
           | .ok i => .ok (some n, i)
           | .err => .err
           | .panic => .panic)
        else .ok (some n, { j with all := arest' })
      | .err => .err
      | .panic => .panic

theorem nextDocB_dispatch (K : Codec) (i : ItB) (d : Nat) :
    nextDocB K i d =
      match i.act with
      | [] => .ok (none, i)
      | n0 :: r0 =>
        if i.clean then (if !i.fl.incFN then ndCleanNoFN i d else ndCleanFN K i d n0 r0)
        else ndExcl K i d := by
  unfold nextDocB ndCleanNoFN ndCleanFN ndExcl
  rfl

/-- the relation on the results of `nextDocB` / `deliverB` / `stepB` -/
def RelOut {α : Type} (a : ItB) : α × ItB → α × ItB → Prop :=
  fun x y => x.1 = y.1 ∧ Rel a x.2 y.2

theorem ItEq.setActAll {a b : ItB} (h : ItEq a b) (x y : List Nat) :
    ItEq { a with act := x, all := y } { b with act := x, all := y } :=
  ⟨h.cs, h.finv, rfl, rfl, h.clean, h.cur, h.fl, h.fn, h.lc⟩

theorem ItEq.setAct {a b : ItB} (h : ItEq a b) (x : List Nat) :
    ItEq { a with act := x } { b with act := x } :=
  ⟨h.cs, h.finv, h.all, rfl, h.clean, h.cur, h.fl, h.fn, h.lc⟩

theorem ItEq.setAll {a b : ItB} (h : ItEq a b) (x : List Nat) :
    ItEq { a with all := x } { b with all := x } :=
  ⟨h.cs, h.finv, rfl, h.act, h.clean, h.cur, h.fl, h.fn, h.lc⟩

theorem ndCleanNoFN_rel {a b : ItB} (h : ItEq a b) (d : Nat) :
    ResRel (RelOut a) (ndCleanNoFN a d) (ndCleanNoFN b d) := by
  unfold ndCleanNoFN
  have e1 : b.act.dropWhile (· < d) = a.act.dropWhile (· < d) := by rw [h.act]
  rw [e1]
  cases a.act.dropWhile (· < d) with
  | nil => exact ⟨rfl, h.setActAll [] [], rfl⟩
  | cons n r => exact ⟨rfl, h.setActAll r r, rfl⟩

theorem ndCleanFN_rel (K : Codec) {a b : ItB} (h : ItEq a b) (hfn : a.fl.incFN = true) (d n0 : Nat)
    (r0 : List Nat) : ResRel (RelOut a) (ndCleanFN K a d n0 r0) (ndCleanFN K b d n0 r0) := by
  unfold ndCleanFN
  have e1 : cleanLoopB b.cs d n0 (n0 / b.cs) 0 r0 = cleanLoopB a.cs d n0 (n0 / a.cs) 0 r0 := by
    rw [h.cs]
  rw [e1]
  rcases cleanLoopB a.cs d n0 (n0 / a.cs) 0 r0 with ⟨n, nChunk, same, rest⟩
  simp only
  by_cases hnd : n < d
  · simp only [hnd, if_true]
    exact ⟨rfl, h.setActAll rest rest, rfl⟩
  · simp only [hnd, if_false]
    have h1 := repeatSkipB_rel K nChunk same (h.setActAll rest rest) hfn
    cases ha : repeatSkipB K same { a with act := rest, all := rest } nChunk with
    | err =>
      rw [ha] at h1
      cases hb : repeatSkipB K same { b with act := rest, all := rest } nChunk <;> rw [hb] at h1 <;>
        simp_all [ResRel]
    | panic =>
      rw [ha] at h1
      cases hb : repeatSkipB K same { b with act := rest, all := rest } nChunk <;> rw [hb] at h1 <;>
        simp_all [ResRel]
    | ok a' =>
      rw [ha] at h1
      cases hb : repeatSkipB K same { b with act := rest, all := rest } nChunk with
      | err => rw [hb] at h1; simp [ResRel] at h1
      | panic => rw [hb] at h1; simp [ResRel] at h1
      | ok b' =>
        rw [hb] at h1
        have h1' : Rel { a with act := rest, all := rest } a' b' := h1
        have hfl' : a'.fl = a.fl := h1'.2
        simp only
        have h2 := ensureB_rel K h1'.1 (by rw [hfl']; exact hfn) nChunk
        cases ha2 : ensureB K a' nChunk with
        | err =>
          rw [ha2] at h2
          cases hb2 : ensureB K b' nChunk <;> rw [hb2] at h2 <;> simp_all [ResRel]
        | panic =>
          rw [ha2] at h2
          cases hb2 : ensureB K b' nChunk <;> rw [hb2] at h2 <;> simp_all [ResRel]
        | ok a'' =>
          rw [ha2] at h2
          cases hb2 : ensureB K b' nChunk with
          | err => rw [hb2] at h2; simp [ResRel] at h2
          | panic => rw [hb2] at h2; simp [ResRel] at h2
          | ok b'' =>
            rw [hb2] at h2
            have h2' : Rel a' a'' b'' := h2
            exact ⟨rfl, h2'.1, h2'.2.trans hfl'⟩

theorem ndExcl_rel (K : Codec) {a b : ItB} (h : ItEq a b) (d : Nat) :
    ResRel (RelOut a) (ndExcl K a d) (ndExcl K b d) := by
  unfold ndExcl
  have e1 : b.act.dropWhile (· < d) = a.act.dropWhile (· < d) := by rw [h.act]
  rw [e1]
  cases a.act.dropWhile (· < d) with
  | nil => exact ⟨rfl, h.setAct [], rfl⟩
  | cons n r =>
    simp only
    have hall : b.all = a.all := h.all.symm
    cases haa : a.all with
    | nil =>
      have hba : b.all = [] := hall.trans haa
      simp only [hba, ResRel]
    | cons allN arest =>
      have hba : b.all = allN :: arest := hall.trans haa
      simp only [hba]
      have ecs : n / b.cs = n / a.cs := by rw [h.cs]
      rw [ecs]
      have hi : ItEq { a with act := r, all := allN :: arest } { b with act := r, all := allN :: arest } :=
        ⟨h.cs, h.finv, rfl, rfl, h.clean, h.cur, h.fl, h.fn, h.lc⟩
      have h1 := exclLoopB_rel K n (n / a.cs) arest allN hi
      cases ha : exclLoopB K n (n / a.cs) { a with act := r, all := allN :: arest } allN arest with
      | err =>
        rw [ha] at h1
        cases hb : exclLoopB K n (n / a.cs) { b with act := r, all := allN :: arest } allN arest <;>
          rw [hb] at h1 <;> simp_all [ResRel]
      | panic =>
        rw [ha] at h1
        cases hb : exclLoopB K n (n / a.cs) { b with act := r, all := allN :: arest } allN arest <;>
          rw [hb] at h1 <;> simp_all [ResRel]
      | ok pa =>
        rw [ha] at h1
        cases hb : exclLoopB K n (n / a.cs) { b with act := r, all := allN :: arest } allN arest with
        | err => rw [hb] at h1; simp [ResRel] at h1
        | panic => rw [hb] at h1; simp [ResRel] at h1
        | ok pb =>
          rw [hb] at h1
          obtain ⟨a', ra⟩ := pa
          obtain ⟨b', rb⟩ := pb
          have h1' : Rel { a with act := r, all := allN :: arest } a' b' ∧ ra = rb := h1
          obtain ⟨⟨hab, hfl'⟩, rfl⟩ := h1'
          have hfl'' : a'.fl = a.fl := hfl'
          simp only
          have hbf : b'.fl.incFN = a'.fl.incFN := by rw [hab.fl]
          rw [hbf]
          cases hfn : a'.fl.incFN with
          | false =>
            simp only [Bool.false_eq_true, if_false, ResRel]
            exact ⟨rfl, hab.setAll ra, hfl''⟩
          | true =>
            simp only [if_true]
            have h2 := ensureB_rel K (hab.setAll ra) hfn (n / a.cs)
            cases ha2 : ensureB K { a' with all := ra } (n / a.cs) with
            | err =>
              rw [ha2] at h2
              cases hb2 : ensureB K { b' with all := ra } (n / a.cs) <;> rw [hb2] at h2 <;>
                simp_all [ResRel]
            | panic =>
              rw [ha2] at h2
              cases hb2 : ensureB K { b' with all := ra } (n / a.cs) <;> rw [hb2] at h2 <;>
                simp_all [ResRel]
            | ok a'' =>
              rw [ha2] at h2
              cases hb2 : ensureB K { b' with all := ra } (n / a.cs) with
              | err => rw [hb2] at h2; simp [ResRel] at h2
              | panic => rw [hb2] at h2; simp [ResRel] at h2
              | ok b'' =>
                rw [hb2] at h2
                have h2' : Rel { a' with all := ra } a'' b'' := h2
                exact ⟨rfl, h2'.1, h2'.2.trans hfl''⟩

theorem nextDocB_rel (K : Codec) {a b : ItB} (h : ItEq a b) (d : Nat) :
    ResRel (RelOut a) (nextDocB K a d) (nextDocB K b d) := by
  rw [nextDocB_dispatch, nextDocB_dispatch, ← h.act, ← h.clean, ← h.fl]
  cases a.act with
  | nil => exact ⟨rfl, h, rfl⟩
  | cons n0 r0 =>
    simp only
    cases a.clean with
    | false => simpa using ndExcl_rel K h d
    | true =>
      simp only [if_true]
      cases hfn : a.fl.incFN with
      | false => simpa using ndCleanNoFN_rel h d
      | true => simpa using ndCleanFN_rel K h hfn d n0 r0

/-! ### `deliverB`, `stepB`, `runB` -/

theorem deliverB_rel {a b : ItB} (h : ItEq a b) (n : Nat) :
    ResRel (RelOut a) (deliverB a n) (deliverB b n) := by
  unfold deliverB
  have hflF : b.fl.incFN = a.fl.incFN := by rw [h.fl]
  rw [hflF]
  cases hfn : a.fl.incFN with
  | false => exact ⟨rfl, h, rfl⟩
  | true =>
    simp only [Bool.not_true, Bool.false_eq_true, if_false]
    rcases slot_some (h.fn hfn) with ⟨h1, h2⟩ | ⟨fa, fb, h1, h2, hd⟩
    · rw [h1, h2]; simp [ResRel]
    · rw [h1, h2]
      simp only
      apply rd_rel hd
      · intro r
        apply ResRel.bind (ResRel.refl_eq (readFreqNormHasLocs r))
        intro p q hpq
        subst hpq
        obtain ⟨fnl, r'⟩ := p
        simp only
        have hflL : b.fl.incL = a.fl.incL := by rw [h.fl]
        rw [hflL]
        have hd' : DecEq { fa with r := some r' } { fb with r := some r' } :=
          ⟨hd.d, hd.dataNil, hd.cur, Or.inl rfl⟩
        have hi : ItEq { a with fnR := some { fa with r := some r' } }
            { b with fnR := some { fb with r := some r' } } :=
          ⟨h.cs, h.finv, h.all, h.act, h.clean, h.cur, h.fl, fun _ => hd', h.lc⟩
        cases hc : (a.fl.incL && fnl.2.2) with
        | false =>
          simp only [Bool.false_eq_true, if_false, pure_eq_ok, ResRel]
          exact ⟨rfl, hi, rfl⟩
        | true =>
          simp only [if_true]
          have hl : a.fl.incL = true := by
            cases hh : a.fl.incL with
            | true => rfl
            | false => rw [hh] at hc; simp at hc
          rcases slot_some (h.lc hl) with ⟨g1, g2⟩ | ⟨la, lb, g1, g2, hld⟩
          · rw [g1, g2]; simp [ResRel]
          · rw [g1, g2]
            simp only
            have efi : readLocsB b.fieldsInv = readLocsB a.fieldsInv := by rw [h.finv]
            rw [efi]
            apply rd_rel hld
            · intro lr
              apply ResRel.bind (ResRel.refl_eq (readLocsB a.fieldsInv fnl.1 lr))
              intro p q hpq
              subst hpq
              obtain ⟨locs, lr'⟩ := p
              simp only [pure_eq_ok, ResRel]
              exact ⟨rfl, ⟨h.cs, h.finv, h.all, h.act, h.clean, h.cur, h.fl, fun _ => hd',
                fun _ => ⟨hld.d, hld.dataNil, hld.cur, Or.inl rfl⟩⟩, rfl⟩
            · rfl
            · rfl
      · rfl
      · rfl

theorem stepB_rel (K : Codec) {a b : ItB} (h : ItEq a b) (op : IterOp) :
    ResRel (RelOut a) (stepB K a op) (stepB K b op) := by
  rw [stepB_eq, stepB_eq]
  have h1 := nextDocB_rel K h (Iter.dOf op)
  cases ha : nextDocB K a (Iter.dOf op) with
  | err => rw [ha] at h1; cases hb : nextDocB K b (Iter.dOf op) <;> rw [hb] at h1 <;> simp_all [ResRel]
  | panic => rw [ha] at h1; cases hb : nextDocB K b (Iter.dOf op) <;> rw [hb] at h1 <;> simp_all [ResRel]
  | ok pa =>
    rw [ha] at h1
    cases hb : nextDocB K b (Iter.dOf op) with
    | err => rw [hb] at h1; simp [ResRel] at h1
    | panic => rw [hb] at h1; simp [ResRel] at h1
    | ok pb =>
      rw [hb] at h1
      obtain ⟨oa, a'⟩ := pa
      obtain ⟨ob, b'⟩ := pb
      have h1' : oa = ob ∧ Rel a a' b' := h1
      obtain ⟨rfl, hab, hfl⟩ := h1'
      cases oa with
      | none => exact ⟨rfl, hab, hfl⟩
      | some n =>
        simp only
        apply (deliverB_rel hab n).mono
        intro x y hxy
        exact ⟨hxy.1, hxy.2.1, hxy.2.2.trans hfl⟩

theorem runB_rel (K : Codec) : ∀ (ops : List IterOp) {a b : ItB}, ItEq a b → runB K a ops = runB K b ops := by
  intro ops
  induction ops with
  | nil => intro a b _; rfl
  | cons op ops ih =>
    intro a b h
    have h1 := stepB_rel K h op
    simp only [runB]
    cases ha : stepB K a op with
    | err => rw [ha] at h1; cases hb : stepB K b op <;> rw [hb] at h1 <;> simp_all [ResRel]
    | panic => rw [ha] at h1; cases hb : stepB K b op <;> rw [hb] at h1 <;> simp_all [ResRel]
    | ok pa =>
      rw [ha] at h1
      cases hb : stepB K b op with
      | err => rw [hb] at h1; simp [ResRel] at h1
      | panic => rw [hb] at h1; simp [ResRel] at h1
      | ok pb =>
        rw [hb] at h1
        obtain ⟨oa, a'⟩ := pa
        obtain ⟨ob, b'⟩ := pb
        have h1' : oa = ob ∧ Rel a a' b' := h1
        obtain ⟨rfl, hab, _⟩ := h1'
        simp only
        rw [ih hab]

/-! ### a reused iterator is related to a fresh one -/

theorem newSlot_rel (on : Bool) (file : Bool) (data : Bytes) (offset : Nat) {old : Option DecB}
    (ho : ResetSlot old) :
    ResRel (fun x y => on = true → SlotEq x y) (newSlot on file data offset old)
      (newSlot on file data offset none) := by
  unfold newSlot
  cases on with
  | false => simp [ResRel]
  | true =>
    simp only [if_true]
    obtain ⟨s1, s2, s3⟩ := newDecB_spec file data offset old
    obtain ⟨t1, t2, t3⟩ := newDecB_spec file data offset none
    cases hd : Decoder.newWith file data offset with
    | err => rw [s2 hd, t2 hd]; simp [ResRel]
    | panic => rw [s3 hd, t3 hd]; simp [ResRel]
    | ok d =>
      obtain ⟨tail1, e1⟩ := s1 d hd
      obtain ⟨tail2, e2⟩ := t1 d hd
      rw [e1, e2]
      simp only [ok_bind, ResRel]
      intro _
      refine ⟨rfl, rfl, ?_, Or.inr ⟨?_, Or.inl rfl⟩⟩
      · rcases ho with rfl | ⟨u, rfl⟩ <;> rfl
      · rcases ho with rfl | ⟨u, rfl⟩
        · exact Or.inl rfl
        · show deadR (u.r.map (fun _ => (⟨[], 0⟩ : Rd)))
          cases u.r with
          | none => exact Or.inl rfl
          | some _ => exact Or.inr rfl

/-- `PostingsList.iterator(…, used)` and `PostingsList.iterator(…, nil)`: related states, or the
    same failure - for EVERY postings list, every `data`, every `used` -/
theorem iteratorB_rel (p : PLB) (fl : RFlags) (used : ItB) :
    ResRel ItEq (iteratorB p fl (some used)) (iteratorB p fl none) := by
  unfold iteratorB
  apply ResRel.bind (newSlot_rel fl.incFN p.file p.data p.freqOffset (resetSlot_keptFn (some used)))
  intro f1 f2 hf
  apply ResRel.bind (newSlot_rel fl.incL p.file p.data p.locOffset (resetSlot_keptLc (some used)))
  intro l1 l2 hl
  simp only [pure_eq_ok, ResRel]
  exact ⟨rfl, rfl, rfl, rfl, rfl, rfl, rfl, hf, hl⟩

end Ice.Model.IterBytes
