import IceModel.Lemmas.E2EMDefs
/-
  END-TO-END, merger path: facts about `Spec.merge` - the invariants `AbsOK` are preserved; the
  parameters the merge computes (`mergeFields`, `computeNewDocCount`) are those of the
  specification.
-/
namespace Ice.Props.E2EM
open Ice Ice.Spec Ice.Model Ice.Model.Format
open Ice.Model.MergeLoop (absCfg TermsNodupDocs)
open Ice.Model.MergeRest (mergeFields computeNewDocCount ClosedDoc IdFirstAsc)
open Ice.Props.C03 (ValidDrops)
open Ice.Props.E2E

theorem mem_merge_docs {mode : Nat} {A : List (AbsSeg × List Nat)} {d : ADoc}
    (h : d ∈ (merge mode A).1.docs) : ∃ p ∈ A, d ∈ p.1.docs := by
  rw [merge_docs, List.mem_flatMap] at h
  obtain ⟨p, hp, hs⟩ := h
  rw [survivors_eq] at hs
  exact ⟨p, hp, mem_keepP hs⟩

theorem fields_sub_merge {mode : Nat} {A : List (AbsSeg × List Nat)} {p : AbsSeg × List Nat}
    (hp : p ∈ A) : ∀ f ∈ p.1.fields, f ∈ (merge mode A).1.fields := by
  intro f hf
  rw [merge_fields, mem_fieldList]
  exact .inr (List.mem_flatMap.2 ⟨p, hp, hf⟩)

theorem mem_merge_fields {mode : Nat} {A : List (AbsSeg × List Nat)} {f : Bytes}
    (h : f ∈ (merge mode A).1.fields) : f = idField ∨ ∃ p ∈ A, f ∈ p.1.fields := by
  rw [merge_fields, mem_fieldList] at h
  rcases h with h | h
  · exact .inl h
  · obtain ⟨p, hp, hf⟩ := List.mem_flatMap.1 h
    exact .inr ⟨p, hp, hf⟩

theorem absIns_map_fields (ins : List MIn) :
    (absIns ins).map (·.1.fields) = ins.map (·.abs.fields) := by
  simp [absIns, List.map_map, Function.comp_def]

/-- `mergeFields` computes the field list of the specification -/
theorem mFields_eq (mode : Nat) (ins : List MIn) :
    mFields ins = (merge mode (absIns ins)).1.fields := by
  unfold mFields
  rw [← absIns_map_fields]
  exact C02Stored.F_fields_merge mode (absIns ins)

/-- `computeNewDocCount` computes the document count of the specification -/
theorem mNumDocs_eq (mode : Nat) (ins : List MIn)
    (hv : ∀ i ∈ ins, ValidDrops i.abs.docs.length i.drops)
    (hb : (ins.map fun i => i.abs.docs.length).sum < 2 ^ 64) :
    mNumDocs ins = numDocs (merge mode (absIns ins)).1 := by
  have h := C02Stored.N_count mode (absIns ins)
    (by intro p hp
        obtain ⟨i, hi, rfl⟩ := List.mem_map.1 hp
        exact hv i hi)
    (by simpa [absIns, List.map_map, Function.comp_def] using hb)
  rw [← h]
  unfold mNumDocs absIns
  rw [List.map_map]
  rfl

theorem mCfg_eq (mode : Nat) (ins : List MIn)
    (hv : ∀ i ∈ ins, ValidDrops i.abs.docs.length i.drops)
    (hb : (ins.map fun i => i.abs.docs.length).sum < 2 ^ 64) :
    mCfg mode ins = absCfg mode (absIns ins) := by
  unfold mCfg absCfg
  rw [mFields_eq mode, mNumDocs_eq mode ins hv hb]

/-- **`AbsOK` is preserved by `Spec.merge`** (the numeric bounds of the result permitting) -/
theorem absOK_merge (mode : Nat) (ins : List MIn) (hok : ∀ i ∈ ins, AbsOK i.abs)
    (hB : MBounds mode ins) : AbsOK (merge mode (absIns ins)).1 := by
  have hsrc : ∀ {d}, d ∈ (merge mode (absIns ins)).1.docs → ∃ i ∈ ins, d ∈ i.abs.docs := by
    intro d hd
    obtain ⟨p, hp, hdp⟩ := mem_merge_docs hd
    obtain ⟨i, hi, rfl⟩ := List.mem_map.1 hp
    exact ⟨i, hi, hdp⟩
  have hsub : ∀ i ∈ ins, ∀ f ∈ i.abs.fields, f ∈ (merge mode (absIns ins)).1.fields := by
    intro i hi
    exact fields_sub_merge (p := (i.abs, i.drops)) (List.mem_map.2 ⟨i, hi, rfl⟩)
  refine ⟨?_, ?_, ?_, ?_, ?_, ?_, ?_, ⟨hB.numDocs, ?_, hB.freqs, ?_⟩⟩
  · rw [merge_fields]; exact C02Stored.fieldList_idFirstAsc _
  · rw [← mFields_eq]; exact hB.nfields
  · intro a ha af haf
    obtain ⟨i, hi, hai⟩ := hsrc ha
    exact hsub i hi _ ((hok i hi).names a hai af haf)
  · intro f
    apply Ice.Props.C16.termsNodup_merge
    intro p hp
    obtain ⟨i, hi, rfl⟩ := List.mem_map.1 hp
    exact (hok i hi).nodup f
  · intro d hd af haf x hx l hl
    obtain ⟨i, hi, hdi⟩ := hsrc hd
    exact hsub i hi _ ((hok i hi).locs d hdi af haf x hx l hl)
  · intro d hd af haf
    obtain ⟨i, hi, hdi⟩ := hsrc hd
    exact (hok i hi).norm31 d hdi af haf
  · intro x hx
    simp only [merge, List.mem_map] at hx
    obtain ⟨f, _, rfl⟩ := hx
    exact List.countP_le_length
  · intro f hf
    rcases mem_merge_fields hf with rfl | ⟨p, hp, hfp⟩
    · decide
    · obtain ⟨i, hi, rfl⟩ := List.mem_map.1 hp
      exact (hok i hi).bounds.nameLen f hfp
  · intro d hd af haf
    obtain ⟨i, hi, hdi⟩ := hsrc hd
    exact (hok i hi).bounds.field d hdi af haf

end Ice.Props.E2EM
