import IceModel.Lemmas.MergeRestDv
import IceModel.Lemmas.Merge
/-
  The merged doc-value column in closed form: per input the surviving (docNum, bytes) pairs under
  `start + liveCount drops docNum`; keys ascend across the whole column, stay below the merged
  document count, and the column holds for the new number of a survivor what the survivor's
  segment held for it.
-/
namespace Ice.Model.MergeRest
open Ice Ice.Model Ice.Model.DocValues
open Ice.Spec (liveCount liveCount_succ liveCount_mono remapList remapAll remapAll_cons getElem?_remapList)

/-! ### `live` on survivors -/

theorem live_lt_of_survivor (drops : List Nat) {d d' : Nat} (h : d < d')
    (hd : drops.contains d = false) : liveCount drops d < liveCount drops d' := by
  have h1 := liveCount_mono drops (show d + 1 ≤ d' by omega)
  have h2 := liveCount_succ drops d
  rw [hd] at h2
  simp only [Bool.false_eq_true, if_false] at h2
  omega

theorem live_inj (drops : List Nat) {d d' : Nat} (hd : drops.contains d = false)
    (hd' : drops.contains d' = false) (h : liveCount drops d = liveCount drops d') : d = d' := by
  rcases Nat.lt_trichotomy d d' with hlt | heq | hgt
  · have := live_lt_of_survivor drops hlt hd; omega
  · exact heq
  · have := live_lt_of_survivor drops hgt hd'; omega

theorem exists_live_eq (drops : List Nat) : ∀ (n k : Nat), k < liveCount drops n →
    ∃ d, d < n ∧ drops.contains d = false ∧ liveCount drops d = k := by
  intro n
  induction n with
  | zero => intro k h; simp [liveCount] at h
  | succ n ih =>
    intro k h
    rw [liveCount_succ] at h
    by_cases hk : k < liveCount drops n
    · obtain ⟨d, h1, h2, h3⟩ := ih k hk
      exact ⟨d, by omega, h2, h3⟩
    · cases hc : drops.contains n with
      | true => rw [hc] at h; simp at h; omega
      | false =>
        rw [hc] at h
        simp only [Bool.false_eq_true, if_false] at h
        exact ⟨n, by omega, hc, by omega⟩

/-! ### one column under the map of its segment -/

/-- a survivor's entry under its new number -/
def gMap (drops : List Nat) (start : Nat) (p : Nat × Bytes) : Option (Nat × Bytes) :=
  if drops.contains p.1 then none else some (start + liveCount drops p.1, p.2)

theorem filterMap_congr' {α β : Type} {f g : α → Option β} : ∀ {l : List α},
    (∀ x ∈ l, f x = g x) → l.filterMap f = l.filterMap g := by
  intro l
  induction l with
  | nil => intro _; rfl
  | cons a l ih =>
    intro h
    rw [List.filterMap_cons, List.filterMap_cons, h a (by simp),
      ih (fun x hx => h x (by simp [hx]))]

theorem mapVals_remap (n : Nat) (drops : List Nat) (start : Nat) (vals : List (Nat × Bytes))
    (hb : ∀ p ∈ vals, p.1 < n) (hsmall : start + liveCount drops n < docDropped) :
    mapVals ((remapList n drops start).map encNum) vals = vals.filterMap (gMap drops start) := by
  unfold mapVals
  apply filterMap_congr'
  intro p hp
  have hpn := hb p hp
  rw [List.getElem?_map, getElem?_remapList, if_pos hpn]
  simp only [Option.map_some, gMap]
  cases hc : drops.contains p.1 with
  | true => simp [encNum]
  | false =>
    have := liveCount_mono drops (Nat.le_of_lt hpn)
    have hne : ¬ start + liveCount drops p.1 = docDropped := by omega
    simp [encNum, hne]

theorem mem_filterMap_gMap {drops : List Nat} {start : Nat} {vals : List (Nat × Bytes)}
    {q : Nat × Bytes} (h : q ∈ vals.filterMap (gMap drops start)) :
    ∃ p ∈ vals, drops.contains p.1 = false ∧ q = (start + liveCount drops p.1, p.2) := by
  obtain ⟨p, hp, hg⟩ := List.mem_filterMap.1 h
  unfold gMap at hg
  cases hc : drops.contains p.1 with
  | true => rw [hc] at hg; simp at hg
  | false =>
    rw [hc] at hg
    simp only [Bool.false_eq_true, if_false, Option.some.injEq] at hg
    exact ⟨p, hp, hc, hg.symm⟩

/-- keys of the mapped column lie in the number range of the segment -/
theorem filterMap_gMap_range (n : Nat) (drops : List Nat) (start : Nat)
    (vals : List (Nat × Bytes)) (hb : ∀ p ∈ vals, p.1 < n) :
    ∀ q ∈ vals.filterMap (gMap drops start), start ≤ q.1 ∧ q.1 < start + liveCount drops n := by
  intro q hq
  obtain ⟨p, hp, hc, rfl⟩ := mem_filterMap_gMap hq
  have := live_lt_of_survivor drops (hb p hp) hc
  exact ⟨by simp, by simp; omega⟩

/-- … and ascend -/
theorem filterMap_gMap_asc (drops : List Nat) (start : Nat) (vals : List (Nat × Bytes))
    (hasc : vals.Pairwise (fun a b => a.1 < b.1)) :
    (vals.filterMap (gMap drops start)).Pairwise (fun a b => a.1 < b.1) := by
  rw [List.pairwise_filterMap]
  refine hasc.imp ?_
  intro a a' hlt b hb b' hb'
  unfold gMap at hb hb'
  cases hc : drops.contains a.1 with
  | true => rw [hc] at hb; simp at hb
  | false =>
    rw [hc] at hb
    simp only [Bool.false_eq_true, if_false, Option.some.injEq] at hb
    cases hc' : drops.contains a'.1 with
    | true => rw [hc'] at hb'; simp at hb'
    | false =>
      rw [hc'] at hb'
      simp only [Bool.false_eq_true, if_false, Option.some.injEq] at hb'
      rw [← hb, ← hb']
      have := live_lt_of_survivor drops hlt hc
      simp; omega

/-- the mapped column holds for the new number of a survivor what the column held for it -/
theorem lookup_filterMap_gMap (drops : List Nat) (start d : Nat) (hd : drops.contains d = false) :
    ∀ (vals : List (Nat × Bytes)),
    lookup (vals.filterMap (gMap drops start)) (start + liveCount drops d) = lookup vals d := by
  intro vals
  induction vals with
  | nil => rfl
  | cons p r ih =>
    rw [List.filterMap_cons]
    unfold lookup at ih ⊢
    cases hc : drops.contains p.1 with
    | true =>
      have hne : ¬ p.1 = d := by intro e; rw [e, hd] at hc; cases hc
      have hb : (p.1 == d) = false := by simp [hne]
      simp only [gMap, hc, if_true, List.find?_cons, hb]
      exact ih
    | false =>
      simp only [gMap, hc, Bool.false_eq_true, if_false, List.find?_cons]
      by_cases he : p.1 = d
      · subst he; simp
      · have hne : ¬ start + liveCount drops p.1 = start + liveCount drops d := by
          intro e
          exact he (live_inj drops hc hd (by omega))
        have hb1 : (start + liveCount drops p.1 == start + liveCount drops d) = false := by
          rw [beq_eq_false_iff_ne]; exact hne
        have hb2 : (p.1 == d) = false := by simp [he]
        simp only [hb1, hb2]
        exact ih

theorem lookup_eq_none_of_not_key {vals : List (Nat × Bytes)} {k : Nat}
    (h : ∀ q ∈ vals, q.1 ≠ k) : lookup vals k = none := by
  unfold lookup
  rw [List.find?_eq_none.2 (fun q hq => by simpa using h q hq)]
  rfl

theorem lookup_append (a b : List (Nat × Bytes)) (k : Nat) :
    lookup (a ++ b) k = (lookup a k).or (lookup b k) := by
  unfold lookup
  rw [List.find?_append]
  cases List.find? (fun p => p.1 == k) a <;> simp

/-! ### the whole column -/

/-- what the merge sees of one input for the field: `col = none` when the segment is not in focus
    or has no reader for the field -/
structure ColIn where
  n : Nat
  drops : List Nat
  col : Option (List (Nat × Bytes))

def ColIn.part (c : ColIn) (start : Nat) : List (Nat × Bytes) :=
  match c.col with
  | none => []
  | some vals => vals.filterMap (gMap c.drops start)

/-- the merged column: the inputs' parts, numbering from `start` -/
def mergedColFrom : List ColIn → Nat → List (Nat × Bytes)
  | [], _ => []
  | c :: r, start => c.part start ++ mergedColFrom r (start + liveCount c.drops c.n)

def ColIn.OK (c : ColIn) : Prop :=
  ∀ vals, c.col = some vals → vals.Pairwise (fun a b => a.1 < b.1) ∧ ∀ p ∈ vals, p.1 < c.n

theorem part_range (c : ColIn) (hc : c.OK) (start : Nat) :
    ∀ q ∈ c.part start, start ≤ q.1 ∧ q.1 < start + liveCount c.drops c.n := by
  unfold ColIn.part
  cases h : c.col with
  | none => intro q hq; simp at hq
  | some vals => exact filterMap_gMap_range c.n c.drops start vals (hc vals h).2

theorem mergedColFrom_range : ∀ (l : List ColIn) (start : Nat), (∀ c ∈ l, c.OK) →
    ∀ q ∈ mergedColFrom l start,
      start ≤ q.1 ∧ q.1 < start + (l.map fun c => liveCount c.drops c.n).sum := by
  intro l
  induction l with
  | nil => intro start _ q hq; simp [mergedColFrom] at hq
  | cons c r ih =>
    intro start hok q hq
    simp only [mergedColFrom, List.mem_append] at hq
    simp only [List.map_cons, List.sum_cons]
    rcases hq with hq | hq
    · have := part_range c (hok c (by simp)) start q hq; omega
    · have := ih _ (fun x hx => hok x (by simp [hx])) q hq; omega

/-- the keys of the merged column ascend (what the chunked coder needs) -/
theorem mergedColFrom_asc : ∀ (l : List ColIn) (start : Nat), (∀ c ∈ l, c.OK) →
    (mergedColFrom l start).Pairwise (fun a b => a.1 < b.1) := by
  intro l
  induction l with
  | nil => intro _ _; simp [mergedColFrom]
  | cons c r ih =>
    intro start hok
    have hc := hok c (by simp)
    have hr : ∀ x ∈ r, x.OK := fun x hx => hok x (by simp [hx])
    simp only [mergedColFrom]
    rw [List.pairwise_append]
    refine ⟨?_, ih _ hr, ?_⟩
    · unfold ColIn.part
      cases h : c.col with
      | none => simp
      | some vals => exact filterMap_gMap_asc c.drops start vals (hc vals h).1
    · intro a ha b hb
      have h1 := part_range c hc start a ha
      have h2 := mergedColFrom_range r _ hr b hb
      omega

/-- the merged column holds for the new number of survivor `d` of input `j` what that input's
    column held for `d` (nothing when the input takes no part) -/
theorem lookup_mergedColFrom : ∀ (l : List ColIn) (start : Nat), (∀ c ∈ l, c.OK) →
    ∀ (j : Nat) (c : ColIn) (d : Nat), l[j]? = some c → d < c.n → c.drops.contains d = false →
    lookup (mergedColFrom l start)
        (start + ((l.take j).map fun c => liveCount c.drops c.n).sum + liveCount c.drops d) =
      match c.col with
      | none => none
      | some vals => lookup vals d := by
  intro l
  induction l with
  | nil => intro _ _ j c d h; simp at h
  | cons c0 r ih =>
    intro start hok j c d hj hd hc
    have hc0 := hok c0 (by simp)
    have hr : ∀ x ∈ r, x.OK := fun x hx => hok x (by simp [hx])
    simp only [mergedColFrom]
    rw [lookup_append]
    cases j with
    | zero =>
      simp only [List.getElem?_cons_zero, Option.some.injEq] at hj
      subst hj
      simp only [List.take_zero, List.map_nil, List.sum_nil, Nat.add_zero]
      have hrest : lookup (mergedColFrom r (start + liveCount c0.drops c0.n))
          (start + liveCount c0.drops d) = none := by
        apply lookup_eq_none_of_not_key
        intro q hq
        have := mergedColFrom_range r _ hr q hq
        have := live_lt_of_survivor c0.drops hd hc
        omega
      rw [hrest, Option.or_none]
      unfold ColIn.part
      cases h : c0.col with
      | none => rfl
      | some vals => exact lookup_filterMap_gMap c0.drops start d hc vals
    | succ j =>
      simp only [List.getElem?_cons_succ] at hj
      have hfirst : lookup (c0.part start)
          (start + (((c0 :: r).take (j + 1)).map fun c => liveCount c.drops c.n).sum + liveCount c.drops d)
          = none := by
        apply lookup_eq_none_of_not_key
        intro q hq
        have := part_range c0 hc0 start q hq
        simp only [List.take_succ_cons, List.map_cons, List.sum_cons]
        omega
      rw [hfirst, Option.none_or]
      have := ih (start + liveCount c0.drops c0.n) hr j c d hj hd hc
      simp only [List.take_succ_cons, List.map_cons, List.sum_cons]
      rw [← this]
      congr 1
      omega

/-- every merged document number is the new number of a survivor -/
theorem exists_source : ∀ (l : List ColIn) (k : Nat),
    k < (l.map fun c => liveCount c.drops c.n).sum →
    ∃ j c d, l[j]? = some c ∧ d < c.n ∧ c.drops.contains d = false ∧
      k = ((l.take j).map fun c => liveCount c.drops c.n).sum + liveCount c.drops d := by
  intro l
  induction l with
  | nil => intro k h; simp at h
  | cons c0 r ih =>
    intro k h
    simp only [List.map_cons, List.sum_cons] at h
    by_cases hk : k < liveCount c0.drops c0.n
    · obtain ⟨d, h1, h2, h3⟩ := exists_live_eq c0.drops c0.n k hk
      exact ⟨0, c0, d, by simp, h1, h2, by simp [h3]⟩
    · obtain ⟨j, c, d, h1, h2, h3, h4⟩ := ih (k - liveCount c0.drops c0.n) (by omega)
      refine ⟨j + 1, c, d, by simpa using h1, h2, h3, ?_⟩
      simp only [List.take_succ_cons, List.map_cons, List.sum_cons]
      omega

/-! ### the column the model builds is the closed form -/

theorem zipIdx_flatMap_getD {α β γ : Type} (F : α → β → List γ) (dflt : β) :
    ∀ (S : List α) (N : List β) (k : Nat), k + S.length ≤ N.length →
    (S.zipIdx k).flatMap (fun p => F p.1 (N.getD p.2 dflt)) =
      (S.zip (N.drop k)).flatMap fun q => F q.1 q.2 := by
  intro S
  induction S with
  | nil => intro N k _; rfl
  | cons s S ih =>
    intro N k h
    simp only [List.length_cons] at h
    have hk : k < N.length := by omega
    rw [List.zipIdx_cons, List.drop_eq_getElem_cons hk, List.zip_cons_cons, List.flatMap_cons,
      List.flatMap_cons, ih N (k + 1) (by omega)]
    congr 2
    rw [List.getD_eq_getElem?_getD, List.getElem?_eq_getElem hk]; rfl

/-- the parts computed through the maps of `Spec.remapAll` are the closed form -/
theorem parts_remapAll : ∀ (l : List ColIn) (start : Nat), (∀ c ∈ l, c.OK) →
    start + (l.map fun c => liveCount c.drops c.n).sum < docDropped →
    (l.zip ((remapAll (l.map fun c => (c.n, c.drops)) start).map (·.map encNum))).flatMap
        (fun q => match q.1.col with
          | none => []
          | some vals => mapVals q.2 vals) =
      mergedColFrom l start := by
  intro l
  induction l with
  | nil => intro _ _ _; rfl
  | cons c r ih =>
    intro start hok hsmall
    have hc := hok c (by simp)
    simp only [List.map_cons, List.sum_cons] at hsmall
    simp only [List.map_cons, remapAll_cons, List.zip_cons_cons, List.flatMap_cons, mergedColFrom]
    rw [ih _ (fun x hx => hok x (by simp [hx])) (by omega)]
    congr 1
    unfold ColIn.part
    cases h : c.col with
    | none => rfl
    | some vals =>
      simp only
      exact mapVals_remap c.n c.drops start vals (hc vals h).2 (by omega)

end Ice.Model.MergeRest
