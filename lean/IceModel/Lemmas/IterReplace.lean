import IceModel.Model.Iter
import IceModel.Lemmas.Iter
/-
  Lemmas for `ReplaceActual` (`Ice.Model.Iter.replaceActual`): the invariant `Inv` of
  `IceModel/Lemmas/Iter.lean` is parametric in the predicate `lv` that says which postings the
  `Actual` cursor enumerates, so a replacement by a sorted subset `abm` of the document numbers
  still ahead of the `all` cursor re-establishes it with `lv p := abm.contains p.doc` in the
  exclusion mode (`clean = false`).
-/
namespace Ice.Model.Iter
open Ice Ice.Spec

/-- strictly ascending document numbers: what a roaring iterator enumerates -/
def SortedN (l : List Nat) : Prop := l.Pairwise (· < ·)

/-- the postings selected by a replacement bitmap -/
def inAbm (abm : List Nat) : Posting → Bool := fun p => abm.contains p.doc

theorem SortedN.tail {a : Nat} {l : List Nat} (h : SortedN (a :: l)) : SortedN l :=
  (List.pairwise_cons.mp h).2

theorem SortedN.head_lt {a : Nat} {l : List Nat} (h : SortedN (a :: l)) : ∀ x ∈ l, a < x :=
  (List.pairwise_cons.mp h).1

/-- a sorted duplicate-free subset of the document numbers of a sorted postings list is exactly
    the document numbers of the postings it selects -/
theorem filter_inAbm_docs :
    ∀ (P : List Posting), SortedP P → ∀ (abm : List Nat), SortedN abm →
      (∀ d ∈ abm, d ∈ P.map (·.doc)) → (P.filter (inAbm abm)).map (·.doc) = abm := by
  intro P
  induction P with
  | nil =>
    intro _ abm _ hsub
    cases abm with
    | nil => rfl
    | cons a t => have := hsub a (by simp); simp at this
  | cons p Pt ih =>
    intro hs abm ha hsub
    have hsPt : SortedP Pt := (List.pairwise_cons.mp hs).2
    have hp : ∀ q ∈ Pt, p.doc < q.doc := (List.pairwise_cons.mp hs).1
    have hpd : ∀ d ∈ Pt.map (·.doc), p.doc < d := by
      intro d hd
      obtain ⟨q, hq, rfl⟩ := List.mem_map.mp hd
      exact hp q hq
    cases abm with
    | nil => simp [inAbm]
    | cons a t =>
      have hat : ∀ x ∈ t, a < x := ha.head_lt
      by_cases hap : a = p.doc
      · -- the head of `abm` is this posting
        have hin : inAbm (a :: t) p = true := by simp [inAbm, hap]
        rw [List.filter_cons_of_pos hin, List.map_cons, ← hap]
        congr 1
        have hcongr : Pt.filter (inAbm (a :: t)) = Pt.filter (inAbm t) := by
          apply List.filter_congr
          intro q hq
          have : q.doc ≠ a := by have := hp q hq; omega
          simp [inAbm, this]
        rw [hcongr]
        apply ih hsPt t ha.tail
        intro d hd
        have h1 := hsub d (by simp [hd])
        have h2 := hat d hd
        rcases List.mem_cons.mp (by simpa using h1 : d ∈ p.doc :: Pt.map (·.doc)) with h | h
        · omega
        · exact h
      · -- this posting is not selected
        have ha' : a ∈ Pt.map (·.doc) := by
          have h1 := hsub a (by simp)
          rcases List.mem_cons.mp (by simpa using h1 : a ∈ p.doc :: Pt.map (·.doc)) with h | h
          · exact absurd h hap
          · exact h
        have hpa : p.doc < a := hpd a ha'
        have hnin : ¬ (inAbm (a :: t) p = true) := by
          simp only [inAbm, List.contains_eq_mem, decide_eq_true_eq, List.mem_cons]
          intro h
          rcases h with h | h
          · omega
          · have := hat _ h; omega
        rw [List.filter_cons_of_neg hnin]
        apply ih hsPt (a :: t) ha
        intro d hd
        have h1 := hsub d hd
        rcases List.mem_cons.mp (by simpa using h1 : d ∈ p.doc :: Pt.map (·.doc)) with h | h
        · rcases List.mem_cons.mp hd with h' | h'
          · omega
          · have := hat d h'; omega
        · exact h

/-- postings lying before the part `R` that contains all of `abm` are not selected -/
theorem filter_inAbm_split {Pre R : List Posting} (hs : SortedP (Pre ++ R)) {abm : List Nat}
    (hsub : ∀ d ∈ abm, d ∈ R.map (·.doc)) :
    (Pre ++ R).filter (inAbm abm) = R.filter (inAbm abm) := by
  rw [List.filter_append]
  have : Pre.filter (inAbm abm) = [] := by
    apply List.filter_eq_nil_iff.mpr
    intro q hq hin
    have hmem : q.doc ∈ abm := by simpa [inAbm] using hin
    obtain ⟨r, hr, hrd⟩ := List.mem_map.mp (hsub _ hmem)
    have := (List.pairwise_append.mp hs).2.2 q hq r hr
    omega
  rw [this]; rfl

/-! ### the invariant after a replacement -/

theorem RdInv.replace {cs : Nat} {i : It} {Pre R : List Posting} (h : RdInv cs i Pre R)
    (abm : List Nat) : RdInv cs (replaceActual i abm) Pre R := by
  constructor
  · intro hn; exact h.none_case hn
  · intro hn
    obtain ⟨b1, b2, r⟩ := h.some_case hn
    exact ⟨b1, b2, ⟨r.csEq, r.cur, r.fn, r.lc⟩⟩

/-- `ReplaceActual(abm)` on a state that satisfies the invariant (in either mode, with any
    `Actual` contents), for a sorted `abm` all of whose elements are still ahead of `all` -/
theorem Inv.replace {cs : Nat} {P : List Posting} {fl : RFlags} {lv : Posting → Bool} {cl : Bool}
    {i : It} {L Pre R : List Posting} (hP : SortedP P) (h : Inv cs P fl lv cl i L Pre R)
    {abm : List Nat} (ha : SortedN abm) (hsub : ∀ d ∈ abm, d ∈ i.all) :
    Inv cs P fl (inAbm abm) false (replaceActual i abm) (R.filter (inAbm abm)) Pre R := by
  have hsR : SortedP R := by
    have := hP; rw [h.split] at this
    exact (List.pairwise_append.mp this).2.1
  have hsub' : ∀ d ∈ abm, d ∈ R.map (·.doc) := by rw [← h.all]; exact hsub
  refine ⟨h.csEq, h.PEq, h.flEq, rfl, h.split, h.all, ?_, rfl, fun hf => (h.rd hf).replace abm⟩
  show abm = _
  exact (filter_inAbm_docs R hsR abm ha hsub').symm

theorem run_replace_inv {cs : Nat} {P : List Posting} {fl : RFlags} {lv : Posting → Bool}
    {cl : Bool} {i : It} {L Pre R : List Posting} (hcs : 0 < cs) (hP : SortedP P)
    (hfl : fl.incL = true → fl.incFN = true) (h : Inv cs P fl lv cl i L Pre R)
    {abm : List Nat} (ha : SortedN abm) (hsub : ∀ d ∈ abm, d ∈ i.all) (ops : List IterOp) :
    run (replaceActual i abm) ops = specRun fl (P.filter (inAbm abm)) ops := by
  have hinv := h.replace hP ha hsub
  have hsub' : ∀ d ∈ abm, d ∈ R.map (·.doc) := by rw [← h.all]; exact hsub
  have hPR : P.filter (inAbm abm) = R.filter (inAbm abm) := by
    rw [h.split]
    exact filter_inAbm_split (by rw [← h.split]; exact hP) hsub'
  rw [hPR]
  exact run_spec hcs hP (fun hh => by cases hh) hfl ops _ _ (Or.inr ⟨Pre, R, hinv⟩)

/-- the freshly created iterator satisfies the invariant, whatever the exclusion -/
theorem mk_Inv (cs : Nat) (P : List Posting) (E : Option (List Nat)) (fl : RFlags) :
    ∃ lv cl, (cl = true → ∀ p, lv p = true) ∧ Inv cs P fl lv cl (mk cs P E fl) (live P E) [] P := by
  cases E with
  | none =>
    refine ⟨fun _ => true, true, fun _ _ => rfl, rfl, rfl, rfl, rfl, rfl, rfl, ?_, ?_, ?_⟩
    · simp [mk, filter_all]
    · simp [live, filter_all]
    · intro _
      exact ⟨fun _ => rfl, fun hn => absurd rfl hn⟩
  | some e =>
    refine ⟨fun p => !e.contains p.doc, false, fun hh => (by cases hh), rfl, rfl, rfl, rfl, rfl,
      rfl, ?_, ?_, ?_⟩
    · simp only [mk]
      rw [List.filter_map]; rfl
    · rfl
    · intro _
      exact ⟨fun _ => rfl, fun hn => absurd rfl hn⟩

theorem mk_all (cs : Nat) (P : List Posting) (E : Option (List Nat)) (fl : RFlags) :
    (mk cs P E fl).all = P.map (·.doc) := by
  cases E <;> rfl

/-! ### replacement in the middle of a script -/

/-- run a script and keep the final state; `none` = a fault happened -/
def runSt : It → List IterOp → Option (List (Option Posting) × It)
  | i, [] => some ([], i)
  | i, op :: ops =>
    match step i op with
    | none => none
    | some (r, i') =>
      match runSt i' ops with
      | none => none
      | some (rs, j) => some (r :: rs, j)

/-- `runSt` and `run` produce the same transcript -/
theorem runSt_run (i : It) (ops : List IterOp) (rs : List (Option Posting)) (j : It)
    (h : runSt i ops = some (rs, j)) : run i ops = rs.map some := by
  induction ops generalizing i rs with
  | nil => simp only [runSt, Option.some.injEq, Prod.mk.injEq] at h; rw [← h.1]; rfl
  | cons op ops ih =>
    simp only [runSt] at h
    cases hs : step i op with
    | none => rw [hs] at h; cases h
    | some pr =>
      obtain ⟨r, i'⟩ := pr
      rw [hs] at h
      simp only at h
      cases hr : runSt i' ops with
      | none => rw [hr] at h; cases h
      | some pr2 =>
        obtain ⟨rs', j'⟩ := pr2
        rw [hr] at h
        simp only [Option.some.injEq, Prod.mk.injEq] at h
        obtain ⟨rfl, rfl⟩ := h
        simp only [run, hs, List.map_cons]
        rw [ih i' rs' hr]

/-- one step that delivers a posting keeps the invariant (not only `StepInv`) -/
theorem step_Inv {cs : Nat} {P : List Posting} {fl : RFlags} {lv : Posting → Bool} {cl : Bool}
    (hcs : 0 < cs) (hP : SortedP P) (hmode : cl = true → ∀ p, lv p = true)
    (hfl : fl.incL = true → fl.incFN = true) {i : It} {L Pre R : List Posting} (op : IterOp)
    (h : Inv cs P fl lv cl i L Pre R) {r : Option Posting} {i' : It}
    (hs : step i op = some (r, i')) (hr : r ≠ none) :
    ∃ L' Pre' R', Inv cs P fl lv cl i' L' Pre' R' := by
  rw [step_eq] at hs
  cases hd : L.dropWhile (fun p => p.doc < dOf op) with
  | nil =>
    obtain ⟨i1, e, _⟩ := nextDoc_none hmode h hd
    rw [e] at hs
    simp only [Option.some.injEq, Prod.mk.injEq] at hs
    exact absurd hs.1.symm hr
  | cons p Lr =>
    obtain ⟨i1, sk, R', e, hR, hLr, _, hpost⟩ := nextDoc_found hcs hP hmode h hd
    rw [e] at hs
    have hsplit : P = Pre ++ (sk ++ p :: R') := by rw [h.split, hR]
    obtain ⟨i2, e2, hinv⟩ := deliver_spec hP hfl hsplit hpost
    simp only at hs
    rw [e2] at hs
    simp only [Option.some.injEq, Prod.mk.injEq] at hs
    rw [← hs.2]
    exact ⟨_, _, _, hinv⟩

theorem runSt_Inv {cs : Nat} {P : List Posting} {fl : RFlags} {lv : Posting → Bool} {cl : Bool}
    (hcs : 0 < cs) (hP : SortedP P) (hmode : cl = true → ∀ p, lv p = true)
    (hfl : fl.incL = true → fl.incFN = true) (ops : List IterOp) :
    ∀ (i : It) (L Pre R : List Posting), Inv cs P fl lv cl i L Pre R →
      ∀ (rs : List (Option Posting)) (j : It), runSt i ops = some (rs, j) →
      (∀ r ∈ rs, r ≠ none) → ∃ L' Pre' R', Inv cs P fl lv cl j L' Pre' R' := by
  induction ops with
  | nil =>
    intro i L Pre R h rs j hrun _
    simp only [runSt, Option.some.injEq, Prod.mk.injEq] at hrun
    rw [← hrun.2]
    exact ⟨L, Pre, R, h⟩
  | cons op ops ih =>
    intro i L Pre R h rs j hrun hall
    simp only [runSt] at hrun
    cases hs : step i op with
    | none => rw [hs] at hrun; cases hrun
    | some pr =>
      obtain ⟨r, i'⟩ := pr
      rw [hs] at hrun
      simp only at hrun
      cases hr : runSt i' ops with
      | none => rw [hr] at hrun; cases hrun
      | some pr2 =>
        obtain ⟨rs', j'⟩ := pr2
        rw [hr] at hrun
        simp only [Option.some.injEq, Prod.mk.injEq] at hrun
        obtain ⟨rfl, rfl⟩ := hrun
        obtain ⟨L1, Pre1, R1, h1⟩ := step_Inv hcs hP hmode hfl op h hs (hall r (by simp))
        exact ih i' L1 Pre1 R1 h1 rs' j' hr (fun x hx => hall x (by simp [hx]))

end Ice.Model.Iter

namespace Ice.Model.Iter
open Ice Ice.Spec

/-- the `for allN != n` loop on an exhausted `all` cursor: the Go code calls `i.all.Next()` on an
    iterator without a next element (a fault in the model) -/
theorem exclLoop_exhausted (i : It) (n c allN : Nat) (h : allN ≠ n) :
    exclLoop i n c allN [] = none := by
  rw [exclLoop, if_neg (by simpa using h)]
  cases (if i.fl.incFN && allN ≥ c * i.cs then currChunkNext i c else some i) <;> rfl

/-- the transcript of `specRun`, seen through the caller's flags, is `Spec.iterRun`
    (the private `specRun_view` of `Props/C05.lean`, restated for reuse) -/
theorem specRun_view' (fl : Flags) (L : List Posting) (ops : List IterOp) :
    (specRun (RFlags.of fl) L ops).map (fun r => r.map (fun o => o.map (view fl))) =
      (iterRun fl L ops).map some := by
  have view_decoded : ∀ p, view fl (decoded (RFlags.of fl) p) = view fl p := by
    intro p
    cases fl with
    | mk f n l => cases f <;> cases n <;> cases l <;> simp [view, decoded, RFlags.of]
  induction ops generalizing L with
  | nil => rfl
  | cons op ops ih =>
    simp only [specRun, iterRun, List.map_cons]
    rw [ih]
    congr 1
    cases h : (iterStep L op).1 with
    | none => simp
    | some p => simp [view_decoded]

theorem length_filter_not {α : Type} (f : α → Bool) (l : List α) :
    (l.filter (fun x => !f x)).length = l.length - (l.filter f).length := by
  induction l with
  | nil => rfl
  | cons a t ih =>
    have hle : (t.filter f).length ≤ t.length := List.length_filter_le _ _
    cases h : f a <;> simp [h, ih] <;> omega

end Ice.Model.Iter
