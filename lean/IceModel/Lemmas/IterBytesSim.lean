import IceModel.Lemmas.IterBytesStep
/-
  Simulation of `deliverB`, the loops, `nextDocB`, `stepB` and `runB` by their entry-level
  counterparts.
-/
namespace Ice.Model.IterBytes
open Ice Ice.Spec Ice.Model Ice.Model.ChunkBytes
open Ice.Model.Iter (RFlags It)
open Ice.Props.ChunkBytes (T2_read T2_skip T3_skip)

/-! ### the location loop with the field lookup -/

theorem readLocsLoopB_enc {finv : List Bytes} {S B : Bytes} {C0 nlb start cap : Nat}
    (hstart : start = S.length - C0) (hle : C0 + nlb ≤ S.length) :
    ∀ (todo : List BLoc) (fuel j C : Nat) (acc : List Loc),
      (∀ l ∈ todo, l.Valid) → (∀ l ∈ todo, l.fieldID < finv.length) →
      S.drop C = todo.flatMap encLoc ++ B →
      (todo.flatMap encLoc).length ≤ nlb → C = C0 + (nlb - (todo.flatMap encLoc).length) →
      todo.length < fuel → j + todo.length ≤ cap →
      readLocsLoopB finv fuel cap start nlb j ⟨S, C⟩ acc
        = .ok (acc ++ todo.map (toLoc finv), ⟨S, C0 + nlb⟩) := by
  intro todo
  induction todo with
  | nil =>
    intro fuel j C acc _ _ _ _ hC hfuel _
    obtain ⟨f, rfl⟩ : ∃ f, fuel = f + 1 := ⟨fuel - 1, by simp at hfuel; omega⟩
    simp only [List.flatMap_nil, List.length_nil, Nat.sub_zero] at hC
    subst hC
    have : ¬ (start - (S.length - (C0 + nlb)) < nlb) := by omega
    simp [readLocsLoopB, Rd.len, this]
  | cons l t ih =>
    intro fuel j C acc hv hfld hdrop hlen hC hfuel hcap
    obtain ⟨f, rfl⟩ : ∃ f, fuel = f + 1 := ⟨fuel - 1, by simp at hfuel; omega⟩
    simp only [List.flatMap_cons, List.length_append, List.append_assoc] at hdrop hlen hC
    have hpos := encLoc_length_pos l
    have hcond : start - (S.length - C) < nlb := by omega
    have hj : j < cap := by simp at hcap; omega
    have hrd := readLocation_drop (hv l (by simp)) hdrop
    have hlt : l.fieldID < finv.length := hfld l (by simp)
    have hlook : finv[l.fieldID]? = some (toLoc finv l).field := by
      simp [toLoc, List.getElem?_eq_getElem hlt]
    rw [readLocsLoopB]
    simp only [Rd.len, hcond, if_true, hj, hrd, hlook]
    have hstep := ih f (j + 1) (C + (encLoc l).length) (acc ++ [toLoc finv l])
      (fun x hx => hv x (by simp [hx])) (fun x hx => hfld x (by simp [hx]))
      (drop_advance hdrop) (by omega) (by omega) (by simp at hfuel; omega)
      (by simp at hcap; omega)
    have : (acc ++ [toLoc finv l]) ++ t.map (toLoc finv) = acc ++ (l :: t).map (toLoc finv) := by simp
    rw [this] at hstep
    exact hstep

theorem readLocsB_drop {finv : List Bytes} {S B : Bytes} {C f : Nat} {e : Entry} (hv : e.Valid)
    (hne : e.locs ≠ []) (hcap : e.locs.length ≤ f) (hfld : ∀ l ∈ e.locs, l.fieldID < finv.length)
    (h : S.drop C = encLocs e ++ B) :
    readLocsB finv f ⟨S, C⟩ = .ok (e.locs.map (toLoc finv), ⟨S, C + (encLocs e).length⟩) := by
  rw [encLocs_of_ne hne, List.append_assoc] at h
  have hnb := numBytesLocs_lt e hv
  have h2 := drop_advance h
  have hlen := drop_length_le h2
  have hge := flatMap_encLoc_length_ge e.locs
  have hnb' := numBytesLocs_eq e
  unfold readLocsB
  rw [Rd.readUvarint_drop h (by unfold two63 at hnb; unfold two64; omega)]
  simp only [ok_bind, hnb, if_true]
  have hle : C + (putUvarint (numBytesLocs e)).length + numBytesLocs e ≤ S.length := by
    rcases hlen with hl | ⟨hl, -, -⟩
    · omega
    · exfalso
      have : e.locs.length = 0 := by rw [hl] at hge; simp at hge; omega
      exact hne (List.eq_nil_of_length_eq_zero this)
  show readLocsLoopB finv _ f (S.length - (C + (putUvarint (numBytesLocs e)).length)) _ _ _ _ = _
  rw [readLocsLoopB_enc (B := B) (C0 := C + (putUvarint (numBytesLocs e)).length) rfl hle
    e.locs _ 0 _ [] hv.2.2.2 hfld h2 (by omega) (by omega) (by omega) (by omega)]
  simp [encLocs_of_ne hne, hnb', Nat.add_assoc]

/-! ### frame -/

theorem absFnR_congr {E : Env} {i i' : ItB} (h1 : i'.fl = i.fl) (h2 : i'.currChunk = i.currChunk)
    (h3 : i'.fnR = i.fnR) : absFnR E i' = absFnR E i := by
  unfold absFnR; rw [h1, h2, h3]

theorem absLcR_congr {E : Env} {i i' : ItB} (h1 : i'.fl = i.fl) (h2 : i'.currChunk = i.currChunk)
    (h3 : i'.lcR = i.lcR) : absLcR E i' = absLcR E i := by
  unfold absLcR; rw [h1, h2, h3]

/-- a state that differs from a well-formed one only in the roaring cursors (and buffers that the
    abstraction does not look at) is well formed -/
theorem WF.frame {E : Env} {i i' : ItB} (h : WF E i) (hcs : i'.cs = i.cs)
    (hfinv : i'.fieldsInv = i.fieldsInv) (hfl : i'.fl = i.fl) (hcur : i'.currChunk = i.currChunk)
    (hfn : i'.fnR = i.fnR) (hlc : i'.lcR = i.lcR) (hact : ∀ n ∈ i'.act, n ≤ E.maxDoc) : WF E i' := by
  refine ⟨hcs.trans h.cs, hfinv.trans h.finv, hact, ?_, ?_, ?_⟩
  · intro hf; rw [hfl] at hf; rw [hfn, hcur]; exact h.fn hf
  · intro hl; rw [hfl] at hl; rw [hlc, hcur]; exact h.lc hl
  · exact h.aligned.of_eq hfl (absFnR_congr hfl hcur hfn) (absLcR_congr hfl hcur hlc)

/-! ### `deliverB` -/

theorem deliverB_sim {E : Env} (hE : E.OK) {i : ItB} (h : WF E i) {n : Nat} {o : Option Posting}
    {j : It} (hj : Iter.deliver n (absIt E i) = some (o, j)) :
    ∃ i', deliverB i n = .ok (o, i') ∧ WF E i' ∧ absIt E i' = j ∧ i'.fl = i.fl := by
  have hal : Aligned j := h.aligned.deliver hj
  rcases deliver_some hj with ⟨hfn, rfl, rfl⟩ | ⟨hfn, e', r', hf, hcase⟩
  · have hfn' : i.fl.incFN = false := hfn
    exact ⟨i, by simp [deliverB, hfn'], h, rfl, rfl⟩
  have hfn' : i.fl.incFN = true := hfn
  obtain ⟨fb, pre, e, r, hfb, hok, hne, hsplit, hcur, hr, he', hr'⟩ := fn_head h hfn' hf
  have hmem : e ∈ E.es := mem_chunkE (c := i.currChunk) (by rw [hsplit]; simp)
  have hread := T2_read pre r e (hE.valid e hmem)
  have hnorm : e.norm % 2 ^ 32 = e.norm := Nat.mod_eq_of_lt (hE.norm e hmem)
  have hflag : Iter.hasLocs e' = !e.locs.isEmpty := by rw [he', hasLocs_toP]; rfl
  have hincL : (absIt E i).fl.incL = i.fl.incL := rfl
  let fb' : DecB := { fb with r := some ⟨fnBytes (pre ++ e :: r), (fnBytes (pre ++ [e])).length⟩ }
  have hok' : FnOK E i.currChunk fb' := fnOK_advance hok hsplit hcur
  have habsF : absFn E.finv (chunkE E.cs E.es i.currChunk) fb' = some r' := by
    rw [hsplit, hr']; exact absFn_advance hne
  have hfreq : e'.freq = e.freq := by rw [he']; rfl
  have hnm : e'.norm = e.norm := by rw [he']; rfl
  rcases hcase with ⟨hb, rfl, rfl⟩ | ⟨hb, x, lr, hlc, rfl, rfl⟩
  · rw [hincL, hflag] at hb
    have hrun : deliverB i n = .ok (some { doc := n, freq := e'.freq, norm := e'.norm, locs := [] },
        { i with fnR := some fb' }) := by
      unfold deliverB
      rw [hfb]
      simp only [hfn', Bool.not_true, Bool.false_eq_true, if_false, DecB.rd, hr, ok_bind, hread, hb,
        pure_eq_ok, hnorm, hfreq, hnm]
      rfl
    have habs : absIt E { i with fnR := some fb' } = { absIt E i with fnR := some r' } := by
      apply It.ext' <;> try rfl
      show absFnR E { i with fnR := some fb' } = some r'
      simp only [absFnR, hfn', if_true, habsF]
    refine ⟨_, hrun, ?_, habs, rfl⟩
    refine ⟨h.cs, h.finv, h.act, fun _ => ⟨fb', rfl, hok'⟩, h.lc, ?_⟩
    rw [habs]; exact hal
  · rw [hincL, hflag] at hb
    have hl : i.fl.incL = true := by
      cases hh : i.fl.incL with
      | true => rfl
      | false => rw [hh] at hb; simp at hb
    have hhas : Iter.hasLocs e' = true := by rw [hflag]; simpa [hl] using hb
    obtain ⟨lb, lpre, le, lrr, hlb, hlok, hlsplit, hlr, hx, hlr'⟩ := lc_head h hl hlc
    have hlmem : le ∈ (chunkE E.cs E.es i.currChunk).filter hasLocsE := by rw [hlsplit]; simp
    have hlne : le.locs ≠ [] := mem_filter_hasLocsE hlmem
    have hlmem' : le ∈ E.es := mem_chunkE (List.mem_filter.mp hlmem).1
    -- alignment: the location reader stands at the locations of the entry just read
    have hxe : x = e' := by
      have := h.aligned hl _ hf
      rw [hlc, List.filter_cons_of_pos (by simp [hhas])] at this
      exact (List.cons.inj this).1
    have hlen : le.locs.length ≤ e.freq := by
      have h1 : (toP E.finv le).locs.length = (toP E.finv e).locs.length := by
        rw [← hx, ← he', hxe]
      rw [toP_locs_length, toP_locs_length] at h1
      rw [h1]; exact hE.freq e hmem
    have hrl := readLocsB_drop (finv := E.finv) (f := e.freq) (hE.valid le hlmem') hlne hlen
      (hE.fld le hlmem') (locBytes_drop lpre le lrr)
    rw [← locBytes_snoc_length] at hrl
    let lb' : DecB := { lb with r := some ⟨locBytes (lpre ++ le :: lrr), (locBytes (lpre ++ [le])).length⟩ }
    have hlok' : LcOK E i.currChunk lb' := lcOK_advance hlok hlsplit hlr
    have habsL : absLc E.finv (chunkE E.cs E.es i.currChunk) lb' = lr := by
      rw [hlr']; exact absLc_advance hlsplit
    have hxl : x.locs = le.locs.map (toLoc E.finv) := by rw [hx]; rfl
    have hrun : ∃ cap', deliverB i n =
        .ok (some { doc := n, freq := e'.freq, norm := e'.norm, locs := x.locs },
             { i with fnR := some fb', lcR := some lb', nextLocsCap := cap' }) := by
      refine ⟨if i.nextLocsCap ≥ e.freq then i.nextLocsCap else e.freq * 2, ?_⟩
      unfold deliverB
      rw [hfb]
      simp only [hfn', Bool.not_true, Bool.false_eq_true, if_false, DecB.rd, hr, ok_bind, hread, hb,
        if_true, hlb, hlr, h.finv, hrl, pure_eq_ok, hnorm, hfreq, hnm, hxl]
      rfl
    obtain ⟨cap', hrun⟩ := hrun
    have habs : absIt E { i with fnR := some fb', lcR := some lb', nextLocsCap := cap' } =
        { absIt E i with fnR := some r', lcR := lr } := by
      apply It.ext' <;> try rfl
      · change absFnR E _ = some r'
        simp only [absFnR, hfn', if_true, habsF]
      · change absLcR E _ = lr
        simp only [absLcR, hl, if_true, habsL]
    refine ⟨_, hrun, ?_, habs, rfl⟩
    refine ⟨h.cs, h.finv, h.act, fun _ => ⟨fb', rfl, hok'⟩, fun _ => ⟨lb', rfl, hlok'⟩, ?_⟩
    rw [habs]; exact hal

/-! ### the loops -/

theorem cleanLoopB_eq (cs d : Nat) : ∀ (rest : List Nat) (n c s : Nat),
    cleanLoopB cs d n c s rest = Iter.cleanLoop cs d n c s rest := by
  intro rest
  induction rest with
  | nil =>
    intro n c s
    rw [cleanLoopB]
    by_cases h : n < d
    · rw [Iter.cleanLoop_nil _ _ _ _ _ h]
    · rw [Iter.cleanLoop_done _ _ _ _ _ _ h]
  | cons m r ih =>
    intro n c s
    rw [cleanLoopB]
    by_cases h : n < d
    · rw [if_pos h, Iter.cleanLoop_step _ _ _ _ _ _ _ h]
      exact ih _ _ _
    · rw [if_neg h, Iter.cleanLoop_done _ _ _ _ _ _ h]

/-- the clean-path loop stops on a document number of the list, in its chunk, with a tail of the
    list left -/
theorem cleanLoopB_facts (cs d : Nat) : ∀ (rest : List Nat) (n s n' c' s' : Nat) (rest' : List Nat),
    cleanLoopB cs d n (n / cs) s rest = (n', c', s', rest') →
    c' = n' / cs ∧ (n' = n ∨ n' ∈ rest) ∧ ∀ x ∈ rest', x ∈ rest := by
  intro rest
  induction rest with
  | nil =>
    intro n s n' c' s' rest' h
    rw [cleanLoopB] at h
    simp only [Prod.mk.injEq] at h
    obtain ⟨rfl, rfl, _, rfl⟩ := h
    exact ⟨rfl, Or.inl rfl, fun _ hx => hx⟩
  | cons m r ih =>
    intro n s n' c' s' rest' h
    rw [cleanLoopB] at h
    by_cases hlt : n < d
    · rw [if_pos hlt] at h
      obtain ⟨h1, h2, h3⟩ := ih _ _ _ _ _ _ h
      refine ⟨h1, ?_, fun x hx => List.mem_cons_of_mem _ (h3 x hx)⟩
      rcases h2 with rfl | h2
      · exact Or.inr (by simp)
      · exact Or.inr (List.mem_cons_of_mem _ h2)
    · rw [if_neg hlt] at h
      simp only [Prod.mk.injEq] at h
      obtain ⟨rfl, rfl, _, rfl⟩ := h
      exact ⟨rfl, Or.inl rfl, fun _ hx => hx⟩

theorem repeatSkipB_sim {E : Env} (hE : E.OK) {c : Nat} (hc : c ≤ E.maxDoc / E.cs) :
    ∀ (k : Nat) (i : ItB) (j : It), WF E i → i.fl.incFN = true →
      Iter.repeatSkip k (absIt E i) c = some j →
      ∃ i', repeatSkipB E.K k i c = .ok i' ∧ WF E i' ∧ absIt E i' = j ∧ SameB i i' := by
  intro k
  induction k with
  | zero =>
    intro i j h _ hj
    simp only [Iter.repeatSkip, Option.some.injEq] at hj
    exact ⟨i, rfl, h, hj, SameB.refl i⟩
  | succ k ih =>
    intro i j h hfn hj
    simp only [Iter.repeatSkip] at hj
    cases hcn : Iter.currChunkNext (absIt E i) c with
    | none => rw [hcn] at hj; cases hj
    | some j1 =>
      rw [hcn] at hj
      simp only at hj
      obtain ⟨i1, e1, w1, a1, s1⟩ := currChunkNextB_sim hE h hfn hc hcn
      rw [← a1] at hj
      obtain ⟨i2, e2, w2, a2, s2⟩ := ih i1 j w1 (by rw [s1.fl]; exact hfn) hj
      refine ⟨i2, ?_, w2, a2, s1.trans s2⟩
      rw [repeatSkipB, e1]
      exact e2

theorem exclLoop_nil_ne (i : It) (n c allN : Nat) (h : allN ≠ n) :
    Iter.exclLoop i n c allN [] = none := by
  rw [Iter.exclLoop, if_neg (by simpa using h)]
  cases (if i.fl.incFN && allN ≥ c * i.cs then Iter.currChunkNext i c else some i) <;> rfl

theorem exclLoopB_sim {E : Env} (hE : E.OK) {n nChunk : Nat} (hc : nChunk ≤ E.maxDoc / E.cs) :
    ∀ (rest : List Nat) (i : ItB) (allN : Nat) (j : It) (arest' : List Nat), WF E i →
      Iter.exclLoop (absIt E i) n nChunk allN rest = some (j, arest') →
      ∃ i', exclLoopB E.K n nChunk i allN rest = .ok (i', arest') ∧ WF E i' ∧ absIt E i' = j ∧
        SameB i i' := by
  intro rest
  induction rest with
  | nil =>
    intro i allN j arest' h hj
    by_cases hn : allN = n
    · subst hn
      rw [Iter.exclLoop_done] at hj
      simp only [Option.some.injEq, Prod.mk.injEq] at hj
      refine ⟨i, ?_, h, hj.1, SameB.refl i⟩
      rw [exclLoopB]; simp [hj.2]
    · rw [exclLoop_nil_ne _ _ _ _ hn] at hj; cases hj
  | cons a r ih =>
    intro i allN j arest' h hj
    by_cases hn : allN = n
    · subst hn
      rw [Iter.exclLoop_done] at hj
      simp only [Option.some.injEq, Prod.mk.injEq] at hj
      refine ⟨i, ?_, h, hj.1, SameB.refl i⟩
      rw [exclLoopB]; simp [hj.2]
    · rw [Iter.exclLoop_step _ _ _ _ _ _ hn] at hj
      have hbne : (allN == n) = false := by simpa using hn
      have e1 : (absIt E i).fl.incFN = i.fl.incFN := rfl
      have e2 : (absIt E i).cs = i.cs := rfl
      rw [e1, e2] at hj
      cases hcond : (i.fl.incFN && decide (allN ≥ nChunk * i.cs)) with
      | false =>
        rw [hcond] at hj
        simp only [Bool.false_eq_true, if_false] at hj
        obtain ⟨i2, e2, w2, a2, s2⟩ := ih i a j arest' h hj
        refine ⟨i2, ?_, w2, a2, s2⟩
        rw [exclLoopB]
        simp only [hbne, Bool.false_eq_true, if_false, hcond]
        exact e2
      | true =>
        rw [hcond] at hj
        simp only [if_true] at hj
        have hfn : i.fl.incFN = true := by
          cases hh : i.fl.incFN with
          | true => rfl
          | false => rw [hh] at hcond; simp at hcond
        cases hcn : Iter.currChunkNext (absIt E i) nChunk with
        | none => rw [hcn] at hj; cases hj
        | some j1 =>
          rw [hcn] at hj
          simp only at hj
          obtain ⟨i1, e1, w1, a1, s1⟩ := currChunkNextB_sim hE h hfn hc hcn
          rw [← a1] at hj
          obtain ⟨i2, e2, w2, a2, s2⟩ := ih i1 a j arest' w1 hj
          refine ⟨i2, ?_, w2, a2, s1.trans s2⟩
          rw [exclLoopB]
          simp only [hbne, Bool.false_eq_true, if_false, hcond, if_true, e1]
          exact e2

/-! ### `nextDocB` -/

theorem mem_dropWhile {p : Nat → Bool} : ∀ {l : List Nat} {x : Nat}, x ∈ l.dropWhile p → x ∈ l := by
  intro l
  induction l with
  | nil => intro x h; exact h
  | cons a t ih =>
    intro x h
    rw [List.dropWhile_cons] at h
    split at h
    · exact List.mem_cons_of_mem _ (ih h)
    · exact h

theorem div_le_of_le {E : Env} {n : Nat} (h : n ≤ E.maxDoc) : n / E.cs ≤ E.maxDoc / E.cs :=
  Nat.div_le_div_right h

/-- entry level: what a successful `nextDoc` on the clean path with freq/norm did -/
theorem nextDoc_clean_fn_inv {i : It} {d n0 : Nat} {r0 : List Nat} {n c same : Nat} {rest : List Nat}
    {o : Option Nat} {j : It} (ha : i.act = n0 :: r0) (hc : i.clean = true) (hfn : i.fl.incFN = true)
    (hloop : Iter.cleanLoop i.cs d n0 (n0 / i.cs) 0 r0 = (n, c, same, rest))
    (h : Iter.nextDoc i d = some (o, j)) :
    (n < d ∧ o = none ∧ j = { i with act := rest, all := rest }) ∨
    (¬ n < d ∧ ∃ j1, Iter.repeatSkip same { i with act := rest, all := rest } c = some j1 ∧
      o = some n ∧ j = Iter.ensure j1 c) := by
  by_cases hn : n < d
  · rw [Iter.nextDoc_clean_fn_none i d n0 r0 n c same rest ha hc hfn hloop hn] at h
    cases h; exact Or.inl ⟨hn, rfl, rfl⟩
  · cases hrs : Iter.repeatSkip same { i with act := rest, all := rest } c with
    | none =>
      rw [Iter.nextDoc_clean_fn i d n0 r0 ha hc hfn, hloop] at h
      simp only [hn, if_false, hrs] at h
      cases h
    | some j1 =>
      rw [Iter.nextDoc_clean_fn_found i d n0 r0 n c same rest j1 ha hc hfn hloop hn hrs] at h
      cases h; exact Or.inr ⟨hn, j1, rfl, rfl, rfl⟩

theorem nextDoc_excl_loopnone (i : It) (d n : Nat) (r : List Nat) (allN : Nat) (arest : List Nat)
    (hc : i.clean = false) (hact : i.act.dropWhile (· < d) = n :: r) (hall : i.all = allN :: arest)
    (hloop : Iter.exclLoop { i with act := r } n (n / i.cs) allN arest = none) :
    Iter.nextDoc i d = none := by
  have hne : i.act ≠ [] := by intro e; rw [e] at hact; simp at hact
  rw [Iter.nextDoc_excl i d hne hc, hact]
  simp only
  split
  · rfl
  · rename_i a' r' heq
    rw [hall] at heq
    cases heq
    rw [hloop]

/-- entry level: what a successful `nextDoc` on the exclusion path did -/
theorem nextDoc_excl_inv {i : It} {d : Nat} {o : Option Nat} {j : It} (hne : i.act ≠ [])
    (hc : i.clean = false) (h : Iter.nextDoc i d = some (o, j)) :
    (i.act.dropWhile (· < d) = [] ∧ o = none ∧ j = { i with act := [] }) ∨
    (∃ n r allN arest j1 arest', i.act.dropWhile (· < d) = n :: r ∧ i.all = allN :: arest ∧
      Iter.exclLoop { i with act := r } n (n / i.cs) allN arest = some (j1, arest') ∧ o = some n ∧
      j = if j1.fl.incFN then Iter.ensure { j1 with all := arest' } (n / i.cs)
          else { j1 with all := arest' }) := by
  cases hdw : i.act.dropWhile (· < d) with
  | nil =>
    rw [Iter.nextDoc_excl_none i d hne hc hdw] at h
    cases h; exact Or.inl ⟨rfl, rfl, rfl⟩
  | cons n r =>
    right
    have hcases : i.all = [] ∨ ∃ a l, i.all = a :: l := by
      cases i.all with
      | nil => exact Or.inl rfl
      | cons a l => exact Or.inr ⟨a, l, rfl⟩
    rcases hcases with hall | ⟨allN, arest, hall⟩
    · rw [Iter.nextDoc_excl i d hne hc, hdw] at h
      simp only [hall] at h
      cases h
    · cases hex : Iter.exclLoop { i with act := r } n (n / i.cs) allN arest with
      | none =>
        rw [nextDoc_excl_loopnone i d n r allN arest hc hdw hall hex] at h
        cases h
      | some pr =>
        obtain ⟨j1, arest'⟩ := pr
        rw [Iter.nextDoc_excl_found i d n r allN arest j1 arest' hc hdw hall hex] at h
        cases h
        exact ⟨n, r, allN, arest, j1, arest', rfl, hall, hex, rfl, rfl⟩

theorem nextDocB_sim {E : Env} (hE : E.OK) {i : ItB} (h : WF E i) {d : Nat} {o : Option Nat} {j : It}
    (hj : Iter.nextDoc (absIt E i) d = some (o, j)) :
    ∃ i', nextDocB E.K i d = .ok (o, i') ∧ WF E i' ∧ absIt E i' = j ∧ i'.fl = i.fl := by
  have eact : (absIt E i).act = i.act := rfl
  cases hact : i.act with
  | nil =>
    rw [Iter.nextDoc_act_nil _ _ (eact.trans hact)] at hj
    simp only [Option.some.injEq, Prod.mk.injEq] at hj
    refine ⟨i, ?_, h, hj.2, rfl⟩
    unfold nextDocB; rw [hact]; simp [hj.1]
  | cons n0 r0 =>
  have hne : (absIt E i).act ≠ [] := by rw [eact, hact]; simp
  cases hcl : i.clean with
  | true =>
    have hcl' : (absIt E i).clean = true := hcl
    cases hfn : i.fl.incFN with
    | false =>
      have hfn' : (absIt E i).fl.incFN = false := hfn
      rw [Iter.nextDoc_clean_nofn _ _ hne hcl' hfn', eact] at hj
      cases hdw : i.act.dropWhile (· < d) with
      | nil =>
        rw [hdw] at hj
        simp only [Option.some.injEq, Prod.mk.injEq] at hj
        refine ⟨{ i with act := [], all := [] }, ?_, ?_, hj.2, rfl⟩
        · unfold nextDocB
          rw [hact] at hdw ⊢
          simp only [hcl, if_true, hfn, Bool.not_false, hdw, hj.1]
        · exact h.frame rfl rfl rfl rfl rfl rfl (fun n hn => by cases hn)
      | cons n r =>
        rw [hdw] at hj
        simp only [Option.some.injEq, Prod.mk.injEq] at hj
        refine ⟨{ i with act := r, all := r }, ?_, ?_, hj.2, rfl⟩
        · unfold nextDocB
          rw [hact] at hdw ⊢
          simp only [hcl, if_true, hfn, Bool.not_false, hdw, hj.1]
        · refine h.frame rfl rfl rfl rfl rfl rfl (fun m hm => h.act m ?_)
          apply mem_dropWhile (p := (· < d))
          rw [hdw]; exact List.mem_cons_of_mem _ hm
    | true =>
      have hfn' : (absIt E i).fl.incFN = true := hfn
      rcases hloop : cleanLoopB i.cs d n0 (n0 / i.cs) 0 r0 with ⟨n, nChunk, same, rest⟩
      have hloop' : Iter.cleanLoop (absIt E i).cs d n0 (n0 / (absIt E i).cs) 0 r0 =
          (n, nChunk, same, rest) := by
        rw [← cleanLoopB_eq]; exact hloop
      obtain ⟨hch, hmem, hrest⟩ := cleanLoopB_facts _ _ _ _ _ _ _ _ _ hloop
      have hnle : n ≤ E.maxDoc := by
        apply h.act; rw [hact]
        rcases hmem with rfl | hm
        · simp
        · exact List.mem_cons_of_mem _ hm
      have hcle : nChunk ≤ E.maxDoc / E.cs := by
        rw [hch, h.cs]; exact div_le_of_le hnle
      have w0 : WF E { i with act := rest, all := rest } :=
        h.frame rfl rfl rfl rfl rfl rfl
          (fun m hm => h.act m (by rw [hact]; exact List.mem_cons_of_mem _ (hrest m hm)))
      rcases nextDoc_clean_fn_inv (eact.trans hact) hcl' hfn' hloop' hj with
        ⟨hnd, rfl, rfl⟩ | ⟨hnd, j1, hrs, rfl, rfl⟩
      · refine ⟨{ i with act := rest, all := rest }, ?_, w0, rfl, rfl⟩
        unfold nextDocB
        rw [hact]
        simp only [hcl, if_true, hfn, Bool.not_true, Bool.false_eq_true, if_false, hloop, hnd]
      · obtain ⟨i1, e1, w1, a1, s1⟩ := repeatSkipB_sim hE hcle same
          { i with act := rest, all := rest } j1 w0 hfn hrs
        have hfn1 : i1.fl.incFN = true := by rw [s1.fl]; exact hfn
        obtain ⟨i2, e2, w2, a2, s2⟩ := ensureB_sim hE w1 hfn1 hcle
        refine ⟨i2, ?_, w2, ?_, by rw [s2.fl, s1.fl]⟩
        · simp only [hcl] at e1
          unfold nextDocB
          rw [hact]
          simp only [hcl, if_true, hfn, Bool.not_true, Bool.false_eq_true, if_false, hloop, hnd, e1,
            e2]
        · rw [a2, a1]
  | false =>
    have hcl' : (absIt E i).clean = false := hcl
    rcases nextDoc_excl_inv hne hcl' hj with
      ⟨hdw, rfl, rfl⟩ | ⟨n, r, allN, arest, j1, arest', hdw, hall, hex, rfl, rfl⟩
    · have hdw' : i.act.dropWhile (· < d) = [] := hdw
      refine ⟨{ i with act := [] }, ?_, ?_, rfl, rfl⟩
      · unfold nextDocB
        rw [hact] at hdw' ⊢
        simp only [hcl, Bool.false_eq_true, if_false, hdw']
      · exact h.frame rfl rfl rfl rfl rfl rfl (fun n hn => by cases hn)
    · have hdw' : i.act.dropWhile (· < d) = n :: r := hdw
      have hall' : i.all = allN :: arest := hall
      have hnmem : n ∈ i.act := by
        apply mem_dropWhile (p := (· < d)); rw [hdw']; simp
      have hcle : n / i.cs ≤ E.maxDoc / E.cs := by
        rw [h.cs]; exact div_le_of_le (h.act n hnmem)
      have w0 : WF E { i with act := r } :=
        h.frame rfl rfl rfl rfl rfl rfl (fun m hm => h.act m (by
          apply mem_dropWhile (p := (· < d)); rw [hdw']; exact List.mem_cons_of_mem _ hm))
      obtain ⟨i1, e1, w1, a1, s1⟩ :=
        exclLoopB_sim hE hcle arest { i with act := r } allN j1 arest' w0 hex
      have efl : j1.fl.incFN = i1.fl.incFN := by rw [← a1]; rfl
      have w1' : WF E { i1 with all := arest' } := w1.frame rfl rfl rfl rfl rfl rfl w1.act
      have eabs1 : ({ j1 with all := arest' } : It) = absIt E { i1 with all := arest' } := by
        rw [← a1]; rfl
      cases hfn1 : i1.fl.incFN with
      | false =>
        refine ⟨{ i1 with all := arest' }, ?_, w1', ?_, s1.fl⟩
        · simp only [hcl, hall'] at e1
          unfold nextDocB
          rw [hact] at hdw' ⊢
          simp only [hcl, Bool.false_eq_true, if_false, hdw', hall', e1, hfn1]
        · rw [efl, hfn1, ← eabs1]; rfl
      | true =>
        obtain ⟨i2, e2, w2, a2, s2⟩ :=
          ensureB_sim hE w1' (show ({ i1 with all := arest' } : ItB).fl.incFN = true from hfn1) hcle
        refine ⟨i2, ?_, w2, ?_, s2.fl.trans s1.fl⟩
        · simp only [hcl, hall'] at e1
          unfold nextDocB
          rw [hact] at hdw' ⊢
          simp only [hcl, Bool.false_eq_true, if_false, hdw', hall', e1, hfn1, if_true, e2]
        · rw [a2, efl, hfn1, ← eabs1]; rfl

/-! ### `stepB`, `runB` -/

theorem stepB_eq (K : Codec) (i : ItB) (op : IterOp) :
    stepB K i op = match nextDocB K i (Iter.dOf op) with
      | .ok (none, i) => .ok (none, i)
      | .ok (some n, i) => deliverB i n
      | .err => .err
      | .panic => .panic := by
  cases op <;> rfl

theorem stepB_sim {E : Env} (hE : E.OK) {i : ItB} (h : WF E i) {op : IterOp} {o : Option Posting}
    {j : It} (hj : Iter.step (absIt E i) op = some (o, j)) :
    ∃ i', stepB E.K i op = .ok (o, i') ∧ WF E i' ∧ absIt E i' = j ∧ i'.fl = i.fl := by
  rw [Iter.step_eq] at hj
  cases hnd : Iter.nextDoc (absIt E i) (Iter.dOf op) with
  | none => rw [hnd] at hj; cases hj
  | some pr =>
    obtain ⟨on, j1⟩ := pr
    rw [hnd] at hj
    obtain ⟨i1, e1, w1, a1, f1⟩ := nextDocB_sim hE h hnd
    cases on with
    | none =>
      simp only [Option.some.injEq, Prod.mk.injEq] at hj
      refine ⟨i1, ?_, w1, a1.trans hj.2, f1⟩
      rw [stepB_eq, e1, ← hj.1]
    | some n =>
      simp only at hj
      rw [← a1] at hj
      obtain ⟨i2, e2, w2, a2, f2⟩ := deliverB_sim hE w1 hj
      refine ⟨i2, ?_, w2, a2, f2.trans f1⟩
      rw [stepB_eq, e1]
      exact e2

/-- an entry-level answer as a byte-level one (`none`, a fault, does not occur below) -/
def resOf : Option (Option Posting) → Res (Option Posting)
  | some r => .ok r
  | none => .err

theorem runB_sim {E : Env} (hE : E.OK) : ∀ (ops : List IterOp) (i : ItB), WF E i →
    (∀ x ∈ Iter.run (absIt E i) ops, x ≠ none) →
    runB E.K i ops = (Iter.run (absIt E i) ops).map resOf := by
  intro ops
  induction ops with
  | nil => intro i _ _; rfl
  | cons op ops ih =>
    intro i h hno
    cases hs : Iter.step (absIt E i) op with
    | none =>
      exfalso
      apply hno none _ rfl
      simp [Iter.run, hs]
    | some pr =>
      obtain ⟨o, j⟩ := pr
      obtain ⟨i', e, w, a, _⟩ := stepB_sim hE h hs
      have hrun : Iter.run (absIt E i) (op :: ops) = some o :: Iter.run j ops := by
        simp [Iter.run, hs]
      rw [hrun] at hno ⊢
      simp only [runB, e, List.map_cons, resOf]
      rw [ih i' w (by rw [a]; intro x hx; exact hno x (List.mem_cons_of_mem _ hx)), a]

end Ice.Model.IterBytes
