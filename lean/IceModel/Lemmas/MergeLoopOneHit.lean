import IceModel.Lemmas.MergeLoopStats
/-
  The 1-hit decision of `finishTerm` (merge.go:471-479) in terms of the entries of the term.
-/
namespace Ice.Model.MergeLoop
open Ice Ice.Spec

/-- the new document numbers written for term `k` are strictly ascending and fit `uint32` -/
def DocsAsc (active : List Active) (k : Bytes) : Prop :=
  ((allItems (segsOf active k)).map (fun np => np.1)).Pairwise (· < ·) ∧
  ∀ np ∈ allItems (segsOf active k), np.1 < 2 ^ 32

/-- the last segment whose dictionary holds `k` still has a posting of `k` after the deletions -/
def LastHolderContributes (active : List Active) (k : Bytes) : Prop :=
  ∃ q, (segsOf active k).getLast? = some q ∧ q.2 ≠ []

theorem groupCur_roaring (cfg : Cfg) (active : List Active) (k : Bytes) (h : DocsAsc active k) :
    (groupCur cfg active k).roaring = (allItems (segsOf active k)).map (fun np => np.1) := by
  have : (allItems (segsOf active k)).map (fun np => u32 np.1) =
      (allItems (segsOf active k)).map (fun np => np.1) := by
    apply List.map_congr_left
    intro np hnp
    exact Nat.mod_eq_of_lt (h.2 np hnp)
  simp only [groupCur, this]
  exact bmAddAll_sorted _ h.1

theorem last_of_singleton {Q : List (Active × List Posting)} {q : Active × List Posting}
    {np : Nat × Posting} (hq : Q.getLast? = some q) (hits : allItems Q = [np])
    (hne : itemsOf q ≠ []) : itemsOf q = [np] := by
  obtain ⟨Q', rfl⟩ : ∃ Q', Q = Q' ++ [q] := by
    rcases List.eq_nil_or_concat Q with h | ⟨Q', b, h⟩
    · subst h; cases hq
    · have h' : Q = Q' ++ [b] := by simpa using h
      subst h'
      rw [List.getLast?_concat] at hq
      cases hq
      exact ⟨Q', rfl⟩
  simp only [allItems, List.flatMap_append, List.flatMap_cons, List.flatMap_nil,
    List.append_nil] at hits
  rcases hA : Q'.flatMap itemsOf with _ | ⟨a, A⟩
  · rw [hA] at hits; simpa using hits
  · rw [hA] at hits
    rcases hB : itemsOf q with _ | ⟨b, B⟩
    · exact absurd hB hne
    · rw [hB] at hits
      have := congrArg List.length hits
      simp at this

theorem under32Bits_iff (d : Nat) : under32Bits d = true ↔ d < 2 ^ 31 := by
  unfold under32Bits mask31
  simp only [decide_eq_true_eq]
  omega

/-- **the 1-hit decision** for the term `k` -/
theorem use1HitC_iff (cfg : Cfg) (active : List Active) (k : Bytes) (h : DocsAsc active k)
    (v : Nat) :
    use1HitC (groupCur cfg active k) = some v ↔
      ∃ np, allItems (segsOf active k) = [np] ∧ np.2.freq = 1 ∧ np.2.locs = [] ∧
        np.1 < 2 ^ 31 ∧ LastHolderContributes active k ∧ v = encode1Hit np.1 np.2.norm := by
  have hr := groupCur_roaring cfg active k h
  constructor
  · intro hu
    unfold use1HitC at hu
    rw [hr] at hu
    split at hu
    · next hc =>
      simp only [Bool.and_eq_true, decide_eq_true_eq, List.length_map, Bool.not_eq_true'] at hc
      obtain ⟨hlen, hloc⟩ := hc
      obtain ⟨np, hnp⟩ : ∃ np, allItems (segsOf active k) = [np] := by
        rcases hits : allItems (segsOf active k) with _ | ⟨a, _ | ⟨b, r⟩⟩
        · rw [hits] at hlen; simp at hlen
        · exact ⟨a, rfl⟩
        · rw [hits] at hlen; simp at hlen
      simp only [hnp, List.map_cons, List.map_nil, List.head?_cons] at hu
      split at hu
      · next hc2 =>
        simp only [Bool.and_eq_true, beq_iff_eq] at hc2
        obtain ⟨⟨h31, hlast⟩, hfreq⟩ := hc2
        cases hu
        -- the last holder
        have hld : (groupCur cfg active k).locData = false := hloc
        simp only [groupCur, hnp, List.any_cons, List.any_nil, Bool.or_false,
          Bool.not_eq_false'] at hld
        rcases hq : (segsOf active k).getLast? with _ | q
        · have : segsOf active k = [] := by
            cases hs : segsOf active k with
            | nil => rfl
            | cons a r => rw [hs] at hq; simp [List.getLast?_cons] at hq
          rw [this] at hnp; cases hnp
        · have hne : itemsOf q ≠ [] := by
            intro he
            simp only [groupCur, hq, he, List.getLast?_nil] at hfreq
            cases hfreq
          have hq1 := last_of_singleton hq hnp hne
          simp only [groupCur, hq, hq1, List.getLast?_singleton] at hfreq hlast ⊢
          refine ⟨np, hnp, hfreq, ?_, (under32Bits_iff _).1 h31, ⟨q, hq, ?_⟩, ?_⟩
          · cases hl : np.2.locs with
            | nil => rfl
            | cons a r => rw [hl] at hld; simp at hld
          · intro he
            apply hne
            simp [itemsOf, he]
          · rfl
      · cases hu
    · cases hu
  · rintro ⟨np, hnp, hfreq, hlocs, h31, ⟨q, hq, hq2⟩, rfl⟩
    have hne : itemsOf q ≠ [] := by
      intro he
      apply hq2
      simpa [itemsOf] using he
    have hq1 := last_of_singleton hq hnp hne
    unfold use1HitC
    rw [hr]
    have hld : (groupCur cfg active k).locData = false := by
      simp [groupCur, hnp, hlocs]
    have h1 : (groupCur cfg active k).lastDocNum = np.1 := by
      simp [groupCur, hq, hq1]
    have h2 : (groupCur cfg active k).lastFreq = 1 := by
      simp [groupCur, hq, hq1, hfreq]
    have h3 : (groupCur cfg active k).lastNorm = np.2.norm := by
      simp [groupCur, hq, hq1]
    simp [hnp, hld, h1, h2, h3, (under32Bits_iff _).2 h31]

/-! ### the abstraction of `Spec.merge` writes ascending document numbers -/

theorem postings_doc_sorted_aux (f t : Bytes) : ∀ (l : List ADoc) (k : Nat),
    (((l.zipIdx k).filterMap (fun q => postingOf q.1 q.2 f t)).map (·.doc)).Pairwise (· < ·) ∧
    ∀ p ∈ (l.zipIdx k).filterMap (fun q => postingOf q.1 q.2 f t), k ≤ p.doc := by
  intro l
  induction l with
  | nil => intro k; simp
  | cons d r ih =>
    intro k
    obtain ⟨h1, h2⟩ := ih (k + 1)
    simp only [List.zipIdx_cons, List.filterMap_cons]
    cases hp : postingOf d k f t with
    | none =>
      exact ⟨h1, fun p hp' => by have := h2 p hp'; omega⟩
    | some x =>
      have hx := postingOf_doc hp
      constructor
      · simp only [List.map_cons, List.pairwise_cons]
        refine ⟨?_, h1⟩
        intro y hy
        obtain ⟨p, hp', rfl⟩ := List.mem_map.1 hy
        have := h2 p hp'
        omega
      · intro p hp'
        rcases List.mem_cons.1 hp' with rfl | hp'
        · omega
        · have := h2 p hp'; omega

theorem postings_doc_sorted (s : AbsSeg) (f t : Bytes) :
    ((postings s f t).map (·.doc)).Pairwise (· < ·) :=
  (postings_doc_sorted_aux f t s.docs 0).1

end Ice.Model.MergeLoop
