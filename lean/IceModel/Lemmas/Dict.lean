import IceModel.Model.Dict
import IceModel.Lemmas.Bits
/-
  Lemmas on the dictionary / postings-list model: what `read` produces for the two encodings,
  `count`/`orInto`/`iterDocs` of the result, lookups in `dictionary` and `fstGet`.
-/
namespace Ice.Model.Dict
open Ice Ice.Model

/-! ### `read` -/

/-- a 1-hit value only sets the offset and the two 1-hit fields (whatever the version) -/
theorem read_1hit (ver : Version) (s : Seg) (p : PL) (v : Nat) (h : is1Hit v = true) :
    read ver s p v = .ok { p with postingsOffset := v, docNum1Hit := (decode1Hit v).1,
                                  normBits1Hit := (decode1Hit v).2 } := by
  simp [read, h]

/-- a readable general value, after the fix: the 1-hit markers are cleared -/
theorem read_fixed_general (s : Seg) (p : PL) (v : Nat) (r : Rec) (h : is1Hit v = false)
    (hs : s.store v = some r) (hm : s.chunkMode ≤ 1025) :
    ∃ cs, read fixed s p v = .ok { p with
      postingsOffset := v, docNum1Hit := 0, normBits1Hit := 0, freqOffset := r.freqOffset,
      locOffset := (if r.locOffset > 0 ∧ r.freqOffset > 0 then r.locOffset + r.freqOffset
                    else r.locOffset),
      postings := some r.docs, chunkSize := cs } := by
  obtain ⟨cs, hcs⟩ := getChunkSize_ok s.chunkMode r.docs.length s.numDocs hm
  refine ⟨cs, ?_⟩
  simp [read, h, hs, hcs, fixed]

/-- an unreadable general value is an error -/
theorem read_unreadable (ver : Version) (s : Seg) (p : PL) (v : Nat) (h : is1Hit v = false)
    (hs : s.store v = none) : read ver s p v = .err := by
  simp [read, h, hs]

/-! ### `count`, `orInto`, `iterDocs` -/

theorem count_1hit (p : PL) (hn : p.normBits1Hit ≠ 0) (he : p.except = none) : count p = 1 := by
  simp [count, hn, he]

theorem count_general (p : PL) (ds : List Nat) (hn : p.normBits1Hit = 0) (he : p.except = none)
    (hp : p.postings = some ds) : count p = ds.length := by
  simp [count, hn, he, hp]

theorem iterDocs_fixed_general (p : PL) (ds : List Nat) (hn : p.normBits1Hit = 0)
    (he : p.except = none) (hp : p.postings = some ds) (hs : p.hasSeg = true) :
    iterDocs fixed p = .ok ds := by
  cases ds <;> simp [iterDocs, hn, he, hp, hs, fixed]

/-! ### lookups -/

theorem dictionary_none (s : Seg) (f : Bytes) (h : (dictionary s f).fst = none) :
    dictionary s f = { hasSeg := false, fst := none } := by
  unfold dictionary at *
  split at h <;> simp_all

theorem dictionary_some (s : Seg) (f : Bytes) (fst : List (Bytes × Nat))
    (h : (dictionary s f).fst = some fst) :
    (dictionary s f).hasSeg = true ∧ ∃ fe ∈ s.fields, fe.2 = fst := by
  unfold dictionary at *
  split at h
  · simp at h
  · rename_i p hp
    simp at h
    exact ⟨rfl, p, List.mem_of_find?_eq_some hp, h⟩

theorem dictionary_unknown (s : Seg) (f : Bytes) (hf : ∀ fe ∈ s.fields, fe.1 ≠ f) :
    dictionary s f = { hasSeg := false, fst := none } := by
  unfold dictionary
  have : s.fields.find? (fun p => p.1 == f) = none := by
    simp only [List.find?_eq_none]
    intro x hx
    simpa using hf x hx
  simp [this]

theorem fstGet_mem (fst : List (Bytes × Nat)) (t : Bytes) (v : Nat) (h : fstGet fst t = some v) :
    ∃ e ∈ fst, e.2 = v := by
  unfold fstGet at h
  cases hfd : fst.find? (fun p => p.1 == t) with
  | none => simp [hfd] at h
  | some e =>
    simp [hfd] at h
    exact ⟨e, List.mem_of_find?_eq_some hfd, h⟩

end Ice.Model.Dict
